(* C33 -- proofs about Model/Trusted.v (PROXY protocol headers only from trusted upstreams). *)
From Coq Require Import List NArith ZArith Bool Lia ZifyN ZifyBool ZifyNat String.
From Verif Require Import Base.Hex Base.Ip Model.Trusted.
Import ListNotations.
Open Scope N_scope.
Open Scope bool_scope.

(* ---------- trusted lists produced by the parser are made of valid, well-formed prefixes ---------- *)

Definition good_prefix (p : prefix) : Prop := prefix_valid p = true /\ wf_addr (paddr p).
Definition good_trusted (t : trusted) : Prop := Forall good_prefix t.

Lemma is4in6_false_unmap a : is4in6 a = false -> unmap a = a.
Proof. unfold unmap. intros ->. reflexivity. Qed.

Lemma parse_network_good s p : parse_network s = Some p -> good_prefix p.
Proof.
  unfold parse_network. destruct (mem 47 s).
  - destruct (parse_prefix s) as [q|] eqn:Eq; [|discriminate].
    destruct (is4in6 (paddr q)) eqn:E4; [discriminate|]. intros H. injection H as <-.
    apply parse_prefix_valid in Eq. destruct Eq as [Hv Hw].
    rewrite (is4in6_false_unmap _ E4).
    assert (Hv' : prefix_valid (mkPrefix (strip_zone (paddr q)) (plen q)) = true).
    { unfold prefix_valid in *. cbn [paddr plen]. unfold strip_zone. rewrite with_zone_fam. exact Hv. }
    split.
    + rewrite masked_valid. exact Hv'.
    + apply masked_wf; [exact Hv'|]. cbn [paddr]. apply with_zone_wf. exact Hw.
  - destruct (parse_addr s) as [a|] eqn:Ea; [|discriminate].
    destruct (is4in6 a) eqn:E4; [discriminate|]. intros H. injection H as <-.
    rewrite (is4in6_false_unmap _ E4). split.
    + unfold prefix_valid. cbn [paddr plen]. unfold strip_zone. rewrite with_zone_fam. apply N.leb_refl.
    + cbn [paddr]. apply with_zone_wf. eapply parse_addr_wf; exact Ea.
Qed.

Lemma parse_trusted_good l : forall t, parse_trusted l = Some t -> good_trusted t.
Proof.
  induction l as [|s r IH]; intros t H; cbn [parse_trusted] in H.
  - injection H as <-. constructor.
  - destruct (parse_network (trim_space s)) as [p|] eqn:Ep; [|discriminate].
    destruct (parse_trusted r) as [t'|]; [|discriminate]. injection H as <-.
    constructor; [eapply parse_network_good; exact Ep|apply IH; reflexivity].
Qed.

(* ---------- contains_iff_prefix_bits ---------- *)

Lemma norm_peer_ip_wf a : wf_addr a -> wf_addr (norm_peer_ip a) /\ zone (norm_peer_ip a) = [].
Proof.
  intros H. unfold norm_peer_ip. pose proof (unmap_wf _ H) as Hu. split.
  - apply with_zone_wf. exact Hu.
  - apply strip_zone_zone. exact Hu.
Qed.

(* a peer is trusted iff its host parses as an IP whose normal form (unmapped, zone dropped)
   has the family of some trusted prefix and the same leading plen bits *)
Theorem trusted_iff_prefix_bits t host :
  good_trusted t ->
  (contains_str t host = true <->
   exists a p, parse_addr host = Some a /\ In p t /\
     fam (norm_peer_ip a) = fam (paddr p) /\
     forall i, bit_len (fam (paddr p)) - plen p <= i < bit_len (fam (paddr p)) ->
               N.testbit (abits (norm_peer_ip a)) i = N.testbit (abits (paddr p)) i).
Proof.
  intros Hg. unfold contains_str. destruct (parse_addr host) as [a|] eqn:Ea.
  - unfold contains_addr. rewrite existsb_exists.
    destruct (norm_peer_ip_wf a (parse_addr_wf _ _ Ea)) as [Hw Hz]. split.
    + intros [p [Hin Hc]]. unfold good_trusted in Hg. rewrite Forall_forall in Hg.
      destruct (Hg p Hin) as [Hv Hwp].
      apply (contains_iff_bits p _ Hv Hw Hwp) in Hc. destruct Hc as [_ [Hf Hb]].
      exists a, p. repeat split; try assumption. rewrite <- Hf. exact Hb.
    + intros [a' [p [Ha' [Hin [Hf Hb]]]]]. injection Ha' as <-. exists p. split; [exact Hin|].
      unfold good_trusted in Hg. rewrite Forall_forall in Hg. destruct (Hg p Hin) as [Hv Hwp].
      apply (contains_iff_bits p _ Hv Hw Hwp). repeat split; try assumption. rewrite Hf. exact Hb.
  - split; [discriminate|]. intros [a [p [H _]]]. discriminate.
Qed.

(* ---------- mapped_equivalence ---------- *)

Lemma v4_addr_shape a : wf_addr a -> fam a = V4 -> a = mkAddr V4 (abits a) [] /\ N.shiftr (abits a) 32 = 0xffff.
Proof.
  intros [_ Hf] E. destruct (Hf E) as [Hs Hz]. destruct a as [f b z]. cbn in *. subst. split; reflexivity || exact Hs.
Qed.

Lemma norm_mapped a z : wf_addr a -> fam a = V4 ->
  norm_peer_ip (mkAddr V6 (abits a) z) = norm_peer_ip a.
Proof.
  intros Hw Hf. destruct (v4_addr_shape a Hw Hf) as [Ea Hs]. unfold norm_peer_ip.
  rewrite (unmap_mapped _ z Hs). rewrite (unmap_v4 a Hf). rewrite <- Ea. reflexivity.
Qed.

Lemma v4_text_no_percent d a : parse_addr d = Some a -> fam a = V4 -> mem 37 d = false.
Proof.
  intros H Hf. unfold parse_addr in H. apply parse_addr_scan_cases in H.
  destruct H as [H|H]; [|apply parse_ipv6_fam in H; congruence].
  apply parse_ipv4_inv in H. destruct H as [f [Hp _]].
  apply (mem_digits_dots 37 d (v4_loop_chars _ _ _ _ _ _ Hp)); [reflexivity|discriminate].
Qed.

(* the text ::ffff:a.b.c.d (with or without a zone) is trusted exactly when a.b.c.d is *)
Theorem mapped_equivalence t d a :
  parse_addr d = Some a -> fam a = V4 ->
  contains_str t (mapped_prefix ++ d) = contains_str t d /\
  forall z, z <> [] -> contains_str t ((mapped_prefix ++ d) ++ 37 :: z) = contains_str t d.
Proof.
  intros H Hf. pose proof (parse_addr_wf _ _ H) as Hw.
  pose proof (parse_addr_mapped d a H Hf) as Hm. split.
  - unfold contains_str. rewrite Hm, H. unfold contains_addr. rewrite (norm_mapped a [] Hw Hf). reflexivity.
  - intros z Hz.
    assert (Hp : mem 37 (mapped_prefix ++ d) = false).
    { unfold mapped_prefix. cbn [app mem]. rewrite (v4_text_no_percent d a H Hf). reflexivity. }
    unfold contains_str. rewrite (parse_addr_zone _ z _ Hp Hz Hm eq_refl), H.
    unfold contains_addr, with_zone. cbn [fam abits]. rewrite (norm_mapped a z Hw Hf). reflexivity.
Qed.

(* ---------- zone_ignored ---------- *)

Lemma norm_with_zone z a : fam a = V6 -> norm_peer_ip (with_zone z a) = norm_peer_ip a.
Proof.
  intros Hf. unfold norm_peer_ip, with_zone. rewrite Hf. unfold unmap, is4in6. cbn [fam abits]. rewrite Hf.
  destruct (N.shiftr (abits a) 32 =? 65535); [reflexivity|].
  unfold strip_zone, with_zone. cbn [fam abits]. rewrite Hf. reflexivity.
Qed.

Theorem zone_ignored t s z a :
  mem 37 s = false -> z <> [] -> parse_addr s = Some a -> fam a = V6 ->
  contains_str t (s ++ 37 :: z) = contains_str t s.
Proof.
  intros Hm Hz H Hf. unfold contains_str. rewrite (parse_addr_zone s z a Hm Hz H Hf), H.
  unfold contains_addr. rewrite (norm_with_zone z a Hf). reflexivity.
Qed.

(* ---------- non_ip_never_trusted ---------- *)

Lemma no_dot_no_colon_scan h : forall w, mem 46 h = false -> mem 58 h = false -> parse_addr_scan h w = None.
Proof.
  induction h as [|c r IH]; intros w H1 H2; [reflexivity|].
  cbn [mem] in H1, H2. apply orb_false_iff in H1, H2. destruct H1 as [H1 H1'], H2 as [H2 H2'].
  cbn [parse_addr_scan]. rewrite H1, H2. destruct (c =? 37); [reflexivity|]. apply IH; assumption.
Qed.

Lemma no_dot_no_colon_not_ip h : mem 46 h = false -> mem 58 h = false -> parse_addr h = None.
Proof. intros H1 H2. apply no_dot_no_colon_scan; assumption. Qed.

Theorem non_ip_never_trusted t :
  policy_of t None = REJECT /\
  (forall s, parse_addr (host_of s) = None -> policy_of t (Some s) = REJECT) /\
  (forall s, mem 46 (host_of s) = false -> mem 58 (host_of s) = false -> policy_of t (Some s) = REJECT).
Proof.
  split; [reflexivity|]. split.
  - intros s H. unfold policy_of, contains_peer, contains_str. rewrite H. reflexivity.
  - intros s H1 H2. unfold policy_of, contains_peer, contains_str.
    rewrite (no_dot_no_colon_not_ip _ H1 H2). reflexivity.
Qed.

(* ---------- the effect table ---------- *)

Theorem header_only_from_trusted t peer fb :
  effect (policy_of t peer) fb = spec_effect (spec_trusted_peer t peer) fb /\
  (fst (effect (policy_of t peer) fb) = RemoteHeaderSource -> contains_peer t peer = true /\ fb = HdrProxy) /\
  (contains_peer t peer = false -> fb <> NoHdr -> effect (policy_of t peer) fb = (RemotePeer, ReadFailsSuperfluous)) /\
  (fb = NoHdr -> effect (policy_of t peer) fb = (RemotePeer, ReadPayload)) /\
  (contains_peer t peer = true -> fb = HdrProxy -> effect (policy_of t peer) fb = (RemoteHeaderSource, ReadPayload)).
Proof.
  unfold policy_of, spec_trusted_peer. destruct (contains_peer t peer); destruct fb; cbn;
    repeat split; intros; try congruence; try discriminate.
Qed.

(* ---------- parse_accepts_iff ---------- *)

Theorem parse_network_accepts_iff s :
  (exists p, parse_network s = Some p) <->
  (mem 47 s = false /\ exists a, parse_addr s = Some a /\ is4in6 a = false) \/
  (mem 47 s = true /\ exists q, parse_prefix s = Some q /\ is4in6 (paddr q) = false).
Proof.
  unfold parse_network. destruct (mem 47 s).
  - destruct (parse_prefix s) as [q|].
    + destruct (is4in6 (paddr q)) eqn:E.
      * split; [intros [p H]; discriminate|]. intros [[H _]|[_ [q' [H1 H2]]]]; [discriminate|]. congruence.
      * split; [|eexists; reflexivity]. intros _. right. split; [reflexivity|]. exists q. split; [reflexivity|exact E].
    + split; [intros [p H]; discriminate|]. intros [[H _]|[_ [q' [H1 _]]]]; discriminate.
  - destruct (parse_addr s) as [a|].
    + destruct (is4in6 a) eqn:E.
      * split; [intros [p H]; discriminate|]. intros [[_ [a' [H1 H2]]]|[H _]]; [congruence|discriminate].
      * split; [|eexists; reflexivity]. intros _. left. split; [reflexivity|]. exists a. split; [reflexivity|exact E].
    + split; [intros [p H]; discriminate|]. intros [[_ [a' [H1 _]]]|[H _]]; discriminate.
Qed.

(* masking never turns a non-mapped IPv6 address into an IPv4-mapped one *)
Lemma masked_not_mapped q : prefix_valid q = true -> wf_addr (paddr q) ->
  is4in6 (paddr q) = false -> is4in6 (paddr (masked q)) = false.
Proof.
  intros Hv [Hb _] E. unfold is4in6 in *. rewrite masked_fam. destruct (fam (paddr q)) eqn:Ef; [reflexivity|].
  apply N.leb_le in Hv. rewrite Ef in Hv. cbn [bit_len] in Hv.
  apply N.eqb_neq. apply N.eqb_neq in E. intros Hc. apply E.
  assert (Hbit : forall j, N.testbit (abits (paddr (masked q))) (j + 32) = N.testbit 65535 j).
  { intros j. rewrite <- Hc, N.shiftr_spec by lia. reflexivity. }
  assert (Hplen : 128 - plen q <= 32).
  { specialize (Hbit 0). rewrite masked_bits_in in Hbit by (rewrite Ef; exact Hv).
    rewrite Ef in Hbit. cbn [bit_len] in Hbit. change (N.testbit 65535 0) with true in Hbit.
    apply andb_true_iff in Hbit. destruct Hbit as [Hbit _]. apply andb_true_iff in Hbit. destruct Hbit as [_ Hbit].
    apply N.leb_le in Hbit. exact Hbit. }
  apply N.bits_inj. intros j. rewrite N.shiftr_spec by lia. rewrite <- Hbit.
  rewrite masked_bits_in by (rewrite Ef; exact Hv). rewrite Ef. cbn [bit_len].
  replace (128 - plen q <=? j + 32) with true by (symmetry; apply N.leb_le; lia). rewrite andb_true_r.
  destruct (N.ltb_spec (j + 32) 128) as [Hlt|Hge]; [rewrite andb_true_r; reflexivity|].
  rewrite andb_false_r. apply (bits_above _ 128); assumption.
Qed.

Lemma strip_zone_id a : zone a = [] -> strip_zone a = a.
Proof. destruct a as [f b z]. cbn. intros ->. unfold strip_zone, with_zone. cbn. destruct f; reflexivity. Qed.

(* what an accepted plain IP entry becomes: the full-length prefix of that address, zone dropped *)
Theorem parse_network_ip_result s p : mem 47 s = false -> parse_network s = Some p ->
  exists a, parse_addr s = Some a /\ is4in6 a = false /\
            p = mkPrefix (strip_zone a) (bit_len (fam a)) /\ zone (paddr p) = [] /\
            prefix_valid p = true /\ wf_addr (paddr p).
Proof.
  intros Hm H. destruct (parse_network_good s p H) as [Hv Hw]. revert H. unfold parse_network. rewrite Hm.
  destruct (parse_addr s) as [a|] eqn:Ea; [|discriminate].
  destruct (is4in6 a) eqn:E4; [discriminate|]. rewrite (is4in6_false_unmap _ E4). intros H. injection H as <-.
  exists a. split; [reflexivity|]. split; [exact E4|]. split; [reflexivity|].
  split; [|split; assumption]. cbn [paddr]. apply strip_zone_zone. eapply parse_addr_wf; exact Ea.
Qed.

(* what an accepted CIDR entry becomes: ParsePrefix's result, masked; not IPv4-mapped; host bits zero;
   it contains exactly what the unmasked prefix contains *)
Theorem parse_network_cidr_result s p : mem 47 s = true -> parse_network s = Some p ->
  exists q, parse_prefix s = Some q /\ is4in6 (paddr q) = false /\ p = masked q /\
            prefix_valid p = true /\ wf_addr (paddr p) /\ zone (paddr p) = [] /\ is4in6 (paddr p) = false /\
            (forall i, i < bit_len (fam (paddr p)) - plen p -> N.testbit (abits (paddr p)) i = false) /\
            (forall a, contains p a = contains q a).
Proof.
  intros Hm H. destruct (parse_network_good s p H) as [Hv Hw]. revert H. unfold parse_network. rewrite Hm.
  destruct (parse_prefix s) as [q|] eqn:Eq; [|discriminate].
  destruct (is4in6 (paddr q)) eqn:E4; [discriminate|]. rewrite (is4in6_false_unmap _ E4).
  destruct (parse_prefix_inv _ _ Eq) as [l [r [_ [_ [Hz [_ Hle]]]]]].
  rewrite (strip_zone_id _ Hz). destruct q as [qa ql]. cbn [paddr plen] in *. intros H. injection H as <-.
  destruct (parse_prefix_valid _ _ Eq) as [Hqv Hqw].
  exists (mkPrefix qa ql). split; [reflexivity|]. split; [exact E4|]. split; [reflexivity|].
  split; [exact Hv|]. split; [exact Hw|]. split; [reflexivity|].
  split; [apply masked_not_mapped; assumption|].
  split; [intros i Hi; apply masked_low_bits_zero; [exact Hqv|exact Hi]|].
  intros a. apply contains_masked. exact Hqv.
Qed.

(* the list is accepted iff every entry, trimmed, is accepted *)
Theorem parse_trusted_accepts_iff l :
  (exists t, parse_trusted l = Some t) <-> Forall (fun s => exists p, parse_network (trim_space s) = Some p) l.
Proof.
  induction l as [|s r IH]; cbn [parse_trusted].
  - split; [constructor|]. intros _. eexists; reflexivity.
  - destruct (parse_network (trim_space s)) as [p|] eqn:Ep.
    + destruct (parse_trusted r) as [t|].
      * split; [|intros _; eexists; reflexivity]. intros _. constructor; [exists p; exact Ep|]. apply IH. eexists; reflexivity.
      * split; [intros [t H]; discriminate|]. intros H. inversion H as [|? ? _ Hr]; subst.
        apply IH in Hr. destruct Hr as [t Ht]. discriminate.
    + split; [intros [t H]; discriminate|]. intros H. inversion H as [|? ? [p Hp] _]; subst. congruence.
Qed.

(* ---------- trim_space ---------- *)

Definition spaces (l : bytes) : Prop := Forall (fun c => ascii_space c = true) l.

Lemma drop_space_spaces l : forall x, spaces l -> drop_space (l ++ x) = drop_space x.
Proof. induction l as [|c r IH]; intros x H; [reflexivity|]. inversion H as [|? ? Hc Hr]; subst. cbn [app drop_space]. rewrite Hc. apply IH. exact Hr. Qed.

Lemma spaces_rev l : spaces l -> spaces (rev l).
Proof. unfold spaces. rewrite !Forall_forall. intros H x Hx. apply H. apply in_rev. exact Hx. Qed.

(* surrounding ASCII white space is removed and nothing else: m is empty or starts and ends with a non-space *)
Theorem trim_space_spec l m r :
  spaces l -> spaces r ->
  (m = [] \/ exists c m' e, (m = c :: m' /\ ascii_space c = false) /\ (exists m'', m = m'' ++ [e] /\ ascii_space e = false)) ->
  trim_space (l ++ m ++ r) = m.
Proof.
  intros Hl Hr Hm. unfold trim_space. rewrite drop_space_spaces by assumption.
  destruct Hm as [->|[c [m' [e [[-> Hc] [m'' [Em He]]]]]]].
  - cbn [app]. rewrite <- (app_nil_r r) at 1. rewrite drop_space_spaces by assumption. reflexivity.
  - cbn [app drop_space]. rewrite Hc. change (c :: m' ++ r) with ((c :: m') ++ r).
    rewrite rev_app_distr. rewrite drop_space_spaces by (apply spaces_rev; assumption).
    rewrite Em, rev_app_distr. cbn [rev app drop_space]. rewrite He.
    change (e :: rev m'') with (rev [e] ++ rev m''). rewrite <- rev_app_distr, rev_involutive. reflexivity.
Qed.

(* ---------- non-vacuity: the default configuration ---------- *)

Definition defaults : trusted :=
  match new_proxy_protocol [] with Some t => t | None => [] end.

Example defaults_parse : exists t, new_proxy_protocol [] = Some t /\ List.length t = 8%nat /\ defaults = t.
Proof. eexists. split; [vm_compute; reflexivity|]. split; reflexivity. Qed.

Example defaults_good : good_trusted defaults.
Proof. apply (parse_trusted_good default_trusted_entries). vm_compute. reflexivity. Qed.

Example policy_samples :
  map (fun s => policy_of defaults (Some (tx s)))
      ["10.1.2.3:25565"; "[::ffff:10.1.2.3]:25565"; "[::ffff:10.1.2.3%eth0]:25565"; "[fe80::1%eth0]:25565";
       "8.8.8.8:53"; "[::ffff:8.8.8.8]:53"; "[2001:db8::1]:25565"; "/tmp/gate.sock"; "pipe"; "127.0.0.1"; "172.32.0.1:1"; "172.31.255.255:1"]%string
  = [USE; USE; USE; USE; REJECT; REJECT; REJECT; REJECT; REJECT; USE; REJECT; USE].
Proof. vm_compute. reflexivity. Qed.

Example mapped_rejected_in_list :
  parse_trusted [tx "::ffff:10.0.0.1"] = None /\ parse_trusted [tx "::ffff:10.0.0.0/104"] = None /\
  parse_trusted [tx " 10.0.0.0/8 "; tx "fe80::1%eth0"] <> None.
Proof. repeat split; vm_compute; congruence. Qed.

Example mapped_premise_met : exists a, parse_addr (tx "10.1.2.3") = Some a /\ fam a = V4.
Proof. eexists. split; vm_compute; reflexivity. Qed.

Example zone_premise_met : exists a, parse_addr (tx "fe80::1") = Some a /\ fam a = V6 /\ mem 37 (tx "fe80::1") = false.
Proof. eexists. repeat split; vm_compute; reflexivity. Qed.
