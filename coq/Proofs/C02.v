(* C02 — proofs about the frame decoder on arbitrary byte strings: when it waits, that decisions are stable
   under more input, the allocation bound, agreement of today's decoder (impl_) with the Velocity reference on
   minimal prefixes; and, as facts about the PRE-FIX decoder (prefix_), the refutations on the two repaired
   triggers and its agreement off them. *)
From Coq Require Import List NArith ZArith Bool Lia ZifyN ZifyNat ZifyBool.
From Verif Require Import Base.Hex Base.VarInt Model.Codec Proofs.C01.
Import ListNotations.
Open Scope N_scope.
Ltac Zify.zify_post_hook ::= Z.div_mod_to_equations.

(* ---------- VarInt reader on prefixes ---------- *)

Lemma dec_fuel_app_ok : forall f i acc s u n r more,
  dec_fuel f i acc s = Ok (u, n, r) -> dec_fuel f i acc (s ++ more) = Ok (u, n, r ++ more).
Proof.
  induction f as [|f IH]; intros i acc s u n r more H; cbn [dec_fuel] in *; [discriminate|].
  destruct s as [|b s]; [discriminate|]. cbn [app].
  destruct (5 <=? i); [discriminate|].
  destruct (N.land b 128 =? 0).
  - inversion H; subst. reflexivity.
  - apply IH. exact H.
Qed.

Lemma dec_fuel_app_big : forall f i acc s more,
  dec_fuel f i acc s = Err ErrTooBig -> dec_fuel f i acc (s ++ more) = Err ErrTooBig.
Proof.
  induction f as [|f IH]; intros i acc s more H; cbn [dec_fuel] in *; [reflexivity|].
  destruct s as [|b s]; [discriminate|]. cbn [app].
  destruct (5 <=? i); [reflexivity|].
  destruct (N.land b 128 =? 0); [discriminate|]. apply IH. exact H.
Qed.

Lemma dec_fuel_short_len : forall f i acc s,
  dec_fuel f i acc s = Err ErrShort -> (length s < f)%nat.
Proof.
  induction f as [|f IH]; intros i acc s H; cbn [dec_fuel] in *; [discriminate|].
  destruct s as [|b s]; [cbn; lia|].
  destruct (5 <=? i); [discriminate|].
  destruct (N.land b 128 =? 0); [discriminate|]. apply IH in H. cbn [length]. lia.
Qed.

Lemma dec_fuel_ok_split : forall f i acc s u n r,
  dec_fuel f i acc s = Ok (u, n, r) ->
  exists k, n = i + N.of_nat k /\ r = skipn k s /\ (1 <= k <= length s)%nat.
Proof.
  induction f as [|f IH]; intros i acc s u n r H; cbn [dec_fuel] in *; [discriminate|].
  destruct s as [|b s]; [discriminate|].
  destruct (5 <=? i); [discriminate|].
  destruct (N.land b 128 =? 0).
  - inversion H; subst. exists 1%nat. cbn. split; [lia|split; [reflexivity|lia]].
  - apply IH in H. destruct H as (k & Hn & Hr & Hk). exists (S k). cbn [skipn length].
    split; [lia|split; [exact Hr|lia]].
Qed.

Lemma read_varint_app_val s l n rest more :
  read_varint s = VVal l n rest -> read_varint (s ++ more) = VVal l n (rest ++ more).
Proof.
  unfold read_varint, dec. destruct (dec_fuel 6 0 0 s) as [[[u k] r]|[|]] eqn:E; try discriminate.
  intros H. inversion H; subst. rewrite (dec_fuel_app_ok _ _ _ _ _ _ _ more E). reflexivity.
Qed.

Lemma read_varint_app_big s more : read_varint s = VTooBig -> read_varint (s ++ more) = VTooBig.
Proof.
  unfold read_varint, dec. destruct (dec_fuel 6 0 0 s) as [[[u k] r]|[|]] eqn:E; try discriminate.
  intros _. rewrite (dec_fuel_app_big _ _ _ _ more E). reflexivity.
Qed.

Lemma read_varint_short_len s : read_varint s = VShort -> (length s <= 5)%nat.
Proof.
  unfold read_varint, dec. destruct (dec_fuel 6 0 0 s) as [[[u k] r]|[|]] eqn:E; try discriminate.
  intros _. apply dec_fuel_short_len in E. lia.
Qed.

Lemma read_varint_val_split s l n rest :
  read_varint s = VVal l n rest ->
  rest = skipn (N.to_nat n) s /\ (1 <= N.to_nat n <= length s)%nat.
Proof.
  unfold read_varint, dec. destruct (dec_fuel 6 0 0 s) as [[[u k] r]|[|]] eqn:E; try discriminate.
  intros H. inversion H; subst. apply dec_fuel_ok_split in E. destruct E as (k' & Hn & Hr & Hk).
  replace (N.to_nat n) with k' by lia. split; [exact Hr|lia].
Qed.

(* ---------- one frame ---------- *)

Section Frame.
  Variable inflate : bytes -> zres.
  Variable lazy_close_ok : bytes -> N -> bool.

  Notation dfw := (decode_frame_with inflate lazy_close_ok).
  Notation prefix := (prefix_decode_frame inflate lazy_close_ok).
  Notation impl := (impl_decode_frame inflate lazy_close_ok).
  Notation velocity := (velocity_decode_frame inflate lazy_close_ok).

  (* the decoder waits exactly when the length prefix is incomplete (at most five bytes, all with the
     continuation bit) or the announced, admissible frame is not complete yet *)
  Lemma needmore_iff f1 f2 c s :
    snd (dfw read_varint f1 f2 c s) = FNeedMore <->
    read_varint s = VShort \/
    exists l n rest, read_varint s = VVal l n rest /\ (0 < l <= MAXFRAME)%Z /\ len rest < Z.to_N l.
  Proof.
    unfold decode_frame_with, MAXFRAME.
    destruct (read_varint s) as [l n rest| |]; cbn [snd].
    - destruct (Z.eqb_spec l 0) as [->|Hl0].
      + cbn [snd]. split; [discriminate|]. intros [H|(l & n' & r & H & Hr & _)]; [discriminate|].
        inversion H; subst. lia.
      + destruct ((l <? 0)%Z || (2097151 <? l)%Z) eqn:Hb.
        * cbn [snd]. split; [discriminate|]. intros [H|(l' & n' & r & H & Hr & _)]; [discriminate|].
          inversion H; subst. lia.
        * destruct (N.ltb_spec (len rest) (Z.to_N l)) as [Hlt|Hge]; cbn [snd].
          -- split; [|reflexivity]. intros _. right. exists l, n, rest. split; [reflexivity|]. split; [lia|exact Hlt].
          -- destruct (payload_of inflate lazy_close_ok f1 f2 c _) as [a [p|e]]; cbn [snd];
               (split; [discriminate|]); intros [H|(l' & n' & r & H & Hr & Hlt)]; try discriminate;
               inversion H; subst; lia.
    - split; [left; reflexivity|reflexivity].
    - split; [discriminate|]. intros [H|(l & n & r & H & _)]; discriminate.
  Qed.

  (* once decided, more input changes nothing but the remaining bytes *)
  Lemma decided_stable f1 f2 c s more :
    snd (dfw read_varint f1 f2 c s) <> FNeedMore ->
    dfw read_varint f1 f2 c (s ++ more) =
    (fst (dfw read_varint f1 f2 c s), extend (snd (dfw read_varint f1 f2 c s)) more).
  Proof.
    unfold decode_frame_with.
    destruct (read_varint s) as [l n rest| |] eqn:Ev; cbn [snd fst].
    - rewrite (read_varint_app_val _ _ _ _ more Ev).
      destruct (l =? 0)%Z; [reflexivity|].
      destruct ((l <? 0)%Z || (MAXFRAME <? l)%Z); [reflexivity|].
      destruct (N.ltb_spec (len rest) (Z.to_N l)) as [Hlt|Hge]; cbn [snd]; [congruence|]. intros _.
      rewrite len_app. replace (len rest + len more <? Z.to_N l) with false by lia.
      assert (Hn : (N.to_nat (Z.to_N l) <= length rest)%nat) by (unfold len in Hge; lia).
      rewrite firstn_app, skipn_app.
      replace (N.to_nat (Z.to_N l) - length rest)%nat with O by lia. cbn [firstn skipn]. rewrite app_nil_r.
      destruct (payload_of inflate lazy_close_ok f1 f2 c _) as [a [p|e]]; reflexivity.
    - congruence.
    - intros _. rewrite (read_varint_app_big _ more Ev). reflexivity.
  Qed.

  (* ---------- allocation bound ---------- *)

  Definition alloc_ok (c : cfg) (a : list N) : Prop :=
    match a with
    | [] => True
    | [n] => (Z.of_N n <= MAXFRAME)%Z
    | [n; m] => (Z.of_N n <= MAXFRAME)%Z /\ (Z.of_N m <= cap (c_dir c))%Z
    | _ => False
    end.

  Lemma payload_alloc f1 f2 c body :
    match fst (payload_of inflate lazy_close_ok f1 f2 c body) with
    | [] => True
    | [m] => (Z.of_N m <= cap (c_dir c))%Z
    | _ => False
    end.
  Proof.
    unfold payload_of. destruct (c_thr c <? 0)%Z; [exact I|].
    destruct (read_varint body) as [claimed n zb| |]; try exact I.
    destruct (f1 && (claimed <? 0)%Z); [exact I|].
    destruct (claimed <=? 0)%Z; [destruct (c_thr c <? Z.of_N (len zb))%Z; exact I|].
    destruct (claimed <? c_thr c)%Z; [exact I|].
    destruct (Z.ltb_spec (cap (c_dir c)) claimed) as [|Hle]; [exact I|].
    assert (0 <= cap (c_dir c))%Z by (destruct (c_dir c); cbn; lia).
    destruct (inflate_claimed inflate lazy_close_ok f2 zb (Z.to_N claimed)); cbn [fst]; lia.
  Qed.

  Lemma frame_alloc_bound rv f1 f2 c s : alloc_ok c (fst (dfw rv f1 f2 c s)).
  Proof.
    unfold decode_frame_with, MAXFRAME.
    destruct (rv s) as [l n rest| |]; try exact I.
    destruct (l =? 0)%Z; [exact I|].
    destruct ((l <? 0)%Z || (2097151 <? l)%Z) eqn:Hb; [exact I|].
    assert (Hl : (Z.of_N (Z.to_N l) <= 2097151)%Z) by lia.
    destruct (len rest <? Z.to_N l); [exact Hl|].
    pose proof (payload_alloc f1 f2 c (firstn (N.to_nat (Z.to_N l)) rest)) as Hp.
    destruct (payload_of inflate lazy_close_ok f1 f2 c _) as [a [p|e]]; cbn [fst] in *;
      (destruct a as [|m [|? ?]]; [exact Hl|split; [exact Hl|exact Hp]|contradiction]).
  Qed.
End Frame.

(* ---------- the two length-prefix readers on minimally encoded prefixes ---------- *)

Lemma cont_ge b : N.land b 128 =? 0 = false -> 128 <= b.
Proof.
  intros H. destruct (N.lt_ge_cases b 128) as [Hlt|Hge]; [|exact Hge].
  rewrite land128_small in H by exact Hlt. discriminate.
Qed.

Lemma dec_fuel_short_cont : forall f i acc s,
  dec_fuel f i acc s = Err ErrShort -> Forall (fun b => 128 <= b) s.
Proof.
  induction f as [|f IH]; intros i acc s H; cbn [dec_fuel] in *; [discriminate|].
  destruct s as [|b s]; [constructor|].
  destruct (5 <=? i); [discriminate|].
  destruct (N.land b 128 =? 0) eqn:Hc; [discriminate|].
  constructor; [apply cont_ge; exact Hc|]. eapply IH. exact H.
Qed.

Lemma dec_big_cont s : dec s = Err ErrTooBig ->
  exists b1 b2 b3 r, s = b1 :: b2 :: b3 :: r /\ 128 <= b1 /\ 128 <= b2 /\ 128 <= b3.
Proof.
  unfold dec. cbn [dec_fuel].
  destruct s as [|b1 s]; [discriminate|]. cbn [N.leb N.compare].
  destruct (N.land b1 128 =? 0) eqn:H1; [discriminate|].
  destruct s as [|b2 s]; [discriminate|].
  replace (5 <=? 0 + 1) with false by reflexivity.
  destruct (N.land b2 128 =? 0) eqn:H2; [discriminate|].
  destruct s as [|b3 s]; [discriminate|].
  replace (5 <=? 0 + 1 + 1) with false by reflexivity.
  destruct (N.land b3 128 =? 0) eqn:H3; [discriminate|].
  intros _. exists b1, b2, b3, s. auto using cont_ge.
Qed.

Lemma v21_short s : Forall (fun b => 128 <= b) s -> (length s < 3)%nat -> read_varint21 s = VShort.
Proof.
  intros H Hl. unfold read_varint21.
  destruct s as [|b1 [|b2 [|b3 s]]]; cbn [length] in Hl; try lia; cbn [read_varint21_fuel].
  - reflexivity.
  - inversion H; subst. replace (b1 <? 128) with false by lia. reflexivity.
  - inversion H as [|? ? H1 H']; subst. inversion H' as [|? ? H2 _]; subst.
    replace (b1 <? 128) with false by lia. replace (b2 <? 128) with false by lia. reflexivity.
Qed.

Lemma v21_big b1 b2 b3 r : 128 <= b1 -> 128 <= b2 -> 128 <= b3 -> read_varint21 (b1 :: b2 :: b3 :: r) = VTooBig.
Proof.
  intros H1 H2 H3. unfold read_varint21. cbn [read_varint21_fuel].
  replace (b1 <? 128) with false by lia. replace (b2 <? 128) with false by lia.
  replace (b3 <? 128) with false by lia. reflexivity.
Qed.

(* on the minimal encoding of u: both readers see u when it fits 21 bits, and Velocity's gives up otherwise *)
Lemma v21_enc u rest : u < 2 ^ 32 ->
  if u <? 2097152 then exists n, read_varint21 (enc u ++ rest) = VVal (Z.of_N u) n rest
  else read_varint21 (enc u ++ rest) = VTooBig.
Proof.
  intros Hu. change (2 ^ 32) with 4294967296 in Hu. unfold enc, read_varint21. cbn [enc_fuel].
  destruct (N.ltb_spec u 128) as [H1|H1].
  - replace (u <? 2097152) with true by lia. cbn [app read_varint21_fuel].
    replace (u <? 128) with true by lia. eexists. f_equal. change (2 ^ (7 * 0)) with 1. lia.
  - destruct (N.ltb_spec (u / 128) 128) as [H2|H2].
    + replace (u <? 2097152) with true by lia. cbn [app read_varint21_fuel].
      replace (u mod 128 + 128 <? 128) with false by lia.
      replace (u / 128 <? 128) with true by lia. eexists. f_equal.
      change (2 ^ (7 * 0)) with 1. change (2 ^ (7 * (0 + 1))) with 128. lia.
    + destruct (N.ltb_spec (u / 128 / 128) 128) as [H3|H3].
      * replace (u <? 2097152) with true by lia. cbn [app read_varint21_fuel].
        replace (u mod 128 + 128 <? 128) with false by lia.
        replace (u / 128 mod 128 + 128 <? 128) with false by lia.
        replace (u / 128 / 128 <? 128) with true by lia. eexists. f_equal.
        change (2 ^ (7 * 0)) with 1. change (2 ^ (7 * (0 + 1))) with 128.
        change (2 ^ (7 * (0 + 1 + 1))) with 16384. lia.
      * replace (u <? 2097152) with false by lia.
        destruct (u / 128 / 128 / 128 <? 128); [|destruct (u / 128 / 128 / 128 / 128 <? 128)];
          cbn [app read_varint21_fuel];
          replace (u mod 128 + 128 <? 128) with false by lia;
          replace (u / 128 mod 128 + 128 <? 128) with false by lia;
          replace (u / 128 / 128 mod 128 + 128 <? 128) with false by lia; reflexivity.
Qed.

(* what a minimal prefix gives: the stream is the canonical encoding followed by the rest *)
Lemma minimal_val s l n rest :
  read_varint s = VVal l n rest -> beq_bytes (firstn (N.to_nat n) s) (write_varint l) = true ->
  s = enc (u32 l) ++ rest /\ l = i32 (u32 l).
Proof.
  intros Hv Hm. apply beq_bytes_eq in Hm.
  destruct (read_varint_val_split _ _ _ _ Hv) as (Hr & _).
  assert (Hs : s = enc (u32 l) ++ rest).
  { rewrite <- (firstn_skipn (N.to_nat n) s) at 1. rewrite Hm, <- Hr. reflexivity. }
  split; [exact Hs|].
  rewrite Hs in Hv. unfold read_varint in Hv. rewrite varint_roundtrip in Hv by apply u32_lt.
  inversion Hv. congruence.
Qed.

Lemma beq_bytes_refl a : beq_bytes a a = true.
Proof. apply beq_bytes_eq. reflexivity. Qed.

Lemma same_decision_refl r : same_decision r r = true.
Proof. destruct r; cbn; [rewrite !beq_bytes_refl|..]; reflexivity. Qed.

Section Agree.
  Variable inflate : bytes -> zres.
  Variable lazy_close_ok : bytes -> N -> bool.

  Notation dfw := (decode_frame_with inflate lazy_close_ok).
  Notation prefix := (prefix_decode_frame inflate lazy_close_ok).
  Notation impl := (impl_decode_frame inflate lazy_close_ok).
  Notation velocity := (velocity_decode_frame inflate lazy_close_ok).

  (* with either prefix reader the rest of the decoder is the same code *)
  Lemma prefix_readers_agree f1 f2 c s : minimal_prefix s = true ->
    same_decision (snd (dfw read_varint f1 f2 c s)) (snd (dfw read_varint21 f1 f2 c s)) = true.
  Proof.
    unfold minimal_prefix, decode_frame_with. intros Hm.
    destruct (read_varint s) as [l n rest| |] eqn:Ev.
    - destruct (minimal_val s l n rest Ev Hm) as (Hs & Hl).
      pose proof (v21_enc (u32 l) rest (u32_lt l)) as H21. rewrite <- Hs in H21.
      destruct (N.ltb_spec (u32 l) 2097152) as [Hsmall|Hbig].
      + destruct H21 as (n' & H21). rewrite H21.
        assert (El : Z.of_N (u32 l) = l). { rewrite Hl at 2. unfold i32. replace (u32 l <? 2147483648) with true by lia. reflexivity. }
        rewrite El. apply same_decision_refl.
      + rewrite H21. cbn [snd].
        assert (Hl' : (l < 0 \/ 2097151 < l)%Z).
        { pose proof (u32_lt l) as Hb32. change (2 ^ 32) with 4294967296 in Hb32.
          remember (u32 l) as u. rewrite Hl. unfold i32. destruct (u <? 2147483648) eqn:E; lia. }
        replace (l =? 0)%Z with false by lia. unfold MAXFRAME.
        replace ((l <? 0)%Z || (2097151 <? l)%Z) with true by lia. reflexivity.
    - apply Nat.ltb_lt in Hm. unfold read_varint in Ev.
      destruct (dec s) as [[[u k] r]|[|]] eqn:Ed; try discriminate.
      apply dec_fuel_short_cont in Ed. rewrite (v21_short s Ed Hm). reflexivity.
    - unfold read_varint in Ev. destruct (dec s) as [[[u k] r]|[|]] eqn:Ed; try discriminate.
      destruct (dec_big_cont s Ed) as (b1 & b2 & b3 & r & -> & H1 & H2 & H3).
      rewrite v21_big by assumption. reflexivity.
  Qed.

  Lemma impl_agrees_velocity c s : minimal_prefix s = true ->
    same_decision (snd (impl c s)) (snd (velocity c s)) = true.
  Proof. apply prefix_readers_agree. Qed.

  (* PRE-FIX code: off the two triggers the repairs (commits 7de81ff, 9119697) changed nothing but the kind of an error *)
  Definition psame (a b : bytes + ferr) : Prop :=
    match a, b with inl p, inl p' => p = p' | inr _, inr _ => True | _, _ => False end.

  Lemma payload_off_trigger c body :
    ((0 <=? c_thr c)%Z &&
     match read_varint body with
     | VVal claimed _ zb => (claimed <? 0)%Z && (Z.of_N (len zb) <=? c_thr c)%Z
     | _ => false
     end) = false ->
    ((0 <=? c_thr c)%Z &&
     match read_varint body with
     | VVal claimed _ zb =>
       (0 <? claimed)%Z && (c_thr c <=? claimed)%Z && (claimed <=? cap (c_dir c))%Z &&
       let r := inflate zb in
       (Z.to_N claimed <=? len (z_out r)) && negb (z_clean r && (len (z_out r) =? Z.to_N claimed)) &&
       (z_clean r || lazy_close_ok zb (Z.to_N claimed))
     | _ => false
     end) = false ->
    psame (snd (payload_of inflate lazy_close_ok false false c body))
          (snd (payload_of inflate lazy_close_ok true true c body)).
  Proof.
    unfold payload_of. intros T1 T2.
    destruct (Z.ltb_spec (c_thr c) 0) as [Hoff|Hon]; [reflexivity|].
    replace (0 <=? c_thr c)%Z with true in * by lia. cbn [andb] in T1, T2.
    destruct (read_varint body) as [claimed n zb| |]; try exact I.
    cbn [andb].
    destruct (Z.ltb_spec claimed 0) as [Hneg|Hnn].
    - replace (claimed <=? 0)%Z with true by lia. cbn [andb] in T1.
      destruct (Z.ltb_spec (c_thr c) (Z.of_N (len zb))); [exact I|]. lia.
    - destruct (Z.leb_spec claimed 0) as [H0|Hpos].
      + destruct (c_thr c <? Z.of_N (len zb))%Z; [exact I|reflexivity].
      + destruct (Z.ltb_spec claimed (c_thr c)); [exact I|].
        destruct (Z.ltb_spec (cap (c_dir c)) claimed); [exact I|].
        replace (0 <? claimed)%Z with true in T2 by lia.
        replace (c_thr c <=? claimed)%Z with true in T2 by lia.
        replace (claimed <=? cap (c_dir c))%Z with true in T2 by lia. cbn [andb] in T2. cbv zeta in T2.
        unfold inflate_claimed.
        destruct (inflate zb) as [out clean]. cbn [z_out z_clean] in *.
        destruct (N.ltb_spec (len out) (Z.to_N claimed)) as [Hshort|Hlong].
        * replace (len out =? Z.to_N claimed) with false by lia. rewrite andb_false_r. exact I.
        * replace (Z.to_N claimed <=? len out) with true in T2 by lia. cbn [andb] in T2.
          destruct clean; cbn [andb orb negb] in *.
          -- destruct (N.eqb_spec (len out) (Z.to_N claimed)) as [He|Hne]; [|discriminate T2].
             cbn [snd psame]. rewrite <- He, firstn_len. reflexivity.
          -- rewrite T2. exact I.
  Qed.

  Lemma prefix_impl_off_trigger c s :
    trigger1 c s = false -> trigger2 inflate lazy_close_ok c s = false ->
    same_decision (snd (prefix c s)) (snd (impl c s)) = true.
  Proof.
    unfold trigger1, trigger2, frame_body, prefix_decode_frame, impl_decode_frame, decode_frame_with.
    intros T1 T2.
    destruct (read_varint s) as [l n rest| |]; try reflexivity.
    destruct (Z.eqb_spec l 0) as [->|Hl0]; [apply same_decision_refl|].
    destruct ((l <? 0)%Z || (MAXFRAME <? l)%Z) eqn:Hb; [reflexivity|].
    destruct (N.ltb_spec (len rest) (Z.to_N l)) as [Hlt|Hge]; [reflexivity|].
    replace ((0 <? l)%Z && (l <=? MAXFRAME)%Z && (Z.to_N l <=? len rest)) with true in T1, T2 by lia.
    replace (Z.to_nat l) with (N.to_nat (Z.to_N l)) in T1, T2 by lia.
    pose proof (payload_off_trigger c (firstn (N.to_nat (Z.to_N l)) rest) T1 T2) as H.
    destruct (payload_of inflate lazy_close_ok false false c _) as [a1 [p1|e1]],
             (payload_of inflate lazy_close_ok true true c _) as [a2 [p2|e2]]; cbn [snd psame] in H; try contradiction.
    - subst. apply same_decision_refl.
    - reflexivity.
  Qed.

  Lemma same_decision_trans a b c' :
    same_decision a b = true -> same_decision b c' = true -> same_decision a c' = true.
  Proof.
    destruct a, b, c'; cbn; try discriminate; try reflexivity.
    intros H1 H2. apply andb_true_iff in H1, H2. destruct H1 as (H1 & H1'), H2 as (H2 & H2').
    apply beq_bytes_eq in H1, H1', H2, H2'. subst. rewrite !beq_bytes_refl. reflexivity.
  Qed.

  Theorem prefix_agrees_velocity_off_trigger c s :
    minimal_prefix s = true -> trigger1 c s = false -> trigger2 inflate lazy_close_ok c s = false ->
    same_decision (snd (prefix c s)) (snd (velocity c s)) = true.
  Proof.
    intros Hm T1 T2. eapply same_decision_trans; [apply prefix_impl_off_trigger; assumption|].
    apply impl_agrees_velocity. exact Hm.
  Qed.
End Agree.

(* ---------- from frames to Decode calls and to whole streams ---------- *)

Lemma beq_list_refl l : beq_list l l = true.
Proof. induction l as [|x l IH]; cbn; [reflexivity|]. rewrite beq_bytes_refl, IH. reflexivity. Qed.

Section Lift.
  Variables df1 df2 : cfg -> bytes -> list N * fres.
  Variable c : cfg.
  Variable P : bytes -> Prop.
  Hypothesis Hagree : forall s, P s -> same_decision (snd (df1 c s)) (snd (df2 c s)) = true.
  Hypothesis Hstep : forall s p rest, P s -> snd (df1 c s) = FOk p rest -> P rest.

  Lemma same_ok_inv p rest r : same_decision (FOk p rest) r = true -> r = FOk p rest.
  Proof.
    destruct r as [p' rest'|e|]; cbn; try discriminate. intros H. apply andb_true_iff in H.
    destruct H as (H1 & H2). apply beq_bytes_eq in H1, H2. subst. reflexivity.
  Qed.

  Lemma packet_lift : forall fuel k s, P s ->
    same_decision (snd (read_packet_with df1 fuel k c s)) (snd (read_packet_with df2 fuel k c s)) = true /\
    (forall p rest, snd (read_packet_with df1 fuel k c s) = FOk p rest -> P rest).
  Proof.
    induction fuel as [|fuel IH]; intros k s Hs; cbn [read_packet_with].
    - split; [reflexivity|discriminate].
    - pose proof (Hagree s Hs) as Ha. pose proof (Hstep s) as Hst.
      destruct (df1 c s) as [a1 r1], (df2 c s) as [a2 r2]. cbn [snd] in Ha, Hst.
      destruct r1 as [p rest|e|].
      + apply same_ok_inv in Ha. subst r2. specialize (Hst p rest Hs eq_refl).
        destruct p as [|x p].
        * destruct (10 <? k); [split; [reflexivity|discriminate]|].
          destruct (IH (k + 1) rest Hst) as (IH1 & IH2).
          destruct (read_packet_with df1 fuel (k + 1) c rest) as [a1' r1'],
                   (read_packet_with df2 fuel (k + 1) c rest) as [a2' r2']. cbn [snd] in *.
          split; assumption.
        * destruct (read_varint (x :: p)); cbn [snd].
          -- split; [apply same_decision_refl|]. intros p' rest' H. inversion H; subst. exact Hst.
          -- split; [reflexivity|discriminate].
          -- split; [reflexivity|discriminate].
      + destruct r2; cbn in Ha; try discriminate. cbn [snd]. split; [reflexivity|discriminate].
      + destruct r2; cbn in Ha; try discriminate. cbn [snd]. split; [reflexivity|discriminate].
  Qed.

  Lemma stream_lift : forall fuel s, P s ->
    stream_same (decode_stream_with df1 fuel c s) (decode_stream_with df2 fuel c s) = true.
  Proof.
    induction fuel as [|fuel IH]; intros s Hs; cbn [decode_stream_with]; [reflexivity|].
    destruct (packet_lift 12 0 s Hs) as (Ha & Hst). unfold read_packet.
    destruct (snd (read_packet_with df1 12 0 c s)) as [p rest|e|].
    - apply same_ok_inv in Ha. rewrite Ha. specialize (IH rest (Hst p rest eq_refl)).
      destruct (decode_stream_with df1 fuel c rest) as [ps1 t1], (decode_stream_with df2 fuel c rest) as [ps2 t2].
      unfold stream_same in *. cbn [fst snd beq_list] in *. rewrite beq_bytes_refl. exact IH.
    - destruct (snd (read_packet_with df2 12 0 c s)); cbn in Ha; try discriminate. reflexivity.
    - destruct (snd (read_packet_with df2 12 0 c s)); cbn in Ha; try discriminate. reflexivity.
  Qed.
End Lift.

Section Streams.
  Variable inflate : bytes -> zres.
  Variable lazy_close_ok : bytes -> N -> bool.
  Notation prefix := (prefix_decode_frame inflate lazy_close_ok).
  Notation impl := (impl_decode_frame inflate lazy_close_ok).
  Notation velocity := (velocity_decode_frame inflate lazy_close_ok).

  (* q in front of every frame the repaired decoder reaches, as a proposition *)
  Inductive all_frames (q : bytes -> bool) (c : cfg) : bytes -> Prop :=
  | af_intro s : q s = true ->
      (forall p rest, snd (impl c s) = FOk p rest -> all_frames q c rest) ->
      all_frames q c s.

  (* an accepted frame consumes at least one byte *)
  Lemma frame_consumes f1 f2 c s p rest :
    snd (decode_frame_with inflate lazy_close_ok read_varint f1 f2 c s) = FOk p rest ->
    (length rest < length s)%nat.
  Proof.
    unfold decode_frame_with. destruct (read_varint s) as [l n r| |] eqn:Ev; try discriminate.
    destruct (read_varint_val_split _ _ _ _ Ev) as (Hr & Hn).
    assert (Hlen : (length r < length s)%nat) by (rewrite Hr, skipn_length; lia).
    destruct (l =? 0)%Z; cbn [snd]; [intros H; inversion H; subst; exact Hlen|].
    destruct ((l <? 0)%Z || (MAXFRAME <? l)%Z); [discriminate|].
    destruct (len r <? Z.to_N l); [discriminate|].
    destruct (payload_of inflate lazy_close_ok f1 f2 c _) as [a [p'|e]]; cbn [snd]; [|discriminate].
    intros H. inversion H; subst. rewrite skipn_length. lia.
  Qed.

  Lemma walk_all_sound q c : forall fuel s, (length s < fuel)%nat ->
    walk_all inflate lazy_close_ok fuel q c s = true -> all_frames q c s.
  Proof.
    induction fuel as [|fuel IH]; intros s Hl H; [lia|].
    cbn [walk_all] in H. apply andb_true_iff in H. destruct H as (Hq & Hw).
    constructor; [exact Hq|]. intros p rest Hok. rewrite Hok in Hw.
    pose proof (frame_consumes true true c s p rest Hok) as Hc.
    destruct s as [|b s]; [cbn in Hc; lia|]. apply IH; [cbn [length] in *; lia|exact Hw].
  Qed.

  Lemma all_frames_and q1 q2 c s :
    all_frames q1 c s -> all_frames q2 c s -> all_frames (fun x => q1 x && q2 x) c s.
  Proof.
    intros H1. induction H1 as [s Hq1 _ IH]. intros H2. inversion H2 as [s' Hq2 Hn2]; subst.
    constructor; [rewrite Hq1, Hq2; reflexivity|]. intros p rest Hok. apply (IH p rest Hok). exact (Hn2 p rest Hok).
  Qed.

  Theorem impl_stream_agrees_velocity c s : minimal_stream inflate lazy_close_ok c s = true ->
    stream_same (decode_stream_flat impl c s) (decode_stream_flat velocity c s) = true.
  Proof.
    intros Hm. apply walk_all_sound in Hm; [|lia]. unfold decode_stream_flat.
    apply (stream_lift impl velocity c (all_frames minimal_prefix c)); [| |exact Hm].
    - intros s' H. inversion H; subst. apply impl_agrees_velocity. assumption.
    - intros s' p rest H Hok. inversion H as [? _ Hn]; subst. exact (Hn p rest Hok).
  Qed.

  Theorem prefix_stream_agrees_velocity_off_trigger c s :
    minimal_stream inflate lazy_close_ok c s = true -> untriggered_stream inflate lazy_close_ok c s = true ->
    stream_same (decode_stream_flat prefix c s) (decode_stream_flat velocity c s) = true.
  Proof.
    intros Hm Hu. apply walk_all_sound in Hm; [|lia]. apply walk_all_sound in Hu; [|lia].
    pose proof (all_frames_and _ _ c s Hm Hu) as H. unfold decode_stream_flat.
    match type of H with all_frames ?q _ _ => apply (stream_lift prefix velocity c (all_frames q c)); [| |exact H] end.
    - intros s' H'. inversion H' as [? Hq _]; subst. apply andb_true_iff in Hq. destruct Hq as (Hq1 & Hq2).
      apply andb_true_iff in Hq2. destruct Hq2 as (Ht1 & Ht2). apply negb_true_iff in Ht1, Ht2.
      apply prefix_agrees_velocity_off_trigger; assumption.
    - intros s' p rest H' Hok. inversion H' as [? Hq Hn]; subst. apply andb_true_iff in Hq. destruct Hq as (Hq1 & Hq2).
      apply andb_true_iff in Hq2. destruct Hq2 as (Ht1 & Ht2). apply negb_true_iff in Ht1, Ht2.
      pose proof (prefix_impl_off_trigger inflate lazy_close_ok c s' Ht1 Ht2) as Hs. rewrite Hok in Hs.
      apply same_ok_inv in Hs. exact (Hn p rest Hs).
  Qed.
End Streams.

(* ---------- allocation bound for a whole Decode call ---------- *)

Section Alloc.
  Variable inflate : bytes -> zres.
  Variable lazy_close_ok : bytes -> N -> bool.

  Definition within (c : cfg) (n : N) : Prop := (Z.of_N n <= Z.max MAXFRAME (cap (c_dir c)))%Z.

  Lemma alloc_ok_within c a : alloc_ok c a -> Forall (within c) a.
  Proof.
    unfold alloc_ok, within. destruct a as [|n [|m [|? ?]]]; intros H; try contradiction.
    - constructor.
    - constructor; [lia|constructor].
    - destruct H. constructor; [lia|constructor; [lia|constructor]].
  Qed.

  Lemma packet_alloc_bound rv f1 f2 c : forall fuel k s,
    Forall (within c) (fst (read_packet_with (decode_frame_with inflate lazy_close_ok rv f1 f2) fuel k c s)).
  Proof.
    induction fuel as [|fuel IH]; intros k s; cbn [read_packet_with]; [constructor|].
    pose proof (alloc_ok_within c _ (frame_alloc_bound inflate lazy_close_ok rv f1 f2 c s)) as Ha.
    destruct (decode_frame_with inflate lazy_close_ok rv f1 f2 c s) as [a r]. cbn [fst] in Ha.
    destruct r as [p rest|e|]; cbn [fst]; try exact Ha.
    destruct p as [|x p].
    - destruct (10 <? k); [exact Ha|]. specialize (IH (k + 1) rest).
      destruct (read_packet_with _ fuel (k + 1) c rest) as [a' r']. cbn [fst] in *.
      apply Forall_app. split; assumption.
    - destruct (read_varint (x :: p)); exact Ha.
  Qed.
End Alloc.

(* ---------- the two repaired deviations of the PRE-FIX code, on concrete inputs; today's code rejects both ---------- *)

(* a stand-in for zlib in which the body 01 02 03 is a clean stream of six bytes 'A' *)
Definition ex_inflate (zb : bytes) : zres :=
  if beq_bytes zb [1; 2; 3] then mkz [65; 65; 65; 65; 65; 65] true else mkz [] false.
Definition ex_lazy (zb : bytes) (n : N) : bool := false.

(* frame of length 8: claimed size -5 (fb ff ff ff 0f), then three bytes; threshold 256, from a client *)
Definition ex_negative : bytes := [8; 251; 255; 255; 255; 15; 65; 66; 67].
(* frame of length 4: claimed size 3, then the body that inflates to six bytes; threshold 2 *)
Definition ex_overlong : bytes := [4; 3; 1; 2; 3].

Lemma refuted_negative_claimed :
  let c := mkcfg 256 ServerBound in
  minimal_prefix ex_negative = true /\ trigger1 c ex_negative = true /\
  snd (prefix_decode_frame ex_inflate ex_lazy c ex_negative) = FOk [65; 66; 67] [] /\
  snd (velocity_decode_frame ex_inflate ex_lazy c ex_negative) = FErr ENegClaimed /\
  snd (impl_decode_frame ex_inflate ex_lazy c ex_negative) = FErr ENegClaimed.
Proof. vm_compute. repeat split; reflexivity. Qed.

Lemma refuted_overlong_body :
  let c := mkcfg 2 ServerBound in
  minimal_prefix ex_overlong = true /\ trigger2 ex_inflate ex_lazy c ex_overlong = true /\
  snd (prefix_decode_frame ex_inflate ex_lazy c ex_overlong) = FOk [65; 65; 65] [] /\
  snd (velocity_decode_frame ex_inflate ex_lazy c ex_overlong) = FErr EInflate /\
  snd (impl_decode_frame ex_inflate ex_lazy c ex_overlong) = FErr EInflate.
Proof. vm_compute. repeat split; reflexivity. Qed.

(* non-vacuity of the agreement theorems: a stream of three well-formed frames (uncompressed below the
   threshold, compressed with the exact size, an empty frame in between) satisfies both premises and decodes *)
Definition ex_inflate6 (zb : bytes) : zres :=
  if beq_bytes zb [1; 2; 3] then mkz [9; 65; 65; 65; 65; 65] true else mkz [] false.
Definition ex_good : bytes := [3; 0; 7; 8] ++ [0] ++ [4; 6; 1; 2; 3] ++ [2; 0].

Lemma agreement_nonvacuous :
  let c := mkcfg 4 ClientBound in
  minimal_stream ex_inflate6 ex_lazy c ex_good = true /\
  untriggered_stream ex_inflate6 ex_lazy c ex_good = true /\
  decode_stream_flat (prefix_decode_frame ex_inflate6 ex_lazy) c ex_good
    = ([[7; 8]; [9; 65; 65; 65; 65; 65]], TNeedMore) /\
  decode_stream_flat (velocity_decode_frame ex_inflate6 ex_lazy) c ex_good
    = ([[7; 8]; [9; 65; 65; 65; 65; 65]], TNeedMore).
Proof. vm_compute. repeat split; reflexivity. Qed.

(* the uncompressed-size boundary of the property text: a body of exactly the threshold is tolerated, one byte
   more is rejected — by the code and by the reference alike (threshold 2) *)
Lemma threshold_boundary :
  let c := mkcfg 2 ServerBound in
  snd (prefix_decode_frame ex_inflate ex_lazy c [3; 0; 7; 8]) = FOk [7; 8] [] /\
  snd (velocity_decode_frame ex_inflate ex_lazy c [3; 0; 7; 8]) = FOk [7; 8] [] /\
  snd (prefix_decode_frame ex_inflate ex_lazy c [4; 0; 7; 8; 9]) = FErr EOverThreshold /\
  snd (velocity_decode_frame ex_inflate ex_lazy c [4; 0; 7; 8; 9]) = FErr EOverThreshold.
Proof. vm_compute. repeat split; reflexivity. Qed.
