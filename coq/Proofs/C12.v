(* C12 — proofs.
   Part 1: obligations about the regenerated lock facts (vm_compute on Gen/LockFacts.v; they are
           re-proved on every run and fail, naming the site, when the source changes).
   Part 2: snapshot atomicity of listings in Model/Listing.v for every program of mutators and
           atomic listers under every schedule; refutation for per-element listers. *)
From Coq Require Import List NArith Bool String Lia.
From Verif Require Import Base.Conc Model.LockDiscipline Model.Listing Gen.LockFacts Check.C12.
Import ListNotations.
Open Scope N_scope.
Open Scope list_scope.

(* ================= Part 1: lock facts ================= *)

(* stated as equality with [] so that a failure prints the offending sites *)
Lemma guarded_or_recorded : unguarded_unknown accesses = [].
Proof. vm_compute. reflexivity. Qed.

Lemma guarded_forallb : forallb site_ok accesses = true.
Proof.
  pose proof guarded_or_recorded as H. unfold unguarded_unknown in H.
  apply forallb_forall. intros a Ha.
  destruct (site_ok a) eqn:E; [reflexivity|].
  assert (In a (filter (fun a => negb (site_ok a)) accesses)) as Hin
    by (apply filter_In; split; [assumption|now rewrite E]).
  rewrite H in Hin. destruct Hin.
Qed.

Definition fields : list string :=
  [ "Proxy.playerNames"; "Proxy.playerIDs"; "Proxy.servers"; "Proxy.configServers"; "players.list" ]%string.
Definition listing_funcs : list string :=
  [ "Proxy.Players"; "Proxy.DisconnectAll"; "Proxy.PlayerCount"; "Proxy.Servers";
    "players.Range"; "players.Len" ]%string.

(* the obligation is about something: every configured map is read and written somewhere and every
   listing function of the property has at least one site *)
Definition sites_present : bool :=
  forallb (fun f => Nat.leb 1 (countb (fun a => on_field f a && is_write a) accesses)
                    && Nat.leb 1 (countb (fun a => on_field f a && negb (is_write a)) accesses)) fields
  && forallb (fun f => Nat.leb 1 (countb (in_funcs [f]) accesses)) listing_funcs.

Lemma sites_present_ok : sites_present = true.
Proof. vm_compute. reflexivity. Qed.

Lemma untranslated_zero : untranslated = 0.
Proof. vm_compute. reflexivity. Qed.

(* a listing function whose every site holds the lock iterates INSIDE the critical section:
   its model is the atomic lister *)
Definition listing_atomic (f : string) : bool :=
  forallb guarded (filter (in_funcs [f]) accesses) && Nat.leb 1 (countb (in_funcs [f]) accesses).
Definition granularity (f : string) : gran := if listing_atomic f then Atomic else PerElement.

Lemma servers_listing_atomic : granularity "Proxy.Servers" = Atomic
  /\ granularity "Proxy.PlayerCount" = Atomic /\ granularity "players.Len" = Atomic
  /\ granularity "Proxy.Players" = Atomic /\ granularity "Proxy.DisconnectAll" = Atomic
  /\ granularity "players.Range" = Atomic.
Proof. vm_compute. repeat split. Qed.

(* no site is tolerated any more: the obligation is "every site is guarded" *)
Lemma every_site_guarded : forallb guarded accesses = true.
Proof. vm_compute. reflexivity. Qed.

(* ================= Part 2: snapshots ================= *)

Lemma content_app r0 l1 l2 : content r0 (l1 ++ l2) = content (content r0 l1) l2.
Proof. unfold content. apply fold_left_app. Qed.

Lemma lcompile_in ts a : In a (List.concat (lcompile ts)) -> exists x, In x (List.concat ts) /\ a = lsem x.
Proof.
  unfold lcompile. intros H. apply in_concat in H. destruct H as [th [H1 H2]].
  apply in_map_iff in H1. destruct H1 as [l [<- Hl]].
  apply in_map_iff in H2. destruct H2 as [x [<- Hx]]. exists x. split; [|reflexivity].
  apply in_concat. exists l. auto.
Qed.

Lemma atomic_prog_in ts x : atomic_prog ts = true -> In x (List.concat ts) -> atomic_act x = true.
Proof.
  unfold atomic_prog. intros H Hin. apply in_concat in Hin. destruct Hin as [l [Hl Hx]].
  rewrite forallb_forall in H. specialize (H l Hl). rewrite forallb_forall in H. auto.
Qed.

(* every list returned so far is the content the map had when that listing action ran *)
Definition snapshots_ok (r0 : list N) (evs : list levent) : Prop :=
  forall l1 t l l2, evs = l1 ++ EvList t l :: l2 -> l = content r0 l1.

Lemma split_last_ev (evs l1 l2 : list levent) e x :
  evs ++ [e] = l1 ++ x :: l2 ->
  (l1 = evs /\ x = e /\ l2 = []) \/ (exists l2', evs = l1 ++ x :: l2').
Proof.
  intros E. destruct l2 as [|y l2] using rev_ind.
  - apply app_inj_tail in E. destruct E as [-> ->]. auto.
  - right. clear IHl2. exists l2.
    change (l1 ++ x :: l2 ++ [y]) with (l1 ++ (x :: l2) ++ [y]) in E.
    rewrite app_assoc in E. apply app_inj_tail in E. tauto.
Qed.

Lemma atomic_step r0 x s evs :
  atomic_act x = true ->
  reg s = content r0 evs /\ snapshots_ok r0 evs ->
  reg (fst (lsem x s)) = content r0 (evs ++ snd (lsem x s))
  /\ snapshots_ok r0 (evs ++ snd (lsem x s)).
Proof.
  intros Ha [Hr Hs]. destruct x as [x|x|t|t|t|t]; try discriminate; simpl.
  - (* add *) split.
    + rewrite content_app. reflexivity.
    + intros l1 t l l2 E. apply split_last_ev in E. destruct E as [[_ [E _]]|[l2' E]]; [discriminate|].
      eapply Hs; eauto.
  - (* remove *) split.
    + rewrite content_app. reflexivity.
    + intros l1 t l l2 E. apply split_last_ev in E. destruct E as [[_ [E _]]|[l2' E]]; [discriminate|].
      eapply Hs; eauto.
  - (* atomic listing *) split.
    + rewrite content_app. simpl. exact Hr.
    + intros l1 t' l l2 E. apply split_last_ev in E. destruct E as [[-> [E _]]|[l2' E]].
      * inversion E; subst. exact Hr.
      * eapply Hs; eauto.
Qed.

Lemma snapshot_atomic_all_schedules ts sched r0 :
  atomic_prog ts = true ->
  snapshots_ok r0 (events (run (lcompile ts) sched (mkLS r0 []))).
Proof.
  intros Hp. unfold events.
  pose (P := fun (s : lstate) evs => reg s = content r0 evs /\ snapshots_ok r0 evs).
  assert (HP : P (fst (fst (run (lcompile ts) sched (mkLS r0 []))))
                 ([] ++ snd (fst (run (lcompile ts) sched (mkLS r0 []))))).
  { apply (trace_inv_all_schedules P (lcompile ts)).
    - intros a Ha s evs HPs. destruct (lcompile_in _ _ Ha) as [x [Hx ->]].
      apply atomic_step; [eapply atomic_prog_in; eauto|exact HPs].
    - split; [reflexivity|]. intros l1 t l l2 E. destruct l1; discriminate. }
  exact (proj2 HP).
Qed.

(* per-element iteration after the unlock: map {1,2}; the lister visits 1, a leave removes 1, the
   lister finds nothing at position 1 and returns [1] — the map never had that content *)
Definition ts_torn : list (list lact) := [lister PerElement 0 2; [LRemove 1]].
Definition sched_torn : list nat := [0; 0; 1; 0; 0]%nat.

Lemma torn_witness :
  let evs := events (run (lcompile ts_torn) sched_torn (mkLS [1; 2] [])) in
  In (EvList 0 [1]) evs /\ existsb (list_eqbN [1]) (contents [1; 2] evs) = false.
Proof. vm_compute. split; [auto 10|reflexivity]. Qed.

(* the same goroutines with the atomic lister: whatever the schedule, the result is [1;2] or [2] *)
Example atomic_same_threads :
  check_all_schedules (lcompile [lister Atomic 0 2; [LRemove 1]]) (mkLS [1; 2] [])
    (fun _ evs => existsb (fun e => match e with
                                    | EvList 0 l => list_eqbN l [1; 2] || list_eqbN l [2]
                                    | _ => false end) evs) = true.
Proof. vm_compute. reflexivity. Qed.
