(* C35 — proofs about Model/LiveConfig.v *)
From Coq Require Import List NArith Bool Lia.
From Verif Require Import Base.Hex Base.Conc Model.LiveConfig.
Import ListNotations.

Lemma beq_refl a : beq_bytes a a = true.
Proof. apply beq_bytes_eq. reflexivity. Qed.

Lemma cfg_eqb_eq a b : cfg_eqb a b = true <-> a = b.
Proof.
  destruct a as [ra la oa], b as [rb lb ob]. unfold cfg_eqb. simpl.
  rewrite !andb_true_iff, !beq_bytes_eq, Bool.eqb_true_iff.
  split; [intros [[-> ->] ->]; reflexivity | intros H; inversion H; auto].
Qed.

Lemma cfg_eqb_refl a : cfg_eqb a a = true.
Proof. now apply cfg_eqb_eq. Qed.

Lemma code_eqb_eq a b : code_eqb a b = true <-> a = b.
Proof. destruct a, b; simpl; split; intros H; try reflexivity; discriminate. Qed.

Section Proofs.
  Variable hash : cfg -> bytes.

  Notation step := (step hash).
  Notation apply_locked := (apply_locked hash).
  Notation run := (run hash).
  Notation final := (final hash).

  (* ---------- one call ---------- *)

  (* what an accepted apply means *)
  Definition accepted (before : cfg) (o : op) (after : cfg) : Prop :=
    exists cd, cand_of o = Some cd /\ c_valid cd = true /\
               lite before = true /\ lite (c_cfg cd) = true /\
               rest (c_cfg cd) = rest before /\          (* differs solely in the routes *)
               c_cfg cd <> before /\
               after = c_cfg cd.                         (* one complete candidate is published *)

  Lemma apply_locked_applied cur c :
    r_code (snd (apply_locked cur c)) = CApplied ->
    exists cd, c = Some cd /\ c_valid cd = true /\
               lite cur = true /\ lite (c_cfg cd) = true /\ rest (c_cfg cd) = rest cur /\
               c_cfg cd <> cur /\ fst (apply_locked cur c) = c_cfg cd /\
               r_version (snd (apply_locked cur c)) = hash (c_cfg cd).
  Proof.
    unfold LiveConfig.apply_locked. destruct c as [cd|]; [|discriminate].
    destruct (cfg_eqb cur (c_cfg cd)) eqn:Eeq; [discriminate|].
    destruct (c_valid cd) eqn:Ev; [|discriminate]. simpl.
    destruct (only_routes_changed cur (c_cfg cd)) eqn:Eo; [|discriminate]. simpl.
    intros _. unfold only_routes_changed in Eo.
    apply andb_true_iff in Eo. destruct Eo as [Eo Er]. apply andb_true_iff in Eo.
    destruct Eo as [El Elc]. apply beq_bytes_eq in Er.
    assert (Hpub : mkCfg (rest cur) (lite cur) (routes (c_cfg cd)) = c_cfg cd).
    { destruct (c_cfg cd) as [r l o]. simpl in *. subst. rewrite El. reflexivity. }
    exists cd. repeat split; auto.
    - intros E. rewrite E, cfg_eqb_refl in Eeq. discriminate.
    - now rewrite Hpub.
  Qed.

  Lemma apply_locked_rejected cur c :
    r_code (snd (apply_locked cur c)) <> CApplied -> fst (apply_locked cur c) = cur.
  Proof.
    unfold LiveConfig.apply_locked. destruct c as [cd|]; [|reflexivity].
    destruct (cfg_eqb cur (c_cfg cd)); [reflexivity|].
    destruct (c_valid cd); [|reflexivity]. simpl.
    destruct (only_routes_changed cur (c_cfg cd)); [|reflexivity]. simpl. congruence.
  Qed.

  Lemma apply_locked_never_precondition cur c :
    r_code (snd (apply_locked cur c)) <> CPrecondition.
  Proof.
    unfold LiveConfig.apply_locked. destruct c as [cd|]; [|simpl; discriminate].
    destruct (cfg_eqb cur (c_cfg cd)); [simpl; discriminate|].
    destruct (c_valid cd); [|simpl; discriminate]. simpl.
    destruct (only_routes_changed cur (c_cfg cd)); simpl; discriminate.
  Qed.

  Lemma step_applied cur o :
    r_code (snd (step cur o)) = CApplied -> accepted cur o (fst (step cur o)).
  Proof.
    destruct o as [c|c e| |]; simpl; try discriminate.
    - intros H. destruct (apply_locked_applied cur c H) as [cd [-> [? [? [? [? [? [? ?]]]]]]]].
      exists cd. repeat split; auto.
    - destruct (beq_bytes (hash cur) e); [|discriminate].
      intros H. destruct (apply_locked_applied cur c H) as [cd [-> [? [? [? [? [? [? ?]]]]]]]].
      exists cd. repeat split; auto.
  Qed.

  Lemma step_rejected cur o :
    r_code (snd (step cur o)) <> CApplied -> fst (step cur o) = cur.
  Proof.
    destruct o as [c|c e| |]; simpl; try reflexivity.
    - apply apply_locked_rejected.
    - destruct (beq_bytes (hash cur) e); [apply apply_locked_rejected|reflexivity].
  Qed.

  (* the version a call reports is the version of the configuration it leaves behind *)
  Definition reports_version (c : code) : bool :=
    match c with CApplied | CUnchanged | CPrecondition | CSnapshot => true | _ => false end.

  Lemma step_reported_version cur o :
    reports_version (r_code (snd (step cur o))) = true ->
    r_version (snd (step cur o)) = hash (fst (step cur o)).
  Proof.
    assert (A : forall c, reports_version (r_code (snd (apply_locked cur c))) = true ->
                          r_version (snd (apply_locked cur c)) = hash (fst (apply_locked cur c))).
    { intros c. unfold LiveConfig.apply_locked. destruct c as [cd|]; [|discriminate].
      destruct (cfg_eqb cur (c_cfg cd)); [reflexivity|].
      destruct (c_valid cd); [|discriminate]. simpl.
      destruct (only_routes_changed cur (c_cfg cd)); [|discriminate]. reflexivity. }
    destruct o as [c|c e| |]; simpl; try reflexivity; try discriminate.
    - apply A.
    - destruct (beq_bytes (hash cur) e); [apply A|reflexivity].
  Qed.

  (* compare-and-swap *)
  Lemma step_cas cur c e :
    (hash cur = e -> step cur (ApplyIf c e) = apply_locked cur c) /\
    (hash cur <> e ->
       step cur (ApplyIf c e) = (cur, mkRes CPrecondition (hash cur) None None)) /\
    (r_code (snd (step cur (ApplyIf c e))) <> CPrecondition -> hash cur = e).
  Proof.
    simpl. destruct (beq_bytes (hash cur) e) eqn:E.
    - apply beq_bytes_eq in E. repeat split; auto. congruence.
    - assert (hash cur <> e) by (intros H; apply beq_bytes_eq in H; congruence).
      repeat split; auto; try contradiction.
  Qed.

  (* ---------- histories ---------- *)

  Lemma run_app cur ops1 ops2 :
    run cur (ops1 ++ ops2) = run cur ops1 ++ run (final cur ops1) ops2.
  Proof.
    revert cur. induction ops1 as [|o r IH]; intros cur; simpl; [reflexivity|].
    now rewrite IH.
  Qed.

  Lemma final_app cur ops1 ops2 : final cur (ops1 ++ ops2) = final (final cur ops1) ops2.
  Proof. revert cur. induction ops1 as [|o r IH]; intros cur; simpl; auto. Qed.

  (* every event of a history is one step of the model from the state the previous call left *)
  Lemma run_events cur ops e :
    In e (run cur ops) ->
    In (e_op e) ops /\ e_res e = snd (step (e_before e) (e_op e)) /\
    e_after e = fst (step (e_before e) (e_op e)).
  Proof.
    revert cur. induction ops as [|o r IH]; intros cur; simpl; [contradiction|].
    intros [<-|H]; simpl; [auto|]. destruct (IH _ H) as [? [? ?]]. auto.
  Qed.

  Theorem published_is_candidate cur ops e :
    In e (run cur ops) -> r_code (e_res e) = CApplied ->
    accepted (e_before e) (e_op e) (e_after e).
  Proof.
    intros Hin Hc. destruct (run_events _ _ _ Hin) as [_ [Hr Ha]].
    rewrite Ha. apply step_applied. now rewrite <- Hr.
  Qed.

  (* the configuration in force after any history is the initial one or a complete candidate
     that was submitted as valid in that history *)
  Theorem current_is_initial_or_candidate ops : forall cur,
    final cur ops = cur \/
    exists o cd, In o ops /\ cand_of o = Some cd /\ c_valid cd = true /\ final cur ops = c_cfg cd.
  Proof.
    induction ops as [|o r IH] using rev_ind; intros cur; [now left|].
    rewrite final_app. simpl.
    destruct (code_eqb (r_code (snd (step (final cur r) o))) CApplied) eqn:E.
    - apply code_eqb_eq in E. destruct (step_applied _ _ E) as [cd [Hc [Hv [_ [_ [_ [_ Ha]]]]]]].
      right. exists o, cd. rewrite in_app_iff. simpl. auto.
    - assert (Hne : r_code (snd (step (final cur r) o)) <> CApplied)
        by (intros H; apply code_eqb_eq in H; congruence).
      rewrite (step_rejected _ _ Hne).
      destruct (IH cur) as [H|[o' [cd [Hin [Hc [Hv Hf]]]]]]; [now left|].
      right. exists o', cd. rewrite in_app_iff. auto.
  Qed.

  Theorem reject_unchanged cur ops e :
    In e (run cur ops) -> r_code (e_res e) <> CApplied ->
    e_after e = e_before e /\ hash (e_after e) = hash (e_before e) /\
    routes (e_after e) = routes (e_before e).
  Proof.
    intros Hin Hc. destruct (run_events _ _ _ Hin) as [_ [Hr Ha]].
    assert (E : e_after e = e_before e) by (rewrite Ha; apply step_rejected; now rewrite <- Hr).
    rewrite E. auto.
  Qed.

  Theorem cas cur ops e c expected :
    In e (run cur ops) -> e_op e = ApplyIf c expected ->
    (r_code (e_res e) <> CPrecondition -> expected = hash (e_before e)) /\
    (expected <> hash (e_before e) ->
       r_code (e_res e) = CPrecondition /\ e_after e = e_before e /\
       r_version (e_res e) = hash (e_before e)) /\
    (expected = hash (e_before e) ->
       e_res e = snd (apply_locked (e_before e) c) /\ r_code (e_res e) <> CPrecondition).
  Proof.
    intros Hin Ho. destruct (run_events _ _ _ Hin) as [_ [Hr Ha]]. rewrite Ho in *.
    destruct (step_cas (e_before e) c expected) as [Heq [Hne Hnp]].
    repeat split.
    - intros H. symmetry. apply Hnp. now rewrite <- Hr.
    - rewrite Hr, Hne by congruence. reflexivity.
    - rewrite Ha, Hne by congruence. reflexivity.
    - rewrite Hr, Hne by congruence. reflexivity.
    - rewrite Hr, Heq by congruence. reflexivity.
    - rewrite Hr, Heq by congruence. apply apply_locked_never_precondition.
  Qed.

  Theorem reported_version_is_current cur ops e :
    In e (run cur ops) -> reports_version (r_code (e_res e)) = true ->
    r_version (e_res e) = hash (e_after e).
  Proof.
    intros Hin Hc. destruct (run_events _ _ _ Hin) as [_ [Hr Ha]].
    rewrite Hr, Ha. apply step_reported_version. now rewrite <- Hr.
  Qed.

  (* versions are a function of content; with an injective hash also the converse *)
  Hypothesis hash_injective : forall a b, hash a = hash b -> a = b.

  Theorem version_iff_content cur ops e1 e2 :
    In e1 (run cur ops) -> In e2 (run cur ops) ->
    reports_version (r_code (e_res e1)) = true -> reports_version (r_code (e_res e2)) = true ->
    (r_version (e_res e1) = r_version (e_res e2) <-> e_after e1 = e_after e2).
  Proof.
    intros H1 H2 R1 R2.
    rewrite (reported_version_is_current _ _ _ H1 R1), (reported_version_is_current _ _ _ H2 R2).
    split; [apply hash_injective|congruence].
  Qed.

  Theorem version_changes_iff_content_changes cur ops e :
    In e (run cur ops) ->
    (hash (e_after e) = hash (e_before e) <-> e_after e = e_before e).
  Proof. intros _. split; [apply hash_injective|congruence]. Qed.

  (* ---------- concurrent schedules ----------
     Every call holds reloadMu from its first to its last statement, so it is one atomic action
     on the shared configuration.  Goroutines = lists of calls; any interleaving produces a
     trace that is a sequential history of the same calls. *)
  Definition act (o : op) : @action cfg event :=
    fun s => (fst (step s o), [mkEv s o (snd (step s o)) (fst (step s o))]).

  Definition goroutines (tops : list (list op)) : list (@thread cfg event) := map (map act) tops.

  Lemma concat_goroutines tops : concat (goroutines tops) = map act (concat tops).
  Proof.
    unfold goroutines. induction tops as [|t r IH]; simpl; [reflexivity|].
    now rewrite IH, map_app.
  Qed.

  Theorem schedules_are_histories tops sched cur :
    let r := Conc.run (goroutines tops) sched cur in
    exists ops, incl ops (concat tops) /\ events r = run cur ops /\ final_state r = final cur ops.
  Proof.
    set (P := fun (s : cfg) (evs : list event) =>
                exists ops, incl ops (concat tops) /\ evs = run cur ops /\ s = final cur ops).
    assert (H : P (fst (fst (Conc.run (goroutines tops) sched cur)))
                  ([] ++ snd (fst (Conc.run (goroutines tops) sched cur)))).
    { apply (trace_inv_all_schedules P).
      - intros a Ha s evs [ops [Hincl [Hev Hs]]].
        rewrite concat_goroutines in Ha. apply in_map_iff in Ha. destruct Ha as [o [<- Ho]].
        exists (ops ++ [o]). split; [|split].
        + apply incl_app; [assumption|]. intros x [<-|[]]. assumption.
        + rewrite run_app, <- Hev, <- Hs. reflexivity.
        + rewrite final_app, <- Hs. reflexivity.
      - exists []. repeat split. intros x []. }
    exact H.
  Qed.
End Proofs.

(* ---------- non-vacuity (a concrete hash: the content itself, serialised) ---------- *)
Definition demo_hash (c : cfg) : bytes := rest c ++ [if lite c then 1 else 0]%N ++ routes c.

Definition c0 : cfg := mkCfg [1]%N true [10]%N.
Definition good : cand := mkCand (mkCfg [1]%N true [11]%N) true.
Definition other_change : cand := mkCand (mkCfg [2]%N true [11]%N) true.
Definition bad_routes : cand := mkCand (mkCfg [1]%N true [12]%N) false.

Example demo_history :
  map (fun e => (r_code (e_res e), e_after e))
      (run demo_hash c0
         [ApplyIf (Some good) [9]%N;                 (* stale version *)
          Apply (Some bad_routes);                   (* invalid *)
          Apply (Some other_change);                 (* not only routes *)
          ApplyIf (Some good) (demo_hash c0);        (* fresh version: applied *)
          ApplyIf (Some bad_routes) (demo_hash c0);  (* now stale *)
          Apply (Some good);                         (* unchanged *)
          Apply None])
  = [(CPrecondition, c0); (CInvalid, c0); (CUnsupported, c0); (CApplied, c_cfg good);
     (CPrecondition, c_cfg good); (CUnchanged, c_cfg good); (CInvalid, c_cfg good)].
Proof. vm_compute. reflexivity. Qed.

(* two goroutines racing with the same fresh version: in every interleaving exactly one wins *)
Example demo_race :
  let good2 := mkCand (mkCfg [1]%N true [13]%N) true in
  check_all_schedules
    (goroutines demo_hash [[ApplyIf (Some good) (demo_hash c0)]; [ApplyIf (Some good2) (demo_hash c0)]])
    c0
    (fun s evs =>
       Nat.eqb (length (filter (fun e => is_applied (e_res e)) evs)) 1 &&
       Nat.eqb (length (filter (fun e => code_eqb (r_code (e_res e)) CPrecondition) evs)) 1) = true.
Proof. vm_compute. reflexivity. Qed.
