(* C30, part 3 — connection counts under every schedule (Base/Conc.v).

   Every forwarded connection is a thread of four atomic steps, the four critical sections of
   TrackConnection and of the closure it returns, in program order:
       a_track    activeConnectionsMu:  activeConnections[key]++
       l_inc      strategyCountersMu:   counter(backend)++           (IncrementConnection)
       l_dec      strategyCountersMu:   counter(backend)--           (decrementStrategyCounter)
       a_release  activeConnectionsMu:  if count <= 1 delete else count-1
   A connection is OPEN from the end of a_track to the beginning of a_release, i.e. while its
   thread has between 1 and 3 steps left.  For every set of connections and every schedule
   (complete or not) ActiveConnections() equals the number of open connections. *)
From Coq Require Import List NArith Bool Arith Lia.
From Verif Require Import Base.Hex Base.Conc Model.Strategy Proofs.C30.
Import ListNotations.
Open Scope N_scope.

(* ---------- the association list with unique keys ---------- *)

Definition nodup_keys (m : amap) : Prop := NoDup (map fst m).

Lemma beq_bytes_neq a b : a <> b -> beq_bytes a b = false.
Proof. intro H. now apply beq_bytes_false. Qed.

Lemma lookup_set_other m k v k' : k <> k' -> lookup (set m k v) k' = lookup m k'.
Proof.
  intro Hne. induction m as [|[k0 v0] r IH]; simpl.
  - now rewrite (beq_bytes_neq _ _ Hne).
  - destruct (beq_bytes k0 k) eqn:E; simpl.
    + apply beq_bytes_eq in E. subst k0. now rewrite (beq_bytes_neq _ _ Hne).
    + destruct (beq_bytes k0 k'); [reflexivity|assumption].
Qed.

Lemma keys_set m k v k' : In k' (map fst (set m k v)) <-> k' = k \/ In k' (map fst m).
Proof.
  induction m as [|[k0 v0] r IH]; simpl.
  - intuition (subst; auto).
  - destruct (beq_bytes k0 k) eqn:E; simpl.
    + apply beq_bytes_eq in E. subst k0. intuition (subst; auto).
    + rewrite IH. intuition (subst; auto).
Qed.

Lemma nodup_set m k v : nodup_keys m -> nodup_keys (set m k v).
Proof.
  unfold nodup_keys. induction m as [|[k0 v0] r IH]; simpl; intro H.
  - constructor; [intros []|constructor].
  - inversion H as [|? ? Hnotin Hnd]; subst.
    destruct (beq_bytes k0 k) eqn:E; simpl.
    + apply beq_bytes_eq in E. subst k0. constructor; assumption.
    + constructor; [|auto]. rewrite keys_set. intros [->|Hin]; [|contradiction].
      rewrite beq_bytes_refl in E. discriminate.
Qed.

Lemma total_set m k v : total (set m k v) + lookup0 m k = total m + v.
Proof.
  unfold lookup0. induction m as [|[k0 v0] r IH]; simpl.
  - lia.
  - destruct (beq_bytes k0 k) eqn:E; simpl; lia.
Qed.

Lemma lookup_remove_same m k : lookup (remove_key m k) k = None.
Proof.
  unfold remove_key. induction m as [|[k0 v0] r IH]; simpl; [reflexivity|].
  destruct (beq_bytes k0 k) eqn:E; simpl; [assumption|now rewrite E].
Qed.

Lemma lookup_remove_other m k k' : k <> k' -> lookup (remove_key m k) k' = lookup m k'.
Proof.
  intro Hne. unfold remove_key. induction m as [|[k0 v0] r IH]; simpl; [reflexivity|].
  destruct (beq_bytes k0 k) eqn:E; simpl.
  - apply beq_bytes_eq in E. subst k0. now rewrite (beq_bytes_neq _ _ Hne).
  - destruct (beq_bytes k0 k'); [reflexivity|assumption].
Qed.

Lemma nodup_remove m k : nodup_keys m -> nodup_keys (remove_key m k).
Proof.
  unfold nodup_keys, remove_key. induction m as [|[k0 v0] r IH]; simpl; intro H; [constructor|].
  inversion H as [|? ? Hnotin Hnd]; subst.
  destruct (beq_bytes k0 k); simpl; [auto|].
  constructor; [|auto]. intro Hin. apply Hnotin.
  apply in_map_iff in Hin. destruct Hin as [[k1 v1] [Hk Hin]]. apply filter_In in Hin.
  apply in_map_iff. exists (k1, v1). tauto.
Qed.

Lemma lookup_not_key m k : ~ In k (map fst m) -> lookup m k = None.
Proof.
  induction m as [|[k0 v0] r IH]; simpl; intro H; [reflexivity|].
  destruct (beq_bytes k0 k) eqn:E.
  - apply beq_bytes_eq in E. exfalso. apply H. now left.
  - apply IH. intro Hin. apply H. now right.
Qed.

Lemma total_remove m k : nodup_keys m -> total (remove_key m k) + lookup0 m k = total m.
Proof.
  unfold nodup_keys, remove_key, lookup0. induction m as [|[k0 v0] r IH]; simpl; intro H; [lia|].
  inversion H as [|? ? Hnotin Hnd]; subst.
  destruct (beq_bytes k0 k) eqn:E; simpl.
  - apply beq_bytes_eq in E. subst k0.
    assert (Hr : filter (fun e => negb (beq_bytes (fst e) k)) r = r).
    { clear - Hnotin. induction r as [|[k1 v1] r IHr]; [reflexivity|]. simpl.
      destruct (beq_bytes k1 k) eqn:E1.
      - apply beq_bytes_eq in E1. exfalso. apply Hnotin. simpl. now left.
      - simpl. f_equal. apply IHr. intro Hin. apply Hnotin. simpl. now right. }
    rewrite Hr. lia.
  - specialize (IH Hnd). lia.
Qed.

(* incr / decr *)

Lemma lookup0_incr m k k' :
  lookup0 (incr m k) k' = lookup0 m k' + (if beq_bytes k k' then 1 else 0).
Proof.
  unfold incr, lookup0. destruct (beq_bytes k k') eqn:E.
  - apply beq_bytes_eq in E. subst k'. now rewrite lookup_set_same.
  - apply beq_bytes_false in E. rewrite (lookup_set_other _ _ _ _ E). lia.
Qed.

Lemma total_incr m k : total (incr m k) = total m + 1.
Proof. unfold incr. pose proof (total_set m k (lookup0 m k + 1)). lia. Qed.

Lemma lookup0_decr m k k' : nodup_keys m -> 1 <= lookup0 m k ->
  lookup0 (decr m k) k' + (if beq_bytes k k' then 1 else 0) = lookup0 m k'.
Proof.
  intros Hnd Hge. unfold decr. destruct (lookup0 m k <=? 1) eqn:Ec.
  - apply N.leb_le in Ec. assert (Hc : lookup0 m k = 1) by lia.
    destruct (beq_bytes k k') eqn:E.
    + apply beq_bytes_eq in E. subst k'. unfold lookup0 at 1. rewrite lookup_remove_same. lia.
    + apply beq_bytes_false in E. unfold lookup0. rewrite (lookup_remove_other _ _ _ E). lia.
  - apply N.leb_gt in Ec. destruct (beq_bytes k k') eqn:E.
    + apply beq_bytes_eq in E. subst k'. unfold lookup0 at 1. rewrite lookup_set_same. lia.
    + apply beq_bytes_false in E. unfold lookup0. rewrite (lookup_set_other _ _ _ _ E). lia.
Qed.

Lemma total_decr m k : nodup_keys m -> 1 <= lookup0 m k -> total (decr m k) + 1 = total m.
Proof.
  intros Hnd Hge. unfold decr. destruct (lookup0 m k <=? 1) eqn:Ec.
  - apply N.leb_le in Ec. pose proof (total_remove m k Hnd). lia.
  - apply N.leb_gt in Ec. pose proof (total_set m k (lookup0 m k - 1)). lia.
Qed.

Lemma nodup_incr m k : nodup_keys m -> nodup_keys (incr m k).
Proof. apply nodup_set. Qed.

Lemma nodup_decr m k : nodup_keys m -> nodup_keys (decr m k).
Proof. intro H. unfold decr. destruct (_ <=? _); [now apply nodup_remove|now apply nodup_set]. Qed.

(* ---------- connections as threads ---------- *)

Definition conn := (bytes * bytes)%type.                (* route host, backend address *)
Definition ckey (c : conn) : bytes := conn_key (fst c) (snd c).

Definition act := @action sstate unit.

Definition a_track (c : conn) : act :=
  fun s => (mkS (rr s) (lc s) (incr (active s) (ckey c)) (lat s), []).
Definition l_inc (c : conn) : act :=
  fun s => (mkS (rr s) (incr (lc s) (snd c)) (active s) (lat s), []).
Definition l_dec (c : conn) : act :=
  fun s => (mkS (rr s) (decr (lc s) (snd c)) (active s) (lat s), []).
Definition a_release (c : conn) : act :=
  fun s => (mkS (rr s) (lc s) (decr (active s) (ckey c)) (lat s), []).

Definition prog (c : conn) : list act := [a_track c; l_inc c; l_dec c; a_release c].

(* the two halves of TrackConnection, and of its closure, compose to Model.Strategy.track/release *)
Lemma prog_is_track_release c s :
  fst (l_inc c (fst (a_track c s))) = track (fst c) (snd c) s
  /\ fst (a_release c (fst (l_dec c s))) = release (fst c) (snd c) s.
Proof. split; reflexivity. Qed.

(* a configuration: every connection with the number of steps it has already taken *)
Definition conf (l : list (conn * nat)) : list (list act) :=
  map (fun x => skipn (snd x) (prog (fst x))) l.

Definition is_open (pc : nat) : bool := (1 <=? pc)%nat && (pc <=? 3)%nat.

Fixpoint upd {A} (l : list A) (i : nat) (x : A) : list A :=
  match l, i with
  | [], _ => []
  | _ :: r, O => x :: r
  | y :: r, S i' => y :: upd r i' x
  end.

Definition nop : act := fun s => (s, []).

Lemma pick_conf : forall l i a ts',
  pick (conf l) i = Some (a, ts') ->
  exists c pc, nth_error l i = Some (c, pc) /\ (pc < 4)%nat
               /\ a = nth pc (prog c) nop /\ ts' = conf (upd l i (c, S pc)).
Proof.
  induction l as [|[c pc] r IH]; intros i a ts' H.
  - destruct i; discriminate.
  - destruct i as [|i].
    + exists c, pc. unfold conf in H. simpl in H.
      destruct pc as [|[|[|[|pc]]]]; simpl in H;
        [| | | |destruct pc; discriminate H];
        inversion H; subst; repeat split; try reflexivity; lia.
    + unfold conf in H. simpl in H. fold (conf r) in H.
      assert (H' : match pick (conf r) i with
                   | Some (a0, rest') => Some (a0, skipn pc (prog c) :: rest')
                   | None => None end = Some (a, ts'))
        by (destruct (skipn pc (prog c)); exact H).
      clear H. destruct (pick (conf r) i) as [[a0 rest']|] eqn:Hp; [|discriminate].
      inversion H'; subst; clear H'.
      destruct (IH _ _ _ Hp) as [c0 [pc0 [Hn [Hlt [Ha Ht]]]]].
      exists c0, pc0. repeat split; auto. simpl. unfold conf. simpl. now rewrite Ht.
Qed.

(* counting under a point update *)
Lemma cnt_upd {A} (P : A -> bool) : forall l i x y,
  nth_error l i = Some x ->
  (length (filter P (upd l i y)) + (if P x then 1 else 0)
   = length (filter P l) + (if P y then 1 else 0))%nat.
Proof.
  induction l as [|z r IH]; intros i x y H; [destruct i; discriminate|].
  destruct i as [|i]; simpl in *.
  - inversion H; subst. destruct (P x), (P y); simpl; lia.
  - specialize (IH _ _ y H). destruct (P z); simpl; lia.
Qed.

Lemma upd_fst {A B} : forall (l : list (A * B)) i a b b',
  nth_error l i = Some (a, b) -> map fst (upd l i (a, b')) = map fst l.
Proof.
  induction l as [|z r IH]; intros i a b b' H; [destruct i; discriminate|].
  destruct i as [|i]; simpl in *.
  - inversion H; subst. reflexivity.
  - f_equal. eauto.
Qed.

Definition open_cnt (k : bytes) (l : list (conn * nat)) : nat :=
  length (filter (fun x => is_open (snd x) && beq_bytes (ckey (fst x)) k) l).
Definition open_n (l : list (conn * nat)) : nat :=
  length (filter (fun x => is_open (snd x)) l).

Definition Inv (m : amap) (l : list (conn * nat)) : Prop :=
  nodup_keys m
  /\ (forall k, lookup0 m k = N.of_nat (open_cnt k l))
  /\ total m = N.of_nat (open_n l).

Lemma step_inv : forall l i c pc s,
  nth_error l i = Some (c, pc) -> (pc < 4)%nat -> Inv (active s) l ->
  Inv (active (fst (nth pc (prog c) nop s))) (upd l i (c, S pc)).
Proof.
  intros l i c pc s Hn Hlt [Hnd [Hk Ht]].
  pose proof (fun k => cnt_upd (fun x => is_open (snd x) && beq_bytes (ckey (fst x)) k) l i (c, pc) (c, S pc) Hn) as Hc.
  pose proof (cnt_upd (fun x => is_open (snd x)) l i (c, pc) (c, S pc) Hn) as Hc0.
  fold (open_n (upd l i (c, S pc))) in Hc0. fold (open_n l) in Hc0.
  destruct pc as [|[|[|[|pc]]]]; [| | | |lia]; simpl in Hc, Hc0; simpl.
  - (* a_track *) repeat split.
    + now apply nodup_incr.
    + intro k. rewrite lookup0_incr, Hk. specialize (Hc k).
      fold (open_cnt k (upd l i (c, 1%nat))) in Hc. fold (open_cnt k l) in Hc.
      destruct (beq_bytes (ckey c) k); lia.
    + rewrite total_incr, Ht. lia.
  - (* l_inc *) repeat split; auto.
    + intro k. rewrite Hk. specialize (Hc k).
      fold (open_cnt k (upd l i (c, 2%nat))) in Hc. fold (open_cnt k l) in Hc.
      destruct (beq_bytes (ckey c) k); lia.
    + rewrite Ht. lia.
  - (* l_dec *) repeat split; auto.
    + intro k. rewrite Hk. specialize (Hc k).
      fold (open_cnt k (upd l i (c, 3%nat))) in Hc. fold (open_cnt k l) in Hc.
      destruct (beq_bytes (ckey c) k); lia.
    + rewrite Ht. lia.
  - (* a_release: this connection is open, so its key has count >= 1 *)
    assert (Hge : 1 <= lookup0 (active s) (ckey c)).
    { rewrite Hk. specialize (Hc (ckey c)). rewrite beq_bytes_refl in Hc. simpl in Hc.
      fold (open_cnt (ckey c) l) in Hc. lia. }
    repeat split.
    + now apply nodup_decr.
    + intro k. pose proof (lookup0_decr (active s) (ckey c) k Hnd Hge) as Hd.
      rewrite Hk in Hd. specialize (Hc k).
      fold (open_cnt k (upd l i (c, 4%nat))) in Hc. fold (open_cnt k l) in Hc.
      destruct (beq_bytes (ckey c) k); lia.
    + pose proof (total_decr (active s) (ckey c) Hnd Hge). lia.
Qed.

Lemma run_cons (ts : list (list act)) i sched (s : sstate) :
  run ts (i :: sched) s
  = match pick ts i with
    | None => run ts sched s
    | Some (a, ts') =>
        let '(s1, ev1) := a s in
        let '(s2, ev2, ts2) := run ts' sched s1 in (s2, ev1 ++ ev2, ts2)
    end.
Proof. reflexivity. Qed.

Lemma run_conf_inv : forall sched l s,
  Inv (active s) l ->
  exists l', snd (run (conf l) sched s) = conf l'
             /\ map fst l' = map fst l
             /\ Inv (active (fst (fst (run (conf l) sched s)))) l'.
Proof.
  induction sched as [|i sched IH]; intros l s HI.
  - exists l. simpl. auto.
  - rewrite run_cons. destruct (pick (conf l) i) as [[a ts']|] eqn:Hp.
    + destruct (pick_conf _ _ _ _ Hp) as [c [pc [Hn [Hlt [Ha Ht]]]]]. subst a ts'.
      pose proof (step_inv l i c pc s Hn Hlt HI) as HI'.
      destruct (nth pc (prog c) nop s) as [s1 ev1]. cbn [fst] in HI'.
      destruct (IH (upd l i (c, S pc)) s1 HI') as [l' [Hr [Hf HI'']]].
      destruct (run (conf (upd l i (c, S pc))) sched s1) as [[s2 ev2] ts2]. cbn [fst snd] in *.
      exists l'. split; [assumption|]. split; [|assumption].
      rewrite Hf. eapply upd_fst; eauto.
    + apply IH. assumption.
Qed.

(* open connections, read off the remaining threads *)
Definition thread_open (t : list act) : bool := (1 <=? length t)%nat && (length t <=? 3)%nat.
Definition open_threads (ts : list (list act)) : nat := length (filter thread_open ts).

Lemma open_threads_conf l : open_threads (conf l) = open_n l.
Proof.
  unfold open_threads, open_n, conf. induction l as [|[c pc] r IH]; [reflexivity|]. simpl.
  assert (E : thread_open (skipn pc (prog c)) = is_open pc).
  { destruct pc as [|[|[|[|pc]]]]; try reflexivity.
    unfold thread_open, is_open. simpl. destruct pc; reflexivity. }
  rewrite E. destruct (is_open pc); simpl; now rewrite IH.
Qed.

Definition start (cs : list conn) : list (list act) := conf (map (fun c => (c, 0%nat)) cs).

Lemma start_is_progs cs : start cs = map prog cs.
Proof. unfold start, conf. rewrite map_map. reflexivity. Qed.

Lemma inv_start cs : Inv (active init_state) (map (fun c => (c, 0%nat)) cs).
Proof.
  repeat split.
  - constructor.
  - intro k. unfold open_cnt. induction cs; simpl; auto.
  - unfold open_n. induction cs; simpl; auto.
Qed.

(* ActiveConnections() = number of open forwarded connections, at every instant of every schedule *)
Theorem count_eq_open : forall (cs : list conn) (sched : list nat),
  let r := run (map prog cs) sched init_state in
  active_total (final_state r) = N.of_nat (open_threads (remaining r)).
Proof.
  intros cs sched. rewrite <- start_is_progs. unfold start.
  destruct (run_conf_inv sched _ init_state (inv_start cs)) as [l' [Hr [_ [_ [_ Ht]]]]].
  unfold final_state, remaining, active_total. rewrite Hr, open_threads_conf. exact Ht.
Qed.

(* ... and zero when all of them have closed *)
Theorem count_zero_at_quiescence : forall (cs : list conn) (sched : list nat),
  let r := run (map prog cs) sched init_state in
  complete (remaining r) = true -> active_total (final_state r) = 0.
Proof.
  intros cs sched r Hc. unfold r. rewrite count_eq_open.
  replace (open_threads (remaining (run (map prog cs) sched init_state))) with 0%nat; [reflexivity|].
  symmetry. unfold open_threads. fold r.
  unfold complete in Hc. rewrite forallb_forall in Hc.
  induction (remaining r) as [|t ts IH]; [reflexivity|]. simpl.
  assert (Ht : thread_open t = false).
  { specialize (Hc t (or_introl eq_refl)). destruct t; [reflexivity|discriminate]. }
  rewrite Ht. apply IH. intros x Hx. apply Hc. now right.
Qed.

(* non-vacuity: three connections, two of them aliases of one backend, every complete
   interleaving (34650 schedules would be too many: two connections with 4 steps each = 70) *)
Example count_examples :
  let c1 : conn := ([104], [97]) in                         (* route "h", backend "a" *)
  let c2 : conn := ([72], [65; 58; 50; 53; 53; 54; 53]) in  (* route "H", backend "A:25565" *)
  length (all_schedules (map prog [c1; c2])) = 70%nat
  /\ check_all_schedules (map prog [c1; c2]) init_state
       (fun s _ => (active_total s =? 0) && match active s with [] => true | _ => false end) = true
  /\ active_total (final_state (run (map prog [c1; c2]) [0; 1; 1; 0]%nat init_state)) = 2
  /\ active (final_state (run (map prog [c1; c2]) [0; 1]%nat init_state))
     = [([104; 0; 97; 58; 50; 53; 53; 54; 53], 2)].
Proof. vm_compute. repeat split; reflexivity. Qed.

(* ---------- lite.Forward: its exit paths and the track/release program ----------

   Forward (forward.go) leaves through exactly one of these paths, in source order:
     XNoRoute         findRoute failed                         (return before any dial)
     XAllDialsFailed  tryBackends exhausted the iterator        (return before TrackConnection)
     XHandoverFailed  emptyReadBuff failed (ReadBuffered error, or writing the client's buffered
                      bytes to the backend failed)              (return before TrackConnection)
     XPiped           TrackConnection; defer decrementConnection; pipe(...) returns
   Only XPiped executes TrackConnection, and the release is deferred right after it, so the steps
   a Forward contributes to the shared counters are [prog c] on XPiped and nothing otherwise.  (A
   Forward that tracked but left without releasing - e.g. TrackConnection moved above the
   emptyReadBuff return - would be a thread [a_track c; l_inc c], for which the theorems below do
   not hold; the harness's Forward cases observe exactly that difference.) *)
Inductive fwd_exit := XNoRoute | XAllDialsFailed | XHandoverFailed | XPiped.

Definition fwd_thread (x : fwd_exit * conn) : list act :=
  match fst x with XPiped => prog (snd x) | _ => [] end.

(* every exit path that tracks also releases, after it *)
Lemma fwd_tracks_then_releases : forall x c pre post,
  fwd_thread (x, c) = pre ++ a_track c :: post -> In (a_release c) post.
Proof.
  intros x c pre post H. destruct x; unfold fwd_thread in H; simpl in H;
    try (destruct pre; discriminate).
  destruct pre as [|p0 pre]; simpl in H.
  - inversion H; subst. simpl. auto.
  - exfalso. inversion H as [[Hp Hr]]. clear H.
    (* a_track c occurs only at the head of prog c: the other three actions touch other fields *)
    assert (Hneq : forall a, In a [l_inc c; l_dec c; a_release c] ->
              active (fst (a init_state)) <> active (fst (a_track c init_state))).
    { intros a [<-|[<-|[<-|[]]]]; simpl; unfold incr, decr; simpl; discriminate. }
    assert (Hin : In (a_track c) [l_inc c; l_dec c; a_release c]).
    { rewrite Hr. apply in_or_app. right. now left. }
    exact (Hneq _ Hin eq_refl).
Qed.

Definition fwd_pc (x : fwd_exit) : nat := match x with XPiped => 0%nat | _ => 4%nat end.

Lemma fwd_threads_conf fs :
  map fwd_thread fs = conf (map (fun x => (snd x, fwd_pc (fst x))) fs).
Proof.
  unfold conf. rewrite map_map. apply map_ext. intros [x c]. destruct x; reflexivity.
Qed.

Lemma inv_start_fwd fs : Inv (active init_state) (map (fun x => (snd x, fwd_pc (fst x))) fs).
Proof.
  repeat split.
  - constructor.
  - intro k. unfold open_cnt. induction fs as [|[x c] r IH]; simpl; auto. destruct x; simpl; auto.
  - unfold open_n. induction fs as [|[x c] r IH]; simpl; auto. destruct x; simpl; auto.
Qed.

(* any number of Forwards, each leaving through any of its exit paths, under any schedule *)
Theorem forward_count_eq_open : forall (fs : list (fwd_exit * conn)) (sched : list nat),
  let r := run (map fwd_thread fs) sched init_state in
  active_total (final_state r) = N.of_nat (open_threads (remaining r)).
Proof.
  intros fs sched. rewrite fwd_threads_conf.
  destruct (run_conf_inv sched _ init_state (inv_start_fwd fs)) as [l' [Hr [_ [_ [_ Ht]]]]].
  unfold final_state, remaining, active_total. rewrite Hr, open_threads_conf. exact Ht.
Qed.

Theorem forward_count_zero_at_quiescence : forall (fs : list (fwd_exit * conn)) (sched : list nat),
  let r := run (map fwd_thread fs) sched init_state in
  complete (remaining r) = true -> active_total (final_state r) = 0.
Proof.
  intros fs sched r Hc. unfold r. rewrite forward_count_eq_open.
  replace (open_threads (remaining (run (map fwd_thread fs) sched init_state))) with 0%nat; [reflexivity|].
  symmetry. unfold open_threads. fold r.
  unfold complete in Hc. rewrite forallb_forall in Hc.
  induction (remaining r) as [|t ts IH]; [reflexivity|]. simpl.
  assert (Ht : thread_open t = false).
  { specialize (Hc t (or_introl eq_refl)). destruct t; [reflexivity|discriminate]. }
  rewrite Ht. apply IH. intros x Hx. apply Hc. now right.
Qed.

(* the leak the harness's Forward cases look for, in the model: a thread that tracks and leaves
   without releasing ends with a count of 1 although nothing is open *)
Example leaked_track_counts_forever :
  let c : conn := ([104], [97]) in
  active_total (final_state (run [[a_track c; l_inc c]] [0; 0]%nat init_state)) = 1.
Proof. vm_compute. reflexivity. Qed.
