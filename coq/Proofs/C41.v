(* C41 — the scan loop of ExtractSessionPrincipalWire equals "parse with the reference protobuf
   parser, then read the fields"; rejection characterisation; no silent downgrade. *)
From Coq Require Import List NArith ZArith Bool Lia.
From Coq Require Import ZifyN ZifyNat ZifyBool.
From Verif Require Import Base.Hex Base.ProtoWire Model.Principal.
Import ListNotations.
Open Scope N_scope.
Ltac Zify.zify_post_hook ::= Z.div_mod_to_equations.

(* ---------- 1. protowire.ConsumeVarint = reference varint ---------- *)

Definition pw (k : nat) : N := 2 ^ (7 * N.of_nat k + 1).

Lemma pw_S k : pw (S k) = 128 * pw k.
Proof.
  unfold pw. replace (7 * N.of_nat (S k) + 1) with (7 + (7 * N.of_nat k + 1)) by lia.
  rewrite N.pow_add_r. reflexivity.
Qed.

Lemma pw_ge2 k : 2 <= pw k.
Proof.
  induction k as [|k IH]; [unfold pw; cbn; lia|]. rewrite pw_S. lia.
Qed.

Lemma go_loop_rvarint : forall k s v b,
  wf_bytes b -> s + 7 * N.of_nat k = 63 ->
  go_varint_loop k s v b =
  match rvarint (S k) b with
  | Some (x, r) => if x <? pw k then Some (v + x * 2 ^ s, r) else None
  | None => None
  end.
Proof.
  induction k as [|k IH]; intros s v b W Hs.
  - destruct b as [|y r]; [reflexivity|].
    cbn [go_varint_loop rvarint]. assert (s = 63) by lia. subst s.
    rewrite N.shiftl_mul_pow2.
    destruct (N.ltb_spec y 128) as [Hy|Hy].
    + change (pw 0) with 2. reflexivity.
    + destruct (N.ltb_spec y 2); [lia|reflexivity].
  - destruct b as [|y r]; [reflexivity|].
    inversion W as [|? ? Hy256 Wr]; subst.
    cbn [go_varint_loop]. cbv zeta. rewrite !N.shiftl_mul_pow2.
    change (rvarint (S (S k)) (y :: r)) with
      (if y <? 128 then Some (y, r)
       else match rvarint (S k) r with None => None | Some (v', r') => Some ((y - 128) + 128 * v', r') end).
    destruct (N.ltb_spec y 128) as [Hy|Hy].
    + pose proof (pw_ge2 k). rewrite pw_S.
      destruct (N.ltb_spec y (128 * pw k)); [reflexivity|lia].
    + rewrite IH by (try assumption; lia).
      destruct (rvarint (S k) r) as [[x r']|]; [|reflexivity].
      rewrite pw_S.
      destruct (N.ltb_spec x (pw k)) as [Hx|Hx];
        destruct (N.ltb_spec (y - 128 + 128 * x) (128 * pw k)) as [Hx'|Hx']; try lia; try reflexivity.
      f_equal. f_equal.
      replace (s + 7) with (7 + s) by lia. rewrite N.pow_add_r. change (2 ^ 7) with 128.
      set (P := 2 ^ s). nia.
Qed.

Lemma consume_varint_ref b : wf_bytes b -> consume_varint b = ref_varint b.
Proof.
  intro W. unfold consume_varint, ref_varint.
  rewrite go_loop_rvarint by (try assumption; reflexivity).
  destruct (rvarint 10 b) as [[x r]|]; [|reflexivity].
  change (pw 9) with two64. destruct (x <? two64); [|reflexivity].
  rewrite N.pow_0_r. f_equal. f_equal. lia.
Qed.

(* ---------- 2. tags, length-delimited and fixed-width values ---------- *)

Lemma consume_tag_ref b : wf_bytes b -> consume_tag b = ref_tag b.
Proof.
  intro W. unfold consume_tag, ref_tag. rewrite (consume_varint_ref b W).
  destruct (ref_varint b) as [[x r]|]; [|reflexivity]. cbv zeta.
  rewrite N.shiftr_div_pow2. change (2 ^ 3) with 8.
  change 7 with (N.ones 3). rewrite N.land_ones. change (2 ^ 3) with 8.
  unfold max_field_number.
  destruct (N.ltb_spec 2147483647 (x / 8)); destruct (N.ltb_spec (x / 8) 1);
    destruct (N.leb_spec 1 (x / 8)); destruct (N.leb_spec (x / 8) 2147483647);
    cbn [andb]; try reflexivity; lia.
Qed.

Lemma consume_bytes_ref b : wf_bytes b -> consume_bytes b = ref_len b.
Proof.
  intro W. unfold consume_bytes, ref_len. rewrite (consume_varint_ref b W).
  destruct (ref_varint b) as [[m r]|]; [|reflexivity].
  destruct (N.ltb_spec (N.of_nat (length r)) m) as [H|H]; [reflexivity|].
  unfold take. destruct (Nat.ltb_spec (length r) (N.to_nat m)); [lia|reflexivity].
Qed.

Lemma consume_fixed_ref n b :
  consume_fixed n b = match take n b with Some (_, r) => Some r | None => None end.
Proof. unfold consume_fixed, take. destruct (Nat.ltb (length b) n); reflexivity. Qed.

(* ---------- 3. consumeFieldValueD (group loop) = reference recursive descent ---------- *)

Definition group_result (num : N) (x : option seqres) : option bytes :=
  match x with
  | Some (_, Some e, r) => if e =? num then Some r else None
  | _ => None
  end.

Definition value_rest (x : option (wval * bytes)) : option bytes :=
  match x with Some (_, r) => Some r | None => None end.

(* the dispatch, given that the loops agree on this input *)
Lemma cfv_with_ref loop rec d num typ b :
  wf_bytes b ->
  (0 < d -> loop (Z.of_N (d - 1)) num b = group_result num (rec (d - 1) b)) ->
  cfv_with loop (Z.of_N d - 1) num typ b = value_rest (parse_value rec d num typ b).
Proof.
  intros W HL. unfold cfv_with, parse_value.
  destruct (N.eqb_spec typ 0) as [->|N0].
  { cbn [N.eqb]. rewrite (consume_varint_ref b W). destruct (ref_varint b) as [[? ?]|]; reflexivity. }
  destruct (N.eqb_spec typ 5) as [->|N5].
  { cbn [N.eqb]. rewrite consume_fixed_ref. destruct (take 4 b) as [[? ?]|]; reflexivity. }
  destruct (N.eqb_spec typ 1) as [->|N1].
  { rewrite consume_fixed_ref. destruct (take 8 b) as [[? ?]|]; reflexivity. }
  destruct (N.eqb_spec typ 2) as [->|N2].
  { rewrite (consume_bytes_ref b W). destruct (ref_len b) as [[? ?]|]; reflexivity. }
  destruct (N.eqb_spec typ 3) as [->|N3]; [|reflexivity].
  destruct (N.eqb_spec d 0) as [->|Hd].
  { reflexivity. }
  destruct (Z.ltb_spec (Z.of_N d - 1) 0) as [H|H]; [lia|].
  replace (Z.of_N d - 1)%Z with (Z.of_N (d - 1)) by lia.
  rewrite HL by lia. unfold group_result.
  destruct (rec (d - 1) b) as [[[fs [e|]] r]|]; try reflexivity.
  destruct (e =? num); reflexivity.
Qed.

Lemma group_loop_ref : forall n f g d num b,
  wf_bytes b -> (length b <= n)%nat -> (n < f)%nat -> (n < g)%nat ->
  group_loop f (Z.of_N d) num b = group_result num (parse_fields g d b).
Proof.
  induction n as [|n IH]; intros f g d num b W Hn Hf Hg;
    (destruct f as [|f]; [lia|]); (destruct g as [|g]; [lia|]).
  - destruct b as [|x b]; [reflexivity | cbn [length] in Hn; lia].
  - cbn [group_loop parse_fields]. rewrite (consume_tag_ref b W).
    destruct b as [|x b].
    { reflexivity. }
    destruct (ref_tag (x :: b)) as [[[num2 typ2] b1]|] eqn:ET; [|reflexivity].
    pose proof (ref_tag_shorter _ _ _ _ ET) as L1.
    pose proof (suffix_wf _ _ (ref_tag_suffix _ _ _ _ ET) W) as W1.
    destruct (N.eqb_spec typ2 4) as [->|N4].
    { cbn [group_result]. rewrite (N.eqb_sym num num2). reflexivity. }
    replace (Z.of_N d - 1)%Z with (Z.of_N d - 1)%Z by reflexivity.
    rewrite (cfv_with_ref (group_loop f) (parse_fields g) d num2 typ2 b1 W1).
    2:{ intros _. apply (IH f g (d - 1) num2 b1 W1); lia. }
    destruct (parse_value (parse_fields g) d num2 typ2 b1) as [[v b2]|] eqn:EV; [|reflexivity].
    cbn [value_rest].
    assert (S2 : suffix b2 b1).
    { eapply parse_value_suffix; [|exact EV]. intros; eapply parse_fields_suffix; eassumption. }
    pose proof (suffix_length _ _ S2) as L2.
    rewrite (IH f g d num b2 (suffix_wf _ _ S2 W1)) by lia.
    destruct (parse_fields g d b2) as [[[fs [e|]] r]|]; reflexivity.
Qed.

(* protowire.ConsumeFieldValue at the top level (recursion budget 10000 = reference limit 10001) *)
Lemma consume_field_value_ref g num typ b :
  wf_bytes b -> (length b < g)%nat ->
  consume_field_value num typ b = value_rest (parse_value (parse_fields g) ref_group_limit num typ b).
Proof.
  intros W Hg. unfold consume_field_value.
  change default_recursion_limit with (Z.of_N ref_group_limit - 1)%Z.
  apply cfv_with_ref; [exact W|]. intros _.
  apply (group_loop_ref (length b)); try assumption; lia.
Qed.

(* ---------- 4. the scan loop = fold of the loop body over the parsed fields ---------- *)

(* the loop body, on an already parsed field *)
Definition step (s : st) (x : wfield) : option st :=
  if is_principal_field (fst x) then
    if wire_type (snd x) =? expected_wire_type (fst x) then
      match snd x with
      | WLen p => on_bytes s (fst x) p
      | WVarint v => Some (on_varint s (fst x) v)
      | _ => Some s
      end
    else None
  else Some s.

Fixpoint interp (s : st) (fs : list wfield) : option st :=
  match fs with
  | [] => Some s
  | x :: r => match step s x with None => None | Some s' => interp s' r end
  end.

Definition top_result (s : st) (x : option seqres) : option st :=
  match x with
  | Some (fs, None, _) => interp s fs
  | _ => None
  end.

Lemma top_result_cons s num v (x : option seqres) :
  top_result s (match x with None => None | Some (fs, t, r) => Some ((num, v) :: fs, t, r) end) =
  match step s (num, v) with None => None | Some s' => top_result s' x end.
Proof.
  destruct x as [[[fs [e|]] r]|]; cbn [top_result interp].
  - destruct (step s (num, v)); reflexivity.
  - reflexivity.
  - destruct (step s (num, v)); reflexivity.
Qed.

Lemma parse_value_len rec d num r :
  parse_value rec d num 2 r = match ref_len r with Some (p, r') => Some (WLen p, r') | None => None end.
Proof. reflexivity. Qed.
Lemma parse_value_varint rec d num r :
  parse_value rec d num 0 r = match ref_varint r with Some (v, r') => Some (WVarint v, r') | None => None end.
Proof. reflexivity. Qed.

Lemma scan_ref : forall n f g s b,
  wf_bytes b -> (length b <= n)%nat -> (n < f)%nat -> (n < g)%nat ->
  scan f s b = top_result s (parse_fields g ref_group_limit b).
Proof.
  induction n as [|n IH]; intros f g s b W Hn Hf Hg;
    (destruct f as [|f]; [lia|]); (destruct g as [|g]; [lia|]).
  - destruct b as [|x b]; [reflexivity | cbn [length] in Hn; lia].
  - cbn [scan parse_fields]. destruct b as [|x0 b0]; [reflexivity|].
    set (b := x0 :: b0) in *.
    rewrite (consume_tag_ref b W).
    destruct (ref_tag b) as [[[num typ] b1]|] eqn:ET; [|reflexivity].
    pose proof (ref_tag_shorter _ _ _ _ ET) as L1.
    pose proof (suffix_wf _ _ (ref_tag_suffix _ _ _ _ ET) W) as W1.
    cbv zeta.
    assert (Hrest : forall v b2, parse_value (parse_fields g) ref_group_limit num typ b1 = Some (v, b2) ->
                    wf_bytes b2 /\ (length b2 <= n)%nat).
    { intros v b2 EV.
      assert (S2 : suffix b2 b1).
      { eapply parse_value_suffix; [|exact EV]. intros; eapply parse_fields_suffix; eassumption. }
      split; [exact (suffix_wf _ _ S2 W1)|]. pose proof (suffix_length _ _ S2). unfold b in *. cbn [length] in *. lia. }
    destruct (is_principal_field num) eqn:EP; cbn [negb orb].
    + (* a principal field *)
      destruct (want_bytes num) eqn:EB; cbn [negb andb orb].
      * (* expected wire type: bytes *)
        destruct (N.eqb_spec typ 2) as [->|N2]; cbn [negb].
        -- change (2 =? 4) with false. cbv iota. rewrite (consume_bytes_ref b1 W1).
           rewrite parse_value_len in *.
           destruct (ref_len b1) as [[p b2]|] eqn:EL; [|reflexivity].
           rewrite top_result_cons.
           unfold step. cbn [fst snd wire_type]. rewrite EP. unfold expected_wire_type. rewrite EB.
           change (2 =? 2) with true. cbv iota.
           destruct (on_bytes s num p) as [s'|]; [|reflexivity].
           destruct (Hrest (WLen p) b2 eq_refl) as [W2 L2].
           apply IH; try assumption; lia.
        -- (* wrong wire type: rejected at once; the reference rejects too *)
           destruct (N.eqb_spec typ 4) as [->|N4]; [reflexivity|].
           destruct (parse_value (parse_fields g) ref_group_limit num typ b1) as [[v b2]|] eqn:EV; [|reflexivity].
           rewrite top_result_cons. unfold step. cbn [fst snd]. rewrite EP.
           rewrite (parse_value_wire_type _ _ _ _ _ _ _ EV). unfold expected_wire_type. rewrite EB.
           destruct (N.eqb_spec typ 2); [contradiction|reflexivity].
      * (* expected wire type: varint *)
        destruct (N.eqb_spec typ 0) as [->|N0]; cbn [negb].
        -- change (0 =? 4) with false. cbv iota. rewrite (consume_varint_ref b1 W1).
           rewrite parse_value_varint in *.
           destruct (ref_varint b1) as [[v b2]|] eqn:EL; [|reflexivity].
           rewrite top_result_cons.
           unfold step. cbn [fst snd wire_type]. rewrite EP. unfold expected_wire_type. rewrite EB.
           change (0 =? 0) with true. cbv iota.
           destruct (Hrest (WVarint v) b2 eq_refl) as [W2 L2].
           apply IH; try assumption; lia.
        -- destruct (N.eqb_spec typ 4) as [->|N4]; [reflexivity|].
           destruct (parse_value (parse_fields g) ref_group_limit num typ b1) as [[v b2]|] eqn:EV; [|reflexivity].
           rewrite top_result_cons. unfold step. cbn [fst snd]. rewrite EP.
           rewrite (parse_value_wire_type _ _ _ _ _ _ _ EV). unfold expected_wire_type. rewrite EB.
           destruct (N.eqb_spec typ 0); [contradiction|reflexivity].
    + (* any other field: skipped with ConsumeFieldValue *)
      rewrite (consume_field_value_ref g num typ b1 W1) by (unfold b in *; cbn [length] in *; lia).
      destruct (N.eqb_spec typ 4) as [->|N4].
      { reflexivity. }
      destruct (parse_value (parse_fields g) ref_group_limit num typ b1) as [[v b2]|] eqn:EV; [|reflexivity].
      cbn [value_rest]. rewrite top_result_cons. unfold step. cbn [fst snd]. rewrite EP.
      destruct (Hrest v b2 eq_refl) as [W2 L2].
      apply IH; try assumption; lia.
Qed.

(* ---------- 5. the fold over parsed fields = the declarative reading (last value wins, envelope rules) ---------- *)

Lemma go_int32_ref v : go_int32 v = ref_int32 v.
Proof.
  unfold go_int32, ref_int32. cbv zeta.
  destruct (N.ltb_spec (v mod 4294967296) 2147483648); lia.
Qed.

Lemma go_int64_ref v : go_int64 v = ref_int64 v.
Proof.
  unfold go_int64, ref_int64. cbv zeta.
  destruct (N.ltb_spec (v mod 18446744073709551616) 9223372036854775808); lia.
Qed.

Lemma last_cons {A} (l : list A) : forall x d, last (x :: l) d = last l x.
Proof.
  induction l as [|y l IH]; intros x d; [reflexivity|].
  change (last (x :: y :: l) d) with (last (y :: l) d). rewrite (IH y d), (IH y x). reflexivity.
Qed.

Lemma last_app {A} (a b : list A) : forall d, last (a ++ b) d = last b (last a d).
Proof.
  induction a as [|x a IH]; intro d; [reflexivity|].
  rewrite <- app_comm_cons, !last_cons. apply IH.
Qed.

Lemma last_map {A B} (f : A -> B) (l : list A) : forall d, last (map f l) (f d) = f (last l d).
Proof.
  induction l as [|x l IH]; intro d; [reflexivity|].
  cbn [map]. rewrite !last_cons. apply IH.
Qed.

Lemma len_values_cons k x r : len_values k (x :: r) = len_values k [x] ++ len_values k r.
Proof. unfold len_values. cbn [flat_map]. rewrite app_nil_r. reflexivity. Qed.

Lemma varint_values_cons k x r : varint_values k (x :: r) = varint_values k [x] ++ varint_values k r.
Proof. unfold varint_values. cbn [flat_map]. rewrite app_nil_r. reflexivity. Qed.

Lemma principal_cases n : is_principal_field n = true ->
  n = 6 \/ n = 7 \/ n = 8 \/ n = 9 \/ n = 10 \/ n = 11 \/ n = 12.
Proof. unfold is_principal_field. intro H. lia. Qed.

Lemma not_principal n : is_principal_field n = false ->
  n <> 6 /\ n <> 7 /\ n <> 8 /\ n <> 9 /\ n <> 10 /\ n <> 11 /\ n <> 12.
Proof. unfold is_principal_field. intro H. lia. Qed.

Ltac neq_false :=
  repeat match goal with
  | H : ?n <> ?k |- context [?n =? ?k] => rewrite (proj2 (N.eqb_neq n k) H)
  end.

(* generic "last value wins" lemmas for one projection of the loop state *)
Lemma interp_proj_len (pi : st -> bytes) (k : N) :
  (forall s x s1, step s x = Some s1 -> pi s1 = last (len_values k [x]) (pi s)) ->
  forall fs s s', interp s fs = Some s' -> pi s' = last (len_values k fs) (pi s).
Proof.
  intros Hstep. induction fs as [|x r IH]; intros s s' H; cbn [interp] in H.
  - inversion H; subst. reflexivity.
  - destruct (step s x) as [s1|] eqn:ES; [|discriminate].
    rewrite len_values_cons, last_app, <- (Hstep _ _ _ ES). apply IH. exact H.
Qed.

Lemma interp_proj_varint (pi : st -> Z) (conv : N -> Z) (k : N) :
  (forall s x s1, step s x = Some s1 -> pi s1 = last (map conv (varint_values k [x])) (pi s)) ->
  forall fs s s', interp s fs = Some s' -> pi s' = last (map conv (varint_values k fs)) (pi s).
Proof.
  intros Hstep. induction fs as [|x r IH]; intros s s' H; cbn [interp] in H.
  - inversion H; subst. reflexivity.
  - destruct (step s x) as [s1|] eqn:ES; [|discriminate].
    rewrite varint_values_cons, map_app, last_app, <- (Hstep _ _ _ ES). apply IH. exact H.
Qed.

(* case analysis of one loop step: field number 6..12 concretely, or outside *)
Ltac step_cases s x s1 H :=
  destruct x as [n v]; unfold step in H; cbn [fst snd] in H;
  destruct (is_principal_field n) eqn:EP;
  [ destruct (principal_cases n EP) as [->|[->|[->|[->|[->|[->| ->]]]]]];
    destruct v; cbn in H; try discriminate H
  | pose proof (not_principal n EP) as (N6 & N7 & N8 & N9 & N10 & N11 & N12) ].

Lemma step_endpoint s x s1 : step s x = Some s1 -> s_endpoint s1 = last (len_values 7 [x]) (s_endpoint s).
Proof.
  intro H. step_cases s x s1 H.
  all: try (inversion H; subst; reflexivity).
  all: try (destruct (s_have s); [discriminate H|]; destruct (bad_envelope_size b) eqn:EB; unfold bad_envelope_size in EB; rewrite EB in H; [discriminate H|]; inversion H; subst; reflexivity).
  inversion H; subst. unfold len_values. cbn [flat_map fst snd app]. destruct v; neq_false; reflexivity.
Qed.

Ltac solve_step_proj H s :=
  [> try (inversion H; subst; reflexivity) .. ];
  [> try (destruct (s_have s); [discriminate H|];
          match type of H with context [N.of_nat (length ?b) =? 0] =>
            destruct ((N.of_nat (length b) =? 0) || (max_envelope_bytes <? N.of_nat (length b))) end;
          [discriminate H|]; inversion H; subst; reflexivity) .. ].

Lemma step_org s x s1 : step s x = Some s1 -> s_org s1 = last (len_values 8 [x]) (s_org s).
Proof.
  intro H. step_cases s x s1 H. all: solve_step_proj H s.
  inversion H; subst. unfold len_values. cbn [flat_map fst snd app]. destruct v; neq_false; reflexivity.
Qed.

Lemma step_nonce s x s1 : step s x = Some s1 -> s_nonce s1 = last (len_values 9 [x]) (s_nonce s).
Proof.
  intro H. step_cases s x s1 H. all: solve_step_proj H s.
  inversion H; subst. unfold len_values. cbn [flat_map fst snd app]. destruct v; neq_false; reflexivity.
Qed.

Lemma step_envelope s x s1 : step s x = Some s1 -> s_envelope s1 = last (len_values 12 [x]) (s_envelope s).
Proof.
  intro H. step_cases s x s1 H. all: solve_step_proj H s.
  inversion H; subst. unfold len_values. cbn [flat_map fst snd app]. destruct v; neq_false; reflexivity.
Qed.

Lemma step_protocol s x s1 : step s x = Some s1 ->
  s_protocol s1 = last (map go_int32 (varint_values 6 [x])) (s_protocol s).
Proof.
  intro H. step_cases s x s1 H. all: solve_step_proj H s.
  inversion H; subst. unfold varint_values. cbn [flat_map fst snd app]. destruct v; neq_false; reflexivity.
Qed.

Lemma step_spv s x s1 : step s x = Some s1 ->
  s_spv s1 = last (map go_int32 (varint_values 10 [x])) (s_spv s).
Proof.
  intro H. step_cases s x s1 H. all: solve_step_proj H s.
  inversion H; subst. unfold varint_values. cbn [flat_map fst snd app]. destruct v; neq_false; reflexivity.
Qed.

Lemma step_rev s x s1 : step s x = Some s1 ->
  s_rev s1 = last (map go_int64 (varint_values 11 [x])) (s_rev s).
Proof.
  intro H. step_cases s x s1 H. all: solve_step_proj H s.
  inversion H; subst. unfold varint_values. cbn [flat_map fst snd app]. destruct v; neq_false; reflexivity.
Qed.

(* errors and flags *)
Definition env_of (x : wfield) : option bytes :=
  match snd x with WLen p => if fst x =? 12 then Some p else None | _ => None end.

Lemma len_values_12_single x : len_values 12 [x] = match env_of x with Some p => [p] | None => [] end.
Proof.
  unfold len_values, env_of. cbn [flat_map]. rewrite app_nil_r.
  destruct (snd x); try reflexivity. destruct (fst x =? 12); reflexivity.
Qed.

Lemma step_spec s x :
  match step s x with
  | None => wrong_type x = true \/
            exists p, env_of x = Some p /\ (s_have s = true \/ bad_envelope_size p = true)
  | Some s1 =>
    wrong_type x = false /\ s_found s1 = s_found s || is_principal_field (fst x) /\
    match env_of x with
    | Some p => s_have s = false /\ bad_envelope_size p = false /\ s_have s1 = true
    | None => s_have s1 = s_have s
    end
  end.
Proof.
  destruct x as [n v]. unfold step, wrong_type, env_of, bad_envelope_size. cbn [fst snd].
  destruct (is_principal_field n) eqn:EP.
  - destruct (principal_cases n EP) as [->|[->|[->|[->|[->|[->| ->]]]]]]; destruct v; cbn;
      try (left; reflexivity); try (repeat split; rewrite ?orb_true_r; reflexivity).
    (* field 12, length-delimited *)
    destruct (s_have s) eqn:EH.
    { right. exists b. split; [reflexivity|]. left. reflexivity. }
    destruct ((N.of_nat (length b) =? 0) || (max_envelope_bytes <? N.of_nat (length b))) eqn:EB.
    { right. exists b. split; [reflexivity|]. right. exact EB. }
    cbn. repeat split. rewrite orb_true_r. reflexivity.
  - pose proof (not_principal n EP) as (N6 & N7 & N8 & N9 & N10 & N11 & N12).
    cbn [andb]. split; [reflexivity|]. split; [rewrite orb_false_r; reflexivity|].
    destruct v; neq_false; reflexivity.
Qed.

Definition errb (have : bool) (fs : list wfield) : bool :=
  existsb wrong_type fs || existsb bad_envelope_size (len_values 12 fs)
  || Nat.leb (if have then 1 else 2) (length (len_values 12 fs)).

Lemma interp_spec : forall fs s,
  match interp s fs with
  | None => errb (s_have s) fs = true
  | Some s' =>
    errb (s_have s) fs = false /\
    s_have s' = s_have s || Nat.leb 1 (length (len_values 12 fs)) /\
    s_found s' = s_found s || has_principal_field fs
  end.
Proof.
  induction fs as [|x r IH]; intro s.
  - cbn [interp]. unfold errb. cbn. destruct (s_have s); cbn; rewrite ?orb_false_r; auto.
  - cbn [interp]. pose proof (step_spec s x) as HS.
    unfold errb in *. rewrite len_values_cons, len_values_12_single, existsb_app, app_length.
    unfold has_principal_field in *. cbn [existsb].
    destruct (step s x) as [s1|].
    + destruct HS as (HW & HF & HE). specialize (IH s1). rewrite HW. cbn [orb].
      destruct (interp s1 r) as [s'|].
      * destruct IH as (IE & IHv & IFo).
        apply orb_false_iff in IE. destruct IE as [IE IL]. apply orb_false_iff in IE. destruct IE as [IW IB].
        rewrite IW, IB, IHv, IFo, HF. cbn [orb].
        destruct (env_of x) as [p|].
        -- destruct HE as (H0 & HB & H1). cbn [existsb length Nat.add].
           rewrite H0, HB, H1 in *. cbn [orb].
           destruct (length (len_values 12 r)); [|discriminate IL].
           cbn. rewrite orb_assoc. auto.
        -- rewrite HE in *. cbn [existsb orb length Nat.add app]. rewrite IL.
           rewrite orb_assoc. auto.
      * destruct (env_of x) as [p|].
        -- destruct HE as (H0 & HB & H1). cbn [existsb length Nat.add].
           rewrite H0, HB, H1 in *. cbn [orb].
           destruct (existsb wrong_type r); [reflexivity|].
           destruct (existsb bad_envelope_size (len_values 12 r)); [reflexivity|].
           cbn [orb] in *. destruct (length (len_values 12 r)); [discriminate IH|reflexivity].
        -- rewrite HE in *. cbn [existsb orb length Nat.add app]. exact IH.
    + destruct HS as [HW|(p & HP & [HH|HB])].
      * rewrite HW. reflexivity.
      * rewrite HP, HH. cbn [length Nat.add Nat.leb]. rewrite !orb_true_r. reflexivity.
      * rewrite HP. cbn [existsb]. rewrite HB. cbn [orb]. rewrite orb_true_r. reflexivity.
Qed.

Lemma envelope_is_principal fs : len_values 12 fs <> [] -> has_principal_field fs = true.
Proof.
  unfold has_principal_field. induction fs as [|x r IH]; intro H; [contradiction|].
  rewrite len_values_cons, len_values_12_single in H. cbn [existsb].
  unfold env_of in H. destruct x as [n v]. cbn [fst snd] in *.
  destruct v; try (rewrite IH by exact H; apply orb_true_r).
  destruct (N.eqb_spec n 12) as [->|_]; [reflexivity|].
  rewrite IH by exact H. apply orb_true_r.
Qed.

Lemma finish_interp_ref fs :
  match interp st0 fs with None => RErr | Some s => finish s end = ref_read fs.
Proof.
  pose proof (interp_spec fs st0) as HS. unfold errb in HS. cbn [s_have s_found st0 orb] in HS.
  unfold ref_read.
  destruct (interp st0 fs) as [s|] eqn:EI.
  - destruct HS as (HE & HH & HF).
    apply orb_false_iff in HE. destruct HE as [HE HL]. apply orb_false_iff in HE. destruct HE as [HW HB].
    rewrite HW.
    pose proof (interp_proj_len s_endpoint 7 step_endpoint fs st0 s EI) as P7.
    pose proof (interp_proj_len s_org 8 step_org fs st0 s EI) as P8.
    pose proof (interp_proj_len s_nonce 9 step_nonce fs st0 s EI) as P9.
    pose proof (interp_proj_len s_envelope 12 step_envelope fs st0 s EI) as P12.
    pose proof (interp_proj_varint s_protocol go_int32 6 step_protocol fs st0 s EI) as P6.
    pose proof (interp_proj_varint s_spv go_int32 10 step_spv fs st0 s EI) as P10.
    pose proof (interp_proj_varint s_rev go_int64 11 step_rev fs st0 s EI) as P11.
    cbn [st0 s_endpoint s_org s_nonce s_envelope s_protocol s_spv s_rev] in *.
    change 0%Z with (go_int32 0) in P6, P10.
    change 0%Z with (go_int64 0) in P11.
    rewrite last_map in P6, P10, P11.
    rewrite go_int32_ref in P6, P10. rewrite go_int64_ref in P11.
    unfold finish. rewrite HF, HH, P6, P7, P8, P9, P10, P11, P12.
    fold (last_len 7 fs) (last_len 8 fs) (last_len 9 fs) (last_varint 6 fs) (last_varint 10 fs) (last_varint 11 fs).
    destruct (len_values 12 fs) as [|e [|e2 l]] eqn:EE.
    + cbn [length Nat.leb last]. destruct (has_principal_field fs); reflexivity.
    + cbn [existsb orb] in HB. rewrite orb_false_r in HB. rewrite HB.
      rewrite (envelope_is_principal fs) by (rewrite EE; discriminate).
      cbn [negb length Nat.leb last]. reflexivity.
    + cbn [length Nat.leb] in HL. discriminate HL.
  - destruct (existsb wrong_type fs); [reflexivity|]. cbn [orb] in HS.
    destruct (len_values 12 fs) as [|e [|e2 l]]; cbn [existsb length Nat.leb orb] in HS.
    + discriminate HS.
    + rewrite !orb_false_r in HS. rewrite HS. reflexivity.
    + reflexivity.
Qed.

(* ---------- 6. the theorems ---------- *)

Lemma extract_fuel_ref f u : wf_bytes u -> (length u < f)%nat ->
  extract_fuel f u = ref_extract u.
Proof.
  intros W Hf. unfold extract_fuel, ref_extract, ref_message.
  rewrite (scan_ref (length u) f (S (length u)) st0 u W) by lia.
  destruct (parse_fields (S (length u)) ref_group_limit u) as [[[fs [e|]] r]|]; cbn [top_result]; try reflexivity.
  apply finish_interp_ref.
Qed.

Theorem C41_agree_proof : forall u, wf_bytes u -> extract u = ref_extract u.
Proof. intros u W. apply extract_fuel_ref; [exact W | lia]. Qed.

Theorem C41_fuel_proof : forall u f, wf_bytes u -> (length u < f)%nat -> extract_fuel f u = extract u.
Proof.
  intros u f W Hf. rewrite (C41_agree_proof u W). apply extract_fuel_ref; assumption.
Qed.

Lemma ref_extract_reject_iff u : ref_extract u = RErr <-> must_reject u = true.
Proof.
  unfold must_reject, malformed, has_wrong_type, second_envelope, some_bad_envelope_size,
    envelope_without_nonce, envelopes, fields_of, ref_extract.
  destruct (ref_message ref_group_limit u) as [fs|]; [|split; reflexivity].
  cbn [orb]. unfold ref_read.
  destruct (existsb wrong_type fs); [split; reflexivity|]. cbn [orb].
  destruct (len_values 12 fs) as [|e [|e2 l]]; cbn [length Nat.leb Nat.eqb existsb negb andb orb].
  - destruct (has_principal_field fs); split; discriminate.
  - rewrite orb_false_r. destruct (bad_envelope_size e); [split; reflexivity|]. cbn [orb].
    destruct (Nat.eqb (length (last_len 9 fs)) 16); cbn [negb]; split; try reflexivity; discriminate.
  - split; reflexivity.
Qed.

Theorem C41_reject_iff_proof : forall u, wf_bytes u -> (extract u = RErr <-> must_reject u = true).
Proof. intros u W. rewrite (C41_agree_proof u W). apply ref_extract_reject_iff. Qed.

Lemma ref_extract_never_downgrades u : has_field_6_12 u = true -> ref_extract u <> ROk None.
Proof.
  unfold has_field_6_12, fields_of, ref_extract.
  destruct (ref_message ref_group_limit u) as [fs|]; [|discriminate].
  intro HP. unfold ref_read. destruct (existsb wrong_type fs); [discriminate|].
  destruct (len_values 12 fs) as [|e [|e2 l]].
  - rewrite HP. discriminate.
  - destruct (bad_envelope_size e); [discriminate|].
    destruct (Nat.eqb (length (last_len 9 fs)) 16); discriminate.
  - discriminate.
Qed.

Theorem C41_never_downgrades_proof : forall u, wf_bytes u -> has_field_6_12 u = true -> extract u <> ROk None.
Proof. intros u W. rewrite (C41_agree_proof u W). apply ref_extract_never_downgrades. Qed.

(* the nonce array is only bound together with an envelope: without one it stays zero whatever field 9 holds *)
Theorem C41_nonce_only_with_envelope_proof : forall u p, wf_bytes u ->
  extract u = ROk (Some p) -> p_envelope p = [] -> p_nonce p = zeros16.
Proof.
  intros u p W. rewrite (C41_agree_proof u W). unfold ref_extract.
  destruct (ref_message ref_group_limit u) as [fs|]; [|discriminate].
  unfold ref_read. destruct (existsb wrong_type fs); [discriminate|].
  destruct (len_values 12 fs) as [|e [|e2 l]]; try discriminate.
  - destruct (has_principal_field fs); [|discriminate]. intro H; inversion H; subst. reflexivity.
  - destruct (bad_envelope_size e) eqn:EB; [discriminate|].
    destruct (Nat.eqb (length (last_len 9 fs)) 16); [|discriminate].
    intro H; inversion H; subst. cbn [p_envelope]. intro E; subst e.
    unfold bad_envelope_size in EB. cbn in EB. discriminate EB.
Qed.

(* ---------- non-vacuity: concrete proposals ---------- *)

(* 30 02 | 4a 10 <16 bytes> | 62 03 "a.b" : protocol 2, nonce, envelope *)
Definition ex_full : bytes :=
  [48; 2; 74; 16; 1;2;3;4;5;6;7;8;9;10;11;12;13;14;15;16; 98; 3; 97; 46; 98].
Example ex_full_ok :
  wf_bytes ex_full /\ has_field_6_12 ex_full = true /\ must_reject ex_full = false /\
  extract ex_full = ROk (Some (mkP 2 [] [] [1;2;3;4;5;6;7;8;9;10;11;12;13;14;15;16] 0 0 [97; 46; 98])).
Proof.
  split; [|vm_compute; repeat split; reflexivity].
  unfold wf_bytes, ex_full. repeat constructor.
Qed.
(* the same with a second envelope, with a varint-typed envelope, and truncated by one byte *)
Example ex_rejected :
  must_reject (ex_full ++ [98; 1; 99]) = true /\ extract (ex_full ++ [98; 1; 99]) = RErr /\
  must_reject (ex_full ++ [96; 1]) = true /\ extract (ex_full ++ [96; 1]) = RErr /\
  must_reject (removelast ex_full) = true /\ extract (removelast ex_full) = RErr /\
  must_reject [48; 2; 98; 1; 99] = true /\ extract [48; 2; 98; 1; 99] = RErr.
Proof. vm_compute. repeat split; reflexivity. Qed.
(* a v1 proposal (only field 5 and 13 in the unknown region) has no principal *)
Example ex_v1 : has_field_6_12 [40; 1; 106; 0] = false /\ extract [40; 1; 106; 0] = ROk None.
Proof. vm_compute. split; reflexivity. Qed.
