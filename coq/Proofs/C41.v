(* C41 — the scan loop of ExtractSessionPrincipalWire equals "parse with the reference protobuf
   parser, then read the fields"; rejection characterisation; no silent downgrade. *)
From Coq Require Import List NArith ZArith Bool Lia.
From Coq Require Import ZifyN ZifyNat ZifyBool.
From Verif Require Import Base.Hex Base.ProtoWire Model.Principal.
Import ListNotations.
Open Scope N_scope.
Ltac Zify.zify_post_hook ::= Z.div_mod_to_equations.

(* ---------- 1. protowire.ConsumeVarint = reference varint ---------- *)

Definition pw (k : nat) : N := 2 ^ (7 * N.of_nat k + 1).

Lemma pw_S k : pw (S k) = 128 * pw k.
Proof.
  unfold pw. replace (7 * N.of_nat (S k) + 1) with (7 + (7 * N.of_nat k + 1)) by lia.
  rewrite N.pow_add_r. reflexivity.
Qed.

Lemma pw_ge2 k : 2 <= pw k.
Proof.
  induction k as [|k IH]; [unfold pw; cbn; lia|]. rewrite pw_S. lia.
Qed.

Lemma go_loop_rvarint : forall k s v b,
  wf_bytes b -> s + 7 * N.of_nat k = 63 ->
  go_varint_loop k s v b =
  match rvarint (S k) b with
  | Some (x, r) => if x <? pw k then Some (v + x * 2 ^ s, r) else None
  | None => None
  end.
Proof.
  induction k as [|k IH]; intros s v b W Hs.
  - destruct b as [|y r]; [reflexivity|].
    cbn [go_varint_loop rvarint]. assert (s = 63) by lia. subst s.
    rewrite N.shiftl_mul_pow2.
    destruct (N.ltb_spec y 128) as [Hy|Hy].
    + change (pw 0) with 2. reflexivity.
    + destruct (N.ltb_spec y 2); [lia|reflexivity].
  - destruct b as [|y r]; [reflexivity|].
    inversion W as [|? ? Hy256 Wr]; subst.
    cbn [go_varint_loop]. cbv zeta. rewrite !N.shiftl_mul_pow2.
    change (rvarint (S (S k)) (y :: r)) with
      (if y <? 128 then Some (y, r)
       else match rvarint (S k) r with None => None | Some (v', r') => Some ((y - 128) + 128 * v', r') end).
    destruct (N.ltb_spec y 128) as [Hy|Hy].
    + pose proof (pw_ge2 k). rewrite pw_S.
      destruct (N.ltb_spec y (128 * pw k)); [reflexivity|lia].
    + rewrite IH by (try assumption; lia).
      destruct (rvarint (S k) r) as [[x r']|]; [|reflexivity].
      rewrite pw_S.
      destruct (N.ltb_spec x (pw k)) as [Hx|Hx];
        destruct (N.ltb_spec (y - 128 + 128 * x) (128 * pw k)) as [Hx'|Hx']; try lia; try reflexivity.
      f_equal. f_equal.
      replace (s + 7) with (7 + s) by lia. rewrite N.pow_add_r. change (2 ^ 7) with 128.
      set (P := 2 ^ s). nia.
Qed.

Lemma consume_varint_ref b : wf_bytes b -> consume_varint b = ref_varint b.
Proof.
  intro W. unfold consume_varint, ref_varint.
  rewrite go_loop_rvarint by (try assumption; reflexivity).
  destruct (rvarint 10 b) as [[x r]|]; [|reflexivity].
  change (pw 9) with two64. destruct (x <? two64); [|reflexivity].
  rewrite N.pow_0_r. f_equal. f_equal. lia.
Qed.

(* ---------- 2. tags, length-delimited and fixed-width values ---------- *)

Lemma consume_tag_ref b : wf_bytes b -> consume_tag b = ref_tag b.
Proof.
  intro W. unfold consume_tag, ref_tag. rewrite (consume_varint_ref b W).
  destruct (ref_varint b) as [[x r]|]; [|reflexivity]. cbv zeta.
  rewrite N.shiftr_div_pow2. change (2 ^ 3) with 8.
  change 7 with (N.ones 3). rewrite N.land_ones. change (2 ^ 3) with 8.
  unfold max_field_number.
  destruct (N.ltb_spec 2147483647 (x / 8)); destruct (N.ltb_spec (x / 8) 1);
    destruct (N.leb_spec 1 (x / 8)); destruct (N.leb_spec (x / 8) 2147483647);
    cbn [andb]; try reflexivity; lia.
Qed.

Lemma consume_bytes_ref b : wf_bytes b -> consume_bytes b = ref_len b.
Proof.
  intro W. unfold consume_bytes, ref_len. rewrite (consume_varint_ref b W).
  destruct (ref_varint b) as [[m r]|]; [|reflexivity].
  destruct (N.ltb_spec (N.of_nat (length r)) m) as [H|H]; [reflexivity|].
  unfold take. destruct (Nat.ltb_spec (length r) (N.to_nat m)); [lia|reflexivity].
Qed.

Lemma consume_fixed_ref n b :
  consume_fixed n b = match take n b with Some (_, r) => Some r | None => None end.
Proof. unfold consume_fixed, take. destruct (Nat.ltb (length b) n); reflexivity. Qed.

(* ---------- 3. consumeFieldValueD (group loop) = reference recursive descent ---------- *)

Definition group_result (num : N) (x : option seqres) : option bytes :=
  match x with
  | Some (_, Some e, r) => if e =? num then Some r else None
  | _ => None
  end.

Definition value_rest (x : option (wval * bytes)) : option bytes :=
  match x with Some (_, r) => Some r | None => None end.

(* the dispatch, given that the loops agree on this input *)
Lemma cfv_with_ref loop rec d num typ b :
  wf_bytes b ->
  (0 < d -> loop (Z.of_N (d - 1)) num b = group_result num (rec (d - 1) b)) ->
  cfv_with loop (Z.of_N d - 1) num typ b = value_rest (parse_value rec d num typ b).
Proof.
  intros W HL. unfold cfv_with, parse_value.
  destruct (N.eqb_spec typ 0) as [->|N0].
  { cbn [N.eqb]. rewrite (consume_varint_ref b W). destruct (ref_varint b) as [[? ?]|]; reflexivity. }
  destruct (N.eqb_spec typ 5) as [->|N5].
  { cbn [N.eqb]. rewrite consume_fixed_ref. destruct (take 4 b) as [[? ?]|]; reflexivity. }
  destruct (N.eqb_spec typ 1) as [->|N1].
  { rewrite consume_fixed_ref. destruct (take 8 b) as [[? ?]|]; reflexivity. }
  destruct (N.eqb_spec typ 2) as [->|N2].
  { rewrite (consume_bytes_ref b W). destruct (ref_len b) as [[? ?]|]; reflexivity. }
  destruct (N.eqb_spec typ 3) as [->|N3]; [|reflexivity].
  destruct (N.eqb_spec d 0) as [->|Hd].
  { reflexivity. }
  destruct (Z.ltb_spec (Z.of_N d - 1) 0) as [H|H]; [lia|].
  replace (Z.of_N d - 1)%Z with (Z.of_N (d - 1)) by lia.
  rewrite HL by lia. unfold group_result.
  destruct (rec (d - 1) b) as [[[fs [e|]] r]|]; try reflexivity.
  destruct (e =? num); reflexivity.
Qed.

Lemma group_loop_ref : forall n f g d num b,
  wf_bytes b -> (length b <= n)%nat -> (n < f)%nat -> (n < g)%nat ->
  group_loop f (Z.of_N d) num b = group_result num (parse_fields g d b).
Proof.
  induction n as [|n IH]; intros f g d num b W Hn Hf Hg;
    (destruct f as [|f]; [lia|]); (destruct g as [|g]; [lia|]).
  - destruct b as [|x b]; [reflexivity | cbn [length] in Hn; lia].
  - cbn [group_loop parse_fields]. rewrite (consume_tag_ref b W).
    destruct b as [|x b].
    { reflexivity. }
    destruct (ref_tag (x :: b)) as [[[num2 typ2] b1]|] eqn:ET; [|reflexivity].
    pose proof (ref_tag_shorter _ _ _ _ ET) as L1.
    pose proof (suffix_wf _ _ (ref_tag_suffix _ _ _ _ ET) W) as W1.
    destruct (N.eqb_spec typ2 4) as [->|N4].
    { cbn [group_result]. rewrite (N.eqb_sym num num2). reflexivity. }
    replace (Z.of_N d - 1)%Z with (Z.of_N d - 1)%Z by reflexivity.
    rewrite (cfv_with_ref (group_loop f) (parse_fields g) d num2 typ2 b1 W1).
    2:{ intros _. apply (IH f g (d - 1) num2 b1 W1); lia. }
    destruct (parse_value (parse_fields g) d num2 typ2 b1) as [[v b2]|] eqn:EV; [|reflexivity].
    cbn [value_rest].
    assert (S2 : suffix b2 b1).
    { eapply parse_value_suffix; [|exact EV]. intros; eapply parse_fields_suffix; eassumption. }
    pose proof (suffix_length _ _ S2) as L2.
    rewrite (IH f g d num b2 (suffix_wf _ _ S2 W1)) by lia.
    destruct (parse_fields g d b2) as [[[fs [e|]] r]|]; reflexivity.
Qed.

(* protowire.ConsumeFieldValue at the top level (recursion budget 10000 = reference limit 10001) *)
Lemma consume_field_value_ref g num typ b :
  wf_bytes b -> (length b < g)%nat ->
  consume_field_value num typ b = value_rest (parse_value (parse_fields g) ref_group_limit num typ b).
Proof.
  intros W Hg. unfold consume_field_value.
  change default_recursion_limit with (Z.of_N ref_group_limit - 1)%Z.
  apply cfv_with_ref; [exact W|]. intros _.
  apply (group_loop_ref (length b)); try assumption; lia.
Qed.

(* ---------- 4. the scan loop = fold of the loop body over the parsed fields ---------- *)

(* the loop body, on an already parsed field *)
Definition step (s : st) (x : wfield) : option st :=
  if is_principal_field (fst x) then
    if wire_type (snd x) =? expected_wire_type (fst x) then
      match snd x with
      | WLen p => on_bytes s (fst x) p
      | WVarint v => Some (on_varint s (fst x) v)
      | _ => Some s
      end
    else None
  else Some s.

Fixpoint interp (s : st) (fs : list wfield) : option st :=
  match fs with
  | [] => Some s
  | x :: r => match step s x with None => None | Some s' => interp s' r end
  end.

Definition top_result (s : st) (x : option seqres) : option st :=
  match x with
  | Some (fs, None, _) => interp s fs
  | _ => None
  end.

Lemma top_result_cons s num v (x : option seqres) :
  top_result s (match x with None => None | Some (fs, t, r) => Some ((num, v) :: fs, t, r) end) =
  match step s (num, v) with None => None | Some s' => top_result s' x end.
Proof.
  destruct x as [[[fs [e|]] r]|]; cbn [top_result interp].
  - destruct (step s (num, v)); reflexivity.
  - reflexivity.
  - destruct (step s (num, v)); reflexivity.
Qed.

Lemma scan_ref : forall n f g s b,
  wf_bytes b -> (length b <= n)%nat -> (n < f)%nat -> (n < g)%nat ->
  scan f s b = top_result s (parse_fields g ref_group_limit b).
Proof.
  induction n as [|n IH]; intros f g s b W Hn Hf Hg;
    (destruct f as [|f]; [lia|]); (destruct g as [|g]; [lia|]).
  - destruct b as [|x b]; [reflexivity | cbn [length] in Hn; lia].
  - cbn [scan parse_fields]. destruct b as [|x0 b0]; [reflexivity|].
    set (b := x0 :: b0) in *.
    rewrite (consume_tag_ref b W).
    destruct (ref_tag b) as [[[num typ] b1]|] eqn:ET; [|reflexivity].
    pose proof (ref_tag_shorter _ _ _ _ ET) as L1.
    pose proof (suffix_wf _ _ (ref_tag_suffix _ _ _ _ ET) W) as W1.
    cbv zeta.
    assert (Hrest : forall v b2, parse_value (parse_fields g) ref_group_limit num typ b1 = Some (v, b2) ->
                    wf_bytes b2 /\ (length b2 <= n)%nat).
    { intros v b2 EV.
      assert (S2 : suffix b2 b1).
      { eapply parse_value_suffix; [|exact EV]. intros; eapply parse_fields_suffix; eassumption. }
      split; [exact (suffix_wf _ _ S2 W1)|]. pose proof (suffix_length _ _ S2). unfold b in *. cbn [length] in *. lia. }
    destruct (is_principal_field num) eqn:EP; cbn [negb orb].
    + (* a principal field *)
      destruct (want_bytes num) eqn:EB; cbn [negb andb orb].
      * (* expected wire type: bytes *)
        destruct (N.eqb_spec typ 2) as [->|N2]; cbn [negb].
        -- cbn [N.eqb]. rewrite (consume_bytes_ref b1 W1).
           unfold parse_value at 1. cbn [N.eqb].
           destruct (ref_len b1) as [[p b2]|] eqn:EL; [|reflexivity].
           rewrite top_result_cons.
           unfold step. cbn [fst snd wire_type]. rewrite EP. unfold expected_wire_type. rewrite EB. cbn [N.eqb].
           destruct (on_bytes s num p) as [s'|]; [|reflexivity].
           destruct (Hrest (WLen p) b2) as [W2 L2].
           { unfold parse_value. cbn [N.eqb]. rewrite EL. reflexivity. }
           apply IH; try assumption; lia.
        -- (* wrong wire type: rejected at once; the reference rejects too *)
           destruct (N.eqb_spec typ 4) as [->|N4]; [reflexivity|].
           destruct (parse_value (parse_fields g) ref_group_limit num typ b1) as [[v b2]|] eqn:EV; [|reflexivity].
           rewrite top_result_cons. unfold step. cbn [fst snd]. rewrite EP.
           rewrite (parse_value_wire_type _ _ _ _ _ _ _ EV). unfold expected_wire_type. rewrite EB.
           destruct (N.eqb_spec typ 2); [contradiction|reflexivity].
      * (* expected wire type: varint *)
        destruct (N.eqb_spec typ 0) as [->|N0]; cbn [negb].
        -- cbn [N.eqb]. rewrite (consume_varint_ref b1 W1).
           unfold parse_value at 1. cbn [N.eqb].
           destruct (ref_varint b1) as [[v b2]|] eqn:EL; [|reflexivity].
           rewrite top_result_cons.
           unfold step. cbn [fst snd wire_type]. rewrite EP. unfold expected_wire_type. rewrite EB. cbn [N.eqb].
           destruct (Hrest (WVarint v) b2) as [W2 L2].
           { unfold parse_value. cbn [N.eqb]. rewrite EL. reflexivity. }
           apply IH; try assumption; lia.
        -- destruct (N.eqb_spec typ 4) as [->|N4]; [reflexivity|].
           destruct (parse_value (parse_fields g) ref_group_limit num typ b1) as [[v b2]|] eqn:EV; [|reflexivity].
           rewrite top_result_cons. unfold step. cbn [fst snd]. rewrite EP.
           rewrite (parse_value_wire_type _ _ _ _ _ _ _ EV). unfold expected_wire_type. rewrite EB.
           destruct (N.eqb_spec typ 0); [contradiction|reflexivity].
    + (* any other field: skipped with ConsumeFieldValue *)
      rewrite (consume_field_value_ref g num typ b1 W1) by (unfold b in *; cbn [length] in *; lia).
      destruct (N.eqb_spec typ 4) as [->|N4].
      { reflexivity. }
      destruct (parse_value (parse_fields g) ref_group_limit num typ b1) as [[v b2]|] eqn:EV; [|reflexivity].
      cbn [value_rest]. rewrite top_result_cons. unfold step. cbn [fst snd]. rewrite EP.
      destruct (Hrest v b2 eq_refl) as [W2 L2].
      apply IH; try assumption; lia.
Qed.
