(* C21 — proofs about Model/ChatQueue.v: the sequential accounting. (The queue under
   asynchronous completion is in Proofs/C21_sched.v.) *)
From Coq Require Import List NArith Bool Lia ZifyN ZifyBool.
From Verif Require Import Model.ChatQueue.
Import ListNotations.
Open Scope N_scope.

(* ---------- sums ---------- *)

Lemma sum_app a b : sum (a ++ b) = sum a + sum b.
Proof. induction a as [|x r IH]; cbn [app sum]; lia. Qed.

Lemma F_app a b : F (a ++ b) = F a + F b.
Proof. unfold F. now rewrite map_app, sum_app. Qed.

Lemma A_app a b : A (a ++ b) = A a + A b.
Proof. unfold A. now rewrite map_app, sum_app. Qed.

Lemma F_ack_of n : F (ack_of n) = n.
Proof. unfold ack_of. destruct (N.eqb_spec n 0) as [->|_]; cbn; lia. Qed.

Lemma run_snoc f1 f2 cfg ops x : run f1 f2 cfg (ops ++ [x]) = step f1 f2 cfg (run f1 f2 cfg ops) x.
Proof. unfold run. now rewrite fold_left_app. Qed.

(* ---------- conservation ---------- *)

(* nothing the client acknowledged disappears unaccounted: it has reached the backend, is held
   back (fewer than 40), or was dropped by one of the two recorded defects *)
Definition conserved (s : st) (a : N) : Prop :=
  disc s = false -> a = F (out s) + delayed s + lost1 s + lost2 s /\ delayed s < 2 * window.

Lemma step_disc_mono f1 f2 cfg s x : disc s = true -> step f1 f2 cfg s x = s.
Proof. unfold step. now intros ->. Qed.

Lemma step_conserved f1 f2 cfg s a x :
  conserved s a -> conserved (step f1 f2 cfg s x) (a + op_off x).
Proof.
  unfold conserved. intros H Hd'.
  destruct (disc s) eqn:Hd; [rewrite (step_disc_mono _ _ _ _ _ Hd) in Hd'; congruence|].
  destruct (H eq_refl) as [Ha Hlt]. clear H. revert Hd'.
  unfold step. rewrite Hd. unfold window in *.
  destruct x as [id off md|id off sg o|id o|off]; cbn [op_off].
  - cbn [emit out delayed lost1 lost2 disc]. intros _. rewrite F_app. cbn. lia.
  - destruct o; unfold modify, consume, emit, window;
      repeat match goal with |- context [if ?b then _ else _] => destruct b end;
      cbn [out delayed lost1 lost2 disc]; intros Hx; try discriminate;
      rewrite ?F_app, ?F_ack_of; cbn [F map sum bp_off]; lia.
  - destruct o; cbn [emit out delayed lost1 lost2 disc]; intros _; rewrite ?F_app; cbn [F map sum bp_off]; lia.
  - unfold step_ack, emit, min_delayed, window.
    match goal with |- context [if ?b then _ else _] => destruct b eqn:E end;
      [apply N.leb_le in E|apply N.leb_gt in E]; cbn [out delayed lost1 lost2 disc]; intros _;
      rewrite F_app; cbn [F map sum bp_off]; unfold window in *; lia.
Qed.

Lemma run_conserved_from f1 f2 cfg ops : forall s a,
  conserved s a -> conserved (fold_left (step f1 f2 cfg) ops s) (a + A ops).
Proof.
  induction ops as [|x r IH]; intros s a H; cbn [fold_left].
  - unfold A. cbn. now rewrite N.add_0_r.
  - replace (a + A (x :: r)) with ((a + op_off x) + A r) by (unfold A; cbn [map sum]; lia).
    apply IH. now apply step_conserved.
Qed.

Lemma run_conserved f1 f2 cfg ops : conserved (run f1 f2 cfg ops) (A ops).
Proof.
  unfold run. replace (A ops) with (0 + A ops) by lia. apply run_conserved_from.
  intros _. cbn. unfold window. lia.
Qed.

(* the repaired model never drops anything *)
Lemma spec_step_no_loss cfg s x :
  lost1 s = 0 /\ lost2 s = 0 -> lost1 (step true true cfg s x) = 0 /\ lost2 (step true true cfg s x) = 0.
Proof.
  intros [H1 H2]. unfold step. destruct (disc s); [auto|].
  destruct x as [id off md|id off sg o|id o|off]; [now cbn| |destruct o; now cbn|].
  - destruct o; unfold modify, consume, emit;
      repeat match goal with |- context [if ?b then _ else _] => destruct b end; cbn; auto.
  - unfold step_ack, emit. destruct (_ <=? _); cbn; auto.
Qed.

Lemma spec_no_loss cfg ops : lost1 (spec_run cfg ops) = 0 /\ lost2 (spec_run cfg ops) = 0.
Proof.
  unfold spec_run, run. assert (H : lost1 init = 0 /\ lost2 init = 0) by (split; reflexivity).
  revert H. generalize init. induction ops as [|x r IH]; intros s H; cbn [fold_left]; [exact H|].
  apply IH. now apply spec_step_no_loss.
Qed.

Lemma spec_conserved cfg ops :
  disc (spec_run cfg ops) = false ->
  A ops = F (out (spec_run cfg ops)) + delayed (spec_run cfg ops) /\ delayed (spec_run cfg ops) < 2 * window.
Proof.
  intros Hd. destruct (spec_no_loss cfg ops) as [H1 H2]. unfold spec_run in *.
  destruct (run_conserved true true cfg ops Hd) as [Ha Hl]. rewrite H1, H2 in Ha. split; [lia|exact Hl].
Qed.

(* ---------- catch-up ---------- *)

Definition carries_update (x : op) : bool := match x with Chat _ _ _ | Cmd _ _ _ _ => true | _ => false end.

Lemma step_carrier_flushes f1 f2 cfg s x :
  carries_update x = true -> disc s = false -> delayed (step f1 f2 cfg s x) = 0.
Proof.
  unfold step. intros Hc ->. destruct x as [id off md|id off sg o|id o|off]; try discriminate; [reflexivity|].
  destruct o; unfold modify, consume, emit;
    repeat match goal with |- context [if ?b then _ else _] => destruct b end; reflexivity.
Qed.

Lemma disc_run_prefix f1 f2 cfg ops x :
  disc (run f1 f2 cfg (ops ++ [x])) = false -> disc (run f1 f2 cfg ops) = false.
Proof.
  rewrite run_snoc. destruct (disc (run f1 f2 cfg ops)) eqn:E; [|reflexivity].
  now rewrite (step_disc_mono _ _ _ _ _ E), E.
Qed.

Lemma catch_up_gen f1 f2 cfg ops x :
  carries_update x = true -> disc (run f1 f2 cfg (ops ++ [x])) = false ->
  A (ops ++ [x]) = F (out (run f1 f2 cfg (ops ++ [x]))) + lost1 (run f1 f2 cfg (ops ++ [x])) + lost2 (run f1 f2 cfg (ops ++ [x])).
Proof.
  intros Hc Hd. destruct (run_conserved f1 f2 cfg (ops ++ [x]) Hd) as [Ha _].
  assert (H0 : delayed (run f1 f2 cfg (ops ++ [x])) = 0).
  { rewrite run_snoc. apply step_carrier_flushes; [exact Hc|]. now apply (disc_run_prefix _ _ _ _ x). }
  lia.
Qed.

(* ---------- unsigned commands ---------- *)

Lemma unsigned_neutral_lemma f1 f2 cfg s id o :
  delayed (step f1 f2 cfg s (UCmd id o)) = delayed s /\
  F (out (step f1 f2 cfg s (UCmd id o))) = F (out s) /\
  disc (step f1 f2 cfg s (UCmd id o)) = disc s /\
  lost1 (step f1 f2 cfg s (UCmd id o)) = lost1 s /\ lost2 (step f1 f2 cfg s (UCmd id o)) = lost2 s.
Proof.
  unfold step. destruct (disc s) eqn:Hd; [repeat split; auto|].
  destruct o; cbn [emit out delayed disc lost1 lost2]; rewrite ?F_app; cbn [F map sum bp_off];
    repeat split; auto; lia.
Qed.

(* ---------- order ---------- *)

Lemma somes_app {X} (a b : list (option X)) : somes (a ++ b) = somes a ++ somes b.
Proof. induction a as [|[x|] r IH]; cbn; [reflexivity| |]; now rewrite ?IH. Qed.

Lemma bp_ids_app a b : bp_ids (a ++ b) = bp_ids a ++ bp_ids b.
Proof. unfold bp_ids. now rewrite map_app, somes_app. Qed.
Lemma op_ids_app a b : op_ids (a ++ b) = op_ids a ++ op_ids b.
Proof. unfold op_ids. now rewrite map_app, somes_app. Qed.

Lemma subseq_nil_l b : subseq [] b = true.
Proof. destruct b; reflexivity. Qed.

Lemma subseq_app_r a : forall b c, subseq a b = true -> subseq a (b ++ c) = true.
Proof.
  induction a as [|x a' IHa]; intros b c; [intros _; apply subseq_nil_l|].
  induction b as [|y b' IHb]; cbn [subseq app]; [discriminate|].
  destruct (x =? y); [apply IHa|apply IHb].
Qed.

Lemma subseq_snoc : forall b a i, subseq a b = true -> subseq (a ++ [i]) (b ++ [i]) = true.
Proof.
  induction b as [|y b' IH]; intros a i.
  - destruct a; [cbn; now rewrite N.eqb_refl|discriminate].
  - destruct a as [|x a']; cbn [subseq app].
    + intros _. destruct (i =? y); [apply subseq_nil_l|]. apply (IH [] i). apply subseq_nil_l.
    + destruct (x =? y); [apply IH|apply (IH (x :: a') i)].
Qed.

Lemma subseq_prefix : forall b a c, subseq (a ++ c) b = true -> subseq a b = true.
Proof.
  induction b as [|y b' IH]; intros a c.
  - destruct a; [reflexivity|discriminate].
  - destruct a as [|x a']; [reflexivity|]. cbn [subseq app]. destruct (x =? y); [apply IH|apply (IH (x :: a') c)].
Qed.

(* a step appends packets tagged with nothing or with the op's own tag *)
Lemma step_ids f1 f2 cfg s x :
  bp_ids (out (step f1 f2 cfg s x)) = bp_ids (out s) \/
  exists i, op_id x = Some i /\ bp_ids (out (step f1 f2 cfg s x)) = bp_ids (out s) ++ [i].
Proof.
  unfold step. destruct (disc s); [now left|].
  destruct x as [id off md|id off sg o|id o|off].
  - right. exists id. split; [reflexivity|]. cbn [emit out]. now rewrite bp_ids_app.
  - destruct o; unfold modify, consume, emit, ack_of;
      repeat match goal with |- context [if ?b then _ else _] => destruct b end; cbn [out];
      rewrite ?bp_ids_app, ?app_nil_r; cbn [bp_ids map somes bp_id];
      rewrite ?app_nil_r; try (now left); right; exists id; split; reflexivity.
  - destruct o; cbn [emit out]; rewrite ?bp_ids_app; try (now left); right; exists id; split; reflexivity.
  - left. unfold step_ack, emit. destruct (_ <=? _); cbn [out]; rewrite bp_ids_app; cbn; now rewrite app_nil_r.
Qed.

Lemma run_order f1 f2 cfg ops : subseq (bp_ids (out (run f1 f2 cfg ops))) (op_ids ops) = true.
Proof.
  induction ops as [|x r IH] using rev_ind; [reflexivity|].
  rewrite run_snoc, op_ids_app.
  destruct (step_ids f1 f2 cfg (run f1 f2 cfg r) x) as [->|[i [Hi ->]]].
  - now apply subseq_app_r.
  - unfold op_ids at 2. cbn [map somes]. rewrite Hi. cbn [somes]. now apply subseq_snoc.
Qed.

(* ---------- out only grows ---------- *)

Lemma step_out_grows f1 f2 cfg s x : exists e, out (step f1 f2 cfg s x) = out s ++ e.
Proof.
  unfold step. destruct (disc s); [exists []; now rewrite app_nil_r|].
  destruct x as [id off md|id off sg o|id o|off].
  - eexists; reflexivity.
  - destruct o; unfold modify, consume, emit;
      repeat match goal with |- context [if ?b then _ else _] => destruct b end; cbn [out];
      try (eexists; reflexivity); exists []; now rewrite app_nil_r.
  - destruct o; cbn [emit out]; try (eexists; reflexivity); exists []; now rewrite app_nil_r.
  - unfold step_ack, emit. destruct (_ <=? _); eexists; reflexivity.
Qed.

Lemma run_out_grows f1 f2 cfg l m : exists e, out (run f1 f2 cfg (l ++ m)) = out (run f1 f2 cfg l) ++ e.
Proof.
  induction m as [|x r IH] using rev_ind.
  - exists []. now rewrite !app_nil_r.
  - rewrite app_assoc, run_snoc. destruct IH as [e He].
    destruct (step_out_grows f1 f2 cfg (run f1 f2 cfg (l ++ r)) x) as [e' He'].
    exists (e ++ e'). now rewrite He', He, app_assoc.
Qed.

(* ---------- catch-up packet by packet, and the whole predicate for the repaired model ---------- *)

Lemma caught_up_app ops l : forall f m,
  caught_up ops f (l ++ m) = caught_up ops f l && caught_up ops (f + F l) m.
Proof.
  induction l as [|p r IH]; intros f m; cbn [app caught_up].
  - unfold F. cbn. now rewrite N.add_0_r.
  - rewrite IH. unfold F. cbn [map sum]. rewrite <- andb_assoc. do 3 f_equal. lia.
Qed.

Lemma somes_in_op_ids pre j : In j (op_ids pre) <-> exists x, In x pre /\ op_id x = Some j.
Proof.
  unfold op_ids. induction pre as [|y r IH]; cbn [map somes].
  - split; [contradiction|intros [x [[] _]]].
  - destruct (op_id y) as [k|] eqn:E.
    + cbn [In]. rewrite IH. split.
      * intros [->|[x [Hin Hx]]]; [exists y; split; [now left|exact E]|exists x; split; [now right|exact Hx]].
      * intros [x [[->|Hin] Hx]]; [left; congruence|right; exists x; auto].
    + rewrite IH. split.
      * intros [x [Hin Hx]]. exists x. split; [now right|exact Hx].
      * intros [x [[->|Hin] Hx]]; [congruence|exists x; auto].
Qed.

Lemma A_upto_found pre : forall x rest i,
  op_id x = Some i -> ~ In i (op_ids pre) ->
  A_upto (pre ++ x :: rest) i = Some (A pre + op_off x).
Proof.
  induction pre as [|y r IH]; intros x rest i Hx Hnot; cbn [app A_upto].
  - rewrite Hx, N.eqb_refl. unfold A. cbn [map sum]. f_equal; lia.
  - assert (Hr : ~ In i (op_ids r)).
    { intros Hin. apply Hnot. unfold op_ids in *. cbn [map somes]. destruct (op_id y); [now right|exact Hin]. }
    rewrite (IH x rest i Hx Hr).
    replace (A (y :: r)) with (op_off y + A r) by (unfold A; reflexivity).
    destruct (op_id y) as [j|] eqn:Ey.
    + destruct (N.eqb_spec j i) as [->|_].
      * exfalso. apply Hnot. unfold op_ids. cbn [map somes]. rewrite Ey. now left.
      * f_equal. lia.
    + f_equal. lia.
Qed.

Lemma NoDup_app_not_in {X} (a : list X) i b : NoDup (a ++ i :: b) -> ~ In i a.
Proof.
  intros H Hin. apply NoDup_remove_2 in H. apply H. apply in_or_app. now left.
Qed.

(* one step of the repaired model: the packets it adds keep the backend caught up *)
Lemma spec_step_caught cfg pre x rest s :
  NoDup (op_ids (pre ++ x :: rest)) -> disc s = false -> A pre = F (out s) + delayed s ->
  exists e, out (step true true cfg s x) = out s ++ e /\ caught_up (pre ++ x :: rest) (F (out s)) e = true.
Proof.
  intros Hnd Hd Ha.
  assert (Hfound : forall i, op_id x = Some i -> A_upto (pre ++ x :: rest) i = Some (A pre + op_off x)).
  { intros i Hi. apply A_upto_found; [exact Hi|].
    rewrite op_ids_app in Hnd. unfold op_ids at 2 in Hnd. cbn [map somes] in Hnd. rewrite Hi in Hnd.
    exact (NoDup_app_not_in _ _ _ Hnd). }
  unfold step. rewrite Hd.
  destruct x as [id off md|id off sg o|id o|off].
  - eexists. split; [reflexivity|]. cbn [caught_up carries bp_id bp_off]. rewrite (Hfound id eq_refl). cbn [op_off].
    rewrite andb_true_r. apply N.eqb_eq. lia.
  - destruct o.
    + eexists. split; [reflexivity|]. cbn [caught_up carries bp_id bp_off]. rewrite (Hfound id eq_refl). cbn [op_off].
      rewrite andb_true_r. apply N.eqb_eq. lia.
    + unfold modify. destruct (sg && c_fka cfg).
      * exists []. split; [cbn; now rewrite app_nil_r|reflexivity].
      * eexists. split; [reflexivity|]. cbn [caught_up carries bp_id bp_off]. rewrite (Hfound id eq_refl). cbn [op_off].
        rewrite andb_true_r. apply N.eqb_eq. lia.
    + unfold consume, ack_of. destruct sg; [destruct (c_fka cfg)|];
        try (exists []; split; [cbn; now rewrite app_nil_r|reflexivity]);
        destruct (_ =? 0); eexists; (split; [reflexivity|reflexivity]).
    + unfold consume, ack_of. destruct sg; [destruct (c_fka cfg)|];
        try (exists []; split; [cbn; now rewrite app_nil_r|reflexivity]);
        destruct (_ =? 0); eexists; (split; [reflexivity|reflexivity]).
  - destruct o; try (exists []; split; [cbn; now rewrite app_nil_r|reflexivity]);
      eexists; (split; [reflexivity|reflexivity]).
  - unfold step_ack. destruct (_ <=? _); eexists; (split; [reflexivity|reflexivity]).
Qed.

Lemma spec_caught_up cfg pre : forall rest,
  NoDup (op_ids (pre ++ rest)) -> disc (spec_run cfg pre) = false ->
  caught_up (pre ++ rest) 0 (out (spec_run cfg pre)) = true.
Proof.
  induction pre as [|x r IH] using rev_ind; intros rest Hnd Hd; [reflexivity|].
  unfold spec_run in *. rewrite run_snoc in *.
  assert (Hd0 : disc (run true true cfg r) = false).
  { destruct (disc (run true true cfg r)) eqn:E; [|reflexivity]. now rewrite (step_disc_mono _ _ _ _ _ E), E in Hd. }
  rewrite <- app_assoc in *. cbn [app] in *.
  destruct (spec_conserved cfg r Hd0) as [Ha _]. unfold spec_run in Ha.
  destruct (spec_step_caught cfg r x rest _ Hnd Hd0 Ha) as [e [He Hc]].
  rewrite He, caught_up_app, (IH (x :: rest) Hnd Hd0). cbn [andb]. now rewrite N.add_0_l.
Qed.

Lemma spec_holds_lemma cfg ops : NoDup (op_ids ops) ->
  holds_C21 ops (out (spec_run cfg ops)) (delayed (spec_run cfg ops)) (disc (spec_run cfg ops)) = true.
Proof.
  intros Hnd. unfold holds_C21. unfold spec_run at 1. rewrite run_order. cbn [andb].
  destruct (disc (spec_run cfg ops)) eqn:Hd; [reflexivity|]. cbn [orb].
  destruct (spec_conserved cfg ops Hd) as [Ha Hl].
  pose proof (spec_caught_up cfg ops [] ltac:(now rewrite app_nil_r) Hd) as Hc. rewrite app_nil_r in Hc.
  rewrite Hc, andb_true_r. unfold window in *.
  repeat (apply andb_true_iff; split); [apply N.leb_le|apply N.ltb_lt|apply N.eqb_eq|apply N.ltb_lt]; lia.
Qed.

(* ---------- today's code equals the repaired code on histories that hit neither defect ---------- *)

Lemma lost1_mono f1 f2 cfg s x : lost1 s <= lost1 (step f1 f2 cfg s x).
Proof.
  unfold step. destruct (disc s); [lia|].
  destruct x as [id off md|id off sg o|id o|off]; [cbn; lia| |destruct o; cbn; lia|].
  - destruct o; unfold modify, consume, emit;
      repeat match goal with |- context [if ?b then _ else _] => destruct b end; cbn; lia.
  - unfold step_ack, emit. destruct (_ <=? _); cbn; lia.
Qed.

Lemma hit2_mono f1 f2 cfg s x : hit2 s = true -> hit2 (step f1 f2 cfg s x) = true.
Proof.
  intros H. unfold step. destruct (disc s); [exact H|].
  destruct x as [id off md|id off sg o|id o|off]; [exact H| |destruct o; exact H|].
  - destruct o; unfold modify, consume, emit;
      repeat match goal with |- context [if ?b then _ else _] => destruct b end; cbn; auto.
  - unfold step_ack, emit. destruct (_ <=? _); exact H.
Qed.

Lemma step_same cfg s x :
  hit2 (step true false cfg s x) = hit2 s -> hit2 s = false ->
  step true false cfg s x = step true true cfg s x.
Proof.
  unfold step. destruct (disc s) eqn:Hd; [reflexivity|].
  destruct x as [id off md|id off sg o|id o|off]; try reflexivity.
  destruct o; try reflexivity.
  unfold modify. destruct (sg && c_fka cfg); [reflexivity|]. cbn [hit2]. intros H1 H2. congruence.
Qed.

Lemma impl_eq_spec_lemma cfg ops :
  hit2 (impl_run cfg ops) = false -> impl_run cfg ops = spec_run cfg ops.
Proof.
  unfold impl_run, spec_run. induction ops as [|x r IH] using rev_ind; [reflexivity|].
  rewrite !run_snoc. intros H2.
  assert (H2r : hit2 (run true false cfg r) = false).
  { destruct (hit2 (run true false cfg r)) eqn:E; [|reflexivity]. now rewrite (hit2_mono _ _ _ _ _ E) in H2. }
  rewrite <- (IH H2r). apply step_same; [congruence|exact H2r].
Qed.

(* since the C21-1 repair nothing is dropped on that path any more *)
Lemma fix1_no_loss1 f2 cfg ops : lost1 (run true f2 cfg ops) = 0.
Proof.
  unfold run. assert (H : lost1 init = 0) by reflexivity. revert H. generalize init.
  induction ops as [|x r IH]; intros s H; cbn [fold_left]; [exact H|]. apply IH.
  unfold step. destruct (disc s); [exact H|].
  destruct x as [id off md|id off sg o|id o|off]; [exact H| |destruct o; exact H|].
  - destruct o; unfold modify, consume, emit;
      repeat match goal with |- context [if ?b then _ else _] => destruct b end; cbn; auto.
  - unfold step_ack, emit. destruct (_ <=? _); exact H.
Qed.

(* ---------- the two recorded findings refute conservation and catch-up ---------- *)

Definition cfg_off : config := mkCfg false false.

(* C21-1 (repaired by f72099c; stated about the pre-fix model variant): three held acknowledgements, then a signed command (offset 2) the event denies, then chat *)
Definition w1 : list op := [Ack 3; Cmd 1 2 true ODenied; Chat 2 0 false].
(* C21-2: three held acknowledgements, then a command (offset 2) the event rewrites *)
Definition w2 : list op := [Ack 3; Cmd 1 2 false ORewrite].

Lemma refuted_1 :
  out (prefix_run cfg_off w1) = [PChat 2 0] /\ delayed (prefix_run cfg_off w1) = 0 /\ disc (prefix_run cfg_off w1) = false /\
  A w1 = 5 /\ F (out (prefix_run cfg_off w1)) = 0 /\ lost1 (prefix_run cfg_off w1) = 5 /\
  holds_C21 w1 (out (prefix_run cfg_off w1)) (delayed (prefix_run cfg_off w1)) false = false.
Proof. vm_compute. repeat split; reflexivity. Qed.

Lemma refuted_2 :
  out (impl_run cfg_off w2) = [PCmd 1 0] /\ delayed (impl_run cfg_off w2) = 0 /\ disc (impl_run cfg_off w2) = false /\
  A w2 = 5 /\ F (out (impl_run cfg_off w2)) = 0 /\ hit2 (impl_run cfg_off w2) = true /\
  holds_C21 w2 (out (impl_run cfg_off w2)) (delayed (impl_run cfg_off w2)) false = false.
Proof. vm_compute. repeat split; reflexivity. Qed.

(* ---------- non-vacuity ---------- *)

(* 41 acknowledgements flush 21 and keep 20; an unsigned command changes nothing; chat carries the 20 *)
Example accounting_example :
  let ops := [Ack 19; Ack 22; UCmd 1 OForward; Chat 2 1 false; Cmd 3 4 false OConsumed] in
  out (spec_run (mkCfg false true) ops) = [PAck 21; PUCmd 1; PChat 2 21; PAck 4] /\
  delayed (spec_run (mkCfg false true) ops) = 0 /\ A ops = 46 /\ F (out (spec_run (mkCfg false true) ops)) = 46 /\
  NoDup (op_ids ops) /\ impl_run (mkCfg false true) ops = spec_run (mkCfg false true) ops.
Proof.
  cbv zeta. split; [vm_compute; reflexivity|]. split; [vm_compute; reflexivity|].
  split; [vm_compute; reflexivity|]. split; [vm_compute; reflexivity|]. split; [|vm_compute; reflexivity].
  vm_compute. repeat constructor; cbn; intuition discriminate.
Qed.
