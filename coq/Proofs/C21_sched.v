(* C21 — the chat queue under every interleaving of the read loop (client packets arriving) with
   the completion of the queue's asynchronous stages, on top of Base/Conc.v. *)
From Coq Require Import List NArith Bool Lia Arith.
From Verif Require Import Base.Conc Model.ChatQueue Proofs.C21.
Import ListNotations.
Open Scope nat_scope.

Section Sched.
  Variable f1 f2 : bool.
  Variable cfg : config.

  Definition qaction := @action qstate unit.

  (* the read loop: packet i of the history is handed to the queue (program order) *)
  Fixpoint sends (k : nat) (ops : list op) : list qaction :=
    match ops with
    | [] => []
    | x :: r => (fun q => (q_send k x q, [])) :: sends (S k) r
    end.

  (* the worker side: [n] completions of whatever task is running at that moment *)
  Definition ticks (n : nat) : list qaction := repeat (fun q => (q_tick f1 f2 cfg q, [])) n.

  Definition q_threads (ops : list op) (nticks : nat) : list (@thread qstate unit) := [sends 0 ops; ticks nticks].

  Lemma in_sends : forall l k a, In a (sends k l) ->
    exists j x, nth_error l j = Some x /\ a = (fun q => (q_send (k + j) x q, [])).
  Proof.
    induction l as [|y r IH]; intros k a; cbn [sends In]; [contradiction|].
    intros [<-|Hin].
    - exists 0, y. split; [reflexivity|]. now rewrite Nat.add_0_r.
    - destruct (IH _ _ Hin) as [j [x [Hn ->]]]. exists (S j), x. split; [exact Hn|].
      now replace (k + S j) with (S k + j) by lia.
  Qed.

  Definition q_inv (ops : list op) (q : qstate) : Prop :=
    q_sent q = firstn (length (q_sent q)) ops /\
    q_started q ++ q_pend q = q_sent q /\
    (q_nvis q <= length (out (ChatQueue.run f1 f2 cfg (q_started q))))%nat /\
    (q_busy q = false -> q_pend q = [] /\ q_nvis q = length (out (ChatQueue.run f1 f2 cfg (q_started q)))).

  Lemma firstn_snoc_nth {X} (l : list X) n x : nth_error l n = Some x -> firstn (S n) l = firstn n l ++ [x].
  Proof.
    revert n. induction l as [|y r IH]; intros [|n]; cbn; try discriminate.
    - now intros [= ->].
    - intros H. now rewrite <- (IH n H).
  Qed.

  Lemma grow_len l x : (length (out (ChatQueue.run f1 f2 cfg l)) <= length (out (ChatQueue.run f1 f2 cfg (l ++ [x]))))%nat.
  Proof. destruct (run_out_grows f1 f2 cfg l [x]) as [e ->]. rewrite app_length. lia. Qed.

  Lemma send_inv ops i x q : nth_error ops i = Some x -> q_inv ops q -> q_inv ops (q_send i x q).
  Proof.
    intros Hn (H1 & H2 & H3 & H4). unfold q_send.
    destruct (Nat.eqb_spec (length (q_sent q)) i) as [Hi|Hi]; cbn [negb]; [|split; [|split; [|split]]; assumption].
    subst i.
    assert (Hs : q_sent q ++ [x] = firstn (length (q_sent q ++ [x])) ops).
    { rewrite app_length. cbn [length]. rewrite Nat.add_1_r, (firstn_snoc_nth _ _ _ Hn). now rewrite <- H1. }
    destruct (q_busy q) eqn:Hb; unfold q_inv; cbn [q_sent q_started q_pend q_busy q_nvis].
    - split; [exact Hs|]. split; [now rewrite app_assoc, H2|]. split; [exact H3|discriminate].
    - destruct (H4 eq_refl) as [Hp Hv]. split; [exact Hs|]. split.
      + rewrite Hp in *. rewrite app_nil_r in *. now rewrite H2.
      + split; [|discriminate]. pose proof (grow_len (q_started q) x). lia.
  Qed.

  Lemma tick_inv ops q : q_inv ops q -> q_inv ops (q_tick f1 f2 cfg q).
  Proof.
    intros (H1 & H2 & H3 & H4). unfold q_tick. destruct (q_busy q) eqn:Hb; [|(split; [|split; [|split]]; try assumption; intros _; apply H4; reflexivity)].
    destruct (q_pend q) as [|x r] eqn:Hp; unfold q_inv; cbn [q_sent q_started q_pend q_busy q_nvis].
    - split; [exact H1|]. split; [exact H2|]. split; [lia|]. intros _. split; reflexivity.
    - split; [exact H1|]. split; [now rewrite <- app_assoc|]. split; [apply grow_len|discriminate].
  Qed.

  Lemma init_inv ops : q_inv ops q_init.
  Proof. split; [reflexivity|]. split; [reflexivity|]. split; [cbn; lia|]. intros _. split; reflexivity. Qed.

  (* the invariant holds after every schedule of the two threads (Base.Conc.inv_all_schedules) *)
  Lemma q_inv_all_schedules ops nticks sched :
    q_inv ops (final_state (Conc.run (q_threads ops nticks) sched q_init)).
  Proof.
    unfold final_state. apply (inv_all_schedules (q_inv ops) (q_threads ops nticks)); [|apply init_inv].
    intros a Hin q Hq. unfold q_threads in Hin. cbn [concat] in Hin. rewrite app_nil_r in Hin.
    apply in_app_or in Hin. destruct Hin as [Hin|Hin].
    - destruct (in_sends _ _ _ Hin) as [j [x [Hn ->]]]. cbn [fst]. now apply send_inv.
    - apply repeat_spec in Hin. subst a. cbn [fst]. now apply tick_inv.
  Qed.

  (* what has reached the backend is a prefix of what the sequential semantics sends for the
     whole history, hence in client order *)
  Lemma visible_prefix ops q : q_inv ops q ->
    q_visible f1 f2 cfg q = firstn (q_nvis q) (out (ChatQueue.run f1 f2 cfg ops)) /\
    subseq (bp_ids (q_visible f1 f2 cfg q)) (op_ids ops) = true.
  Proof.
    intros (H1 & H2 & H3 & H4). unfold q_visible.
    assert (Hops : exists m, ops = q_started q ++ m).
    { exists (q_pend q ++ skipn (length (q_sent q)) ops). rewrite app_assoc, H2.
      rewrite H1 at 1. symmetry. apply firstn_skipn. }
    destruct Hops as [m Hm]. destruct (run_out_grows f1 f2 cfg (q_started q) m) as [e He].
    assert (Hv : firstn (q_nvis q) (out (ChatQueue.run f1 f2 cfg ops)) = firstn (q_nvis q) (out (ChatQueue.run f1 f2 cfg (q_started q)))).
    { rewrite Hm at 1. rewrite He, firstn_app. replace (q_nvis q - _)%nat with 0%nat by lia. cbn. now rewrite app_nil_r. }
    split; [now rewrite Hv|].
    rewrite <- Hv. apply (subseq_prefix _ _ (bp_ids (skipn (q_nvis q) (out (ChatQueue.run f1 f2 cfg ops))))).
    rewrite <- bp_ids_app, firstn_skipn. apply run_order.
  Qed.

  (* once everything was sent and the queue is idle the backend has received exactly the
     sequential output *)
  Lemma quiescent_complete ops q : q_inv ops q ->
    length (q_sent q) = length ops -> q_busy q = false ->
    q_visible f1 f2 cfg q = out (ChatQueue.run f1 f2 cfg ops).
  Proof.
    intros (H1 & H2 & H3 & H4) Hlen Hb. destruct (H4 Hb) as [Hp Hv]. unfold q_visible.
    rewrite Hlen, firstn_all in H1. rewrite Hp, app_nil_r in H2. rewrite H2, H1, Hv.
    rewrite H2, H1. apply firstn_all.
  Qed.
End Sched.

(* small instance, every complete interleaving enumerated: 3 packets against 3 completions
   (20 schedules) - each ends with a prefix of the sequential output, and the schedule
   send,send,send,tick,tick,tick ends with all of it *)
Example sched_small :
  let cfg := mkCfg false false in
  let ops := [Ack 45; Chat 1 2 false; Cmd 2 1 false OConsumed]%N in
  let ts := q_threads true true cfg ops 3 in
  length (all_schedules ts) = 20%nat /\
  check_all_schedules ts q_init (fun q _ =>
    let v := q_visible true true cfg q in
    let full := out (ChatQueue.run true true cfg ops) in
    match full with
    | [a; b; c] => match v with [] => true | [x] => true | [x; y] => true | [x; y; z] => true | _ => false end
    | _ => false
    end) = true /\
  q_visible true true cfg (final_state (Conc.run ts [0; 0; 0; 1; 1; 1] q_init)) = [PAck 25; PChat 1 22; PAck 1]%N /\
  q_visible true true cfg (final_state (Conc.run ts [0; 1; 1; 0; 0; 1] q_init)) = [PAck 25; PChat 1 22]%N.
Proof. vm_compute. repeat split; reflexivity. Qed.
