(* Proofs for C06 (packet id tables).  Statements of the property theorems are repeated in Properties/C06.v. *)
From Coq Require Import List ZArith String Bool Lia.
From Verif Require Import Model.Registry Model.RegistryReference Gen.Registry.
Import ListNotations.
Open Scope Z_scope.

(* ------------------------------------------------------------------ *)
(* 1. One insertion keeps the two maps mutually inverse                *)
(* ------------------------------------------------------------------ *)

Lemma bij_pr_empty p : bij_pr (mkPR p [] []).
Proof. intros id t. cbn. split; discriminate. Qed.

Lemma insert_bij r id t :
  bij_pr r -> find_id (pr_ids r) id = None -> find_ty (pr_types r) t = None -> bij_pr (insert r id t).
Proof.
  intros Hb Hid Hty id' t'. unfold insert. cbn [pr_ids pr_types find_id find_ty].
  destruct (Z.eqb_spec id id') as [Eid|Nid]; destruct (String.eqb_spec t t') as [Et|Nt].
  - subst. split; reflexivity.
  - subst id'. split.
    + intros H. inversion H. contradiction.
    + intros H. apply Hb in H. rewrite Hid in H. discriminate.
  - subst t'. split.
    + intros H. apply Hb in H. rewrite Hty in H. discriminate.
    + intros H. inversion H. contradiction.
  - apply Hb.
Qed.

(* ------------------------------------------------------------------ *)
(* 2. Association lists of protocol registries                         *)
(* ------------------------------------------------------------------ *)

Lemma set_proto_Forall (P : protoreg -> Prop) l p r :
  Forall (fun e => P (snd e)) l -> P r -> Forall (fun e => P (snd e)) (set_proto l p r).
Proof.
  intros Hl Hr. induction l as [|[k r0] rest IH]; cbn [set_proto].
  - constructor; [exact Hr | constructor].
  - inversion Hl as [|? ? H1 H2]; subst. destruct (k =? p).
    + constructor; [exact Hr | exact H2].
    + constructor; [exact H1 | apply IH; exact H2].
Qed.

Lemma find_proto_Forall (P : protoreg -> Prop) l p r :
  Forall (fun e => P (snd e)) l -> find_proto l p = Some r -> P r.
Proof.
  intros Hl. induction l as [|[k r0] rest IH]; cbn [find_proto]; [discriminate|].
  inversion Hl as [|? ? H1 H2]; subst. destruct (k =? p).
  - intros H. inversion H; subst. exact H1.
  - apply IH. exact H2.
Qed.

Lemma find_proto_none l p : ~ In p (map fst l) -> find_proto l p = None.
Proof.
  induction l as [|[k r0] rest IH]; cbn [find_proto map fst In]; [reflexivity|].
  intros H. destruct (Z.eqb_spec k p) as [E|N].
  - exfalso. apply H. left. exact E.
  - apply IH. intros Hin. apply H. right. exact Hin.
Qed.

(* ------------------------------------------------------------------ *)
(* 3. register preserves the bijection (induction over the versions,   *)
(*    then over the mappings)                                          *)
(* ------------------------------------------------------------------ *)

Lemma range_loop_bij vs : forall from to il id t protos protos',
  bij_protos protos -> range_loop vs from to il id t protos = Ok protos' -> bij_protos protos'.
Proof.
  induction vs as [|v rest IH]; intros from to il id t protos protos' Hb H; cbn [range_loop] in H.
  - inversion H; subst. exact Hb.
  - destruct ((from <=? v) && (v <=? to)).
    + destruct ((v =? to) && negb il).
      * inversion H; subst. exact Hb.
      * destruct (find_proto protos v) as [r|] eqn:Ef; [|discriminate].
        destruct (find_id (pr_ids r) id) eqn:Ei; [discriminate|].
        destruct (find_ty (pr_types r) t) eqn:Et; [discriminate|].
        eapply IH; [|exact H].
        apply set_proto_Forall; [exact Hb|].
        apply insert_bij; [|exact Ei|exact Et].
        exact (find_proto_Forall bij_pr protos v r Hb Ef).
    + eapply IH; [exact Hb|exact H].
Qed.

Lemma reg_mappings_bij vs maxp t ms : forall protos protos',
  bij_protos protos -> reg_mappings vs maxp t ms protos = Ok protos' -> bij_protos protos'.
Proof.
  induction ms as [|cur rest IH]; intros protos protos' Hb H; cbn [reg_mappings] in H.
  - inversion H; subst. exact Hb.
  - destruct (negb (last_valid_of cur =? 0) && negb match rest with [] => true | _ :: _ => false end); [discriminate|].
    destruct (negb (last_valid_of cur =? 0) && (m_from cur - last_valid_of cur >? 0)); [discriminate|].
    match type of H with (if ?c then _ else _) = _ => destruct c; [discriminate|] end.
    match type of H with match ?x with Ok _ => _ | Err _ => _ end = _ => destruct x as [protos1|] eqn:Er; [|discriminate] end.
    eapply IH; [|exact H]. eapply range_loop_bij; [exact Hb|exact Er].
Qed.

(* the general lemma of DESIGN.md: one successful Register call preserves the bijection *)
Lemma register_preserves_bij vs maxp pg t ms pg' :
  bij_preg pg -> register vs maxp pg t ms = Ok pg' -> bij_preg pg'.
Proof.
  unfold register, bij_preg. intros Hb H.
  destruct (reg_mappings vs maxp t ms (pg_protocols pg)) as [protos|] eqn:E; [|discriminate].
  inversion H; subst. cbn [pg_protocols]. eapply reg_mappings_bij; [exact Hb|exact E].
Qed.

(* register also keeps the set of protocols and the fallback flag *)
Lemma set_proto_keys l p r : In p (map fst l) -> map fst (set_proto l p r) = map fst l.
Proof.
  induction l as [|[k r0] rest IH]; cbn [set_proto map fst In]; [contradiction|].
  intros H. destruct (Z.eqb_spec k p) as [E|N]; cbn [map fst]; [reflexivity|].
  f_equal. apply IH. destruct H as [H|H]; [contradiction|exact H].
Qed.

Lemma find_proto_some_key l p r : find_proto l p = Some r -> In p (map fst l).
Proof.
  induction l as [|[k r0] rest IH]; cbn [find_proto map fst In]; [discriminate|].
  destruct (Z.eqb_spec k p) as [E|N]; intros H; [left; exact E|right; apply IH; exact H].
Qed.

Lemma range_loop_keys vs : forall from to il id t protos protos',
  range_loop vs from to il id t protos = Ok protos' -> map fst protos' = map fst protos.
Proof.
  induction vs as [|v rest IH]; intros from to il id t protos protos' H; cbn [range_loop] in H.
  - inversion H; reflexivity.
  - destruct ((from <=? v) && (v <=? to)).
    + destruct ((v =? to) && negb il).
      * inversion H; reflexivity.
      * destruct (find_proto protos v) as [r|] eqn:Ef; [|discriminate].
        destruct (find_id (pr_ids r) id) eqn:Ei; [discriminate|].
        destruct (find_ty (pr_types r) t) eqn:Et; [discriminate|].
        apply IH in H. rewrite H. apply set_proto_keys. eapply find_proto_some_key; exact Ef.
    + eapply IH; exact H.
Qed.

Lemma reg_mappings_keys vs maxp t ms : forall protos protos',
  reg_mappings vs maxp t ms protos = Ok protos' -> map fst protos' = map fst protos.
Proof.
  induction ms as [|cur rest IH]; intros protos protos' H; cbn [reg_mappings] in H.
  - inversion H; reflexivity.
  - destruct (negb (last_valid_of cur =? 0) && negb match rest with [] => true | _ :: _ => false end); [discriminate|].
    destruct (negb (last_valid_of cur =? 0) && (m_from cur - last_valid_of cur >? 0)); [discriminate|].
    match type of H with (if ?c then _ else _) = _ => destruct c; [discriminate|] end.
    match type of H with match ?x with Ok _ => _ | Err _ => _ end = _ => destruct x as [protos1|] eqn:Er; [|discriminate] end.
    apply IH in H. rewrite H. eapply range_loop_keys; exact Er.
Qed.

Lemma register_preserves_keys vs maxp pg t ms pg' :
  register vs maxp pg t ms = Ok pg' ->
  map fst (pg_protocols pg') = map fst (pg_protocols pg) /\ pg_fallback pg' = pg_fallback pg.
Proof.
  unfold register. intros H.
  destruct (reg_mappings vs maxp t ms (pg_protocols pg)) as [protos|] eqn:E; [|discriminate].
  inversion H; subst. cbn [pg_protocols pg_fallback]. split; [|reflexivity].
  eapply reg_mappings_keys; exact E.
Qed.

(* ------------------------------------------------------------------ *)
(* 4. The ten registries                                               *)
(* ------------------------------------------------------------------ *)

Lemma set_reg_Forall (P : preg -> Prop) l k pg :
  Forall (fun e => P (snd e)) l -> P pg -> Forall (fun e => P (snd e)) (set_reg l k pg).
Proof.
  intros Hl Hp. induction l as [|[k0 pg0] rest IH]; cbn [set_reg].
  - constructor; [exact Hp | constructor].
  - inversion Hl as [|? ? H1 H2]; subst. destruct (key_eqb k0 k).
    + constructor; [exact Hp | exact H2].
    + constructor; [exact H1 | apply IH; exact H2].
Qed.

Lemma get_reg_Forall (P : preg -> Prop) l k pg :
  Forall (fun e => P (snd e)) l -> get_reg l k = Some pg -> P pg.
Proof.
  intros Hl. induction l as [|[k0 pg0] rest IH]; cbn [get_reg]; [discriminate|].
  inversion Hl as [|? ? H1 H2]; subst. destruct (key_eqb k0 k).
  - intros H. inversion H; subst. exact H1.
  - apply IH. exact H2.
Qed.

Lemma register_in_bij vs maxp l r l' :
  bij_regs l -> register_in vs maxp l r = Ok l' -> bij_regs l'.
Proof.
  unfold register_in, bij_regs. intros Hb H.
  destruct (get_reg l (r_state r, r_dir r)) as [pg|] eqn:Eg; [|discriminate].
  destruct (register vs maxp pg (r_type r) (r_mappings r)) as [pg'|] eqn:Er; [|discriminate].
  inversion H; subst. apply set_reg_Forall; [exact Hb|].
  eapply register_preserves_bij; [|exact Er].
  exact (get_reg_Forall bij_preg l _ pg Hb Eg).
Qed.

Lemma register_all_bij vs maxp rs : forall l l',
  bij_regs l -> register_all vs maxp l rs = Ok l' -> bij_regs l'.
Proof.
  induction rs as [|r rest IH]; intros l l' Hb H; cbn [register_all] in H.
  - inversion H; subst. exact Hb.
  - destruct (register_in vs maxp l r) as [l1|] eqn:E; [|discriminate].
    eapply IH; [|exact H]. eapply register_in_bij; [exact Hb|exact E].
Qed.

Lemma new_preg_bij c : bij_preg (new_preg c).
Proof.
  unfold new_preg, bij_preg. cbn [pg_protocols].
  assert (G : forall vs acc, bij_protos acc ->
            bij_protos (fold_left (fun acc p => if negb (is_legacy c p) && negb (is_unknown c p)
                                                then set_proto acc p (mkPR p [] []) else acc) vs acc)).
  { induction vs as [|v rest IH]; intros acc Ha; cbn [fold_left]; [exact Ha|].
    apply IH. destruct (negb (is_legacy c v) && negb (is_unknown c v)); [|exact Ha].
    apply set_proto_Forall; [exact Ha|apply bij_pr_empty]. }
  apply G. constructor.
Qed.

Lemma new_regs_bij c : bij_regs (new_regs c).
Proof.
  unfold new_regs, bij_regs. induction all_keys as [|k rest IH]; cbn [map]; constructor.
  - cbn [snd]. apply new_preg_bij.
  - exact IH.
Qed.

Lemma set_fallback_bij l x : bij_regs l -> bij_regs (set_fallback l x).
Proof.
  unfold set_fallback. intros Hb. destruct (get_reg l (fst x)) as [pg|] eqn:E; [|exact Hb].
  apply set_reg_Forall; [exact Hb|]. unfold bij_preg. cbn [pg_protocols].
  exact (get_reg_Forall bij_preg l _ pg Hb E).
Qed.

Lemma fold_fallback_bij fbs : forall l, bij_regs l -> bij_regs (fold_left set_fallback fbs l).
Proof.
  induction fbs as [|x rest IH]; intros l Hb; cbn [fold_left]; [exact Hb|].
  apply IH. apply set_fallback_bij. exact Hb.
Qed.

(* whatever the version list, the fallback settings and the registrations are: if package init does not
   panic, every one of the ten registries holds mutually inverse maps for every protocol *)
Theorem build_bij c fbs rs tb : build c fbs rs = Ok tb -> bij tb.
Proof.
  unfold build, bij. intros H.
  destruct (minimum_version c) as [mn|]; [|discriminate].
  destruct (maximum_version c) as [mx|]; [|discriminate].
  destruct (register_all (c_versions c) mx (fold_left set_fallback fbs (new_regs c)) rs) as [l|] eqn:E; [|discriminate].
  inversion H; subst. cbn [t_regs].
  eapply register_all_bij; [|exact E]. apply fold_fallback_bij. apply new_regs_bij.
Qed.

(* ------------------------------------------------------------------ *)
(* 5. Lookups                                                          *)
(* ------------------------------------------------------------------ *)

Lemma lookup_bij tb s d p r : bij tb -> lookup tb s d p = RFound r -> bij_pr r.
Proof.
  unfold bij, lookup. intros Hb H.
  destruct (get_reg (t_regs tb) (s, d)) as [pg|] eqn:Eg; [|discriminate].
  pose proof (get_reg_Forall bij_preg _ _ pg Hb Eg) as Hpg. unfold bij_preg in Hpg.
  unfold resolve in H.
  destruct (find_proto (pg_protocols pg) p) as [r1|] eqn:E1.
  - inversion H; subst. exact (find_proto_Forall bij_pr _ _ _ Hpg E1).
  - destruct (pg_fallback pg); [|discriminate].
    destruct (find_proto (pg_protocols pg) (t_min tb)) as [r2|] eqn:E2; [|discriminate].
    inversion H; subst. exact (find_proto_Forall bij_pr _ _ _ Hpg E2).
Qed.

Theorem inverse_of_bij tb : bij tb -> forall s d p id t,
  type_of tb s d p id = Some t <-> id_of tb s d p t = Some id.
Proof.
  intros Hb s d p id t. unfold type_of, id_of.
  destruct (lookup tb s d p) as [r| |] eqn:E; [|split; discriminate|split; discriminate].
  exact (lookup_bij tb s d p r Hb E id t).
Qed.

(* ------------------------------------------------------------------ *)
(* 6. The decidable predicate used on observations is sound            *)
(* ------------------------------------------------------------------ *)

Lemma find_id_In l id t : find_id l id = Some t -> In (id, t) l.
Proof.
  induction l as [|[k t0] rest IH]; cbn [find_id]; [discriminate|].
  destruct (Z.eqb_spec k id) as [E|N]; intros H.
  - inversion H; subst. left. reflexivity.
  - right. apply IH. exact H.
Qed.

Lemma find_ty_In l t id : find_ty l t = Some id -> In (t, id) l.
Proof.
  induction l as [|[k i0] rest IH]; cbn [find_ty]; [discriminate|].
  destruct (String.eqb_spec k t) as [E|N]; intros H.
  - inversion H; subst. left. reflexivity.
  - right. apply IH. exact H.
Qed.

Lemma opt_id_eqb_true a b : opt_id_eqb a b = true -> a = Some b.
Proof. destruct a as [x|]; cbn; [|discriminate]. intros H. apply Z.eqb_eq in H. subst. reflexivity. Qed.
Lemma opt_ty_eqb_true a b : opt_ty_eqb a b = true -> a = Some b.
Proof. destruct a as [x|]; cbn; [|discriminate]. intros H. apply String.eqb_eq in H. subst. reflexivity. Qed.

Theorem bijb_sound r : bijb r = true -> bij_pr r.
Proof.
  unfold bijb. intros H. apply andb_true_iff in H. destruct H as [H1 H2].
  rewrite forallb_forall in H1, H2. intros id t. split; intros H.
  - apply find_id_In in H. apply H1 in H. cbn [fst snd] in H. apply opt_id_eqb_true. exact H.
  - apply find_ty_In in H. apply H2 in H. cbn [fst snd] in H. apply opt_ty_eqb_true. exact H.
Qed.

(* ------------------------------------------------------------------ *)
(* 7. The lowest element of a list                                     *)
(* ------------------------------------------------------------------ *)

Lemma fold_min_le l : forall a, fold_left Z.min l a <= a /\ (forall v, In v l -> fold_left Z.min l a <= v).
Proof.
  induction l as [|x rest IH]; intros a; cbn [fold_left In].
  - split; [lia|contradiction].
  - destruct (IH (Z.min a x)) as [H1 H2]. split; [lia|].
    intros v [E|Hin]; [subst; lia|apply H2; exact Hin].
Qed.

Lemma fold_min_in l : forall a, fold_left Z.min l a = a \/ In (fold_left Z.min l a) l.
Proof.
  induction l as [|x rest IH]; intros a; cbn [fold_left In]; [left; reflexivity|].
  destruct (IH (Z.min a x)) as [H|H].
  - rewrite H. destruct (Z.min_spec a x) as [[_ E]|[_ E]]; rewrite E; [left; reflexivity|right; left; reflexivity].
  - right. right. exact H.
Qed.

Theorem lowest_spec l m : lowest l = Some m -> In m l /\ forall v, In v l -> m <= v.
Proof.
  destruct l as [|x rest]; cbn [lowest]; [discriminate|]. intros H. inversion H; subst. split.
  - destruct (fold_min_in rest x) as [E|Hin]; [rewrite E; left; reflexivity|right; exact Hin].
  - intros v [E|Hin].
    + subst. apply (proj1 (fold_min_le rest v)).
    + apply (proj2 (fold_min_le rest x)). exact Hin.
Qed.

(* ------------------------------------------------------------------ *)
(* 8. The table of the code as it is now (regenerated Gen/Registry.v)  *)
(* ------------------------------------------------------------------ *)

(* the table package init builds; the empty table only if init would panic (build_ok shows it does not) *)
Definition tbl : table :=
  match build config fallback_settings registrations with Ok t => t | Err _ => mkT [] 0 0 end.

Lemma build_ok : build config fallback_settings registrations = Ok tbl.
Proof. vm_compute. reflexivity. Qed.

Lemma tbl_bij : bij tbl.
Proof. exact (build_bij _ _ _ _ build_ok). Qed.

Theorem C06_bijective_proof : build config fallback_settings registrations = Ok tbl /\ bij tbl.
Proof. split; [exact build_ok|exact tbl_bij]. Qed.

Theorem C06_inverse_proof : forall s d p id t,
  type_of tbl s d p id = Some t <-> id_of tbl s d p t = Some id.
Proof. exact (inverse_of_bij tbl tbl_bij). Qed.

Theorem C06_id_unique_proof : forall s d p t1 t2 id,
  id_of tbl s d p t1 = Some id -> id_of tbl s d p t2 = Some id -> t1 = t2.
Proof.
  intros s d p t1 t2 id H1 H2. apply C06_inverse_proof in H1. apply C06_inverse_proof in H2.
  rewrite H1 in H2. inversion H2. reflexivity.
Qed.

Theorem C06_type_unique_proof : forall s d p id1 id2 t,
  type_of tbl s d p id1 = Some t -> type_of tbl s d p id2 = Some t -> id1 = id2.
Proof.
  intros s d p id1 id2 t H1 H2. apply C06_inverse_proof in H1. apply C06_inverse_proof in H2.
  rewrite H1 in H2. inversion H2. reflexivity.
Qed.

(* ---- shape of the ten registries.  The lemmas are stated for an arbitrary table tb (so that no proof step
   ever has to unfold the concrete table); the finite facts about the regenerated table are then supplied
   by evaluation. ---- *)

Fixpoint Zlist_eqb (a b : list Z) : bool :=
  match a, b with
  | [], [] => true
  | x :: r, y :: s => (x =? y) && Zlist_eqb r s
  | _, _ => false
  end.
Lemma Zlist_eqb_eq a : forall b, Zlist_eqb a b = true -> a = b.
Proof.
  induction a as [|x r IH]; intros [|y s]; cbn [Zlist_eqb]; try discriminate; [reflexivity|].
  intros H. apply andb_true_iff in H. destruct H as [H1 H2]. apply Z.eqb_eq in H1. subst.
  f_equal. apply IH. exact H2.
Qed.

(* registry k of tb: its protocols are exactly the list sup, each entry is the registry of its own protocol,
   and its Fallback flag follows the policy (off for Play, on elsewhere) *)
Definition shape_ok (tb : table) (sup : list Z) (k : key) : bool :=
  match get_reg (t_regs tb) k with
  | Some pg =>
    Zlist_eqb (map fst (pg_protocols pg)) sup
    && Bool.eqb (pg_fallback pg) (fallback_policy (fst k))
    && forallb (fun e => fst e =? pr_protocol (snd e)) (pg_protocols pg)
  | None => false
  end.

Lemma key_in_all s d : In (s, d) all_keys.
Proof. destruct s, d; cbn; tauto. Qed.

Lemma shape_of tb sup : forallb (shape_ok tb sup) all_keys = true ->
  forall s d, exists pg, get_reg (t_regs tb) (s, d) = Some pg
  /\ map fst (pg_protocols pg) = sup
  /\ pg_fallback pg = fallback_policy s
  /\ forallb (fun e => fst e =? pr_protocol (snd e)) (pg_protocols pg) = true.
Proof.
  intros H s d. rewrite forallb_forall in H. specialize (H (s, d) (key_in_all s d)).
  unfold shape_ok in H. destruct (get_reg (t_regs tb) (s, d)) as [pg|]; [|discriminate].
  apply andb_true_iff in H. destruct H as [H H3]. apply andb_true_iff in H. destruct H as [H1 H2].
  exists pg. split; [reflexivity|]. split; [apply Zlist_eqb_eq; exact H1|]. split; [|exact H3].
  cbn [fst] in H2. apply Bool.eqb_prop in H2. exact H2.
Qed.

Lemma find_proto_key_protocol l p r :
  forallb (fun e => fst e =? pr_protocol (snd e)) l = true -> find_proto l p = Some r -> pr_protocol r = p.
Proof.
  induction l as [|[k r0] rest IH]; cbn [forallb find_proto fst snd]; [discriminate|].
  intros H. apply andb_true_iff in H. destruct H as [H1 H2].
  destruct (Z.eqb_spec k p) as [E|N].
  - intros H. inversion H; subst. apply Z.eqb_eq in H1. symmetry. exact H1.
  - apply IH. exact H2.
Qed.

Lemma find_proto_in_keys l p : In p (map fst l) -> exists r, find_proto l p = Some r.
Proof.
  induction l as [|[k r0] rest IH]; cbn [map fst In find_proto]; [contradiction|].
  intros H. destruct (Z.eqb_spec k p) as [E|N]; [eexists; reflexivity|].
  apply IH. destruct H as [H|H]; [contradiction|exact H].
Qed.

Lemma own_table_gen tb sup : forallb (shape_ok tb sup) all_keys = true ->
  forall s d p, In p sup -> exists r, lookup tb s d p = RFound r /\ pr_protocol r = p.
Proof.
  intros Hs s d p Hin. destruct (shape_of tb sup Hs s d) as [pg [Hg [Hk [_ Hp]]]].
  unfold lookup. rewrite Hg. unfold resolve.
  rewrite <- Hk in Hin. destruct (find_proto_in_keys _ _ Hin) as [r Hr]. rewrite Hr.
  exists r. split; [reflexivity|]. eapply find_proto_key_protocol; [exact Hp|exact Hr].
Qed.

Lemma fallback_gen tb sup : forallb (shape_ok tb sup) all_keys = true ->
  forall s d p, ~ In p sup ->
  lookup tb s d p = if fallback_policy s then lookup tb s d (t_min tb) else RNil.
Proof.
  intros Hs s d p Hn. destruct (shape_of tb sup Hs s d) as [pg [Hg [Hk [Hf _]]]].
  unfold lookup. rewrite Hg. unfold resolve.
  rewrite <- Hk in Hn. rewrite (find_proto_none _ _ Hn). rewrite Hf.
  destruct (fallback_policy s); [|reflexivity].
  destruct (find_proto (pg_protocols pg) (t_min tb)); reflexivity.
Qed.

Lemma reference_gen tb vs es : forallb (covered tb vs) es = true ->
  forall e p, In e es -> In p vs -> in_range e p = true ->
  id_of tb (e_state e) (e_dir e) p (e_type e) = Some (e_id e).
Proof.
  intros H e p He Hp Hr. rewrite forallb_forall in H.
  specialize (H e He). unfold covered in H. rewrite forallb_forall in H. specialize (H p Hp).
  rewrite Hr in H. unfold compare_at in H.
  destruct (id_of tb (e_state e) (e_dir e) p (e_type e)) as [id|]; [|discriminate].
  destruct (Z.eqb_spec id (e_id e)) as [E|N]; [subst; reflexivity|discriminate].
Qed.

(* finite facts about the regenerated table, by evaluation *)
Lemma tbl_shape : forallb (shape_ok tbl (supported config)) all_keys = true.
Proof. vm_compute. reflexivity. Qed.

Lemma tbl_min_lowest : lowest (supported config) = Some (t_min tbl).
Proof. vm_compute. reflexivity. Qed.

Lemma reference_covered : forallb (covered tbl (supported config)) alarmed = true.
Proof. vm_compute. reflexivity. Qed.

(* a supported version resolves to its own registry, in all ten registries *)
Theorem C06_own_table_proof : forall s d p, In p (supported config) ->
  exists r, lookup tbl s d p = RFound r /\ pr_protocol r = p.
Proof. exact (own_table_gen tbl (supported config) tbl_shape). Qed.

(* the fallback clause, for every protocol number that is not a supported version *)
Theorem C06_fallback_proof : forall s d p, ~ In p (supported config) ->
  lookup tbl s d p = if fallback_policy s then lookup tbl s d (t_min tbl) else RNil.
Proof. exact (fallback_gen tbl (supported config) tbl_shape). Qed.

Theorem C06_minimum_is_lowest_proof :
  In (t_min tbl) (supported config) /\ forall v, In v (supported config) -> t_min tbl <= v.
Proof. exact (lowest_spec _ _ tbl_min_lowest). Qed.

(* ---- reference clause ---- *)

Theorem C06_reference_proof : forall e p,
  In e alarmed -> In p (supported config) -> in_range e p = true ->
  id_of tbl (e_state e) (e_dir e) p (e_type e) = Some (e_id e).
Proof. exact (reference_gen tbl (supported config) alarmed reference_covered). Qed.

Theorem C06_reference_forallb_proof : forallb (agrees tbl (supported config)) alarmed = true.
Proof. vm_compute. reflexivity. Qed.

(* report only (never an obligation about the code): unverified reference entries that do not agree *)
Definition C06_unverified_report : list (ref_entry * Z) := disagreements tbl (supported config) unverified.

(* ------------------------------------------------------------------ *)
(* 9. Non-vacuity: the statements above speak about a populated table, *)
(*    and the error branches of the model are reachable                *)
(* ------------------------------------------------------------------ *)

Example ex_keepalive_764 :
  id_of tbl Play ClientBound 764 "packet.KeepAlive" = Some 36 /\
  type_of tbl Play ClientBound 764 36 = Some "packet.KeepAlive"%string.
Proof. vm_compute. split; reflexivity. Qed.

Example ex_fallback_login :
  ~ In 999999 (supported config) /\
  (exists r, lookup tbl Login ServerBound 999999 = RFound r /\ pr_protocol r = 4 /\ pr_ids r <> []) /\
  lookup tbl Play ClientBound 3 = RNil.
Proof.
  split; [|split].
  - vm_compute. intuition discriminate.
  - eexists. split; [vm_compute; reflexivity|]. split; [reflexivity|discriminate].
  - vm_compute. reflexivity.
Qed.

Example ex_reference_nonempty : List.length alarmed = 110%nat /\ In 764 (supported config).
Proof. split; [vm_compute; reflexivity|vm_compute; tauto]. Qed.

(* the same id twice in one range is the panic "already registered with same id" *)
Example ex_duplicate_id_is_error :
  build config fallback_settings
        (registrations ++ [mkR Login ServerBound "packet.Other" [mkM 1 4 false None]])
  = Err (ErrDupId 4 1 "packet.EncryptionResponse" "packet.Other").
Proof. vm_compute. reflexivity. Qed.

Example ex_duplicate_type_is_error :
  build config fallback_settings
        (registrations ++ [mkR Login ServerBound "packet.ServerLogin" [mkM 9 4 false None]])
  = Err (ErrDupType 4 "packet.ServerLogin").
Proof. vm_compute. reflexivity. Qed.

Example ex_bad_order_is_error :
  build config fallback_settings [mkR Login ServerBound "packet.X" [mkM 1 47 false None; mkM 2 5 false None]]
  = Err (ErrOrder 47 5).
Proof. vm_compute. reflexivity. Qed.

(* bijb really rejects: two types sharing an id *)
Example ex_bijb_rejects :
  bijb (mkPR 4 [(1, "a")] [("a", 1); ("b", 1)]) = false.
Proof. vm_compute. reflexivity. Qed.
