(* C40 — Java profile name: length and alphabet for every input string; UUID: version/variant bits,
   remaining bits from SHA-1; pre-image injectivity. *)
From Coq Require Import List NArith ZArith Bool Lia.
From Coq Require Import ZifyN ZifyNat ZifyBool.
From Verif Require Import Base.Hex Base.Text Base.Sha1 Base.Decimal Model.JavaIdentity.
Import ListNotations.
Open Scope N_scope.
Ltac Zify.zify_post_hook ::= Z.div_mod_to_equations.

(* ---------- name ---------- *)

(* A-Z, a-z, 0-9, underscore *)
Definition name_char (c : N) : Prop :=
  (65 <= c <= 90) \/ (97 <= c <= 122) \/ (48 <= c <= 57) \/ c = 95.

Lemma name_ok_char c : name_ok c = true <-> name_char c.
Proof. unfold name_ok, name_char. lia. Qed.

Lemma norm_rune_ok r : name_ok (norm_rune r) = true.
Proof. unfold norm_rune. destruct (name_ok r) eqn:E; [exact E|reflexivity]. Qed.

Lemma name_loop_spec : forall runes n, (n <= 16)%nat ->
  (length (name_loop runes n) + n <= 16)%nat /\ Forall name_char (name_loop runes n).
Proof.
  induction runes as [|r rs IH]; intros n Hn; cbn [name_loop].
  - split; [cbn; lia|constructor].
  - destruct (Nat.eqb_spec n 16) as [->|Hne].
    + split; [cbn; lia|constructor].
    + destruct (IH (S n)) as [IL IF]; [lia|]. split; [cbn [length]; lia|].
      constructor; [apply name_ok_char, norm_rune_ok|exact IF].
Qed.

Theorem username_alphabet_len : forall s,
  (1 <= length (java_compatible_username s) <= 16)%nat /\ Forall name_char (java_compatible_username s).
Proof.
  intro s. unfold java_compatible_username.
  destruct (name_loop_spec (utf8_decode s) 0) as [L F]; [lia|].
  destruct (name_loop (utf8_decode s) 0) as [|c out].
  - split; [cbn; lia|]. constructor; [right; right; right; reflexivity|constructor].
  - split; [cbn [length] in *; lia|exact F].
Qed.

Theorem name_alphabet_len : forall fmt tag,
  (1 <= length (java_name fmt tag) <= 16)%nat /\ Forall name_char (java_name fmt tag).
Proof. intros fmt tag. unfold java_name. apply username_alphabet_len. Qed.

(* a name that is already valid is kept: ASCII letters, digits, underscore, at most 16 of them *)
Lemma name_loop_id : forall s n, forallb name_ok s = true -> (length s + n <= 16)%nat ->
  name_loop s n = s.
Proof.
  induction s as [|c s IH]; intros n F L; [reflexivity|].
  cbn [forallb] in F. apply andb_true_iff in F. destruct F as [Fc Fs]. cbn [length] in L.
  cbn [name_loop]. destruct (Nat.eqb_spec n 16); [lia|].
  unfold norm_rune. rewrite Fc, IH by (try assumption; lia). reflexivity.
Qed.

Lemma name_ok_ascii s : forallb name_ok s = true -> is_ascii s = true.
Proof.
  unfold is_ascii. induction s as [|c s IH]; [reflexivity|]. cbn [forallb]. intro H.
  apply andb_true_iff in H. destruct H as [Hc Hs]. rewrite (IH Hs).
  apply name_ok_char in Hc. unfold name_char in Hc. replace (c <? 128) with true by lia. reflexivity.
Qed.

Theorem username_identity_on_valid : forall s,
  s <> [] -> (length s <= 16)%nat -> forallb name_ok s = true -> java_compatible_username s = s.
Proof.
  intros s Hne L F. unfold java_compatible_username.
  rewrite (utf8_decode_ascii s (name_ok_ascii s F)), name_loop_id by (try assumption; lia).
  destruct s; [contradiction|reflexivity].
Qed.

(* ---------- UUID ---------- *)

Lemma forall_byte (P : N -> bool) :
  forallb P (map N.of_nat (seq 0 256)) = true -> forall b, b < 256 -> P b = true.
Proof.
  intros H b Hb. rewrite forallb_forall in H. apply H. apply in_map_iff.
  exists (N.to_nat b). split; [lia|]. apply in_seq. lia.
Qed.

Lemma version_byte b : b < 256 -> N.lor (N.land b 15) 80 = b mod 16 + 80.
Proof.
  intro H. apply N.eqb_eq.
  apply (forall_byte (fun b => N.lor (N.land b 15) 80 =? b mod 16 + 80)); [vm_compute; reflexivity|exact H].
Qed.

Lemma variant_byte b : b < 256 -> N.lor (N.land b 63) 128 = b mod 64 + 128.
Proof.
  intro H. apply N.eqb_eq.
  apply (forall_byte (fun b => N.lor (N.land b 63) 128 =? b mod 64 + 128)); [vm_compute; reflexivity|exact H].
Qed.

Lemma be_bytes_length n : forall x, length (be_bytes n x) = n.
Proof. induction n as [|n IH]; intro x; [reflexivity|]. cbn [be_bytes]. rewrite app_length, IH. cbn. lia. Qed.

Lemma be_bytes_wf n : forall x, wf_bytes (be_bytes n x).
Proof.
  induction n as [|n IH]; intro x; [constructor|]. cbn [be_bytes]. apply Forall_app.
  split; [apply IH|]. constructor; [|constructor]. apply N.mod_lt. discriminate.
Qed.

Lemma sha1_shape m : length (sha1 m) = 20%nat /\ wf_bytes (sha1 m).
Proof.
  unfold sha1. destruct (fold_left compress _ _) as [[[[a b] c] d] e]. split.
  - rewrite !app_length, !be_bytes_length. reflexivity.
  - unfold wf_bytes. do 4 (apply Forall_app; split; [apply be_bytes_wf|]). apply be_bytes_wf.
Qed.

(* the shape of set_version_variant on any 20 bytes *)
Lemma set_version_variant_spec s : length s = 20%nat -> wf_bytes s ->
  let u := set_version_variant s in
  length u = 16%nat /\ wf_bytes u /\
  nth 6 u 0 / 16 = 5 /\ nth 6 u 0 mod 16 = nth 6 s 0 mod 16 /\
  nth 8 u 0 / 64 = 2 /\ nth 8 u 0 mod 64 = nth 8 s 0 mod 64 /\
  (forall i, (i < 16)%nat -> i <> 6%nat -> i <> 8%nat -> nth i u 0 = nth i s 0).
Proof.
  intros L W.
  do 20 (destruct s as [|? s]; [discriminate L|]). destruct s; [|discriminate L]. clear L.
  unfold wf_bytes in W.
  repeat match goal with H : Forall _ (_ :: _) |- _ => inversion H; clear H; subst end.
  cbv zeta. unfold set_version_variant. cbn [firstn nth length].
  rewrite version_byte, variant_byte by assumption.
  split; [reflexivity|]. split.
  { unfold wf_bytes. repeat (constructor; [lia|]). constructor. }
  repeat (split; [lia|]).
  intros i Hi Hn6 Hn8.
  do 16 (destruct i as [|i]; [try reflexivity; contradiction|]). lia.
Qed.

Theorem uuid_bits : forall x,
  let s := sha1 (uuid_preimage x) in
  let u := java_uuid x in
  length u = 16%nat /\ wf_bytes u /\
  nth 6 u 0 / 16 = 5 /\ nth 6 u 0 mod 16 = nth 6 s 0 mod 16 /\
  nth 8 u 0 / 64 = 2 /\ nth 8 u 0 mod 64 = nth 8 s 0 mod 64 /\
  (forall i, (i < 16)%nat -> i <> 6%nat -> i <> 8%nat -> nth i u 0 = nth i s 0).
Proof.
  intro x. destruct (sha1_shape (uuid_preimage x)) as [L W].
  exact (set_version_variant_spec _ L W).
Qed.

Theorem preimage_injective : forall x y, uuid_preimage x = uuid_preimage y -> x = y.
Proof. intros x y H. unfold uuid_preimage in H. apply app_inv_head in H. apply print_int_inj. exact H. Qed.

(* different XUIDs, different UUIDs: given that the truncated, re-stamped SHA-1 does not collide on
   the pre-images (122-bit collision resistance: a premise, not a theorem) *)
Theorem uuid_distinct_under_cr :
  (forall a b : bytes, set_version_variant (sha1 a) = set_version_variant (sha1 b) -> a = b) ->
  forall x y, java_uuid x = java_uuid y -> x = y.
Proof. intros CR x y H. apply preimage_injective, CR, H. Qed.

(* vectors: java.util.UUID-independent, computed by the definition; the harness compares with Go on every run *)
Example uuid_example :
  java_uuid 2535412345678901 <> java_uuid 2535412345678902 /\
  nth 6 (java_uuid 2535412345678901) 0 / 16 = 5 /\ nth 8 (java_uuid 2535412345678901) 0 / 64 = 2.
Proof. vm_compute. repeat split; discriminate. Qed.

Example name_examples :
  java_name [95; 37; 115] [83; 116; 101; 118; 101; 32; 49] = [95; 83; 116; 101; 118; 101; 95; 49] /\   (* "_%s" "Steve 1" *)
  java_name [] [] = [95] /\
  java_name [37; 115] [230; 176; 180; 255; 97] = [95; 95; 97] /\                                      (* one '_' per rune / invalid byte *)
  length (java_name [95; 37; 115] (repeat 97 40)) = 16%nat.
Proof. vm_compute. repeat split; reflexivity. Qed.
