(* C26 — proofs about Model/Bungee.v *)
From Coq Require Import List NArith ZArith Bool Lia ZifyN ZifyNat ZifyBool String.
From Verif Require Import Base.Hex Model.Bungee Check.C26.
Import ListNotations.
Open Scope N_scope.
Ltac Zify.zify_post_hook ::= Z.div_mod_to_equations.

Local Notation len := List.length.

(* ---------- DataOutput / DataInput round trips ---------- *)
Lemma read_u16_write n r : n < 65536 -> read_u16 (write_u16 n ++ r) = Some (n, r).
Proof.
  intro H. unfold write_u16. cbn [app read_u16]. f_equal. f_equal. lia.
Qed.

Lemma firstn_skipn_app {A} (s r : list A) :
  firstn (len s) (s ++ r) = s /\ skipn (len s) (s ++ r) = r.
Proof.
  split.
  - rewrite firstn_app, Nat.sub_diag, firstn_all, firstn_O, app_nil_r. reflexivity.
  - rewrite skipn_app, Nat.sub_diag, skipn_all. reflexivity.
Qed.

Lemma read_utf_write s r : N.of_nat (len s) < 65536 -> read_utf (write_utf s ++ r) = Some (s, r).
Proof.
  intro H. unfold write_utf, read_utf. rewrite <- app_assoc, read_u16_write by exact H.
  replace (N.of_nat (len (s ++ r)) <? N.of_nat (len s)) with false
    by (symmetry; apply N.ltb_ge; rewrite app_length; lia).
  rewrite Nat2N.id. destruct (firstn_skipn_app s r) as [-> ->]. reflexivity.
Qed.

Lemma read_i32_write n r : n < 4294967296 -> read_i32 (write_i32 n ++ r) = Some (n, r).
Proof. intro H. unfold write_i32, read_i32. cbn [app]. f_equal. f_equal. lia. Qed.

Definition field_ok (f : field) : Prop :=
  match f with
  | FUtf s => N.of_nat (len s) < 65536
  | FInt n => n < 4294967296
  | FShort n => n < 65536
  end.

Lemma decode_encode fs : Forall field_ok fs -> decode (map kind_of fs) (encode fs) = Some fs.
Proof.
  induction fs as [|f fs IH]; intro H; [reflexivity|].
  inversion H as [|? ? Hf Hr]; subst. specialize (IH Hr).
  destruct f as [s|n|n]; cbn [map kind_of encode decode] in *.
  - rewrite read_utf_write by exact Hf. now rewrite IH.
  - rewrite read_i32_write by exact Hf. now rewrite IH.
  - unfold write_u16. cbn [app]. rewrite IH. cbn in Hf. f_equal. f_equal. f_equal. lia.
Qed.

(* strict reads: a truncated length prefix or body is an error *)
Lemma read_utf_truncated : forall bs,
  (N.of_nat (len bs) < 2 -> read_utf bs = None) /\
  (forall a b r, bs = a :: b :: r -> N.of_nat (len r) < a * 256 + b -> read_utf bs = None).
Proof.
  intro bs. split.
  - intro H. destruct bs as [|a [|b r]]; try reflexivity. cbn in H. lia.
  - intros a b r -> H. unfold read_utf. cbn [read_u16].
    apply N.ltb_lt in H. now rewrite H.
Qed.

(* a request whose sub-channel name cannot be read is not handled and has no effect, in every variant *)
Lemma truncated_request_ignored : forall F st req oracle ch data,
  read_utf data = None -> model F st req oracle ch data = (false, []).
Proof. intros F st req oracle ch data H. unfold model. rewrite H. destruct (_ || _); reflexivity. Qed.

(* ---------- responses ---------- *)
Lemma respond_in owner d o m x : In (EResponse o m x) (respond owner d) ->
  o = p_name owner /\ m = p_modern owner /\ x = d /\ p_server owner <> None.
Proof.
  unfold respond. destruct d; [contradiction|]. destruct (p_server owner) eqn:E; [|contradiction].
  intros [H|[]]. inversion H; subst. repeat split; auto. discriminate.
Qed.

Definition is_query (s : sub) : bool :=
  match s with
  | SIP | SIPOther | SUUID | SUUIDOther | SPlayerCount | SPlayerList | SGetServers | SGetServer
  | SServerIP | SGetPlayerServer => true
  | _ => false
  end.

Lemma response_fields_head F st req s a fs :
  response_fields F st req s a = Some fs -> exists r, fs = FUtf (sub_name s) :: r.
Proof.
  destruct s; cbn [response_fields]; intro H; try discriminate;
    repeat match type of H with
    | context [match ?x with _ => _ end] => destruct x; try discriminate
    end; inversion H; eauto.
Qed.

Lemma responses_well_formed_proof : forall st req oracle s a o m d,
  s <> SForwardToPlayer ->
  In (EResponse o m d) (run_sub all_fixed st req oracle s a) ->
  exists fs, response_fields all_fixed st req s a = Some fs /\
             d = encode fs /\ o = p_name req /\ m = p_modern req /\
             (exists r, fs = FUtf (sub_name s) :: r) /\
             (Forall field_ok fs -> decode (map kind_of fs) d = Some fs).
Proof.
  intros st req oracle s a o m d Hs H.
  assert (Hq : is_query s = true \/ is_query s = false) by (destruct (is_query s); auto).
  destruct Hq as [Hq|Hq].
  - assert (E : run_sub all_fixed st req oracle s a =
                match response_fields all_fixed st req s a with Some fs => respond req (encode fs) | None => [] end)
      by (destruct s; try discriminate; reflexivity).
    rewrite E in H. destruct (response_fields all_fixed st req s a) as [fs|] eqn:Ef; [|contradiction].
    apply respond_in in H. destruct H as (-> & -> & -> & _).
    exists fs. repeat split; auto.
    + eapply response_fields_head; eauto.
    + apply decode_encode.
  - exfalso. destruct s; try discriminate; try contradiction; cbn [run_sub] in H;
      repeat match type of H with
      | context [match ?x with _ => _ end] => destruct x; cbn in H
      | _ \/ _ => destruct H as [H|H]
      end; try contradiction; try discriminate;
      try (apply in_map_iff in H; destruct H as (? & ? & _); discriminate).
Qed.

(* ---------- forwarding ---------- *)
Lemma prepare_forward_ok ch body :
  N.of_nat (len ch) < 65536 -> N.of_nat (len body) < 32768 ->
  prepare_forward all_fixed (write_utf ch ++ write_u16 (N.of_nat (len body)) ++ body) =
  FSome (write_utf ch ++ write_u16 (N.of_nat (len body)) ++ body).
Proof.
  intros Hc Hb. unfold prepare_forward. rewrite read_utf_write by exact Hc.
  rewrite read_u16_write by lia.
  replace (32768 <=? N.of_nat (len body)) with false by (symmetry; apply N.leb_gt; lia).
  rewrite N.ltb_irrefl, Nat2N.id, firstn_all. reflexivity.
Qed.

Lemma forward_unchanged_proof : forall st req oracle tg ch body,
  N.of_nat (len tg) < 65536 -> N.of_nat (len ch) < 65536 -> N.of_nat (len body) < 32768 ->
  let P := write_utf ch ++ write_u16 (N.of_nat (len body)) ++ body in
  read_utf P = Some (ch, write_u16 (N.of_nat (len body)) ++ body) /\
  (forall sv d, In (EForward sv d) (run_sub all_fixed st req oracle SForward (write_utf tg ++ P)) -> d = P) /\
  (forall o m d, In (EResponse o m d) (run_sub all_fixed st req oracle SForwardToPlayer (write_utf tg ++ P)) -> d = P).
Proof.
  intros st req oracle tg ch body Ht Hc Hb P. split; [apply read_utf_write, Hc|]. split.
  - intros sv d H. cbn [run_sub] in H. rewrite read_utf_write in H by exact Ht.
    unfold P in H. rewrite prepare_forward_ok in H by assumption.
    destruct (eq_fold tg s_ALL || eq_fold tg s_ONLINE).
    + apply in_map_iff in H. destruct H as (x & Hx & _). now inversion Hx.
    + destruct (find_server (servers st) tg); [|contradiction]. destruct H as [H|[]]. now inversion H.
  - intros o m d H. cbn [run_sub] in H. rewrite read_utf_write in H by exact Ht.
    destruct (find_player (players st) tg); [|contradiction].
    unfold P in H. rewrite prepare_forward_ok in H by assumption.
    apply respond_in in H. tauto.
Qed.

(* history level: the forwarded bytes of every request of a history depend on that request only *)
Definition fwd_payload (r : bytes * bytes * bytes) : bytes :=
  let '(_, ch, body) := r in write_utf ch ++ write_u16 (N.of_nat (len body)) ++ body.
Definition fwd_request (r : bytes * bytes * bytes) : bytes :=
  let '(tg, _, _) := r in write_utf (sub_name SForward) ++ write_utf tg ++ fwd_payload r.
Definition fwd_ok (r : bytes * bytes * bytes) : Prop :=
  let '(tg, ch, body) := r in
  N.of_nat (len tg) < 65536 /\ N.of_nat (len ch) < 65536 /\ N.of_nat (len body) < 32768.

Lemma parse_sub_Forward : parse_sub (sub_name SForward) = SForward.
Proof. vm_compute. reflexivity. Qed.

Lemma forward_unchanged_history_proof : forall st req oracle rs,
  Forall fwd_ok rs ->
  Forall2 (fun r o => fst o = true /\ forall sv d, In (EForward sv d) (snd o) -> d = fwd_payload r)
          rs (model_history all_fixed st req oracle s_BungeeCord (map fwd_request rs)).
Proof.
  intros st req oracle rs H. unfold model_history. induction rs as [|r rs IH]; cbn [map]; constructor.
  - inversion H as [|? ? Hr _]; subst. destruct r as [[tg ch] body]. destruct Hr as (Ht & Hc & Hb).
    unfold model. change (eq_fold s_bungeecord_main s_BungeeCord || eq_fold s_BungeeCord s_BungeeCord) with true.
    cbn [fwd_request]. rewrite read_utf_write by (vm_compute; reflexivity).
    rewrite parse_sub_Forward. cbn [fst snd]. split; [reflexivity|].
    intros sv d Hin.
    destruct (forward_unchanged_proof st req oracle tg ch body Ht Hc Hb) as (_ & A & _).
    exact (A sv d Hin).
  - apply IH. inversion H; assumption.
Qed.

Definition forwarded_to (es : list effect) : list bytes :=
  flat_map (fun e => match e with EForward sv _ => [sv] | _ => [] end) es.

Lemma NoDup_map_filter {A B} (f : A -> B) (g : A -> bool) l : NoDup (map f l) -> NoDup (map f (filter g l)).
Proof.
  induction l as [|x l IH]; intro H; [constructor|]. cbn in *. inversion H as [|? ? Hn Hd]; subst.
  destruct (g x); cbn; auto. constructor; auto.
  intro Hin. apply Hn. apply in_map_iff in Hin. destruct Hin as (y & <- & Hy).
  apply filter_In in Hy. apply in_map, Hy.
Qed.

Lemma forwarded_to_map b (l : list server) :
  forwarded_to (map (fun sv => EForward (s_name sv) b) l) = map s_name l.
Proof. induction l; cbn; [reflexivity|]. f_equal. assumption. Qed.

Lemma one_per_server_proof : forall st req oracle a,
  NoDup (map s_name (servers st)) ->
  NoDup (forwarded_to (run_sub all_fixed st req oracle SForward a)).
Proof.
  intros st req oracle a H. cbn [run_sub].
  destruct (read_utf a) as [[tg r]|]; [|constructor].
  destruct (prepare_forward all_fixed r) eqn:E; cbn -[forwarded_to]; try (cbn; constructor).
  match goal with |- context [if ?c then _ else _] => destruct c end.
  - rewrite forwarded_to_map. apply NoDup_map_filter, H.
  - destruct (find_server (servers st) tg); cbn; repeat constructor. intros [].
Qed.

Lemma requester_server_skipped : forall st req oracle tg r sv d,
  read_utf tg = Some (s_ALL, r) ->
  In (EForward sv d) (run_sub all_fixed st req oracle SForward tg) -> p_server req <> Some sv.
Proof.
  intros st req oracle tg r sv d Hr H. cbn [run_sub] in H. rewrite Hr in H.
  destruct (prepare_forward all_fixed r); cbn in H; try contradiction;
    [destruct H as [H|[]]; discriminate|].
  apply in_map_iff in H. destruct H as (x & Hx & Hf). inversion Hx; subst.
  apply filter_In in Hf. destruct Hf as [_ Hf]. intro E. unfold cur_server_name in Hf. rewrite E in Hf.
  rewrite (proj2 (beq_bytes_eq _ _) eq_refl) in Hf. discriminate.
Qed.

(* ---------- player-targeted requests ---------- *)
Definition player_targeted (s : sub) : bool :=
  match s with
  | SForwardToPlayer | SConnectOther | SIPOther | SUUIDOther | SKickPlayer | SKickPlayerRaw | SGetPlayerServer => true
  | _ => false
  end.

Lemma unknown_player_no_effect : forall st req oracle s a pn r,
  player_targeted s = true -> read_utf a = Some (pn, r) -> find_player (players st) pn = None ->
  run_sub all_fixed st req oracle s a = [].
Proof.
  intros st req oracle s a pn r Hs Hr Hf.
  destruct s; try discriminate; cbn [run_sub response_fields]; rewrite Hr, Hf; reflexivity.
Qed.

Definition server_targeted (s : sub) : bool :=
  match s with SConnect | SServerIP => true | _ => false end.

Lemma unknown_server_no_effect : forall st req oracle s a sn r,
  server_targeted s = true -> read_utf a = Some (sn, r) -> find_server (servers st) sn = None ->
  run_sub all_fixed st req oracle s a = [].
Proof.
  intros st req oracle s a sn r Hs Hr Hf.
  destruct s; try discriminate; cbn [run_sub response_fields]; rewrite Hr, Hf; reflexivity.
Qed.

Lemma unknown_forward_target_no_effect : forall st req oracle a tg r,
  read_utf a = Some (tg, r) -> eq_fold tg s_ALL = false -> eq_fold tg s_ONLINE = false ->
  find_server (servers st) tg = None -> run_sub all_fixed st req oracle SForward a = [].
Proof.
  intros st req oracle a tg r Hr H1 H2 Hf. cbn [run_sub]. rewrite Hr, H1, H2, Hf. cbn.
  destruct (prepare_forward all_fixed r) eqn:E; try reflexivity.
  unfold prepare_forward in E. cbn in E.
  repeat match type of E with context [match ?x with _ => _ end] => destruct x; try discriminate end.
Qed.

Lemma targets_named_player_proof : forall st req oracle a pn r p,
  read_utf a = Some (pn, r) -> find_player (players st) pn = Some p ->
  (forall o m d, In (EResponse o m d) (run_sub all_fixed st req oracle SForwardToPlayer a) ->
     o = p_name p /\ m = p_modern p) /\
  (forall s e, s = SKickPlayer \/ s = SKickPlayerRaw -> In e (run_sub all_fixed st req oracle s a) ->
     e = EOracleMiss \/ exists t, e = EKick (p_name p) t) /\
  (forall e, In e (run_sub all_fixed st req oracle SConnectOther a) -> exists sv, e = EConnect (p_name p) sv) /\
  (forall fs, response_fields all_fixed st req SGetPlayerServer a = Some fs ->
     exists sn, p_server p = Some sn /\ fs = [FUtf (sub_name SGetPlayerServer); FUtf (p_name p); FUtf sn]) /\
  (forall fs, response_fields all_fixed st req SIPOther a = Some fs ->
     fs = [FUtf (sub_name SIPOther); FUtf (p_name p); FUtf (p_host p); FInt (p_port p)]) /\
  (forall fs, response_fields all_fixed st req SUUIDOther a = Some fs ->
     fs = [FUtf (sub_name SUUIDOther); FUtf (p_name p); FUtf (p_uuid p)]).
Proof.
  intros st req oracle a pn r p Hr Hf. repeat split.
  - cbn [run_sub] in H. rewrite Hr, Hf in H. destruct (prepare_forward all_fixed r); try contradiction;
      try (destruct H as [H|[]]; discriminate).
    apply respond_in in H. cbn in H. tauto.
  - cbn [run_sub] in H. rewrite Hr, Hf in H. destruct (prepare_forward all_fixed r); try contradiction;
      try (destruct H as [H|[]]; discriminate).
    apply respond_in in H. cbn in H. tauto.
  - intros s e Hs H. assert (E : run_sub all_fixed st req oracle s a = run_sub all_fixed st req oracle SKickPlayer a)
      by (destruct Hs; subst; reflexivity).
    rewrite E in H. cbn [run_sub] in H. rewrite Hr, Hf in H.
    destruct (read_utf r) as [[txt r']|]; [|contradiction].
    destruct (lookup oracle txt) as [[pl|]|]; destruct H as [H|[]]; subst; eauto.
  - intros e H. cbn [run_sub] in H. rewrite Hr, Hf in H.
    destruct (read_utf r) as [[sn r']|]; [|contradiction].
    destruct (find_server (servers st) sn); [|contradiction]. destruct H as [H|[]]; subst; eauto.
  - intros fs H. cbn [response_fields] in H. rewrite Hr, Hf in H. cbn in H.
    destruct (p_server req); [|discriminate]. destruct (p_server p) as [sn|]; [|discriminate].
    inversion H. eauto.
  - intros fs H. cbn [response_fields] in H. rewrite Hr, Hf in H. now inversion H.
  - intros fs H. cbn [response_fields] in H. rewrite Hr, Hf in H. now inversion H.
Qed.

Lemma message_targets_player : forall st req oracle s a e,
  s = SMessage \/ s = SMessageRaw -> In e (run_sub all_fixed st req oracle s a) ->
  e = EOracleMiss \/ (exists t, e = EMessage TAll t) \/
  (exists tg r p t, read_utf a = Some (tg, r) /\ find_player (players st) tg = Some p /\ e = EMessage (TPlayer (p_name p)) t).
Proof.
  intros st req oracle s a e Hs H.
  assert (E : run_sub all_fixed st req oracle s a = run_sub all_fixed st req oracle SMessage a)
    by (destruct Hs; subst; reflexivity).
  rewrite E in H. cbn [run_sub] in H.
  destruct (read_utf a) as [[tg r]|]; [|contradiction].
  destruct (read_utf r) as [[txt r']|]; [|contradiction].
  destruct (lookup oracle txt) as [[pl|]|]; try contradiction.
  - destruct (beq_bytes tg s_ALL); cbn in H.
    + destruct H as [H|[]]; subst. right; left; eauto.
    + destruct (find_player (players st) tg) as [p|] eqn:Ef; [|contradiction].
      destruct H as [H|[]]; subst. right; right. exists tg, r, p, pl. auto.
  - destruct H as [H|[]]; subst. auto.
Qed.

(* ---------- no crash ---------- *)
Lemma spec_never_panics : forall st req oracle s a, ~ In EPanic (run_sub all_fixed st req oracle s a).
Proof.
  intros st req oracle s a H.
  destruct s; cbn [run_sub response_fields] in H;
    repeat match type of H with
    | context [match ?x with _ => _ end] => destruct x eqn:?; cbn in H
    | _ \/ _ => destruct H as [H|H]
    end; try contradiction; try discriminate;
    try (apply in_map_iff in H; destruct H as (? & ? & _); discriminate);
    try (apply respond_in in H; tauto);
    try (unfold respond in H;
         repeat match type of H with
         | context [match ?x with _ => _ end] => destruct x; cbn in H
         | _ \/ _ => destruct H as [H|H]
         end; try contradiction; discriminate).
  all: match goal with E : prepare_forward all_fixed _ = FPanic |- _ =>
         unfold prepare_forward in E; cbn in E;
         repeat match type of E with context [match ?x with _ => _ end] => destruct x; try discriminate end
       end.
Qed.

(* ---------- today's code = spec outside the trigger classes ---------- *)
Lemma prepare_forward_flags F bs :
  well_formed_payload bs = true -> f1 F = true -> prepare_forward F bs = prepare_forward all_fixed bs.
Proof.
  unfold well_formed_payload, prepare_forward. cbn. intros H H1. rewrite H1.
  destruct (read_utf bs) as [[ch r1]|]; [|reflexivity].
  destruct (read_u16 r1) as [[l r2]|]; [|reflexivity].
  destruct (32768 <=? l); [discriminate|reflexivity].
Qed.

Lemma impl_eq_spec_off_trigger_proof : forall F st req oracle s a,
  trigger1 st s a = false -> trigger2 st s a = false -> trigger3 st s a = false ->
  trigger4 oracle s a = false -> trigger6 st s a = false ->
  run_sub F st req oracle s a = run_sub all_fixed st req oracle s a.
Proof.
  intros F st req oracle s a T1 T2 T3 T4 T6.
  destruct s; try reflexivity; cbn [run_sub response_fields trigger1 trigger2 trigger3 trigger4 trigger6] in *.
  - (* ForwardToPlayer *)
    destruct (read_utf a) as [[pn r]|]; [|reflexivity].
    destruct (find_player (players st) pn); [|reflexivity].
    destruct (well_formed_payload r); discriminate.
  - (* Forward *)
    destruct (read_utf a) as [[tg r]|]; [|reflexivity].
    destruct (well_formed_payload r); discriminate.
  - (* Message *)
    destruct (read_utf a) as [[tg r]|]; [|reflexivity].
    destruct (read_utf r) as [[txt r']|]; [|reflexivity].
    destruct (lookup oracle txt) as [[pl|]|]; try reflexivity.
    destruct (beq_bytes tg s_ALL); [reflexivity|discriminate].
  - (* MessageRaw *)
    destruct (read_utf a) as [[tg r]|]; [|reflexivity].
    destruct (read_utf r) as [[txt r']|]; [|reflexivity].
    destruct (lookup oracle txt) as [[pl|]|]; try reflexivity.
    destruct (beq_bytes tg s_ALL); [reflexivity|discriminate].
  - (* GetPlayerServer *)
    destruct (read_utf a) as [[pn r]|]; [|reflexivity].
    destruct (find_player (players st) pn); [discriminate|reflexivity].
Qed.

(* ---------- witnesses ---------- *)
Definition alice : player := mkP (tx "Alice") (tx "00000000000000000000000000000001") (tx "10.1.1.1") 50000 (Some (tx "lobby")) true.
Definition bob : player := mkP (tx "Bob") (tx "00000000000000000000000000000002") (tx "10.1.1.2") 50001 (Some (tx "games")) false.
Definition st0 : pstate := mkPS [alice; bob] [mkS (tx "lobby") (tx "10.0.0.1") 25565; mkS (tx "games") (tx "10.0.0.2") 25566].
Definition payload0 : bytes := write_utf (tx "MyChan") ++ write_u16 3 ++ [1; 2; 3].
Definition req_of (name : string) (args : bytes) : bytes := write_utf (tx name) ++ args.

(* k=1 (repaired by 8f84347; about the pre-fix variant model none_fixed):
   00 06 "MyChan" 00 03 01 02 03 was forwarded as "MyChan" 00 03 01 02 03; today's code agrees with the spec *)
Lemma refuted_1 :
  snd (model none_fixed st0 alice [] s_BungeeCord (req_of "Forward" (write_utf (tx "games") ++ payload0)))
    = [EForward (tx "games") (tx "MyChan" ++ write_u16 3 ++ [1; 2; 3])] /\
  snd (spec_bungee st0 alice [] s_BungeeCord (req_of "Forward" (write_utf (tx "games") ++ payload0)))
    = [EForward (tx "games") payload0] /\
  snd (impl_bungee st0 alice [] s_BungeeCord (req_of "Forward" (write_utf (tx "games") ++ payload0)))
    = [EForward (tx "games") payload0].
Proof. vm_compute. auto. Qed.

(* k=2: ForwardToPlayer Bob is answered on Alice's (the requester's) connection *)
Lemma refuted_2 :
  (exists d, snd (impl_bungee st0 alice [] s_BungeeCord (req_of "ForwardToPlayer" (write_utf (tx "Bob") ++ payload0)))
    = [EResponse (tx "Alice") true d]) /\
  snd (spec_bungee st0 alice [] s_BungeeCord (req_of "ForwardToPlayer" (write_utf (tx "Bob") ++ payload0)))
    = [EResponse (tx "Bob") false payload0].
Proof. split; [eexists|]; vm_compute; reflexivity. Qed.

(* k=3: GetPlayerServer Bob answers "lobby" (Alice's server); Bob is on "games" *)
Lemma refuted_3 :
  response_fields none_fixed st0 alice SGetPlayerServer (write_utf (tx "Bob")) =
    Some [FUtf (tx "GetPlayerServer"); FUtf (tx "Bob"); FUtf (tx "lobby")] /\
  response_fields all_fixed st0 alice SGetPlayerServer (write_utf (tx "Bob")) =
    Some [FUtf (tx "GetPlayerServer"); FUtf (tx "Bob"); FUtf (tx "games")].
Proof. vm_compute. auto. Qed.

(* k=4: Message Bob "hi" panics (no server called Bob); Message games "hi" goes to a whole server *)
Definition oracle_hi : list (bytes * option bytes) := [(tx "hi", Some (tx "hi"))].
Lemma refuted_4 :
  snd (impl_bungee st0 alice oracle_hi s_BungeeCord (req_of "Message" (write_utf (tx "Bob") ++ write_utf (tx "hi")))) = [EPanic] /\
  snd (spec_bungee st0 alice oracle_hi s_BungeeCord (req_of "Message" (write_utf (tx "Bob") ++ write_utf (tx "hi"))))
    = [EMessage (TPlayer (tx "Bob")) (tx "hi")] /\
  snd (impl_bungee st0 alice oracle_hi s_BungeeCord (req_of "Message" (write_utf (tx "games") ++ write_utf (tx "hi"))))
    = [EMessage (TServer (tx "games")) (tx "hi")].
Proof. vm_compute. auto. Qed.

(* k=6 (repaired by 37918de; about the pre-fix variant): announced length ff ff (-1 as int16) panicked, a body
   shorter than announced broadcast an empty payload; today's code ignores both like the spec *)
Lemma refuted_6 :
  snd (model none_fixed st0 alice [] s_BungeeCord
         (req_of "Forward" (write_utf (tx "games") ++ write_utf (tx "MyChan") ++ [255; 255]))) = [EPanic] /\
  snd (model none_fixed st0 alice [] s_BungeeCord
         (req_of "Forward" (write_utf (tx "games") ++ write_utf (tx "MyChan") ++ [0; 9; 1]))) = [EForward (tx "games") []] /\
  snd (spec_bungee st0 alice [] s_BungeeCord
         (req_of "Forward" (write_utf (tx "games") ++ write_utf (tx "MyChan") ++ [255; 255]))) = [] /\
  snd (impl_bungee st0 alice [] s_BungeeCord
         (req_of "Forward" (write_utf (tx "games") ++ write_utf (tx "MyChan") ++ [255; 255]))) = [] /\
  snd (impl_bungee st0 alice [] s_BungeeCord
         (req_of "Forward" (write_utf (tx "games") ++ write_utf (tx "MyChan") ++ [0; 9; 1]))) = [].
Proof. vm_compute. auto. Qed.

(* a full decode of a concrete answer with DataInput primitives *)
Lemma nonvacuous_ip :
  exists d, snd (spec_bungee st0 alice [] s_bungeecord_main (req_of "IP" [])) = [EResponse (tx "Alice") true d] /\
    decode [KUtf; KUtf; KInt] d = Some [FUtf (tx "IP"); FUtf (tx "10.1.1.1"); FInt 50000].
Proof. eexists. split; vm_compute; reflexivity. Qed.

Lemma nonvacuous_forward_all :
  snd (spec_bungee st0 alice [] s_BungeeCord (req_of "Forward" (write_utf s_ALL ++ payload0))) = [EForward (tx "games") payload0].
Proof. vm_compute. reflexivity. Qed.

(* k=5 (adapter layer): Forward games lands on the CLIENT connection of every player of "games",
   nothing reaches the backend; one copy on a backend connection of that server is what is demanded *)
Lemma refuted_5 :
  impl_adapter current st0 alice (tx "games") payload0 = [mkW (tx "Bob") true s_BungeeCord payload0] /\
  holds_adapter st0 alice (tx "games") payload0 (impl_adapter current st0 alice (tx "games") payload0) = false /\
  holds_adapter st0 alice (tx "games") payload0 [mkW (tx "Bob") false s_BungeeCord payload0] = true.
Proof. vm_compute. auto. Qed.

(* the adapter predicate really demands one copy per addressed server: with two players on "games" two
   backend copies are rejected as well *)
Definition carol : player := mkP (tx "Carol") (tx "00000000000000000000000000000003") (tx "10.1.1.3") 50002 (Some (tx "games")) true.
Definition st1 : pstate := mkPS [alice; bob; carol] (servers st0).
Lemma adapter_once_per_server :
  holds_adapter st1 alice s_ALL payload0 [mkW (tx "Carol") false s_bungeecord_main payload0] = true /\
  holds_adapter st1 alice s_ALL payload0
    [mkW (tx "Bob") false s_BungeeCord payload0; mkW (tx "Carol") false s_bungeecord_main payload0] = false /\
  holds_adapter st1 alice s_ALL payload0 [] = false.
Proof. vm_compute. auto. Qed.
