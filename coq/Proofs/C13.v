(* C13 — proofs about Model/LoginInbound.v (under construction) *)
From Coq Require Import List ZArith NArith Bool Arith Lia.
From Verif Require Import Base.Conc Model.LoginInbound.
Import ListNotations.
