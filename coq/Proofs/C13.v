(* C13 — proofs about Model/LoginInbound.v. *)
From Coq Require Import List ZArith NArith Bool Arith Lia.
From Verif Require Import Base.Conc Model.LoginInbound.
Import ListNotations.

(* ---------- lists ---------- *)

Definition sumf {A} (w : A -> nat) (l : list A) : nat := fold_right (fun a n => w a + n) 0 l.

Lemma sumf_app {A} (w : A -> nat) l1 l2 : sumf w (l1 ++ l2) = sumf w l1 + sumf w l2.
Proof. induction l1; simpl; lia. Qed.

Lemma sumf_filter {A} (p : A -> bool) l : sumf (fun a => if p a then 1 else 0) l = length (filter p l).
Proof. induction l as [|a l IH]; simpl; auto. destruct (p a); simpl; lia. Qed.

Lemma sumf_upd {A} (w : A -> nat) (l : list A) r x d :
  w d = 0 ->
  sumf w (upd l r x) + w (nth r l d) <= sumf w l + w x.
Proof.
  intros Hd. revert r. induction l as [|a l IH]; intros [|r]; simpl; try lia.
  specialize (IH r). lia.
Qed.

Lemma in_upd {A} (l : list A) r x y : In y (upd l r x) -> y = x \/ In y l.
Proof.
  revert r. induction l as [|a l IH]; intros [|r]; simpl; auto.
  - intros [<-|H]; auto.
  - intros [<-|H]; auto. destruct (IH _ H); auto.
Qed.

(* ---------- the map ---------- *)

Lemma mfind_mremove_same id m : mfind id (mremove id m) = None.
Proof.
  induction m as [|[i k] r IH]; simpl; auto.
  destruct (Z.eqb id i) eqn:E; auto. simpl. now rewrite E.
Qed.

Lemma mfind_mremove_other id id' m : id <> id' -> mfind id' (mremove id m) = mfind id' m.
Proof.
  intros Hn. induction m as [|[i k] r IH]; simpl; auto.
  destruct (Z.eqb_spec id i) as [->|Hi].
  - rewrite IH. destruct (Z.eqb_spec id' i); congruence.
  - simpl. now rewrite IH.
Qed.

Lemma mfind_mset_same id k m : mfind id (mset id k m) = Some k.
Proof. unfold mset. simpl. now rewrite Z.eqb_refl. Qed.

Lemma mfind_mset_other id id' k m : id <> id' -> mfind id' (mset id k m) = mfind id' m.
Proof.
  intros Hn. unfold mset. simpl. destruct (Z.eqb_spec id' id); [congruence|].
  now apply mfind_mremove_other.
Qed.

(* ---------- accounting ---------- *)

Definition w_tok (id : Z) (l : rlocal) : nat :=
  match l_tok l with Some (i, _, _) => if Z.eqb id i then 1 else 0 | None => 0 end.
Definition tokens (id : Z) (s : state) : nat := sumf (w_tok id) (locals s).
Definition inmap (id : Z) (s : state) : nat :=
  match mfind id (outstanding s) with Some _ => 1 | None => 0 end.
Definition w_cb (l : rlocal) : nat := if l_cb l then 1 else 0.
Definition cbtokens (s : state) : nat := sumf w_cb (locals s).
Definition onall1 (s : state) : nat := if on_all s then 1 else 0.

Definition w_cons (id : Z) (e : event) : nat :=
  match e with ECons i _ _ => if Z.eqb id i then 1 else 0 | _ => 0 end.
Definition w_reg (id : Z) (e : event) : nat :=
  match e with EReg i _ => if Z.eqb id i then 1 else 0 | _ => 0 end.
Definition w_compl (e : event) : nat := match e with ECompletion => 1 | _ => 0 end.
Definition w_fire (e : event) : nat := match e with EFire => 1 | _ => 0 end.

Lemma count_cons_sum id evs : count_cons id evs = sumf (w_cons id) evs.
Proof.
  unfold count_cons. rewrite <- sumf_filter. induction evs as [|e l IH]; simpl; auto.
  rewrite IH. destruct e; simpl; auto.
Qed.
Lemma count_reg_sum id evs : count_reg id evs = sumf (w_reg id) evs.
Proof.
  unfold count_reg. rewrite <- sumf_filter. induction evs as [|e l IH]; simpl; auto.
  rewrite IH. destruct e; simpl; auto.
Qed.
Lemma count_completion_sum evs : count_completion evs = sumf w_compl evs.
Proof.
  unfold count_completion. rewrite <- sumf_filter. induction evs as [|e l IH]; simpl; auto.
  rewrite IH. destruct e; simpl; auto.
Qed.
Lemma count_fire_sum evs : count_fire evs = sumf w_fire evs.
Proof.
  unfold count_fire. rewrite <- sumf_filter. induction evs as [|e l IH]; simpl; auto.
  rewrite IH. destruct e; simpl; auto.
Qed.

(* every invocation, every consumer taken out of the map and not yet invoked, and every map entry
   for id is paid for by a registration under id *)
Definition acc_cons (s : state) (evs : list event) : Prop :=
  forall id, sumf (w_cons id) evs + tokens id s + inmap id s <= sumf (w_reg id) evs.

(* Impl: every completion, every callback taken and not yet run, and the stored callback is paid
   for by a fire *)
Definition acc_compl (s : state) (evs : list event) : Prop :=
  sumf w_compl evs + cbtokens s + onall1 s <= sumf w_fire evs.

Inductive is_action (v : variant) : (state -> state * list event) -> Prop :=
| IA_alloc r : is_action v (s_alloc r)
| IA_register r k d : is_action v (s_register r k d)
| IA_write r d : is_action v (s_write r d)
| IA_lookup r id a : is_action v (r_lookup r id a)
| IA_consume r : is_action v (r_consume r)
| IA_check r : is_action v (r_check v r)
| IA_complete r : is_action v (r_complete r)
| IA_fire r : is_action v (f_fire v r)
| IA_flush r : is_action v (f_flush r)
| IA_clear : is_action v a_clear.

Lemma w_tok_local0 id : w_tok id local0 = 0. Proof. reflexivity. Qed.
Lemma w_cb_local0 : w_cb local0 = 0. Proof. reflexivity. Qed.

Lemma tokens_set_local id s r x :
  tokens id (set_local s r x) + w_tok id (get_local s r) <= tokens id s + w_tok id x.
Proof. unfold tokens, set_local, get_local; simpl. apply sumf_upd. apply w_tok_local0. Qed.

Lemma cbtokens_set_local s r x :
  cbtokens (set_local s r x) + w_cb (get_local s r) <= cbtokens s + w_cb x.
Proof. unfold cbtokens, set_local, get_local; simpl. apply sumf_upd. apply w_cb_local0. Qed.

(* the sends a consumer makes from inside keep the accounting *)
Lemma send_now_acc k d s evs :
  acc_cons s evs -> acc_cons (fst (send_now k d s)) (evs ++ snd (send_now k d s)).
Proof.
  intros H id. specialize (H id). unfold send_now, register_core. cbn -[mset mfind Z.add].
  rewrite !sumf_app.
  set (nid := (seqc s + 1)%Z).
  assert (Hev : sumf (w_cons id) (EReg nid k :: (if fired s then [EMsg nid d] else [])) = 0)
    by (destruct (fired s); reflexivity).
  assert (Hreg : sumf (w_reg id) (EReg nid k :: (if fired s then [EMsg nid d] else []))
                 = if Z.eqb id nid then 1 else 0)
    by (destruct (fired s); simpl; lia).
  rewrite Hev, Hreg. unfold inmap in *. cbn -[mset mfind Z.add].
  change (tokens id {| seqc := nid; outstanding := mset nid k (outstanding s);
                       queue := if fired s then queue s else queue s ++ [(nid, d)];
                       fired := fired s; on_all := on_all s; proto_ok := proto_ok s;
                       locals := locals s |}) with (tokens id s).
  unfold tokens, sumf in *.
  destruct (Z.eqb_spec id nid) as [->|Hn].
  - rewrite mfind_mset_same. destruct (mfind nid (outstanding s)); lia.
  - rewrite mfind_mset_other by congruence. lia.
Qed.

Lemma send_more_acc n tag s evs :
  acc_cons s evs -> acc_cons (fst (send_more n tag s)) (evs ++ snd (send_more n tag s)).
Proof.
  revert tag s evs. induction n as [|n IH]; intros tag s evs H.
  - simpl. now rewrite app_nil_r.
  - cbn [send_more].
    pose proof (send_now_acc (CPlain (tag + 1)) [N.succ tag] s evs H) as H1.
    destruct (send_now (CPlain (tag + 1)) [N.succ tag] s) as [s1 e1]. cbn [fst snd] in H1.
    specialize (IH (tag + 1)%N s1 (evs ++ e1) H1).
    destruct (send_more n (tag + 1) s1) as [s2 e2]. cbn [fst snd] in *.
    now rewrite app_assoc.
Qed.

(* locals are untouched by sends from inside a consumer *)
Lemma send_now_locals k d s : locals (fst (send_now k d s)) = locals s.
Proof. reflexivity. Qed.
Lemma send_more_locals n tag s : locals (fst (send_more n tag s)) = locals s.
Proof.
  revert tag s. induction n as [|n IH]; intros tag s; [reflexivity|].
  cbn [send_more].
  pose proof (send_now_locals (CPlain (tag + 1)) [N.succ tag] s) as E1.
  destruct (send_now (CPlain (tag + 1)) [N.succ tag] s) as [s1 e1]. cbn [fst] in E1.
  specialize (IH (tag + 1)%N s1). destruct (send_more n (tag + 1) s1) as [s2 e2]. cbn [fst] in *.
  congruence.
Qed.

Lemma sumf_msgs (w : event -> nat) (ms : list (Z * body)) :
  (forall i d, w (EMsg i d) = 0) -> sumf w (map (fun m => EMsg (fst m) (snd m)) ms) = 0.
Proof. intros H. induction ms as [|m ms IH]; simpl; auto. now rewrite H, IH. Qed.

Lemma step_acc_cons v a s evs :
  is_action v a -> acc_cons s evs -> acc_cons (fst (a s)) (evs ++ snd (a s)).
Proof.
  intros Ha Hacc. destruct Ha.
  - (* alloc *)
    intros id. specialize (Hacc id). unfold s_alloc. cbn -[mset mfind mremove Z.add tokens inmap]. rewrite !sumf_app. cbn -[mset mfind mremove Z.add tokens inmap].
    set (l := get_local s r).
    pose proof (tokens_set_local id
      (mkSt (seqc s + 1) (outstanding s) (queue s) (fired s) (on_all s) (proto_ok s) (locals s)) r
      (mkLocal (seqc s + 1) (l_fired l) (l_tok l) (l_hit l) (l_done l) (l_cb l) (l_msgs l))) as H1.
    change (get_local (mkSt (seqc s + 1) (outstanding s) (queue s) (fired s) (on_all s) (proto_ok s)
                            (locals s)) r) with l in H1.
    change (tokens id (mkSt (seqc s + 1) (outstanding s) (queue s) (fired s) (on_all s) (proto_ok s)
                            (locals s))) with (tokens id s) in H1.
    assert (E : w_tok id (mkLocal (seqc s + 1) (l_fired l) (l_tok l) (l_hit l) (l_done l) (l_cb l) (l_msgs l))
                = w_tok id l) by reflexivity.
    rewrite E in H1. unfold inmap in *. cbn -[mset mfind mremove Z.add tokens]. lia.
  - (* register *)
    intros id. specialize (Hacc id). unfold s_register, register_core. cbn -[mset mfind mremove Z.add tokens inmap]. rewrite !sumf_app. cbn -[mset mfind mremove Z.add tokens inmap].
    set (l := get_local s r).
    set (s1 := mkSt (seqc s) (mset (l_id l) k (outstanding s))
                    (if fired s then queue s else queue s ++ [(l_id l, d)])
                    (fired s) (on_all s) (proto_ok s) (locals s)).
    pose proof (tokens_set_local id s1 r
      (mkLocal (l_id l) (fired s) (l_tok l) (l_hit l) (l_done l) (l_cb l) (l_msgs l))) as H1.
    change (get_local s1 r) with l in H1.
    change (tokens id s1) with (tokens id s) in H1.
    assert (E : w_tok id (mkLocal (l_id l) (fired s) (l_tok l) (l_hit l) (l_done l) (l_cb l) (l_msgs l))
                = w_tok id l) by reflexivity.
    rewrite E in H1. unfold inmap in *. cbn -[mset mfind mremove Z.add tokens].
    destruct (Z.eqb_spec id (l_id l)) as [->|Hn].
    + rewrite mfind_mset_same. destruct (mfind (l_id l) (outstanding s)); lia.
    + rewrite mfind_mset_other by congruence. lia.
  - (* write *)
    intros id. specialize (Hacc id). unfold s_write. cbn -[mset mfind mremove Z.add tokens inmap]. rewrite !sumf_app.
    destruct (l_fired (get_local s r)); cbn -[mset mfind mremove Z.add tokens inmap]; lia.
  - (* lookup *)
    intros id0. specialize (Hacc id0). unfold r_lookup.
    set (l := get_local s r).
    destruct (mfind id (outstanding s)) as [k|] eqn:Hf; cbn -[mset mfind mremove Z.add tokens inmap]; rewrite !sumf_app; cbn -[mset mfind mremove Z.add tokens inmap].
    + set (s1 := mkSt (seqc s) (mremove id (outstanding s)) (queue s) (fired s) (on_all s) (proto_ok s) (locals s)).
      pose proof (tokens_set_local id0 s1 r
        (mkLocal (l_id l) (l_fired l) (Some (id, k, a)) true false false (l_msgs l))) as H1.
      change (get_local s1 r) with l in H1. change (tokens id0 s1) with (tokens id0 s) in H1.
      unfold w_tok at 2 in H1. simpl in H1. unfold inmap in *. cbn -[mset mfind mremove Z.add tokens].
      destruct (Z.eqb_spec id0 id) as [->|Hn].
      * rewrite mfind_mremove_same. rewrite Hf in Hacc. lia.
      * rewrite mfind_mremove_other by congruence. lia.
    + pose proof (tokens_set_local id0 s r
        (mkLocal (l_id l) (l_fired l) None false false false (l_msgs l))) as H1.
      fold l in H1. unfold w_tok at 2 in H1. simpl in H1. unfold inmap in *. cbn -[mset mfind mremove Z.add tokens]. lia.
  - (* consume *)
    unfold r_consume. set (l := get_local s r).
    destruct (l_tok l) as [[[id k] a]|] eqn:Ht; [|simpl; now rewrite app_nil_r].
    set (s0 := set_local s r (mkLocal (l_id l) (l_fired l) None (l_hit l) (l_done l) (l_cb l) (l_msgs l))).
    (* the token becomes the invocation *)
    assert (H0 : acc_cons s0 (evs ++ [ECons id k a])).
    { intros id0. specialize (Hacc id0). rewrite sumf_app. cbn -[mset mfind mremove Z.add tokens inmap].
      pose proof (tokens_set_local id0 s r
        (mkLocal (l_id l) (l_fired l) None (l_hit l) (l_done l) (l_cb l) (l_msgs l))) as H1.
      fold l in H1. unfold w_tok at 2 in H1. simpl in H1.
      assert (E : w_tok id0 l = if Z.eqb id0 id then 1 else 0) by (unfold w_tok; now rewrite Ht).
      rewrite E in H1. rewrite sumf_app. cbn -[mset mfind mremove Z.add tokens inmap].
      change (inmap id0 s0) with (inmap id0 s). fold s0 in H1. lia. }
    destruct k as [tag|tag n|bid|tag]; cbn -[mset mfind mremove Z.add tokens inmap]; [|..|exact H0].
    + exact H0.
    + pose proof (send_more_acc n tag s0 _ H0) as H2.
      destruct (send_more n tag s0) as [s1 e1]. cbn [fst snd] in *.
      now rewrite <- app_assoc in H2.
    + intros id0. specialize (H0 id0). rewrite !sumf_app in *. cbn -[tokens inmap] in *. lia.
  - (* check *)
    intros id. specialize (Hacc id). unfold r_check. set (l := get_local s r).
    destruct (l_hit l); cbn -[mset mfind mremove Z.add tokens inmap]; rewrite !sumf_app; cbn -[mset mfind mremove Z.add tokens inmap]; [|lia].
    set (on' := match v with Prefix => on_all s
                | Impl => if match outstanding s with [] => true | _ => false end then false else on_all s end).
    set (s1 := mkSt (seqc s) (outstanding s) (queue s) (fired s) on' (proto_ok s) (locals s)).
    set (x := mkLocal (l_id l) (l_fired l) (l_tok l) true
                      match outstanding s with [] => true | _ => false end
                      (match outstanding s with [] => true | _ => false end && on_all s) (l_msgs l)).
    pose proof (tokens_set_local id s1 r x) as H1.
    change (get_local s1 r) with l in H1. change (tokens id s1) with (tokens id s) in H1.
    assert (E : w_tok id x = w_tok id l) by reflexivity. rewrite E in H1.
    change (inmap id (set_local s1 r x)) with (inmap id s). lia.
  - (* complete *)
    intros id. specialize (Hacc id). unfold r_complete. set (l := get_local s r).
    destruct (l_hit l && l_done l && l_cb l); cbn -[mset mfind mremove Z.add tokens inmap]; rewrite !sumf_app; cbn -[mset mfind mremove Z.add tokens inmap]; [|lia].
    set (x := mkLocal (l_id l) (l_fired l) (l_tok l) false false false (l_msgs l)).
    pose proof (tokens_set_local id s r x) as H1. fold l in H1.
    assert (E : w_tok id x = w_tok id l) by reflexivity. rewrite E in H1.
    change (inmap id (set_local s r x)) with (inmap id s). lia.
  - (* fire *)
    intros id. specialize (Hacc id). unfold f_fire. set (l := get_local s r).
    cbn -[mset mfind mremove Z.add tokens inmap]. rewrite !sumf_app. cbn -[mset mfind mremove Z.add tokens inmap].
    set (on' := match v with Prefix => true | Impl => negb match queue s with [] => true | _ => false end end).
    set (s1 := mkSt (seqc s) (outstanding s) [] true on' (proto_ok s) (locals s)).
    set (x := mkLocal (l_id l) (l_fired l) (l_tok l) false false
                      match queue s with [] => true | _ => false end (queue s)).
    pose proof (tokens_set_local id s1 r x) as H1.
    change (get_local s1 r) with l in H1. change (tokens id s1) with (tokens id s) in H1.
    assert (E : w_tok id x = w_tok id l) by reflexivity. rewrite E in H1.
    change (inmap id (set_local s1 r x)) with (inmap id s). lia.
  - (* flush *)
    intros id. specialize (Hacc id). unfold f_flush. set (l := get_local s r).
    set (x := mkLocal (l_id l) (l_fired l) (l_tok l) (l_hit l) (l_done l) false []).
    pose proof (tokens_set_local id s r x) as H1. fold l in H1.
    assert (E : w_tok id x = w_tok id l) by reflexivity. rewrite E in H1.
    assert (Hm : forall ms, sumf (w_cons id) (map (fun m => EMsg (fst m) (snd m)) ms ++ [EFlush]) = 0
                         /\ sumf (w_reg id) (map (fun m => EMsg (fst m) (snd m)) ms ++ [EFlush]) = 0).
    { intros ms. rewrite !sumf_app, !sumf_msgs by reflexivity. split; reflexivity. }
    destruct (l_msgs l) as [|m ms] eqn:Em.
    + destruct (l_cb l); cbn -[mset mfind mremove Z.add tokens inmap]; rewrite !sumf_app; cbn -[mset mfind mremove Z.add tokens inmap]; [|lia].
      change (inmap id (set_local s r x)) with (inmap id s). lia.
    + destruct (Hm (m :: ms)) as [Hc Hr]. cbn [fst snd].
      rewrite (sumf_app (w_cons id) evs), (sumf_app (w_reg id) evs), Hc, Hr.
      change (inmap id (set_local s r x)) with (inmap id s). lia.
  - (* clear *)
    intros id. specialize (Hacc id). unfold a_clear. cbn -[mset mfind mremove Z.add tokens inmap]. rewrite !sumf_app. cbn -[mset mfind mremove Z.add tokens inmap].
    change (tokens id (mkSt (seqc s) (outstanding s) (queue s) (fired s) false (proto_ok s) (locals s)))
      with (tokens id s).
    change (inmap id (mkSt (seqc s) (outstanding s) (queue s) (fired s) false (proto_ok s) (locals s)))
      with (inmap id s). lia.
Qed.

(* ---------- the completion callback runs at most once per fire (Impl = the code as it is) ---------- *)

Lemma send_more_on_all n tag s : on_all (fst (send_more n tag s)) = on_all s.
Proof.
  revert tag s. induction n as [|n IH]; intros tag s; [reflexivity|].
  cbn [send_more].
  assert (E1 : on_all (fst (send_now (CPlain (tag + 1)) [N.succ tag] s)) = on_all s) by reflexivity.
  destruct (send_now (CPlain (tag + 1)) [N.succ tag] s) as [s1 e1]. cbn [fst] in E1.
  specialize (IH (tag + 1)%N s1). destruct (send_more n (tag + 1) s1) as [s2 e2]. cbn [fst] in *.
  congruence.
Qed.

Lemma send_more_no_compl n tag s :
  sumf w_compl (snd (send_more n tag s)) = 0 /\ sumf w_fire (snd (send_more n tag s)) = 0.
Proof.
  revert tag s. induction n as [|n IH]; intros tag s; [split; reflexivity|].
  cbn [send_more].
  assert (E1 : sumf w_compl (snd (send_now (CPlain (tag + 1)) [N.succ tag] s)) = 0
               /\ sumf w_fire (snd (send_now (CPlain (tag + 1)) [N.succ tag] s)) = 0).
  { unfold send_now, register_core. cbn -[mset Z.add]. destruct (fired s); split; reflexivity. }
  destruct (send_now (CPlain (tag + 1)) [N.succ tag] s) as [s1 e1]. cbn [snd] in E1.
  specialize (IH (tag + 1)%N s1). destruct (send_more n (tag + 1) s1) as [s2 e2]. cbn [snd] in *.
  rewrite !sumf_app. lia.
Qed.

Lemma step_acc_compl a s evs :
  is_action Impl a -> acc_compl s evs -> acc_compl (fst (a s)) (evs ++ snd (a s)).
Proof.
  unfold acc_compl. intros Ha Hacc. rewrite !sumf_app. destruct Ha.
  - (* alloc *)
    unfold s_alloc. cbn -[Z.add cbtokens onall1]. set (l := get_local s r).
    set (s1 := mkSt (seqc s + 1) (outstanding s) (queue s) (fired s) (on_all s) (proto_ok s) (locals s)).
    set (x := mkLocal (seqc s + 1) (l_fired l) (l_tok l) (l_hit l) (l_done l) (l_cb l) (l_msgs l)).
    pose proof (cbtokens_set_local s1 r x) as H1.
    change (get_local s1 r) with l in H1. change (cbtokens s1) with (cbtokens s) in H1.
    change (w_cb x) with (w_cb l) in H1. change (onall1 (set_local s1 r x)) with (onall1 s). lia.
  - (* register *)
    unfold s_register, register_core. cbn -[mset cbtokens onall1]. set (l := get_local s r).
    set (s1 := mkSt (seqc s) (mset (l_id l) k (outstanding s))
                    (if fired s then queue s else queue s ++ [(l_id l, d)])
                    (fired s) (on_all s) (proto_ok s) (locals s)).
    set (x := mkLocal (l_id l) (fired s) (l_tok l) (l_hit l) (l_done l) (l_cb l) (l_msgs l)).
    pose proof (cbtokens_set_local s1 r x) as H1.
    change (get_local s1 r) with l in H1. change (cbtokens s1) with (cbtokens s) in H1.
    change (w_cb x) with (w_cb l) in H1. change (onall1 (set_local s1 r x)) with (onall1 s). lia.
  - (* write *)
    unfold s_write. cbn -[cbtokens onall1]. destruct (l_fired (get_local s r)); simpl; lia.
  - (* lookup *)
    unfold r_lookup. set (l := get_local s r).
    destruct (mfind id (outstanding s)) as [k|]; cbn -[mremove cbtokens onall1].
    + set (s1 := mkSt (seqc s) (mremove id (outstanding s)) (queue s) (fired s) (on_all s) (proto_ok s) (locals s)).
      set (x := mkLocal (l_id l) (l_fired l) (Some (id, k, a)) true false false (l_msgs l)).
      pose proof (cbtokens_set_local s1 r x) as H1.
      change (get_local s1 r) with l in H1. change (cbtokens s1) with (cbtokens s) in H1.
      change (w_cb x) with 0 in H1. change (onall1 (set_local s1 r x)) with (onall1 s). lia.
    + set (x := mkLocal (l_id l) (l_fired l) None false false false (l_msgs l)).
      pose proof (cbtokens_set_local s r x) as H1. fold l in H1.
      change (w_cb x) with 0 in H1. change (onall1 (set_local s r x)) with (onall1 s). lia.
  - (* consume *)
    unfold r_consume. set (l := get_local s r).
    destruct (l_tok l) as [[[id k] a]|]; [|simpl; lia].
    set (x := mkLocal (l_id l) (l_fired l) None (l_hit l) (l_done l) (l_cb l) (l_msgs l)).
    set (s0 := set_local s r x).
    pose proof (cbtokens_set_local s r x) as H1. fold l in H1. change (w_cb x) with (w_cb l) in H1.
    fold s0 in H1.
    destruct k as [tag|tag n|bid|tag]; cbn -[cbtokens onall1 send_more];
      [|..|change (onall1 s0) with (onall1 s); lia].
    + change (onall1 s0) with (onall1 s). lia.
    + pose proof (send_more_locals n tag s0) as HL. pose proof (send_more_on_all n tag s0) as HO.
      destruct (send_more_no_compl n tag s0) as [HC HF].
      destruct (send_more n tag s0) as [s1 e1]. cbn [fst snd] in *.
      assert (Ecb : cbtokens s1 = cbtokens s0) by (unfold cbtokens; now rewrite HL).
      assert (Eon : onall1 s1 = onall1 s) by (unfold onall1; now rewrite HO).
      rewrite Ecb, Eon.
      change (sumf w_compl (ECons id (CSendMore tag n) a :: e1)) with (sumf w_compl e1).
      change (sumf w_fire (ECons id (CSendMore tag n) a :: e1)) with (sumf w_fire e1). lia.
    + change (onall1 s0) with (onall1 s). lia.
  - (* check: the callback moves from the struct to the call that will run it *)
    unfold r_check. set (l := get_local s r).
    destruct (l_hit l); cbn -[cbtokens onall1]; [|lia].
    set (done := match outstanding s with [] => true | _ => false end).
    set (s1 := mkSt (seqc s) (outstanding s) (queue s) (fired s) (if done then false else on_all s)
                    (proto_ok s) (locals s)).
    set (x := mkLocal (l_id l) (l_fired l) (l_tok l) true done (done && on_all s) (l_msgs l)).
    pose proof (cbtokens_set_local s1 r x) as H1.
    change (get_local s1 r) with l in H1. change (cbtokens s1) with (cbtokens s) in H1.
    assert (E : w_cb x + onall1 (set_local s1 r x) = onall1 s).
    { unfold w_cb, onall1. simpl. destruct done, (on_all s); reflexivity. }
    lia.
  - (* complete *)
    unfold r_complete. set (l := get_local s r).
    destruct (l_hit l && l_done l && l_cb l) eqn:Ec; cbn -[cbtokens onall1]; [|lia].
    apply andb_true_iff in Ec. destruct Ec as [_ Ecb].
    set (x := mkLocal (l_id l) (l_fired l) (l_tok l) false false false (l_msgs l)).
    pose proof (cbtokens_set_local s r x) as H1. fold l in H1.
    change (w_cb x) with 0 in H1. unfold w_cb in H1. rewrite Ecb in H1.
    change (onall1 (set_local s r x)) with (onall1 s). lia.
  - (* fire *)
    unfold f_fire. set (l := get_local s r). cbn -[cbtokens onall1].
    set (empty := match queue s with [] => true | _ => false end).
    set (s1 := mkSt (seqc s) (outstanding s) [] true (negb empty) (proto_ok s) (locals s)).
    set (x := mkLocal (l_id l) (l_fired l) (l_tok l) false false empty (queue s)).
    pose proof (cbtokens_set_local s1 r x) as H1.
    change (get_local s1 r) with l in H1. change (cbtokens s1) with (cbtokens s) in H1.
    assert (E : w_cb x + onall1 (set_local s1 r x) = 1).
    { unfold w_cb, onall1. simpl. destruct empty; reflexivity. }
    lia.
  - (* flush *)
    unfold f_flush. set (l := get_local s r).
    set (x := mkLocal (l_id l) (l_fired l) (l_tok l) (l_hit l) (l_done l) false []).
    pose proof (cbtokens_set_local s r x) as H1. fold l in H1. change (w_cb x) with 0 in H1.
    destruct (l_msgs l) as [|m ms].
    + destruct (l_cb l) eqn:Ecb; cbn -[cbtokens onall1]; [|lia].
      unfold w_cb in H1. rewrite Ecb in H1. change (onall1 (set_local s r x)) with (onall1 s). lia.
    + cbn [fst snd]. rewrite !sumf_app, !sumf_msgs by reflexivity.
      change (onall1 (set_local s r x)) with (onall1 s). simpl. lia.
  - (* clear *)
    unfold a_clear. cbn -[cbtokens onall1].
    change (cbtokens (mkSt (seqc s) (outstanding s) (queue s) (fired s) false (proto_ok s) (locals s)))
      with (cbtokens s).
    unfold onall1 at 1. simpl. lia.
Qed.

(* ---------- id correlation: who is invoked, and with what ---------- *)

Definition tokJ (t : option (Z * consumer * arg)) (evs : list event) : Prop :=
  match t with
  | None => True
  | Some (id, k, a) => In (EReg id k) evs /\ In (EResp id a) evs
  end.

Definition justified (s : state) (evs : list event) : Prop :=
  (forall id k, mfind id (outstanding s) = Some k -> In (EReg id k) evs)
  /\ (forall l, In l (locals s) -> tokJ (l_tok l) evs)
  /\ (forall id k a, In (ECons id k a) evs -> In (EReg id k) evs /\ In (EResp id a) evs)
  /\ (forall id bid a, In (EBackend id bid a) evs -> In (EReg id (CRelay bid)) evs /\ In (EResp id a) evs).

Lemma tokJ_mono t evs ev : tokJ t evs -> tokJ t (evs ++ ev).
Proof. destruct t as [[[id k] a]|]; simpl; auto. intros [H1 H2]. split; apply in_or_app; auto. Qed.

Lemma mfind_mremove_incl id id' m k : mfind id' (mremove id m) = Some k -> mfind id' m = Some k.
Proof.
  destruct (Z.eq_dec id id') as [->|Hn].
  - now rewrite mfind_mremove_same.
  - now rewrite mfind_mremove_other.
Qed.

Lemma get_local_tokJ s r evs :
  (forall l, In l (locals s) -> tokJ (l_tok l) evs) -> tokJ (l_tok (get_local s r)) evs.
Proof.
  intros H. unfold get_local. destruct (nth_in_or_default r (locals s) local0) as [Hin|E].
  - now apply H.
  - rewrite E. exact I.
Qed.

Lemma locals_set_local_tokJ s r x evs :
  (forall l, In l (locals s) -> tokJ (l_tok l) evs) -> tokJ (l_tok x) evs ->
  forall l, In l (locals (set_local s r x)) -> tokJ (l_tok l) evs.
Proof.
  intros H Hx l Hin. unfold set_local in Hin; simpl in Hin.
  apply in_upd in Hin. destruct Hin as [->|Hin]; auto.
Qed.

(* the four clauses after appending events that contain no ECons/EBackend *)
Lemma justified_weaken s s' evs ev :
  justified s evs ->
  (forall id k, mfind id (outstanding s') = Some k -> In (EReg id k) (evs ++ ev)) ->
  (forall l, In l (locals s') -> tokJ (l_tok l) (evs ++ ev)) ->
  (forall id k a, In (ECons id k a) ev -> In (EReg id k) (evs ++ ev) /\ In (EResp id a) (evs ++ ev)) ->
  (forall id bid a, In (EBackend id bid a) ev ->
     In (EReg id (CRelay bid)) (evs ++ ev) /\ In (EResp id a) (evs ++ ev)) ->
  justified s' (evs ++ ev).
Proof.
  intros (J1 & J2 & J3 & J4) H1 H2 H3 H4. split; [exact H1|]. split; [exact H2|]. split.
  - intros id k a Hin. apply in_app_or in Hin. destruct Hin as [Hin|Hin]; [|auto].
    destruct (J3 _ _ _ Hin). split; apply in_or_app; auto.
  - intros id bid a Hin. apply in_app_or in Hin. destruct Hin as [Hin|Hin]; [|auto].
    destruct (J4 _ _ _ Hin). split; apply in_or_app; auto.
Qed.

Lemma send_now_map k d s evs :
  (forall id k', mfind id (outstanding s) = Some k' -> In (EReg id k') evs) ->
  forall id k', mfind id (outstanding (fst (send_now k d s))) = Some k' ->
                In (EReg id k') (evs ++ snd (send_now k d s)).
Proof.
  intros H id k' Hf. unfold send_now, register_core in *. cbn -[mset mfind Z.add] in *.
  destruct (Z.eq_dec (seqc s + 1) id) as [<-|Hn].
  - rewrite mfind_mset_same in Hf. inversion Hf; subst. apply in_or_app. right. now left.
  - rewrite mfind_mset_other in Hf by auto. apply in_or_app. left. auto.
Qed.

Lemma send_more_map n tag s evs :
  (forall id k', mfind id (outstanding s) = Some k' -> In (EReg id k') evs) ->
  forall id k', mfind id (outstanding (fst (send_more n tag s))) = Some k' ->
                In (EReg id k') (evs ++ snd (send_more n tag s)).
Proof.
  revert tag s evs. induction n as [|n IH]; intros tag s evs H.
  - simpl. intros id k' Hf. rewrite app_nil_r. auto.
  - cbn [send_more].
    pose proof (send_now_map (CPlain (tag + 1)) [N.succ tag] s evs H) as H1.
    destruct (send_now (CPlain (tag + 1)) [N.succ tag] s) as [s1 e1]. cbn [fst snd] in H1.
    specialize (IH (tag + 1)%N s1 (evs ++ e1) H1).
    destruct (send_more n (tag + 1) s1) as [s2 e2]. cbn [fst snd] in *.
    intros id k' Hf. rewrite app_assoc. auto.
Qed.

Lemma send_more_no_inv n tag s e :
  In e (snd (send_more n tag s)) ->
  match e with ECons _ _ _ | EBackend _ _ _ => False | _ => True end.
Proof.
  revert tag s. induction n as [|n IH]; intros tag s; [intros []|].
  cbn [send_more].
  assert (E1 : forall e, In e (snd (send_now (CPlain (tag + 1)) [N.succ tag] s)) ->
               match e with ECons _ _ _ | EBackend _ _ _ => False | _ => True end).
  { unfold send_now, register_core. cbn -[mset Z.add]. intros e0 [<-|Hin]; [exact I|].
    destruct (fired s); [destruct Hin as [<-|[]]; exact I|destruct Hin]. }
  destruct (send_now (CPlain (tag + 1)) [N.succ tag] s) as [s1 e1]. cbn [snd] in E1.
  specialize (IH (tag + 1)%N s1). destruct (send_more n (tag + 1) s1) as [s2 e2]. cbn [snd] in *.
  intros Hin. apply in_app_or in Hin. destruct Hin as [Hin|Hin]; [exact (E1 _ Hin)|exact (IH Hin)].
Qed.

Lemma step_justified v a s evs :
  is_action v a -> justified s evs -> justified (fst (a s)) (evs ++ snd (a s)).
Proof.
  intros Ha J. pose proof J as (J1 & J2 & J3 & J4).
  assert (Jmap : forall ev id k, mfind id (outstanding s) = Some k -> In (EReg id k) (evs ++ ev))
    by (intros; apply in_or_app; left; auto).
  assert (Jloc : forall ev l, In l (locals s) -> tokJ (l_tok l) (evs ++ ev))
    by (intros; apply tokJ_mono; auto).
  assert (Jget : forall ev r, tokJ (l_tok (get_local s r)) (evs ++ ev))
    by (intros; apply tokJ_mono, get_local_tokJ; auto).
  destruct Ha.
  - (* alloc *)
    unfold s_alloc. cbn -[Z.add]. apply (justified_weaken s _ evs _ J).
    + intros id k. apply Jmap.
    + apply locals_set_local_tokJ; [apply Jloc|apply Jget].
    + intros ? ? ? [].
    + intros ? ? ? [].
  - (* register *)
    unfold s_register, register_core. cbn -[mset mfind]. set (l := get_local s r).
    apply (justified_weaken s _ evs _ J).
    + intros id k0 Hf. cbn -[mset mfind] in Hf. destruct (Z.eq_dec (l_id l) id) as [<-|Hn].
      * rewrite mfind_mset_same in Hf. inversion Hf; subst. apply in_or_app. right. now left.
      * rewrite mfind_mset_other in Hf by auto. now apply Jmap.
    + apply locals_set_local_tokJ; [apply Jloc|apply Jget].
    + intros ? ? ? [E|[]]. discriminate.
    + intros ? ? ? [E|[]]. discriminate.
  - (* write *)
    unfold s_write. cbn. apply (justified_weaken s _ evs _ J).
    + intros id k. apply Jmap.
    + intros l. apply Jloc.
    + destruct (l_fired (get_local s r)); intros ? ? ? Hin; [destruct Hin as [E|[]]; discriminate|destruct Hin].
    + destruct (l_fired (get_local s r)); intros ? ? ? Hin; [destruct Hin as [E|[]]; discriminate|destruct Hin].
  - (* lookup *)
    unfold r_lookup. set (l := get_local s r).
    destruct (mfind id (outstanding s)) as [k|] eqn:Hf; cbn -[mremove mfind].
    + apply (justified_weaken s _ evs _ J).
      * intros id0 k0 Hf0. cbn -[mremove mfind] in Hf0. apply mfind_mremove_incl in Hf0. now apply Jmap.
      * apply locals_set_local_tokJ; [apply Jloc|]. simpl. split.
        -- now apply Jmap.
        -- apply in_or_app. right. now left.
      * intros ? ? ? [E|[]]. discriminate.
      * intros ? ? ? [E|[]]. discriminate.
    + apply (justified_weaken s _ evs _ J).
      * intros id0 k0. apply Jmap.
      * apply locals_set_local_tokJ; [apply Jloc|exact I].
      * intros ? ? ? [E|[]]. discriminate.
      * intros ? ? ? [E|[]]. discriminate.
  - (* consume *)
    unfold r_consume. set (l := get_local s r).
    destruct (l_tok l) as [[[id k] a]|] eqn:Ht.
    2:{ simpl. rewrite app_nil_r. exact J. }
    pose proof (get_local_tokJ s r evs J2) as Htok. fold l in Htok. rewrite Ht in Htok.
    simpl in Htok. destruct Htok as [HR HP].
    set (x := mkLocal (l_id l) (l_fired l) None (l_hit l) (l_done l) (l_cb l) (l_msgs l)).
    set (s0 := set_local s r x).
    destruct k as [tag|tag n|bid|tag]; cbn -[send_more].
    4:{ apply (justified_weaken s _ evs _ J).
      * intros id0 k0. apply Jmap.
      * apply locals_set_local_tokJ; [apply Jloc|exact I].
      * intros ? ? ? [E|[]]. inversion E; subst. split; apply in_or_app; auto.
      * intros ? ? ? [E|[]]. discriminate. }
    + apply (justified_weaken s _ evs _ J).
      * intros id0 k0. apply Jmap.
      * apply locals_set_local_tokJ; [apply Jloc|exact I].
      * intros ? ? ? [E|[]]. inversion E; subst. split; apply in_or_app; auto.
      * intros ? ? ? [E|[]]. discriminate.
    + pose proof (send_more_map n tag s0 evs) as HM. pose proof (send_more_locals n tag s0) as HL.
      pose proof (send_more_no_inv n tag s0) as HN.
      destruct (send_more n tag s0) as [s1 e1]. cbn [fst snd] in *.
      apply (justified_weaken s _ evs _ J).
      * intros id0 k0 Hf0. specialize (HM J1 id0 k0 Hf0).
        apply in_app_or in HM. apply in_or_app. destruct HM; [left|right; right]; auto.
      * rewrite HL. apply locals_set_local_tokJ; [apply Jloc|exact I].
      * intros id0 k0 a0 [E|Hin].
        -- inversion E; subst. split; apply in_or_app; auto.
        -- apply HN in Hin. destruct Hin.
      * intros id0 b0 a0 [E|Hin]; [discriminate|]. apply HN in Hin. destruct Hin.
    + apply (justified_weaken s _ evs _ J).
      * intros id0 k0. apply Jmap.
      * apply locals_set_local_tokJ; [apply Jloc|exact I].
      * intros ? ? ? [E|[E|[]]]; [|discriminate]. inversion E; subst. split; apply in_or_app; auto.
      * intros ? ? ? [E|[E|[]]]; [discriminate|]. inversion E; subst. split; apply in_or_app; auto.
  - (* check *)
    unfold r_check. set (l := get_local s r).
    destruct (l_hit l); cbn; [|rewrite app_nil_r; exact J].
    apply (justified_weaken s _ evs _ J).
    + intros id k. apply Jmap.
    + apply locals_set_local_tokJ; [apply Jloc|apply Jget].
    + intros ? ? ? [].
    + intros ? ? ? [].
  - (* complete *)
    unfold r_complete. set (l := get_local s r).
    destruct (l_hit l && l_done l && l_cb l); cbn; [|rewrite app_nil_r; exact J].
    apply (justified_weaken s _ evs _ J).
    + intros id k. apply Jmap.
    + apply locals_set_local_tokJ; [apply Jloc|apply Jget].
    + intros ? ? ? [E|[]]. discriminate.
    + intros ? ? ? [E|[]]. discriminate.
  - (* fire *)
    unfold f_fire. cbn. apply (justified_weaken s _ evs _ J).
    + intros id k. apply Jmap.
    + apply locals_set_local_tokJ; [apply Jloc|apply Jget].
    + intros ? ? ? [E|[]]. discriminate.
    + intros ? ? ? [E|[]]. discriminate.
  - (* flush *)
    unfold f_flush. set (l := get_local s r).
    assert (Hm : forall ms e, In e (map (fun m => EMsg (fst m) (snd m)) ms ++ [EFlush]) ->
                 match e with ECons _ _ _ | EBackend _ _ _ => False | _ => True end).
    { intros ms e Hin. apply in_app_or in Hin. destruct Hin as [Hin|[<-|[]]]; [|exact I].
      apply in_map_iff in Hin. destruct Hin as [m [<- _]]. exact I. }
    destruct (l_msgs l) as [|m ms].
    + destruct (l_cb l); cbn; [|rewrite app_nil_r; exact J].
      apply (justified_weaken s _ evs _ J).
      * intros id k. apply Jmap.
      * apply locals_set_local_tokJ; [apply Jloc|apply Jget].
      * intros ? ? ? [E|[]]. discriminate.
      * intros ? ? ? [E|[]]. discriminate.
    + cbn [fst snd]. apply (justified_weaken s _ evs _ J).
      * intros id k. apply Jmap.
      * apply locals_set_local_tokJ; [apply Jloc|apply Jget].
      * intros ? ? ? Hin. apply Hm in Hin. destruct Hin.
      * intros ? ? ? Hin. apply Hm in Hin. destruct Hin.
  - (* clear *)
    unfold a_clear. cbn. rewrite app_nil_r.
    destruct J as (K1 & K2 & K3 & K4). split; [exact K1|]. split; [exact K2|]. split; auto.
Qed.

(* ---------- relay: a backend write only as part of the relay consumer's invocation ---------- *)

Definition w_backend (id : Z) (e : event) : nat :=
  match e with EBackend i _ _ => if Z.eqb id i then 1 else 0 | _ => 0 end.

Lemma count_backend_sum id evs : count_backend id evs = sumf (w_backend id) evs.
Proof.
  unfold count_backend. rewrite <- sumf_filter. induction evs as [|e l IH]; simpl; auto.
  rewrite IH. destruct e; simpl; auto.
Qed.

Lemma send_more_no_backend n tag s id : sumf (w_backend id) (snd (send_more n tag s)) = 0.
Proof.
  pose proof (send_more_no_inv n tag s) as H. induction (snd (send_more n tag s)) as [|e l IH]; auto.
  simpl. rewrite IH by (intros e0 Hin; apply H; now right).
  specialize (H e (or_introl eq_refl)). destruct e; simpl; auto. destruct H.
Qed.

Lemma action_backend v a s id :
  is_action v a -> sumf (w_backend id) (snd (a s)) <= sumf (w_cons id) (snd (a s)).
Proof.
  intros Ha. destruct Ha.
  - unfold s_alloc. cbn -[Z.add]. lia.
  - unfold s_register, register_core. cbn. lia.
  - unfold s_write. cbn. destruct (l_fired _); cbn; lia.
  - unfold r_lookup. destruct (mfind _ _); cbn; lia.
  - unfold r_consume. destruct (l_tok _) as [[[i k] a]|]; [|cbn; lia].
    destruct k as [tag|tag n|bid|tag]; cbn -[send_more]; [|..|lia].
    + lia.
    + pose proof (send_more_no_backend n tag
        (set_local s r (mkLocal (l_id (get_local s r)) (l_fired (get_local s r)) None
           (l_hit (get_local s r)) (l_done (get_local s r)) (l_cb (get_local s r)) (l_msgs (get_local s r)))) id) as H.
      destruct (send_more n tag _) as [s1 e1]. cbn [snd] in *. simpl. rewrite H. lia.
    + destruct (Z.eqb id i); lia.
  - unfold r_check. destruct (l_hit _); cbn; lia.
  - unfold r_complete. destruct (_ && _); cbn; lia.
  - unfold f_fire. cbn. lia.
  - unfold f_flush. destruct (l_msgs _) as [|m ms].
    + destruct (l_cb _); cbn; lia.
    + cbn [snd]. rewrite !sumf_app, !sumf_msgs by reflexivity. simpl. lia.
  - cbn. lia.
Qed.

(* ---------- lifting to every schedule ---------- *)

Definition good (v : variant) (s : state) (evs : list event) : Prop :=
  acc_cons s evs /\ justified s evs
  /\ (forall id, sumf (w_backend id) evs <= sumf (w_cons id) evs)
  /\ (v = Impl -> acc_compl s evs).

Lemma good_step v a s evs : is_action v a -> good v s evs -> good v (fst (a s)) (evs ++ snd (a s)).
Proof.
  intros Ha (G1 & G2 & G3 & G4). split; [eapply step_acc_cons; eauto|].
  split; [eapply step_justified; eauto|]. split.
  - intros id. rewrite !sumf_app. pose proof (action_backend v a s id Ha). specialize (G3 id). lia.
  - intros ->. apply step_acc_compl; auto.
Qed.

Lemma good_init v pok n : good v (init pok n) [].
Proof.
  assert (Ht : forall id, tokens id (init pok n) = 0)
    by (intros id; unfold tokens, init; simpl; induction n; simpl; auto).
  assert (Hc : cbtokens (init pok n) = 0)
    by (unfold cbtokens, init; simpl; induction n; simpl; auto).
  split; [|split; [|split]].
  - intros id. rewrite Ht. change (inmap id (init pok n)) with 0. simpl. lia.
  - split; [intros id k H; discriminate|]. split; [|split; intros ? ? ? []].
    intros l Hin. unfold init in Hin; simpl in Hin. apply repeat_spec in Hin. subst. exact I.
  - intros id. simpl. lia.
  - intros _. unfold acc_compl. rewrite Hc. change (onall1 (init pok n)) with 0. simpl. lia.
Qed.

Definition actions_only (v : variant) (ts : list (@thread state event)) : Prop :=
  forall a, In a (concat ts) -> is_action v a.

Lemma all_schedules_good v pok n ts sched :
  actions_only v ts ->
  good v (final_state (run ts sched (init pok n))) (events (run ts sched (init pok n))).
Proof.
  intros Ht. apply (trace_inv_all_schedules (good v) ts) with (evs0 := []).
  - intros a Ha s evs Hg. apply good_step; auto.
  - apply good_init.
Qed.

Lemma consumer_at_most_once_all v pok n ts sched id :
  actions_only v ts ->
  let evs := events (run ts sched (init pok n)) in
  count_cons id evs <= count_reg id evs.
Proof.
  intros Ht evs. destruct (all_schedules_good v pok n ts sched Ht) as (G1 & _).
  specialize (G1 id). rewrite count_cons_sum, count_reg_sum. fold evs in G1. lia.
Qed.

Lemma id_correlation_all v pok n ts sched id k a :
  actions_only v ts ->
  let evs := events (run ts sched (init pok n)) in
  In (ECons id k a) evs -> In (EReg id k) evs /\ In (EResp id a) evs.
Proof.
  intros Ht evs. destruct (all_schedules_good v pok n ts sched Ht) as (_ & (_ & _ & J3 & _) & _).
  apply J3.
Qed.

Lemma relay_all v pok n ts sched id :
  actions_only v ts ->
  let evs := events (run ts sched (init pok n)) in
  count_backend id evs <= count_reg id evs
  /\ forall bid a, In (EBackend id bid a) evs -> In (EReg id (CRelay bid)) evs /\ In (EResp id a) evs.
Proof.
  intros Ht evs. destruct (all_schedules_good v pok n ts sched Ht) as (G1 & (_ & _ & _ & J4) & G3 & _).
  split.
  - specialize (G1 id). specialize (G3 id). rewrite count_backend_sum, count_reg_sum.
    fold evs in G1, G3. lia.
  - intros bid a. apply J4.
Qed.

Lemma completion_at_most_once_all pok n ts sched :
  actions_only Impl ts ->
  let evs := events (run ts sched (init pok n)) in
  count_completion evs <= count_fire evs.
Proof.
  intros Ht evs. destruct (all_schedules_good Impl pok n ts sched Ht) as (_ & _ & _ & G4).
  specialize (G4 eq_refl). unfold acc_compl in G4. rewrite count_completion_sum, count_fire_sum.
  fold evs in G4. lia.
Qed.

(* ---------- whole calls ---------- *)

Lemma run_actions_cons a r s s1 e1 :
  a s = (s1, e1) ->
  run_actions (a :: r) s = (fst (run_actions r s1), e1 ++ snd (run_actions r s1)).
Proof. intros H. simpl. rewrite H. now destruct (run_actions r s1). Qed.

Lemma get_set_local0 s x l0 ls : locals s = l0 :: ls -> get_local (set_local s 0 x) 0 = x.
Proof. intros H. unfold get_local, set_local; simpl. now rewrite H. Qed.

(* "responses with unknown ids are ignored": nothing is invoked, written or completed, and the
   connection's fields are as before *)
Lemma unknown_ignored_seq v s id ok data :
  locals s <> [] -> mfind id (outstanding s) = None ->
  let r := step_op v s (OResponse id ok data) in
  snd r = [EResp id (resp_arg ok data)]
  /\ seqc (fst r) = seqc s /\ outstanding (fst r) = outstanding s /\ queue (fst r) = queue s
  /\ fired (fst r) = fired s /\ on_all (fst r) = on_all s /\ locals (fst r) <> [].
Proof.
  intros Hl Hf. destruct (locals s) as [|l0 ls] eqn:El; [congruence|].
  set (a := resp_arg ok data).
  set (x := mkLocal (l_id (get_local s 0)) (l_fired (get_local s 0)) None false false false
                    (l_msgs (get_local s 0))).
  set (s1 := set_local s 0 x).
  assert (G1 : get_local s1 0 = x) by (eapply get_set_local0; eauto).
  assert (A1 : r_lookup 0 id a s = (s1, [EResp id a])) by (unfold r_lookup; now rewrite Hf).
  assert (A2 : r_consume 0 s1 = (s1, [])) by (unfold r_consume; now rewrite G1).
  assert (A3 : r_check v 0 s1 = (s1, [])) by (unfold r_check; now rewrite G1).
  assert (A4 : r_complete 0 s1 = (s1, [])) by (unfold r_complete; now rewrite G1).
  unfold step_op, response_thread. fold a.
  rewrite (run_actions_cons _ _ _ _ _ A1), (run_actions_cons _ _ _ _ _ A2),
          (run_actions_cons _ _ _ _ _ A3), (run_actions_cons _ _ _ _ _ A4).
  cbn [run_actions fst snd app]. repeat split; try reflexivity.
  unfold s1, set_local; simpl. rewrite El. discriminate.
Qed.

(* finding C13-1, a fact about the PRE-fix code: it ran the completion twice with one fire;
   the code as it is (Impl) runs it once on the same history *)
Definition refuting_history : list op :=
  [OFire; OSend (CPlain 1) [1%N]; OResponse 1 true []].

Lemma prefix_completion_refuted_witness :
  let evs := concat (snd (run_ops Prefix (init true 1) refuting_history)) in
  count_fire evs = 1 /\ count_completion evs = 2
  /\ count_completion (concat (snd (run_ops Impl (init true 1) refuting_history))) = 1.
Proof. vm_compute. repeat split; reflexivity. Qed.

(* ---------- Impl, whole calls: the completion runs exactly once ---------- *)


Lemma send_more_fired n tag s : fired (fst (send_more n tag s)) = fired s.
Proof.
  revert tag s. induction n as [|n IH]; intros tag s; [reflexivity|].
  cbn [send_more].
  assert (E1 : fired (fst (send_now (CPlain (tag + 1)) [N.succ tag] s)) = fired s) by reflexivity.
  destruct (send_now (CPlain (tag + 1)) [N.succ tag] s) as [s1 e1]. cbn [fst] in E1.
  specialize (IH (tag + 1)%N s1). destruct (send_more n (tag + 1) s1) as [s2 e2]. cbn [fst] in *.
  congruence.
Qed.

Lemma send_more_proto n tag s : proto_ok (fst (send_more n tag s)) = proto_ok s.
Proof.
  revert tag s. induction n as [|n IH]; intros tag s; [reflexivity|].
  cbn [send_more].
  assert (E1 : proto_ok (fst (send_now (CPlain (tag + 1)) [N.succ tag] s)) = proto_ok s) by reflexivity.
  destruct (send_now (CPlain (tag + 1)) [N.succ tag] s) as [s1 e1]. cbn [fst] in E1.
  specialize (IH (tag + 1)%N s1). destruct (send_more n (tag + 1) s1) as [s2 e2]. cbn [fst] in *.
  congruence.
Qed.

(* a successful send: something is outstanding afterwards; before the event it is also queued *)
Lemma send_seq k d0 d s :
  locals s <> [] -> proto_ok s = true ->
  let r := do_send k (d0 :: d) s in
  outstanding (fst r) <> [] /\ fired (fst r) = fired s /\ on_all (fst r) = on_all s
  /\ (fired s = false -> queue (fst r) <> []) /\ (fired s = true -> queue (fst r) = queue s)
  /\ count_completion (snd r) = 0 /\ locals (fst r) <> [] /\ proto_ok (fst r) = true.
Proof.
  intros Hl Hp. destruct (locals s) as [|l0 ls] eqn:El; [congruence|].
  unfold do_send. rewrite Hp. set (data := d0 :: d).
  set (l := get_local s 0).
  set (id := (seqc s + 1)%Z).
  set (x1 := mkLocal id (l_fired l) (l_tok l) (l_hit l) (l_done l) (l_cb l) (l_msgs l)).
  set (s1 := set_local (mkSt id (outstanding s) (queue s) (fired s) (on_all s) (proto_ok s) (locals s)) 0 x1).
  assert (G1 : get_local s1 0 = x1) by (eapply get_set_local0; simpl; eauto).
  assert (A1 : s_alloc 0 s = (s1, [])) by reflexivity.
  set (x2 := mkLocal id (fired s) (l_tok l) (l_hit l) (l_done l) (l_cb l) (l_msgs l)).
  set (s2 := set_local (mkSt id (mset id k (outstanding s))
                             (if fired s then queue s else queue s ++ [(id, data)])
                             (fired s) (on_all s) (proto_ok s) (locals s1)) 0 x2).
  assert (A2 : s_register 0 k data s1 = (s2, [EReg id k])).
  { unfold s_register, register_core. rewrite G1. reflexivity. }
  assert (El1 : locals s1 = x1 :: ls) by (unfold s1, set_local; simpl; now rewrite El).
  assert (G2 : get_local s2 0 = x2) by (eapply get_set_local0; simpl; eauto).
  assert (A3 : s_write 0 data s2 = (s2, if fired s then [EMsg id data] else [])).
  { unfold s_write. now rewrite G2. }
  unfold send_thread.
  rewrite (run_actions_cons _ _ _ _ _ A1), (run_actions_cons _ _ _ _ _ A2), (run_actions_cons _ _ _ _ _ A3).
  cbn [run_actions fst snd]. rewrite app_nil_r.
  assert (Hl2 : locals s2 <> []).
  { unfold s2, set_local; simpl. rewrite El. discriminate. }
  repeat split; auto.
  - unfold s2, mset; simpl. discriminate.
  - intros Hf. unfold s2; simpl. rewrite Hf. destruct (queue s); discriminate.
  - intros Hf. unfold s2; simpl. now rewrite Hf.
  - destruct (fired s); reflexivity.
Qed.

(* the event: with nothing queued the completion runs now and no callback is kept *)
Lemma fire_seq s :
  locals s <> [] ->
  let r := step_op Impl s OFire in
  fired (fst r) = true /\ outstanding (fst r) = outstanding s
  /\ on_all (fst r) = negb (is_nil (queue s))
  /\ count_completion (snd r) = (if is_nil (queue s) then 1 else 0)
  /\ locals (fst r) <> [] /\ proto_ok (fst r) = proto_ok s.
Proof.
  intros Hl. destruct (locals s) as [|l0 ls] eqn:El; [congruence|].
  set (l := get_local s 0). set (empty := is_nil (queue s)).
  set (x1 := mkLocal (l_id l) (l_fired l) (l_tok l) false false empty (queue s)).
  set (s1 := set_local (mkSt (seqc s) (outstanding s) [] true (negb empty) (proto_ok s) (locals s)) 0 x1).
  assert (G1 : get_local s1 0 = x1) by (eapply get_set_local0; simpl; eauto).
  assert (A1 : f_fire Impl 0 s = (s1, [EFire])) by reflexivity.
  assert (Hl1 : locals s1 <> []) by (unfold s1, set_local; simpl; rewrite El; discriminate).
  unfold step_op, fire_thread. rewrite (run_actions_cons _ _ _ _ _ A1).
  unfold run_actions. unfold f_flush. rewrite G1. cbn [l_msgs l_cb x1].
  unfold empty, is_nil. destruct (queue s) as [|m ms] eqn:Eq.
  - cbn. repeat split; auto. rewrite El. discriminate.
  - cbn [fst snd]. repeat split; auto.
    + unfold count_completion. rewrite !filter_app. simpl.
      rewrite app_nil_r.
      assert (E : filter (fun e => match e with ECompletion => true | _ => false end)
                         (map (fun m0 : Z * body => EMsg (fst m0) (snd m0)) ms) = []).
      { clear. induction ms; simpl; auto. }
      now rewrite E.
    + unfold s1, set_local; simpl. rewrite El. discriminate.
Qed.

(* a response to an outstanding id: the consumer runs; if nothing is outstanding afterwards the
   kept callback (if any) runs and is dropped *)
Lemma response_hit_seq s id k ok data :
  locals s <> [] -> mfind id (outstanding s) = Some k ->
  let r := step_op Impl s (OResponse id ok data) in
  let done := is_nil (outstanding (fst r)) in
  fired (fst r) = fired s
  /\ on_all (fst r) = (if done then false else on_all s)
  /\ count_completion (snd r) = (if done && on_all s then 1 else 0)
  /\ count_cons id (snd r) = 1
  /\ In (ECons id k (resp_arg ok data)) (snd r)
  /\ (forall bid, k = CRelay bid -> In (EBackend id bid (resp_arg ok data)) (snd r)
                                    /\ count_backend id (snd r) = 1)
  /\ locals (fst r) <> [] /\ proto_ok (fst r) = proto_ok s.
Proof.
  intros Hl Hf. destruct (locals s) as [|l0 ls] eqn:El; [congruence|].
  set (a := resp_arg ok data). set (l := get_local s 0).
  set (x1 := mkLocal (l_id l) (l_fired l) (Some (id, k, a)) true false false (l_msgs l)).
  set (s1 := set_local (mkSt (seqc s) (mremove id (outstanding s)) (queue s) (fired s) (on_all s)
                             (proto_ok s) (locals s)) 0 x1).
  assert (G1 : get_local s1 0 = x1) by (eapply get_set_local0; simpl; eauto).
  assert (A1 : r_lookup 0 id a s = (s1, [EResp id a])) by (unfold r_lookup; now rewrite Hf).
  assert (El1 : locals s1 = x1 :: ls) by (unfold s1, set_local; simpl; now rewrite El).
  set (x2 := mkLocal (l_id l) (l_fired l) None true false false (l_msgs l)).
  set (s2 := set_local s1 0 x2).
  assert (El2 : locals s2 = x2 :: ls) by (unfold s2, s1, set_local; simpl; now rewrite El).
  (* the consumer *)
  assert (HC : exists s3 e3,
            r_consume 0 s1 = (s3, e3) /\ locals s3 = x2 :: ls /\ fired s3 = fired s
            /\ on_all s3 = on_all s /\ proto_ok s3 = proto_ok s
            /\ count_completion e3 = 0 /\ count_cons id e3 = 1 /\ In (ECons id k a) e3
            /\ (forall bid, k = CRelay bid -> In (EBackend id bid a) e3 /\ count_backend id e3 = 1)).
  { unfold r_consume. rewrite G1. cbn [l_tok x1 l_id l_fired l_hit l_done l_cb l_msgs]. fold x2. fold s2.
    destruct k as [tag|tag n|bid|tag].
    4:{ exists s2, [ECons id (CFail tag) a]. repeat split; auto.
      + unfold count_cons; simpl. now rewrite Z.eqb_refl.
      + now left.
      + discriminate.
      + discriminate. }
    - exists s2, [ECons id (CPlain tag) a]. repeat split; auto.
      + unfold count_cons; simpl. now rewrite Z.eqb_refl.
      + now left.
      + discriminate.
      + discriminate.
    - pose proof (send_more_locals n tag s2) as L1. pose proof (send_more_fired n tag s2) as L2.
      pose proof (send_more_on_all n tag s2) as L3. pose proof (send_more_no_inv n tag s2) as L4.
      destruct (send_more_no_compl n tag s2) as [L5 _].
      pose proof (send_more_proto n tag s2) as L6.
      destruct (send_more n tag s2) as [s3 e3]. cbn [fst snd] in *.
      exists s3, (ECons id (CSendMore tag n) a :: e3). repeat split; auto.
      + congruence.
      + rewrite count_completion_sum. simpl. exact L5.
      + unfold count_cons. simpl. rewrite Z.eqb_refl. simpl. f_equal.
        assert (E : filter (fun e => match e with ECons i _ _ => (id =? i)%Z | _ => false end) e3 = []).
        { clear -L4. induction e3 as [|e l IH]; simpl; auto.
          pose proof (L4 e (or_introl eq_refl)) as He.
          rewrite IH by (intros e0 Hin; apply L4; now right). destruct e; auto. destruct He. }
        now rewrite E.
      + now left.
      + discriminate.
      + discriminate.
    - exists s2, [ECons id (CRelay bid) a; EBackend id bid a]. repeat split; auto.
      + unfold count_cons; simpl. now rewrite Z.eqb_refl.
      + now left.
      + inversion H; subst. right. now left.
      + unfold count_backend; simpl. now rewrite Z.eqb_refl. }
  destruct HC as (s3 & e3 & A2 & El3 & F3 & O3 & P3 & C3 & N3 & I3 & B3).
  assert (G3 : get_local s3 0 = x2) by (unfold get_local; now rewrite El3).
  set (done := is_nil (outstanding s3)).
  set (x4 := mkLocal (l_id l) (l_fired l) None true done (done && on_all s3) (l_msgs l)).
  set (s4 := set_local (mkSt (seqc s3) (outstanding s3) (queue s3) (fired s3)
                             (if done then false else on_all s3) (proto_ok s3) (locals s3)) 0 x4).
  assert (A3 : r_check Impl 0 s3 = (s4, [])).
  { unfold r_check. rewrite G3. cbn [l_hit x2 l_id l_fired l_tok l_msgs]. reflexivity. }
  assert (G4 : get_local s4 0 = x4) by (eapply get_set_local0; simpl; eauto).
  assert (El4 : locals s4 = x4 :: ls) by (unfold s4, set_local; simpl; now rewrite El3).
  set (x5 := mkLocal (l_id l) (l_fired l) None false false false (l_msgs l)).
  assert (A4 : r_complete 0 s4 =
               if done && on_all s3 then (set_local s4 0 x5, [ECompletion]) else (s4, [])).
  { unfold r_complete. rewrite G4. cbn [l_hit l_done l_cb x4 l_id l_fired l_tok l_msgs].
    destruct done, (on_all s3); reflexivity. }
  assert (Hres : step_op Impl s (OResponse id ok data) =
                 if done && on_all s3
                 then (set_local s4 0 x5, [EResp id a] ++ e3 ++ [ECompletion])
                 else (s4, [EResp id a] ++ e3)).
  { unfold step_op, response_thread. fold a.
    rewrite (run_actions_cons _ _ _ _ _ A1), (run_actions_cons _ _ _ _ _ A2),
            (run_actions_cons _ _ _ _ _ A3).
    destruct (done && on_all s3).
    - rewrite (run_actions_cons _ _ _ _ _ A4). cbn [run_actions fst snd]. now rewrite !app_nil_r.
    - rewrite (run_actions_cons _ _ _ _ _ A4). cbn [run_actions fst snd]. now rewrite !app_nil_r. }
  assert (Hcc : forall e, count_completion ([EResp id a] ++ e3 ++ e) = count_completion e).
  { intros e. unfold count_completion in *. rewrite !filter_app. simpl.
    apply length_zero_iff_nil in C3. now rewrite C3. }
  assert (Hcn : forall e, (forall x, In x e -> x = ECompletion) ->
                count_cons id ([EResp id a] ++ e3 ++ e) = 1
                /\ (forall bid, k = CRelay bid -> count_backend id ([EResp id a] ++ e3 ++ e) = 1)).
  { intros e He.
    assert (E1 : filter (fun x => match x with ECons i _ _ => (id =? i)%Z | _ => false end) e = []).
    { clear -He. induction e as [|y e IH]; simpl; auto.
      rewrite (He y (or_introl eq_refl)). apply IH. intros x Hx. apply He. now right. }
    assert (E2 : filter (fun x => match x with EBackend i _ _ => (id =? i)%Z | _ => false end) e = []).
    { clear -He. induction e as [|y e IH]; simpl; auto.
      rewrite (He y (or_introl eq_refl)). apply IH. intros x Hx. apply He. now right. }
    split.
    - unfold count_cons in *. rewrite !filter_app, E1. simpl. rewrite app_nil_r. exact N3.
    - intros bid Hk. destruct (B3 bid Hk) as [_ Hb]. unfold count_backend in *.
      rewrite !filter_app, E2. simpl. rewrite app_nil_r. exact Hb. }
  assert (Hin : forall e, In (ECons id k a) ([EResp id a] ++ e3 ++ e))
    by (intros e; apply in_or_app; right; apply in_or_app; now left).
  assert (Hinb : forall e bid, k = CRelay bid -> In (EBackend id bid a) ([EResp id a] ++ e3 ++ e)).
  { intros e bid Hk. destruct (B3 bid Hk) as [Hb _]. apply in_or_app; right; apply in_or_app; now left. }
  cbv zeta. rewrite Hres. rewrite <- O3.
  destruct (done && on_all s3) eqn:Ed.
  - apply andb_true_iff in Ed. destruct Ed as [Ed1 Ed2]. cbn [fst snd].
    change (outstanding (set_local s4 0 x5)) with (outstanding s3). fold done. rewrite Ed1, Ed2.
    destruct (Hcn [ECompletion]) as [Hn1 Hn2]; [intros y [<-|[]]; reflexivity|].
    split; [exact F3|]. split; [unfold s4; simpl; now rewrite Ed1|].
    split; [now rewrite Hcc|]. split; [exact Hn1|]. split; [apply Hin|].
    split; [intros bid Hk; split; [exact (Hinb _ bid Hk)|exact (Hn2 bid Hk)]|].
    split; [|exact P3].
    change (locals (set_local s4 0 x5)) with (upd (locals s4) 0 x5). rewrite El4. discriminate.
  - cbn [fst snd]. change (outstanding s4) with (outstanding s3). fold done.
    destruct (Hcn []) as [Hn1 Hn2]; [intros y []|]. rewrite app_nil_r in Hn1.
    assert (Hn2' : forall bid, k = CRelay bid -> count_backend id ([EResp id a] ++ e3) = 1)
      by (intros bid Hk; specialize (Hn2 bid Hk); now rewrite app_nil_r in Hn2).
    split; [exact F3|]. split; [unfold s4; simpl; reflexivity|].
    split; [specialize (Hcc []); rewrite app_nil_r in Hcc; rewrite Hcc; now rewrite Ed|].
    split; [exact Hn1|].
    split; [specialize (Hin []); now rewrite app_nil_r in Hin|].
    split.
    + intros bid Hk. split; [|exact (Hn2' bid Hk)]. specialize (Hinb [] bid Hk). now rewrite app_nil_r in Hinb.
    + split; [|exact P3]. rewrite El4. discriminate.
Qed.

Definition K (s : state) (c : nat) : Prop :=
  locals s <> [] /\
  if fired s
  then (on_all s = true /\ c = 0 /\ outstanding s <> []) \/ (on_all s = false /\ c = 1)
  else on_all s = false /\ c = 0 /\ (outstanding s = [] <-> queue s = []).

Lemma count_completion_app a b : count_completion (a ++ b) = count_completion a + count_completion b.
Proof. unfold count_completion. now rewrite filter_app, app_length. Qed.

Lemma do_send_K k data s c :
  K s c ->
  let r := do_send k data s in
  K (fst r) (c + count_completion (snd r)) /\ fired (fst r) = fired s /\ count_completion (snd r) = 0.
Proof.
  intros [Hl HK]. unfold do_send. destruct data as [|d0 d].
  - simpl. rewrite Nat.add_0_r. repeat split; auto.
  - destruct (proto_ok s) eqn:Hp.
    + destruct (send_seq k d0 d s Hl Hp) as (H1 & H2 & H3 & H4 & H5 & H6 & H7 & _).
      unfold do_send in *. rewrite Hp in *.
      set (r := run_actions (send_thread 0 k (d0 :: d)) s) in *.
      rewrite H6, Nat.add_0_r. split; [|split; auto]. split; [exact H7|].
      rewrite H2, H3. destruct (fired s) eqn:Hf.
      * destruct HK as [(Ha & Hc & _)|(Ha & Hc)]; [left|right]; auto.
      * destruct HK as (Ha & Hc & Hq). repeat split; auto.
        -- intros E. contradiction.
        -- intros E. exfalso. apply (H4 eq_refl). exact E.
    + simpl. rewrite Nat.add_0_r. repeat split; auto.
Qed.

Lemma K_step s c o :
  K s c -> adm (fired s) [o] = true ->
  let r := step_op Impl s o in
  K (fst r) (c + count_completion (snd r))
  /\ fired (fst r) = (match o with OFire => true | _ => fired s end)
  /\ (0 < count_completion (snd r) -> outstanding (fst r) = []).
Proof.
  intros HK Ha. pose proof HK as [Hl HK']. destruct o as [k data|bid data|id ok data| |].
  - destruct (do_send_K k data s c HK) as (H1 & H2 & H3). cbn [step_op].
    split; [exact H1|]. split; [exact H2|]. rewrite H3. lia.
  - destruct (do_send_K (CRelay bid) (match data with [] => [0%N] | _ => data end) s c HK) as (H1 & H2 & H3).
    cbn [step_op]. split; [exact H1|]. split; [exact H2|]. rewrite H3. lia.
  - simpl in Ha. rewrite andb_true_r in Ha. rewrite Ha in HK'.
    destruct (mfind id (outstanding s)) as [k|] eqn:Hf.
    + destruct (response_hit_seq s id k ok data Hl Hf) as (F & O & C & _ & _ & _ & L & _).
      set (r := step_op Impl s (OResponse id ok data)) in *. cbv zeta in *.
      split; [|split; [exact F|]].
      * split; [exact L|]. rewrite F, Ha, O, C.
        destruct (outstanding (fst r)) as [|x xs] eqn:Eo; cbn [is_nil andb].
        -- destruct HK' as [(Hon & Hc & _)|(Hon & Hc)]; rewrite Hon; right; split; auto; lia.
        -- destruct HK' as [(Hon & Hc & _)|(Hon & Hc)]; rewrite Hon.
           ++ left. repeat split; auto; [lia|discriminate].
           ++ right. split; auto. lia.
      * rewrite C. destruct (outstanding (fst r)); cbn [is_nil andb]; [auto|lia].
    + destruct (unknown_ignored_seq Impl s id ok data Hl Hf) as (E & _ & O & Q & F & A & L).
      set (r := step_op Impl s (OResponse id ok data)) in *. cbv zeta in *.
      rewrite E. cbn [count_completion filter length]. rewrite Nat.add_0_r.
      split; [|split; [exact F|lia]].
      split; [exact L|]. rewrite F, Ha, A, O. exact HK'.
  - simpl in Ha. rewrite andb_true_r in Ha. apply negb_true_iff in Ha. rewrite Ha in HK'.
    destruct HK' as (Hon & Hc & Hq).
    destruct (fire_seq s Hl) as (F & O & A & C & L & _).
    set (r := step_op Impl s OFire) in *. cbv zeta in *.
    split; [|split; [exact F|]].
    + split; [exact L|]. rewrite F, A, C, O.
      destruct (queue s) as [|m ms] eqn:Eq; cbn [is_nil negb].
      * right. split; auto. lia.
      * left. repeat split; auto; [lia|]. intros E. apply Hq in E. discriminate.
    + rewrite C, O. destruct (queue s) eqn:Eq; cbn [is_nil]; [intros _; now apply Hq|lia].
  - discriminate.
Qed.

Lemma K_run os : forall s c,
  K s c -> adm (fired s) os = true ->
  let r := run_ops Impl s os in
  K (fst r) (c + count_completion (concat (snd r))).
Proof.
  induction os as [|o os IH]; intros s c HK Ha.
  - simpl. now rewrite Nat.add_0_r.
  - assert (Ha1 : adm (fired s) [o] = true).
    { destruct o; simpl in *; auto.
      - apply andb_true_iff in Ha. destruct Ha as [-> _]. reflexivity.
      - apply andb_true_iff in Ha. destruct Ha as [-> _]. reflexivity. }
    destruct (K_step s c o HK Ha1) as (H1 & H2 & _).
    cbn [run_ops]. destruct (step_op Impl s o) as [s1 e1] eqn:E1. cbn [fst snd] in *.
    assert (Ha2 : adm (fired s1) os = true).
    { rewrite H2. destruct o; simpl in Ha; auto.
      - apply andb_true_iff in Ha. tauto.
      - apply andb_true_iff in Ha. tauto.
      - discriminate. }
    specialize (IH s1 _ H1 Ha2). destruct (run_ops Impl s1 os) as [s2 es]. cbn [fst snd concat] in *.
    rewrite count_completion_app. now rewrite Nat.add_assoc.
Qed.

Lemma completion_exactly_once_impl pok n os :
  0 < n -> adm false os = true ->
  let r := run_ops Impl (init pok n) os in
  let c := count_completion (concat (snd r)) in
  c <= 1
  /\ (fired (fst r) = false -> c = 0)
  /\ (fired (fst r) = true -> outstanding (fst r) = [] -> c = 1)
  /\ (fired (fst r) = true -> outstanding (fst r) <> [] -> c = 0 -> on_all (fst r) = true).
Proof.
  intros Hn Ha.
  assert (K0 : K (init pok n) 0).
  { split.
    - unfold init; simpl. destruct n; [lia|discriminate].
    - simpl. repeat split; auto. }
  pose proof (K_run os (init pok n) 0 K0 Ha) as [_ HK]. cbv zeta in *. simpl plus in HK.
  set (r := run_ops Impl (init pok n) os) in *.
  destruct (fired (fst r)) eqn:Ef.
  - destruct HK as [(Hon & Hc & Ho)|(Hon & Hc)]; rewrite Hc.
    + split; [lia|]. split; [discriminate|]. split; [intros _ E; contradiction|]. intros _ _ _. exact Hon.
    + split; [lia|]. split; [discriminate|]. split; [auto|]. intros _ _ E. discriminate.
  - destruct HK as (Hon & Hc & _). rewrite Hc. split; [lia|]. split; [auto|]. split; discriminate.
Qed.

(* ---------- non-vacuity ---------- *)

Definition nv_threads (v : variant) : list (@thread state event) :=
  [send_thread 0 (CPlain 1) [1%N]; response_thread v 1 1 (Some []); fire_thread v 2].

Lemma nv_threads_actions v : actions_only v (nv_threads v).
Proof.
  intros a Ha. unfold nv_threads, send_thread, response_thread, fire_thread in Ha. simpl in Ha.
  repeat (destruct Ha as [<-|Ha]; [constructor|]). destruct Ha.
Qed.

Definition nv_check : bool :=
  let outs_ := outcomes (nv_threads Impl) (init true 3) in
  forallb (fun r => (count_cons 1 (events r) <=? 1) && (count_completion (events r) <=? 1)
                    && (count_reg 1 (events r) =? 1) && (count_fire (events r) =? 1)) outs_
  && existsb (fun r => (count_cons 1 (events r) =? 1) && (count_completion (events r) =? 1)) outs_
  && (length outs_ =? 1260).

Lemma nv_check_ok : nv_check = true.
Proof. vm_compute. reflexivity. Qed.

Definition nv_history : list op :=
  [OSend (CSendMore 1 2) [1%N]; ORelay 7 []; OFire;
   OResponse 2 true [9%N]; OResponse 1 false []; OResponse 3 true []; OResponse 3 true [];
   OResponse 4 true [5%N]; OResponse 99 true []].

Lemma nv_history_ok :
  adm false nv_history = true
  /\ let r := run_ops Impl (init true 1) nv_history in
     fired (fst r) = true /\ outstanding (fst r) = []
     /\ count_completion (concat (snd r)) = 1
     /\ In (EBackend 2 7 (Some [9%N])) (concat (snd r))
     /\ count_cons 3 (concat (snd r)) = 1.
Proof. vm_compute. repeat split; try reflexivity. tauto. Qed.

(* consumers that return an error: fail on the last answered, in the middle, all fail *)
Lemma nv_failing_ok :
  let run h := run_ops Impl (init true 1) h in
  let c h := count_completion (concat (snd (run h))) in
  let h_last := [OSend (CPlain 1) [1%N]; OSend (CFail 2) [2%N]; OFire; OResponse 1 true []; OResponse 2 true []] in
  let h_mid := [OSend (CFail 1) [1%N]; OSend (CPlain 2) [2%N]; OFire; OResponse 1 false []; OResponse 2 true []] in
  let h_all := [OSend (CFail 1) [1%N]; OSend (CFail 2) [2%N]; OFire; OResponse 2 true []; OResponse 1 true []] in
  adm false h_last = true /\ adm false h_mid = true /\ adm false h_all = true
  /\ outstanding (fst (run h_last)) = [] /\ c h_last = 1
  /\ outstanding (fst (run h_mid)) = [] /\ c h_mid = 1
  /\ outstanding (fst (run h_all)) = [] /\ c h_all = 1.
Proof. vm_compute. repeat split; reflexivity. Qed.
