(* C13 — proofs about Model/LoginInbound.v. *)
From Coq Require Import List ZArith NArith Bool Arith Lia.
From Verif Require Import Base.Conc Model.LoginInbound.
Import ListNotations.

(* ---------- lists ---------- *)

Definition sumf {A} (w : A -> nat) (l : list A) : nat := fold_right (fun a n => w a + n) 0 l.

Lemma sumf_app {A} (w : A -> nat) l1 l2 : sumf w (l1 ++ l2) = sumf w l1 + sumf w l2.
Proof. induction l1; simpl; lia. Qed.

Lemma sumf_filter {A} (p : A -> bool) l : sumf (fun a => if p a then 1 else 0) l = length (filter p l).
Proof. induction l as [|a l IH]; simpl; auto. destruct (p a); simpl; lia. Qed.

Lemma sumf_upd {A} (w : A -> nat) (l : list A) r x d :
  w d = 0 ->
  sumf w (upd l r x) + w (nth r l d) <= sumf w l + w x.
Proof.
  intros Hd. revert r. induction l as [|a l IH]; intros [|r]; simpl; try lia.
  specialize (IH r). lia.
Qed.

Lemma in_upd {A} (l : list A) r x y : In y (upd l r x) -> y = x \/ In y l.
Proof.
  revert r. induction l as [|a l IH]; intros [|r]; simpl; auto.
  - intros [<-|H]; auto.
  - intros [<-|H]; auto. destruct (IH _ H); auto.
Qed.

(* ---------- the map ---------- *)

Lemma mfind_mremove_same id m : mfind id (mremove id m) = None.
Proof.
  induction m as [|[i k] r IH]; simpl; auto.
  destruct (Z.eqb id i) eqn:E; auto. simpl. now rewrite E.
Qed.

Lemma mfind_mremove_other id id' m : id <> id' -> mfind id' (mremove id m) = mfind id' m.
Proof.
  intros Hn. induction m as [|[i k] r IH]; simpl; auto.
  destruct (Z.eqb_spec id i) as [->|Hi].
  - rewrite IH. destruct (Z.eqb_spec id' i); congruence.
  - simpl. now rewrite IH.
Qed.

Lemma mfind_mset_same id k m : mfind id (mset id k m) = Some k.
Proof. unfold mset. simpl. now rewrite Z.eqb_refl. Qed.

Lemma mfind_mset_other id id' k m : id <> id' -> mfind id' (mset id k m) = mfind id' m.
Proof.
  intros Hn. unfold mset. simpl. destruct (Z.eqb_spec id' id); [congruence|].
  now apply mfind_mremove_other.
Qed.

(* ---------- accounting ---------- *)

Definition w_tok (id : Z) (l : rlocal) : nat :=
  match l_tok l with Some (i, _, _) => if Z.eqb id i then 1 else 0 | None => 0 end.
Definition tokens (id : Z) (s : state) : nat := sumf (w_tok id) (locals s).
Definition inmap (id : Z) (s : state) : nat :=
  match mfind id (outstanding s) with Some _ => 1 | None => 0 end.
Definition w_cb (l : rlocal) : nat := if l_cb l then 1 else 0.
Definition cbtokens (s : state) : nat := sumf w_cb (locals s).
Definition onall1 (s : state) : nat := if on_all s then 1 else 0.

Definition w_cons (id : Z) (e : event) : nat :=
  match e with ECons i _ _ => if Z.eqb id i then 1 else 0 | _ => 0 end.
Definition w_reg (id : Z) (e : event) : nat :=
  match e with EReg i _ => if Z.eqb id i then 1 else 0 | _ => 0 end.
Definition w_compl (e : event) : nat := match e with ECompletion => 1 | _ => 0 end.
Definition w_fire (e : event) : nat := match e with EFire => 1 | _ => 0 end.

Lemma count_cons_sum id evs : count_cons id evs = sumf (w_cons id) evs.
Proof.
  unfold count_cons. rewrite <- sumf_filter. induction evs as [|e l IH]; simpl; auto.
  rewrite IH. destruct e; simpl; auto.
Qed.
Lemma count_reg_sum id evs : count_reg id evs = sumf (w_reg id) evs.
Proof.
  unfold count_reg. rewrite <- sumf_filter. induction evs as [|e l IH]; simpl; auto.
  rewrite IH. destruct e; simpl; auto.
Qed.
Lemma count_completion_sum evs : count_completion evs = sumf w_compl evs.
Proof.
  unfold count_completion. rewrite <- sumf_filter. induction evs as [|e l IH]; simpl; auto.
  rewrite IH. destruct e; simpl; auto.
Qed.
Lemma count_fire_sum evs : count_fire evs = sumf w_fire evs.
Proof.
  unfold count_fire. rewrite <- sumf_filter. induction evs as [|e l IH]; simpl; auto.
  rewrite IH. destruct e; simpl; auto.
Qed.

(* every invocation, every consumer taken out of the map and not yet invoked, and every map entry
   for id is paid for by a registration under id *)
Definition acc_cons (s : state) (evs : list event) : Prop :=
  forall id, sumf (w_cons id) evs + tokens id s + inmap id s <= sumf (w_reg id) evs.

(* Spec: every completion, every callback taken and not yet run, and the stored callback is paid
   for by a fire *)
Definition acc_compl (s : state) (evs : list event) : Prop :=
  sumf w_compl evs + cbtokens s + onall1 s <= sumf w_fire evs.

Inductive is_action (v : variant) : (state -> state * list event) -> Prop :=
| IA_alloc r : is_action v (s_alloc r)
| IA_register r k d : is_action v (s_register r k d)
| IA_write r d : is_action v (s_write r d)
| IA_lookup r id a : is_action v (r_lookup r id a)
| IA_consume r : is_action v (r_consume r)
| IA_check r : is_action v (r_check v r)
| IA_complete r : is_action v (r_complete r)
| IA_fire r : is_action v (f_fire v r)
| IA_flush r : is_action v (f_flush r)
| IA_clear : is_action v a_clear.

Lemma w_tok_local0 id : w_tok id local0 = 0. Proof. reflexivity. Qed.
Lemma w_cb_local0 : w_cb local0 = 0. Proof. reflexivity. Qed.

Lemma tokens_set_local id s r x :
  tokens id (set_local s r x) + w_tok id (get_local s r) <= tokens id s + w_tok id x.
Proof. unfold tokens, set_local, get_local; simpl. apply sumf_upd. apply w_tok_local0. Qed.

Lemma cbtokens_set_local s r x :
  cbtokens (set_local s r x) + w_cb (get_local s r) <= cbtokens s + w_cb x.
Proof. unfold cbtokens, set_local, get_local; simpl. apply sumf_upd. apply w_cb_local0. Qed.

(* the sends a consumer makes from inside keep the accounting *)
Lemma send_now_acc k d s evs :
  acc_cons s evs -> acc_cons (fst (send_now k d s)) (evs ++ snd (send_now k d s)).
Proof.
  intros H id. specialize (H id). unfold send_now, register_core. cbn -[mset mfind Z.add].
  rewrite !sumf_app.
  set (nid := (seqc s + 1)%Z).
  assert (Hev : sumf (w_cons id) (EReg nid k :: (if fired s then [EMsg nid d] else [])) = 0)
    by (destruct (fired s); reflexivity).
  assert (Hreg : sumf (w_reg id) (EReg nid k :: (if fired s then [EMsg nid d] else []))
                 = if Z.eqb id nid then 1 else 0)
    by (destruct (fired s); simpl; lia).
  rewrite Hev, Hreg. unfold inmap in *. cbn -[mset mfind Z.add].
  change (tokens id {| seqc := nid; outstanding := mset nid k (outstanding s);
                       queue := if fired s then queue s else queue s ++ [(nid, d)];
                       fired := fired s; on_all := on_all s; proto_ok := proto_ok s;
                       locals := locals s |}) with (tokens id s).
  unfold tokens, sumf in *.
  destruct (Z.eqb_spec id nid) as [->|Hn].
  - rewrite mfind_mset_same. destruct (mfind nid (outstanding s)); lia.
  - rewrite mfind_mset_other by congruence. lia.
Qed.

Lemma send_more_acc n tag s evs :
  acc_cons s evs -> acc_cons (fst (send_more n tag s)) (evs ++ snd (send_more n tag s)).
Proof.
  revert tag s evs. induction n as [|n IH]; intros tag s evs H.
  - simpl. now rewrite app_nil_r.
  - cbn [send_more].
    pose proof (send_now_acc (CPlain (tag + 1)) [N.succ tag] s evs H) as H1.
    destruct (send_now (CPlain (tag + 1)) [N.succ tag] s) as [s1 e1]. cbn [fst snd] in H1.
    specialize (IH (tag + 1)%N s1 (evs ++ e1) H1).
    destruct (send_more n (tag + 1) s1) as [s2 e2]. cbn [fst snd] in *.
    now rewrite app_assoc.
Qed.

(* locals are untouched by sends from inside a consumer *)
Lemma send_now_locals k d s : locals (fst (send_now k d s)) = locals s.
Proof. reflexivity. Qed.
Lemma send_more_locals n tag s : locals (fst (send_more n tag s)) = locals s.
Proof.
  revert tag s. induction n as [|n IH]; intros tag s; [reflexivity|].
  cbn [send_more].
  pose proof (send_now_locals (CPlain (tag + 1)) [N.succ tag] s) as E1.
  destruct (send_now (CPlain (tag + 1)) [N.succ tag] s) as [s1 e1]. cbn [fst] in E1.
  specialize (IH (tag + 1)%N s1). destruct (send_more n (tag + 1) s1) as [s2 e2]. cbn [fst] in *.
  congruence.
Qed.

Lemma sumf_msgs (w : event -> nat) (ms : list (Z * body)) :
  (forall i d, w (EMsg i d) = 0) -> sumf w (map (fun m => EMsg (fst m) (snd m)) ms) = 0.
Proof. intros H. induction ms as [|m ms IH]; simpl; auto. now rewrite H, IH. Qed.

Lemma step_acc_cons v a s evs :
  is_action v a -> acc_cons s evs -> acc_cons (fst (a s)) (evs ++ snd (a s)).
Proof.
  intros Ha Hacc. destruct Ha.
  - (* alloc *)
    intros id. specialize (Hacc id). unfold s_alloc. cbn -[mset mfind mremove Z.add tokens inmap]. rewrite !sumf_app. cbn -[mset mfind mremove Z.add tokens inmap].
    set (l := get_local s r).
    pose proof (tokens_set_local id
      (mkSt (seqc s + 1) (outstanding s) (queue s) (fired s) (on_all s) (proto_ok s) (locals s)) r
      (mkLocal (seqc s + 1) (l_fired l) (l_tok l) (l_hit l) (l_done l) (l_cb l) (l_msgs l))) as H1.
    change (get_local (mkSt (seqc s + 1) (outstanding s) (queue s) (fired s) (on_all s) (proto_ok s)
                            (locals s)) r) with l in H1.
    change (tokens id (mkSt (seqc s + 1) (outstanding s) (queue s) (fired s) (on_all s) (proto_ok s)
                            (locals s))) with (tokens id s) in H1.
    assert (E : w_tok id (mkLocal (seqc s + 1) (l_fired l) (l_tok l) (l_hit l) (l_done l) (l_cb l) (l_msgs l))
                = w_tok id l) by reflexivity.
    rewrite E in H1. unfold inmap in *. cbn -[mset mfind mremove Z.add tokens]. lia.
  - (* register *)
    intros id. specialize (Hacc id). unfold s_register, register_core. cbn -[mset mfind mremove Z.add tokens inmap]. rewrite !sumf_app. cbn -[mset mfind mremove Z.add tokens inmap].
    set (l := get_local s r).
    set (s1 := mkSt (seqc s) (mset (l_id l) k (outstanding s))
                    (if fired s then queue s else queue s ++ [(l_id l, d)])
                    (fired s) (on_all s) (proto_ok s) (locals s)).
    pose proof (tokens_set_local id s1 r
      (mkLocal (l_id l) (fired s) (l_tok l) (l_hit l) (l_done l) (l_cb l) (l_msgs l))) as H1.
    change (get_local s1 r) with l in H1.
    change (tokens id s1) with (tokens id s) in H1.
    assert (E : w_tok id (mkLocal (l_id l) (fired s) (l_tok l) (l_hit l) (l_done l) (l_cb l) (l_msgs l))
                = w_tok id l) by reflexivity.
    rewrite E in H1. unfold inmap in *. cbn -[mset mfind mremove Z.add tokens].
    destruct (Z.eqb_spec id (l_id l)) as [->|Hn].
    + rewrite mfind_mset_same. destruct (mfind (l_id l) (outstanding s)); lia.
    + rewrite mfind_mset_other by congruence. lia.
  - (* write *)
    intros id. specialize (Hacc id). unfold s_write. cbn -[mset mfind mremove Z.add tokens inmap]. rewrite !sumf_app.
    destruct (l_fired (get_local s r)); cbn -[mset mfind mremove Z.add tokens inmap]; lia.
  - (* lookup *)
    intros id0. specialize (Hacc id0). unfold r_lookup.
    set (l := get_local s r).
    destruct (mfind id (outstanding s)) as [k|] eqn:Hf; cbn -[mset mfind mremove Z.add tokens inmap]; rewrite !sumf_app; cbn -[mset mfind mremove Z.add tokens inmap].
    + set (s1 := mkSt (seqc s) (mremove id (outstanding s)) (queue s) (fired s) (on_all s) (proto_ok s) (locals s)).
      pose proof (tokens_set_local id0 s1 r
        (mkLocal (l_id l) (l_fired l) (Some (id, k, a)) true false false (l_msgs l))) as H1.
      change (get_local s1 r) with l in H1. change (tokens id0 s1) with (tokens id0 s) in H1.
      unfold w_tok at 2 in H1. simpl in H1. unfold inmap in *. cbn -[mset mfind mremove Z.add tokens].
      destruct (Z.eqb_spec id0 id) as [->|Hn].
      * rewrite mfind_mremove_same. rewrite Hf in Hacc. lia.
      * rewrite mfind_mremove_other by congruence. lia.
    + pose proof (tokens_set_local id0 s r
        (mkLocal (l_id l) (l_fired l) None false false false (l_msgs l))) as H1.
      fold l in H1. unfold w_tok at 2 in H1. simpl in H1. unfold inmap in *. cbn -[mset mfind mremove Z.add tokens]. lia.
  - (* consume *)
    unfold r_consume. set (l := get_local s r).
    destruct (l_tok l) as [[[id k] a]|] eqn:Ht; [|simpl; now rewrite app_nil_r].
    set (s0 := set_local s r (mkLocal (l_id l) (l_fired l) None (l_hit l) (l_done l) (l_cb l) (l_msgs l))).
    (* the token becomes the invocation *)
    assert (H0 : acc_cons s0 (evs ++ [ECons id k a])).
    { intros id0. specialize (Hacc id0). rewrite sumf_app. cbn -[mset mfind mremove Z.add tokens inmap].
      pose proof (tokens_set_local id0 s r
        (mkLocal (l_id l) (l_fired l) None (l_hit l) (l_done l) (l_cb l) (l_msgs l))) as H1.
      fold l in H1. unfold w_tok at 2 in H1. simpl in H1.
      assert (E : w_tok id0 l = if Z.eqb id0 id then 1 else 0) by (unfold w_tok; now rewrite Ht).
      rewrite E in H1. rewrite sumf_app. cbn -[mset mfind mremove Z.add tokens inmap].
      change (inmap id0 s0) with (inmap id0 s). fold s0 in H1. lia. }
    destruct k as [tag|tag n|bid]; cbn -[mset mfind mremove Z.add tokens inmap].
    + exact H0.
    + pose proof (send_more_acc n tag s0 _ H0) as H2.
      destruct (send_more n tag s0) as [s1 e1]. cbn [fst snd] in *.
      now rewrite <- app_assoc in H2.
    + intros id0. specialize (H0 id0). rewrite !sumf_app in *. cbn -[tokens inmap] in *. lia.
  - (* check *)
    intros id. specialize (Hacc id). unfold r_check. set (l := get_local s r).
    destruct (l_hit l); cbn -[mset mfind mremove Z.add tokens inmap]; rewrite !sumf_app; cbn -[mset mfind mremove Z.add tokens inmap]; [|lia].
    set (on' := match v with Impl => on_all s
                | Spec => if match outstanding s with [] => true | _ => false end then false else on_all s end).
    set (s1 := mkSt (seqc s) (outstanding s) (queue s) (fired s) on' (proto_ok s) (locals s)).
    set (x := mkLocal (l_id l) (l_fired l) (l_tok l) true
                      match outstanding s with [] => true | _ => false end
                      (match outstanding s with [] => true | _ => false end && on_all s) (l_msgs l)).
    pose proof (tokens_set_local id s1 r x) as H1.
    change (get_local s1 r) with l in H1. change (tokens id s1) with (tokens id s) in H1.
    assert (E : w_tok id x = w_tok id l) by reflexivity. rewrite E in H1.
    change (inmap id (set_local s1 r x)) with (inmap id s). lia.
  - (* complete *)
    intros id. specialize (Hacc id). unfold r_complete. set (l := get_local s r).
    destruct (l_hit l && l_done l && l_cb l); cbn -[mset mfind mremove Z.add tokens inmap]; rewrite !sumf_app; cbn -[mset mfind mremove Z.add tokens inmap]; [|lia].
    set (x := mkLocal (l_id l) (l_fired l) (l_tok l) false false false (l_msgs l)).
    pose proof (tokens_set_local id s r x) as H1. fold l in H1.
    assert (E : w_tok id x = w_tok id l) by reflexivity. rewrite E in H1.
    change (inmap id (set_local s r x)) with (inmap id s). lia.
  - (* fire *)
    intros id. specialize (Hacc id). unfold f_fire. set (l := get_local s r).
    cbn -[mset mfind mremove Z.add tokens inmap]. rewrite !sumf_app. cbn -[mset mfind mremove Z.add tokens inmap].
    set (on' := match v with Impl => true | Spec => negb match queue s with [] => true | _ => false end end).
    set (s1 := mkSt (seqc s) (outstanding s) [] true on' (proto_ok s) (locals s)).
    set (x := mkLocal (l_id l) (l_fired l) (l_tok l) false false
                      match queue s with [] => true | _ => false end (queue s)).
    pose proof (tokens_set_local id s1 r x) as H1.
    change (get_local s1 r) with l in H1. change (tokens id s1) with (tokens id s) in H1.
    assert (E : w_tok id x = w_tok id l) by reflexivity. rewrite E in H1.
    change (inmap id (set_local s1 r x)) with (inmap id s). lia.
  - (* flush *)
    intros id. specialize (Hacc id). unfold f_flush. set (l := get_local s r).
    set (x := mkLocal (l_id l) (l_fired l) (l_tok l) (l_hit l) (l_done l) false []).
    pose proof (tokens_set_local id s r x) as H1. fold l in H1.
    assert (E : w_tok id x = w_tok id l) by reflexivity. rewrite E in H1.
    assert (Hm : forall ms, sumf (w_cons id) (map (fun m => EMsg (fst m) (snd m)) ms ++ [EFlush]) = 0
                         /\ sumf (w_reg id) (map (fun m => EMsg (fst m) (snd m)) ms ++ [EFlush]) = 0).
    { intros ms. rewrite !sumf_app, !sumf_msgs by reflexivity. split; reflexivity. }
    destruct (l_msgs l) as [|m ms] eqn:Em.
    + destruct (l_cb l); cbn -[mset mfind mremove Z.add tokens inmap]; rewrite !sumf_app; cbn -[mset mfind mremove Z.add tokens inmap]; [|lia].
      change (inmap id (set_local s r x)) with (inmap id s). lia.
    + destruct (Hm (m :: ms)) as [Hc Hr]. cbn [fst snd].
      rewrite (sumf_app (w_cons id) evs), (sumf_app (w_reg id) evs), Hc, Hr.
      change (inmap id (set_local s r x)) with (inmap id s). lia.
  - (* clear *)
    intros id. specialize (Hacc id). unfold a_clear. cbn -[mset mfind mremove Z.add tokens inmap]. rewrite !sumf_app. cbn -[mset mfind mremove Z.add tokens inmap].
    change (tokens id (mkSt (seqc s) (outstanding s) (queue s) (fired s) false (proto_ok s) (locals s)))
      with (tokens id s).
    change (inmap id (mkSt (seqc s) (outstanding s) (queue s) (fired s) false (proto_ok s) (locals s)))
      with (inmap id s). lia.
Qed.

(* ---------- the completion callback runs at most once per fire (Spec) ---------- *)

Lemma send_more_on_all n tag s : on_all (fst (send_more n tag s)) = on_all s.
Proof.
  revert tag s. induction n as [|n IH]; intros tag s; [reflexivity|].
  cbn [send_more].
  assert (E1 : on_all (fst (send_now (CPlain (tag + 1)) [N.succ tag] s)) = on_all s) by reflexivity.
  destruct (send_now (CPlain (tag + 1)) [N.succ tag] s) as [s1 e1]. cbn [fst] in E1.
  specialize (IH (tag + 1)%N s1). destruct (send_more n (tag + 1) s1) as [s2 e2]. cbn [fst] in *.
  congruence.
Qed.

Lemma send_more_no_compl n tag s :
  sumf w_compl (snd (send_more n tag s)) = 0 /\ sumf w_fire (snd (send_more n tag s)) = 0.
Proof.
  revert tag s. induction n as [|n IH]; intros tag s; [split; reflexivity|].
  cbn [send_more].
  assert (E1 : sumf w_compl (snd (send_now (CPlain (tag + 1)) [N.succ tag] s)) = 0
               /\ sumf w_fire (snd (send_now (CPlain (tag + 1)) [N.succ tag] s)) = 0).
  { unfold send_now, register_core. cbn -[mset Z.add]. destruct (fired s); split; reflexivity. }
  destruct (send_now (CPlain (tag + 1)) [N.succ tag] s) as [s1 e1]. cbn [snd] in E1.
  specialize (IH (tag + 1)%N s1). destruct (send_more n (tag + 1) s1) as [s2 e2]. cbn [snd] in *.
  rewrite !sumf_app. lia.
Qed.

Lemma step_acc_compl a s evs :
  is_action Spec a -> acc_compl s evs -> acc_compl (fst (a s)) (evs ++ snd (a s)).
Proof.
  unfold acc_compl. intros Ha Hacc. rewrite !sumf_app. destruct Ha.
  - (* alloc *)
    unfold s_alloc. cbn -[Z.add cbtokens onall1]. set (l := get_local s r).
    set (s1 := mkSt (seqc s + 1) (outstanding s) (queue s) (fired s) (on_all s) (proto_ok s) (locals s)).
    set (x := mkLocal (seqc s + 1) (l_fired l) (l_tok l) (l_hit l) (l_done l) (l_cb l) (l_msgs l)).
    pose proof (cbtokens_set_local s1 r x) as H1.
    change (get_local s1 r) with l in H1. change (cbtokens s1) with (cbtokens s) in H1.
    change (w_cb x) with (w_cb l) in H1. change (onall1 (set_local s1 r x)) with (onall1 s). lia.
  - (* register *)
    unfold s_register, register_core. cbn -[mset cbtokens onall1]. set (l := get_local s r).
    set (s1 := mkSt (seqc s) (mset (l_id l) k (outstanding s))
                    (if fired s then queue s else queue s ++ [(l_id l, d)])
                    (fired s) (on_all s) (proto_ok s) (locals s)).
    set (x := mkLocal (l_id l) (fired s) (l_tok l) (l_hit l) (l_done l) (l_cb l) (l_msgs l)).
    pose proof (cbtokens_set_local s1 r x) as H1.
    change (get_local s1 r) with l in H1. change (cbtokens s1) with (cbtokens s) in H1.
    change (w_cb x) with (w_cb l) in H1. change (onall1 (set_local s1 r x)) with (onall1 s). lia.
  - (* write *)
    unfold s_write. cbn -[cbtokens onall1]. destruct (l_fired (get_local s r)); simpl; lia.
  - (* lookup *)
    unfold r_lookup. set (l := get_local s r).
    destruct (mfind id (outstanding s)) as [k|]; cbn -[mremove cbtokens onall1].
    + set (s1 := mkSt (seqc s) (mremove id (outstanding s)) (queue s) (fired s) (on_all s) (proto_ok s) (locals s)).
      set (x := mkLocal (l_id l) (l_fired l) (Some (id, k, a)) true false false (l_msgs l)).
      pose proof (cbtokens_set_local s1 r x) as H1.
      change (get_local s1 r) with l in H1. change (cbtokens s1) with (cbtokens s) in H1.
      change (w_cb x) with 0 in H1. change (onall1 (set_local s1 r x)) with (onall1 s). lia.
    + set (x := mkLocal (l_id l) (l_fired l) None false false false (l_msgs l)).
      pose proof (cbtokens_set_local s r x) as H1. fold l in H1.
      change (w_cb x) with 0 in H1. change (onall1 (set_local s r x)) with (onall1 s). lia.
  - (* consume *)
    unfold r_consume. set (l := get_local s r).
    destruct (l_tok l) as [[[id k] a]|]; [|simpl; lia].
    set (x := mkLocal (l_id l) (l_fired l) None (l_hit l) (l_done l) (l_cb l) (l_msgs l)).
    set (s0 := set_local s r x).
    pose proof (cbtokens_set_local s r x) as H1. fold l in H1. change (w_cb x) with (w_cb l) in H1.
    fold s0 in H1.
    destruct k as [tag|tag n|bid]; cbn -[cbtokens onall1 send_more].
    + change (onall1 s0) with (onall1 s). lia.
    + pose proof (send_more_locals n tag s0) as HL. pose proof (send_more_on_all n tag s0) as HO.
      destruct (send_more_no_compl n tag s0) as [HC HF].
      destruct (send_more n tag s0) as [s1 e1]. cbn [fst snd] in *.
      assert (Ecb : cbtokens s1 = cbtokens s0) by (unfold cbtokens; now rewrite HL).
      assert (Eon : onall1 s1 = onall1 s) by (unfold onall1; now rewrite HO).
      rewrite Ecb, Eon.
      change (sumf w_compl (ECons id (CSendMore tag n) a :: e1)) with (sumf w_compl e1).
      change (sumf w_fire (ECons id (CSendMore tag n) a :: e1)) with (sumf w_fire e1). lia.
    + change (onall1 s0) with (onall1 s). lia.
  - (* check: the callback moves from the struct to the call that will run it *)
    unfold r_check. set (l := get_local s r).
    destruct (l_hit l); cbn -[cbtokens onall1]; [|lia].
    set (done := match outstanding s with [] => true | _ => false end).
    set (s1 := mkSt (seqc s) (outstanding s) (queue s) (fired s) (if done then false else on_all s)
                    (proto_ok s) (locals s)).
    set (x := mkLocal (l_id l) (l_fired l) (l_tok l) true done (done && on_all s) (l_msgs l)).
    pose proof (cbtokens_set_local s1 r x) as H1.
    change (get_local s1 r) with l in H1. change (cbtokens s1) with (cbtokens s) in H1.
    assert (E : w_cb x + onall1 (set_local s1 r x) = onall1 s).
    { unfold w_cb, onall1. simpl. destruct done, (on_all s); reflexivity. }
    lia.
  - (* complete *)
    unfold r_complete. set (l := get_local s r).
    destruct (l_hit l && l_done l && l_cb l) eqn:Ec; cbn -[cbtokens onall1]; [|lia].
    apply andb_true_iff in Ec. destruct Ec as [_ Ecb].
    set (x := mkLocal (l_id l) (l_fired l) (l_tok l) false false false (l_msgs l)).
    pose proof (cbtokens_set_local s r x) as H1. fold l in H1.
    change (w_cb x) with 0 in H1. unfold w_cb in H1. rewrite Ecb in H1.
    change (onall1 (set_local s r x)) with (onall1 s). lia.
  - (* fire *)
    unfold f_fire. set (l := get_local s r). cbn -[cbtokens onall1].
    set (empty := match queue s with [] => true | _ => false end).
    set (s1 := mkSt (seqc s) (outstanding s) [] true (negb empty) (proto_ok s) (locals s)).
    set (x := mkLocal (l_id l) (l_fired l) (l_tok l) false false empty (queue s)).
    pose proof (cbtokens_set_local s1 r x) as H1.
    change (get_local s1 r) with l in H1. change (cbtokens s1) with (cbtokens s) in H1.
    assert (E : w_cb x + onall1 (set_local s1 r x) = 1).
    { unfold w_cb, onall1. simpl. destruct empty; reflexivity. }
    lia.
  - (* flush *)
    unfold f_flush. set (l := get_local s r).
    set (x := mkLocal (l_id l) (l_fired l) (l_tok l) (l_hit l) (l_done l) false []).
    pose proof (cbtokens_set_local s r x) as H1. fold l in H1. change (w_cb x) with 0 in H1.
    destruct (l_msgs l) as [|m ms].
    + destruct (l_cb l) eqn:Ecb; cbn -[cbtokens onall1]; [|lia].
      unfold w_cb in H1. rewrite Ecb in H1. change (onall1 (set_local s r x)) with (onall1 s). lia.
    + cbn [fst snd]. rewrite !sumf_app, !sumf_msgs by reflexivity.
      change (onall1 (set_local s r x)) with (onall1 s). simpl. lia.
  - (* clear *)
    unfold a_clear. cbn -[cbtokens onall1].
    change (cbtokens (mkSt (seqc s) (outstanding s) (queue s) (fired s) false (proto_ok s) (locals s)))
      with (cbtokens s).
    unfold onall1 at 1. simpl. lia.
Qed.

(* ---------- id correlation: who is invoked, and with what ---------- *)

Definition tokJ (t : option (Z * consumer * arg)) (evs : list event) : Prop :=
  match t with
  | None => True
  | Some (id, k, a) => In (EReg id k) evs /\ In (EResp id a) evs
  end.

Definition justified (s : state) (evs : list event) : Prop :=
  (forall id k, mfind id (outstanding s) = Some k -> In (EReg id k) evs)
  /\ (forall l, In l (locals s) -> tokJ (l_tok l) evs)
  /\ (forall id k a, In (ECons id k a) evs -> In (EReg id k) evs /\ In (EResp id a) evs)
  /\ (forall id bid a, In (EBackend id bid a) evs -> In (EReg id (CRelay bid)) evs /\ In (EResp id a) evs).

Lemma tokJ_mono t evs ev : tokJ t evs -> tokJ t (evs ++ ev).
Proof. destruct t as [[[id k] a]|]; simpl; auto. intros [H1 H2]. split; apply in_or_app; auto. Qed.

Lemma mfind_mremove_incl id id' m k : mfind id' (mremove id m) = Some k -> mfind id' m = Some k.
Proof.
  destruct (Z.eq_dec id id') as [->|Hn].
  - now rewrite mfind_mremove_same.
  - now rewrite mfind_mremove_other.
Qed.

Lemma get_local_tokJ s r evs :
  (forall l, In l (locals s) -> tokJ (l_tok l) evs) -> tokJ (l_tok (get_local s r)) evs.
Proof.
  intros H. unfold get_local. destruct (nth_in_or_default r (locals s) local0) as [Hin|E].
  - now apply H.
  - rewrite E. exact I.
Qed.

Lemma locals_set_local_tokJ s r x evs :
  (forall l, In l (locals s) -> tokJ (l_tok l) evs) -> tokJ (l_tok x) evs ->
  forall l, In l (locals (set_local s r x)) -> tokJ (l_tok l) evs.
Proof.
  intros H Hx l Hin. unfold set_local in Hin; simpl in Hin.
  apply in_upd in Hin. destruct Hin as [->|Hin]; auto.
Qed.

(* the four clauses after appending events that contain no ECons/EBackend *)
Lemma justified_weaken s s' evs ev :
  justified s evs ->
  (forall id k, mfind id (outstanding s') = Some k -> In (EReg id k) (evs ++ ev)) ->
  (forall l, In l (locals s') -> tokJ (l_tok l) (evs ++ ev)) ->
  (forall id k a, In (ECons id k a) ev -> In (EReg id k) (evs ++ ev) /\ In (EResp id a) (evs ++ ev)) ->
  (forall id bid a, In (EBackend id bid a) ev ->
     In (EReg id (CRelay bid)) (evs ++ ev) /\ In (EResp id a) (evs ++ ev)) ->
  justified s' (evs ++ ev).
Proof.
  intros (J1 & J2 & J3 & J4) H1 H2 H3 H4. split; [exact H1|]. split; [exact H2|]. split.
  - intros id k a Hin. apply in_app_or in Hin. destruct Hin as [Hin|Hin]; [|auto].
    destruct (J3 _ _ _ Hin). split; apply in_or_app; auto.
  - intros id bid a Hin. apply in_app_or in Hin. destruct Hin as [Hin|Hin]; [|auto].
    destruct (J4 _ _ _ Hin). split; apply in_or_app; auto.
Qed.

Lemma send_now_map k d s evs :
  (forall id k', mfind id (outstanding s) = Some k' -> In (EReg id k') evs) ->
  forall id k', mfind id (outstanding (fst (send_now k d s))) = Some k' ->
                In (EReg id k') (evs ++ snd (send_now k d s)).
Proof.
  intros H id k' Hf. unfold send_now, register_core in *. cbn -[mset mfind Z.add] in *.
  destruct (Z.eq_dec (seqc s + 1) id) as [<-|Hn].
  - rewrite mfind_mset_same in Hf. inversion Hf; subst. apply in_or_app. right. now left.
  - rewrite mfind_mset_other in Hf by auto. apply in_or_app. left. auto.
Qed.

Lemma send_more_map n tag s evs :
  (forall id k', mfind id (outstanding s) = Some k' -> In (EReg id k') evs) ->
  forall id k', mfind id (outstanding (fst (send_more n tag s))) = Some k' ->
                In (EReg id k') (evs ++ snd (send_more n tag s)).
Proof.
  revert tag s evs. induction n as [|n IH]; intros tag s evs H.
  - simpl. intros id k' Hf. rewrite app_nil_r. auto.
  - cbn [send_more].
    pose proof (send_now_map (CPlain (tag + 1)) [N.succ tag] s evs H) as H1.
    destruct (send_now (CPlain (tag + 1)) [N.succ tag] s) as [s1 e1]. cbn [fst snd] in H1.
    specialize (IH (tag + 1)%N s1 (evs ++ e1) H1).
    destruct (send_more n (tag + 1) s1) as [s2 e2]. cbn [fst snd] in *.
    intros id k' Hf. rewrite app_assoc. auto.
Qed.

Lemma send_more_no_inv n tag s e :
  In e (snd (send_more n tag s)) ->
  match e with ECons _ _ _ | EBackend _ _ _ => False | _ => True end.
Proof.
  revert tag s. induction n as [|n IH]; intros tag s; [intros []|].
  cbn [send_more].
  assert (E1 : forall e, In e (snd (send_now (CPlain (tag + 1)) [N.succ tag] s)) ->
               match e with ECons _ _ _ | EBackend _ _ _ => False | _ => True end).
  { unfold send_now, register_core. cbn -[mset Z.add]. intros e0 [<-|Hin]; [exact I|].
    destruct (fired s); [destruct Hin as [<-|[]]; exact I|destruct Hin]. }
  destruct (send_now (CPlain (tag + 1)) [N.succ tag] s) as [s1 e1]. cbn [snd] in E1.
  specialize (IH (tag + 1)%N s1). destruct (send_more n (tag + 1) s1) as [s2 e2]. cbn [snd] in *.
  intros Hin. apply in_app_or in Hin. destruct Hin as [Hin|Hin]; [exact (E1 _ Hin)|exact (IH Hin)].
Qed.

Lemma step_justified v a s evs :
  is_action v a -> justified s evs -> justified (fst (a s)) (evs ++ snd (a s)).
Proof.
  intros Ha J. pose proof J as (J1 & J2 & J3 & J4).
  assert (Jmap : forall ev id k, mfind id (outstanding s) = Some k -> In (EReg id k) (evs ++ ev))
    by (intros; apply in_or_app; left; auto).
  assert (Jloc : forall ev l, In l (locals s) -> tokJ (l_tok l) (evs ++ ev))
    by (intros; apply tokJ_mono; auto).
  assert (Jget : forall ev r, tokJ (l_tok (get_local s r)) (evs ++ ev))
    by (intros; apply tokJ_mono, get_local_tokJ; auto).
  destruct Ha.
  - (* alloc *)
    unfold s_alloc. cbn -[Z.add]. apply (justified_weaken s _ evs _ J).
    + intros id k. apply Jmap.
    + apply locals_set_local_tokJ; [apply Jloc|apply Jget].
    + intros ? ? ? [].
    + intros ? ? ? [].
  - (* register *)
    unfold s_register, register_core. cbn -[mset mfind]. set (l := get_local s r).
    apply (justified_weaken s _ evs _ J).
    + intros id k0 Hf. cbn -[mset mfind] in Hf. destruct (Z.eq_dec (l_id l) id) as [<-|Hn].
      * rewrite mfind_mset_same in Hf. inversion Hf; subst. apply in_or_app. right. now left.
      * rewrite mfind_mset_other in Hf by auto. now apply Jmap.
    + apply locals_set_local_tokJ; [apply Jloc|apply Jget].
    + intros ? ? ? [E|[]]. discriminate.
    + intros ? ? ? [E|[]]. discriminate.
  - (* write *)
    unfold s_write. cbn. apply (justified_weaken s _ evs _ J).
    + intros id k. apply Jmap.
    + intros l. apply Jloc.
    + destruct (l_fired (get_local s r)); intros ? ? ? Hin; [destruct Hin as [E|[]]; discriminate|destruct Hin].
    + destruct (l_fired (get_local s r)); intros ? ? ? Hin; [destruct Hin as [E|[]]; discriminate|destruct Hin].
  - (* lookup *)
    unfold r_lookup. set (l := get_local s r).
    destruct (mfind id (outstanding s)) as [k|] eqn:Hf; cbn -[mremove mfind].
    + apply (justified_weaken s _ evs _ J).
      * intros id0 k0 Hf0. cbn -[mremove mfind] in Hf0. apply mfind_mremove_incl in Hf0. now apply Jmap.
      * apply locals_set_local_tokJ; [apply Jloc|]. simpl. split.
        -- now apply Jmap.
        -- apply in_or_app. right. now left.
      * intros ? ? ? [E|[]]. discriminate.
      * intros ? ? ? [E|[]]. discriminate.
    + apply (justified_weaken s _ evs _ J).
      * intros id0 k0. apply Jmap.
      * apply locals_set_local_tokJ; [apply Jloc|exact I].
      * intros ? ? ? [E|[]]. discriminate.
      * intros ? ? ? [E|[]]. discriminate.
  - (* consume *)
    unfold r_consume. set (l := get_local s r).
    destruct (l_tok l) as [[[id k] a]|] eqn:Ht.
    2:{ simpl. rewrite app_nil_r. exact J. }
    pose proof (get_local_tokJ s r evs J2) as Htok. fold l in Htok. rewrite Ht in Htok.
    simpl in Htok. destruct Htok as [HR HP].
    set (x := mkLocal (l_id l) (l_fired l) None (l_hit l) (l_done l) (l_cb l) (l_msgs l)).
    set (s0 := set_local s r x).
    destruct k as [tag|tag n|bid]; cbn -[send_more].
    + apply (justified_weaken s _ evs _ J).
      * intros id0 k0. apply Jmap.
      * apply locals_set_local_tokJ; [apply Jloc|exact I].
      * intros ? ? ? [E|[]]. inversion E; subst. split; apply in_or_app; auto.
      * intros ? ? ? [E|[]]. discriminate.
    + pose proof (send_more_map n tag s0 evs) as HM. pose proof (send_more_locals n tag s0) as HL.
      pose proof (send_more_no_inv n tag s0) as HN.
      destruct (send_more n tag s0) as [s1 e1]. cbn [fst snd] in *.
      apply (justified_weaken s _ evs _ J).
      * intros id0 k0 Hf0. specialize (HM J1 id0 k0 Hf0).
        apply in_app_or in HM. apply in_or_app. destruct HM; [left|right; right]; auto.
      * rewrite HL. apply locals_set_local_tokJ; [apply Jloc|exact I].
      * intros id0 k0 a0 [E|Hin].
        -- inversion E; subst. split; apply in_or_app; auto.
        -- apply HN in Hin. destruct Hin.
      * intros id0 b0 a0 [E|Hin]; [discriminate|]. apply HN in Hin. destruct Hin.
    + apply (justified_weaken s _ evs _ J).
      * intros id0 k0. apply Jmap.
      * apply locals_set_local_tokJ; [apply Jloc|exact I].
      * intros ? ? ? [E|[E|[]]]; [|discriminate]. inversion E; subst. split; apply in_or_app; auto.
      * intros ? ? ? [E|[E|[]]]; [discriminate|]. inversion E; subst. split; apply in_or_app; auto.
  - (* check *)
    unfold r_check. set (l := get_local s r).
    destruct (l_hit l); cbn; [|rewrite app_nil_r; exact J].
    apply (justified_weaken s _ evs _ J).
    + intros id k. apply Jmap.
    + apply locals_set_local_tokJ; [apply Jloc|apply Jget].
    + intros ? ? ? [].
    + intros ? ? ? [].
  - (* complete *)
    unfold r_complete. set (l := get_local s r).
    destruct (l_hit l && l_done l && l_cb l); cbn; [|rewrite app_nil_r; exact J].
    apply (justified_weaken s _ evs _ J).
    + intros id k. apply Jmap.
    + apply locals_set_local_tokJ; [apply Jloc|apply Jget].
    + intros ? ? ? [E|[]]. discriminate.
    + intros ? ? ? [E|[]]. discriminate.
  - (* fire *)
    unfold f_fire. cbn. apply (justified_weaken s _ evs _ J).
    + intros id k. apply Jmap.
    + apply locals_set_local_tokJ; [apply Jloc|apply Jget].
    + intros ? ? ? [E|[]]. discriminate.
    + intros ? ? ? [E|[]]. discriminate.
  - (* flush *)
    unfold f_flush. set (l := get_local s r).
    assert (Hm : forall ms e, In e (map (fun m => EMsg (fst m) (snd m)) ms ++ [EFlush]) ->
                 match e with ECons _ _ _ | EBackend _ _ _ => False | _ => True end).
    { intros ms e Hin. apply in_app_or in Hin. destruct Hin as [Hin|[<-|[]]]; [|exact I].
      apply in_map_iff in Hin. destruct Hin as [m [<- _]]. exact I. }
    destruct (l_msgs l) as [|m ms].
    + destruct (l_cb l); cbn; [|rewrite app_nil_r; exact J].
      apply (justified_weaken s _ evs _ J).
      * intros id k. apply Jmap.
      * apply locals_set_local_tokJ; [apply Jloc|apply Jget].
      * intros ? ? ? [E|[]]. discriminate.
      * intros ? ? ? [E|[]]. discriminate.
    + cbn [fst snd]. apply (justified_weaken s _ evs _ J).
      * intros id k. apply Jmap.
      * apply locals_set_local_tokJ; [apply Jloc|apply Jget].
      * intros ? ? ? Hin. apply Hm in Hin. destruct Hin.
      * intros ? ? ? Hin. apply Hm in Hin. destruct Hin.
  - (* clear *)
    unfold a_clear. cbn. rewrite app_nil_r.
    destruct J as (K1 & K2 & K3 & K4). split; [exact K1|]. split; [exact K2|]. split; auto.
Qed.
