(* C23 — proofs about Model/CmdTree.v. *)
From Coq Require Import List NArith Bool Lia Arith.
From Verif Require Import Model.CmdTree.
Import ListNotations.
Open Scope N_scope.

(* ---------- all_usable as forallb ---------- *)

Lemma all_usable_unfold g id k e ro cs :
  all_usable g (ONode id k e ro cs) =
  usable g id && match ro with Some r => all_usable g r | None => true end && forallb (all_usable g) cs.
Proof.
  reflexivity.
Qed.

(* ---------- filter_kids ---------- *)

Lemma filter_kids_forall (P : otree -> Prop) rec l cs :
  (forall c t, In c l -> rec c = Done (Some t) -> P t) ->
  filter_kids rec l = Some cs -> Forall P cs.
Proof.
  revert cs. induction l as [|c r IH]; intros cs HP; cbn [filter_kids].
  - intros [= <-]. constructor.
  - destruct (rec c) as [|[t|]] eqn:E; [discriminate| |].
    + destruct (filter_kids rec r) as [ts|] eqn:Er; [|discriminate]. intros [= <-].
      constructor; [apply (HP c t); [now left|exact E]|].
      apply IH; [|reflexivity]. intros c' t' Hin. apply HP. now right.
    + apply IH. intros c' t' Hin. apply HP. now right.
Qed.

Lemma filter_kids_none rec l c :
  In c l -> rec c = OutOfFuel -> filter_kids rec l = None.
Proof.
  induction l as [|d r IH]; [contradiction|]. intros [->|Hin] Hc; cbn [filter_kids].
  - now rewrite Hc.
  - destruct (rec d) as [|[t|]]; [reflexivity| |]; rewrite (IH Hin Hc); reflexivity.
Qed.

Lemma filter_kids_ext rec rec' l :
  (forall c, In c l -> rec c <> OutOfFuel -> rec' c = rec c) ->
  forall cs, filter_kids rec l = Some cs -> filter_kids rec' l = Some cs.
Proof.
  induction l as [|c r IH]; intros H cs; cbn [filter_kids]; [auto|].
  destruct (rec c) as [|[t|]] eqn:E; [discriminate| |].
  - rewrite (H c (or_introl eq_refl)) by (rewrite E; discriminate). rewrite E.
    destruct (filter_kids rec r) as [ts|] eqn:Er; [|discriminate]. intros [= <-].
    rewrite (IH (fun c' Hin => H c' (or_intror Hin)) ts eq_refl). reflexivity.
  - rewrite (H c (or_introl eq_refl)) by (rewrite E; discriminate). rewrite E.
    apply IH. intros c' Hin. apply H. now right.
Qed.

Lemma filter_kids_some rec l :
  (forall c, In c l -> rec c <> OutOfFuel) -> filter_kids rec l <> None.
Proof.
  induction l as [|c r IH]; intros H; cbn [filter_kids]; [discriminate|].
  assert (Hr : filter_kids rec r <> None) by (apply IH; intros c' Hin; apply H; now right).
  destruct (rec c) as [|[t|]] eqn:E.
  - exfalso. apply (H c); [now left|exact E].
  - destruct (filter_kids rec r); [discriminate|contradiction].
  - exact Hr.
Qed.

(* ---------- clause 1: every node of a copy is usable ---------- *)

Lemma filter_node_usable fuel : forall g id t,
  filter_node fuel g id = Done (Some t) -> all_usable g t = true /\ o_id t = id.
Proof.
  induction fuel as [|f IH]; intros g id t; cbn [filter_node]; [discriminate|].
  destruct (lookup g id) as [n|] eqn:El; [|discriminate].
  assert (Hkids : forall cs, filter_kids (filter_node f g) (g_children n) = Some cs -> forallb (all_usable g) cs = true).
  { intros cs Hk. apply forallb_forall. apply Forall_forall.
    eapply filter_kids_forall; [|exact Hk]. intros c t' _ Hc. exact (proj1 (IH _ _ _ Hc)). }
  destruct (g_kind n) eqn:Ek.
  - destruct (filter_kids (filter_node f g) (g_children n)) as [cs|] eqn:Hk; [|discriminate].
    intros [= <-]. split; [|reflexivity]. rewrite all_usable_unfold. unfold usable. rewrite El, Ek, (Hkids _ eq_refl). reflexivity.
  - destruct (g_req n) eqn:Er; cbn [negb]; [|discriminate].
    destruct (match g_redirect n with None => Done None | Some t0 => filter_node f g t0 end) as [|ro] eqn:Ero; [discriminate|].
    destruct (filter_kids (filter_node f g) (g_children n)) as [cs|] eqn:Hk; [|discriminate].
    intros [= <-]. split; [|reflexivity]. rewrite all_usable_unfold. unfold usable. rewrite El, Ek, Er, (Hkids _ eq_refl).
    destruct ro as [r|]; [|reflexivity].
    destruct (g_redirect n) as [t0|]; [|discriminate]. rewrite (proj1 (IH _ _ _ Ero)). reflexivity.
  - destruct (g_req n) eqn:Er; cbn [negb]; [|discriminate].
    destruct (match g_redirect n with None => Done None | Some t0 => filter_node f g t0 end) as [|ro] eqn:Ero; [discriminate|].
    destruct (filter_kids (filter_node f g) (g_children n)) as [cs|] eqn:Hk; [|discriminate].
    intros [= <-]. split; [|reflexivity]. rewrite all_usable_unfold. unfold usable. rewrite El, Ek, Er, (Hkids _ eq_refl).
    destruct ro as [r|]; [|reflexivity].
    destruct (g_redirect n) as [t0|]; [|discriminate]. rewrite (proj1 (IH _ _ _ Ero)). reflexivity.
Qed.

(* a nil result means the player may not use the node *)
Lemma filter_node_nil fuel g id : filter_node fuel g id = Done None -> usable g id = false.
Proof.
  destruct fuel as [|f]; cbn [filter_node]; [discriminate|]. unfold usable.
  destruct (lookup g id) as [n|]; [|reflexivity].
  destruct (g_kind n).
  - destruct (filter_kids _ _); discriminate.
  - destruct (g_req n); cbn [negb]; [|reflexivity].
    destruct (match g_redirect n with None => Done None | Some t0 => filter_node f g t0 end); [discriminate|].
    destruct (filter_kids _ _); discriminate.
  - destruct (g_req n); cbn [negb]; [|reflexivity].
    destruct (match g_redirect n with None => Done None | Some t0 => filter_node f g t0 end); [discriminate|].
    destruct (filter_kids _ _); discriminate.
Qed.

(* ---------- the result does not depend on the fuel once there is enough ---------- *)

Lemma filter_node_mono_S f : forall g id r,
  filter_node f g id = Done r -> filter_node (S f) g id = Done r.
Proof.
  induction f as [|f IH]; intros g id r; [discriminate|].
  intros H. cbn [filter_node] in H. change (filter_node (S (S f)) g id) with
    (match lookup g id with
     | None => Done None
     | Some n =>
       match g_kind n with
       | KRoot => match filter_kids (filter_node (S f) g) (g_children n) with
                  | None => OutOfFuel | Some cs => Done (Some (ONode id KRoot false None cs)) end
       | k => if negb (g_req n) then Done None
              else match (match g_redirect n with None => Done None | Some t => filter_node (S f) g t end) with
                   | OutOfFuel => OutOfFuel
                   | Done ro => match filter_kids (filter_node (S f) g) (g_children n) with
                                | None => OutOfFuel | Some cs => Done (Some (ONode id k (g_exec n) ro cs)) end
                   end
       end
     end).
  destruct (lookup g id) as [n|]; [|exact H].
  assert (Hk : forall cs, filter_kids (filter_node f g) (g_children n) = Some cs ->
                          filter_kids (filter_node (S f) g) (g_children n) = Some cs).
  { apply filter_kids_ext. intros c _ Hne. destruct (filter_node f g c) as [|r0] eqn:E; [congruence|]. now apply IH. }
  destruct (g_kind n).
  - destruct (filter_kids (filter_node f g) (g_children n)) as [cs|] eqn:E; [|discriminate]. now rewrite (Hk _ eq_refl).
  - destruct (negb (g_req n)); [exact H|].
    destruct (g_redirect n) as [t|].
    + destruct (filter_node f g t) as [|ro] eqn:Et; [discriminate|]. rewrite (IH _ _ _ Et).
      destruct (filter_kids (filter_node f g) (g_children n)) as [cs|] eqn:E; [|discriminate]. now rewrite (Hk _ eq_refl).
    + destruct (filter_kids (filter_node f g) (g_children n)) as [cs|] eqn:E; [|discriminate]. now rewrite (Hk _ eq_refl).
  - destruct (negb (g_req n)); [exact H|].
    destruct (g_redirect n) as [t|].
    + destruct (filter_node f g t) as [|ro] eqn:Et; [discriminate|]. rewrite (IH _ _ _ Et).
      destruct (filter_kids (filter_node f g) (g_children n)) as [cs|] eqn:E; [|discriminate]. now rewrite (Hk _ eq_refl).
    + destruct (filter_kids (filter_node f g) (g_children n)) as [cs|] eqn:E; [|discriminate]. now rewrite (Hk _ eq_refl).
Qed.

Lemma filter_node_mono f f' g id r : (f <= f')%nat ->
  filter_node f g id = Done r -> filter_node f' g id = Done r.
Proof.
  induction 1 as [|m _ IH]; [auto|]. intros H. apply filter_node_mono_S. now apply IH.
Qed.

(* ---------- termination on acyclic graphs ---------- *)

(* children and redirect edges strictly decrease a rank: no cycle through either kind of edge *)
Definition ranked (g : graph) (rank : N -> nat) : Prop :=
  forall id n, lookup g id = Some n ->
    (forall c, In c (g_children n) -> (rank c < rank id)%nat) /\
    (forall t, g_redirect n = Some t -> (rank t < rank id)%nat).

Lemma filter_node_terminates g rank : ranked g rank ->
  forall fuel id, (rank id < fuel)%nat -> filter_node fuel g id <> OutOfFuel.
Proof.
  intros Hr. induction fuel as [|f IH]; intros id Hlt; [lia|]. cbn [filter_node].
  destruct (lookup g id) as [n|] eqn:El; [|discriminate].
  destruct (Hr _ _ El) as [Hc Ht].
  assert (Hk : filter_kids (filter_node f g) (g_children n) <> None).
  { apply filter_kids_some. intros c Hin. apply IH. specialize (Hc c Hin). lia. }
  assert (Hred : match g_redirect n with None => Done None | Some t => filter_node f g t end <> OutOfFuel).
  { destruct (g_redirect n) as [t|]; [|discriminate]. apply IH. specialize (Ht t eq_refl). lia. }
  destruct (g_kind n).
  - destruct (filter_kids _ _); [discriminate|contradiction].
  - destruct (negb (g_req n)); [discriminate|].
    destruct (match g_redirect n with None => Done None | Some t => filter_node f g t end); [contradiction|].
    destruct (filter_kids _ _); [discriminate|contradiction].
  - destruct (negb (g_req n)); [discriminate|].
    destruct (match g_redirect n with None => Done None | Some t => filter_node f g t end); [contradiction|].
    destruct (filter_kids _ _); [discriminate|contradiction].
Qed.

(* ---------- divergence: a usable root command that redirects to the root ---------- *)

Lemma redirect_to_root_diverges g r c n :
  lookup g 0 = Some r -> g_kind r = KRoot -> In c (g_children r) ->
  lookup g c = Some n -> g_kind n <> KRoot -> g_req n = true -> g_redirect n = Some 0 ->
  forall fuel, filter_node fuel g 0 = OutOfFuel /\ filter_node fuel g c = OutOfFuel.
Proof.
  intros H0 Hk0 Hin Hc Hkc Hreq Hred. induction fuel as [|f [IH0 IHc]]; [split; reflexivity|].
  split; cbn [filter_node].
  - rewrite H0, Hk0. now rewrite (filter_kids_none _ _ c Hin IHc).
  - rewrite Hc, Hreq, Hred, IH0. cbn [negb]. destruct (g_kind n); [contradiction| |]; reflexivity.
Qed.

(* the confirmed instance: d.Register(Literal("run").Redirect(&d.Root)) *)
Definition g_cyclic : graph :=
  [(0, mkG KRoot true false None [1]); (1, mkG KLit true true (Some 0) [])].

Lemma g_cyclic_diverges : forall fuel, filter_node fuel g_cyclic 0 = OutOfFuel.
Proof.
  intros fuel.
  apply (redirect_to_root_diverges g_cyclic (mkG KRoot true false None [1]) 1 (mkG KLit true true (Some 0) []));
    try reflexivity; [now left|discriminate].
Qed.

(* ---------- merge ---------- *)

Lemma proxy_part_app a b : proxy_part (a ++ b) = proxy_part a ++ proxy_part b.
Proof. unfold proxy_part. now rewrite flat_map_app. Qed.
Lemma backend_part_app a b : backend_part (a ++ b) = backend_part a ++ backend_part b.
Proof. unfold backend_part. now rewrite flat_map_app. Qed.

Lemma proxy_part_filter x ms :
  proxy_part (filter (fun m => negb (m_name m =? x)) ms) = filter (fun t => negb (o_id t =? x)) (proxy_part ms).
Proof.
  induction ms as [|[b|t] r IH]; [reflexivity| |]; cbn [filter m_name].
  - destruct (negb (b_name b =? x)); cbn; exact IH.
  - change (proxy_part (MProxy t :: r)) with (t :: proxy_part r). cbn [filter].
    destruct (negb (o_id t =? x)); [change (proxy_part (MProxy t :: filter (fun m => negb (m_name m =? x)) r)) with
      (t :: proxy_part (filter (fun m => negb (m_name m =? x)) r)); now rewrite IH|exact IH].
Qed.

Lemma backend_part_filter x ms :
  backend_part (filter (fun m => negb (m_name m =? x)) ms) = filter (fun b => negb (b_name b =? x)) (backend_part ms).
Proof.
  induction ms as [|[b|t] r IH]; [reflexivity| |]; cbn [filter m_name].
  - change (backend_part (MBackend b :: r)) with (b :: backend_part r). cbn [filter].
    destruct (negb (b_name b =? x)); [change (backend_part (MBackend b :: filter (fun m => negb (m_name m =? x)) r)) with
      (b :: backend_part (filter (fun m => negb (m_name m =? x)) r)); now rewrite IH|exact IH].
  - destruct (negb (o_id t =? x)); cbn; exact IH.
Qed.

Lemma filter_filter {A} (p q : A -> bool) l : filter p (filter q l) = filter (fun x => q x && p x) l.
Proof.
  induction l as [|a r IH]; [reflexivity|]. cbn [filter]. destruct (q a); cbn [filter andb]; [destruct (p a)|]; now rewrite IH.
Qed.

Lemma filter_ext_in' {A} (p q : A -> bool) l : (forall x, p x = q x) -> filter p l = filter q l.
Proof. intros H. apply filter_ext. exact H. Qed.

Lemma merge_gen proxy : forall cur,
  NoDup (map o_id proxy) ->
  backend_part (fold_left replace_child proxy cur) =
    filter (fun b => negb (mem (b_name b) (map o_id proxy))) (backend_part cur) /\
  proxy_part (fold_left replace_child proxy cur) =
    filter (fun t => negb (mem (o_id t) (map o_id proxy))) (proxy_part cur) ++ proxy.
Proof.
  induction proxy as [|p ps IH]; intros cur Hnd; cbn [fold_left map].
  - split.
    + cbn. induction (backend_part cur) as [|b r IHb]; [reflexivity|]. cbn. now rewrite <- IHb.
    + rewrite app_nil_r. cbn. induction (proxy_part cur) as [|t r IHt]; [reflexivity|]. cbn. now rewrite <- IHt.
  - inversion Hnd as [|? ? Hnotin Hnd']; subst.
    destruct (IH (replace_child cur p) Hnd') as [Hb Hp]. unfold replace_child in *.
    rewrite Hb, Hp. rewrite backend_part_app, proxy_part_app, backend_part_filter, proxy_part_filter.
    change (backend_part [MProxy p]) with (@nil bnode). change (proxy_part [MProxy p]) with [p].
    rewrite app_nil_r. split.
    + rewrite filter_filter. apply filter_ext. intros b. unfold mem. cbn [existsb]. now rewrite negb_orb.
    + rewrite filter_app, filter_filter. cbn [filter].
      assert (Hm : mem (o_id p) (map o_id ps) = false).
      { unfold mem. destruct (existsb (N.eqb (o_id p)) (map o_id ps)) eqn:E; [|reflexivity].
        apply existsb_exists in E. destruct E as [x [Hin Hx]]. apply N.eqb_eq in Hx. subst x. contradiction. }
      rewrite Hm. cbn [negb]. rewrite <- app_assoc. cbn [app]. f_equal.
      apply filter_ext. intros t. unfold mem. cbn [existsb]. now rewrite negb_orb.
Qed.

Lemma backend_part_map l : backend_part (map MBackend l) = l.
Proof. unfold backend_part. induction l as [|b r IH]; [reflexivity|]. cbn [map flat_map app]. now f_equal. Qed.
Lemma proxy_part_map l : proxy_part (map MBackend l) = [].
Proof. unfold proxy_part. induction l as [|b r IH]; [reflexivity|]. cbn [map flat_map app]. exact IH. Qed.

Lemma merge_backend backend proxy : NoDup (map o_id proxy) ->
  backend_part (merge backend proxy) = filter (fun b => negb (mem (b_name b) (map o_id proxy))) backend.
Proof. intros H. unfold merge. rewrite (proj1 (merge_gen proxy _ H)). now rewrite backend_part_map. Qed.

Lemma merge_proxy backend proxy : NoDup (map o_id proxy) -> proxy_part (merge backend proxy) = proxy.
Proof. intros H. unfold merge. rewrite (proj2 (merge_gen proxy _ H)). now rewrite proxy_part_map. Qed.

(* ---------- the filtered root's children are exactly the usable root commands ---------- *)

Lemma filter_kids_ids f g l cs :
  filter_kids (filter_node f g) l = Some cs -> map o_id cs = filter (usable g) l.
Proof.
  revert cs. induction l as [|c r IH]; intros cs; cbn [filter_kids filter]; [now intros [= <-]|].
  destruct (filter_node f g c) as [|[t|]] eqn:E; [discriminate| |].
  - destruct (filter_kids (filter_node f g) r) as [ts|] eqn:Er; [|discriminate]. intros [= <-].
    destruct (filter_node_usable _ _ _ _ E) as [Hu Hid]. destruct t as [i k e ro cs']. cbn [o_id] in Hid. subst i.
    rewrite all_usable_unfold in Hu. apply andb_true_iff in Hu. destruct Hu as [Hu _]. apply andb_true_iff in Hu.
    destruct Hu as [Hu _]. rewrite Hu. cbn [map o_id]. now rewrite (IH _ eq_refl).
  - rewrite (filter_node_nil _ _ _ E). apply IH.
Qed.

Lemma NoDup_filter {A} (p : A -> bool) l : NoDup l -> NoDup (filter p l).
Proof.
  induction 1 as [|a r Hn Hnd IH]; cbn [filter]; [constructor|].
  destruct (p a); [|exact IH]. constructor; [|exact IH]. intros Hin. apply filter_In in Hin. tauto.
Qed.

Lemma list_eqb_refl {A} (eqb : A -> A -> bool) (Hr : forall x, eqb x x = true) l : list_eqb eqb l l = true.
Proof. induction l as [|a r IH]; [reflexivity|]. cbn. now rewrite Hr, IH. Qed.

(* the root of the proxy's dispatcher: a RootCommandNode whose children are distinct *)
Definition wf_root (g : graph) : Prop :=
  exists r, lookup g 0 = Some r /\ g_kind r = KRoot /\ NoDup (g_children r).

Lemma announce_holds fuel g backend ms :
  wf_root g -> announce fuel g backend = Some ms -> holds_C23 g backend ms = true.
Proof.
  intros [r [H0 [Hk Hnd]]]. unfold announce.
  destruct (filter_node fuel g 0) as [|[t|]] eqn:E; [discriminate| |].
  2:{ (* a root never filters to nil *)
      destruct fuel as [|f]; [discriminate|]. cbn [filter_node] in E. rewrite H0, Hk in E.
      destruct (filter_kids _ _); discriminate. }
  intros [= <-].
  destruct (filter_node_usable _ _ _ _ E) as [Hu _].
  destruct fuel as [|f]; [discriminate|]. cbn [filter_node] in E. rewrite H0, Hk in E.
  destruct (filter_kids (filter_node f g) (g_children r)) as [cs|] eqn:Ek; [|discriminate].
  injection E as <-. cbn [o_children].
  assert (Hids : map o_id cs = usable_roots g) by (unfold usable_roots; rewrite H0; exact (filter_kids_ids _ _ _ _ Ek)).
  assert (Hnd' : NoDup (map o_id cs)) by (rewrite Hids; unfold usable_roots; rewrite H0; now apply NoDup_filter).
  unfold holds_C23. rewrite (merge_proxy _ _ Hnd'), (merge_backend _ _ Hnd'), Hids.
  rewrite all_usable_unfold in Hu. apply andb_true_iff in Hu. destruct Hu as [_ Hcs]. rewrite Hcs. cbn [andb].
  rewrite (list_eqb_refl N.eqb N.eqb_refl). cbn [andb].
  rewrite (list_eqb_refl bnode_eqb) by (intros x; unfold bnode_eqb; now rewrite !N.eqb_refl). rewrite andb_true_r.
  apply forallb_forall. intros b Hb. apply filter_In in Hb. tauto.
Qed.

(* ---------- sessions: every packet is judged by the outcomes at its own moment ---------- *)

Lemma session_last fuel pre g backend :
  last (announce_session fuel (pre ++ [(g, backend)])) None = announce fuel g backend.
Proof.
  unfold announce_session. rewrite map_app. cbn [map fst snd]. now rewrite last_last.
Qed.

Lemma session_nth fuel pkts k g backend :
  nth_error pkts k = Some (g, backend) ->
  nth_error (announce_session fuel pkts) k = Some (announce fuel g backend).
Proof. intros H. unfold announce_session. now rewrite nth_error_map, H. Qed.

(* ---------- non-vacuity ---------- *)

(* root -> a(1, usable: children b(2, unusable), c(3, usable, redirect -> d)), d(4, usable), e(5, unusable) *)
Definition g_ex : graph :=
  [(0, mkG KRoot true false None [1; 4; 5]);
   (1, mkG KLit true true None [2; 3]);
   (2, mkG KLit false true None []);
   (3, mkG KArg true true (Some 4) []);
   (4, mkG KLit true true None []);
   (5, mkG KLit false true None [])].

(* executable sufficient check for [ranked] *)
Definition ranked_b (g : graph) (rank : N -> nat) : bool :=
  forallb (fun e : N * gnode =>
    forallb (fun c => Nat.ltb (rank c) (rank (fst e))) (g_children (snd e))
    && match g_redirect (snd e) with Some t => Nat.ltb (rank t) (rank (fst e)) | None => true end) g.

Lemma lookup_in g id n : lookup g id = Some n -> In (id, n) g.
Proof.
  induction g as [|[k m] r IH]; cbn [lookup]; [discriminate|].
  destruct (N.eqb_spec k id) as [->|_]; [intros [= ->]; now left|]. intros H. right. now apply IH.
Qed.

Lemma ranked_b_sound g rank : ranked_b g rank = true -> ranked g rank.
Proof.
  intros H id n Hl. unfold ranked_b in H. rewrite forallb_forall in H.
  specialize (H _ (lookup_in _ _ _ Hl)). cbn [fst snd] in H. apply andb_true_iff in H. destruct H as [Hc Ht]. split.
  - intros c Hin. rewrite forallb_forall in Hc. apply Nat.ltb_lt. now apply Hc.
  - intros t Hr. rewrite Hr in Ht. now apply Nat.ltb_lt.
Qed.

Definition rank_ex (id : N) : nat :=
  if id =? 0 then 3%nat else if id =? 1 then 2%nat else if id =? 3 then 1%nat else 0%nat.

Example g_ex_ranked : ranked g_ex rank_ex.
Proof. apply ranked_b_sound. vm_compute. reflexivity. Qed.

Example g_ex_announce :
  announce 4 g_ex [mkB 4 77; mkB 9 99] =
    Some [MBackend (mkB 9 99);
          MProxy (ONode 1 KLit true None [ONode 3 KArg true (Some (ONode 4 KLit true None [])) []]);
          MProxy (ONode 4 KLit true None [])]
  /\ holds_C23 g_ex [mkB 4 77; mkB 9 99] [MBackend (mkB 9 99);
          MProxy (ONode 1 KLit true None [ONode 3 KArg true (Some (ONode 4 KLit true None [])) []]);
          MProxy (ONode 4 KLit true None [])] = true.
Proof. vm_compute. split; reflexivity. Qed.

(* the player loses node 1 between two packets: the stateless merge drops it from the second
   packet, a cached first view would still show it *)
Definition g_ex_revoked : graph :=
  [(0, mkG KRoot true false None [1; 4; 5]);
   (1, mkG KLit false true None [2; 3]);
   (2, mkG KLit false true None []);
   (3, mkG KArg true true (Some 4) []);
   (4, mkG KLit true true None []);
   (5, mkG KLit false true None [])].

Example cached_view_refuted :
  let pkts := [(g_ex, [mkB 9 99]); (g_ex_revoked, [mkB 9 99])] in
  nth_error (announce_session 4 pkts) 1 = Some (Some [MBackend (mkB 9 99); MProxy (ONode 4 KLit true None [])]) /\
  (exists ms, nth_error (announce_cached_session 4 pkts) 1 = Some (Some ms) /\
              holds_C23 g_ex_revoked [mkB 9 99] ms = false /\
              forallb (all_usable g_ex_revoked) (proxy_part ms) = false).
Proof.
  cbv zeta. split; [vm_compute; reflexivity|]. eexists. split; [vm_compute; reflexivity|]. split; vm_compute; reflexivity.
Qed.
