(* C25 — proofs about Model/PluginMsg.v *)
From Coq Require Import List NArith Bool Lia.
From Verif Require Import Base.Hex Model.PluginMsg.
Import ListNotations.
Open Scope N_scope.

Lemma beq_bytes_refl (a : bytes) : beq_bytes a a = true.
Proof. apply beq_bytes_eq. reflexivity. Qed.

Lemma beq_list_refl (l : list bytes) : beq_list l l = true.
Proof. induction l as [|x l IH]; cbn; [reflexivity|]. now rewrite beq_bytes_refl, IH. Qed.

Ltac refl := rewrite ?beq_bytes_refl, ?beq_list_refl, ?N.eqb_refl in *.

(* destruct the variables the goal still branches on *)
Ltac break :=
  repeat match goal with
  | |- context [match ?x with _ => _ end] => is_var x; destruct x; cbn in *; refl
  | H : context [match ?x with _ => _ end] |- _ => is_var x; destruct x; cbn in *; refl
  | |- context [negb ?x] => is_var x; destruct x; cbn in *; refl
  | H : context [negb ?x] |- _ => is_var x; destruct x; cbn in *; refl
  | |- context [andb ?x _] => is_var x; destruct x; cbn in *; refl
  | H : context [andb ?x _] |- _ => is_var x; destruct x; cbn in *; refl
  end.

(* open the records so that every field is a variable, and name the two channel tests *)
Ltac split_input e m :=
  let s := fresh "s" in let t := fresh "t" in
  destruct e as [v13 ex [s|] [t|] cc kn sb rd]; try destruct s as [c1 hc1 pl1 ph1 wo1 cl1];
  try destruct t as [c2 hc2 pl2 ph2 wo2 cl2]; destruct m as [mch mdat mpay]; cbn in *;
  destruct (classify mch) eqn:K; destruct (is_bungee mch) eqn:B; cbn in *.

Ltac open_model :=
  unfold spec_handle, impl_handle, handle, client_play, client_config, backend_config, backend_play,
         holds_P, holds_register, holds_body, forwarded, target, nothing, pkt, allowed, active, phase_complete,
         trigger1, trigger2 in *;
  cbn in *; refl.

(* ---------- the spec satisfies the property predicate on every input ---------- *)
Lemma spec_holds : forall h e m, holds_P h e m (spec_handle h e m) = true.
Proof.
  intros h e m. destruct h; open_model; split_input e m; break; try reflexivity; try discriminate.
Qed.

(* ---------- today's code agrees with the spec outside the two trigger classes ---------- *)
Lemma impl_eq_spec_off_trigger : forall h e m,
  trigger1 h e m = false -> trigger2 h e m = false -> impl_handle h e m = spec_handle h e m.
Proof.
  intros h e m T1 T2. destruct h; open_model; split_input e m; break; try reflexivity; try discriminate.
Qed.

(* ---------- clause (i) ---------- *)
Lemma register_event_iff_forwarded : forall e m,
  classify (m_ch m) = KRegister ->
  let o := spec_handle HClientPlay e m in
  (forwarded m o = true ->
     o_events o = [ERegister (parse_channels (e_ver13 e) (e_existing e) (m_data m))]) /\
  (forwarded m o = false -> o_events o = []).
Proof.
  intros e m K. open_model. rewrite K.
  destruct (e_connected e) as [s|]; cbn; [|split; [discriminate|reflexivity]].
  destruct (s_has_conn s); cbn; [|split; [discriminate|reflexivity]].
  destruct (s_play s); cbn; [|split; [discriminate|reflexivity]].
  destruct (s_write_ok s); cbn; refl; cbn; split; intro H; try reflexivity; discriminate.
Qed.

Lemma register_event_only_for_client_registrations : forall h e m chs,
  In (ERegister chs) (o_events (spec_handle h e m)) ->
  h = HClientPlay /\ classify (m_ch m) = KRegister.
Proof.
  intros h e m chs H. destruct h; open_model; split_input e m; break; cbn in *;
    repeat match goal with H : _ \/ _ |- _ => destruct H end;
    try contradiction; try discriminate; auto.
Qed.

(* ---------- clause (ii) ---------- *)
Lemma event_body : forall h e m id d,
  In (EPM id d) (o_events (spec_handle h e m)) -> id = m_ch m /\ d = m_data m.
Proof.
  intros h e m id d H. destruct h; open_model; split_input e m; break; cbn in *;
    repeat match goal with H : _ \/ _ |- _ => destruct H end;
    try contradiction; try discriminate;
    match goal with H : EPM _ _ = EPM _ _ |- _ => inversion H; auto end.
Qed.

Definition is_message (m : msg) (w : wr) : Prop :=
  match w with
  | WPkt _ _ ch d => ch = m_ch m /\ d = m_data m
  | WRaw _ p => p = m_payload m
  | WBrand _ ch => ch = m_ch m /\ classify (m_ch m) = KBrand
  end.

Lemma written_is_message : forall h e m w,
  In w (o_writes (spec_handle h e m)) -> is_message m w.
Proof.
  intros h e m w H. destruct h; open_model; split_input e m; break; cbn in *;
    repeat match goal with H : _ \/ _ |- _ => destruct H end;
    try contradiction; try discriminate; subst; cbn; auto.
Qed.

(* ---------- the faithful model violates the predicate everywhere inside the triggers ---------- *)
Lemma impl_violates_1 : forall e m,
  trigger1 HClientPlay e m = true -> holds_P HClientPlay e m (impl_handle HClientPlay e m) = false.
Proof.
  intros e m T. open_model.
  destruct (e_connected e) as [s|]; [|discriminate].
  destruct (classify (m_ch m)) eqn:K; try discriminate.
  destruct (s_has_conn s); cbn in *; [|discriminate].
  destruct (s_play s); cbn in *; [|discriminate].
  destruct (s_write_ok s); cbn; refl; reflexivity.
Qed.

Lemma beq_bytes_neq (a b : bytes) : a <> b -> beq_bytes a b = false.
Proof.
  intro H. destruct (beq_bytes a b) eqn:E; [|reflexivity]. apply beq_bytes_eq in E. contradiction.
Qed.

Lemma impl_violates_2 : forall e m,
  trigger2 HBackendConfig e m = true -> m_payload m <> m_data m ->
  holds_P HBackendConfig e m (impl_handle HBackendConfig e m) = false.
Proof.
  intros e m T NE. open_model.
  destruct (e_connected e) as [s|]; [|discriminate].
  assert (A : s_has_conn s && negb (s_closed s) = true /\ e_known e = true /\ classify (m_ch m) <> KBrand).
  { destruct (classify (m_ch m)); try discriminate;
      apply andb_true_iff in T; destruct T; repeat split; auto; discriminate. }
  destruct A as (A1 & A2 & A3). rewrite A1, A2. cbn.
  destruct (classify (m_ch m)); try contradiction; cbn;
    rewrite (beq_bytes_neq _ _ NE); reflexivity.
Qed.

(* concrete witnesses: minecraft:register with body "a:b" forwarded, no event (k=1);
   backend config message on a known channel, event data = raw payload (k=2) *)
Definition srvA : srv := mkSrv 1 true true BVanilla true false.
Definition env0 : env := mkEnv true 0 (Some srvA) None true true SDefault false.
Definition reg_msg : msg := mkMsg s_mc_register [97;58;98] [24;18;109;105;110;101;99;114;97;102;116;58;114;101;103;105;115;116;101;114;97;58;98].
Definition custom_msg : msg := mkMsg [109;121;58;99] [222;173] [24;4;109;121;58;99;222;173].

Lemma refuted_1 : trigger1 HClientPlay env0 reg_msg = true /\
  impl_handle HClientPlay env0 reg_msg = mkOut [] [WPkt 1 true s_mc_register [97;58;98]] false /\
  holds_P HClientPlay env0 reg_msg (impl_handle HClientPlay env0 reg_msg) = false.
Proof. vm_compute. auto. Qed.

Lemma refuted_2 : trigger2 HBackendConfig env0 custom_msg = true /\
  o_events (impl_handle HBackendConfig env0 custom_msg) = [EPM [109;121;58;99] [24;4;109;121;58;99;222;173]] /\
  holds_P HBackendConfig env0 custom_msg (impl_handle HBackendConfig env0 custom_msg) = false.
Proof. vm_compute. auto. Qed.

(* non-vacuity: a forwarded registration exists, and its event carries the parsed identifiers *)
Lemma nonvacuous_register :
  classify (m_ch reg_msg) = KRegister /\ forwarded reg_msg (spec_handle HClientPlay env0 reg_msg) = true /\
  o_events (spec_handle HClientPlay env0 reg_msg) = [ERegister [[97;58;98]]].
Proof. vm_compute. auto. Qed.

Lemma nonvacuous_event : In (EPM [109;121;58;99] [222;173]) (o_events (spec_handle HBackendPlay env0 custom_msg)).
Proof. vm_compute. auto. Qed.

(* ---------- histories ---------- *)
Lemma event_body_history : forall h e ms,
  Forall2 (fun m o => forall id d, In (EPM id d) (o_events o) -> id = m_ch m /\ d = m_data m)
          ms (spec_history h e ms).
Proof.
  intros h e ms. unfold spec_history, handle_history. induction ms as [|m ms IH]; cbn; constructor; [|exact IH].
  intros id d H. exact (event_body h e m id d H).
Qed.

Lemma written_history : forall h e ms,
  Forall2 (fun m o => forall w, In w (o_writes o) -> is_message m w) ms (spec_history h e ms).
Proof.
  intros h e ms. unfold spec_history, handle_history. induction ms as [|m ms IH]; cbn; constructor; [|exact IH].
  intros w H. exact (written_is_message h e m w H).
Qed.

(* what the judge demands of the observation of one message is exactly that: start = end = own body *)
Lemma hist_matches_body : forall h e m x id d,
  hist_matches (spec_handle h e m) x = true -> o_events (spec_handle h e m) = [EPM id d] ->
  h_start x = m_data m /\ h_end x = m_data m.
Proof.
  intros h e m x id d H E. unfold hist_matches in H. rewrite E in H.
  apply andb_true_iff in H. destruct H as [H _]. apply andb_true_iff in H. destruct H as [H1 H2].
  apply beq_bytes_eq in H1. apply beq_bytes_eq in H2.
  assert (In (EPM id d) (o_events (spec_handle h e m))) as Hin by (rewrite E; left; reflexivity).
  destruct (event_body h e m id d Hin) as [_ ->]. auto.
Qed.

Definition two_msgs : list msg := [custom_msg; mkMsg [109;121;58;99] [1;2] [24;4;109;121;58;99;1;2]].
Lemma nonvacuous_history :
  map o_events (spec_history HBackendPlay env0 two_msgs) = [[EPM [109;121;58;99] [222;173]]; [EPM [109;121;58;99] [1;2]]].
Proof. vm_compute. reflexivity. Qed.

(* ---------- register histories ---------- *)
Lemma register_event_history : forall known e ms,
  Forall2 (fun m eo => classify (m_ch m) = KRegister ->
             (forwarded m (snd eo) = true ->
                exists n, o_events (snd eo) = [ERegister (parse_channels (e_ver13 e) n (m_data m))]) /\
             (forwarded m (snd eo) = false -> o_events (snd eo) = []))
          ms (reg_history true true known e ms).
Proof.
  intros known e ms. revert known. induction ms as [|m ms IH]; intro known; cbn [reg_history]; constructor; [|apply IH].
  intro K. cbn [snd].
  destruct (register_event_iff_forwarded (with_existing e (N.of_nat (length known))) m K) as [A B].
  split; [|exact B]. intro F. exists (N.of_nat (length known)). exact (A F).
Qed.

(* the observable of a step does not depend on WHICH channels are known, only on how many (cap test) *)
Lemma step_depends_on_count_only : forall (k1 k2 : list bytes) e m,
  length k1 = length k2 ->
  handle true true HClientPlay (with_existing e (N.of_nat (length k1))) m =
  handle true true HClientPlay (with_existing e (N.of_nat (length k2))) m.
Proof. intros k1 k2 e m H. now rewrite H. Qed.

Definition reg_env : env := mkEnv true 0 (Some srvA) None true false SDefault false.
Definition reg_ab : msg := mkMsg s_mc_register [97;58;98] [].
Lemma nonvacuous_register_history :
  map (fun eo => o_events (snd eo)) (reg_history true true [] reg_env [reg_ab; reg_ab]) =
    [[ERegister [[97;58;98]]]; [ERegister [[97;58;98]]]] /\
  map (fun eo => e_existing (fst eo)) (reg_history true true [] reg_env [reg_ab; reg_ab]) = [0; 1].
Proof. vm_compute. auto. Qed.
