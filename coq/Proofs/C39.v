(* C39 — Floodgate hostname codec: round trips with Floodgate's own encoder/decoder, authenticity of
   whatever is accepted (from the AEAD premises), the nonce-length panic and its exact trigger. *)
From Coq Require Import List NArith ZArith Bool Lia.
From Coq Require Import ZifyN ZifyNat ZifyBool.
From Verif Require Import Base.Hex Base.Base64 Base.Decimal Model.Floodgate.
Import ListNotations.
Open Scope N_scope.

(* ---------- strings.Split / Join / IndexByte facts ---------- *)

Lemma contains_app c a b : contains c (a ++ b) = contains c a || contains c b.
Proof. unfold contains. apply existsb_app. Qed.

Lemma contains_cons c x s : contains c (x :: s) = (x =? c) || contains c s.
Proof. reflexivity. Qed.

Lemma split_on_ne sep s : split_on sep s <> [].
Proof.
  induction s as [|c r IH]; cbn [split_on]; [discriminate|].
  destruct (c =? sep); [discriminate|]. destruct (split_on sep r); discriminate.
Qed.

Lemma split_on_nosep sep s : contains sep s = false -> split_on sep s = [s].
Proof.
  induction s as [|c r IH]; intro H; [reflexivity|].
  rewrite contains_cons in H. apply orb_false_iff in H. destruct H as [Hc Hr].
  cbn [split_on]. rewrite Hc, (IH Hr). reflexivity.
Qed.

Lemma split_on_app sep s t : contains sep s = false ->
  split_on sep (s ++ sep :: t) = s :: split_on sep t.
Proof.
  induction s as [|c r IH]; intro H.
  - cbn [app split_on]. rewrite N.eqb_refl. reflexivity.
  - rewrite contains_cons in H. apply orb_false_iff in H. destruct H as [Hc Hr].
    cbn [app split_on]. rewrite Hc, (IH Hr). reflexivity.
Qed.

Lemma split_join sep : forall ps p,
  forallb (fun q => negb (contains sep q)) (p :: ps) = true ->
  split_on sep (join_with sep (p :: ps)) = p :: ps.
Proof.
  induction ps as [|q qs IH]; intros p H; cbn [forallb] in H; apply andb_true_iff in H; destruct H as [Hp Hr].
  - cbn [join_with flat_map]. rewrite app_nil_r. apply split_on_nosep. destruct (contains sep p); [discriminate|reflexivity].
  - change (join_with sep (p :: q :: qs)) with (p ++ sep :: join_with sep (q :: qs)).
    rewrite split_on_app by (destruct (contains sep p); [discriminate|reflexivity]).
    rewrite (IH q Hr). reflexivity.
Qed.

Lemma before_app sep s t : contains sep s = false -> before sep (s ++ sep :: t) = s.
Proof.
  induction s as [|c r IH]; intro H.
  - cbn [app before]. rewrite N.eqb_refl. reflexivity.
  - rewrite contains_cons in H. apply orb_false_iff in H. destruct H as [Hc Hr].
    cbn [app before]. rewrite Hc, (IH Hr). reflexivity.
Qed.

Lemma cut_at_app sep s t : contains sep s = false -> cut_at sep (s ++ sep :: t) = Some (s, t).
Proof.
  induction s as [|c r IH]; intro H.
  - cbn [app cut_at]. rewrite N.eqb_refl. reflexivity.
  - rewrite contains_cons in H. apply orb_false_iff in H. destruct H as [Hc Hr].
    cbn [app cut_at]. rewrite Hc, (IH Hr). reflexivity.
Qed.

Lemma is_prefix_app p s : is_prefix p (p ++ s) = true.
Proof. induction p as [|x p IH]; [reflexivity|]. cbn [app is_prefix]. rewrite N.eqb_refl, IH. reflexivity. Qed.

Lemma skipn_app_exact {A} (p s : list A) : skipn (length p) (p ++ s) = s.
Proof. induction p as [|x p IH]; [reflexivity|]. cbn [length app skipn]. exact IH. Qed.

(* ---------- character classes ---------- *)

Lemma b64_no sep x : wf_bytes x -> sep = 0 \/ sep = 33 \/ sep = 58 -> contains sep (b64_encode x) = false.
Proof.
  intros W Hs. pose proof (b64_encode_chars x W) as F. unfold contains.
  induction F as [|c l (Hcr & H0 & H33 & H58 & _) _ IH]; [reflexivity|].
  cbn [existsb]. rewrite IH. destruct (N.eqb_spec c sep); [lia|reflexivity].
Qed.

Lemma print_int_no0 z : contains 0 (print_int z) = false.
Proof.
  pose proof (print_int_chars z) as F. unfold contains.
  induction F as [|c l Hc _ IH]; [reflexivity|].
  cbn [existsb]. rewrite IH. unfold int_char, is_digit in Hc. destruct (N.eqb_spec c 0); [lia|reflexivity].
Qed.

Lemma bool_string_no0 b : contains 0 (bool_string b) = false.
Proof. destruct b; reflexivity. Qed.

(* ---------- the record ---------- *)

Definition valid_data (d : bedrock) : Prop :=
  b_username d <> [] /\ b_xuid d <> 0%Z /\ in_int64 (b_xuid d) /\
  (0 <= b_device d <= 15)%Z /\ in_int64 (b_ui d) /\ in_int64 (b_input d) /\
  contains 0 (b_version d) = false /\ contains 0 (b_username d) = false /\ contains 0 (b_language d) = false /\
  contains 0 (b_ip d) = false /\ contains 0 (b_linked d) = false /\ contains 0 (b_subscribe d) = false /\
  contains 0 (b_verify d) = false /\
  wf_bytes (b_version d) /\ wf_bytes (b_username d) /\ wf_bytes (b_language d) /\ wf_bytes (b_ip d) /\
  wf_bytes (b_linked d) /\ wf_bytes (b_subscribe d) /\ wf_bytes (b_verify d).

Lemma fields_no0 d : valid_data d ->
  forallb (fun q => negb (contains 0 q)) (bedrock_fields d) = true.
Proof.
  intros (_ & _ & _ & _ & _ & _ & H0 & H1 & H2 & H3 & H4 & H5 & H6 & _).
  unfold bedrock_fields. cbn [forallb].
  rewrite H0, H1, H2, H3, H4, H5, H6, !print_int_no0, bool_string_no0. reflexivity.
Qed.

Lemma print_int_wf z : wf_bytes (print_int z).
Proof.
  eapply Forall_impl; [|apply print_int_chars]. intros c [->|Hc]; [lia|]. unfold is_digit in Hc. lia.
Qed.

Lemma join_wf : forall ps, Forall wf_bytes ps -> wf_bytes (join_with 0 ps).
Proof.
  intros ps F. destruct F as [|p ps Hp Hps]; [constructor|].
  cbn [join_with]. unfold wf_bytes in *. apply Forall_app. split; [exact Hp|].
  induction Hps as [|q qs Hq _ IH]; [constructor|].
  cbn [flat_map]. constructor; [lia|]. apply Forall_app. split; [exact Hq|exact IH].
Qed.

Lemma fields_wf d : valid_data d -> wf_bytes (join_with 0 (bedrock_fields d)).
Proof.
  intros (_ & _ & _ & _ & _ & _ & _ & _ & _ & _ & _ & _ & _ & W0 & W1 & W2 & W3 & W4 & W5 & W6).
  apply join_wf. unfold bedrock_fields.
  repeat (apply Forall_cons; [first [assumption | apply print_int_wf | (destruct (b_proxy d); repeat constructor)]|]).
  apply Forall_nil.
Qed.

Lemma read_bedrock_data_fields d : valid_data d ->
  read_bedrock_data (join_with 0 (bedrock_fields d)) = Some d.
Proof.
  intro V. pose proof (fields_no0 d V) as F.
  destruct V as (Hu & Hx & Rx & Rd & Rui & Rin & _).
  unfold read_bedrock_data. unfold bedrock_fields in *. rewrite (split_join 0 _ _ F).
  destruct d as [ver user xuid dev lang ui inp ip linked proxy sub verify]. cbn [b_version b_username b_xuid b_device b_language b_ui b_input b_ip b_linked b_proxy b_subscribe b_verify] in *.
  destruct user as [|u0 user]; [contradiction|].
  rewrite (parse_int_print xuid Rx).
  destruct (Z.eqb_spec xuid 0); [contradiction|].
  assert (Rd' : in_int64 dev) by (unfold in_int64; lia).
  rewrite (parse_int_print dev Rd'), (parse_int_print ui Rui), (parse_int_print inp Rin).
  unfold device_from_id. replace ((0 <=? dev) && (dev <=? 15))%Z with true by lia.
  replace (beq_bytes (bool_string proxy) [49]) with proxy by (destruct proxy; reflexivity).
  reflexivity.
Qed.

(* ---------- theorems under the AEAD premises ---------- *)

Section WithAEAD.
  Variable seal : bytes -> bytes -> bytes -> bytes.
  Variable open : bytes -> bytes -> bytes -> option bytes.
  Hypothesis open_seal : forall k iv p, wf_bytes p -> open k iv (seal k iv p) = Some p.
  Hypothesis seal_wf : forall k iv p, wf_bytes p -> wf_bytes (seal k iv p).

  Lemma header_facts : contains 0 header = false /\ contains 58 header = false /\ length header = 12%nat.
  Proof. repeat split; reflexivity. Qed.

  Lemma blob_no sep k iv p : wf_bytes iv -> wf_bytes p -> sep = 0 \/ sep = 58 -> contains sep (encrypt seal k iv p) = false.
  Proof.
    intros W Wp Hs. unfold encrypt, splitter. rewrite !contains_app.
    rewrite (b64_no sep iv W) by tauto. rewrite (b64_no sep _ (seal_wf k iv p Wp)) by tauto.
    destruct Hs as [-> | ->]; reflexivity.
  Qed.

  Lemma envelope_of_blob_encrypt k iv p : wf_bytes iv -> wf_bytes p -> length iv = 12%nat ->
    envelope_of_blob (encrypt seal k iv p) = Some (iv, seal k iv p).
  Proof.
    intros W Wp L. unfold envelope_of_blob, encrypt.
    assert (L64 : length (b64_encode iv) = 16%nat) by (rewrite b64_encode_length, L; reflexivity).
    replace (Nat.ltb _ _) with false.
    2:{ symmetry. apply Nat.ltb_ge. rewrite !app_length, L64. cbn. lia. }
    rewrite is_prefix_app. cbn [negb]. rewrite skipn_app_exact.
    unfold splitter. cbn [app]. rewrite cut_at_app by (apply b64_no; [exact W|tauto]).
    rewrite (b64_decode_encode iv W), (b64_decode_encode _ (seal_wf k iv p Wp)). reflexivity.
  Qed.

  Lemma decrypt_encrypt checked k iv p : wf_bytes iv -> wf_bytes p -> length iv = 12%nat ->
    decrypt_gen open checked k (encrypt seal k iv p) = Ok p.
  Proof.
    intros W Wp L. unfold decrypt_gen. rewrite (envelope_of_blob_encrypt k iv p W Wp L).
    rewrite L. cbn [Nat.eqb iv_length negb]. rewrite (open_seal k iv p Wp). reflexivity.
  Qed.

  (* the optional ":port" tail of the hostname *)
  Definition port_suffix (sfx : bytes) : Prop :=
    sfx = [] \/ exists port, sfx = 58 :: port /\ contains 0 port = false.

  Lemma strip_port blob sfx : contains 58 blob = false -> port_suffix sfx ->
    (if contains 58 (blob ++ sfx) then before 58 (blob ++ sfx) else blob ++ sfx) = blob.
  Proof.
    intros H [->|(port & -> & _)].
    - rewrite app_nil_r, H. reflexivity.
    - rewrite contains_app, contains_cons, N.eqb_refl, orb_true_r. cbn [orb]. apply before_app. exact H.
  Qed.

  (* Floodgate's encoder -> gate's ReadHostname *)
  Theorem roundtrip_in : forall checked k iv d h sfx,
    wf_bytes iv -> length iv = 12%nat -> valid_data d -> contains 0 h = false -> port_suffix sfx ->
    read_hostname_gen open checked k (floodgate_encode seal k iv h (bedrock_fields d) ++ sfx) = Ok (h, d).
  Proof.
    intros checked k iv d h sfx W L V Hh Hs.
    pose proof (fields_wf d V) as Wp.
    set (p := join_with 0 (bedrock_fields d)) in *.
    assert (E : floodgate_encode seal k iv h (bedrock_fields d) ++ sfx = h ++ 0 :: (encrypt seal k iv p ++ sfx)).
    { unfold floodgate_encode, encrypt, splitter. fold p. rewrite <- !app_assoc. reflexivity. }
    rewrite E. unfold read_hostname_gen.
    rewrite (split_on_app 0 h _ Hh).
    assert (N0 : contains 0 (encrypt seal k iv p ++ sfx) = false).
    { rewrite contains_app, (blob_no 0 k iv p W Wp) by tauto.
      destruct Hs as [->|(port & -> & Hp)]; [reflexivity|]. rewrite contains_cons, Hp. reflexivity. }
    rewrite (split_on_nosep 0 _ N0).
    rewrite (strip_port _ sfx (blob_no 58 k iv p W Wp ltac:(tauto)) Hs).
    rewrite (decrypt_encrypt checked k iv p W Wp L).
    unfold p. rewrite (read_bedrock_data_fields d V). reflexivity.
  Qed.

  (* gate's WriteHostname -> Floodgate's decoder *)
  Lemma drop_trailing_empty_last : forall l x, x <> [] -> drop_trailing_empty (l ++ [x]) = l ++ [x].
  Proof.
    induction l as [|p l IH]; intros x Hx.
    - cbn. destruct x; [contradiction|reflexivity].
    - cbn [app drop_trailing_empty]. rewrite (IH x Hx).
      destruct (l ++ [x]) eqn:E; [destruct l; discriminate E|]. destruct p; reflexivity.
  Qed.

  Theorem roundtrip_out : forall k iv d h,
    wf_bytes iv -> length iv = 12%nat -> valid_data d -> b_verify d <> [] -> contains 0 h = false ->
    write_hostname seal k iv h d = Some (floodgate_encode seal k iv h (bedrock_fields d)) /\
    floodgate_decode open k (floodgate_encode seal k iv h (bedrock_fields d)) = Some (h, bedrock_fields d).
  Proof.
    intros k iv d h W L V Hv Hh.
    pose proof (fields_no0 d V) as F.
    pose proof (fields_wf d V) as Wp.
    set (p := join_with 0 (bedrock_fields d)) in *.
    assert (E : floodgate_encode seal k iv h (bedrock_fields d) = h ++ 0 :: encrypt seal k iv p).
    { unfold floodgate_encode, encrypt, splitter. fold p. rewrite <- ?app_assoc. reflexivity. }
    split.
    - unfold write_hostname. rewrite Hh.
      replace (existsb (contains 0) (bedrock_fields d)) with false.
      + rewrite E. reflexivity.
      + symmetry. clear -F. induction (bedrock_fields d) as [|q l IH]; [reflexivity|].
        cbn [forallb existsb] in *. apply andb_true_iff in F. destruct F as [Fq Fl].
        destruct (contains 0 q); [discriminate|]. cbn [orb]. apply IH. exact Fl.
    - rewrite E. unfold floodgate_decode.
      rewrite (split_on_app 0 h _ Hh), (split_on_nosep 0 _ (blob_no 0 k iv p W Wp ltac:(tauto))).
      unfold encrypt at 1. rewrite is_prefix_app. cbn [negb].
      unfold encrypt. rewrite skipn_app_exact. unfold splitter. cbn [app].
      rewrite cut_at_app by (apply b64_no; [exact W|tauto]).
      rewrite (b64_decode_java_encode iv W), (b64_decode_java_encode _ (seal_wf k iv p Wp)).
      rewrite (open_seal k iv p Wp).
      assert (JS : java_split 0 p = bedrock_fields d).
      { unfold java_split. destruct p as [|c r] eqn:EP.
        - (* an empty plaintext would make every field empty *)
          exfalso. unfold p, bedrock_fields in EP. cbn [join_with flat_map] in EP.
          destruct (b_version d); [|discriminate EP]. destruct (b_username d) eqn:EU; [|discriminate EP].
          destruct V as (Hu & _). contradiction.
        - rewrite <- EP. unfold p. unfold bedrock_fields in *. rewrite (split_join 0 _ _ F).
          change [b_version d; b_username d; print_int (b_xuid d); print_int (b_device d); b_language d;
                  print_int (b_ui d); print_int (b_input d); b_ip d; b_linked d; bool_string (b_proxy d);
                  b_subscribe d; b_verify d]
            with ([b_version d; b_username d; print_int (b_xuid d); print_int (b_device d); b_language d;
                   print_int (b_ui d); print_int (b_input d); b_ip d; b_linked d; bool_string (b_proxy d);
                   b_subscribe d] ++ [b_verify d]).
          apply drop_trailing_empty_last. exact Hv. }
      rewrite JS. reflexivity.
  Qed.

  (* ---------- authenticity: whatever ReadHostname accepts was issued under the key ---------- *)

  Section Authenticity.
    (* INT-CTXT: the set of (key, nonce, ciphertext) triples produced by holders of the key *)
    Variable issued : bytes -> bytes -> bytes -> Prop.
    Hypothesis authentic : forall k iv c p, open k iv c = Some p -> issued k iv c.

    Theorem tamper : forall checked k x h d,
      read_hostname_gen open checked k x = Ok (h, d) ->
      exists iv c, envelope_of x = Some (iv, c) /\ length iv = 12%nat /\ issued k iv c.
    Proof.
      intros checked k x h d. unfold read_hostname_gen, envelope_of.
      destruct (split_on 0 x) as [|original [|data [|? ?]]]; try discriminate.
      set (data' := if contains 58 data then before 58 data else data).
      unfold decrypt_gen. destruct (envelope_of_blob data') as [[iv c]|]; [|discriminate].
      destruct (Nat.eqb (length iv) iv_length) eqn:EL; cbn [negb].
      - destruct (open k iv c) as [p|] eqn:EO; [|discriminate].
        intros _. exists iv, c. split; [reflexivity|]. split; [apply Nat.eqb_eq; exact EL|].
        eapply authentic. exact EO.
      - destruct checked; discriminate.
    Qed.

    (* only (iv0, c0) was issued under k: every hostname carrying another pair is refused *)
    Corollary tamper_single : forall checked k iv0 c0 x iv c,
      (forall iv' c', issued k iv' c' -> iv' = iv0 /\ c' = c0) ->
      envelope_of x = Some (iv, c) -> (iv <> iv0 \/ c <> c0) ->
      forall r, read_hostname_gen open checked k x <> Ok r.
    Proof.
      intros checked k iv0 c0 x iv c Only EX Hne [h d] HR.
      destruct (tamper checked k x h d HR) as (iv' & c' & EX' & _ & HI).
      rewrite EX in EX'. inversion EX'; subst. destruct (Only _ _ HI) as [-> ->]. tauto.
    Qed.

    (* nothing was issued under k' (data produced under another key): everything is refused *)
    Corollary other_key : forall checked k' x,
      (forall iv c, ~ issued k' iv c) -> forall r, read_hostname_gen open checked k' x <> Ok r.
    Proof.
      intros checked k' x No [h d] HR.
      destruct (tamper checked k' x h d HR) as (iv & c & _ & _ & HI). exact (No _ _ HI).
    Qed.
  End Authenticity.
End WithAEAD.

(* the premise in the form "only sealed ciphertexts open" *)
Theorem tamper_seal_form : forall (seal : bytes -> bytes -> bytes -> bytes) (open : bytes -> bytes -> bytes -> option bytes),
  (forall k iv c p, open k iv c = Some p -> c = seal k iv p) ->
  forall checked k x h d, read_hostname_gen open checked k x = Ok (h, d) ->
  exists iv p, envelope_of x = Some (iv, seal k iv p) /\ length iv = 12%nat.
Proof.
  intros seal open A checked k x h d HR.
  destruct (tamper open (fun k iv c => exists p, c = seal k iv p)
              (fun k iv c p H => ex_intro _ p (A k iv c p H)) checked k x h d HR) as (iv & c & EX & L & (p & ->)).
  exists iv, p. split; assumption.
Qed.

(* ---------- non-vacuity: the premises are satisfiable (a toy AEAD: tag = key) ---------- *)

Definition toy_seal (k iv p : bytes) : bytes := p ++ k.
Definition toy_open (k iv c : bytes) : option bytes :=
  let n := (length c - length k)%nat in
  if Nat.leb (length k) (length c) && beq_bytes (skipn n c) k then Some (firstn n c) else None.

Lemma toy_open_seal k iv p : toy_open k iv (toy_seal k iv p) = Some p.
Proof.
  unfold toy_open, toy_seal. rewrite app_length.
  replace (length p + length k - length k)%nat with (length p) by lia.
  replace (Nat.leb (length k) (length p + length k)) with true by (symmetry; apply Nat.leb_le; lia).
  rewrite skipn_app_exact. replace (beq_bytes k k) with true by (symmetry; apply beq_bytes_eq; reflexivity).
  cbn [andb]. rewrite firstn_app, Nat.sub_diag, firstn_all. cbn [firstn]. rewrite app_nil_r. reflexivity.
Qed.

Lemma toy_authentic k iv c p : toy_open k iv c = Some p -> c = toy_seal k iv p.
Proof.
  unfold toy_open, toy_seal.
  destruct (Nat.leb (length k) (length c)) eqn:EL; [|discriminate]. cbn [andb].
  destruct (beq_bytes (skipn (length c - length k) c) k) eqn:EB; [|discriminate].
  apply beq_bytes_eq in EB. intro H; inversion H; subst.
  set (n := (length c - length k)%nat) in *.
  transitivity (firstn n c ++ skipn n c); [symmetry; apply firstn_skipn|]. rewrite EB. reflexivity.
Qed.

Definition ex_data : bedrock :=
  mkB [49] [83; 116; 101; 118; 101; 32; 49] 2535412345678901 7 [101; 110] 0 1 [49; 46; 50] [] true [53] [57; 57].
Definition ex_key : bytes := repeat 7 16.
Definition ex_iv : bytes := [1; 2; 3; 4; 5; 6; 7; 8; 9; 10; 11; 12].
Definition ex_host : bytes := [109; 99; 46; 120].

Lemma ex_valid : valid_data ex_data /\ wf_bytes ex_iv /\ wf_bytes ex_key.
Proof.
  unfold valid_data, ex_data, in_int64, wf_bytes, ex_iv, ex_key.
  cbn [b_version b_username b_xuid b_device b_language b_ui b_input b_ip b_linked b_proxy b_subscribe b_verify repeat].
  repeat split; try discriminate; try reflexivity; try lia; repeat constructor.
Qed.

Lemma ex_roundtrip :
  impl_read_hostname toy_open ex_key (floodgate_encode toy_seal ex_key ex_iv ex_host (bedrock_fields ex_data)) = Ok (ex_host, ex_data)
  /\ impl_read_hostname toy_open (repeat 8 16) (floodgate_encode toy_seal ex_key ex_iv ex_host (bedrock_fields ex_data)) = Err.
Proof. vm_compute. split; reflexivity. Qed.

(* ---------- crash freedom ---------- *)

(* today's code is the specification (the nonce length is checked since commit 6b22eb8) *)
Lemma read_hostname_impl_is_spec open k x : impl_read_hostname open k x = spec_read_hostname open k x.
Proof. reflexivity. Qed.

Lemma spec_never_panics open k x : spec_read_hostname open k x <> Panic.
Proof.
  unfold spec_read_hostname, read_hostname_gen.
  destruct (split_on 0 x) as [|original [|data [|? ?]]]; try discriminate.
  unfold decrypt_gen.
  destruct (envelope_of_blob _) as [[iv c]|]; [|discriminate].
  destruct (negb (Nat.eqb (length iv) iv_length)); [discriminate|].
  destruct (open k iv c) as [p|]; [|discriminate].
  destruct (read_bedrock_data p); discriminate.
Qed.

Lemma impl_never_panics open k x : impl_read_hostname open k x <> Panic.
Proof. rewrite read_hostname_impl_is_spec. apply spec_never_panics. Qed.

(* facts about the PRE-fix code (finding C39-1, repaired) *)
Lemma prefix_panics_iff open k x : prefix_read_hostname open k x = Panic <-> trigger_bad_iv x = true.
Proof.
  unfold prefix_read_hostname, read_hostname_gen, trigger_bad_iv.
  destruct (split_on 0 x) as [|original [|data [|? ?]]]; try (split; discriminate).
  unfold decrypt_gen.
  destruct (envelope_of_blob _) as [[iv c]|]; [|split; discriminate].
  destruct (negb (Nat.eqb (length iv) iv_length)); [split; reflexivity|].
  destruct (open k iv c) as [p|]; [|split; discriminate].
  destruct (read_bedrock_data p); split; discriminate.
Qed.

Lemma prefix_eq_spec_off_trigger open k x : trigger_bad_iv x = false ->
  prefix_read_hostname open k x = spec_read_hostname open k x.
Proof.
  unfold prefix_read_hostname, spec_read_hostname, read_hostname_gen, trigger_bad_iv.
  destruct (split_on 0 x) as [|original [|data [|? ?]]]; try reflexivity.
  unfold decrypt_gen.
  destruct (envelope_of_blob _) as [[iv c]|]; [|reflexivity].
  destruct (negb (Nat.eqb (length iv) iv_length)); [discriminate|reflexivity].
Qed.

(* "h" NUL "^Floodgate^>" "AAAA" "!" 24 x "A" : a 3-byte nonce *)
Definition crash_hostname : bytes :=
  [104; 0] ++ header ++ [65; 65; 65; 65; 33] ++ repeat 65 24.

Lemma prefix_panics_refuted open k :
  trigger_bad_iv crash_hostname = true /\ prefix_read_hostname open k crash_hostname = Panic /\
  impl_read_hostname open k crash_hostname = Err.
Proof.
  split; [vm_compute; reflexivity|]. split; [apply prefix_panics_iff; vm_compute; reflexivity|].
  vm_compute. reflexivity.
Qed.
