(* C17 — the kick result selection (handleConnectionErr2) satisfies the judge's kick predicate. *)
From Coq Require Import List NArith Bool Arith Lia.
From Verif Require Import Base.Hex Base.Text Model.TryList Proofs.C17.
Import ListNotations.
Open Scope N_scope.

Lemma first_eligible_next cfg vhost reg st s failed :
  wf_state cfg vhost st ->
  connected st = s_connected s -> inflight st = s_inflight s ->
  consistent reg (candidates cfg vhost) = true ->
  first_eligible reg (fun n => same (s_connected s) n || same (s_inflight s) n || same failed n)
                 (candidates cfg vhost) 0 (cursor st)
  = snd (next cfg vhost reg st failed).
Proof.
  intros Hwf Hc Hf Hcons.
  rewrite (next_unfold cfg vhost reg st failed Hwf).
  assert (Hex : forall n, (same (s_connected s) n || same (s_inflight s) n || same failed n)
                          = excluded st failed n).
  { intro n. unfold excluded. rewrite Hc, Hf. reflexivity. }
  destruct (candidates cfg vhost) as [|c0 cl] eqn:Ec; [reflexivity|].
  rewrite (first_eligible_skip reg _ (cursor st) (c0 :: cl) 0 (cursor st)) by lia.
  simpl plus.
  rewrite (first_eligible_scan reg _ (skipn (cursor st) (c0 :: cl)) (cursor st) (cursor st) (cursor st)
             (le_n _)).
  2:{ intros n s0 Hin Hfs. apply (consistent_spec reg (c0 :: cl) Hcons n s0); [|assumption].
      eapply in_skipn. eassumption. }
  rewrite (scan_ext reg _ (excluded st failed) Hex). reflexivity.
Qed.

Theorem kick_holds cfg vhost reg st s rs safe :
  wf_state cfg vhost st ->
  connected st = s_connected s -> inflight st = s_inflight s ->
  consistent reg (candidates cfg vhost) = true ->
  holds_kick (candidates cfg vhost) s (cursor st) reg rs safe (snd (kick cfg vhost reg st rs safe)) = true.
Proof.
  intros Hwf Hc Hf Hcons. unfold holds_kick, kick. destruct safe; [|reflexivity].
  cbn [negb andb]. rewrite <- Hc. destruct (kicked_from_current (connected st) rs); [|reflexivity].
  cbn [snd]. rewrite Hc. rewrite (first_eligible_next cfg vhost reg st s (Some rs) Hwf Hc Hf Hcons).
  destruct (snd (next cfg vhost reg st (Some rs))) as [[i sv]|]; [apply beq_bytes_refl | reflexivity].
Qed.

(* the state reached by a history is tracked by the spec view, and its cursor is the last observed one *)
Lemma run_state_tracks cfg vhost : forall ops st s d,
  wf_state cfg vhost st -> connected st = s_connected s -> inflight st = s_inflight s -> d = cursor st ->
  let st' := run_state cfg vhost st ops in
  wf_state cfg vhost st' /\
  connected st' = s_connected (s_run s ops) /\ inflight st' = s_inflight (s_run s ops) /\
  cursor st' = last_cursor_from d (run cfg vhost st ops).
Proof.
  induction ops as [|o ops IH]; intros st s d Hwf Hc Hf Hd; simpl.
  - auto.
  - pose proof (step_tracks cfg vhost st s o Hc Hf) as (Hc' & Hf' & Hcur).
    pose proof (step_wf cfg vhost st o Hwf) as Hwf'.
    destruct (step cfg vhost st o) as [st1 ob] eqn:Es. simpl in *.
    apply (IH st1 (s_step s o) (o_cursor ob) Hwf' Hc' Hf'). symmetry. exact Hcur.
Qed.

Theorem history_then_kick_thm cfg vhost ops reg rs safe :
  consistent reg (candidates cfg vhost) = true ->
  holds_kick (candidates cfg vhost) (s_run (mkS None None) ops)
             (last_cursor (run cfg vhost init_state ops)) reg rs safe
             (snd (kick cfg vhost reg (run_state cfg vhost init_state ops) rs safe)) = true.
Proof.
  intro Hcons.
  destruct (run_state_tracks cfg vhost ops init_state (mkS None None) 0%nat (init_wf cfg vhost)
              eq_refl eq_refl eq_refl) as (Hwf & Hc & Hf & Hcur).
  unfold last_cursor. rewrite <- Hcur. apply kick_holds; assumption.
Qed.
