(* Small definitions and lemmas about the regenerated packet table shared by C04, C05 and C07 (no obligations here). *)
From Coq Require Import List String Bool.
From Verif Require Import Model.Layout Model.LayoutPrims Gen.PacketLayouts.
Import ListNotations.

Definition entry_name (e : entry) : string :=
  match e with Fragment n _ _ _ => n | Opaque n _ _ => n end.

Definition is_fragment (e : entry) : bool := match e with Fragment _ _ _ _ => true | _ => false end.

Lemma filter_nil {A} (f : A -> bool) l : filter f l = [] -> forall x, In x l -> f x = false.
Proof.
  induction l as [|a r IH]; intros H x Hx; [destruct Hx|].
  cbn [filter] in H. destruct (f a) eqn:E; [discriminate|].
  destruct Hx as [->|Hx]; [exact E | apply IH; assumption].
Qed.

