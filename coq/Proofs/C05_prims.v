(* C05 - the concrete primitives satisfy the allocation / termination premises [pfam_alloc_ok]. *)
From Coq Require Import List NArith ZArith Bool Lia ZifyN ZifyNat ZifyBool.
From Verif Require Import Base.Hex Model.Layout Model.LayoutPrims Proofs.C04_layout Proofs.C04_prims Proofs.C05_layout.
Import ListNotations.
Open Scope Z_scope.

Lemma claimed_le limit bs : (claimed_len limit bs <= Z.to_N limit)%N.
Proof.
  unfold claimed_len. destruct (dec_varint bs) as [[n r]|e]; [|lia].
  destruct (n <? 0) eqn:E1; cbn [orb]; [lia|]. destruct (limit <? n) eqn:E2; [lia|].
  apply Z.ltb_ge in E1, E2. lia.
Qed.

Lemma take_n_lenN n bs a r : take_n n bs = Ok (a, r) -> (lenN r + N.of_nat n = lenN bs)%N /\ lenN a = N.of_nat n.
Proof.
  intro H. pose proof (take_n_len _ _ _ _ H) as Hl. unfold take_n in H.
  destruct (Nat.leb n (length bs)) eqn:E; [|discriminate]. inversion H; subst. apply Nat.leb_le in E.
  unfold lenN. rewrite firstn_length. split; lia.
Qed.

Lemma claimed_ok limit bs s rest : dec_lenpref limit bs = Ok (s, rest) ->
  claimed_len limit bs = lenN s /\ (lenN s + 1 + lenN rest <= lenN bs)%N.
Proof.
  unfold dec_lenpref, claimed_len. destruct (dec_varint bs) as [[n r]|e] eqn:E; [|discriminate].
  apply dec_varint_min in E.
  destruct (n <? 0) eqn:E1; [discriminate|]. destruct (limit <? n) eqn:E2; [discriminate|]. cbn [orb].
  intro H. destruct (take_n_lenN _ _ _ _ H) as [H1 H2]. apply Z.ltb_ge in E1.
  unfold lenN in *. split; lia.
Qed.

Lemma lp_alloc_succ : forall p bs a rest, lp_dec p bs = Ok (a, rest) ->
  (lp_alloc p bs <= lp_ka * (lenN bs - lenN rest))%N.
Proof.
  intros p bs a rest H. unfold lp_ka.
  destruct p as [| | w sg | max | max | | n | | | d | |]; cbn [lp_dec lp_alloc] in *; try lia.
  - destruct (dec_lenpref (4 * max) bs) as [[s r]|e] eqn:E; [|discriminate]. inversion H; subst.
    destruct (claimed_ok _ _ _ _ E) as [C1 C2]. rewrite C1. lia.
  - destruct (dec_lenpref max bs) as [[s r]|e] eqn:E; [|discriminate]. inversion H; subst.
    destruct (claimed_ok _ _ _ _ E) as [C1 C2]. rewrite C1. lia.
  - destruct (take_n 16 bs) as [[b r]|e] eqn:E; [|discriminate]. inversion H; subst.
    destruct (take_n_lenN _ _ _ _ E). lia.
  - destruct (take_n n bs) as [[b r]|e] eqn:E; [|discriminate]. inversion H; subst.
    destruct (take_n_lenN _ _ _ _ E). lia.
  - unfold dec_fshort in *. destruct (take_n 2 bs) as [[b2 r]|e] eqn:E; [|discriminate].
    destruct (take_n_lenN _ _ _ _ E) as [E1 _].
    destruct (Z.land (Z.of_N (be_val b2)) 32768 =? 0).
    + destruct (forge_max <? Z.of_N (be_val b2)); [discriminate|].
      destruct (take_n (Z.to_nat (Z.of_N (be_val b2))) r) as [[s r']|e] eqn:E2; [|discriminate]. inversion H; subst.
      destruct (take_n_lenN _ _ _ _ E2). lia.
    + destruct r as [|h r']; [discriminate|].
      destruct (forge_max <? _) eqn:E3; [discriminate|].
      destruct (take_n _ r') as [[s r'']|e] eqn:E2; [|discriminate]. inversion H; subst.
      destruct (take_n_lenN _ _ _ _ E2). apply Z.ltb_ge in E3. unfold lenN in *. cbn [length] in *. lia.
  - destruct bs as [|b r]; [discriminate|]. cbn [old_dec_fshort] in H.
    destruct (take_n (Z.to_nat (Z.of_N b)) r) as [[s r']|e] eqn:E; [|discriminate]. inversion H; subst.
    destruct (take_n_lenN _ _ _ _ E). unfold lenN in *. cbn [length]. lia.
  - destruct (dec_lenpref _ bs) as [[s r]|e] eqn:E; [|discriminate].
    destruct (claimed_ok _ _ _ _ E) as [C1 C2]. rewrite C1.
    destruct (parse_uuid_text s) eqn:P; [|discriminate]. inversion H; subst.
    unfold parse_uuid_text in P.
    destruct (Nat.eqb (length s) 36) eqn:L1.
    { apply Nat.eqb_eq in L1. unfold lenN in *. lia. }
    destruct (Nat.eqb (length s) 32) eqn:L2; [|discriminate].
    apply Nat.eqb_eq in L2. unfold lenN in *. lia.
  - destruct (dec_lenpref _ bs) as [[s r]|e] eqn:E; [|discriminate].
    destruct (claimed_ok _ _ _ _ E) as [C1 C2]. rewrite C1.
    destruct (valid_key (canon_key s)); [|discriminate]. inversion H; subst. lia.
  - destruct (nbt_rest bs) as [r|] eqn:E; [|discriminate]. inversion H; subst. apply nbt_rest_len in E. unfold lenN. lia.
Qed.

Lemma lp_alloc_any : forall p bs, (lp_alloc p bs <= lp_ka * lenN bs + lp_cap p)%N.
Proof.
  intros p bs. unfold lp_ka.
  destruct p as [| | w sg | max | max | | n | | | d | |]; cbn [lp_alloc lp_cap]; try lia.
  - pose proof (claimed_le (4 * max) bs). lia.
  - pose proof (claimed_le max bs). lia.
  - destruct (dec_fshort bs) as [[n r]|e]; [|lia].
    destruct (forge_max <? n) eqn:E; [lia|]. apply Z.ltb_ge in E. unfold forge_max in *. lia.
  - destruct bs as [|b r]; lia.
  - pose proof (claimed_le (4 * (if d then 36 else 32)) bs). destruct d; lia.
  - pose proof (claimed_le (4 * default_max) bs). unfold default_max in *. lia.
  - destruct (nbt_rest bs) as [r|] eqn:E; [apply nbt_rest_len in E; unfold lenN; lia | lia].
Qed.

Lemma dec_varint_nofuel bs : dec_varint bs <> Err EFuel.
Proof. unfold dec_varint. destruct (VarInt.dec bs) as [[[u n] r]|[|]]; discriminate. Qed.

Lemma take_n_nofuel n bs : take_n n bs <> Err EFuel.
Proof. unfold take_n. destruct (Nat.leb n (length bs)); discriminate. Qed.

Lemma dec_lenpref_nofuel limit bs : dec_lenpref limit bs <> Err EFuel.
Proof.
  unfold dec_lenpref. pose proof (dec_varint_nofuel bs). destruct (dec_varint bs) as [[n r]|e]; [|congruence].
  destruct (n <? 0); [discriminate|]. destruct (limit <? n); [discriminate|]. apply take_n_nofuel.
Qed.

Lemma lp_prim_nofuel : forall p bs, lp_dec p bs <> Err EFuel.
Proof.
  intros p bs. destruct p as [| | w sg | max | max | | n | | | d | |]; cbn [lp_dec].
  - pose proof (dec_varint_nofuel bs). destruct (dec_varint bs) as [[z r]|e]; [discriminate | congruence].
  - destruct bs; discriminate.
  - pose proof (take_n_nofuel w bs). destruct (take_n w bs) as [[b r]|e]; [discriminate | congruence].
  - pose proof (dec_lenpref_nofuel (4 * max) bs). destruct (dec_lenpref (4 * max) bs) as [[s r]|e]; [discriminate | congruence].
  - pose proof (dec_lenpref_nofuel max bs). destruct (dec_lenpref max bs) as [[s r]|e]; [discriminate | congruence].
  - pose proof (take_n_nofuel 16 bs). destruct (take_n 16 bs) as [[b r]|e]; [discriminate | congruence].
  - pose proof (take_n_nofuel n bs). destruct (take_n n bs) as [[b r]|e]; [discriminate | congruence].
  - unfold dec_fshort. pose proof (take_n_nofuel 2 bs). destruct (take_n 2 bs) as [[b2 r]|e]; [|congruence].
    destruct (Z.land _ 32768 =? 0).
    + destruct (forge_max <? _); [discriminate|].
      pose proof (take_n_nofuel (Z.to_nat (Z.of_N (be_val b2))) r). destruct (take_n _ r) as [[s r']|e]; [discriminate | congruence].
    + destruct r as [|h r']; [discriminate|]. destruct (forge_max <? _); [discriminate|].
      match goal with |- context [take_n ?k r'] => pose proof (take_n_nofuel k r'); destruct (take_n k r') as [[s r'']|e] end;
        [discriminate | congruence].
  - destruct bs as [|b r]; [discriminate|]. cbn [old_dec_fshort].
    pose proof (take_n_nofuel (Z.to_nat (Z.of_N b)) r). destruct (take_n _ r) as [[s r']|e]; [discriminate | congruence].
  - match goal with |- context [dec_lenpref ?l bs] => pose proof (dec_lenpref_nofuel l bs); destruct (dec_lenpref l bs) as [[s r]|e] end;
      [|congruence]. destruct (parse_uuid_text s); discriminate.
  - match goal with |- context [dec_lenpref ?l bs] => pose proof (dec_lenpref_nofuel l bs); destruct (dec_lenpref l bs) as [[s r]|e] end;
      [|congruence]. destruct (valid_key (canon_key s)); discriminate.
  - destruct (nbt_rest bs); discriminate.
Qed.

Theorem lp_alloc_ok : pfam_alloc_ok LP lp_ka.
Proof.
  constructor.
  - exact lp_alloc_succ.
  - exact lp_alloc_any.
  - exact lp_prim_nofuel.
  - intro bs. cbn. destruct bs; discriminate.
  - intro bs. cbn. apply dec_varint_nofuel.
Qed.
Print Assumptions lp_alloc_ok.
