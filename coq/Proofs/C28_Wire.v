(* C28 - byte level: the reference vanilla decoder reads back what the canonical encoder
   ([encode_upsert true], [encode_remove]) writes, so the client that applies the BYTES of the
   demanded tab list's packets ends in the state of the structured theorem (C28_Struct). *)
From Coq Require Import List Arith NArith ZArith Bool Lia ZifyN ZifyNat ZifyBool.
From Verif Require Import Base.Hex Base.Assoc Model.TabList Proofs.C28_Struct.
From Verif Require Base.VarInt.
Import ListNotations.
Open Scope N_scope.
Ltac Zify.zify_post_hook ::= Z.div_mod_to_equations.

(* ---------- primitives ---------- *)

Definition int32 (z : Z) : Prop := (-2147483648 <= z < 2147483648)%Z.

Lemma signed_unsigned z : int32 z -> signed32 (unsigned32 z) = z.
Proof.
  unfold int32, signed32, unsigned32. intros H.
  destruct (N.ltb_spec (Z.to_N (z mod 4294967296)) 2147483648); lia.
Qed.

Lemma unsigned_lt z : unsigned32 z < 2 ^ 32.
Proof. unfold unsigned32. change (2 ^ 32) with 4294967296. lia. Qed.

Lemma rd_varint_enc z rest : int32 z -> rd_varint (enc_varint z ++ rest) = Some (z, rest).
Proof.
  intros H. unfold rd_varint, enc_varint.
  rewrite (VarInt.varint_roundtrip _ rest (unsigned_lt z)). rewrite signed_unsigned by exact H. reflexivity.
Qed.

Lemma enc_varint_nonempty z : enc_varint z <> [].
Proof.
  unfold enc_varint, VarInt.enc. cbn [VarInt.enc_fuel]. destruct (unsigned32 z <? 128); discriminate.
Qed.

Lemma rd_len_enc n rest : n < 2147483648 -> rd_len (enc_varint (Z.of_N n) ++ rest) = Some (n, rest).
Proof.
  intros H. unfold rd_len. rewrite rd_varint_enc by (unfold int32; lia).
  destruct (Z.ltb_spec (Z.of_N n) 0); [lia|]. rewrite N2Z.id. reflexivity.
Qed.

Lemma rd_take_app s rest : rd_take (length s) (s ++ rest) = Some (s, rest).
Proof.
  unfold rd_take. rewrite app_length.
  replace (Nat.ltb (length s + length rest) (length s)) with false by (symmetry; apply Nat.ltb_ge; lia).
  rewrite firstn_app, Nat.sub_diag, firstn_all. cbn [firstn]. rewrite app_nil_r.
  rewrite skipn_app, Nat.sub_diag, skipn_all. reflexivity.
Qed.

Definition short (max : N) (s : bytes) : Prop := N.of_nat (length s) <= 3 * max /\ N.of_nat (length s) < 2147483648.

Lemma rd_string_enc max s rest : short max s -> rd_string max (enc_string s ++ rest) = Some (s, rest).
Proof.
  intros [H1 H2]. unfold rd_string, enc_string. rewrite <- app_assoc.
  replace (Z.of_nat (length s)) with (Z.of_N (N.of_nat (length s))) by lia.
  rewrite rd_len_enc by exact H2.
  replace (3 * max <? N.of_nat (length s)) with false by (symmetry; apply N.ltb_ge; exact H1).
  replace (N.of_nat (length (s ++ rest)) <? N.of_nat (length s)) with false
    by (symmetry; apply N.ltb_ge; rewrite app_length; lia).
  cbn [orb]. rewrite Nat2N.id. apply rd_take_app.
Qed.

Lemma rd_bool_enc x rest : rd_bool (enc_bool x ++ rest) = Some (x, rest).
Proof. destruct x; reflexivity. Qed.

(* big-endian numbers *)
Lemma be_val_app l : forall y acc, be_val (l ++ [y]) acc = be_val l acc * 256 + y.
Proof. induction l as [|x r IH]; intros y acc; [reflexivity|]. cbn [app be_val]. apply IH. Qed.

Lemma be_bytes_length n : forall x, length (be_bytes n x) = n.
Proof. induction n as [|k IH]; intros x; [reflexivity|]. cbn [be_bytes]. rewrite app_length, IH. cbn. lia. Qed.

Lemma be_val_bytes n : forall x acc, be_val (be_bytes n x) acc = acc * 256 ^ N.of_nat n + x mod 256 ^ N.of_nat n.
Proof.
  induction n as [|k IH]; intros x acc.
  - cbn [be_bytes be_val]. change (N.of_nat 0) with 0. rewrite N.pow_0_r, N.mod_1_r. lia.
  - cbn [be_bytes]. rewrite be_val_app, IH.
    replace (N.of_nat (S k)) with (N.of_nat k + 1) by lia. rewrite N.pow_add_r, N.pow_1_r.
    rewrite (N.mul_comm (256 ^ N.of_nat k) 256).
    rewrite (N.mod_mul_r x 256 (256 ^ N.of_nat k)) by (try lia; apply N.pow_nonzero; lia).
    lia.
Qed.

Definition id_ok (id : N) : Prop := id < 2 ^ 128.

Lemma rd_uuid_enc id rest : id_ok id -> rd_uuid (enc_uuid id ++ rest) = Some (id, rest).
Proof.
  intros H. unfold rd_uuid, enc_uuid.
  pose proof (rd_take_app (be_bytes 16 id) rest) as T. rewrite be_bytes_length in T. rewrite T.
  rewrite be_val_bytes. change (256 ^ N.of_nat 16) with (2 ^ 128).
  rewrite N.mod_small by exact H. reflexivity.
Qed.

Lemma enc_uuid_length id : length (enc_uuid id) = 16%nat.
Proof. apply be_bytes_length. Qed.

(* ---------- lists of things ---------- *)

Lemma rd_many_enc {A} (rd : reader A) (enc : A -> bytes) (ok : A -> Prop) :
  (forall a rest, ok a -> rd (enc a ++ rest) = Some (a, rest)) ->
  forall l rest, Forall ok l -> rd_many rd (length l) (flat_map enc l ++ rest) = Some (l, rest).
Proof.
  intros R. induction l as [|a r IH]; intros rest F; [reflexivity|].
  inversion F as [|? ? Fa Fr]; subst. cbn [length rd_many flat_map]. rewrite <- app_assoc.
  rewrite R by exact Fa. rewrite IH by exact Fr. reflexivity.
Qed.

Lemma flat_map_length_ge {A} (enc : A -> bytes) l :
  (forall a, enc a <> []) -> (length l <= length (flat_map enc l))%nat.
Proof.
  intros NE. induction l as [|a r IH]; [reflexivity|]. cbn [flat_map length]. rewrite app_length.
  specialize (NE a). destruct (enc a); [congruence|]. cbn [length]. lia.
Qed.

Lemma rd_count_enc n rest :
  N.of_nat n < 2147483648 -> (n <= length rest)%nat ->
  rd_count (enc_varint (Z.of_nat n) ++ rest) = Some (n, rest).
Proof.
  intros H L. unfold rd_count. replace (Z.of_nat n) with (Z.of_N (N.of_nat n)) by lia.
  rewrite rd_len_enc by exact H.
  replace (N.of_nat (length rest) <? N.of_nat n) with false by (symmetry; apply N.ltb_ge; lia).
  rewrite Nat2N.id. reflexivity.
Qed.

(* ---------- profile properties ---------- *)

Definition wf_prop (p : prop) : Prop :=
  short 32767 (p_name p) /\ short 32767 (p_value p) /\ short 32767 (p_sig p).

Lemma rd_prop_enc p rest : wf_prop p -> rd_prop (enc_prop p ++ rest) = Some (p, rest).
Proof.
  intros [H1 [H2 H3]]. unfold rd_prop, enc_prop. rewrite <- !app_assoc.
  rewrite rd_string_enc by exact H1. rewrite rd_string_enc by exact H2.
  destruct p as [n v s]. cbn [p_name p_value p_sig] in *. destruct s as [|x s'].
  - reflexivity.
  - cbn [app rd_bool]. change (negb (1 =? 0)) with true. cbv iota.
    rewrite rd_string_enc by exact H3. reflexivity.
Qed.

Lemma enc_prop_nonempty p : enc_prop p <> [].
Proof.
  unfold enc_prop, enc_string. intros H. apply app_eq_nil in H. destruct H as [H _].
  apply app_eq_nil in H. destruct H as [H _]. exact (enc_varint_nonempty _ H).
Qed.

Definition wf_props (ps : list prop) : Prop := (length ps <= 16)%nat /\ Forall wf_prop ps.

Lemma rd_props_enc ps rest : wf_props ps -> rd_props (enc_props ps ++ rest) = Some (ps, rest).
Proof.
  intros [L F]. unfold rd_props, enc_props. rewrite <- app_assoc.
  rewrite rd_count_enc.
  - replace (Nat.ltb 16 (length ps)) with false by (symmetry; apply Nat.ltb_ge; exact L).
    apply (rd_many_enc rd_prop enc_prop wf_prop rd_prop_enc). exact F.
  - lia.
  - rewrite app_length. pose proof (flat_map_length_ge enc_prop ps enc_prop_nonempty). lia.
Qed.

(* ---------- one action ---------- *)

(* a chat component the decoder delimits exactly *)
Definition comp_ok (ver : N) (c : bytes) : Prop := forall rest, rd_component ver (c ++ rest) = Some (c, rest).

Definition wf_field (ver : N) (a : N) (e : dentry) : Prop :=
  match a with
  | 0 => short 16 (d_name e) /\ wf_props (d_props e)
  | 1 => d_chat e = false
  | 2 => int32 (d_gm e)
  | 4 => int32 (d_latency e)
  | 5 => match d_dn e with Some c => comp_ok ver c | None => True end
  | 6 => int32 (d_order e)
  | _ => True
  end.

(* entry [acc] with the field(s) of action a taken from [src] *)
Definition setf (a : N) (src acc : dentry) : dentry :=
  match a with
  | 0 => mkD (d_id acc) (d_name src) (d_props src) (d_chat acc) (d_gm acc) (d_listed acc) (d_latency acc) (d_dn acc) (d_order acc) (d_hat acc)
  | 2 => mkD (d_id acc) (d_name acc) (d_props acc) (d_chat acc) (d_gm src) (d_listed acc) (d_latency acc) (d_dn acc) (d_order acc) (d_hat acc)
  | 3 => mkD (d_id acc) (d_name acc) (d_props acc) (d_chat acc) (d_gm acc) (d_listed src) (d_latency acc) (d_dn acc) (d_order acc) (d_hat acc)
  | 4 => mkD (d_id acc) (d_name acc) (d_props acc) (d_chat acc) (d_gm acc) (d_listed acc) (d_latency src) (d_dn acc) (d_order acc) (d_hat acc)
  | 5 => mkD (d_id acc) (d_name acc) (d_props acc) (d_chat acc) (d_gm acc) (d_listed acc) (d_latency acc) (d_dn src) (d_order acc) (d_hat acc)
  | 6 => mkD (d_id acc) (d_name acc) (d_props acc) (d_chat acc) (d_gm acc) (d_listed acc) (d_latency acc) (d_dn acc) (d_order src) (d_hat acc)
  | 7 => mkD (d_id acc) (d_name acc) (d_props acc) (d_chat acc) (d_gm acc) (d_listed acc) (d_latency acc) (d_dn acc) (d_order acc) (d_hat src)
  | _ => acc
  end.

Lemma rd_action_enc ver a src acc rest :
  In a all_actions -> wf_field ver a src ->
  rd_action ver a acc (enc_action a src ++ rest) = Some (setf a src acc, rest).
Proof.
  intros I W. cbn [all_actions In] in I.
  repeat (destruct I as [<-|I]); [..|destruct I]; cbn [wf_field] in W; unfold rd_action, enc_action, setf.
  - destruct W as [W1 W2]. rewrite <- app_assoc. rewrite rd_string_enc by exact W1.
    rewrite rd_props_enc by exact W2. reflexivity.
  - cbn [app rd_bool]. destruct acc. reflexivity.
  - rewrite rd_varint_enc by exact W. reflexivity.
  - rewrite rd_bool_enc. reflexivity.
  - rewrite rd_varint_enc by exact W. reflexivity.
  - destruct (d_dn src) as [c|]; cbn [app rd_bool].
    + change (negb (1 =? 0)) with true. cbv iota. rewrite W. reflexivity.
    + reflexivity.
  - rewrite rd_varint_enc by exact W. reflexivity.
  - rewrite rd_bool_enc. reflexivity.
Qed.

(* ---------- one entry ---------- *)

Definition masked_from (order acts : list N) (src acc : dentry) : dentry :=
  fold_left (fun acc a => if mem a order then setf a src acc else acc) acts acc.
Definition masked (order : list N) (e : dentry) : dentry :=
  masked_from order all_actions e (d_default (d_id e)).

Lemma rd_actions_enc ver order src : forall acts acc rest,
  (forall a, In a acts -> In a all_actions /\ (mem a order = true -> wf_field ver a src)) ->
  rd_actions ver (bits_of order) acts acc
             (flat_map (fun a => enc_action a src) (filter (fun a => mem a order) acts) ++ rest)
  = Some (masked_from order acts src acc, rest).
Proof.
  induction acts as [|a k IH]; intros acc rest W; [reflexivity|].
  destruct (W a (or_introl eq_refl)) as [IA WF].
  cbn [rd_actions filter masked_from fold_left]. rewrite (has_bits order a IA).
  destruct (mem a order) eqn:M.
  - cbn [flat_map]. rewrite <- app_assoc. rewrite rd_action_enc by (try exact IA; apply WF; reflexivity).
    apply IH. intros b Hb. apply W. right. exact Hb.
  - apply IH. intros b Hb. apply W. right. exact Hb.
Qed.

Definition wf_entry (ver : N) (order : list N) (e : dentry) : Prop :=
  id_ok (d_id e) /\ forall a, In a all_actions -> mem a order = true -> wf_field ver a e.

Lemma rd_entry_enc ver order e rest :
  wf_entry ver order e ->
  rd_entry ver (bits_of order)
           ((enc_uuid (d_id e) ++ flat_map (fun a => enc_action a e) (canonical order)) ++ rest)
  = Some (masked order e, rest).
Proof.
  intros [WI WF]. unfold rd_entry. rewrite <- app_assoc. rewrite rd_uuid_enc by exact WI.
  unfold canonical, masked. apply rd_actions_enc. intros a Ha. split; [exact Ha|]. apply WF. exact Ha.
Qed.

(* ---------- the packets ---------- *)

Definition wf_order (ver : N) (order : list N) : Prop :=
  forall a, In a all_actions -> n_actions ver <= a -> mem a order = false.

Lemma bits_bound ver order : wf_order ver order -> (2 ^ n_actions ver <=? bits_of order) = false.
Proof.
  intros W. unfold wf_order, n_actions in *.
  assert (I6 : In 6 all_actions) by (cbv; tauto). assert (I7 : In 7 all_actions) by (cbv; tauto).
  unfold bits_of, all_actions. cbn [fold_left].
  destruct (ver <? 768) eqn:V1; [|destruct (ver <? 769) eqn:V2].
  - rewrite (W 6 I6) by lia. rewrite (W 7 I7) by lia.
    destruct (mem 0 order), (mem 1 order), (mem 2 order), (mem 3 order), (mem 4 order), (mem 5 order); reflexivity.
  - rewrite (W 7 I7) by lia.
    destruct (mem 0 order), (mem 1 order), (mem 2 order), (mem 3 order), (mem 4 order), (mem 5 order), (mem 6 order); reflexivity.
  - destruct (mem 0 order), (mem 1 order), (mem 2 order), (mem 3 order), (mem 4 order), (mem 5 order), (mem 6 order), (mem 7 order); reflexivity.
Qed.

Definition wf_upsert (ver : N) (order : list N) (es : list dentry) : Prop :=
  wf_order ver order /\ N.of_nat (length es) < 2147483648 /\ Forall (wf_entry ver order) es.

Lemma entry_enc_nonempty order (e : dentry) :
  enc_uuid (d_id e) ++ flat_map (fun a => enc_action a e) (canonical order) <> [].
Proof.
  intros H. apply app_eq_nil in H. destruct H as [H _].
  pose proof (enc_uuid_length (d_id e)) as L. rewrite H in L. discriminate L.
Qed.

Lemma decode_encode_upsert ver order es :
  wf_upsert ver order es ->
  vanilla_decode_upsert ver (encode_upsert true order es) = Some (bits_of order, map (masked order) es).
Proof.
  intros [WO [WL WE]]. unfold vanilla_decode_upsert, encode_upsert. cbn [app rd_byte].
  rewrite (bits_bound ver order WO).
  set (enc1 := fun e : dentry => enc_uuid (d_id e) ++ flat_map (fun a => enc_action a e) (canonical order)).
  rewrite <- (app_nil_r (flat_map _ es)).
  rewrite rd_count_enc.
  - pose proof (rd_many_enc (fun b => match rd_entry ver (bits_of order) b with
                                      | Some (e, r) => Some (e, r) | None => None end)
                            enc1 (wf_entry ver order)) as R.
    assert (EQ : forall n b, rd_many (rd_entry ver (bits_of order)) n b =
                             rd_many (fun b => match rd_entry ver (bits_of order) b with
                                               | Some (e, r) => Some (e, r) | None => None end) n b).
    { induction n as [|k IH]; intros b; [reflexivity|]. cbn [rd_many].
      destruct (rd_entry ver (bits_of order) b) as [[e r]|]; [rewrite IH|]; reflexivity. }
    clear EQ R.
    (* rd_many over the masked entries *)
    assert (M : forall l rest, Forall (wf_entry ver order) l ->
                rd_many (rd_entry ver (bits_of order)) (length l) (flat_map enc1 l ++ rest)
                = Some (map (masked order) l, rest)).
    { induction l as [|e r IH]; intros rest F; [reflexivity|].
      inversion F as [|? ? Fe Fr]; subst. cbn [length rd_many flat_map map]. rewrite <- app_assoc.
      unfold enc1 at 1. rewrite <- (app_assoc (enc_uuid (d_id e))).
      rewrite (app_assoc (enc_uuid (d_id e)) _ (flat_map enc1 r ++ rest)).
      rewrite rd_entry_enc by exact Fe. rewrite IH by exact Fr. reflexivity. }
    rewrite (M es [] WE). reflexivity.
  - exact WL.
  - rewrite app_nil_r. apply flat_map_length_ge. intros e. unfold enc1. exact (entry_enc_nonempty order e).
Qed.

Definition wf_remove (ids : list N) : Prop := N.of_nat (length ids) < 2147483648 /\ Forall id_ok ids.

Lemma decode_encode_remove ids : wf_remove ids -> vanilla_decode_remove (encode_remove ids) = Some ids.
Proof.
  intros [WL WI]. unfold vanilla_decode_remove, encode_remove.
  rewrite <- (app_nil_r (flat_map enc_uuid ids)).
  rewrite rd_count_enc.
  - rewrite (rd_many_enc rd_uuid enc_uuid id_ok rd_uuid_enc ids [] WI). reflexivity.
  - exact WL.
  - rewrite app_nil_r. apply flat_map_length_ge. intros a H.
    pose proof (enc_uuid_length a) as L. rewrite H in L. discriminate L.
Qed.

(* ---------- the client does not see the masking ---------- *)

Lemma masked_from_id order src : forall acts acc, d_id (masked_from order acts src acc) = d_id acc.
Proof.
  induction acts as [|a k IH]; intros acc; [reflexivity|]. cbn [masked_from fold_left].
  change (fold_left _ k ?x) with (masked_from order k src x). rewrite IH.
  destruct (mem a order); [|reflexivity].
  unfold setf. destruct a as [|p]; [reflexivity|]. do 3 (destruct p as [p|p|]; try reflexivity).
Qed.

Lemma masked_fields order e :
  d_id (masked order e) = d_id e /\
  (mem 0 order = true -> d_name (masked order e) = d_name e /\ d_props (masked order e) = d_props e) /\
  (mem 2 order = true -> d_gm (masked order e) = d_gm e) /\
  (mem 3 order = true -> d_listed (masked order e) = d_listed e) /\
  (mem 4 order = true -> d_latency (masked order e) = d_latency e) /\
  (mem 5 order = true -> d_dn (masked order e) = d_dn e) /\
  (mem 6 order = true -> d_order (masked order e) = d_order e).
Proof.
  unfold masked, masked_from, all_actions. cbn [fold_left].
  destruct (mem 0 order), (mem 1 order), (mem 2 order), (mem 3 order),
           (mem 4 order), (mem 5 order), (mem 6 order), (mem 7 order);
    cbn; repeat split; intros; try discriminate; reflexivity.
Qed.

Lemma client_upsert_masked order es C :
  client_upsert (bits_of order) (map (masked order) es) C = client_upsert (bits_of order) es C.
Proof.
  unfold client_upsert, two_pass_upsert.
  assert (B : forall a, In a all_actions -> has_action (bits_of order) a = mem a order) by (intros; apply has_bits; assumption).
  assert (K : forall e, d_id (masked order e) = d_id e) by (intros e; apply masked_fields).
  assert (U : forall e c, c_upd (bits_of order) (masked order e) c = c_upd (bits_of order) e c).
  { intros e c. destruct (masked_fields order e) as [_ [_ [F2 [F3 [F4 [F5 F6]]]]]].
    unfold c_upd. rewrite !B by (cbv; tauto). f_equal.
    - destruct (mem 3 order) eqn:M; [rewrite F3 by reflexivity|]; reflexivity.
    - destruct (mem 4 order) eqn:M; [rewrite F4 by reflexivity|]; reflexivity.
    - destruct (mem 2 order) eqn:M; [rewrite F2 by reflexivity|]; reflexivity.
    - destruct (mem 5 order) eqn:M; [rewrite F5 by reflexivity|]; reflexivity.
    - destruct (mem 6 order) eqn:M; [rewrite F6 by reflexivity|]; reflexivity. }
  assert (P2 : forall l m, fold_left (upd_present d_id (c_upd (bits_of order))) (map (masked order) l) m
                           = fold_left (upd_present d_id (c_upd (bits_of order))) l m).
  { induction l as [|e r IH]; intros m; [reflexivity|]. cbn [map fold_left]. rewrite IH. f_equal.
    unfold upd_present. rewrite K. destruct (aget (d_id e) m); [rewrite U|]; reflexivity. }
  rewrite P2. f_equal.
  destruct (has_action (bits_of order) 0) eqn:A; [|reflexivity].
  rewrite B in A by (cbv; tauto).
  assert (N : forall e, c_new (masked order e) = c_new e).
  { intros e. destruct (masked_fields order e) as [_ [F0 _]]. destruct (F0 A) as [E1 E2].
    unfold c_new. rewrite E1, E2. reflexivity. }
  generalize C. induction es as [|e r IH]; intros m; [reflexivity|]. cbn [map fold_left]. rewrite IH. f_equal.
  unfold add_absent. rewrite K. destruct (aget (d_id e) m); [|rewrite N]; reflexivity.
Qed.

(* ---------- packets on the wire ---------- *)

Definition wf_spkt (ver : N) (p : spkt) : Prop :=
  match p with
  | SUpsert order es => wf_upsert ver order es
  | SRemove ids => wf_remove ids
  end.

Lemma wire_ok ver C p :
  wf_spkt ver p -> client_apply ver C (wire spec_tcfg p) = Some (client_apply_s C p).
Proof.
  destruct p as [order es|ids]; intros W; unfold client_apply, wire; cbn [canon spec_tcfg fst snd].
  - rewrite (decode_encode_upsert ver order es W). cbn [client_apply_s]. rewrite client_upsert_masked. reflexivity.
  - rewrite (decode_encode_remove ids W). reflexivity.
Qed.

Lemma wires_ok ver : forall ps C,
  Forall (wf_spkt ver) ps -> client_after ver C (map (wire spec_tcfg) ps) = Some (apply_all C ps).
Proof.
  induction ps as [|p r IH]; intros C F; [reflexivity|].
  inversion F as [|? ? Fp Fr]; subst. cbn [map client_after]. rewrite wire_ok by exact Fp.
  rewrite IH by exact Fr. reflexivity.
Qed.

(* ---------- every packet of a well-formed history is well-formed ---------- *)

Definition tbl_ok (ver : N) (tbl : list bytes) : Prop := Forall (comp_ok ver) tbl.
Definition dn_ok (tbl : list bytes) (o : option N) : Prop :=
  match o with Some i => (N.to_nat i < length tbl)%nat | None => True end.

Definition wf_attrs (tbl : list bytes) (a : pattrs) : Prop :=
  short 16 (a_name a) /\ wf_props (a_props a) /\ int32 (a_latency a) /\ int32 (a_gm a) /\
  dn_ok tbl (a_dn a) /\ int32 (a_order a).
Definition wf_bentry (tbl : list bytes) (e : bentry) : Prop :=
  id_ok (b_id e) /\ short 16 (b_name e) /\ wf_props (b_props e) /\ int32 (b_gm e) /\
  int32 (b_latency e) /\ dn_ok tbl (b_dn e) /\ int32 (b_order e).

Definition wf_state (tbl : list bytes) (P : pstate) : Prop :=
  Forall (fun kv => id_ok (fst kv) /\ wf_attrs tbl (snd kv)) P.

Definition wf_op (ver : N) (tbl : list bytes) (P : pstate) (o : top) : Prop :=
  match o with
  | Add l => Forall (fun kv => id_ok (fst kv) /\ wf_attrs tbl (snd kv)) l
  | AddLive _ => True
  | RemoveAll [] => N.of_nat (length P) < 2147483648
  | RemoveAll ids => wf_remove ids
  | SetLatency id v => id_ok id /\ int32 v
  | SetGameMode id v => id_ok id /\ int32 v
  | SetListed id _ => id_ok id
  | SetDisplayName id v => id_ok id /\ dn_ok tbl v
  | SetListOrder id v => id_ok id /\ int32 v
  | SetShowHat id _ => id_ok id
  | BackendUpsert acts es => length acts = 8%nat /\ wf_acts ver acts /\
                             N.of_nat (length es) < 2147483648 /\ Forall (wf_bentry tbl) es
  | BackendRemove ids => wf_remove ids
  end.

Definition wf_dentry (ver : N) (e : dentry) : Prop :=
  id_ok (d_id e) /\ forall a, In a all_actions -> wf_field ver a e.

Lemma wf_dentry_intro ver id nm ps gm li lat dn od ht :
  id_ok id -> short 16 nm -> wf_props ps -> int32 gm -> int32 lat ->
  match dn with Some c => comp_ok ver c | None => True end -> int32 od ->
  wf_dentry ver (mkD id nm ps false gm li lat dn od ht).
Proof.
  intros H1 H2 H3 H4 H5 H6 H7. split; [exact H1|]. intros a I. cbn [all_actions In] in I.
  repeat (destruct I as [<-|I]); [..|destruct I]; cbn; auto.
Qed.

Lemma wf_entry_of ver order e : wf_dentry ver e -> wf_entry ver order e.
Proof. intros [H1 H2]. split; [exact H1|]. intros a I _. apply H2. exact I. Qed.

Lemma dn_opt_ok ver tbl o : tbl_ok ver tbl -> dn_ok tbl o ->
  match dn_opt tbl o with Some c => comp_ok ver c | None => True end.
Proof.
  intros T D. destruct o as [i|]; [|exact I]. cbn [dn_opt option_map]. unfold dn_bytes.
  cbn [dn_ok] in D. unfold tbl_ok in T. rewrite Forall_forall in T. apply T. apply nth_In. exact D.
Qed.

Lemma short_nil max : short max [].
Proof. unfold short. cbn. lia. Qed.
Lemma wf_props_nil : wf_props [].
Proof. split; [cbn; lia|constructor]. Qed.
Lemma int32_0 : int32 0.
Proof. unfold int32. lia. Qed.

Lemma wf_order_intro ver order :
  (mem 6 order = true -> ge ver 768 = true) -> (mem 7 order = true -> ge ver 769 = true) ->
  wf_order ver order.
Proof.
  intros H6 H7 a I L. unfold n_actions, ge in *. cbn [all_actions In] in I.
  destruct (N.ltb_spec ver 768) as [V1|V1]; [|destruct (N.ltb_spec ver 769) as [V2|V2]];
    repeat (destruct I as [<-|I]); try destruct I; try lia.
  - destruct (mem 6 order); [|reflexivity]. specialize (H6 eq_refl). apply N.leb_le in H6. lia.
  - destruct (mem 7 order); [|reflexivity]. specialize (H7 eq_refl). apply N.leb_le in H7. lia.
  - destruct (mem 7 order); [|reflexivity]. specialize (H7 eq_refl). apply N.leb_le in H7. lia.
Qed.

Lemma wf_single ver order d : wf_order ver order -> wf_dentry ver d -> wf_spkt ver (SUpsert order [d]).
Proof.
  intros O D. cbn [wf_spkt]. split; [exact O|]. split; [cbn; lia|]. constructor; [|constructor].
  apply wf_entry_of. exact D.
Qed.

Lemma fresh_wf ver tbl id a :
  tbl_ok ver tbl -> id_ok id -> wf_attrs tbl a -> wf_spkt ver (fresh_packet ver tbl id a).
Proof.
  intros T I [A1 [A2 [A3 [A4 [A5 A6]]]]]. unfold fresh_packet. apply wf_single.
  - apply wf_order_intro; repeat (rewrite mem_app || rewrite mem_opt); cbn [mem existsb N.eqb Pos.eqb orb andb];
      rewrite ?andb_false_r, ?andb_true_r, ?orb_false_r; cbn [orb]; intros H.
    + apply andb_true_iff in H. apply H.
    + apply andb_true_iff in H. apply H.
  - apply wf_dentry_intro; try assumption. apply dn_opt_ok; assumption.
Qed.

Lemma diff_wf ver tbl id p a :
  tbl_ok ver tbl -> id_ok id -> wf_attrs tbl a -> Forall (wf_spkt ver) (diff_packet ver tbl id p a).
Proof.
  intros T I [A1 [A2 [A3 [A4 [A5 A6]]]]]. unfold diff_packet.
  set (order := _ ++ _). assert (O : wf_order ver order).
  { unfold order. apply wf_order_intro; repeat (rewrite mem_app || rewrite mem_opt);
      cbn [mem existsb N.eqb Pos.eqb orb andb]; rewrite ?andb_false_r, ?andb_true_r, ?orb_false_r; cbn [orb]; intros H.
    - apply andb_true_iff in H. apply H.
    - apply andb_true_iff in H. apply H. }
  destruct order; [constructor|]. constructor; [|constructor]. apply wf_single; [exact O|].
  apply wf_dentry_intro; try assumption; try apply short_nil; try apply wf_props_nil.
  - destruct (negb (a_latency p =? a_latency a)%Z); [assumption|apply int32_0].
  - destruct (negb (opt_N_eqb (a_dn p) (a_dn a))); [apply dn_opt_ok; assumption|exact Logic.I].
Qed.

Lemma Forall_aset {V} (Q : N * V -> Prop) k v : forall m, Forall Q m -> Q (k, v) -> Forall Q (aset k v m).
Proof.
  induction m as [|[k' v'] m IH]; intros F H; cbn [aset]; [constructor; [exact H|constructor]|].
  inversion F as [|? ? F1 F2]; subst. destruct (k =? k'); [constructor; assumption|].
  destruct (k <? k'); [constructor; assumption|]. constructor; [exact F1|apply IH; assumption].
Qed.
Lemma Forall_adel {V} (Q : N * V -> Prop) k : forall m, Forall Q m -> Forall Q (adel k m).
Proof.
  induction m as [|[k' v'] m IH]; intros F; cbn [adel]; [constructor|].
  inversion F as [|? ? F1 F2]; subst. destruct (k' =? k); [apply IH; exact F2|].
  constructor; [exact F1|apply IH; exact F2].
Qed.
Lemma Forall_aget {V} (Q : N * V -> Prop) k v : forall m, Forall Q m -> aget k m = Some v -> Q (k, v).
Proof.
  induction m as [|[k' v'] m IH]; intros F G; [discriminate G|]. cbn [aget] in G.
  inversion F as [|? ? F1 F2]; subst. destruct (N.eqb_spec k' k) as [->|D]; [inversion G; subst; exact F1|].
  apply IH; assumption.
Qed.
Lemma Forall_fold_adel {V} (Q : N * V -> Prop) ids : forall m : amap V, Forall Q m -> Forall Q (fold_left (fun m id => adel id m) ids m).
Proof. induction ids as [|i r IH]; intros m F; [exact F|]. cbn [fold_left]. apply IH. apply Forall_adel. exact F. Qed.

Lemma add_one_wf ver tbl P id a :
  tbl_ok ver tbl -> wf_state tbl P -> id_ok id -> wf_attrs tbl a ->
  Forall (wf_spkt ver) (snd (add_one spec_tcfg ver tbl P id a)) /\ wf_state tbl (fst (add_one spec_tcfg ver tbl P id a)).
Proof.
  intros T S I A. unfold add_one.
  assert (S' : wf_state tbl (aset id a P)) by (apply Forall_aset; [exact S|split; assumption]).
  destruct (aget id P) as [p|].
  - destruct (readd spec_tcfg && negb (same_profile p a)); cbn [fst snd]; split; try exact S'.
    + constructor; [|constructor; [apply fresh_wf; assumption|constructor]].
      cbn [wf_spkt]. split; [cbn; lia|constructor; [exact I|constructor]].
    + apply diff_wf; assumption.
  - cbn [fst snd]. split; [|exact S']. constructor; [apply fresh_wf; assumption|constructor].
Qed.

Lemma add_many_wf ver tbl : forall l P,
  tbl_ok ver tbl -> wf_state tbl P -> Forall (fun kv => id_ok (fst kv) /\ wf_attrs tbl (snd kv)) l ->
  Forall (wf_spkt ver) (snd (fst (add_many spec_tcfg ver tbl P l))) /\
  wf_state tbl (fst (fst (add_many spec_tcfg ver tbl P l))).
Proof.
  induction l as [|[id a] r IH]; intros P T S F; [split; [constructor|exact S]|].
  inversion F as [|? ? [F1 F2] Fr]; subst. cbn [fst snd] in F1, F2. cbn [add_many].
  destruct (id =? 0); [split; [constructor|exact S]|].
  destruct (add_one_wf ver tbl P id a T S F1 F2) as [W1 S1].
  destruct (add_one spec_tcfg ver tbl P id a) as [s1 ps]. cbn [fst snd] in *.
  destruct (IH s1 T S1 Fr) as [W2 S2].
  destruct (add_many spec_tcfg ver tbl s1 r) as [[s2 ps2] t]. cbn [fst snd] in *.
  split; [apply Forall_app; split; assumption|exact S2].
Qed.

Lemma setter_wf ver tbl P id f pk :
  wf_state tbl P -> Forall (wf_spkt ver) pk -> (forall a, wf_attrs tbl a -> wf_attrs tbl (f a)) ->
  Forall (wf_spkt ver) (snd (fst (setter P id f pk))) /\ wf_state tbl (fst (fst (setter P id f pk))).
Proof.
  intros S W F. unfold setter. destruct (aget id P) as [a|] eqn:G; cbn [fst snd]; [|split; [constructor|exact S]].
  split; [exact W|]. apply Forall_aset; [exact S|].
  destruct (Forall_aget _ id a P S G) as [I A]. split; [exact I|apply F; exact A].
Qed.

Lemma order_of_in : forall acts i a, mem a (order_of acts i) = true -> i <= a < i + N.of_nat (length acts).
Proof.
  induction acts as [|x r IH]; intros i a H; [discriminate H|].
  cbn [order_of] in H. rewrite mem_app in H. apply orb_true_iff in H. destruct H as [H|H].
  - destruct x; [|discriminate H]. cbn in H. rewrite orb_false_r in H. apply N.eqb_eq in H. subst. cbn [length]. lia.
  - apply IH in H. cbn [length]. lia.
Qed.

Lemma add_absent_wf tbl P e :
  wf_state tbl P -> wf_bentry tbl e -> wf_state tbl (add_absent b_id p_new P e).
Proof.
  intros S [B1 [B2 [B3 [B4 [B5 [B6 B7]]]]]]. unfold add_absent. destruct (aget (b_id e) P); [exact S|].
  apply Forall_aset; [exact S|]. split; [exact B1|].
  unfold wf_attrs, p_new. cbn [fst snd a_name a_props a_latency a_gm a_dn a_order].
  split; [exact B2|]. split; [exact B3|]. unfold int32, dn_ok. repeat split; try lia.
Qed.

Lemma upd_present_wf tbl bits P e :
  wf_state tbl P -> wf_bentry tbl e -> wf_state tbl (upd_present b_id (p_upd bits) P e).
Proof.
  intros S [B1 [B2 [B3 [B4 [B5 [B6 B7]]]]]]. unfold upd_present. destruct (aget (b_id e) P) as [a|] eqn:G; [|exact S].
  apply Forall_aset; [exact S|]. destruct (Forall_aget _ _ _ _ S G) as [I [A1 [A2 [A3 [A4 [A5 A6]]]]]].
  split; [exact I|]. unfold wf_attrs, p_upd. cbn [fst snd a_name a_props a_latency a_gm a_dn a_order].
  split; [exact A1|]. split; [exact A2|].
  split; [destruct (has_action bits 4); assumption|].
  split; [destruct (has_action bits 2); assumption|].
  split; [destruct (has_action bits 5); assumption|].
  destruct (has_action bits 6); assumption.
Qed.

Lemma backend_state_wf tbl bits add : forall es P,
  wf_state tbl P -> Forall (wf_bentry tbl) es ->
  wf_state tbl (seq_upsert b_id p_new (p_upd bits) add es P).
Proof.
  unfold seq_upsert. induction es as [|e r IH]; intros P S F; [exact S|].
  inversion F as [|? ? Fe Fr]; subst. cbn [fold_left]. apply IH; [|exact Fr].
  apply upd_present_wf; [|exact Fe]. destruct add; [apply add_absent_wf; assumption|exact S].
Qed.

Lemma pstep_wf ver tbl P o :
  tbl_ok ver tbl -> wf_state tbl P -> wf_op ver tbl P o ->
  Forall (wf_spkt ver) (snd (fst (pstep spec_tcfg ver tbl P o))) /\
  wf_state tbl (fst (fst (pstep spec_tcfg ver tbl P o))).
Proof.
  intros T S W. destruct o as [l|id|ids|id v|id v|id v|id v|id v|id v|acts es|ids]; cbn [pstep wf_op] in *.
  - apply add_many_wf; assumption.
  - destruct (aget id P); split; try constructor; exact S.
  - destruct ids as [|i r].
    + destruct P as [|kv P']; [split; [constructor|exact S]|]. cbn [fst snd]. split; [|constructor].
      constructor; [|constructor]. cbn [wf_spkt]. split; [rewrite map_length; exact W|].
      unfold wf_state in S. rewrite Forall_forall in *. intros x Hx. apply in_map_iff in Hx.
      destruct Hx as [kv' [<- Hk]]. apply (S kv' Hk).
    + cbn [fst snd]. split; [constructor; [exact W|constructor]|]. apply Forall_fold_adel. exact S.
  - destruct W as [I V]. apply setter_wf; [exact S| |].
    + constructor; [|constructor]. apply wf_single; [apply wf_order_intro; cbn; discriminate|].
      apply wf_dentry_intro; try assumption; try apply short_nil; try apply wf_props_nil; try apply int32_0; exact Logic.I.
    + intros a [A1 [A2 [A3 [A4 [A5 A6]]]]]. unfold wf_attrs; cbn [fst snd a_name a_props a_latency a_gm a_dn a_order]; auto 10.
  - destruct W as [I V]. apply setter_wf; [exact S| |].
    + constructor; [|constructor]. apply wf_single; [apply wf_order_intro; cbn; discriminate|].
      apply wf_dentry_intro; try assumption; try apply short_nil; try apply wf_props_nil; try apply int32_0; exact Logic.I.
    + intros a [A1 [A2 [A3 [A4 [A5 A6]]]]]. unfold wf_attrs; cbn [fst snd a_name a_props a_latency a_gm a_dn a_order]; auto 10.
  - apply setter_wf; [exact S| |].
    + constructor; [|constructor]. apply wf_single; [apply wf_order_intro; cbn; discriminate|].
      apply wf_dentry_intro; try assumption; try apply short_nil; try apply wf_props_nil; try apply int32_0; exact Logic.I.
    + intros a [A1 [A2 [A3 [A4 [A5 A6]]]]]. unfold wf_attrs; cbn [fst snd a_name a_props a_latency a_gm a_dn a_order]; auto 10.
  - destruct W as [I V]. apply setter_wf; [exact S| |].
    + constructor; [|constructor]. apply wf_single; [apply wf_order_intro; cbn; discriminate|].
      apply wf_dentry_intro; try assumption; try apply short_nil; try apply wf_props_nil; try apply int32_0.
      apply dn_opt_ok; assumption.
    + intros a [A1 [A2 [A3 [A4 [A5 A6]]]]]. unfold wf_attrs; cbn [fst snd a_name a_props a_latency a_gm a_dn a_order]; auto 10.
  - destruct W as [I V]. apply setter_wf; [exact S| |].
    + destruct (ge ver 768) eqn:G; [|constructor]. constructor; [|constructor].
      apply wf_single; [apply wf_order_intro; cbn; intros H; try discriminate H; exact G|].
      apply wf_dentry_intro; try assumption; try apply short_nil; try apply wf_props_nil; try apply int32_0; exact Logic.I.
    + intros a [A1 [A2 [A3 [A4 [A5 A6]]]]]. unfold wf_attrs; cbn [fst snd a_name a_props a_latency a_gm a_dn a_order]; auto 10.
  - apply setter_wf; [exact S| |].
    + destruct (ge ver 769) eqn:G; [|constructor]. constructor; [|constructor].
      apply wf_single; [apply wf_order_intro; cbn; intros H; try discriminate H; exact G|].
      apply wf_dentry_intro; try assumption; try apply short_nil; try apply wf_props_nil; try apply int32_0; exact Logic.I.
    + intros a [A1 [A2 [A3 [A4 [A5 A6]]]]]. unfold wf_attrs; cbn [fst snd a_name a_props a_latency a_gm a_dn a_order]; auto 10.
  - destruct W as [L [WA [WL WE]]]. cbn [fst snd]. split.
    + constructor; [|constructor]. cbn [wf_spkt]. split; [exact WA|]. split; [rewrite map_length; exact WL|].
      rewrite Forall_forall in *. intros d Hd. apply in_map_iff in Hd. destruct Hd as [e [<- He]].
      destruct (WE e He) as [B1 [B2 [B3 [B4 [B5 [B6 B7]]]]]].
      apply wf_entry_of. unfold b_dentry. apply wf_dentry_intro; try assumption. apply dn_opt_ok; assumption.
    + apply backend_state_wf; assumption.
  - cbn [fst snd]. split; [constructor; [exact W|constructor]|]. apply Forall_fold_adel. exact S.
Qed.

(* ---------- histories, through the bytes ---------- *)

Fixpoint wf_hist (ver : N) (tbl : list bytes) (P : pstate) (h : list top) : Prop :=
  match h with
  | [] => True
  | o :: r => wf_op ver tbl P o /\ wf_top ver o /\ wf_hist ver tbl (fst (fst (pstep spec_tcfg ver tbl P o))) r
  end.

Lemma packets_wire ver tbl : forall h P,
  packets spec_tcfg ver tbl P h = map (wire spec_tcfg) (spackets spec_tcfg ver tbl P h).
Proof.
  induction h as [|o r IH]; intros P; [reflexivity|]. cbn [packets spackets]. rewrite map_app, IH. reflexivity.
Qed.

Lemma spackets_wf ver tbl : forall h P,
  tbl_ok ver tbl -> wf_state tbl P -> wf_hist ver tbl P h ->
  Forall (wf_spkt ver) (spackets spec_tcfg ver tbl P h) /\ Forall (wf_top ver) h.
Proof.
  induction h as [|o r IH]; intros P T S W; [split; constructor|].
  destruct W as [W1 [W2 W3]]. destruct (pstep_wf ver tbl P o T S W1) as [F S'].
  destruct (IH _ T S' W3) as [F' WT]. cbn [spackets]. split; [apply Forall_app; split; assumption|].
  constructor; assumption.
Qed.

Theorem C28_wire ver tbl h :
  tbl_ok ver tbl -> wf_hist ver tbl [] h ->
  exists c, client_after ver [] (packets spec_tcfg ver tbl [] h) = Some c /\
            forall k, aget k (view ver tbl (proxy_after spec_tcfg ver tbl [] h)) = aget k c.
Proof.
  intros T W. destruct (spackets_wf ver tbl h [] T (Forall_nil _) W) as [F WT].
  exists (apply_all [] (spackets spec_tcfg ver tbl [] h)). split.
  - rewrite packets_wire. apply wires_ok. exact F.
  - intros k. rewrite aget_view. exact (C28_struct ver tbl h [] [] (fun _ => eq_refl) WT k).
Qed.

(* ---------- the premise on chat components holds for every JSON-era component ---------- *)

Lemma comp_ok_json ver s : ver < 765 -> short 262144 s -> comp_ok ver (enc_string s).
Proof.
  intros V S rest. unfold rd_component.
  replace (ver <? 765) with true by (symmetry; apply N.ltb_lt; exact V).
  rewrite rd_string_enc by exact S.
  rewrite app_length. replace (length (enc_string s) + length rest - length rest)%nat with (length (enc_string s)) by lia.
  rewrite firstn_app, Nat.sub_diag, firstn_all. cbn [firstn]. rewrite app_nil_r. reflexivity.
Qed.
