(* C28 - byte level: the reference vanilla decoder reads back what the canonical encoder
   ([encode_upsert true], [encode_remove]) writes, so the client that applies the BYTES of the
   demanded tab list's packets ends in the state of the structured theorem (C28_Struct). *)
From Coq Require Import List Arith NArith ZArith Bool Lia ZifyN ZifyNat ZifyBool.
From Verif Require Import Base.Hex Base.Assoc Model.TabList Proofs.C28_Struct.
From Verif Require Base.VarInt.
Import ListNotations.
Open Scope N_scope.
Ltac Zify.zify_post_hook ::= Z.div_mod_to_equations.

(* ---------- primitives ---------- *)

Definition int32 (z : Z) : Prop := (-2147483648 <= z < 2147483648)%Z.

Lemma signed_unsigned z : int32 z -> signed32 (unsigned32 z) = z.
Proof.
  unfold int32, signed32, unsigned32. intros H.
  destruct (N.ltb_spec (Z.to_N (z mod 4294967296)) 2147483648); lia.
Qed.

Lemma unsigned_lt z : unsigned32 z < 2 ^ 32.
Proof. unfold unsigned32. change (2 ^ 32) with 4294967296. lia. Qed.

Lemma rd_varint_enc z rest : int32 z -> rd_varint (enc_varint z ++ rest) = Some (z, rest).
Proof.
  intros H. unfold rd_varint, enc_varint.
  rewrite (VarInt.varint_roundtrip _ rest (unsigned_lt z)). rewrite signed_unsigned by exact H. reflexivity.
Qed.

Lemma enc_varint_nonempty z : enc_varint z <> [].
Proof.
  unfold enc_varint, VarInt.enc. cbn [VarInt.enc_fuel]. destruct (unsigned32 z <? 128); discriminate.
Qed.

Lemma rd_len_enc n rest : n < 2147483648 -> rd_len (enc_varint (Z.of_N n) ++ rest) = Some (n, rest).
Proof.
  intros H. unfold rd_len. rewrite rd_varint_enc by (unfold int32; lia).
  destruct (Z.ltb_spec (Z.of_N n) 0); [lia|]. rewrite N2Z.id. reflexivity.
Qed.

Lemma rd_take_app s rest : rd_take (length s) (s ++ rest) = Some (s, rest).
Proof.
  unfold rd_take. rewrite app_length.
  replace (Nat.ltb (length s + length rest) (length s)) with false by (symmetry; apply Nat.ltb_ge; lia).
  rewrite firstn_app, Nat.sub_diag, firstn_all. cbn [firstn]. rewrite app_nil_r.
  rewrite skipn_app, Nat.sub_diag, skipn_all. reflexivity.
Qed.

Definition short (max : N) (s : bytes) : Prop := N.of_nat (length s) <= 3 * max /\ N.of_nat (length s) < 2147483648.

Lemma rd_string_enc max s rest : short max s -> rd_string max (enc_string s ++ rest) = Some (s, rest).
Proof.
  intros [H1 H2]. unfold rd_string, enc_string. rewrite <- app_assoc.
  replace (Z.of_nat (length s)) with (Z.of_N (N.of_nat (length s))) by lia.
  rewrite rd_len_enc by exact H2.
  replace (3 * max <? N.of_nat (length s)) with false by (symmetry; apply N.ltb_ge; exact H1).
  replace (N.of_nat (length (s ++ rest)) <? N.of_nat (length s)) with false
    by (symmetry; apply N.ltb_ge; rewrite app_length; lia).
  cbn [orb]. rewrite Nat2N.id. apply rd_take_app.
Qed.

Lemma rd_bool_enc x rest : rd_bool (enc_bool x ++ rest) = Some (x, rest).
Proof. destruct x; reflexivity. Qed.

(* big-endian numbers *)
Lemma be_val_app l : forall y acc, be_val (l ++ [y]) acc = be_val l acc * 256 + y.
Proof. induction l as [|x r IH]; intros y acc; [reflexivity|]. cbn [app be_val]. apply IH. Qed.

Lemma be_bytes_length n : forall x, length (be_bytes n x) = n.
Proof. induction n as [|k IH]; intros x; [reflexivity|]. cbn [be_bytes]. rewrite app_length, IH. cbn. lia. Qed.

Lemma be_val_bytes n : forall x acc, be_val (be_bytes n x) acc = acc * 256 ^ N.of_nat n + x mod 256 ^ N.of_nat n.
Proof.
  induction n as [|k IH]; intros x acc.
  - cbn [be_bytes be_val]. change (N.of_nat 0) with 0. rewrite N.pow_0_r, N.mod_1_r. lia.
  - cbn [be_bytes]. rewrite be_val_app, IH.
    replace (N.of_nat (S k)) with (N.of_nat k + 1) by lia. rewrite N.pow_add_r, N.pow_1_r.
    rewrite (N.mul_comm (256 ^ N.of_nat k) 256).
    rewrite (N.mod_mul_r x 256 (256 ^ N.of_nat k)) by (try lia; apply N.pow_nonzero; lia).
    lia.
Qed.

Definition id_ok (id : N) : Prop := id < 2 ^ 128.

Lemma rd_uuid_enc id rest : id_ok id -> rd_uuid (enc_uuid id ++ rest) = Some (id, rest).
Proof.
  intros H. unfold rd_uuid, enc_uuid.
  pose proof (rd_take_app (be_bytes 16 id) rest) as T. rewrite be_bytes_length in T. rewrite T.
  rewrite be_val_bytes. change (256 ^ N.of_nat 16) with (2 ^ 128).
  rewrite N.mod_small by exact H. reflexivity.
Qed.

Lemma enc_uuid_length id : length (enc_uuid id) = 16%nat.
Proof. apply be_bytes_length. Qed.

(* ---------- lists of things ---------- *)

Lemma rd_many_enc {A} (rd : reader A) (enc : A -> bytes) (ok : A -> Prop) :
  (forall a rest, ok a -> rd (enc a ++ rest) = Some (a, rest)) ->
  forall l rest, Forall ok l -> rd_many rd (length l) (flat_map enc l ++ rest) = Some (l, rest).
Proof.
  intros R. induction l as [|a r IH]; intros rest F; [reflexivity|].
  inversion F as [|? ? Fa Fr]; subst. cbn [length rd_many flat_map]. rewrite <- app_assoc.
  rewrite R by exact Fa. rewrite IH by exact Fr. reflexivity.
Qed.

Lemma flat_map_length_ge {A} (enc : A -> bytes) l :
  (forall a, enc a <> []) -> (length l <= length (flat_map enc l))%nat.
Proof.
  intros NE. induction l as [|a r IH]; [reflexivity|]. cbn [flat_map length]. rewrite app_length.
  specialize (NE a). destruct (enc a); [congruence|]. cbn [length]. lia.
Qed.

Lemma rd_count_enc n rest :
  N.of_nat n < 2147483648 -> (n <= length rest)%nat ->
  rd_count (enc_varint (Z.of_nat n) ++ rest) = Some (n, rest).
Proof.
  intros H L. unfold rd_count. replace (Z.of_nat n) with (Z.of_N (N.of_nat n)) by lia.
  rewrite rd_len_enc by exact H.
  replace (N.of_nat (length rest) <? N.of_nat n) with false by (symmetry; apply N.ltb_ge; lia).
  rewrite Nat2N.id. reflexivity.
Qed.

(* ---------- profile properties ---------- *)

Definition wf_prop (p : prop) : Prop :=
  short 32767 (p_name p) /\ short 32767 (p_value p) /\ short 32767 (p_sig p).

Lemma rd_prop_enc p rest : wf_prop p -> rd_prop (enc_prop p ++ rest) = Some (p, rest).
Proof.
  intros [H1 [H2 H3]]. unfold rd_prop, enc_prop. rewrite <- !app_assoc.
  rewrite rd_string_enc by exact H1. rewrite rd_string_enc by exact H2.
  destruct p as [n v s]. cbn [p_name p_value p_sig] in *. destruct s as [|x s'].
  - reflexivity.
  - cbn [app rd_bool]. change (negb (1 =? 0)) with true. cbv iota.
    rewrite rd_string_enc by exact H3. reflexivity.
Qed.

Lemma enc_prop_nonempty p : enc_prop p <> [].
Proof.
  unfold enc_prop, enc_string. intros H. apply app_eq_nil in H. destruct H as [H _].
  apply app_eq_nil in H. destruct H as [H _]. exact (enc_varint_nonempty _ H).
Qed.

Definition wf_props (ps : list prop) : Prop := (length ps <= 16)%nat /\ Forall wf_prop ps.

Lemma rd_props_enc ps rest : wf_props ps -> rd_props (enc_props ps ++ rest) = Some (ps, rest).
Proof.
  intros [L F]. unfold rd_props, enc_props. rewrite <- app_assoc.
  rewrite rd_count_enc.
  - replace (Nat.ltb 16 (length ps)) with false by (symmetry; apply Nat.ltb_ge; exact L).
    apply (rd_many_enc rd_prop enc_prop wf_prop rd_prop_enc). exact F.
  - lia.
  - rewrite app_length. pose proof (flat_map_length_ge enc_prop ps enc_prop_nonempty). lia.
Qed.

(* ---------- one action ---------- *)

(* a chat component the decoder delimits exactly *)
Definition comp_ok (ver : N) (c : bytes) : Prop := forall rest, rd_component ver (c ++ rest) = Some (c, rest).

Definition wf_field (ver : N) (a : N) (e : dentry) : Prop :=
  match a with
  | 0 => short 16 (d_name e) /\ wf_props (d_props e)
  | 1 => d_chat e = false
  | 2 => int32 (d_gm e)
  | 4 => int32 (d_latency e)
  | 5 => match d_dn e with Some c => comp_ok ver c | None => True end
  | 6 => int32 (d_order e)
  | _ => True
  end.

(* entry [acc] with the field(s) of action a taken from [src] *)
Definition setf (a : N) (src acc : dentry) : dentry :=
  match a with
  | 0 => mkD (d_id acc) (d_name src) (d_props src) (d_chat acc) (d_gm acc) (d_listed acc) (d_latency acc) (d_dn acc) (d_order acc) (d_hat acc)
  | 2 => mkD (d_id acc) (d_name acc) (d_props acc) (d_chat acc) (d_gm src) (d_listed acc) (d_latency acc) (d_dn acc) (d_order acc) (d_hat acc)
  | 3 => mkD (d_id acc) (d_name acc) (d_props acc) (d_chat acc) (d_gm acc) (d_listed src) (d_latency acc) (d_dn acc) (d_order acc) (d_hat acc)
  | 4 => mkD (d_id acc) (d_name acc) (d_props acc) (d_chat acc) (d_gm acc) (d_listed acc) (d_latency src) (d_dn acc) (d_order acc) (d_hat acc)
  | 5 => mkD (d_id acc) (d_name acc) (d_props acc) (d_chat acc) (d_gm acc) (d_listed acc) (d_latency acc) (d_dn src) (d_order acc) (d_hat acc)
  | 6 => mkD (d_id acc) (d_name acc) (d_props acc) (d_chat acc) (d_gm acc) (d_listed acc) (d_latency acc) (d_dn acc) (d_order src) (d_hat acc)
  | 7 => mkD (d_id acc) (d_name acc) (d_props acc) (d_chat acc) (d_gm acc) (d_listed acc) (d_latency acc) (d_dn acc) (d_order acc) (d_hat src)
  | _ => acc
  end.

Lemma rd_action_enc ver a src acc rest :
  In a all_actions -> wf_field ver a src ->
  rd_action ver a acc (enc_action a src ++ rest) = Some (setf a src acc, rest).
Proof.
  intros I W. cbn [all_actions In] in I.
  repeat (destruct I as [<-|I]); [..|destruct I]; cbn [wf_field] in W; unfold rd_action, enc_action, setf.
  - destruct W as [W1 W2]. rewrite <- app_assoc. rewrite rd_string_enc by exact W1.
    rewrite rd_props_enc by exact W2. reflexivity.
  - cbn [app rd_bool]. destruct acc. reflexivity.
  - rewrite rd_varint_enc by exact W. reflexivity.
  - rewrite rd_bool_enc. reflexivity.
  - rewrite rd_varint_enc by exact W. reflexivity.
  - destruct (d_dn src) as [c|]; cbn [app rd_bool].
    + change (negb (1 =? 0)) with true. cbv iota. rewrite W. reflexivity.
    + reflexivity.
  - rewrite rd_varint_enc by exact W. reflexivity.
  - rewrite rd_bool_enc. reflexivity.
Qed.

(* ---------- one entry ---------- *)

Definition masked_from (order acts : list N) (src acc : dentry) : dentry :=
  fold_left (fun acc a => if mem a order then setf a src acc else acc) acts acc.
Definition masked (order : list N) (e : dentry) : dentry :=
  masked_from order all_actions e (d_default (d_id e)).

Lemma rd_actions_enc ver order src : forall acts acc rest,
  (forall a, In a acts -> In a all_actions /\ (mem a order = true -> wf_field ver a src)) ->
  rd_actions ver (bits_of order) acts acc
             (flat_map (fun a => enc_action a src) (filter (fun a => mem a order) acts) ++ rest)
  = Some (masked_from order acts src acc, rest).
Proof.
  induction acts as [|a k IH]; intros acc rest W; [reflexivity|].
  destruct (W a (or_introl eq_refl)) as [IA WF].
  cbn [rd_actions filter masked_from fold_left]. rewrite (has_bits order a IA).
  destruct (mem a order) eqn:M.
  - cbn [flat_map]. rewrite <- app_assoc. rewrite rd_action_enc by (try exact IA; apply WF; reflexivity).
    apply IH. intros b Hb. apply W. right. exact Hb.
  - apply IH. intros b Hb. apply W. right. exact Hb.
Qed.

Definition wf_entry (ver : N) (order : list N) (e : dentry) : Prop :=
  id_ok (d_id e) /\ forall a, In a all_actions -> mem a order = true -> wf_field ver a e.

Lemma rd_entry_enc ver order e rest :
  wf_entry ver order e ->
  rd_entry ver (bits_of order)
           ((enc_uuid (d_id e) ++ flat_map (fun a => enc_action a e) (canonical order)) ++ rest)
  = Some (masked order e, rest).
Proof.
  intros [WI WF]. unfold rd_entry. rewrite <- app_assoc. rewrite rd_uuid_enc by exact WI.
  unfold canonical, masked. apply rd_actions_enc. intros a Ha. split; [exact Ha|]. apply WF. exact Ha.
Qed.

(* ---------- the packets ---------- *)

Definition wf_order (ver : N) (order : list N) : Prop :=
  forall a, In a all_actions -> n_actions ver <= a -> mem a order = false.

Lemma bits_bound ver order : wf_order ver order -> (2 ^ n_actions ver <=? bits_of order) = false.
Proof.
  intros W. unfold wf_order, n_actions in *.
  assert (I6 : In 6 all_actions) by (cbv; tauto). assert (I7 : In 7 all_actions) by (cbv; tauto).
  unfold bits_of, all_actions. cbn [fold_left].
  destruct (ver <? 768) eqn:V1; [|destruct (ver <? 769) eqn:V2].
  - rewrite (W 6 I6) by lia. rewrite (W 7 I7) by lia.
    destruct (mem 0 order), (mem 1 order), (mem 2 order), (mem 3 order), (mem 4 order), (mem 5 order); reflexivity.
  - rewrite (W 7 I7) by lia.
    destruct (mem 0 order), (mem 1 order), (mem 2 order), (mem 3 order), (mem 4 order), (mem 5 order), (mem 6 order); reflexivity.
  - destruct (mem 0 order), (mem 1 order), (mem 2 order), (mem 3 order), (mem 4 order), (mem 5 order), (mem 6 order), (mem 7 order); reflexivity.
Qed.

Definition wf_upsert (ver : N) (order : list N) (es : list dentry) : Prop :=
  wf_order ver order /\ N.of_nat (length es) < 2147483648 /\ Forall (wf_entry ver order) es.

Lemma entry_enc_nonempty order (e : dentry) :
  enc_uuid (d_id e) ++ flat_map (fun a => enc_action a e) (canonical order) <> [].
Proof.
  intros H. apply app_eq_nil in H. destruct H as [H _].
  pose proof (enc_uuid_length (d_id e)) as L. rewrite H in L. discriminate L.
Qed.

Lemma decode_encode_upsert ver order es :
  wf_upsert ver order es ->
  vanilla_decode_upsert ver (encode_upsert true order es) = Some (bits_of order, map (masked order) es).
Proof.
  intros [WO [WL WE]]. unfold vanilla_decode_upsert, encode_upsert. cbn [app rd_byte].
  rewrite (bits_bound ver order WO).
  set (enc1 := fun e : dentry => enc_uuid (d_id e) ++ flat_map (fun a => enc_action a e) (canonical order)).
  rewrite <- (app_nil_r (flat_map _ es)).
  rewrite rd_count_enc.
  - pose proof (rd_many_enc (fun b => match rd_entry ver (bits_of order) b with
                                      | Some (e, r) => Some (e, r) | None => None end)
                            enc1 (wf_entry ver order)) as R.
    assert (EQ : forall n b, rd_many (rd_entry ver (bits_of order)) n b =
                             rd_many (fun b => match rd_entry ver (bits_of order) b with
                                               | Some (e, r) => Some (e, r) | None => None end) n b).
    { induction n as [|k IH]; intros b; [reflexivity|]. cbn [rd_many].
      destruct (rd_entry ver (bits_of order) b) as [[e r]|]; [rewrite IH|]; reflexivity. }
    clear EQ R.
    (* rd_many over the masked entries *)
    assert (M : forall l rest, Forall (wf_entry ver order) l ->
                rd_many (rd_entry ver (bits_of order)) (length l) (flat_map enc1 l ++ rest)
                = Some (map (masked order) l, rest)).
    { induction l as [|e r IH]; intros rest F; [reflexivity|].
      inversion F as [|? ? Fe Fr]; subst. cbn [length rd_many flat_map map]. rewrite <- app_assoc.
      unfold enc1 at 1. rewrite <- (app_assoc (enc_uuid (d_id e))).
      rewrite (app_assoc (enc_uuid (d_id e)) _ (flat_map enc1 r ++ rest)).
      rewrite rd_entry_enc by exact Fe. rewrite IH by exact Fr. reflexivity. }
    rewrite (M es [] WE). reflexivity.
  - exact WL.
  - rewrite app_nil_r. apply flat_map_length_ge. intros e. apply entry_enc_nonempty.
Qed.

Definition wf_remove (ids : list N) : Prop := N.of_nat (length ids) < 2147483648 /\ Forall id_ok ids.

Lemma decode_encode_remove ids : wf_remove ids -> vanilla_decode_remove (encode_remove ids) = Some ids.
Proof.
  intros [WL WI]. unfold vanilla_decode_remove, encode_remove.
  rewrite <- (app_nil_r (flat_map enc_uuid ids)).
  rewrite rd_count_enc.
  - rewrite (rd_many_enc rd_uuid enc_uuid id_ok rd_uuid_enc ids [] WI). reflexivity.
  - exact WL.
  - rewrite app_nil_r. apply flat_map_length_ge. intros a H.
    pose proof (enc_uuid_length a) as L. rewrite H in L. discriminate L.
Qed.

(* ---------- the client does not see the masking ---------- *)

Lemma masked_from_id order src : forall acts acc, d_id (masked_from order acts src acc) = d_id acc.
Proof.
  induction acts as [|a k IH]; intros acc; [reflexivity|]. cbn [masked_from fold_left].
  change (fold_left _ k ?x) with (masked_from order k src x). rewrite IH.
  destruct (mem a order); [|reflexivity].
  unfold setf. destruct a as [|p]; [reflexivity|]. do 3 (destruct p as [p|p|]; try reflexivity).
Qed.

Lemma masked_fields order e :
  d_id (masked order e) = d_id e /\
  (mem 0 order = true -> d_name (masked order e) = d_name e /\ d_props (masked order e) = d_props e) /\
  (mem 2 order = true -> d_gm (masked order e) = d_gm e) /\
  (mem 3 order = true -> d_listed (masked order e) = d_listed e) /\
  (mem 4 order = true -> d_latency (masked order e) = d_latency e) /\
  (mem 5 order = true -> d_dn (masked order e) = d_dn e) /\
  (mem 6 order = true -> d_order (masked order e) = d_order e).
Proof.
  unfold masked, masked_from, all_actions. cbn [fold_left].
  destruct (mem 0 order), (mem 1 order), (mem 2 order), (mem 3 order),
           (mem 4 order), (mem 5 order), (mem 6 order), (mem 7 order);
    cbn; repeat split; intros; try discriminate; reflexivity.
Qed.

Lemma client_upsert_masked order es C :
  client_upsert (bits_of order) (map (masked order) es) C = client_upsert (bits_of order) es C.
Proof.
  unfold client_upsert, two_pass_upsert.
  assert (B : forall a, In a all_actions -> has_action (bits_of order) a = mem a order) by (intros; apply has_bits; assumption).
  destruct (masked_fields order) with (e := d_default 0) as [_ _].
  assert (K : forall e, d_id (masked order e) = d_id e) by (intros e; apply masked_fields).
  assert (U : forall e c, c_upd (bits_of order) (masked order e) c = c_upd (bits_of order) e c).
  { intros e c. destruct (masked_fields order e) as [_ [_ [F2 [F3 [F4 [F5 F6]]]]]].
    unfold c_upd. rewrite !B by (cbv; tauto).
    destruct (mem 2 order); [rewrite F2 by reflexivity|];
    destruct (mem 3 order); [rewrite F3 by reflexivity|];
    destruct (mem 4 order); [rewrite F4 by reflexivity|];
    destruct (mem 5 order); [rewrite F5 by reflexivity|];
    destruct (mem 6 order); [rewrite F6 by reflexivity|]; reflexivity. }
  assert (P2 : forall l m, fold_left (upd_present d_id (c_upd (bits_of order))) (map (masked order) l) m
                           = fold_left (upd_present d_id (c_upd (bits_of order))) l m).
  { induction l as [|e r IH]; intros m; [reflexivity|]. cbn [map fold_left]. rewrite IH. f_equal.
    unfold upd_present. rewrite K. destruct (aget (d_id e) m); [rewrite U|]; reflexivity. }
  rewrite P2. f_equal.
  destruct (has_action (bits_of order) 0) eqn:A; [|reflexivity].
  rewrite B in A by (cbv; tauto).
  assert (N : forall e, c_new (masked order e) = c_new e).
  { intros e. destruct (masked_fields order e) as [_ [F0 _]]. destruct (F0 A) as [E1 E2].
    unfold c_new. rewrite E1, E2. reflexivity. }
  generalize C. induction es as [|e r IH]; intros m; [reflexivity|]. cbn [map fold_left]. rewrite IH. f_equal.
  unfold add_absent. rewrite K. destruct (aget (d_id e) m); [|rewrite N]; reflexivity.
Qed.

(* ---------- packets on the wire ---------- *)

Definition wf_spkt (ver : N) (p : spkt) : Prop :=
  match p with
  | SUpsert order es => wf_upsert ver order es
  | SRemove ids => wf_remove ids
  end.

Lemma wire_ok ver C p :
  wf_spkt ver p -> client_apply ver C (wire spec_tcfg p) = Some (client_apply_s C p).
Proof.
  destruct p as [order es|ids]; intros W; unfold client_apply, wire; cbn [canon spec_tcfg fst snd].
  - rewrite (decode_encode_upsert ver order es W). cbn [client_apply_s]. rewrite client_upsert_masked. reflexivity.
  - rewrite (decode_encode_remove ids W). reflexivity.
Qed.

Lemma wires_ok ver : forall ps C,
  Forall (wf_spkt ver) ps -> client_after ver C (map (wire spec_tcfg) ps) = Some (apply_all C ps).
Proof.
  induction ps as [|p r IH]; intros C F; [reflexivity|].
  inversion F as [|? ? Fp Fr]; subst. cbn [map client_after]. rewrite wire_ok by exact Fp.
  rewrite IH by exact Fr. reflexivity.
Qed.
