(* C03 — generic part: reader lemmas, strict prefixes, and the notion "codec_ok" (exact inverse on a
   domain + every strict prefix of an encoding is rejected) with the combinators that preserve it. *)
From Coq Require Import List NArith ZArith Lia Bool.
From Coq Require Import ZifyN ZifyNat ZifyBool.
From Verif Require Import Base.Hex Model.Prim.
Import ListNotations.
Open Scope N_scope.
Ltac Zify.zify_post_hook ::= Z.div_mod_to_equations.

(* ---------- take / drop / len ---------- *)

Lemma len_nil : len [] = 0.
Proof. reflexivity. Qed.

Lemma len_cons b s : len (b :: s) = len s + 1.
Proof. unfold len. cbn [length]. lia. Qed.

Lemma len_app a b : len (a ++ b) = len a + len b.
Proof. unfold len. rewrite app_length. lia. Qed.

Lemma len_0_nil s : len s = 0 -> s = [].
Proof. destruct s; [reflexivity|]. rewrite len_cons. lia. Qed.

Lemma take_app_len a b n : n = len a -> take n (a ++ b) = a.
Proof.
  intros ->. unfold take, len. rewrite Nat2N.id.
  rewrite firstn_app, Nat.sub_diag, firstn_all. cbn [firstn]. apply app_nil_r.
Qed.

Lemma drop_app_len a b n : n = len a -> drop n (a ++ b) = b.
Proof.
  intros ->. unfold drop, len. rewrite Nat2N.id.
  rewrite skipn_app, Nat.sub_diag, skipn_all. reflexivity.
Qed.

(* ---------- strict prefixes ---------- *)

Definition sprefix (p e : bytes) : Prop := exists q, q <> [] /\ e = p ++ q.

Lemma sprefix_len p e : sprefix p e -> len p < len e.
Proof.
  intros (q & Hq & ->). rewrite len_app. destruct q; [congruence|]. rewrite len_cons. lia.
Qed.

Lemma sprefix_nil e : e <> [] -> sprefix [] e.
Proof. intro H. exists e. split; [assumption | reflexivity]. Qed.

Lemma sprefix_cons b p e : sprefix p e -> sprefix (b :: p) (b :: e).
Proof. intros (q & Hq & ->). exists q. split; [assumption | reflexivity]. Qed.

Lemma sprefix_cons_inv p b e : sprefix p (b :: e) -> p = [] \/ exists p', p = b :: p' /\ sprefix p' e.
Proof.
  intros (q & Hq & E). destruct p as [|c p']; [left; reflexivity|].
  right. cbn [app] in E. inversion E; subst. exists p'. split; [reflexivity|].
  exists q. split; [assumption | reflexivity].
Qed.

Lemma sprefix_app_l x p y : sprefix p y -> sprefix (x ++ p) (x ++ y).
Proof. intros (q & Hq & ->). exists q. split; [assumption | apply app_assoc]. Qed.

Lemma sprefix_app_r p x y : sprefix p x -> sprefix p (x ++ y).
Proof.
  intros (q & Hq & ->). exists (q ++ y). split.
  - destruct q; [congruence | discriminate].
  - symmetry. apply app_assoc.
Qed.

(* a strict prefix of x ++ y is a strict prefix of x, or x followed by a strict prefix of y *)
Lemma sprefix_app_split x : forall p y,
  sprefix p (x ++ y) -> sprefix p x \/ exists p', p = x ++ p' /\ sprefix p' y.
Proof.
  induction x as [|b x IH]; intros p y H.
  - right. exists p. split; [reflexivity | exact H].
  - cbn [app] in H. destruct (sprefix_cons_inv _ _ _ H) as [-> | (p' & -> & H')].
    + left. apply sprefix_nil. discriminate.
    + destruct (IH _ _ H') as [Hl | (p'' & -> & Hr)].
      * left. apply sprefix_cons. exact Hl.
      * right. exists p''. split; [reflexivity | exact Hr].
Qed.

(* ---------- reader lemmas ---------- *)

Lemma rd_byte_cons b r : rd_byte (b :: r) = Ok (b, r).
Proof. reflexivity. Qed.

Lemma rd_full_app a rest n : n = len a -> rd_full n (a ++ rest) = Ok (a, rest).
Proof.
  intros Hn. unfold rd_full. destruct (N.eqb_spec n 0) as [E|E].
  - rewrite E in Hn. symmetry in Hn. apply len_0_nil in Hn. subst a. reflexivity.
  - replace (n <=? len (a ++ rest)) with true by (symmetry; apply N.leb_le; rewrite len_app; lia).
    rewrite take_app_len, drop_app_len by assumption. reflexivity.
Qed.

Lemma rd_full_short n p : len p < n -> exists e, rd_full n p = Err e.
Proof.
  intros H. unfold rd_full.
  replace (n =? 0) with false by (symmetry; apply N.eqb_neq; lia).
  replace (n <=? len p) with false by (symmetry; apply N.leb_gt; lia).
  eexists. reflexivity.
Qed.

Lemma rd_full_ok_len n s b r : rd_full n s = Ok (b, r) -> len b = n /\ s = b ++ r.
Proof.
  unfold rd_full. destruct (N.eqb_spec n 0) as [E|E].
  - intros H. inversion H; subst. split; reflexivity.
  - destruct (N.leb_spec n (len s)) as [L|L]; [|discriminate].
    intros H. inversion H; subst. unfold take, drop, len in *. split.
    + rewrite firstn_length. lia.
    + symmetry. apply firstn_skipn.
Qed.

(* ---------- codec_ok ---------- *)

Record codec_ok {A : Type} (dom : A -> Prop) (enc : A -> bytes) (dec : dec_t A) : Prop := {
  ok_rt  : forall v rest, dom v -> dec (enc v ++ rest) = Ok (v, rest);
  ok_pre : forall v p, dom v -> sprefix p (enc v) -> exists e, dec p = Err e;
  ok_ne  : forall v, dom v -> enc v <> []
}.

Lemma codec_ok_ext {A} (dom : A -> Prop) enc enc' dec dec' :
  (forall v, dom v -> enc' v = enc v) -> (forall s, dec' s = dec s) ->
  codec_ok dom enc dec -> codec_ok dom enc' dec'.
Proof.
  intros He Hd [rt pre ne]. split.
  - intros v rest D. rewrite He, Hd by assumption. apply rt; assumption.
  - intros v p D S. rewrite Hd. rewrite He in S by assumption. eapply pre; eassumption.
  - intros v D. rewrite He by assumption. apply ne; assumption.
Qed.

Lemma codec_ok_dom {A} (dom dom' : A -> Prop) enc dec :
  (forall v, dom' v -> dom v) -> codec_ok dom enc dec -> codec_ok dom' enc dec.
Proof.
  intros H [rt pre ne]. split; intros; eauto.
Qed.

Lemma codec_dec_nil {A} (dom : A -> Prop) enc dec v :
  codec_ok dom enc dec -> dom v -> exists e, dec [] = Err e.
Proof.
  intros [rt pre ne] D. apply (pre v [] D). apply sprefix_nil. apply ne; assumption.
Qed.

(* n raw bytes read with io.ReadFull and converted *)
Lemma fixed_ok {A} (dom : A -> Prop) (enc : A -> bytes) (f : bytes -> A) (n : N) :
  0 < n -> (forall v, dom v -> len (enc v) = n) -> (forall v, dom v -> f (enc v) = v) ->
  codec_ok dom enc (fun s => bind (rd_full n s) (fun b r => Ok (f b, r))).
Proof.
  intros Hn Hl Hf. split.
  - intros v rest D. rewrite rd_full_app by (symmetry; apply Hl; assumption).
    cbn [bind]. rewrite Hf by assumption. reflexivity.
  - intros v p D S. apply sprefix_len in S. rewrite (Hl v D) in S.
    destruct (rd_full_short n p S) as [e E]. rewrite E. eexists. reflexivity.
  - intros v D E. specialize (Hl v D). rewrite E, len_nil in Hl. lia.
Qed.

(* post-processing the decoded value with a partial map (f a = None: the decoder reports error er) *)
Definition dmap_opt {A B} (f : A -> option B) (er : perr) (d : dec_t A) : dec_t B :=
  fun s => bind (d s) (fun a r => match f a with Some b => Ok (b, r) | None => Err er end).

Lemma dmap_opt_ok {A B} (domA : A -> Prop) (domB : B -> Prop) encA decA (f : A -> option B) (g : B -> A) er :
  codec_ok domA encA decA ->
  (forall b, domB b -> domA (g b)) -> (forall b, domB b -> f (g b) = Some b) ->
  codec_ok domB (fun b => encA (g b)) (dmap_opt f er decA).
Proof.
  intros [rt pre ne] Hd Hf. split.
  - intros b rest D. unfold dmap_opt. rewrite rt by (apply Hd; assumption).
    cbn [bind]. rewrite Hf by assumption. reflexivity.
  - intros b p D S. unfold dmap_opt. destruct (pre (g b) p (Hd b D) S) as [e E].
    rewrite E. eexists. reflexivity.
  - intros b D. apply ne, Hd, D.
Qed.

Lemma dmap_ok {A B} (domA : A -> Prop) (domB : B -> Prop) encA decA (f : A -> B) (g : B -> A) :
  codec_ok domA encA decA ->
  (forall b, domB b -> domA (g b)) -> (forall b, domB b -> f (g b) = b) ->
  codec_ok domB (fun b => encA (g b)) (dmap f decA).
Proof.
  intros [rt pre ne] Hd Hf. split.
  - intros b rest D. unfold dmap. rewrite rt by (apply Hd; assumption).
    cbn [bind]. rewrite Hf by assumption. reflexivity.
  - intros b p D S. unfold dmap. destruct (pre (g b) p (Hd b D) S) as [e E].
    rewrite E. eexists. reflexivity.
  - intros b D. apply ne, Hd, D.
Qed.

(* one field after another *)
Lemma pair_ok {A B} (domA : A -> Prop) (domB : B -> Prop) encA decA encB decB :
  codec_ok domA encA decA -> codec_ok domB encB decB ->
  codec_ok (fun ab => domA (fst ab) /\ domB (snd ab))
           (fun ab => encA (fst ab) ++ encB (snd ab)) (dec_pair decA decB).
Proof.
  intros [rtA preA neA] [rtB preB neB]. split.
  - intros [a b] rest [Da Db]. cbn [fst snd] in *. unfold dec_pair.
    rewrite <- app_assoc, rtA by assumption. cbn [bind]. rewrite rtB by assumption. reflexivity.
  - intros [a b] p [Da Db] S. cbn [fst snd] in *. unfold dec_pair.
    destruct (sprefix_app_split _ _ _ S) as [Sa | (p' & -> & Sb)].
    + destruct (preA a p Da Sa) as [e E]. rewrite E. eexists. reflexivity.
    + rewrite rtA by assumption. cbn [bind].
      destruct (preB b p' Db Sb) as [e E]. rewrite E. eexists. reflexivity.
  - intros [a b] [Da Db] E. cbn [fst snd] in *. apply app_eq_nil in E. destruct E as [E _].
    exact (neA a Da E).
Qed.

(* a length header followed by exactly that many raw bytes (io.ReadFull) *)
Lemma blob_ok (domH : N -> Prop) encH (decH : dec_t N) :
  codec_ok domH encH decH ->
  codec_ok (fun v => domH (len v)) (fun v => encH (len v) ++ v)
           (fun s => bind (decH s) (fun n r => rd_full n r)).
Proof.
  intros [rt pre ne]. split.
  - intros v rest D. rewrite <- app_assoc, rt by assumption. cbn [bind].
    apply rd_full_app. reflexivity.
  - intros v p D S. destruct (sprefix_app_split _ _ _ S) as [Sh | (p' & -> & Sb)].
    + destruct (pre _ p D Sh) as [e E]. rewrite E. eexists. reflexivity.
    + rewrite rt by assumption. cbn [bind]. apply rd_full_short. apply sprefix_len. exact Sb.
  - intros v D E. apply app_eq_nil in E. destruct E as [E _]. exact (ne _ D E).
Qed.

(* ---------- counted sequences ---------- *)

Section Counted.
  Context {A : Type} (dom : A -> Prop) (enc : A -> bytes) (dec : dec_t A).
  Hypothesis OK : codec_ok dom enc dec.

  Lemma read_n_rt : forall vs fuel rest,
    Forall dom vs -> (length vs <= fuel)%nat ->
    read_n dec fuel (N.of_nat (length vs)) (concat (map enc vs) ++ rest) = Ok (vs, rest).
  Proof.
    induction vs as [|v vs IH]; intros fuel rest F L.
    - destruct fuel; reflexivity.
    - destruct fuel as [|fuel]; [cbn [length] in L; lia|].
      inversion F as [|? ? Dv Fvs]; subst.
      cbn [read_n length map concat].
      replace (N.of_nat (S (length vs)) =? 0) with false by (symmetry; apply N.eqb_neq; lia).
      rewrite <- app_assoc, (ok_rt _ _ _ OK) by assumption. cbn [bind].
      replace (N.of_nat (S (length vs)) - 1) with (N.of_nat (length vs)) by lia.
      rewrite IH by (try assumption; cbn [length] in L; lia). reflexivity.
  Qed.

  Lemma concat_enc_length vs : Forall dom vs -> (length vs <= length (concat (map enc vs)))%nat.
  Proof.
    induction 1 as [|v vs Dv F IH]; [cbn; lia|].
    cbn [map concat length]. rewrite app_length.
    pose proof (ok_ne _ _ _ OK v Dv) as NE. destruct (enc v); [congruence|]. cbn [length]. lia.
  Qed.

  (* fewer than all elements present: error *)
  Lemma read_n_pre : forall vs fuel p,
    Forall dom vs -> sprefix p (concat (map enc vs)) ->
    exists e, read_n dec fuel (N.of_nat (length vs)) p = Err e.
  Proof.
    induction vs as [|v vs IH]; intros fuel p F SP.
    - destruct SP as (q & Hq & E). cbn in E. symmetry in E. apply app_eq_nil in E. destruct E; congruence.
    - inversion F as [|? ? Dv Fvs]; subst.
      assert (NZ : (N.of_nat (length (v :: vs)) =? 0) = false) by (apply N.eqb_neq; cbn [length]; lia).
      destruct fuel as [|fuel]; cbn [read_n]; rewrite NZ; [eexists; reflexivity|].
      cbn [length]. cbn [map concat] in SP.
      destruct (sprefix_app_split _ _ _ SP) as [Sv | (p' & -> & Sr)].
      + destruct (ok_pre _ _ _ OK v p Dv Sv) as [e E]. rewrite E. eexists. reflexivity.
      + rewrite (ok_rt _ _ _ OK) by assumption. cbn [bind].
        replace (N.of_nat (S (length vs)) - 1) with (N.of_nat (length vs)) by lia.
        destruct (IH fuel p' Fvs Sr) as [e E]. rewrite E. eexists. reflexivity.
  Qed.
End Counted.
