(* C27 - the modern (1.20.3+) state machine [mstep]: packs are tracked per id (at most one
   prompt outstanding per id), responses are reported by origin, every call returns. *)
From Coq Require Import List Arith NArith Bool Lia ZifyN ZifyNat ZifyBool.
From Verif Require Import Model.ResourcePack Proofs.C27_Lang Proofs.C27_Legacy.
Import ListNotations.
Open Scope N_scope.

(* ---------- association lists ---------- *)

Lemma aget_aset_other {V} (k k' : N) (v : V) m : k <> k' -> aget k (aset k' v m) = aget k m.
Proof.
  intros D. induction m as [|[k2 v2] m IH]; cbn [aset aget].
  - destruct (N.eqb_spec k' k); [congruence|reflexivity].
  - destruct (N.eqb_spec k' k2) as [->|D2].
    + cbn [aget]. destruct (N.eqb_spec k2 k); [congruence|reflexivity].
    + destruct (k' <? k2); cbn [aget].
      * destruct (N.eqb_spec k' k); [congruence|reflexivity].
      * rewrite IH. reflexivity.
Qed.

Lemma aget_adel_same {V} (k : N) (m : list (N * V)) : aget k (adel k m) = None.
Proof.
  induction m as [|[k2 v2] m IH]; [reflexivity|]. cbn [adel].
  destruct (N.eqb_spec k2 k); [exact IH|]. cbn [aget]. destruct (N.eqb_spec k2 k); [congruence|exact IH].
Qed.

Lemma aget_adel_other {V} (k k' : N) (m : list (N * V)) : k <> k' -> aget k (adel k' m) = aget k m.
Proof.
  intros D. induction m as [|[k2 v2] m IH]; [reflexivity|]. cbn [adel aget].
  destruct (N.eqb_spec k2 k') as [->|D2].
  - destruct (N.eqb_spec k' k); [congruence|exact IH].
  - cbn [aget]. rewrite IH. reflexivity.
Qed.

Lemma mget_aset_other k k' l m : k <> k' -> mget k (aset k' l m) = mget k m.
Proof. intros D. unfold mget. rewrite aget_aset_other by exact D. reflexivity. Qed.
Lemma mget_adel_same k m : mget k (adel k m) = [].
Proof. unfold mget. rewrite aget_adel_same. reflexivity. Qed.
Lemma mget_adel_other k k' m : k <> k' -> mget k (adel k' m) = mget k m.
Proof. intros D. unfold mget. rewrite aget_adel_other by exact D. reflexivity. Qed.

Lemma mget_mremove_same k m : mget k (mremove_first k m) = swap_remove_first (mget k m).
Proof.
  unfold mremove_first. destruct (swap_remove_first (mget k m)) as [|x l] eqn:E.
  - apply mget_adel_same.
  - apply mget_aset_same.
Qed.
Lemma mget_mremove_other k k' m : k <> k' -> mget k (mremove_first k' m) = mget k m.
Proof.
  intros D. unfold mremove_first. destruct (swap_remove_first (mget k' m)).
  - apply mget_adel_other. exact D.
  - apply mget_aset_other. exact D.
Qed.

Lemma swap_remove_in l x : In x (swap_remove_first l) -> In x l.
Proof.
  destruct l as [|y t]; [intros []|]. cbn [swap_remove_first].
  destruct (rev t) as [|lst rt] eqn:R; [intros []|].
  intros H. right. apply in_rev. rewrite R. destruct H as [<-|H]; [left; reflexivity|].
  right. apply in_rev in H. exact H.
Qed.

(* ---------- per-id invariant ---------- *)

Definition MInv (s : mstate) : Prop := forall k p, In p (mget k (m_out s)) -> pid p = k.
Definition cnt (id : N) (s : mstate) : N := match mget id (m_out s) with [] => 0 | _ :: _ => 1 end.

Lemma count_reqs_id_app id a b : count_reqs_id id (a ++ b) = count_reqs_id id a + count_reqs_id id b.
Proof. unfold count_reqs_id. rewrite filter_app, app_length. lia. Qed.

Lemma count_reqs_id_report id e q b : count_reqs_id id (report_events e q b) = 0.
Proof. unfold report_events. destruct (handled_of q); [reflexivity|]. destruct (has_be e); reflexivity. Qed.

Lemma count_reqs_id_own id e q b : count_reqs_id id (GOwn q b :: report_events e q b) = 0.
Proof.
  change (GOwn q b :: report_events e q b) with ([GOwn q b] ++ report_events e q b).
  rewrite count_reqs_id_app, count_reqs_id_report. reflexivity.
Qed.

Lemma count_reqs_id_req id p : count_reqs_id id [req p] = if pid p =? id then 1 else 0.
Proof. unfold count_reqs_id, req. cbn [filter]. destruct (pid p =? id); reflexivity. Qed.

Lemma m_apply_status_out s q id x : m_out (fst (m_apply_status s q id x)) = m_out s.
Proof.
  destruct x; cbn [m_apply_status fst m_out]; try reflexivity.
  destruct q; reflexivity.
Qed.

Lemma mstep_inv e s o id :
  MInv s ->
  MInv (fst (fst (mstep e s o))) /\
  cnt id (fst (fst (mstep e s o))) = out_step_id id (cnt id s) o (snd (fst (mstep e s o))).
Proof.
  intros M. destruct o as [i hash f be|b|i|].
  - (* Queue *)
    cbn [mstep fst snd]. set (p := mkPack (m_next s) i hash f be). split.
    + intros k x. cbn [m_out]. destruct (N.eq_dec k i) as [->|D].
      * rewrite mget_aset_same. intros H. apply in_app_or in H. destruct H as [H|[<-|[]]]; [apply M; exact H|reflexivity].
      * rewrite mget_aset_other by exact D. apply M.
    + unfold cnt, out_step_id. cbn [m_out]. destruct (N.eq_dec id i) as [->|D].
      * rewrite mget_aset_same. destruct (mget i (m_out s)) as [|y t].
        -- cbn [app length Nat.eqb]. rewrite count_reqs_id_req. cbn [pid p]. rewrite N.eqb_refl. reflexivity.
        -- assert (L : Nat.eqb (length ((y :: t) ++ [p])) 1 = false)
             by (apply Nat.eqb_neq; rewrite app_length; cbn [length]; lia).
           rewrite L. reflexivity.
      * rewrite mget_aset_other by exact D.
        assert (Z : count_reqs_id id (if Nat.eqb (length (mget i (m_out s) ++ [p])) 1 then [req p] else []) = 0).
        { destruct (Nat.eqb _ 1); [|reflexivity]. rewrite count_reqs_id_req. cbn [pid p].
          destruct (N.eqb_spec i id); [congruence|reflexivity]. }
        rewrite Z. lia.
  - (* Response *)
    cbn [mstep]. set (i := bid b).
    set (queued := hd_error (mget i (m_out s))).
    set (s1 := match queued with
               | Some _ => if intermediate (bstatus b) then s
                           else mkMS (m_next s) (mremove_first i (m_out s)) (m_pending s) (m_applied s)
               | None => s end).
    assert (O1 : forall k, mget k (m_out s1) =
                           if (k =? i) && negb (intermediate (bstatus b)) then swap_remove_first (mget k (m_out s))
                           else mget k (m_out s)).
    { intros k. unfold s1, queued. destruct (N.eqb_spec k i) as [->|D]; cbn [andb].
      - destruct (mget i (m_out s)) as [|y t] eqn:G; cbn [hd_error].
        + rewrite G. destruct (negb _); reflexivity.
        + destruct (intermediate (bstatus b)); cbn [negb m_out]; [exact G|].
          rewrite mget_mremove_same, G. reflexivity.
      - destruct (hd_error (mget i (m_out s))); [|reflexivity].
        destruct (intermediate (bstatus b)); [reflexivity|]. cbn [m_out]. apply mget_mremove_other. exact D. }
    assert (M1 : MInv s1).
    { intros k x. rewrite O1. destruct ((k =? i) && negb (intermediate (bstatus b))); [|apply M].
      intros H. apply swap_remove_in in H. apply M. exact H. }
    pose proof (m_apply_status_out s1 queued i (bstatus b)) as O2.
    destruct (m_apply_status s1 queued i (bstatus b)) as [s2 early] eqn:AS. cbn [fst] in O2.
    assert (M2 : MInv s2) by (intros k x; rewrite O2; apply M1).
    assert (C2 : cnt id s2 =
                 (if negb (intermediate (bstatus b)) && (i =? id) then N.pred (cnt id s) else cnt id s)
                 + (if negb (intermediate (bstatus b)) && (i =? id) then cnt id s2 else 0)).
    { unfold cnt. rewrite O2, O1. rewrite (N.eqb_sym id i), (andb_comm (i =? id)).
      destruct (negb (intermediate (bstatus b)) && (i =? id)) eqn:C.
      - destruct (mget id (m_out s)) as [|y t]; cbn [swap_remove_first].
        + reflexivity.
        + destruct (rev t); reflexivity.
      - lia. }
    destruct early as [a|].
    + (* early return: queued is None and the status is Successful *)
      cbn [fst snd]. split; [exact M2|].
      unfold out_step_id. fold i. rewrite count_reqs_id_own, N.add_0_r.
      assert (QN : queued = None).
      { unfold m_apply_status in AS. destruct (bstatus b); try discriminate AS. destruct queued; [discriminate AS|reflexivity]. }
      rewrite C2. destruct (negb (intermediate (bstatus b)) && (i =? id)) eqn:C; cbv iota; [|lia].
      apply andb_true_iff in C. destruct C as [_ C]. apply N.eqb_eq in C. subst id.
      unfold cnt. rewrite O2, O1. unfold queued in QN.
      destruct (mget i (m_out s)); [|discriminate QN].
      destruct ((i =? i) && _); reflexivity.
    + cbn [fst snd]. split; [exact M2|].
      unfold out_step_id. fold i. rewrite count_reqs_id_app, count_reqs_id_own, N.add_0_r.
      rewrite C2. f_equal.
      destruct (intermediate (bstatus b)) eqn:I; cbn [negb andb]; [reflexivity|].
      unfold cnt. destruct (mget i (m_out s2)) as [|y t] eqn:G2.
      * destruct (i =? id) eqn:E; [apply N.eqb_eq in E; subst id; rewrite G2|]; reflexivity.
      * rewrite count_reqs_id_req. rewrite (M2 i y) by (rewrite G2; left; reflexivity).
        destruct (N.eqb_spec i id) as [<-|D]; [rewrite G2|]; reflexivity.
  - (* Remove *)
    cbn [mstep fst snd]. split.
    + intros k x. cbn [m_out]. destruct (N.eq_dec k i) as [->|D].
      * rewrite mget_adel_same. intros [].
      * rewrite mget_adel_other by exact D. apply M.
    + unfold cnt, out_step_id. cbn [m_out]. destruct (N.eqb_spec i id) as [->|D].
      * rewrite mget_adel_same. reflexivity.
      * rewrite mget_adel_other by congruence. reflexivity.
  - (* Clear *)
    cbn [mstep fst snd]. split; [intros k x []|reflexivity].
Qed.

Lemma per_id_gen e id : forall h s,
  MInv s -> Forall (fun c => c <= 1) (outstanding_id id (cnt id s) h (run_mpure e s h)).
Proof.
  induction h as [|o r IH]; intros s M; [constructor|].
  cbn [run_mpure]. destruct (mstep_inv e s o id M) as [M2 C].
  destruct (mstep e s o) as [[s' es] a]. cbn [fst snd] in *.
  cbn [outstanding_id s_events]. rewrite <- C. constructor.
  - unfold cnt. destruct (mget id (m_out s')); lia.
  - apply IH. exact M2.
Qed.

Lemma MInv_init : MInv m_init.
Proof. intros k p []. Qed.

(* ---------- reports, results ---------- *)

Lemma mstep_unhandled e s o :
  match o, snd (mstep e s o) with
  | Response b, RHandled false => if has_be e then last_is (obs (snd (fst (mstep e s o)))) (is_rep_of b) else true
  | _, _ => true
  end = true.
Proof.
  destruct o as [id hash f be|b|id|]; try reflexivity.
  cbn [mstep]. destruct (m_apply_status _ _ _ _) as [s2 [a|]]; cbn [fst snd].
  - destruct (handled_of (Some a)) eqn:Hq; [reflexivity|].
    destruct (has_be e) eqn:Hb; [|reflexivity].
    apply (own_unhandled e (Some a) b Hq Hb []).
  - destruct (handled_of (hd_error (mget (bid b) (m_out s)))) eqn:Hq; [reflexivity|].
    destruct (has_be e) eqn:Hb; [|reflexivity].
    apply own_unhandled; assumption.
Qed.

Lemma m_unhandled_gen e : forall h s, unhandled_reported (has_be e) h (run_mpure e s h) = true.
Proof.
  induction h as [|o r IH]; intros s; [reflexivity|].
  cbn [run_mpure]. pose proof (mstep_unhandled e s o) as U.
  destruct o as [id hash f be|b|id|];
    destruct (mstep e s _) as [[s' es] a]; cbn [fst snd] in U;
    cbn [unhandled_reported s_events s_ret]; rewrite IH, andb_true_r; try reflexivity.
  destruct a; try reflexivity. destruct b0; [reflexivity|exact U].
Qed.

Lemma mstep_rep_ok e s o : rep_ok (has_be e) (snd (fst (mstep e s o))).
Proof.
  destruct o as [id hash f be|b|id|]; try apply rep_ok_nil.
  - cbn [mstep fst snd]. destruct (Nat.eqb _ 1); [apply rep_ok_req|apply rep_ok_nil].
  - cbn [mstep]. destruct (m_apply_status _ _ _ _) as [s2 [a|]]; cbn [fst snd].
    + apply rep_ok_own.
    + apply rep_ok_app; [|apply rep_ok_own].
      destruct (intermediate (bstatus b)); [apply rep_ok_nil|].
      destruct (mget (bid b) (m_out s2)); [apply rep_ok_nil|apply rep_ok_req].
Qed.

Lemma m_rep_ok_gen e : forall h s, Forall (fun x => rep_ok (has_be e) (s_events x)) (run_mpure e s h).
Proof.
  induction h as [|o r IH]; intros s; [constructor|].
  cbn [run_mpure]. pose proof (mstep_rep_ok e s o) as R.
  destruct (mstep e s o) as [[s' es] a]. constructor; [exact R|apply IH].
Qed.

Lemma m_all_return_gen e : forall h s, all_return false h (run_mpure e s h) = true.
Proof.
  induction h as [|o r IH]; intros s; [reflexivity|].
  cbn [run_mpure].
  assert (R : match snd (mstep e s o), o with
              | RStuck, _ | ROutOfFuel, _ | RErr, _ => false
              | RPanic, _ => false
              | _, _ => true end = true).
  { destruct o as [id hash f be|b|id|]; try reflexivity.
    cbn [mstep]. destruct (m_apply_status _ _ _ _) as [s2 [a|]]; reflexivity. }
  destruct (mstep e s o) as [[s' es] a]. cbn [snd] in R.
  cbn [all_return s_ret]. rewrite IH, andb_true_r.
  destruct a; try discriminate R; try reflexivity.
Qed.

(* ---------- Remove / Clear forget the id ---------- *)

Lemma adel_gone (id : N) : forall m : list (N * pack), existsb (N.eqb id) (map fst (proj_map (adel id m))) = false.
Proof.
  unfold proj_map. induction m as [|[k v] m IH]; [reflexivity|]. cbn [adel].
  destruct (N.eqb_spec k id) as [->|D]; [exact IH|].
  cbn [map fst snd existsb]. rewrite IH.
  destruct (N.eqb_spec id k); [congruence|reflexivity].
Qed.

Lemma m_removed_gone_gen e : forall h s, removed_gone h (run_mpure e s h) = true.
Proof.
  induction h as [|o r IH]; intros s; [reflexivity|].
  cbn [run_mpure]. destruct o as [id hash f be|b|id|].
  - destruct (mstep e s _) as [[s' es] a]. cbn [removed_gone]. apply IH.
  - destruct (mstep e s _) as [[s' es] a]. cbn [removed_gone]. apply IH.
  - cbn [mstep removed_gone s_ret s_applied s_pending]. unfold m_papp, m_ppend. cbn [m_applied m_pending].
    rewrite !adel_gone. cbn [negb andb]. apply IH.
  - cbn [mstep removed_gone s_ret s_applied s_pending]. apply IH.
Qed.
