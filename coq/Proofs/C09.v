(* C09 — GenerateServerID equals Java's new BigInteger(sha1(secret ++ key)).toString(16),
   except for the all-zero digest (Go: "", Java: "0"). *)
From Coq Require Import List NArith ZArith Lia Bool.
From Coq Require Import ZifyN ZifyNat ZifyBool.
From Verif Require Import Base.Hex Base.Sha1 Model.ServerId.
Import ListNotations.
Open Scope N_scope.
Ltac Zify.zify_post_hook ::= Z.div_mod_to_equations.

(* ---------- canonical base-16 digits ---------- *)

Lemma dig_zero f : dig f 0 = [].
Proof. destruct f; reflexivity. Qed.

Lemma pow2_nat0 : 2 ^ N.of_nat 0 = 1.
Proof. reflexivity. Qed.

Lemma dig_enough : forall f g n,
  n < 2 ^ N.of_nat f -> n < 2 ^ N.of_nat g -> dig f n = dig g n.
Proof.
  induction f as [|f IH]; intros g n Hf Hg.
  - rewrite pow2_nat0 in Hf. assert (n = 0) by lia. subst. rewrite (dig_zero g). reflexivity.
  - destruct g as [|g].
    + rewrite pow2_nat0 in Hg. assert (n = 0) by lia. subst. reflexivity.
    + cbn [dig]. destruct (N.eqb_spec n 0); [reflexivity|].
      f_equal. apply IH.
      * rewrite Nat2N.inj_succ, N.pow_succ_r' in Hf. lia.
      * rewrite Nat2N.inj_succ, N.pow_succ_r' in Hg. lia.
Qed.

Lemma digits16_0 : digits16 0 = [].
Proof. reflexivity. Qed.

Lemma digits16_step n : n <> 0 -> digits16 n = digits16 (n / 16) ++ [n mod 16].
Proof.
  intro Hn. unfold digits16.
  pose proof (N.size_gt n) as Hs.
  destruct (N.to_nat (N.size n)) as [|f] eqn:E.
  - exfalso. assert (N.size n = 0) by lia. rewrite H in Hs.
    rewrite N.pow_0_r in Hs. lia.
  - assert (Hsz : N.size n = N.of_nat (S f)) by lia.
    rewrite Hsz, Nat2N.inj_succ, N.pow_succ_r' in Hs.
    cbn [dig]. destruct (N.eqb_spec n 0); [contradiction|].
    f_equal. apply dig_enough.
    + lia.
    + rewrite N2Nat.id. apply N.size_gt.
Qed.

Lemma digits16_snoc v d : d < 16 -> v * 16 + d <> 0 ->
  digits16 (v * 16 + d) = digits16 v ++ [d].
Proof.
  intros Hd Hn. rewrite (digits16_step _ Hn).
  replace ((v * 16 + d) / 16) with v by lia.
  replace ((v * 16 + d) mod 16) with d by lia.
  reflexivity.
Qed.

Lemma digits16_nil n : digits16 n = [] -> n = 0.
Proof.
  intro H. destruct (N.eq_dec n 0) as [|Hn]; [assumption|].
  rewrite (digits16_step _ Hn) in H. apply app_eq_nil in H. destruct H; discriminate.
Qed.

(* ---------- trim0 / val16 ---------- *)

Definition val16 (ds : list N) : N := fold_left (fun a d => a * 16 + d) ds 0.

Lemma val16_snoc ds d : val16 (ds ++ [d]) = val16 ds * 16 + d.
Proof. unfold val16. rewrite fold_left_app. reflexivity. Qed.

Lemma trim0_app l x :
  trim0 (l ++ x) = match trim0 l with [] => trim0 x | _ => trim0 l ++ x end.
Proof.
  induction l as [|a l IH].
  - reflexivity.
  - destruct a as [|p].
    + exact IH.
    + reflexivity.
Qed.

Lemma digits16_val16 ds :
  Forall (fun d => d < 16) ds -> digits16 (val16 ds) = trim0 ds.
Proof.
  induction ds as [|d ds IH] using rev_ind; intro H.
  - reflexivity.
  - apply Forall_app in H. destruct H as [H1 H2].
    assert (Hd : d < 16) by (inversion H2; assumption).
    specialize (IH H1). rewrite val16_snoc, trim0_app.
    destruct (N.eq_dec (val16 ds * 16 + d) 0) as [E|E].
    + rewrite E. assert (Hv : val16 ds = 0) by lia. assert (d = 0) by lia. subst d.
      rewrite Hv, digits16_0 in IH. rewrite <- IH. reflexivity.
    + rewrite (digits16_snoc _ _ Hd E). rewrite IH.
      destruct (trim0 ds) as [|a l] eqn:T.
      * apply digits16_nil in IH. destruct d as [|p]; [lia | reflexivity].
      * reflexivity.
Qed.

(* ---------- nibbles ---------- *)

Lemma nibbles_cons b r : nibbles (b :: r) = b / 16 :: b mod 16 :: nibbles r.
Proof. reflexivity. Qed.

Lemma nibbles_lt16 p : wf_bytes p -> Forall (fun d => d < 16) (nibbles p).
Proof.
  induction 1 as [|b r Hb Hr IH].
  - constructor.
  - rewrite nibbles_cons. constructor; [lia|]. constructor; [lia|]. exact IH.
Qed.

Lemma fold16_acc ds : forall a,
  fold_left (fun a d => a * 16 + d) ds a = a * 16 ^ N.of_nat (length ds) + val16 ds.
Proof.
  unfold val16. induction ds as [|d ds IH]; intro a.
  - cbn [fold_left length]. change (N.of_nat 0) with 0. rewrite N.pow_0_r. lia.
  - cbn [fold_left length]. rewrite (IH (a * 16 + d)), (IH (0 * 16 + d)).
    rewrite Nat2N.inj_succ, N.pow_succ_r'. lia.
Qed.

Lemma pow16_nibbles r : 16 ^ N.of_nat (length (nibbles r)) = 256 ^ N.of_nat (length r).
Proof.
  induction r as [|b r IH].
  - reflexivity.
  - rewrite nibbles_cons. cbn [length]. rewrite !Nat2N.inj_succ, !N.pow_succ_r', IH. lia.
Qed.

Lemma val16_nibbles p : wf_bytes p -> val16 (nibbles p) = be_val p.
Proof.
  induction 1 as [|b r Hb Hr IH].
  - reflexivity.
  - rewrite nibbles_cons. unfold val16. cbn [fold_left be_val].
    rewrite fold16_acc, pow16_nibbles, IH.
    replace (0 * 16 + b / 16) with (b / 16) by lia.
    replace (b / 16 * 16 + b mod 16) with b by lia. reflexivity.
Qed.

Lemma digits16_be_val p : wf_bytes p -> digits16 (be_val p) = trim0 (nibbles p).
Proof.
  intro W. rewrite <- (val16_nibbles _ W). apply digits16_val16, nibbles_lt16, W.
Qed.

(* ---------- be_val bounds and two's complement ---------- *)

Lemma be_val_lt p : wf_bytes p -> be_val p < 256 ^ N.of_nat (length p).
Proof.
  induction 1 as [|b r Hb Hr IH].
  - cbn. lia.
  - cbn [be_val length]. rewrite Nat2N.inj_succ, N.pow_succ_r'.
    set (M := 256 ^ N.of_nat (length r)) in *. nia.
Qed.

Lemma twos_spec p : wf_bytes p ->
  wf_bytes (fst (twos p)) /\ length (fst (twos p)) = length p /\
  be_val (fst (twos p)) + be_val p
    + (if snd (twos p) then 256 ^ N.of_nat (length p) else 0) = 256 ^ N.of_nat (length p).
Proof.
  induction 1 as [|b r Hb Hr IH].
  - cbn. repeat split. constructor.
  - cbn [twos]. destruct (twos r) as [r' c]. cbn [fst snd] in IH.
    destruct IH as (W' & L' & V').
    change (length (b :: r)) with (S (length r)).
    rewrite Nat2N.inj_succ, N.pow_succ_r'.
    set (M := 256 ^ N.of_nat (length r)) in *.
    destruct c.
    + cbn [fst snd be_val length]. rewrite L'. fold M.
      split; [constructor; [lia | exact W']|]. split; [reflexivity|].
      assert (be_val r' = 0) by lia. assert (be_val r = 0) by lia.
      destruct (N.eqb_spec (255 - b) 255) as [E|E].
      * assert (b = 0) by lia. subst b.
        replace ((255 - 0 + 1) mod 256) with 0 by reflexivity. lia.
      * replace ((255 - b + 1) mod 256) with (256 - b) by lia.
        assert ((256 - b) * M + b * M = 256 * M) by (rewrite <- N.mul_add_distr_r; f_equal; lia).
        lia.
    + cbn [fst snd be_val length]. rewrite L'. fold M.
      split; [constructor; [lia | exact W']|]. split; [reflexivity|].
      assert ((255 - b) * M + b * M = 255 * M) by (rewrite <- N.mul_add_distr_r; f_equal; lia).
      lia.
Qed.

(* ---------- java_hex on N-injected values ---------- *)

Lemma java_hex_pos n : n <> 0 -> java_hex (Z.of_N n) = map hexchar (digits16 n).
Proof. destruct n; [congruence | reflexivity]. Qed.

Lemma java_hex_neg n : n <> 0 -> java_hex (- Z.of_N n) = 45 :: map hexchar (digits16 n).
Proof. destruct n; [congruence | reflexivity]. Qed.

(* ---------- main lemma ---------- *)

Lemma sign_bit b0 t : wf_bytes (b0 :: t) ->
  (128 <=? b0) = (256 ^ N.of_nat (length (b0 :: t)) <=? 2 * be_val (b0 :: t)).
Proof.
  intro W. inversion W as [|x l Hb Ht]; subst.
  pose proof (be_val_lt _ Ht) as Hlt.
  cbn [be_val length]. rewrite Nat2N.inj_succ, N.pow_succ_r'.
  set (M := 256 ^ N.of_nat (length t)) in *.
  destruct (N.leb_spec 128 b0) as [H|H]; symmetry.
  - apply N.leb_le. nia.
  - apply N.leb_gt. nia.
Qed.

Lemma format_digest_correct : forall d,
  wf_bytes d -> d <> [] -> be_val d <> 0 -> format_digest d = java_hex (signed_be d).
Proof.
  intros d W NE NZ. destruct d as [|b0 t]; [congruence|].
  destruct (twos_spec _ W) as (Wr & Lr & Hr).
  pose proof (be_val_lt _ W) as Hlt.
  pose proof (sign_bit _ _ W) as Hs.
  unfold format_digest, signed_be. rewrite Hs.
  assert (HM : (256 ^ Z.of_nat (length (b0 :: t)))%Z
               = Z.of_N (256 ^ N.of_nat (length (b0 :: t)))).
  { rewrite N2Z.inj_pow, nat_N_Z. reflexivity. }
  cbv zeta. rewrite HM.
  set (M := 256 ^ N.of_nat (length (b0 :: t))) in *.
  set (u := be_val (b0 :: t)) in *.
  set (r := fst (twos (b0 :: t))) in *.
  destruct (N.leb_spec M (2 * u)) as [H|H].
  - destruct (Z.leb_spec (Z.of_N M) (2 * Z.of_N u)) as [H'|H']; [|lia].
    destruct (snd (twos (b0 :: t))).
    + exfalso. lia.
    + replace (Z.of_N u - Z.of_N M)%Z with (- Z.of_N (be_val r))%Z by lia.
      rewrite java_hex_neg by lia. rewrite (digits16_be_val _ Wr). reflexivity.
  - destruct (Z.leb_spec (Z.of_N M) (2 * Z.of_N u)) as [H'|H']; [lia|].
    rewrite java_hex_pos by exact NZ. unfold u. rewrite (digits16_be_val _ W). reflexivity.
Qed.

(* the single deviation: all-zero digest *)
Lemma trim0_nibbles_zeros n : trim0 (nibbles (repeat 0 n)) = [].
Proof.
  induction n as [|n IH].
  - reflexivity.
  - cbn [repeat]. rewrite nibbles_cons. exact IH.
Qed.

Lemma format_digest_zero : forall n, format_digest (repeat 0 (S n)) = [].
Proof.
  intro n. change (repeat 0 (S n)) with (0 :: repeat 0 n).
  unfold format_digest. change (128 <=? 0) with false. cbv iota.
  change (0 :: repeat 0 n) with (repeat 0 (S n)).
  rewrite trim0_nibbles_zeros. reflexivity.
Qed.

Lemma java_hex_zero : java_hex 0 = [48].
Proof. reflexivity. Qed.

(* ---------- sha1 output shape ---------- *)

Lemma be_bytes_wf n : forall x, Forall (fun b => b < 256) (be_bytes n x).
Proof.
  induction n as [|n IH]; intro x.
  - constructor.
  - cbn [be_bytes]. apply Forall_app. split; [apply IH|].
    constructor; [|constructor]. apply N.mod_lt. discriminate.
Qed.

Lemma be_bytes_S_app_ne n x l : be_bytes (S n) x ++ l <> [].
Proof.
  cbn [be_bytes]. rewrite <- app_assoc. intro H.
  apply app_eq_nil in H. destruct H as [_ H]. discriminate.
Qed.

Lemma sha1_wf : forall m, wf_bytes (sha1 m) /\ sha1 m <> [].
Proof.
  intro m. unfold sha1.
  destruct (fold_left compress _ _) as [[[[a b] c] e] f].
  split.
  - unfold wf_bytes. do 4 (apply Forall_app; split; [apply be_bytes_wf|]). apply be_bytes_wf.
  - apply be_bytes_S_app_ne.
Qed.

(* ---------- C09 ---------- *)

Theorem C09_server_id : forall secret key,
  be_val (sha1 (secret ++ key)) <> 0 ->
  server_id secret key = reference_server_id secret key.
Proof.
  intros secret key NZ. unfold server_id, reference_server_id.
  destruct (sha1_wf (secret ++ key)) as [W NE].
  apply format_digest_correct; assumption.
Qed.

Example C09_nonvacuous :
  be_val (sha1 [78;111;116;99;104]) <> 0 /\
  server_id [78;111;116;99;104] [] = reference_server_id [78;111;116;99;104] [].
Proof. split; [vm_compute; discriminate | vm_compute; reflexivity]. Qed.

Print Assumptions C09_server_id.
