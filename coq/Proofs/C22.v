(* C22 — proofs about Model/CmdDispatch.v. *)
From Coq Require Import List NArith Bool Lia.
From Verif Require Import Base.Hex Model.CmdDispatch.
Import ListNotations.
Open Scope N_scope.

Lemma beq_bytes_refl a : beq_bytes a a = true.
Proof. apply beq_bytes_eq. reflexivity. Qed.

(* ---------- brigodier part ---------- *)

(* induction principle for the rose tree *)
Section CnodeInd.
  Variable P : cnode -> Prop.
  Hypothesis H : forall id name cu ex cs, Forall P cs -> P (CNode id name cu ex cs).
  Fixpoint cnode_ind' (n : cnode) : P n :=
    match n with
    | CNode id name cu ex cs =>
      H id name cu ex cs
        ((fix all (l : list cnode) : Forall P l :=
            match l with
            | [] => Forall_nil P
            | c :: r => Forall_cons c (cnode_ind' c) (all r)
            end) cs)
    end.
End CnodeInd.

(* nodes reachable from a sibling list through usable nodes only *)
Inductive reaches : list cnode -> cnode -> Prop :=
| reach_here : forall cs n, In n cs -> cn_use n = true -> reaches cs n
| reach_below : forall cs c n, In c cs -> cn_use c = true -> reaches (cn_children c) n -> reaches cs n.

Lemma find_child_in cs w c : find_child cs w = Some c -> In c cs /\ cn_name c = w.
Proof.
  induction cs as [|d r IH]; cbn; [discriminate|].
  destruct (beq_bytes (cn_name d) w) eqn:E.
  - intros [= ->]. split; [now left|]. now apply beq_bytes_eq.
  - intros Hf. destruct (IH Hf). split; [now right|assumption].
Qed.

(* the executor parse_below ends on is the matched node's own or one reachable below it *)
Lemma parse_below_cmd n : forall s i r,
  p_cmd (parse_below n s) = Some (i, r) ->
  (cn_id n = i /\ cn_exec n = Some r) \/
  (exists m, reaches (cn_children n) m /\ cn_id m = i /\ cn_exec m = Some r).
Proof.
  induction n as [id name cu ex cs IH] using cnode_ind'. intros s i r.
  cbn [cn_id cn_exec cn_children].
  set (here := match ex with Some r0 => Some (id, r0) | None => None end).
  assert (Hhere : forall rest, p_cmd (mkParsed here rest) = Some (i, r) -> id = i /\ ex = Some r).
  { intros rest. unfold here. cbn. destruct ex as [r0|]; [|discriminate]. intros [= -> ->]. auto. }
  cbn [parse_below]. fold here.
  destruct s as [|a [|b s2]]; try (intros Hp; left; eapply Hhere; exact Hp).
  set (s1 := b :: s2). set (w := take_word s1).
  assert (Haux : forall l, Forall (fun n => forall s i r,
              p_cmd (parse_below n s) = Some (i, r) ->
              (cn_id n = i /\ cn_exec n = Some r) \/
              (exists m, reaches (cn_children n) m /\ cn_id m = i /\ cn_exec m = Some r)) l ->
            (forall x, In x l -> In x cs) ->
            p_cmd ((fix find (l0 : list cnode) : parsed :=
                      match l0 with
                      | [] => mkParsed here s1
                      | c :: r0 =>
                        if beq_bytes (cn_name c) w
                        then (if cn_use c then parse_below c (skipn (length w) s1) else mkParsed here s1)
                        else find r0
                      end) l) = Some (i, r) ->
            (id = i /\ ex = Some r) \/ (exists m, reaches cs m /\ cn_id m = i /\ cn_exec m = Some r)).
  { induction l as [|c l' IHl]; intros Hall Hsub.
    - intros Hp. left. eapply Hhere; exact Hp.
    - inversion Hall as [|? ? Hc Hl']; subst.
      assert (Hcin : In c cs) by (apply Hsub; now left).
      destruct (beq_bytes (cn_name c) w) eqn:Ew.
      + destruct (cn_use c) eqn:Eu.
        * intros Hp. right. destruct (Hc _ _ _ Hp) as [[Hi He]|[m [Hm [Hi He]]]].
          -- exists c. split; [apply reach_here; assumption|auto].
          -- exists m. split; [eapply reach_below; [exact Hcin|exact Eu|exact Hm]|auto].
        * intros Hp. left. eapply Hhere; exact Hp.
      + intros Hp. apply (IHl Hl'); [|exact Hp]. intros x Hx. apply Hsub. now right. }
  apply Haux; [exact IH|auto].
Qed.

(* nothing is executed and nothing is "handled" unless the first word names a registered root
   the player may use *)
Lemma dispatch_unresolved roots line :
  resolve_root roots line = None -> dispatch roots line = (Unknown, None).
Proof. unfold dispatch. now intros ->. Qed.

Lemma dispatch_ran_resolves roots line i :
  snd (dispatch roots line) = Some i -> exists c, resolve_root roots line = Some c.
Proof.
  unfold dispatch. destruct (resolve_root roots line) as [c|]; [eauto|discriminate].
Qed.

Lemma dispatch_handles_resolves roots line :
  proxy_handles (fst (dispatch roots line)) = true -> exists c, resolve_root roots line = Some c.
Proof.
  unfold dispatch. destruct (resolve_root roots line) as [c|]; [eauto|discriminate].
Qed.

Lemma resolve_root_spec roots line c :
  resolve_root roots line = Some c ->
  In c roots /\ cn_name c = take_word line /\ cn_use c = true.
Proof.
  unfold resolve_root. destruct (find_child roots (take_word line)) as [d|] eqn:E; [|discriminate].
  destruct (cn_use d) eqn:Eu; [|discriminate]. intros [= <-].
  destruct (find_child_in _ _ _ E). auto.
Qed.

(* every executor the dispatcher invokes sits on a path of usable nodes from a registered root *)
Lemma dispatch_ran_reaches roots line i :
  snd (dispatch roots line) = Some i ->
  exists m, reaches roots m /\ cn_id m = i /\ cn_exec m <> None.
Proof.
  unfold dispatch. destruct (resolve_root roots line) as [c|] eqn:Er; [|discriminate].
  destruct (resolve_root_spec _ _ _ Er) as [Hin [_ Hu]].
  set (p := parse_below c _).
  destruct (p_rest p); [|discriminate].
  destruct (p_cmd p) as [[j r]|] eqn:Ec; [|discriminate].
  assert (Hj : snd (match r with RunOk => (Ran, Some j) | RunErrForward => (ErrForward, Some j)
                    | RunErrSyntax => (SyntaxError, Some j) | RunErrOther => (OtherError, Some j) end) = Some j)
    by (destruct r; reflexivity).
  intros Hs. assert (i = j) by (destruct r; cbn in Hs; congruence). subst j.
  destruct (parse_below_cmd _ _ _ _ Ec) as [[Hi He]|[m [Hm [Hi He]]]].
  - exists c. split; [now apply reach_here|]. split; [assumption|congruence].
  - exists m. split; [eapply reach_below; eauto|]. split; [assumption|congruence].
Qed.

(* ---------- the handlers ---------- *)

(* projections of the helper results *)
Lemma ran_consume i ran m : r_ran (consume i ran m) = ran.
Proof. unfold consume, nothing. destruct (i_fam i), (i_signed i && i_fka i), (i_off i =? 0); reflexivity. Qed.
Lemma ran_modify i ran : r_ran (modify_command i ran) = ran.
Proof. unfold modify_command. destruct (i_signed i && i_fka i); reflexivity. Qed.
Lemma ran_forward i ran : r_ran (forward_command i ran) = ran.
Proof.
  unfold forward_command. destruct (beq_bytes (i_cmd i) (i_line i)); [|apply ran_modify].
  destruct (i_fam i); reflexivity.
Qed.
Lemma ran_keyed_unknown i ran : r_ran (keyed_rewrite_unknown_branch i ran) = ran.
Proof. unfold keyed_rewrite_unknown_branch. destruct (strict_key i && i_fka i); reflexivity. Qed.
Lemma ran_keyed_forward fixed i ran : r_ran (keyed_rewrite_forward_branch fixed i ran) = ran.
Proof. unfold keyed_rewrite_forward_branch. destruct (strict_key i), (i_fka i), fixed; reflexivity. Qed.

(* the proxy runs an executor exactly when the event neither denied nor forwarded the command
   and the dispatcher resolves it to an executor (both models) *)
Lemma ran_is_should_run fixed i : r_ran (decide fixed i) = should_run i.
Proof.
  unfold decide, should_run. destruct (i_fam i).
  - unfold decide_legacy, nothing. destruct (i_denied i), (i_forward i); cbn [orb]; try reflexivity.
    destruct (dispatch (i_roots i) (i_cmd i)) as [o ran]. destruct (proxy_handles o); reflexivity.
  - unfold decide_keyed, nothing. destruct (i_denied i); [reflexivity|]. destruct (i_forward i); cbn [orb].
    + destruct (i_signed i && beq_bytes (i_cmd i) (i_line i)); [reflexivity|apply ran_keyed_forward].
    + destruct (dispatch (i_roots i) (i_cmd i)) as [o ran]. destruct (proxy_handles o); [reflexivity|].
      destruct (beq_bytes (i_cmd i) (i_line i)); [reflexivity|apply ran_keyed_unknown].
  - unfold decide_session. destruct (i_denied i); [apply ran_consume|]. destruct (i_forward i); [apply ran_forward|].
    cbn [orb]. destruct (dispatch (i_roots i) (i_cmd i)) as [o ran].
    destruct o; cbn [snd]; try apply ran_consume; try apply ran_forward; reflexivity.
  - unfold decide_session. destruct (i_denied i); [apply ran_consume|]. destruct (i_forward i); [apply ran_forward|].
    cbn [orb]. destruct (dispatch (i_roots i) (i_cmd i)) as [o ran].
    destruct o; cbn [snd]; try apply ran_consume; try apply ran_forward; reflexivity.
Qed.

Lemma C22_iff_lemma fixed i id :
  r_ran (decide fixed i) = Some id <->
  i_denied i = false /\ i_forward i = false /\ snd (dispatch (i_roots i) (i_cmd i)) = Some id.
Proof.
  rewrite ran_is_should_run. unfold should_run.
  destruct (i_denied i), (i_forward i); cbn [orb]; split; try discriminate; try tauto.
  all: intros (H1 & H2 & H3); try discriminate; assumption.
Qed.

Lemma consume_no_cmd i ran m : cmd_packets (r_backend (consume i ran m)) = [].
Proof. unfold consume, nothing. destruct (i_fam i), (i_signed i && i_fka i), (i_off i =? 0); reflexivity. Qed.

(* a denied command never reaches the backend (both models) *)
Lemma denied_never_forwarded fixed i :
  i_denied i = true -> cmd_packets (r_backend (decide fixed i)) = [].
Proof.
  intros Hd. unfold decide, decide_legacy, decide_keyed, decide_session. rewrite Hd.
  destruct (i_fam i); try reflexivity; apply consume_no_cmd.
Qed.

(* a command the proxy handled itself is not forwarded as well (both models) *)
Lemma kept_not_forwarded fixed i :
  kept_by_proxy i = true -> cmd_packets (r_backend (decide fixed i)) = [].
Proof.
  unfold kept_by_proxy. intros Hk.
  apply andb_true_iff in Hk. destruct Hk as [Hk Hh]. apply andb_true_iff in Hk. destruct Hk as [Hd Hf].
  apply negb_true_iff in Hd, Hf.
  unfold decide, decide_legacy, decide_keyed, decide_session. rewrite Hd, Hf.
  destruct (dispatch (i_roots i) (i_cmd i)) as [o ran]. cbn [fst] in Hh.
  destruct (i_fam i); try (rewrite Hh; reflexivity);
    destruct o; cbn in Hh; try discriminate; try apply consume_no_cmd; reflexivity.
Qed.

Ltac crush_decide :=
  unfold decide, decide_legacy, decide_keyed, decide_session, consume, forward_command,
    modify_command, keyed_rewrite_forward_branch, keyed_rewrite_unknown_branch, nothing, rebuilt, strict_key.

Ltac split_ifs :=
  repeat match goal with
    | |- context [dispatch ?a ?b] => destruct (dispatch a b) as [o ran]; cbn
    | |- context [match ?o with Ran => _ | _ => _ end] => destruct o; cbn
    | |- context [if ?b then _ else _] => destruct b; cbn
    end.

(* the player is only ever disconnected over a signed command under ForceKeyAuthentication *)
Lemma disc_only_signed_fka fixed i :
  r_disc (decide fixed i) = true -> i_signed i = true /\ i_fka i = true.
Proof.
  intros H. destruct (i_signed i) eqn:Es, (i_fka i) eqn:Ef; [auto|exfalso..]; revert H;
  crush_decide; rewrite ?Es, ?Ef;
  destruct (i_fam i), (i_denied i), (i_forward i), (i_keyrev i =? 0), (i_keyrev i =? 2); cbn;
  split_ifs; cbn; intros; discriminate.
Qed.

(* a disconnect comes with nothing forwarded *)
Definition disc_quiet (r : result) : Prop := r_disc r = true -> cmd_packets (r_backend r) = [].

Lemma consume_quiet i ran m : disc_quiet (consume i ran m).
Proof.
  unfold disc_quiet, consume, nothing. destruct (i_fam i); try (cbn; discriminate);
  destruct (i_signed i && i_fka i); cbn; auto; destruct (i_off i =? 0); cbn; discriminate.
Qed.
Lemma modify_quiet i ran : disc_quiet (modify_command i ran).
Proof. unfold disc_quiet, modify_command. destruct (i_signed i && i_fka i); cbn; [auto|discriminate]. Qed.
Lemma forward_quiet i ran : disc_quiet (forward_command i ran).
Proof.
  unfold forward_command. destruct (beq_bytes (i_cmd i) (i_line i)); [|apply modify_quiet].
  unfold disc_quiet. destruct (i_fam i); cbn; discriminate.
Qed.
Lemma keyed_unknown_quiet i ran : disc_quiet (keyed_rewrite_unknown_branch i ran).
Proof. unfold disc_quiet, keyed_rewrite_unknown_branch. destruct (strict_key i && i_fka i); cbn; [auto|discriminate]. Qed.
Lemma keyed_forward_quiet fixed i ran : disc_quiet (keyed_rewrite_forward_branch fixed i ran).
Proof.
  unfold disc_quiet, keyed_rewrite_forward_branch.
  destruct (strict_key i), (i_fka i), fixed; cbn; auto; discriminate.
Qed.

Lemma disc_nothing fixed i : disc_quiet (decide fixed i).
Proof.
  unfold decide. destruct (i_fam i).
  - unfold disc_quiet, decide_legacy, nothing. destruct (i_denied i), (i_forward i); cbn; try discriminate.
    destruct (dispatch (i_roots i) (i_cmd i)) as [o ran]. destruct (proxy_handles o); cbn; discriminate.
  - unfold decide_keyed, nothing. destruct (i_denied i); [unfold disc_quiet; cbn; auto|].
    destruct (i_forward i).
    + destruct (i_signed i && beq_bytes (i_cmd i) (i_line i)); [unfold disc_quiet; cbn; discriminate|apply keyed_forward_quiet].
    + destruct (dispatch (i_roots i) (i_cmd i)) as [o ran]. destruct (proxy_handles o); [unfold disc_quiet; cbn; discriminate|].
      destruct (beq_bytes (i_cmd i) (i_line i)); [unfold disc_quiet; cbn; discriminate|apply keyed_unknown_quiet].
  - unfold decide_session. destruct (i_denied i); [apply consume_quiet|].
    destruct (i_forward i); [apply forward_quiet|].
    destruct (dispatch (i_roots i) (i_cmd i)) as [o ran].
    destruct o; try apply consume_quiet; try apply forward_quiet. unfold disc_quiet, nothing; cbn; discriminate.
  - unfold decide_session. destruct (i_denied i); [apply consume_quiet|].
    destruct (i_forward i); [apply forward_quiet|].
    destruct (dispatch (i_roots i) (i_cmd i)) as [o ran].
    destruct o; try apply consume_quiet; try apply forward_quiet. unfold disc_quiet, nothing; cbn; discriminate.
Qed.

(* otherwise the backend receives it exactly once, with the event's command line - except that
   the legacy handler forwards the client's original message when the (possibly rewritten)
   command is unknown to the proxy *)
Definition once_cmd (i : input) (r : result) : Prop := cmd_packets (r_backend r) = [i_cmd i].

Lemma rebuilt_cmd i c : cmd_packets [rebuilt i c] = [c].
Proof. unfold rebuilt. destruct (i_fam i), (i_p1205 i); reflexivity. Qed.

Lemma modify_once i ran : r_disc (modify_command i ran) = false -> once_cmd i (modify_command i ran).
Proof.
  unfold modify_command, once_cmd. destruct (i_signed i && i_fka i); cbn [r_disc r_backend]; [discriminate|].
  intros _. apply rebuilt_cmd.
Qed.

Lemma forward_once i ran : r_disc (forward_command i ran) = false -> once_cmd i (forward_command i ran).
Proof.
  unfold forward_command. destruct (beq_bytes (i_cmd i) (i_line i)) eqn:E; [|apply modify_once].
  apply beq_bytes_eq in E. unfold once_cmd. rewrite E. destruct (i_fam i); reflexivity.
Qed.

Lemma keyed_unknown_once i ran :
  r_disc (keyed_rewrite_unknown_branch i ran) = false -> once_cmd i (keyed_rewrite_unknown_branch i ran).
Proof.
  unfold keyed_rewrite_unknown_branch, once_cmd. destruct (strict_key i && i_fka i); cbn [r_disc r_backend]; [discriminate|].
  intros _. apply rebuilt_cmd.
Qed.

Lemma keyed_forward_once fixed i ran :
  (fixed = true \/ (strict_key i && negb (i_fka i)) = false) ->
  r_disc (keyed_rewrite_forward_branch fixed i ran) = false -> once_cmd i (keyed_rewrite_forward_branch fixed i ran).
Proof.
  unfold keyed_rewrite_forward_branch, once_cmd. intros Hfx.
  destruct (strict_key i); [|intros _; apply rebuilt_cmd].
  destruct (i_fka i); cbn [r_disc r_backend]; [discriminate|].
  destruct fixed; [intros _; apply rebuilt_cmd|]. destruct Hfx; discriminate.
Qed.

Definition exactly_once_text (i : input) (r : result) : Prop :=
  exists c, cmd_packets (r_backend r) = [c] /\
    (c = i_cmd i \/ (c = i_line i /\ i_fam i = Legacy /\ i_forward i = false)).

Lemma once_cmd_text i r : once_cmd i r -> exactly_once_text i r.
Proof. intros H. exists (i_cmd i). split; [exact H|now left]. Qed.

Lemma exactly_once_gen fixed i :
  (fixed = true \/ trigger1 i = false) ->
  i_denied i = false -> kept_by_proxy i = false -> r_disc (decide fixed i) = false ->
  exactly_once_text i (decide fixed i).
Proof.
  intros Hfx Hd Hk. unfold kept_by_proxy in Hk. rewrite Hd in Hk. cbn [negb andb] in Hk.
  unfold decide. destruct (i_fam i) eqn:Efam.
  - (* legacy *)
    unfold decide_legacy. rewrite Hd. destruct (i_forward i) eqn:Efw.
    + intros _. apply once_cmd_text. reflexivity.
    + cbn [negb andb] in Hk. destruct (dispatch (i_roots i) (i_cmd i)) as [o ran]. cbn [fst] in Hk.
      rewrite Hk. intros _. exists (i_line i). split; [reflexivity|]. right. auto.
  - (* keyed *)
    unfold decide_keyed. rewrite Hd. destruct (i_forward i) eqn:Efw.
    + destruct (i_signed i && beq_bytes (i_cmd i) (i_line i)) eqn:Esb.
      * intros _. apply once_cmd_text. apply andb_true_iff in Esb. destruct Esb as [_ Eb].
        apply beq_bytes_eq in Eb. unfold once_cmd. now rewrite Eb.
      * intros Hdisc. apply once_cmd_text. apply keyed_forward_once; [|exact Hdisc].
        destruct Hfx as [->|Ht]; [now left|right].
        unfold trigger1 in Ht. rewrite Efam, Hd, Efw in Ht. cbn [negb andb] in Ht.
        unfold strict_key in *. destruct (i_signed i); [|reflexivity]. cbn [andb] in *.
        rewrite Esb in Ht. cbn [negb] in Ht. now rewrite andb_true_r in Ht.
    + cbn [negb andb] in Hk. destruct (dispatch (i_roots i) (i_cmd i)) as [o ran]. cbn [fst] in Hk.
      rewrite Hk. destruct (beq_bytes (i_cmd i) (i_line i)) eqn:Eb.
      * intros _. apply once_cmd_text. apply beq_bytes_eq in Eb. unfold once_cmd. now rewrite Eb.
      * intros Hdisc. apply once_cmd_text. now apply keyed_unknown_once.
  - (* session *)
    unfold decide_session. rewrite Hd. destruct (i_forward i) eqn:Efw.
    + intros Hdisc. apply once_cmd_text. now apply forward_once.
    + cbn [negb andb] in Hk. destruct (dispatch (i_roots i) (i_cmd i)) as [o ran]. cbn [fst] in Hk.
      destruct o; cbn in Hk; try discriminate; intros Hdisc; apply once_cmd_text; now apply forward_once.
  - (* unsigned *)
    unfold decide_session. rewrite Hd. destruct (i_forward i) eqn:Efw.
    + intros Hdisc. apply once_cmd_text. now apply forward_once.
    + cbn [negb andb] in Hk. destruct (dispatch (i_roots i) (i_cmd i)) as [o ran]. cbn [fst] in Hk.
      destruct o; cbn in Hk; try discriminate; intros Hdisc; apply once_cmd_text; now apply forward_once.
Qed.

(* the repaired model satisfies the whole property predicate *)
Lemma spec_holds_lemma i : holds_C22 i (spec_decide i) = true.
Proof.
  unfold holds_C22, spec_decide.
  rewrite ran_is_should_run.
  assert (H1 : opt_N_eqb (should_run i) (should_run i) = true)
    by (destruct (should_run i); cbn; [apply N.eqb_refl|reflexivity]).
  rewrite H1. cbn [andb].
  assert (H2 : (if is_some (should_run i) then is_some (resolve_root (i_roots i) (i_cmd i)) else true) = true).
  { unfold should_run. destruct (i_denied i || i_forward i); [reflexivity|].
    destruct (snd (dispatch (i_roots i) (i_cmd i))) as [j|] eqn:E; [|reflexivity].
    destruct (dispatch_ran_resolves _ _ _ E) as [c ->]. reflexivity. }
  rewrite H2. cbn [andb].
  destruct (i_denied i) eqn:Hd.
  - cbn [orb]. now rewrite denied_never_forwarded.
  - cbn [orb]. destruct (kept_by_proxy i) eqn:Hk.
    + now rewrite kept_not_forwarded.
    + destruct (r_disc (decide true i)) eqn:Hdisc.
      * destruct (disc_only_signed_fka _ _ Hdisc) as [-> ->]. cbn [andb].
        now rewrite (disc_nothing true i Hdisc).
      * destruct (exactly_once_gen true i (or_introl eq_refl) Hd Hk Hdisc) as [c [-> Hc]].
        destruct Hc as [->|[-> _]]; rewrite beq_bytes_refl; [reflexivity|apply orb_true_r].
Qed.

Lemma prefix_eq_spec_off_trigger_lemma i : trigger1 i = false -> prefix_decide i = spec_decide i.
Proof.
  unfold trigger1, prefix_decide, spec_decide, decide. destruct (i_fam i) eqn:Efam; try reflexivity.
  unfold decide_keyed. destruct (i_denied i); [reflexivity|]. destruct (i_forward i); [|reflexivity].
  cbn [negb andb]. unfold keyed_rewrite_forward_branch, strict_key.
  destruct (i_signed i), (i_keyrev i =? 2), (i_fka i), (beq_bytes (i_cmd i) (i_line i)); cbn;
    intros; try discriminate; reflexivity.
Qed.

(* witness for the recorded finding: "/hub" rewritten to "/lobby" and forwarded *)
Definition c22_witness : input :=
  mkInput Keyed false false 2 true 0 [104;117;98] false true [108;111;98;98;121] [].

Lemma C22_refuted_lemma :
  trigger1 c22_witness = true /\
  i_denied c22_witness = false /\ kept_by_proxy c22_witness = false /\
  r_disc (prefix_decide c22_witness) = false /\
  cmd_packets (r_backend (prefix_decide c22_witness)) = [] /\
  holds_C22 c22_witness (prefix_decide c22_witness) = false.
Proof. vm_compute. repeat split; reflexivity. Qed.

(* ---------- non-vacuity ---------- *)

Definition ex_tree : list cnode :=
  [CNode 1 [104;117;98] true (Some RunOk) [CNode 2 [116;111] true (Some RunOk) []; CNode 3 [120] false (Some RunOk) []];
   CNode 4 [115;101;110;100] false (Some RunOk) []].

(* "hub to" runs executor 2; "hub x" stops at the unusable child: unknown argument; "send" is
   registered but not usable: unknown command (forwarded); "hub" runs executor 1 *)
Example dispatch_examples :
  dispatch ex_tree [104;117;98;32;116;111] = (Ran, Some 2) /\
  dispatch ex_tree [104;117;98;32;120] = (SyntaxError, None) /\
  dispatch ex_tree [115;101;110;100] = (Unknown, None) /\
  dispatch ex_tree [104;117;98] = (Ran, Some 1) /\
  dispatch ex_tree [104;117;98;32] = (SyntaxError, None) /\
  dispatch ex_tree [] = (Unknown, None).
Proof. vm_compute. repeat split; reflexivity. Qed.

Example exactly_once_nonvacuous :
  let i := mkInput Session false false 0 false 3 [115;101;110;100] false false [115;101;110;100] ex_tree in
  i_denied i = false /\ kept_by_proxy i = false /\ r_disc (impl_decide i) = false /\ trigger1 i = false /\
  r_backend (impl_decide i) = [BSession true [115;101;110;100] 3 0].
Proof. vm_compute. repeat split; reflexivity. Qed.

Example kept_nonvacuous :
  let i := mkInput Session false false 0 false 3 [104;117;98] false false [104;117;98] ex_tree in
  kept_by_proxy i = true /\ r_ran (impl_decide i) = Some 1 /\ r_backend (impl_decide i) = [BAck 3].
Proof. vm_compute. repeat split; reflexivity. Qed.
