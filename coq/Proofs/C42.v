(* C42 — proofs about Model/Future.v (under construction) *)
From Coq Require Import List NArith Bool Arith Lia.
From Verif Require Import Base.Conc Model.Future.
Import ListNotations.
