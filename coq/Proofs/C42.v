(* C42 — proofs about Model/Future.v.
   Everything is proved for every schedule of [tick]s (Base.Conc.run over threads whose actions
   are all ticks of arbitrary goroutines): one case analysis per frame kind, no induction over
   interleavings. *)
From Coq Require Import List NArith Bool Arith Lia.
From Verif Require Import Base.Conc Model.Future.
Import ListNotations.

(* ---------- lists: upd / nth_error ---------- *)

Lemma nth_error_upd_same {A} (l : list A) i x y :
  nth_error l i = Some y -> nth_error (upd l i x) i = Some x.
Proof.
  revert i. induction l as [|a l IH]; intros [|i] H; simpl in *; try discriminate; auto.
Qed.

Lemma nth_error_upd_other {A} (l : list A) i j x :
  i <> j -> nth_error (upd l i x) j = nth_error l j.
Proof.
  revert i j. induction l as [|a l IH]; intros [|i] [|j] H; simpl; auto; try congruence.
Qed.

Lemma upd_length {A} (l : list A) i x : length (upd l i x) = length l.
Proof. revert i. induction l as [|a l IH]; intros [|i]; simpl; auto. Qed.

(* additive measures over all frames of all stacks *)
Definition sumf {A} (w : A -> nat) (l : list A) : nat := fold_right (fun a n => w a + n) 0 l.

Lemma sumf_app {A} (w : A -> nat) l1 l2 : sumf w (l1 ++ l2) = sumf w l1 + sumf w l2.
Proof. induction l1; simpl; lia. Qed.

Lemma sumf_concat_upd {A} (w : A -> nat) (ls : list (list A)) t old new :
  nth_error ls t = Some old ->
  sumf w (concat (upd ls t new)) + sumf w old = sumf w (concat ls) + sumf w new.
Proof.
  revert t. induction ls as [|a ls IH]; intros [|t] H; simpl in *; try discriminate.
  - inversion H; subst. rewrite !sumf_app. lia.
  - rewrite !sumf_app. specialize (IH _ H). lia.
Qed.

Lemma in_concat_upd {A} (ls : list (list A)) t old new x :
  nth_error ls t = Some old ->
  In x (concat (upd ls t new)) -> In x new \/ In x (concat ls).
Proof.
  revert t. induction ls as [|a ls IH]; intros [|t] H Hin; simpl in *; try discriminate.
  - apply in_app_or in Hin. destruct Hin; auto. right. apply in_or_app. auto.
  - apply in_app_or in Hin. destruct Hin as [Hin|Hin].
    + right. apply in_or_app. auto.
    + destruct (IH _ H Hin); auto. right. apply in_or_app. auto.
Qed.

Lemma in_concat_nth {A} (ls : list (list A)) t l x :
  nth_error ls t = Some l -> In x l -> In x (concat ls).
Proof.
  intros H Hin. apply in_concat. exists l. split; auto. eapply nth_error_In; eauto.
Qed.

(* ---------- reading the state ---------- *)

Notation val := value_of.
Definition cbs_of (s : state) (f : fid) : list cb :=
  match nth_error (heap s) f with Some fu => cbs fu | None => [] end.
Definition frames (s : state) : list frame := concat (stacks s).

(* What one tick can do, as a relation (each constructor = one branch of [tick]). *)
Inductive step_kind (t : nat) (s : state) : state -> list event -> Prop :=
| SIdle : step_kind t s s []
| SAcceptRun f k v rest fu :
    nth_error (stacks s) t = Some (FAccept f k :: rest) ->
    nth_error (heap s) f = Some fu -> locked fu = false -> value fu = Some v ->
    step_kind t s (set_stack (set_fut s f (mkFut (value fu) (cbs fu) true)) t
                             (FRun f k v :: FUnlock f :: rest)) []
| SAcceptReg f k rest fu :
    nth_error (stacks s) t = Some (FAccept f k :: rest) ->
    nth_error (heap s) f = Some fu -> locked fu = false -> value fu = None ->
    step_kind t s (set_stack (set_fut s f (mkFut None (cbs fu ++ [k]) false)) t rest) []
| SCompleteNoop f v w rest fu :
    nth_error (stacks s) t = Some (FComplete f v :: rest) ->
    nth_error (heap s) f = Some fu -> locked fu = false -> value fu = Some w ->
    step_kind t s (set_stack s t rest) []
| SCompleteSet f v rest fu :
    nth_error (stacks s) t = Some (FComplete f v :: rest) ->
    nth_error (heap s) f = Some fu -> locked fu = false -> value fu = None ->
    step_kind t s (set_stack (set_fut s f (mkFut (Some v) (cbs fu) true)) t
                             (map (fun k => FRun f k v) (cbs fu) ++ FUnlock f :: rest))
              [ESet f v]
| SRunLog f c v rest :
    nth_error (stacks s) t = Some (FRun f (CLog c) v :: rest) ->
    step_kind t s (set_stack s t rest) [ERun f c v]
| SRunCompose f u out v rest :
    nth_error (stacks s) t = Some (FRun f (CCompose u out) v :: rest) ->
    step_kind t s (set_stack s t (compose_frames u out v ++ rest)) []
| SRunForward f out v rest :
    nth_error (stacks s) t = Some (FRun f (CForward out) v :: rest) ->
    step_kind t s (set_stack s t (FComplete out v :: rest)) []
| SUnlock f rest fu :
    nth_error (stacks s) t = Some (FUnlock f :: rest) ->
    nth_error (heap s) f = Some fu ->
    step_kind t s (set_stack (set_fut s f (mkFut (value fu) (cbs fu) false)) t rest) []
| SUnlockNone f rest :
    nth_error (stacks s) t = Some (FUnlock f :: rest) ->
    nth_error (heap s) f = None ->
    step_kind t s (set_stack s t rest) [].

Lemma tick_step t s : step_kind t s (fst (tick t s)) (snd (tick t s)).
Proof.
  unfold tick.
  destruct (nth_error (stacks s) t) as [[|fr rest]|] eqn:Hst; try apply SIdle.
  destruct fr as [f k|f v|f k v|f].
  - destruct (nth_error (heap s) f) as [fu|] eqn:Hf; [|apply SIdle].
    destruct (locked fu) eqn:Hl; [apply SIdle|].
    destruct (value fu) as [v|] eqn:Hv; simpl.
    + rewrite <- Hv at 1. eapply SAcceptRun; eauto.
    + eapply SAcceptReg; eauto.
  - destruct (nth_error (heap s) f) as [fu|] eqn:Hf; [|apply SIdle].
    destruct (locked fu) eqn:Hl; [apply SIdle|].
    destruct (value fu) as [w|] eqn:Hv; simpl.
    + eapply SCompleteNoop; eauto.
    + eapply SCompleteSet; eauto.
  - destruct k as [c|u out|out]; simpl.
    + eapply SRunLog; eauto.
    + eapply SRunCompose; eauto.
    + eapply SRunForward; eauto.
  - destruct (nth_error (heap s) f) as [fu|] eqn:Hf; simpl.
    + eapply SUnlock; eauto.
    + eapply SUnlockNone; eauto.
Qed.

(* val / cbs_of / frames after the two kinds of update *)
Lemma val_set_stack s t st f : val (set_stack s t st) f = val s f.
Proof. reflexivity. Qed.

Lemma val_set_fut_same s f fu fu0 :
  nth_error (heap s) f = Some fu0 -> val (set_fut s f fu) f = value fu.
Proof. intros H. unfold val, set_fut; simpl. now rewrite (nth_error_upd_same _ _ _ _ H). Qed.

Lemma val_set_fut_other s f fu f' : f <> f' -> val (set_fut s f fu) f' = val s f'.
Proof. intros H. unfold val, set_fut; simpl. now rewrite nth_error_upd_other. Qed.

Lemma cbs_set_fut_same s f fu fu0 :
  nth_error (heap s) f = Some fu0 -> cbs_of (set_fut s f fu) f = cbs fu.
Proof. intros H. unfold cbs_of, set_fut; simpl. now rewrite (nth_error_upd_same _ _ _ _ H). Qed.

Lemma cbs_set_fut_other s f fu f' : f <> f' -> cbs_of (set_fut s f fu) f' = cbs_of s f'.
Proof. intros H. unfold cbs_of, set_fut; simpl. now rewrite nth_error_upd_other. Qed.

(* a set_fut that keeps value and cbs changes neither val nor cbs_of *)
Lemma val_set_fut_keep s f fu0 b f' :
  nth_error (heap s) f = Some fu0 ->
  val (set_fut s f (mkFut (value fu0) (cbs fu0) b)) f' = val s f'.
Proof.
  intros H. destruct (Nat.eq_dec f f') as [<-|Hn].
  - rewrite (val_set_fut_same _ _ _ _ H). unfold val. now rewrite H.
  - now apply val_set_fut_other.
Qed.

Lemma cbs_set_fut_keep s f fu0 b f' :
  nth_error (heap s) f = Some fu0 ->
  cbs_of (set_fut s f (mkFut (value fu0) (cbs fu0) b)) f' = cbs_of s f'.
Proof.
  intros H. destruct (Nat.eq_dec f f') as [<-|Hn].
  - rewrite (cbs_set_fut_same _ _ _ _ H). unfold cbs_of. now rewrite H.
  - now apply cbs_set_fut_other.
Qed.

(* ---------- 1. the value is fixed by the first completion ---------- *)

Lemma step_val_mono t s s' ev f v :
  step_kind t s s' ev -> val s f = Some v -> val s' f = Some v.
Proof.
  intros H Hv. destruct H; rewrite ?val_set_stack; auto.
  - now rewrite (val_set_fut_keep _ _ _ _ _ H0).
  - destruct (Nat.eq_dec f0 f) as [->|Hn].
    + unfold val in Hv. rewrite H0 in Hv. congruence.
    + now rewrite val_set_fut_other.
  - destruct (Nat.eq_dec f0 f) as [->|Hn].
    + unfold val in Hv. rewrite H0 in Hv. congruence.
    + now rewrite val_set_fut_other.
  - now rewrite (val_set_fut_keep _ _ _ _ _ H0).
Qed.

(* values written by ESet events on f, in order *)
Notation sets := completions.

Lemma sets_app f a b : sets f (a ++ b) = sets f a ++ sets f b.
Proof. unfold sets. now rewrite flat_map_app. Qed.

Definition sets_agree (s : state) (evs : list event) : Prop :=
  forall f, sets f evs = match val s f with Some v => [v] | None => [] end.

Lemma step_sets_agree t s s' ev evs :
  step_kind t s s' ev -> sets_agree s evs -> sets_agree s' (evs ++ ev).
Proof.
  intros H Ha f. rewrite sets_app, (Ha f).
  destruct H; rewrite ?val_set_stack; simpl; rewrite ?app_nil_r; auto.
  - now rewrite (val_set_fut_keep _ _ _ _ _ H0).
  - destruct (Nat.eq_dec f0 f) as [->|Hn].
    + rewrite (val_set_fut_same _ _ _ _ H0). simpl. unfold val. now rewrite H0, H2.
    + now rewrite val_set_fut_other.
  - destruct (Nat.eq_dec f0 f) as [->|Hn].
    + rewrite (val_set_fut_same _ _ _ _ H0). simpl. rewrite Nat.eqb_refl.
      unfold val. now rewrite H0, H2.
    + rewrite val_set_fut_other by auto.
      replace (f =? f0) with false by (symmetry; apply Nat.eqb_neq; auto).
      now rewrite app_nil_r.
  - now rewrite (val_set_fut_keep _ _ _ _ _ H0).
Qed.

(* every frame "invoke k(v) inside f's critical section" carries f's value *)
Definition runs_carry_value (s : state) : Prop :=
  forall f k v, In (FRun f k v) (frames s) -> val s f = Some v.

Lemma frames_set_stack_in s t old new x :
  nth_error (stacks s) t = Some old ->
  In x (frames (set_stack s t new)) -> In x new \/ In x (frames s).
Proof. intros H. unfold frames, set_stack; simpl. now apply in_concat_upd with (old := old). Qed.

Lemma frames_top s t fr rest : nth_error (stacks s) t = Some (fr :: rest) -> In fr (frames s).
Proof. intros H. eapply in_concat_nth; eauto. now left. Qed.

Lemma frames_rest s t fr rest x :
  nth_error (stacks s) t = Some (fr :: rest) -> In x rest -> In x (frames s).
Proof. intros H Hin. eapply in_concat_nth; eauto. now right. Qed.

Lemma step_runs_carry t s s' ev :
  step_kind t s s' ev -> runs_carry_value s -> runs_carry_value s'.
Proof.
  unfold runs_carry_value. intros H Hc f1 k1 v1 Hin.
  assert (Hmono : forall f v, val s f = Some v -> val s' f = Some v)
    by (intros; eapply step_val_mono; eauto).
  assert (Hrest : forall fr rest, nth_error (stacks s) t = Some (fr :: rest) ->
                  In (FRun f1 k1 v1) rest -> val s f1 = Some v1)
    by (intros fr rest Hst Hr; eapply Hc, frames_rest; eauto).
  destruct H; [eapply Hc; exact Hin|..];
    (eapply frames_set_stack_in in Hin; [|eassumption]);
    rewrite ?frames_set_fut in Hin;
    (destruct Hin as [Hin|Hin]; [|eapply Hmono, Hc; exact Hin]).
  - (* accept on completed *)
    destruct Hin as [E|[E|Hin]]; try discriminate.
    + inversion E; subst. rewrite val_set_stack, (val_set_fut_same _ _ _ _ H0). exact H2.
    + eapply Hmono, Hrest; eauto.
  - eapply Hmono, Hrest; eauto.
  - eapply Hmono, Hrest; eauto.
  - apply in_app_or in Hin. destruct Hin as [Hin|[E|Hin]]; try discriminate.
    + apply in_map_iff in Hin. destruct Hin as [k [E _]]. inversion E; subst.
      rewrite val_set_stack, (val_set_fut_same _ _ _ _ H0). reflexivity.
    + eapply Hmono, Hrest; eauto.
  - eapply Hmono, Hrest; eauto.
  - apply in_app_or in Hin. destruct Hin as [Hin|Hin]; [|eapply Hmono, Hrest; eauto].
    destruct u; simpl in Hin; intuition discriminate.
  - destruct Hin as [E|Hin]; try discriminate. eapply Hmono, Hrest; eauto.
  - eapply Hmono, Hrest; eauto.
  - eapply Hmono, Hrest; eauto.
Qed.

(* log callbacks that ran saw the future's value *)
Definition ran_value_ok (s : state) (evs : list event) : Prop :=
  forall f c v, In (ERun f c v) evs -> val s f = Some v.

Lemma step_ran_value t s s' ev evs :
  step_kind t s s' ev -> runs_carry_value s -> ran_value_ok s evs -> ran_value_ok s' (evs ++ ev).
Proof.
  unfold runs_carry_value, ran_value_ok. intros H Hc Hr f1 c1 v1 Hin.
  assert (Hmono : forall f v, val s f = Some v -> val s' f = Some v)
    by (intros; eapply step_val_mono; eauto).
  apply in_app_or in Hin. destruct Hin as [Hin|Hin]; [eapply Hmono, Hr, Hin|].
  destruct H; simpl in Hin; try tauto.
  - destruct Hin as [E|[]]. discriminate.
  - destruct Hin as [E|[]]. inversion E; subst. rewrite val_set_stack.
    eapply Hc. eapply frames_top; eauto.
Qed.

(* ---------- 2. every log callback runs exactly once ---------- *)

Definition is_log (f : fid) (c : N) (k : cb) : bool :=
  match k with CLog c' => N.eqb c c' | _ => false end.

(* where a registration "ThenAccept f c" can be: not yet executed, waiting in f.callback,
   about to be invoked, done *)
Definition w_accept (f : fid) (c : N) (fr : frame) : nat :=
  match fr with FAccept f' k => if Nat.eqb f f' && is_log f c k then 1 else 0 | _ => 0 end.
Definition w_pending (f : fid) (c : N) (fr : frame) : nat :=
  match fr with FRun f' k _ => if Nat.eqb f f' && is_log f c k then 1 else 0 | _ => 0 end.
Definition w_cb (f : fid) (c : N) (k : cb) : nat := if is_log f c k then 1 else 0.
Definition w_ran (f : fid) (c : N) (e : event) : nat :=
  match e with ERun f' c' _ => if Nat.eqb f f' && N.eqb c c' then 1 else 0 | _ => 0 end.

Definition n_accept f c s := sumf (w_accept f c) (frames s).
Definition n_pending f c s := sumf (w_pending f c) (frames s).
Definition n_waiting f c s :=
  match val s f with None => sumf (w_cb f c) (cbs_of s f) | Some _ => 0 end.
Definition n_ran f c evs := sumf (w_ran f c) evs.

Definition total f c s evs := n_accept f c s + n_waiting f c s + n_pending f c s + n_ran f c evs.

Lemma sumf_frames_set_stack w s t old new :
  nth_error (stacks s) t = Some old ->
  sumf w (frames (set_stack s t new)) + sumf w old = sumf w (frames s) + sumf w new.
Proof. intros H. unfold frames, set_stack; simpl. now apply sumf_concat_upd. Qed.

Lemma frames_set_fut s f fu : frames (set_fut s f fu) = frames s.
Proof. reflexivity. Qed.

Lemma stacks_set_fut s f fu : stacks (set_fut s f fu) = stacks s.
Proof. reflexivity. Qed.

Lemma n_waiting_set_stack f c s t st : n_waiting f c (set_stack s t st) = n_waiting f c s.
Proof. reflexivity. Qed.

Lemma sumf_pending_map f c f0 v l :
  sumf (w_pending f c) (map (fun k => FRun f0 k v) l) =
  if Nat.eqb f f0 then sumf (w_cb f c) l else 0.
Proof.
  induction l as [|k l IH]; simpl.
  - now destruct (f =? f0).
  - rewrite IH. unfold w_cb. destruct (f =? f0); simpl; auto.
Qed.

Lemma sumf_accept_map f c f0 v l : sumf (w_accept f c) (map (fun k => FRun f0 k v) l) = 0.
Proof. induction l; simpl; auto. Qed.

Lemma step_total t s s' ev evs f c :
  step_kind t s s' ev -> total f c s' (evs ++ ev) = total f c s evs.
Proof.
  intros H. unfold total, n_accept, n_pending, n_ran. rewrite sumf_app.
  destruct H; simpl; rewrite ?n_waiting_set_stack; try lia.
  - (* accept on a completed future: accept -> pending *)
    pose proof (sumf_frames_set_stack (w_accept f c) (set_fut s f0 (mkFut (value fu) (cbs fu) true)) t _
                  (FRun f0 k v :: FUnlock f0 :: rest) H) as Ea.
    pose proof (sumf_frames_set_stack (w_pending f c) (set_fut s f0 (mkFut (value fu) (cbs fu) true)) t _
                  (FRun f0 k v :: FUnlock f0 :: rest) H) as Ep.
    rewrite frames_set_fut in *. simpl in Ea, Ep.
    assert (Ew : n_waiting f c (set_fut s f0 (mkFut (value fu) (cbs fu) true)) = n_waiting f c s).
    { unfold n_waiting. now rewrite (val_set_fut_keep _ _ _ _ _ H0), (cbs_set_fut_keep _ _ _ _ _ H0). }
    rewrite Ew. lia.
  - (* accept on a pending future: accept -> waiting *)
    pose proof (sumf_frames_set_stack (w_accept f c) (set_fut s f0 (mkFut None (cbs fu ++ [k]) false)) t _
                  rest H) as Ea.
    pose proof (sumf_frames_set_stack (w_pending f c) (set_fut s f0 (mkFut None (cbs fu ++ [k]) false)) t _
                  rest H) as Ep.
    rewrite frames_set_fut in *. simpl in Ea, Ep.
    assert (Ew : n_waiting f c (set_fut s f0 (mkFut None (cbs fu ++ [k]) false)) =
                 n_waiting f c s + (if Nat.eqb f f0 && is_log f c k then 1 else 0)).
    { unfold n_waiting. destruct (Nat.eq_dec f0 f) as [->|Hn].
      - rewrite (val_set_fut_same _ _ _ _ H0), (cbs_set_fut_same _ _ _ _ H0). simpl.
        unfold val, cbs_of. rewrite H0, H2, sumf_app, Nat.eqb_refl. simpl. unfold w_cb.
        destruct (is_log f c k); lia.
      - rewrite val_set_fut_other, cbs_set_fut_other by auto.
        replace (f =? f0) with false by (symmetry; apply Nat.eqb_neq; auto). simpl. lia. }
    rewrite Ew. lia.
  - pose proof (sumf_frames_set_stack (w_accept f c) s t _ rest H) as Ea.
    pose proof (sumf_frames_set_stack (w_pending f c) s t _ rest H) as Ep.
    simpl in Ea, Ep. lia.
  - (* completion: waiting -> pending *)
    pose proof (sumf_frames_set_stack (w_accept f c) (set_fut s f0 (mkFut (Some v) (cbs fu) true)) t _
                  (map (fun k => FRun f0 k v) (cbs fu) ++ FUnlock f0 :: rest) H) as Ea.
    pose proof (sumf_frames_set_stack (w_pending f c) (set_fut s f0 (mkFut (Some v) (cbs fu) true)) t _
                  (map (fun k => FRun f0 k v) (cbs fu) ++ FUnlock f0 :: rest) H) as Ep.
    rewrite frames_set_fut in *. rewrite sumf_app in Ea, Ep.
    rewrite sumf_accept_map in Ea. rewrite sumf_pending_map in Ep. simpl in Ea, Ep.
    assert (Ew : n_waiting f c (set_fut s f0 (mkFut (Some v) (cbs fu) true)) +
                 (if Nat.eqb f f0 then sumf (w_cb f c) (cbs fu) else 0) = n_waiting f c s).
    { unfold n_waiting. destruct (Nat.eq_dec f0 f) as [->|Hn].
      - rewrite (val_set_fut_same _ _ _ _ H0). simpl. unfold val, cbs_of.
        now rewrite H0, H2, Nat.eqb_refl.
      - rewrite val_set_fut_other, cbs_set_fut_other by auto.
        replace (f =? f0) with false by (symmetry; apply Nat.eqb_neq; auto). lia. }
    lia.
  - (* a log callback runs: pending -> ran *)
    pose proof (sumf_frames_set_stack (w_accept f c) s t _ rest H) as Ea.
    pose proof (sumf_frames_set_stack (w_pending f c) s t _ rest H) as Ep.
    simpl in Ea, Ep. destruct (f =? f0); simpl in *; destruct (N.eqb c c0); simpl in *; lia.
  - pose proof (sumf_frames_set_stack (w_accept f c) s t _ (compose_frames u out v ++ rest) H) as Ea.
    pose proof (sumf_frames_set_stack (w_pending f c) s t _ (compose_frames u out v ++ rest) H) as Ep.
    rewrite sumf_app in Ea, Ep. simpl in Ea, Ep.
    assert (sumf (w_accept f c) (compose_frames u out v) = 0).
    { destruct u; simpl; rewrite ?andb_false_r; reflexivity. }
    assert (sumf (w_pending f c) (compose_frames u out v) = 0) by (destruct u; reflexivity).
    rewrite andb_false_r in Ep. lia.
  - pose proof (sumf_frames_set_stack (w_accept f c) s t _ (FComplete out v :: rest) H) as Ea.
    pose proof (sumf_frames_set_stack (w_pending f c) s t _ (FComplete out v :: rest) H) as Ep.
    simpl in Ea, Ep. rewrite andb_false_r in Ep. lia.
  - pose proof (sumf_frames_set_stack (w_accept f c) (set_fut s f0 (mkFut (value fu) (cbs fu) false)) t _
                  rest H) as Ea.
    pose proof (sumf_frames_set_stack (w_pending f c) (set_fut s f0 (mkFut (value fu) (cbs fu) false)) t _
                  rest H) as Ep.
    rewrite frames_set_fut in *. simpl in Ea, Ep.
    assert (Ew : n_waiting f c (set_fut s f0 (mkFut (value fu) (cbs fu) false)) = n_waiting f c s).
    { unfold n_waiting. now rewrite (val_set_fut_keep _ _ _ _ _ H0), (cbs_set_fut_keep _ _ _ _ _ H0). }
    rewrite Ew. lia.
  - pose proof (sumf_frames_set_stack (w_accept f c) s t _ rest H) as Ea.
    pose proof (sumf_frames_set_stack (w_pending f c) s t _ rest H) as Ep.
    simpl in Ea, Ep. lia.
Qed.

(* ---------- lifting to every schedule ---------- *)

Definition ticks_only (ts : list (@thread state event)) : Prop :=
  forall a, In a (concat ts) -> exists t, a = tick t.

Lemma sumf_map {A B} (w : B -> nat) (g : A -> B) l : sumf w (map g l) = sumf (fun a => w (g a)) l.
Proof. induction l; simpl; auto. Qed.

Lemma sumf_ext {A} (w w' : A -> nat) l : (forall a, w a = w' a) -> sumf w l = sumf w' l.
Proof. intros H. induction l; simpl; auto. Qed.

Lemma sumf_filter {A} (p : A -> bool) l : sumf (fun a => if p a then 1 else 0) l = length (filter p l).
Proof. induction l as [|a l IH]; simpl; auto. destruct (p a); simpl; lia. Qed.

Lemma frames_init nfut progs : frames (init nfut progs) = map start_frame (concat progs).
Proof. unfold frames, init; simpl. now rewrite concat_map. Qed.

Lemma val_init nfut progs f : val (init nfut progs) f = None.
Proof.
  unfold value_of, init; simpl.
  destruct (nth_error (repeat fresh nfut) f) as [fu|] eqn:E; auto.
  apply nth_error_In, repeat_spec in E. now subst.
Qed.

Lemma cbs_init nfut progs f : cbs_of (init nfut progs) f = [].
Proof.
  unfold cbs_of, init; simpl.
  destruct (nth_error (repeat fresh nfut) f) as [fu|] eqn:E; auto.
  apply nth_error_In, repeat_spec in E. now subst.
Qed.

Lemma n_ran_count f c evs : n_ran f c evs = runs_count f c evs.
Proof.
  unfold n_ran, runs_count. rewrite <- sumf_filter. apply sumf_ext.
  intros [f' v|f' c' v]; simpl; auto.
Qed.

Lemma total_init nfut progs f c :
  total f c (init nfut progs) [] = registrations f c progs.
Proof.
  unfold total, n_accept, n_pending, n_waiting, n_ran.
  rewrite val_init, cbs_init, frames_init, !sumf_map. simpl.
  unfold registrations. rewrite <- sumf_filter.
  assert (E : sumf (fun a => w_pending f c (start_frame a)) (concat progs) = 0).
  { induction (concat progs) as [|o l IH]; simpl; auto. destruct o; simpl; auto. }
  rewrite E.
  assert (E2 : sumf (fun a => w_accept f c (start_frame a)) (concat progs) =
               sumf (fun o => if match o with ThenAccept f' c' => Nat.eqb f f' && N.eqb c c' | _ => false end
                              then 1 else 0) (concat progs)).
  { apply sumf_ext. intros [f' c'|f' v|f' u o]; simpl; auto. now rewrite andb_false_r. }
  rewrite E2. lia.
Qed.

Definition good (s0 s : state) (evs : list event) : Prop :=
  sets_agree s evs /\ runs_carry_value s /\ ran_value_ok s evs
  /\ forall f c, total f c s evs = total f c s0 [].

Lemma good_tick s0 t s evs :
  good s0 s evs -> good s0 (fst (tick t s)) (evs ++ snd (tick t s)).
Proof.
  intros (Ha & Hc & Hr & Ht). pose proof (tick_step t s) as Hs.
  repeat split.
  - eapply step_sets_agree; eauto.
  - eapply step_runs_carry; eauto.
  - eapply step_ran_value; eauto.
  - intros f c. rewrite (step_total _ _ _ _ _ f c Hs). apply Ht.
Qed.

Lemma good_init nfut progs : good (init nfut progs) (init nfut progs) [].
Proof.
  repeat split.
  - intros f. now rewrite val_init.
  - intros f k v Hin. rewrite frames_init in Hin. apply in_map_iff in Hin.
    destruct Hin as [o [E _]]. destruct o; discriminate.
  - intros f c v [].
Qed.

Lemma all_schedules_good nfut progs ts sched :
  ticks_only ts ->
  good (init nfut progs) (final_state (run ts sched (init nfut progs)))
       (events (run ts sched (init nfut progs))).
Proof.
  intros Ht.
  apply (trace_inv_all_schedules (good (init nfut progs)) ts) with (evs0 := []).
  - intros a Ha s evs Hg. destruct (Ht a Ha) as [t ->]. now apply good_tick.
  - apply good_init.
Qed.

(* 1. first completion wins *)
Lemma first_wins_all nfut progs ts sched f :
  ticks_only ts ->
  let r := run ts sched (init nfut progs) in
  completions f (events r) = match value_of (final_state r) f with Some v => [v] | None => [] end
  /\ forall c w, In (ERun f c w) (events r) -> value_of (final_state r) f = Some w.
Proof.
  intros Ht r. destruct (all_schedules_good nfut progs ts sched Ht) as (Ha & _ & Hr & _).
  split; [apply Ha|]. intros c w. apply Hr.
Qed.

(* once set, the value survives any further schedule from any state *)
Lemma value_stable_all ts sched s f v :
  ticks_only ts -> value_of s f = Some v ->
  value_of (final_state (run ts sched s)) f = Some v.
Proof.
  intros Ht Hv.
  apply (inv_all_schedules (fun s => value_of s f = Some v) ts); auto.
  intros a Ha s1 H1. destruct (Ht a Ha) as [t ->].
  eapply step_val_mono; [apply tick_step|exact H1].
Qed.

Lemma quiescent_frames s : quiescent s = true -> frames s = [].
Proof.
  unfold quiescent, frames. induction (stacks s) as [|st l IH]; simpl; auto.
  destruct st; simpl; [auto|discriminate].
Qed.

(* 2. exactly once *)
Lemma callback_exactly_once_all nfut progs ts sched f c :
  ticks_only ts ->
  let r := run ts sched (init nfut progs) in
  runs_count f c (events r) <= registrations f c progs
  /\ (quiescent (final_state r) = true ->
      match value_of (final_state r) f with
      | Some _ => runs_count f c (events r) = registrations f c progs
      | None => runs_count f c (events r) = 0
      end).
Proof.
  intros Ht r. destruct (all_schedules_good nfut progs ts sched Ht) as (_ & _ & _ & Htot).
  specialize (Htot f c). rewrite total_init in Htot. unfold total in Htot.
  rewrite n_ran_count in Htot. fold r in Htot. split; [lia|].
  intros Hq. apply quiescent_frames in Hq.
  unfold n_accept, n_pending, n_waiting in Htot. rewrite Hq in Htot. simpl in Htot.
  destruct (value_of (final_state r) f) eqn:Ev; [lia|].
  (* not completed: a run would carry f's value, and there is none *)
  destruct (all_schedules_good nfut progs ts sched Ht) as (_ & _ & Hr & _). fold r in Hr.
  unfold runs_count. destruct (filter _ (events r)) as [|e l] eqn:E; auto.
  assert (Hin : In e (filter (fun e => match e with ERun f' c' _ => Nat.eqb f f' && N.eqb c c' | _ => false end)
                             (events r))) by (rewrite E; now left).
  apply filter_In in Hin. destruct Hin as [Hin Hp]. destruct e as [|f' c' v]; [discriminate|].
  apply andb_true_iff in Hp. destruct Hp as [Hf _]. apply Nat.eqb_eq in Hf. subst f'.
  specialize (Hr _ _ _ Hin). congruence.
Qed.

(* ---------- 3. composed futures complete in chain order ---------- *)

Section Chain.
  Variable C : list (fid * ucb * fid).           (* the ThenCompose calls: (f, user function, out) *)
  Hypothesis C_unique : forall f u f' u' o, In (f, u, o) C -> In (f', u', o) C -> f = f' /\ u = u'.
  Hypothesis C_completing : forall f g add o f' u', In (f, UCompleting g add, o) C -> ~ In (f', u', g) C.

  Definition frame_ok (V : fid -> option N) (fr : frame) : Prop :=
    match fr with
    | FAccept f' (CCompose u o) => In (f', u, o) C
    | FAccept g' (CForward o) => exists f u, In (f, u, o) C /\ g' = inner u /\ V f <> None
    | FAccept _ (CLog _) => True
    | FComplete o w => forall f u, In (f, u, o) C -> V f <> None /\ V (inner u) = Some w
    | FRun f' (CCompose u o) v => In (f', u, o) C /\ V f' = Some v
    | FRun g' (CForward o) w =>
        exists f u, In (f, u, o) C /\ g' = inner u /\ V f <> None /\ V g' = Some w
    | FRun _ (CLog _) _ => True
    | FUnlock _ => True
    end.

  Definition cb_ok (V : fid -> option N) (f' : fid) (k : cb) : Prop :=
    match k with
    | CCompose u o => In (f', u, o) C
    | CForward o => exists f u, In (f, u, o) C /\ f' = inner u /\ V f <> None
    | CLog _ => True
    end.

  Definition vle (V V' : fid -> option N) : Prop := forall f v, V f = Some v -> V' f = Some v.

  Lemma vle_nn V V' f : vle V V' -> V f <> None -> V' f <> None.
  Proof. intros H Hn. destruct (V f) as [v|] eqn:E; [|congruence]. rewrite (H _ _ E). discriminate. Qed.

  Lemma frame_ok_mono V V' fr : vle V V' -> frame_ok V fr -> frame_ok V' fr.
  Proof.
    intros Hle. destruct fr as [f k|f v|f k v|f]; simpl; auto.
    - destruct k; auto. intros (f0 & u & Hin & E & Hn). exists f0, u. repeat split; auto.
      eapply vle_nn; eauto.
    - intros H f0 u Hin. destruct (H f0 u Hin) as [Hn Hv]. split; [eapply vle_nn; eauto|auto].
    - destruct k; auto.
      + intros [Hin Hv]. split; auto.
      + intros (f0 & u & Hin & E & Hn & Hv). exists f0, u. repeat split; auto.
        eapply vle_nn; eauto.
  Qed.

  Lemma cb_ok_mono V V' f k : vle V V' -> cb_ok V f k -> cb_ok V' f k.
  Proof.
    intros Hle. destruct k; simpl; auto.
    intros (f0 & u & Hin & E & Hn). exists f0, u. repeat split; auto. eapply vle_nn; eauto.
  Qed.

  Definition chain_inv (s : state) : Prop :=
    (forall fr, In fr (frames s) -> frame_ok (val s) fr)
    /\ (forall f k, In k (cbs_of s f) -> cb_ok (val s) f k).

  (* a completion of an out future happens only when its source and its inner future are
     completed, and with the inner future's value *)
  Definition set_justified (s : state) (ev : list event) : Prop :=
    forall o w, In (ESet o w) ev ->
      forall f u, In (f, u, o) C -> val s f <> None /\ val s (inner u) = Some w.

  Lemma step_chain t s s' ev :
    step_kind t s s' ev -> chain_inv s -> chain_inv s' /\ set_justified s ev.
  Proof.
    intros H [HF HK].
    assert (Hle : vle (val s) (val s')) by (intros f v; eapply step_val_mono; eauto).
    assert (Htop : forall fr rest, nth_error (stacks s) t = Some (fr :: rest) -> frame_ok (val s) fr)
      by (intros fr rest Hst; eapply HF, frames_top; eauto).
    assert (Hrest : forall fr rest x, nth_error (stacks s) t = Some (fr :: rest) -> In x rest ->
                    frame_ok (val s') x)
      by (intros fr rest x Hst Hx; eapply frame_ok_mono, HF, frames_rest; eauto).
    assert (Hold : forall x, In x (frames s) -> frame_ok (val s') x)
      by (intros x Hx; eapply frame_ok_mono, HF; eauto).
    assert (HKold : forall f k, In k (cbs_of s f) -> cb_ok (val s') f k)
      by (intros f k Hk; eapply cb_ok_mono, HK; eauto).
    (* frames of s' are: new frames of thread t, or old frames *)
    assert (Hfr : forall old new s1, nth_error (stacks s1) t = Some old -> frames s1 = frames s ->
                  forall x, In x (frames (set_stack s1 t new)) -> In x new \/ In x (frames s)).
    { intros old new s1 Hst Hfs x Hx. eapply frames_set_stack_in in Hx; eauto. now rewrite Hfs in Hx. }
    destruct H.
    - (* idle *) split; [split; auto|]. intros o w [].
    - (* accept on a completed future *)
      pose proof (Htop _ _ H) as Ht.
      assert (Hv : val s f = Some v) by (unfold value_of; now rewrite H0).
      set (s1 := set_fut s f (mkFut (value fu) (cbs fu) true)) in *.
      set (V' := val (set_stack s1 t (FRun f k v :: FUnlock f :: rest))) in *.
      split; [split|intros o w []].
      + intros fr Hin. eapply (Hfr _ _ s1) in Hin; [|exact H|reflexivity].
        destruct Hin as [Hin|Hin]; [|auto].
        destruct Hin as [<-|[<-|Hin]]; [|exact I|eapply Hrest; eauto].
        destruct k as [c|u o|o]; simpl; [exact I| |].
        * split; [exact Ht|apply Hle, Hv].
        * simpl in Ht. destruct Ht as (f0 & u & Hin & E & Hn). exists f0, u.
          split; [exact Hin|]. split; [exact E|]. split; [eapply vle_nn; eauto|apply Hle, Hv].
      + intros f1 k1 Hk. apply HKold.
        change (In k1 (cbs_of s1 f1)) in Hk. unfold s1 in Hk.
        now rewrite (cbs_set_fut_keep _ _ _ _ _ H0) in Hk.
    - (* accept on a pending future: the closure joins f.callback *)
      pose proof (Htop _ _ H) as Ht.
      set (s1 := set_fut s f (mkFut None (cbs fu ++ [k]) false)) in *.
      set (V' := val (set_stack s1 t rest)) in *.
      split; [split|intros o w []].
      + intros fr Hin. eapply (Hfr _ _ s1) in Hin; [|exact H|reflexivity].
        destruct Hin as [Hin|Hin]; [eapply Hrest; eauto|auto].
      + intros f1 k1 Hk. change (In k1 (cbs_of s1 f1)) in Hk. unfold s1 in Hk.
        destruct (Nat.eq_dec f f1) as [<-|Hn].
        * rewrite (cbs_set_fut_same _ _ _ _ H0) in Hk. simpl in Hk.
          apply in_app_or in Hk. destruct Hk as [Hk|[<-|[]]].
          -- apply HKold. unfold cbs_of. now rewrite H0.
          -- destruct k as [c|u o|o]; simpl; [exact I|exact Ht|].
             simpl in Ht. destruct Ht as (f0 & u & Hin & E & Hn0). exists f0, u. repeat split; auto.
             eapply vle_nn; eauto.
        * rewrite cbs_set_fut_other in Hk by auto. now apply HKold.
    - (* complete on a completed future *)
      split; [split; auto|intros o w' []].
      intros fr Hin. eapply (Hfr _ _ s) in Hin; [|exact H|reflexivity].
      destruct Hin as [Hin|Hin]; [eapply Hrest; eauto|auto].
    - (* completion takes effect *)
      pose proof (Htop _ _ H) as Ht. simpl in Ht.
      set (s1 := set_fut s f (mkFut (Some v) (cbs fu) true)) in *.
      set (new := map (fun k => FRun f k v) (cbs fu) ++ FUnlock f :: rest) in *.
      assert (Hv : val (set_stack s1 t new) f = Some v)
        by (rewrite val_set_stack; unfold s1; now rewrite (val_set_fut_same _ _ _ _ H0)).
      set (V' := val (set_stack s1 t new)) in *.
      split; [split|].
      + intros fr Hin. eapply (Hfr _ _ s1) in Hin; [|exact H|reflexivity].
        destruct Hin as [Hin|Hin]; [|auto].
        unfold new in Hin. apply in_app_or in Hin.
        destruct Hin as [Hin|[<-|Hin]]; [|exact I|eapply Hrest; eauto].
        apply in_map_iff in Hin. destruct Hin as [k [<- Hk]].
        assert (Hk0 : cb_ok (val s) f k) by (apply HK; unfold cbs_of; now rewrite H0).
        destruct k as [c|u o|o]; simpl; [exact I| |].
        * split; [exact Hk0|exact Hv].
        * simpl in Hk0. destruct Hk0 as (f0 & u & Hin & E & Hn). exists f0, u. repeat split; auto.
          eapply vle_nn; eauto.
      + intros f1 k1 Hk. change (In k1 (cbs_of s1 f1)) in Hk. unfold s1 in Hk.
        apply HKold. destruct (Nat.eq_dec f f1) as [<-|Hn].
        * rewrite (cbs_set_fut_same _ _ _ _ H0) in Hk. unfold cbs_of. now rewrite H0.
        * now rewrite cbs_set_fut_other in Hk by auto.
      + intros o w [E|[]]. inversion E; subst. exact Ht.
    - (* a log callback runs *)
      split; [split; auto|intros o w [E|[]]; discriminate].
      intros fr Hin. eapply (Hfr _ _ s) in Hin; [|exact H|reflexivity].
      destruct Hin as [Hin|Hin]; [eapply Hrest; eauto|auto].
    - (* ThenCompose's closure runs on f: calls the user function, registers the forwarder *)
      pose proof (Htop _ _ H) as Ht. simpl in Ht. destruct Ht as [HinC Hv].
      set (V' := val (set_stack s t (compose_frames u out v ++ rest))) in *.
      assert (Hnn : V' f <> None) by (eapply vle_nn; [exact Hle|rewrite Hv; discriminate]).
      split; [split; auto|intros o w []].
      intros fr Hin. eapply (Hfr _ _ s) in Hin; [|exact H|reflexivity].
      destruct Hin as [Hin|Hin]; [|auto].
      apply in_app_or in Hin. destruct Hin as [Hin|Hin]; [|eapply Hrest; eauto].
      destruct u as [g|g add]; simpl in Hin.
      + destruct Hin as [<-|[]]. simpl. exists f, (UExisting g). auto.
      + destruct Hin as [<-|[<-|[]]]; simpl.
        * intros f0 u0 Hin0. exfalso. eapply C_completing; eauto.
        * exists f, (UCompleting g add). auto.
    - (* the forwarder runs on the inner future: out.Complete(value) *)
      pose proof (Htop _ _ H) as Ht. simpl in Ht. destruct Ht as (f0 & u & HinC & E & Hn & Hv).
      set (V' := val (set_stack s t (FComplete out v :: rest))) in *.
      split; [split; auto|intros o w []].
      intros fr Hin. eapply (Hfr _ _ s) in Hin; [|exact H|reflexivity].
      destruct Hin as [[<-|Hin]|Hin]; [|eapply Hrest; eauto|auto].
      simpl. intros f1 u1 Hin1. destruct (C_unique _ _ _ _ _ HinC Hin1) as [-> ->].
      subst f. split; [eapply vle_nn; eauto|apply Hle, Hv].
    - (* unlock *)
      set (s1 := set_fut s f (mkFut (value fu) (cbs fu) false)) in *.
      split; [split|intros o w []].
      + intros fr Hin. eapply (Hfr _ _ s1) in Hin; [|exact H|reflexivity].
        destruct Hin as [Hin|Hin]; [eapply Hrest; eauto|auto].
      + intros f1 k1 Hk. change (In k1 (cbs_of s1 f1)) in Hk. unfold s1 in Hk.
        rewrite (cbs_set_fut_keep _ _ _ _ _ H0) in Hk. now apply HKold.
    - split; [split; auto|intros o w []].
      intros fr Hin. eapply (Hfr _ _ s) in Hin; [|exact H|reflexivity].
      destruct Hin as [Hin|Hin]; [eapply Hrest; eauto|auto].
  Qed.

  (* trace form: an out future's completion event comes after its source's and its inner
     future's, and carries the inner future's value *)
  Definition chain_trace (evs : list event) : Prop :=
    forall n o w, nth_error evs n = Some (ESet o w) ->
      forall f u, In (f, u, o) C ->
        (exists m v, m < n /\ nth_error evs m = Some (ESet f v))
        /\ (exists m, m < n /\ nth_error evs m = Some (ESet (inner u) w)).

  Lemma sets_in f v evs : In v (sets f evs) -> In (ESet f v) evs.
  Proof.
    unfold completions. intros H. apply in_flat_map in H. destruct H as [e [He Hv]].
    destruct e as [f' v'|]; [|destruct Hv].
    destruct (Nat.eqb_spec f f') as [->|]; [|destruct Hv]. destruct Hv as [->|[]]. exact He.
  Qed.

  Lemma set_before s evs f v :
    sets_agree s evs -> val s f = Some v -> exists m, m < length evs /\ nth_error evs m = Some (ESet f v).
  Proof.
    intros Ha Hv. specialize (Ha f). rewrite Hv in Ha.
    assert (Hin : In (ESet f v) evs) by (apply sets_in; rewrite Ha; now left).
    apply In_nth_error in Hin. destruct Hin as [m Hm]. exists m. split; auto.
    apply nth_error_Some. congruence.
  Qed.

  Lemma step_chain_trace t s s' ev evs :
    step_kind t s s' ev -> sets_agree s evs -> set_justified s ev ->
    chain_trace evs -> chain_trace (evs ++ ev).
  Proof.
    intros H Ha Hj Hc n o w Hn f u HinC.
    destruct (Nat.lt_ge_cases n (length evs)) as [Hlt|Hge].
    - rewrite nth_error_app1 in Hn by auto.
      destruct (Hc n o w Hn f u HinC) as [(m & v & Hm & Em) (m' & Hm' & Em')].
      split.
      + exists m, v. split; auto. rewrite nth_error_app1 by lia. auto.
      + exists m'. split; auto. rewrite nth_error_app1 by lia. auto.
    - rewrite nth_error_app2 in Hn by auto.
      assert (Hin : In (ESet o w) ev) by (eapply nth_error_In; eauto).
      destruct (Hj o w Hin f u HinC) as [Hnn Hv].
      destruct (val s f) as [v|] eqn:Ef; [|congruence].
      destruct (set_before _ _ _ _ Ha Ef) as (m & Hm & Em).
      destruct (set_before _ _ _ _ Ha Hv) as (m' & Hm' & Em').
      split.
      + exists m, v. split; [lia|]. rewrite nth_error_app1 by lia. auto.
      + exists m'. split; [lia|]. rewrite nth_error_app1 by lia. auto.
  Qed.

  Definition good_chain (s : state) (evs : list event) : Prop :=
    sets_agree s evs /\ chain_inv s /\ chain_trace evs.

  Lemma good_chain_tick t s evs :
    good_chain s evs -> good_chain (fst (tick t s)) (evs ++ snd (tick t s)).
  Proof.
    intros (Ha & Hi & Hc). pose proof (tick_step t s) as Hs.
    destruct (step_chain _ _ _ _ Hs Hi) as [Hi' Hj].
    split; [eapply step_sets_agree; eauto|]. split; [exact Hi'|].
    eapply step_chain_trace; eauto.
  Qed.
End Chain.

Lemma nodup_snd_unique {A B} (l : list (A * B)) a a' b :
  NoDup (map snd l) -> In (a, b) l -> In (a', b) l -> a = a'.
Proof.
  induction l as [|[x y] l IH]; simpl; intros Hnd H1 H2; [destruct H1|].
  inversion Hnd as [|? ? Hnot Hnd']; subst.
  destruct H1 as [E1|H1], H2 as [E2|H2].
  - congruence.
  - inversion E1; subst. exfalso. apply Hnot. apply in_map_iff. exists (a', b). auto.
  - inversion E2; subst. exfalso. apply Hnot. apply in_map_iff. exists (a, b). auto.
  - eauto.
Qed.

Lemma in_composes progs f u o :
  In (f, u, o) (composes progs) <-> In (ThenCompose f u o) (concat progs).
Proof.
  unfold composes. rewrite in_flat_map. split.
  - intros [x [Hx Hin]]. destruct x; simpl in Hin; try tauto.
    destruct Hin as [E|[]]. inversion E; subst. exact Hx.
  - intros H. exists (ThenCompose f u o). split; auto. now left.
Qed.

(* programs in which the futures returned by ThenCompose are completed by nobody else *)
Definition wf_progs (progs : list (list op)) : Prop :=
  NoDup (outs progs)
  /\ (forall f v, In (Complete f v) (concat progs) -> ~ In f (outs progs))
  /\ (forall f g add o, In (ThenCompose f (UCompleting g add) o) (concat progs) -> ~ In g (outs progs)).

Lemma chain_order_all nfut progs ts sched :
  ticks_only ts -> wf_progs progs ->
  let evs := events (run ts sched (init nfut progs)) in
  forall f u out, In (ThenCompose f u out) (concat progs) ->
  forall n w, nth_error evs n = Some (ESet out w) ->
    (exists m v, m < n /\ nth_error evs m = Some (ESet f v))
    /\ (exists m, m < n /\ nth_error evs m = Some (ESet (inner u) w)).
Proof.
  intros Ht (Hnd & Hcomp & Hucomp) evs f u out Hin n w Hn.
  set (C := composes progs).
  assert (Cu : forall f u f' u' o, In (f, u, o) C -> In (f', u', o) C -> f = f' /\ u = u').
  { intros f1 u1 f2 u2 o H1 H2.
    assert (E : (f1, u1) = (f2, u2)) by (eapply nodup_snd_unique; eauto). now inversion E. }
  assert (Cc : forall f g add o f' u', In (f, UCompleting g add, o) C -> ~ In (f', u', g) C).
  { intros f1 g add o f2 u2 H1 H2. apply in_composes in H1.
    apply (Hucomp _ _ _ _ H1). unfold outs. apply in_map_iff. exists (f2, u2, g). auto. }
  assert (G : good_chain C (final_state (run ts sched (init nfut progs)))
                         (events (run ts sched (init nfut progs)))).
  { apply (trace_inv_all_schedules (good_chain C) ts) with (evs0 := []).
    - intros a Ha s evs0 Hg. destruct (Ht a Ha) as [t ->]. now apply good_chain_tick.
    - split; [|split; [split|]].
      + intros f0. now rewrite val_init.
      + intros fr Hfr. rewrite frames_init in Hfr. apply in_map_iff in Hfr.
        destruct Hfr as [o [<- Ho]]. destruct o as [f0 c|f0 v|f0 u0 o0]; simpl; auto.
        * intros f1 u1 H1. exfalso. apply (Hcomp _ _ Ho). unfold outs.
          apply in_map_iff. exists (f1, u1, f0). auto.
        * apply in_composes. exact Ho.
      + intros f0 k Hk. rewrite cbs_init in Hk. destruct Hk.
      + intros k0 o w0 Hk0. destruct k0; discriminate. }
  destruct G as (_ & _ & Hc). apply (Hc n out w Hn f u). apply in_composes. exact Hin.
Qed.

(* ---------- 4. re-entrancy: outside the property, recorded as a fact of the model ---------- *)

(* a goroutine whose next frame needs the mutex of a future it locked itself (the unlock is
   further down its own stack) can never move: [tick] leaves the state unchanged *)
Lemma reentrant_no_progress t s f rest fu fr :
  nth_error (stacks s) t = Some (fr :: rest) ->
  (exists k, fr = FAccept f k) \/ (exists v, fr = FComplete f v) ->
  In (FUnlock f) rest ->
  nth_error (heap s) f = Some fu -> locked fu = true ->
  tick t s = (s, []).
Proof.
  intros Hst Hfr _ Hf Hl. unfold tick. rewrite Hst.
  destruct Hfr as [[k ->]|[v ->]]; now rewrite Hf, Hl.
Qed.

(* ThenCompose(f, func(v) { return f }) followed by f.Complete(v): the closure calls
   f.ThenAccept while f.Complete holds f.mu.  The call hangs after the value was set. *)
Example reentrant_stuck_example :
  let '(s1, r1) := call (init 2 []) (ThenCompose 0 (UExisting 0) 1) in
  let '(s2, r2) := call s1 (Complete 0 7%N) in
  r1 = ([], Done) /\ r2 = ([ESet 0 7%N], Stuck)
  /\ blocked 1 s2 = true /\ tick 1 s2 = (s2, []).
Proof. vm_compute. repeat split; reflexivity. Qed.

Lemma chain_of_two_all nfut progs ts sched :
  ticks_only ts -> wf_progs progs ->
  let evs := events (run ts sched (init nfut progs)) in
  forall f0 u1 f1 u2 f2,
  In (ThenCompose f0 u1 f1) (concat progs) -> In (ThenCompose f1 u2 f2) (concat progs) ->
  forall n2 w2, nth_error evs n2 = Some (ESet f2 w2) ->
    exists n1 w1 n0 w0, n0 < n1 /\ n1 < n2
      /\ nth_error evs n1 = Some (ESet f1 w1) /\ nth_error evs n0 = Some (ESet f0 w0).
Proof.
  intros Ht Hwf evs f0 u1 f1 u2 f2 H1 H2 n2 w2 Hn2.
  destruct (chain_order_all nfut progs ts sched Ht Hwf _ _ _ H2 _ _ Hn2) as [(n1 & w1 & Hlt1 & E1) _].
  destruct (chain_order_all nfut progs ts sched Ht Hwf _ _ _ H1 _ _ E1) as [(n0 & w0 & Hlt0 & E0) _].
  exists n1, w1, n0, w0. auto.
Qed.

(* ---------- non-vacuity: concrete programs ---------- *)

Definition nv_progs : list (list op) :=
  [[ThenAccept 0 1%N; Complete 0 5%N]; [Complete 0 6%N; ThenAccept 0 2%N]].

Definition nv_check : bool :=
  let outs_ := outcomes [repeat (tick 0) 6; repeat (tick 1) 6] (init 1 nv_progs) in
  forallb (fun r =>
     let s := final_state r in let evs := events r in
     (runs_count 0 1%N evs <=? 1) && (runs_count 0 2%N evs <=? 1) && (length (completions 0 evs) <=? 1)
     && (negb (quiescent s)
         || ((runs_count 0 1%N evs =? 1) && (runs_count 0 2%N evs =? 1)
             && (length (completions 0 evs) =? 1)))) outs_
  && existsb (fun r => quiescent (final_state r)) outs_
  && (length outs_ =? 924).

Lemma nv_check_ok : nv_check = true.
Proof. vm_compute. reflexivity. Qed.

Definition chain_progs : list (list op) :=
  [[ThenCompose 0 (UExisting 1) 2; ThenCompose 2 (UCompleting 3 10%N) 4; Complete 1 7%N];
   [Complete 0 3%N]].

Lemma chain_example_ok :
  (NoDup (outs chain_progs)
   /\ (forall f v, In (Complete f v) (concat chain_progs) -> ~ In f (outs chain_progs))
   /\ (forall f g add o, In (ThenCompose f (UCompleting g add) o) (concat chain_progs) ->
       ~ In g (outs chain_progs)))
  /\ events (run [repeat (tick 0) 6; repeat (tick 1) 20] (repeat 0 6 ++ repeat 1 20) (init 5 chain_progs))
     = [ESet 1 7%N; ESet 0 3%N; ESet 2 7%N; ESet 3 17%N; ESet 4 17%N].
Proof.
  split; [|vm_compute; reflexivity].
  change (outs chain_progs) with [2; 4]. split; [|split].
  - repeat constructor; simpl; intuition discriminate.
  - simpl. intros f v H Hin.
    destruct H as [H|[H|[H|[H|[]]]]]; try discriminate; inversion H; subst;
      destruct Hin as [E|[E|[]]]; discriminate.
  - simpl. intros f g add o H Hin.
    destruct H as [H|[H|[H|[H|[]]]]]; try discriminate; inversion H; subst;
      destruct Hin as [E|[E|[]]]; discriminate.
Qed.
