(* C27 - the theorems about [spec_run] = [impl_run] (the handlers as they are now, written in the
   lock language) and the refutations for [old_run] (the legacy handlers BEFORE fix commit c3c83c0). *)
From Coq Require Import List Arith NArith Bool Lia ZifyN ZifyNat ZifyBool.
From Verif Require Import Model.ResourcePack Proofs.C27_Lang Proofs.C27_Legacy Proofs.C27_Modern.
Import ListNotations.
Open Scope N_scope.

Definition is_legacy (proto : N) : bool :=
  match family_of proto with Modern => false | _ => true end.

(* today's code is what the property demands *)
Lemma impl_is_spec_proof proto hb h : impl_run proto hb h = spec_run proto hb h.
Proof. reflexivity. Qed.

(* spec_run is the pure run *)
Lemma spec_run_legacy proto hb h :
  is_legacy proto = true ->
  spec_run proto hb h = run_lpure (env_of proto hb) spec_cfg (l_init spec_cfg) h.
Proof.
  unfold is_legacy, spec_run, run_handler, run_legacy. intros L.
  destruct (family_of proto); try discriminate L; apply run_legacy_pure.
Qed.

Lemma spec_run_modern proto hb h :
  is_legacy proto = false ->
  spec_run proto hb h = run_mpure (env_of proto hb) m_init h.
Proof.
  unfold is_legacy, spec_run, run_handler, run_modern. intros L.
  destruct (family_of proto); try discriminate L. apply run_modern_pure.
Qed.

Lemma has_be_env proto hb : has_be (env_of proto hb) = hb.
Proof. reflexivity. Qed.

(* ---------- never stuck ---------- *)

Lemma all_return_sound l : forall h t,
  all_return l h t = true ->
  length t = length h /\ Forall (fun x => s_ret x <> RStuck /\ s_ret x <> ROutOfFuel /\ s_ret x <> RErr) t.
Proof.
  induction h as [|o r IH]; intros t H.
  - destruct t; [split; [reflexivity|constructor]|discriminate H].
  - destruct t as [|x t]; [discriminate H|].
    cbn [all_return] in H. apply andb_true_iff in H. destruct H as [H1 H2].
    destruct (IH _ H2) as [L F]. split; [cbn; rewrite L; reflexivity|].
    constructor; [|exact F].
    destruct (s_ret x); try discriminate H1; repeat split; discriminate.
Qed.

Lemma spec_all_return proto hb h : all_return (is_legacy proto) h (spec_run proto hb h) = true.
Proof.
  destruct (is_legacy proto) eqn:L.
  - rewrite spec_run_legacy by exact L. apply all_return_gen. reflexivity.
  - rewrite spec_run_modern by exact L. apply m_all_return_gen.
Qed.

Lemma never_stuck_proof proto hb h :
  length (spec_run proto hb h) = length h /\
  Forall (fun x => s_ret x <> RStuck /\ s_ret x <> ROutOfFuel /\ s_ret x <> RErr) (spec_run proto hb h).
Proof. eapply all_return_sound. apply spec_all_return. Qed.

(* the only panic of the repaired handlers is Remove on a legacy client *)
Lemma panic_only_remove_proof proto hb : forall h k x,
  nth_error (spec_run proto hb h) k = Some x -> s_ret x = RPanic ->
  is_legacy proto = true /\ exists id, nth_error h k = Some (Remove id).
Proof.
  intros h. pose proof (spec_all_return proto hb h) as A.
  revert A. generalize (spec_run proto hb h). induction h as [|o r IH]; intros t A k x N P.
  - destruct t; [destruct k; discriminate N|discriminate A].
  - destruct t as [|y t]; [discriminate A|].
    cbn [all_return] in A. apply andb_true_iff in A. destruct A as [A1 A2].
    destruct k as [|k].
    + cbn [nth_error] in N. inversion N; subst y. rewrite P in A1.
      destruct o; try discriminate A1. split; [exact A1|]. eexists. reflexivity.
    + cbn [nth_error] in N |- *. eapply IH; eassumption.
Qed.

(* ---------- legacy families ---------- *)

Lemma single_outstanding_proof proto hb h :
  is_legacy proto = true -> Forall (fun c => c <= 1) (outstanding 0 h (spec_run proto hb h)).
Proof. intros L. rewrite spec_run_legacy by exact L. apply single_outstanding_gen. apply Inv_init. Qed.

Lemma fifo_prompts_proof proto hb h :
  is_legacy proto = true -> increasing (prompt_uids (all_events (spec_run proto hb h))) = true.
Proof.
  intros L. rewrite spec_run_legacy by exact L. eapply inc_from_increasing.
  apply fifo_gen. apply FInv_init.
Qed.

Lemma auto_decline_proof proto hb h k x p :
  is_legacy proto = true ->
  nth_error (spec_run proto hb h) k = Some x -> In (GAuto p) (s_events x) ->
  last_decision None (firstn (S k) h) = Some false /\ (force p && (755 <=? proto) = false).
Proof.
  intros L. rewrite spec_run_legacy by exact L. intros N I.
  exact (autos_gen (env_of proto hb) spec_cfg eq_refl h (l_init spec_cfg) k x p N I).
Qed.

Lemma idle_prompted_proof proto hb h :
  is_legacy proto = true ->
  idle_queue_prompted (env_of proto hb) 0 None h (spec_run proto hb h) = true.
Proof.
  intros L. rewrite spec_run_legacy by exact L.
  exact (idle_gen (env_of proto hb) spec_cfg eq_refl h (l_init spec_cfg) 0 (Inv_init spec_cfg)).
Qed.

(* ---------- all families ---------- *)

Lemma report_proof proto hb h :
  Forall (fun x => reports (s_events x) = flat_map (expected_report hb) (s_events x)) (spec_run proto hb h).
Proof.
  destruct (is_legacy proto) eqn:L.
  - rewrite spec_run_legacy by exact L. exact (rep_ok_gen (env_of proto hb) spec_cfg h (l_init spec_cfg)).
  - rewrite spec_run_modern by exact L. exact (m_rep_ok_gen (env_of proto hb) h m_init).
Qed.

Lemma unhandled_proof proto hb h : unhandled_reported hb h (spec_run proto hb h) = true.
Proof.
  destruct (is_legacy proto) eqn:L.
  - rewrite spec_run_legacy by exact L. exact (unhandled_gen (env_of proto hb) spec_cfg h (l_init spec_cfg)).
  - rewrite spec_run_modern by exact L. exact (m_unhandled_gen (env_of proto hb) h m_init).
Qed.

(* ---------- modern ---------- *)

Lemma per_id_proof proto hb h id :
  is_legacy proto = false -> Forall (fun c => c <= 1) (outstanding_id id 0 h (spec_run proto hb h)).
Proof.
  intros L. rewrite spec_run_modern by exact L.
  exact (per_id_gen (env_of proto hb) id h m_init MInv_init).
Qed.

(* ---------- the predicate the judge evaluates holds for spec_run ---------- *)

Lemma forallb_Forall_leb l : Forall (fun c => c <= 1) l -> forallb (fun c => c <=? 1) l = true.
Proof. induction 1 as [|x l H _ IH]; [reflexivity|]. cbn. rewrite IH, andb_true_r. apply N.leb_le. exact H. Qed.

Lemma spec_holds_P_proof proto hb h : holds_P proto hb h (spec_run proto hb h) = true.
Proof.
  unfold holds_P. pose proof (spec_all_return proto hb h) as A. unfold is_legacy in *.
  destruct (family_of proto) eqn:F.
  - rewrite A, (forallb_Forall_leb _ (single_outstanding_proof proto hb h ltac:(unfold is_legacy; rewrite F; reflexivity))).
    rewrite fifo_prompts_proof by (unfold is_legacy; rewrite F; reflexivity).
    rewrite idle_prompted_proof by (unfold is_legacy; rewrite F; reflexivity).
    rewrite unhandled_proof. reflexivity.
  - rewrite A, (forallb_Forall_leb _ (single_outstanding_proof proto hb h ltac:(unfold is_legacy; rewrite F; reflexivity))).
    rewrite fifo_prompts_proof by (unfold is_legacy; rewrite F; reflexivity).
    rewrite idle_prompted_proof by (unfold is_legacy; rewrite F; reflexivity).
    rewrite unhandled_proof. reflexivity.
  - rewrite A, unhandled_proof, andb_true_r. cbn [andb].
    assert (RG : removed_gone h (spec_run proto hb h) = true).
    { rewrite spec_run_modern by (unfold is_legacy; rewrite F; reflexivity). apply m_removed_gone_gen. }
    rewrite RG, andb_true_r.
    apply forallb_forall. intros id _. apply forallb_Forall_leb.
    apply per_id_proof. unfold is_legacy. rewrite F. reflexivity.
Qed.

(* ---------- refutations for the PRE-FIX legacy handlers (before c3c83c0) ---------- *)

(* every first QueueResourcePack on a client below 1.20.3 deadlocks on its own lock *)
Lemma old_first_queue_stuck proto hb id hash f be :
  is_legacy proto = true -> old_run proto hb [Queue id hash f be] = [mkStep [] RStuck [] []].
Proof.
  unfold is_legacy, old_run, run_handler. destruct (family_of proto); intros L; try discriminate L; reflexivity.
Qed.

(* a response while nothing is queued panics *)
Lemma old_response_panics proto hb b :
  is_legacy proto = true -> old_run proto hb [Response b] = [mkStep [] RPanic [] []].
Proof.
  unfold is_legacy, old_run, run_handler. destruct (family_of proto); intros L; try discriminate L; reflexivity.
Qed.

Lemma never_stuck_refuted_proof :
  exists proto hb h, In RStuck (map s_ret (old_run proto hb h)).
Proof. exists 754, true, [Queue 1 0 false false]. vm_compute. left. reflexivity. Qed.

(* with the locking repaired but prevResourceResponse still a bool that starts false, the first
   pack is declined on the client's behalf although the client never declined anything *)
Lemma auto_decline_refuted_proof :
  exists proto hb h k x p,
    nth_error (run_handler CurrentNesting (mkCfg false true) proto hb h) k = Some x /\
    In (GAuto p) (s_events x) /\ last_decision None (firstn (S k) h) <> Some false.
Proof.
  exists 754, true, [Queue 1 0 false true], 0%nat.
  eexists. eexists. split; [vm_compute; reflexivity|]. split; [left; reflexivity|]. vm_compute. discriminate.
Qed.

(* off the triggers (no queue, no response) the pre-fix handlers and today's agree *)
Definition quiet (o : op) : bool := match o with Clear | Remove _ => true | _ => false end.

Lemma clear_exec n e c l s :
  l_exec n e c Clear (mkW l s []) =
  match l with
  | Free => Done RUnit (mkW Free (mkL (l_next s) (l_prev s) (l_queue s) (l_pending s) None) [])
  | _ => Stuck (mkW l s [])
  end.
Proof. destruct n, l; reflexivity. Qed.

Lemma remove_exec n e c id l s : l_exec n e c (Remove id) (mkW l s []) = Panicked (mkW l s []).
Proof. destruct n; reflexivity. Qed.

Lemma quiet_agree e c1 c2 : forall h l s1 s2,
  forallb quiet h = true -> l_applied s1 = l_applied s2 -> l_pending s1 = l_pending s2 ->
  run_lang (l_exec OldNesting e c1) l_papp l_ppend l s1 h =
  run_lang (l_exec CurrentNesting e c2) l_papp l_ppend l s2 h.
Proof.
  induction h as [|o r IH]; intros l s1 s2 Q A P; [reflexivity|].
  cbn [forallb] in Q. apply andb_true_iff in Q. destruct Q as [Q1 Q2].
  destruct o as [| |id|]; try discriminate Q1.
  - cbn [run_lang]. rewrite !remove_exec. cbn [lk st evs].
    unfold l_papp, l_ppend. rewrite A, P. f_equal. apply IH; assumption.
  - cbn [run_lang]. rewrite !clear_exec. destruct l; cbn [lk st evs]; try reflexivity.
    unfold l_papp, l_ppend. cbn [l_applied l_pending]. rewrite P. f_equal. apply IH; [exact Q2|reflexivity|reflexivity].
Qed.

Lemma old_eq_spec_off_trigger_proof proto hb h :
  forallb quiet h = true -> old_run proto hb h = spec_run proto hb h.
Proof.
  intros Q. unfold old_run, spec_run, run_handler, run_legacy.
  destruct (family_of proto); try reflexivity; apply quiet_agree; try assumption; reflexivity.
Qed.

Lemma old_eq_spec_modern_proof proto hb h :
  is_legacy proto = false -> old_run proto hb h = spec_run proto hb h.
Proof.
  unfold is_legacy, old_run, spec_run, run_handler. destruct (family_of proto); intros L; try discriminate L. reflexivity.
Qed.

(* ---------- non-vacuity ---------- *)

Definition h_demo : list op :=
  [Queue 1 1 false true; Queue 2 0 false false; Queue 3 0 true true;
   Response (mkBundle 1 1 Accepted); Response (mkBundle 1 1 Declined);
   Response (mkBundle 0 0 Successful); Clear].

(* on a 1.20.2 client the decline of the first pack makes tick decline the second (not forced) on the
   client's behalf and prompt the third (forced) *)
Example demo_auto_decline :
  exists x p, nth_error (spec_run 764 true h_demo) 4 = Some x /\ In (GAuto p) (s_events x) /\ uid p = 1 /\
              prompt_uids (s_events x) = [2].
Proof. eexists. eexists. split; [vm_compute; reflexivity|]. split; [left; reflexivity|]. split; reflexivity. Qed.

Example demo_modern_swap :
  prompt_uids (all_events (spec_run 765 true
     [Queue 1 0 false true; Queue 1 0 false true; Queue 1 0 false true;
      Response (mkBundle 1 0 Successful); Response (mkBundle 1 0 Successful)])) = [0; 2; 1].
Proof. vm_compute. reflexivity. Qed.
