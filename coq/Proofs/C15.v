(* C15 - proofs about the relay model (Model/Relay.v). *)
From Coq Require Import List NArith ZArith Bool Lia.
From Verif Require Import Base.Hex Base.VarInt Model.Relay.
Import ListNotations.
Open Scope N_scope.

(* ---------- payload level: what HandlePacket does to a stream ---------- *)

Lemma relay_tagged_app t h a b :
  relay_tagged t h (a ++ b) = relay_tagged t h a ++ relay_tagged t h b.
Proof. unfold relay_tagged. apply flat_map_app. Qed.

Lemma relay_tagged_all_pass t h ps :
  Forall (fun p => pass_throughb t p = true) ps ->
  relay_tagged t h ps = map (pair Fwd) ps.
Proof.
  induction 1 as [|p ps Hp _ IH]; [reflexivity|].
  cbn [relay_tagged flat_map map]. fold (relay_tagged t h ps).
  unfold relay_one. rewrite Hp, IH. reflexivity.
Qed.

Lemma relay_payloads_id t h ps :
  Forall (fun p => pass_throughb t p = true) ps ->
  relay_payloads t h ps = ps.
Proof.
  intros H. unfold relay_payloads. rewrite relay_tagged_all_pass by assumption.
  rewrite map_map. cbn [snd]. apply map_id.
Qed.

Lemma filter_own_nil (l : list bytes) : filter is_fwd (map (pair Own) l) = [].
Proof. induction l as [|x l IH]; [reflexivity|]. cbn. exact IH. Qed.

(* whatever the handlers of intercepted packets write, the forwarded packets are exactly the
   pass-through packets, untouched and in their original relative order *)
Lemma relay_forwarded_subsequence t h ps :
  map snd (filter is_fwd (relay_tagged t h ps)) = filter (pass_throughb t) ps.
Proof.
  induction ps as [|p ps IH]; [reflexivity|].
  cbn [relay_tagged flat_map]. fold (relay_tagged t h ps).
  rewrite filter_app, map_app, IH. unfold relay_one.
  cbn [filter]. destruct (pass_throughb t p).
  - reflexivity.
  - rewrite filter_own_nil. reflexivity.
Qed.

(* nothing the proxy writes on its own is ever tagged Fwd, nothing forwarded is tagged Own *)
Lemma relay_tagged_fwd_in t h ps p :
  In (Fwd, p) (relay_tagged t h ps) -> In p ps /\ pass_throughb t p = true.
Proof.
  unfold relay_tagged. rewrite in_flat_map. intros [q [Hq Hin]].
  unfold relay_one in Hin. destruct (pass_throughb t q) eqn:E.
  - destruct Hin as [Hin|[]]. inversion Hin; subst. auto.
  - apply in_map_iff in Hin. destruct Hin as [x [Hx _]]. discriminate.
Qed.

(* unknown ids are pass-through *)
Lemma unknown_id_pass t p id :
  packet_id p = Some id -> lookup id t = None -> pass_throughb t p = true.
Proof. intros H1 H2. unfold pass_throughb, classify. rewrite H1, H2. reflexivity. Qed.

Lemma forward_kind_pass t p id :
  packet_id p = Some id -> lookup id t = Some KForward -> pass_throughb t p = true.
Proof. intros H1 H2. unfold pass_throughb, classify. rewrite H1, H2. reflexivity. Qed.

Lemma intercepted_not_pass t p id :
  packet_id p = Some id -> lookup id t = Some KIntercept -> pass_throughb t p = false.
Proof. intros H1 H2. unfold pass_throughb, classify. rewrite H1, H2. reflexivity. Qed.

(* ---------- wire level: composition with the frame codec of the two sides ---------- *)

Section Wire.
  Variable encode_stream : Z -> list bytes -> bytes.
  Variable decode_stream : Z -> list bytes -> list bytes.
  (* which payloads the frame codec carries (C01: non-empty, starts with a VarInt, below the caps) *)
  Variable valid : bytes -> Prop.

  (* the frame round trip, for every threshold and every way the byte stream is cut into reads:
     C01's statement, here a premise *)
  Hypothesis frame_roundtrip :
    forall t ps chunks,
      Forall valid ps -> concat chunks = encode_stream t ps -> decode_stream t chunks = ps.

  Theorem relay_identity :
    forall (t : table) (h : bytes -> list bytes) (ta tb : Z) (ps : list bytes) (chunks_a chunks_b : list bytes),
      Forall valid ps ->
      Forall (fun p => pass_throughb t p = true) ps ->
      concat chunks_a = encode_stream ta ps ->
      concat chunks_b = relay encode_stream decode_stream t h ta tb chunks_a ->
      decode_stream tb chunks_b = ps.
  Proof.
    intros t h ta tb ps ca cb Hv Hp Ha Hb.
    unfold relay in Hb.
    rewrite (frame_roundtrip ta ps ca Hv Ha) in Hb.
    rewrite relay_payloads_id in Hb by assumption.
    exact (frame_roundtrip tb ps cb Hv Hb).
  Qed.

  Theorem relay_order :
    forall (t : table) (h : bytes -> list bytes) (ta tb : Z) (ps : list bytes) (chunks_a chunks_b : list bytes),
      Forall valid ps ->
      Forall valid (relay_payloads t h ps) ->
      concat chunks_a = encode_stream ta ps ->
      concat chunks_b = relay encode_stream decode_stream t h ta tb chunks_a ->
      exists out : list (origin * bytes),
        decode_stream tb chunks_b = map snd out /\
        map snd (filter is_fwd out) = filter (pass_throughb t) ps.
  Proof.
    intros t h ta tb ps ca cb Hv Hv' Ha Hb.
    exists (relay_tagged t h ps). split.
    - unfold relay in Hb.
      rewrite (frame_roundtrip ta ps ca Hv Ha) in Hb.
      exact (frame_roundtrip tb _ cb Hv' Hb).
    - apply relay_forwarded_subsequence.
  Qed.
End Wire.

(* ---------- non-vacuity: a concrete codec satisfies the premise ---------- *)

Definition toy_valid (p : bytes) : Prop := (length p < 128)%nat.

Lemma toy_fuel ps : forall f t,
  (length ps <= f)%nat -> toy_decode_fuel f (toy_encode t ps) = ps.
Proof.
  induction ps as [|p ps IH]; intros f t Hf.
  - destruct f; reflexivity.
  - destruct f as [|f]; [cbn in Hf; lia|].
    cbn [toy_encode flat_map]. fold (toy_encode t ps).
    cbn [app toy_decode_fuel]. rewrite Nat2N.id.
    rewrite firstn_app, Nat.sub_diag, firstn_all, firstn_O, app_nil_r.
    rewrite skipn_app, Nat.sub_diag, skipn_all, skipn_O. cbn [app].
    rewrite IH by (cbn in Hf; lia). reflexivity.
Qed.

Lemma toy_len ps t : (length ps <= length (toy_encode t ps))%nat.
Proof.
  induction ps as [|p ps IH]; [cbn; lia|].
  cbn [toy_encode flat_map]. fold (toy_encode t ps).
  cbn [app length]. rewrite app_length. cbn [length]. lia.
Qed.

Lemma toy_roundtrip :
  forall t ps chunks,
    Forall toy_valid ps -> concat chunks = toy_encode t ps -> toy_decode t chunks = ps.
Proof.
  intros t ps chunks _ H. unfold toy_decode. rewrite H. apply toy_fuel, toy_len.
Qed.

(* a concrete stream: an unknown id (0x7e), a forward-as-is KeepAlive (0x21) and, for the order
   statement, an intercepted plugin message (0x17) in between *)
Definition ex_table : table := [(0x21, KForward); (0x17, KIntercept); (0x0f, KDrop)].
Definition ex_ps : list bytes := [[0x7e; 1; 2; 3]; [0x21; 0; 0; 0; 0; 0; 0; 0; 9]; [0xfe; 0x01; 7]].
Definition ex_mixed : list bytes := [[0x7e; 1]; [0x17; 5; 5]; [0x0f; 4]; [0x21; 8]].

Lemma ex_ps_pass : Forall (fun p => pass_throughb ex_table p = true) ex_ps.
Proof. repeat constructor. Qed.

Lemma ex_ps_valid : Forall toy_valid ex_ps.
Proof. repeat constructor; unfold toy_valid; cbn; lia. Qed.

Lemma ex_relay :
  toy_decode 256 [relay toy_encode toy_decode ex_table (fun _ => []) (-1) 256 [toy_encode (-1) ex_ps]] = ex_ps.
Proof. vm_compute. reflexivity. Qed.

Lemma ex_mixed_order :
  relay_payloads ex_table (fun p => [[0x63]; p]) ex_mixed
    = [[0x7e; 1]; [0x63]; [0x17; 5; 5]; [0x63]; [0x0f; 4]; [0x21; 8]]
  /\ filter (pass_throughb ex_table) ex_mixed = [[0x7e; 1]; [0x21; 8]].
Proof. vm_compute. split; reflexivity. Qed.
