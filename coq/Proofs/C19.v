(* C19 — host-first part: the first NUL-separated part of the backend handshake address. *)
From Coq Require Import List NArith ZArith Bool Arith Lia.
From Verif Require Import Base.Hex Base.Text Model.TryList Model.HandshakeAddr Proofs.C17.
Import ListNotations.
Open Scope N_scope.

(* ---------- split_nul / cut_nul ---------- *)

Lemma split_nul_nonempty s : split_nul s <> [].
Proof.
  induction s as [|c r IH]; simpl; [discriminate|].
  destruct (c =? 0); [discriminate|]. destruct (split_nul r); [contradiction | discriminate].
Qed.

Lemma first_part_split s : nth 0 (split_nul s) [] = first_part s.
Proof.
  unfold first_part. induction s as [|c r IH]; simpl; [reflexivity|].
  destruct (c =? 0); [reflexivity|].
  pose proof (split_nul_nonempty r) as Hne.
  destruct (split_nul r) as [|p ps]; [contradiction|]. simpl in *. rewrite IH. reflexivity.
Qed.

Lemma cut_nul_app_nul_any a t : cut_nul (a ++ 0 :: t) = cut_nul a.
Proof.
  induction a as [|c a IH]; simpl; [reflexivity|].
  destruct (c =? 0); [reflexivity | rewrite IH; reflexivity].
Qed.

Lemma cut_nul_no_nul a : forallb (fun b => negb (b =? 0)) (cut_nul a) = true.
Proof.
  induction a as [|c a IH]; simpl; [reflexivity|].
  destruct (c =? 0) eqn:E; [reflexivity|]. simpl. rewrite E, IH. reflexivity.
Qed.

Lemma cut_nul_idem a : cut_nul (cut_nul a) = cut_nul a.
Proof.
  induction a as [|c a IH]; simpl; [reflexivity|].
  destruct (c =? 0) eqn:E; [reflexivity|]. simpl. rewrite E, IH. reflexivity.
Qed.

Lemma first_part_app_nul a t : first_part (a ++ 0 :: t) = first_part a.
Proof. apply cut_nul_app_nul_any. Qed.

Lemma first_part_base ct v : first_part (base_host ct v) = first_part v.
Proof. destruct ct; simpl; [reflexivity | apply cut_nul_idem | apply cut_nul_idem]. Qed.

(* ---------- the Modern Forge token always starts with NUL ---------- *)

Lemma modern_token_scan_nul parts z : exists t, modern_token_scan parts z = 0 :: t.
Proof.
  revert z. induction parts as [|pt r IH]; intro z; cbn [modern_token_scan].
  - destruct (z =? 0)%Z; eexists; reflexivity.
  - destruct (has_prefix t_FML2 pt || has_prefix t_FML3 pt); [eexists; reflexivity|].
    destruct (has_prefix t_FORGE pt); [|apply IH].
    destruct (Nat.ltb 5 (length pt)); apply IH.
Qed.

Lemma modern_token_nul h : exists t, modern_token h = 0 :: t.
Proof.
  unfold modern_token. destruct (has 0 h); [apply modern_token_scan_nul | eexists; reflexivity].
Qed.

(* ---------- host first ---------- *)

Section HostFirst.
  Variable ha : option (bytes -> bytes).
  Variable ba : option (bytes -> option bytes).
  (* the hooks are arbitrary user code; the premise is that they themselves keep the host first *)
  Hypothesis ha_keeps : forall f x, ha = Some f -> first_part (f x) = first_part x.
  Hypothesis ba_keeps : forall g x y, ba = Some g -> g x = Some y -> first_part y = first_part x.

  Theorem host_first_thm pj fw ct c vhost r :
    used_forwarding ha fw = false ->
    handshake_addr ha ba pj fw ct c vhost = Some r ->
    first_part r = first_part vhost.
  Proof.
    intros Hu H. unfold handshake_addr in H. rewrite Hu in H.
    set (v1 := match ha with Some f => f vhost | None => vhost end) in *.
    assert (Hv1 : first_part v1 = first_part vhost).
    { unfold v1. destruct ha as [f|] eqn:E; [apply (ha_keeps f vhost eq_refl) | reflexivity]. }
    destruct (match ba with Some g => g (base_host ct v1) | None => Some v1 end) as [v2|] eqn:E2;
      [|discriminate].
    assert (Hv2 : first_part v2 = first_part vhost).
    { destruct ba as [g|] eqn:Eb.
      - rewrite (ba_keeps g _ _ eq_refl E2). rewrite first_part_base. exact Hv1.
      - inversion E2; subst. exact Hv1. }
    inversion H; subst. destruct ct.
    - exact Hv2.
    - change (v2 ++ 0 :: t_FML ++ [0]) with (v2 ++ 0 :: (t_FML ++ [0])).
      rewrite first_part_app_nul. exact Hv2.
    - destruct (modern_token_nul v1) as [t ->].
      rewrite first_part_app_nul. unfold first_part, base_host in *. rewrite cut_nul_idem. exact Hv2.
  Qed.

  (* the whole of startHandshake: the host is the player's virtual host (netutil.Host of it), or the
     backend's own host when that is empty *)
  Corollary server_address_host_first pj fw ct c r :
    used_forwarding ha fw = false ->
    server_address ha ba pj fw ct c = Some r ->
    nth 0 (split_nul r) [] = nth 0 (split_nul (player_vhost c)) [].
  Proof.
    intros Hu H. rewrite !first_part_split. exact (host_first_thm pj fw ct c _ r Hu H).
  Qed.
End HostFirst.

(* without hooks nothing can fail *)
Lemma no_hooks_total pj fw ct c vhost :
  exists r, handshake_addr None None pj fw ct c vhost = Some r.
Proof.
  unfold handshake_addr. destruct (used_forwarding None fw); eexists; reflexivity.
Qed.

(* the client's handshake address A arrives as A ++ ":port"; when A has no colon or bracket the host
   handed to handshakeAddr is A itself (NUL parts and Forge markers included) *)
Lemma host_str_port a port :
  has 58 a = false -> has 91 a = false -> has 93 a = false ->
  forallb is_digit port = true ->
  host_str (a ++ 58 :: port) = a.
Proof.
  intros Hc Hl Hr Hd.
  destruct (Proofs.C17.digit_props port Hd) as (_ & _ & Dc & Dl & Dr & _).
  unfold host_str, split_host_port.
  rewrite (Proofs.C17.last_index_of_app 58 a port Dc).
  assert (H0 : (nth 0 (a ++ 58 :: port) 0 =? 91) = false).
  { destruct a as [|x a]; [reflexivity|]. simpl. apply (Proofs.C17.nth0_plain_not_lbr (x :: a) Hl). }
  rewrite H0, Proofs.C17.firstn_app_exact, Hc, !Proofs.C17.has_app, Hl, Hr. simpl.
  rewrite Dl, Dr. reflexivity.
Qed.
