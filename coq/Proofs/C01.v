(* C01 — proofs: CFB8 inversion for every block function, chunking independence of io.ReadFull,
   the chunked/encrypted reader equals the flat decoder, frame and stream round trip. *)
From Coq Require Import List NArith ZArith Bool Lia ZifyN ZifyNat ZifyBool.
From Verif Require Import Base.Hex Base.VarInt Model.Codec.
Import ListNotations.
Open Scope N_scope.
Ltac Zify.zify_post_hook ::= Z.div_mod_to_equations.

(* ---------- VarInt: signed view ---------- *)

Lemma i32_u32 v : (-2147483648 <= v < 2147483648)%Z -> i32 (u32 v) = v.
Proof.
  intros H. unfold i32, u32.
  destruct (Z.ltb_spec v 0) as [Hn|Hp].
  - assert (E : (v mod 4294967296 = v + 4294967296)%Z) by lia.
    rewrite E. replace (Z.to_N (v + 4294967296) <? 2147483648) with false by lia. lia.
  - rewrite Z.mod_small by lia.
    replace (Z.to_N v <? 2147483648) with true by lia. lia.
Qed.

Lemma u32_lt v : u32 v < 2 ^ 32.
Proof. unfold u32. change (2 ^ 32) with 4294967296. lia. Qed.

Lemma read_write_varint v rest : (-2147483648 <= v < 2147483648)%Z ->
  read_varint (write_varint v ++ rest) = VVal v (len (write_varint v)) rest.
Proof.
  intros H. unfold read_varint, write_varint.
  rewrite varint_roundtrip by apply u32_lt. rewrite i32_u32 by exact H. reflexivity.
Qed.

Lemma len_app a b : len (a ++ b) = len a + len b.
Proof. unfold len. rewrite app_length. lia. Qed.

Lemma firstn_len_app (a b : bytes) : firstn (N.to_nat (len a)) (a ++ b) = a.
Proof.
  unfold len. rewrite Nat2N.id. rewrite firstn_app, Nat.sub_diag, firstn_all. cbn. apply app_nil_r.
Qed.

Lemma firstn_len (a : bytes) : firstn (N.to_nat (len a)) a = a.
Proof. unfold len. rewrite Nat2N.id. apply firstn_all. Qed.

Lemma skipn_len_app (a b : bytes) : skipn (N.to_nat (len a)) (a ++ b) = b.
Proof.
  unfold len. rewrite Nat2N.id. rewrite skipn_app, Nat.sub_diag, skipn_all. reflexivity.
Qed.

(* ---------- CFB8 ---------- *)

Section Cipher.
  Variable E : bytes -> bytes.

  Lemma lxor_cancel x k : N.lxor (N.lxor x k) k = x.
  Proof. rewrite N.lxor_assoc, N.lxor_nilpotent, N.lxor_0_r. reflexivity. Qed.

  Lemma cfb8_inverse_reg : forall p reg, cfb8_dec E reg (cfb8_enc E reg p) = p.
  Proof.
    induction p as [|x p IH]; intro reg; cbn [cfb8_enc cfb8_dec]; [reflexivity|].
    rewrite lxor_cancel, IH. reflexivity.
  Qed.

  Lemma cfb8_dec_app : forall a b reg,
    cfb8_dec E reg (a ++ b) = cfb8_dec E reg a ++ cfb8_dec E (cfb8_adv reg a) b.
  Proof.
    induction a as [|y a IH]; intros b reg; cbn [app cfb8_dec cfb8_adv]; [reflexivity|].
    rewrite IH. reflexivity.
  Qed.

  (* the writer may hand the stream to the cipher in any pieces (one Write per VarInt byte, per body ...) *)
  Lemma cfb8_enc_app : forall a b reg,
    cfb8_enc E reg (a ++ b) = cfb8_enc E reg a ++ cfb8_enc E (cfb8_adv reg (cfb8_enc E reg a)) b.
  Proof.
    induction a as [|x a IH]; intros b reg; cbn [app cfb8_enc cfb8_adv]; [reflexivity|].
    rewrite IH. reflexivity.
  Qed.

  Lemma cfb8_dec_length : forall c reg, length (cfb8_dec E reg c) = length c.
  Proof. induction c as [|y c IH]; intro reg; cbn [cfb8_dec length]; [reflexivity|]. rewrite IH. reflexivity. Qed.

  Lemma cfb8_enc_length : forall p reg, length (cfb8_enc E reg p) = length p.
  Proof. induction p as [|x p IH]; intro reg; cbn [cfb8_enc length]; [reflexivity|]. rewrite IH. reflexivity. Qed.

  Lemma cfb8_adv_app : forall a b reg, cfb8_adv reg (a ++ b) = cfb8_adv (cfb8_adv reg a) b.
  Proof. induction a as [|y a IH]; intros b reg; cbn [app cfb8_adv]; [reflexivity|]. apply IH. Qed.
End Cipher.

(* ---------- io.ReadFull over chunks ---------- *)

Lemma read_full_spec : forall cs n,
  match read_full cs n with
  | Some (b, cs') => b = firstn n (concat cs) /\ concat cs' = skipn n (concat cs) /\ (n <= length (concat cs))%nat
  | None => (length (concat cs) < n)%nat
  end.
Proof.
  induction cs as [|ch r IH]; intros [|n]; cbn [read_full concat].
  - cbn. auto.
  - cbn. lia.
  - cbn. split; [reflexivity|split; [reflexivity|lia]].
  - destruct (Nat.ltb_spec (length ch) (S n)) as [Hlt|Hge].
    + specialize (IH (S n - length ch)%nat).
      destruct (read_full r (S n - length ch)) as [[b r']|].
      * destruct IH as (Hb & Hr & Hl). rewrite app_length.
        split; [|split].
        -- rewrite firstn_app, (firstn_all2 ch) by lia. rewrite Hb. reflexivity.
        -- rewrite skipn_app, (skipn_all2 ch) by lia. cbn [app]. exact Hr.
        -- lia.
      * rewrite app_length. lia.
    + rewrite app_length. split; [|split].
      * rewrite firstn_app. replace (S n - length ch)%nat with O by lia. cbn [firstn]. rewrite app_nil_r. reflexivity.
      * cbn [concat]. rewrite skipn_app. replace (S n - length ch)%nat with O by lia. reflexivity.
      * lia.
Qed.

(* chunking independence: io.ReadFull sees the stream, not the chunks *)
Definition flat_view (r : option (bytes * list bytes)) : option (bytes * bytes) :=
  match r with Some (b, cs) => Some (b, concat cs) | None => None end.

Lemma read_full_chunks_eq : forall cs n s, concat cs = s ->
  flat_view (read_full cs n) = flat_view (read_full [s] n).
Proof.
  intros cs n s <-.
  pose proof (read_full_spec cs n) as H1. pose proof (read_full_spec [concat cs] n) as H2.
  cbn [concat] in H2. rewrite app_nil_r in H2.
  destruct (read_full cs n) as [[b1 r1]|], (read_full [concat cs] n) as [[b2 r2]|]; cbn [flat_view].
  - destruct H1 as (-> & -> & _), H2 as (-> & -> & _). reflexivity.
  - lia.
  - lia.
  - reflexivity.
Qed.

(* ---------- the chunked, optionally decrypting reader against the flat plaintext ---------- *)

Section Reader.
  Variable inflate : bytes -> zres.
  Variable lazy_close_ok : bytes -> N -> bool.
  Variable E : bytes -> bytes.

  (* the plaintext still in front of the reader *)
  Definition plain (r : reader) : bytes :=
    match r_reg r with
    | None => concat (r_chunks r)
    | Some reg => cfb8_dec E reg (concat (r_chunks r))
    end.

  Lemma rd_read_spec r n :
    match rd_read E r n with
    | Some (b, r') => b = firstn n (plain r) /\ plain r' = skipn n (plain r) /\ (n <= length (plain r))%nat
    | None => (length (plain r) < n)%nat
    end.
  Proof.
    unfold rd_read, plain. pose proof (read_full_spec (r_chunks r) n) as H.
    destruct (read_full (r_chunks r) n) as [[b cs']|].
    - destruct H as (Hb & Hr & Hl). destruct (r_reg r) as [reg|]; cbn [r_reg r_chunks].
      + rewrite <- (firstn_skipn n (concat (r_chunks r))) at 1 2 3.
        rewrite <- Hb, <- Hr. rewrite cfb8_dec_app.
        assert (Hlen : length (cfb8_dec E reg b) = n).
        { rewrite cfb8_dec_length, Hb, firstn_length. lia. }
        split; [|split].
        * rewrite firstn_app, firstn_all2 by lia. replace (n - length (cfb8_dec E reg b))%nat with O by lia.
          cbn [firstn]. rewrite app_nil_r. reflexivity.
        * rewrite skipn_app, skipn_all2 by lia. replace (n - length (cfb8_dec E reg b))%nat with O by lia.
          reflexivity.
        * rewrite app_length. lia.
      + auto.
    - destruct (r_reg r); [rewrite cfb8_dec_length|]; exact H.
  Qed.

  (* the plain-reader loop of ReadVarIntReturnN equals the ByteReader loop (Base/VarInt.dec) on the plaintext *)
  Definition vrel (a : rvres) (b : vres) : Prop :=
    match a, b with
    | RVal v r', VVal v' _ rest => v = v' /\ plain r' = rest
    | RShort, VShort => True
    | RTooBig, VTooBig => True
    | _, _ => False
    end.

  Definition vres_of (x : res (N * N * bytes)) : vres :=
    match x with
    | Ok (u, n, r) => VVal (i32 u) n r
    | Err ErrShort => VShort
    | Err ErrTooBig => VTooBig
    end.

  Lemma rd_varint_fuel_flat : forall f i acc r,
    vrel (rd_varint_fuel E f i acc r) (vres_of (dec_fuel f i acc (plain r))).
  Proof.
    induction f as [|f IH]; intros i acc r; cbn [rd_varint_fuel dec_fuel]; [exact I|].
    pose proof (rd_read_spec r 1) as H.
    destruct (rd_read E r 1) as [[b r']|].
    - destruct H as (Hb & Hr & Hl).
      destruct (plain r) as [|x rest] eqn:Ep; [cbn in Hl; lia|].
      cbn [firstn skipn] in Hb, Hr. subst b.
      destruct (5 <=? i); [exact I|].
      destruct (N.land x 128 =? 0).
      + cbn. split; [reflexivity|exact Hr].
      + specialize (IH (i + 1) (N.lor acc (N.shiftl (N.land x 127) (7 * i) mod 2 ^ 32)) r').
        rewrite Hr in IH. exact IH.
    - destruct (plain r) as [|x rest]; [exact I|cbn in H; lia].
  Qed.

  Lemma rd_varint_flat r : vrel (rd_varint E r) (read_varint (plain r)).
  Proof. exact (rd_varint_fuel_flat 6 0 0 r). Qed.

  (* relation between a result over the reader and a result over the flat plaintext *)
  Definition frel (a : rres) (b : fres) : Prop :=
    match a, b with
    | ROk p r', FOk p' rest => p = p' /\ plain r' = rest
    | RErr e, FErr e' => e = e'
    | RNeedMore, FNeedMore => True
    | _, _ => False
    end.

  Lemma rd_frame_flat f1 f2 c r :
    frel (rd_frame inflate lazy_close_ok E f1 f2 c r)
         (snd (decode_frame_with inflate lazy_close_ok read_varint f1 f2 c (plain r))).
  Proof.
    unfold rd_frame, decode_frame_with.
    pose proof (rd_varint_flat r) as Hv.
    destruct (rd_varint E r) as [l r1| |], (read_varint (plain r)) as [l' n rest| |]; cbn [vrel] in Hv; try contradiction;
      try exact I; try reflexivity.
    destruct Hv as (<- & Hr1).
    destruct (l =? 0)%Z; [cbn; split; [reflexivity|exact Hr1]|].
    destruct ((l <? 0)%Z || (MAXFRAME <? l)%Z) eqn:Hb; [reflexivity|].
    apply orb_false_iff in Hb. destruct Hb as (Hb1 & Hb2).
    pose proof (rd_read_spec r1 (Z.to_nat l)) as Hrd. rewrite Hr1 in Hrd.
    replace (N.to_nat (Z.to_N l)) with (Z.to_nat l) by lia.
    destruct (rd_read E r1 (Z.to_nat l)) as [[body r2]|].
    - destruct Hrd as (Hbody & Hr2 & Hl).
      replace (len rest <? Z.to_N l) with false by (unfold len; lia).
      rewrite <- Hbody.
      destruct (payload_of inflate lazy_close_ok f1 f2 c body) as [a [p|e]]; cbn [snd frel].
      + split; [reflexivity|exact Hr2].
      + reflexivity.
    - replace (len rest <? Z.to_N l) with true by (unfold len; lia). exact I.
  Qed.

  Lemma rd_packet_fuel_flat f1 f2 : forall fuel retries c r,
    frel (rd_packet_fuel inflate lazy_close_ok E f1 f2 fuel retries c r)
         (snd (read_packet_with (decode_frame_with inflate lazy_close_ok read_varint f1 f2) fuel retries c (plain r))).
  Proof.
    induction fuel as [|fuel IH]; intros retries c r; cbn [rd_packet_fuel read_packet_with]; [reflexivity|].
    pose proof (rd_frame_flat f1 f2 c r) as Hf.
    destruct (rd_frame inflate lazy_close_ok E f1 f2 c r) as [p r'|e|],
             (decode_frame_with inflate lazy_close_ok read_varint f1 f2 c (plain r)) as [a [p' rest|e'|]];
      cbn [snd frel] in Hf; try contradiction; try exact I.
    - destruct Hf as (<- & Hr'). destruct p as [|x p].
      + destruct (10 <? retries); [reflexivity|].
        specialize (IH (retries + 1) c r'). rewrite Hr' in IH.
        destruct (read_packet_with _ fuel (retries + 1) c rest) as [a' res]. exact IH.
      + destruct (read_varint (x :: p)); cbn; try reflexivity. split; [reflexivity|exact Hr'].
    - cbn. exact Hf.
  Qed.

  Lemma rd_stream_fuel_flat f1 f2 : forall fuel c r,
    rd_stream_fuel inflate lazy_close_ok E f1 f2 fuel c r =
    decode_stream_with (decode_frame_with inflate lazy_close_ok read_varint f1 f2) fuel c (plain r).
  Proof.
    induction fuel as [|fuel IH]; intros c r; cbn [rd_stream_fuel decode_stream_with]; [reflexivity|].
    pose proof (rd_packet_fuel_flat f1 f2 12 0 c r) as Hp. unfold rd_packet, read_packet.
    destruct (rd_packet_fuel inflate lazy_close_ok E f1 f2 12 0 c r) as [p r'|e|],
             (read_packet_with _ 12 0 c (plain r)) as [a [p' rest|e'|]]; cbn [snd frel] in Hp; try contradiction.
    - destruct Hp as (<- & Hr'). rewrite IH, Hr'. reflexivity.
    - subst. reflexivity.
    - reflexivity.
  Qed.
End Reader.

(* ---------- frame and stream round trip on the flat plaintext ---------- *)

Section RoundTrip.
  Variable deflate : Z -> bytes -> bytes.
  Variable inflate : bytes -> zres.
  Variable lazy_close_ok : bytes -> N -> bool.
  (* zlib premise (DESIGN 5.3): inflating what the writer deflated gives the payload back, cleanly *)
  Hypothesis inflate_deflate : forall l p, inflate (deflate l p) = mkz p true.

  Notation frame := (frame deflate).
  Notation frames := (frames deflate).
  Notation impl := (impl_decode_frame inflate lazy_close_ok).

  Lemma starts_nonempty p : starts_with_id p = true -> p <> [].
  Proof. intros H ->. discriminate H. Qed.

  Lemma len_pos p : p <> [] -> 0 < len p.
  Proof. destruct p; [congruence|]. intros _. unfold len. cbn [length]. lia. Qed.

  Lemma cap_lt d : (cap d < 2147483648)%Z.
  Proof. destruct d; cbn; lia. Qed.

  Lemma frame_roundtrip t lvl d p rest :
    starts_with_id p = true -> fitsb deflate t lvl d p = true ->
    snd (impl (mkcfg t d) (frame t lvl p ++ rest)) = FOk p rest.
  Proof.
    intros Hid Hfit. pose proof (len_pos p (starts_nonempty p Hid)) as Hpos.
    unfold fitsb in Hfit. unfold Codec.frame, impl_decode_frame, decode_frame_with.
    unfold MAXFRAME in *.
    destruct (Z.ltb_spec t 0) as [Ht|Ht].
    - (* compression off *)
      apply Z.leb_le in Hfit.
      rewrite <- app_assoc, read_write_varint by lia.
      replace (Z.of_N (len p) =? 0)%Z with false by lia.
      replace ((Z.of_N (len p) <? 0)%Z || (2097151 <? Z.of_N (len p))%Z) with false by lia.
      rewrite N2Z.id, len_app.
      replace (len p + len rest <? len p) with false by lia.
      rewrite firstn_len_app, skipn_len_app.
      unfold payload_of. cbn [c_thr]. replace (t <? 0)%Z with true by lia. reflexivity.
    - destruct (Z.ltb_spec (Z.of_N (len p)) t) as [Hlt|Hge].
      + (* below the threshold: length+1, 0x00, payload *)
        apply Z.leb_le in Hfit.
        rewrite <- !app_assoc, read_write_varint by lia.
        replace (Z.of_N (len p) + 1 =? 0)%Z with false by lia.
        replace ((Z.of_N (len p) + 1 <? 0)%Z || (2097151 <? Z.of_N (len p) + 1)%Z) with false by lia.
        change (write_varint 0) with [0]. cbn [app].
        replace (Z.to_N (Z.of_N (len p) + 1)) with (len (0 :: p)) by (unfold len; cbn [length]; lia).
        change (0 :: p ++ rest) with ((0 :: p) ++ rest).
        rewrite len_app. replace (len (0 :: p) + len rest <? len (0 :: p)) with false by lia.
        rewrite firstn_len_app, skipn_len_app.
        unfold payload_of. cbn [c_thr]. replace (t <? 0)%Z with false by lia.
        change (read_varint (0 :: p)) with (VVal 0%Z 1 p). cbn [andb Z.ltb Z.leb Z.compare].
        destruct false; cbn [andb].
        * replace (t <? Z.of_N (len p))%Z with false by lia. reflexivity.
        * replace (t <? Z.of_N (len p))%Z with false by lia. reflexivity.
      + (* compressed *)
        apply andb_true_iff in Hfit. destruct Hfit as (Hf1 & Hf2).
        apply Z.leb_le in Hf1. apply Z.leb_le in Hf2. pose proof (cap_lt d) as Hc.
        set (z := write_varint (Z.of_N (len p)) ++ deflate lvl p) in *.
        rewrite <- app_assoc, read_write_varint by lia.
        assert (Hz : 0 < len z).
        { unfold z. rewrite len_app. unfold write_varint, enc. cbn [enc_fuel].
          destruct (u32 (Z.of_N (len p)) <? 128); unfold len; cbn [length]; lia. }
        replace (Z.of_N (len z) =? 0)%Z with false by lia.
        replace ((Z.of_N (len z) <? 0)%Z || (2097151 <? Z.of_N (len z))%Z) with false by lia.
        rewrite N2Z.id, len_app. replace (len z + len rest <? len z) with false by lia.
        rewrite firstn_len_app, skipn_len_app.
        unfold payload_of. cbn [c_thr c_dir]. replace (t <? 0)%Z with false by lia.
        unfold z. rewrite read_write_varint by lia.
        replace (Z.of_N (len p) <? 0)%Z with false by lia. rewrite andb_false_r.
        replace (Z.of_N (len p) <=? 0)%Z with false by lia.
        replace (Z.of_N (len p) <? t)%Z with false by lia.
        replace (cap d <? Z.of_N (len p))%Z with false by lia.
        unfold inflate_claimed. rewrite inflate_deflate. cbn [z_out z_clean orb].
        rewrite N2Z.id, N.eqb_refl. reflexivity.
  Qed.

  Notation premises t lvl d := (fun p => starts_with_id p = true /\ fitsb deflate t lvl d p = true).

  Lemma read_packet_roundtrip t lvl d p rest :
    starts_with_id p = true -> fitsb deflate t lvl d p = true ->
    snd (read_packet impl (mkcfg t d) (frame t lvl p ++ rest)) = FOk p rest.
  Proof.
    intros Hid Hfit. pose proof (frame_roundtrip t lvl d p rest Hid Hfit) as H.
    unfold read_packet. cbn [read_packet_with].
    destruct (impl (mkcfg t d) (frame t lvl p ++ rest)) as [a r]. cbn [snd] in H. subst r.
    destruct p as [|x p]; [discriminate Hid|].
    unfold starts_with_id in Hid. destruct (read_varint (x :: p)); try discriminate. reflexivity.
  Qed.

  Lemma write_varint_nonempty v : write_varint v <> [].
  Proof. unfold write_varint, enc. cbn [enc_fuel]. destruct (u32 v <? 128); discriminate. Qed.

  Lemma frame_nonempty t lvl p : (1 <= length (frame t lvl p))%nat.
  Proof.
    unfold Codec.frame.
    destruct (t <? 0)%Z; [|destruct (Z.of_N (len p) <? t)%Z];
      match goal with |- context [write_varint ?v ++ ?r] =>
        pose proof (write_varint_nonempty v); destruct (write_varint v); [congruence|cbn [app length]; lia] end.
  Qed.

  Lemma frames_length t lvl ps : (length ps <= length (frames t lvl ps))%nat.
  Proof.
    induction ps as [|p ps IH]; [cbn; lia|].
    unfold Codec.frames in *. cbn [flat_map]. rewrite app_length. pose proof (frame_nonempty t lvl p). cbn [length]. lia.
  Qed.

  Lemma stream_roundtrip_flat t lvl d : forall ps fuel,
    (length ps < fuel)%nat -> Forall (premises t lvl d) ps ->
    decode_stream_with impl fuel (mkcfg t d) (frames t lvl ps) = (ps, TNeedMore).
  Proof.
    induction ps as [|p ps IH]; intros fuel Hfuel Hall; (destruct fuel as [|fuel]; [cbn in Hfuel; lia|]).
    - reflexivity.
    - inversion Hall as [|? ? (Hid & Hfit) Hall']; subst.
      cbn [decode_stream_with]. unfold Codec.frames. cbn [flat_map]. fold (frames t lvl ps).
      rewrite read_packet_roundtrip by assumption.
      rewrite IH; [reflexivity| cbn [length] in Hfuel; lia | assumption].
  Qed.

  (* the decoder's own frame guard is necessary: a frame body above 2^21-1 is written but rejected *)
  Lemma oversize_frame_rejected t lvl d p rest :
    (0 <= t)%Z -> (t <= Z.of_N (len p))%Z ->
    (MAXFRAME < Z.of_N (len (write_varint (Z.of_N (len p)) ++ deflate lvl p)) < 2147483648)%Z ->
    snd (impl (mkcfg t d) (frame t lvl p ++ rest)) = FErr EFrameTooLarge.
  Proof.
    intros Ht Hp Hz. unfold Codec.frame, impl_decode_frame, decode_frame_with, MAXFRAME in *.
    replace (t <? 0)%Z with false by lia. replace (Z.of_N (len p) <? t)%Z with false by lia.
    set (z := write_varint (Z.of_N (len p)) ++ deflate lvl p) in *.
    rewrite <- app_assoc, read_write_varint by lia.
    replace (Z.of_N (len z) =? 0)%Z with false by lia.
    replace ((Z.of_N (len z) <? 0)%Z || (2097151 <? Z.of_N (len z))%Z) with true by lia. reflexivity.
  Qed.

  (* what happens to the empty payload (outside Write's contract): without compression it is an empty frame,
     which the reader skips; under threshold 0 the writer compresses it with claimed size 0 and the reader
     takes the body for an uncompressed payload longer than the threshold *)
  Lemma empty_payload_plain t lvl d rest : (t < 0)%Z ->
    snd (impl (mkcfg t d) (frame t lvl [] ++ rest)) = FOk [] rest.
  Proof.
    intros Ht. unfold Codec.frame, impl_decode_frame, decode_frame_with.
    replace (t <? 0)%Z with true by lia. reflexivity.
  Qed.

  Lemma empty_payload_threshold0 lvl d rest :
    deflate lvl [] <> [] -> (Z.of_N (len (deflate lvl [])) < MAXFRAME)%Z ->
    snd (impl (mkcfg 0 d) (frame 0 lvl [] ++ rest)) = FErr EOverThreshold.
  Proof.
    intros Hne Hsz. unfold Codec.frame, impl_decode_frame, decode_frame_with, MAXFRAME in *.
    cbn [Z.ltb Z.compare len length N.of_nat Z.of_N].
    change (write_varint 0) with [0].
    set (z := [0] ++ deflate lvl []).
    assert (Hz : len z = 1 + len (deflate lvl [])) by (unfold z; rewrite len_app; reflexivity).
    pose proof (len_pos _ Hne) as Hpos.
    rewrite <- app_assoc, read_write_varint by lia.
    replace (Z.of_N (len z) =? 0)%Z with false by lia.
    replace ((Z.of_N (len z) <? 0)%Z || (2097151 <? Z.of_N (len z))%Z) with false by lia.
    rewrite N2Z.id, len_app. replace (len z + len rest <? len z) with false by lia.
    rewrite firstn_len_app, skipn_len_app.
    unfold payload_of, z. cbn [c_thr app Z.ltb Z.compare].
    change (read_varint (0 :: deflate lvl [])) with (VVal 0%Z 1 (deflate lvl [])).
    cbn [andb Z.ltb Z.leb Z.compare].
    replace (0 <? Z.of_N (len (deflate lvl [])))%Z with true by lia.
    destruct false; reflexivity.
  Qed.
End RoundTrip.

(* ---------- the whole path: writer, cipher, chunks, reader ---------- *)

Section Stream.
  Variable deflate : Z -> bytes -> bytes.
  Variable inflate : bytes -> zres.
  Variable lazy_close_ok : bytes -> N -> bool.
  Variable E : bytes -> bytes.
  Hypothesis inflate_deflate : forall l p, inflate (deflate l p) = mkz p true.

  Theorem stream_roundtrip ps t lvl d enc chunks :
    Forall (fun p => starts_with_id p = true /\ fitsb deflate t lvl d p = true) ps ->
    concat chunks = wire deflate E t lvl enc ps ->
    decode_stream inflate lazy_close_ok E (mkcfg t d) enc chunks = (ps, TNeedMore).
  Proof.
    intros Hall Hwire. unfold decode_stream. rewrite rd_stream_fuel_flat.
    assert (Hplain : plain E (mkrd chunks enc) = frames deflate t lvl ps).
    { unfold plain. cbn [r_reg r_chunks]. rewrite Hwire. unfold wire.
      destruct enc as [secret|]; [apply cfb8_inverse_reg|reflexivity]. }
    rewrite Hplain.
    apply (stream_roundtrip_flat deflate inflate lazy_close_ok inflate_deflate); [|exact Hall].
    rewrite Hwire. unfold wire. pose proof (frames_length deflate inflate lazy_close_ok inflate_deflate t lvl ps).
    destruct enc; [rewrite cfb8_enc_length|]; lia.
  Qed.
End Stream.

(* ---------- non-vacuity: a concrete zlib stand-in (stored, identity) and block function meet the premises ---------- *)

Definition id_deflate (l : Z) (p : bytes) : bytes := p.
Definition id_inflate (z : bytes) : zres := mkz z true.
Definition no_lazy (z : bytes) (n : N) : bool := false.
Definition toy_E (reg : bytes) : bytes := [N.lxor (hd 0 reg) 90].

Lemma id_inflate_deflate : forall l p, id_inflate (id_deflate l p) = mkz p true.
Proof. reflexivity. Qed.

Definition ex_payloads : list bytes := [[1; 2; 3]; [5]; [127; 0; 0; 0; 0; 0; 0; 0]].
Definition ex_secret : bytes := [1;2;3;4;5;6;7;8;9;10;11;12;13;14;15;16].

Lemma ex_premises :
  Forall (fun p => starts_with_id p = true /\ fitsb id_deflate 2 6 ServerBound p = true) ex_payloads.
Proof. repeat constructor. Qed.

(* the same session computed: encrypted, compressed from 2 bytes on, delivered in chunks of 1, 0, 5 and the rest *)
Lemma ex_session_computes :
  let w := wire id_deflate toy_E 2 6 (Some ex_secret) ex_payloads in
  decode_stream id_inflate no_lazy toy_E (mkcfg 2 ServerBound) (Some ex_secret)
    [firstn 1 w; []; firstn 5 (skipn 1 w); skipn 6 w] = (ex_payloads, TNeedMore)
  /\ w <> frames id_deflate 2 6 ex_payloads.
Proof. vm_compute. split; [reflexivity|discriminate]. Qed.

(* ---------- histories: configuration changes between buffered writes ---------- *)

Section History.
  Variable deflate : Z -> bytes -> bytes.
  Variable inflate : bytes -> zres.
  Variable lazy_close_ok : bytes -> N -> bool.
  Variable E : bytes -> bytes.
  Hypothesis inflate_deflate : forall l p, inflate (deflate l p) = mkz p true.

  (* the undelivered raw bytes in front of the reader *)
  Definition raw (r : reader) : bytes := concat (r_chunks r).

  (* r' is r after consuming some k raw bytes: the cipher register has moved over exactly those bytes *)
  Definition steps (r r' : reader) : Prop :=
    exists k, (k <= length (raw r))%nat /\ raw r' = skipn k (raw r) /\
              r_reg r' = option_map (fun g => cfb8_adv g (firstn k (raw r))) (r_reg r).

  Lemma firstn_plus {A} : forall k1 k2 (x : list A), firstn (k1 + k2) x = firstn k1 x ++ firstn k2 (skipn k1 x).
  Proof.
    induction k1 as [|k1 IH]; intros k2 x; [reflexivity|].
    destruct x as [|a x]; cbn [plus firstn skipn app]; [destruct k2; reflexivity|]. rewrite IH. reflexivity.
  Qed.

  Lemma skipn_plus {A} : forall k1 k2 (x : list A), skipn k2 (skipn k1 x) = skipn (k1 + k2) x.
  Proof.
    induction k1 as [|k1 IH]; intros k2 x; [reflexivity|].
    destruct x as [|a x]; cbn [plus skipn]; [destruct k2; reflexivity|]. apply IH.
  Qed.

  Lemma steps_refl r : steps r r.
  Proof. exists O. cbn [skipn firstn cfb8_adv]. split; [lia|split; [reflexivity|]]. destruct (r_reg r); reflexivity. Qed.

  Lemma steps_trans r1 r2 r3 : steps r1 r2 -> steps r2 r3 -> steps r1 r3.
  Proof.
    intros (k1 & Hl1 & Hr1 & Hg1) (k2 & Hl2 & Hr2 & Hg2). exists (k1 + k2)%nat.
    rewrite Hr1 in Hl2, Hr2, Hg2. rewrite skipn_length in Hl2.
    split; [lia|split].
    - rewrite Hr2, skipn_plus. reflexivity.
    - rewrite Hg2, Hg1. destruct (r_reg r1) as [g|]; cbn [option_map]; [|reflexivity].
      rewrite firstn_plus, cfb8_adv_app. reflexivity.
  Qed.

  Lemma rd_read_steps r n b r' : rd_read E r n = Some (b, r') -> steps r r'.
  Proof.
    unfold rd_read. pose proof (read_full_spec (r_chunks r) n) as H.
    destruct (read_full (r_chunks r) n) as [[b0 cs']|]; [|discriminate].
    destruct H as (Hb & Hr & Hl). intros Heq. exists n. unfold raw.
    destruct (r_reg r) as [g|]; inversion Heq; subst; cbn [r_chunks r_reg option_map];
      (split; [exact Hl|split; [exact Hr|reflexivity]]).
  Qed.

  Lemma rd_varint_fuel_steps : forall f i acc r v r',
    rd_varint_fuel E f i acc r = RVal v r' -> steps r r'.
  Proof.
    induction f as [|f IH]; intros i acc r v r' H; cbn [rd_varint_fuel] in H; [discriminate|].
    destruct (rd_read E r 1) as [[b r1]|] eqn:Erd; [|discriminate].
    apply rd_read_steps in Erd.
    destruct b as [|x [|? ?]]; try discriminate.
    destruct (5 <=? i); [discriminate|].
    destruct (N.land x 128 =? 0).
    - inversion H; subst. exact Erd.
    - eapply steps_trans; [exact Erd|]. eapply IH. exact H.
  Qed.

  Lemma rd_frame_steps f1 f2 c r p r' :
    rd_frame inflate lazy_close_ok E f1 f2 c r = ROk p r' -> steps r r'.
  Proof.
    unfold rd_frame, rd_varint. destruct (rd_varint_fuel E 6 0 0 r) as [l r1| |] eqn:Ev; try discriminate.
    apply rd_varint_fuel_steps in Ev.
    destruct (l =? 0)%Z; [intros H; inversion H; subst; exact Ev|].
    destruct ((l <? 0)%Z || (MAXFRAME <? l)%Z); [discriminate|].
    destruct (rd_read E r1 (Z.to_nat l)) as [[body r2]|] eqn:Erd; [|discriminate].
    apply rd_read_steps in Erd.
    destruct (snd (payload_of inflate lazy_close_ok f1 f2 c body)); [|discriminate].
    intros H. inversion H; subst. eapply steps_trans; eassumption.
  Qed.

  Lemma rd_packet_fuel_steps f1 f2 : forall fuel k c r p r',
    rd_packet_fuel inflate lazy_close_ok E f1 f2 fuel k c r = ROk p r' -> steps r r'.
  Proof.
    induction fuel as [|fuel IH]; intros k c r p r' H; cbn [rd_packet_fuel] in H; [discriminate|].
    destruct (rd_frame inflate lazy_close_ok E f1 f2 c r) as [q r1|e|] eqn:Ef; try discriminate.
    apply rd_frame_steps in Ef.
    destruct q as [|x q].
    - destruct (10 <? k); [discriminate|]. eapply steps_trans; [exact Ef|]. eapply IH. exact H.
    - destruct (read_varint (x :: q)); try discriminate. inversion H; subst. exact Ef.
  Qed.

  Lemma plain_length r : length (plain E r) = length (raw r).
  Proof. unfold plain, raw. destruct (r_reg r); [apply cfb8_dec_length|reflexivity]. Qed.

  (* a step that leaves exactly |W| raw bytes of c ++ W has consumed exactly c *)
  Lemma steps_exact r r' c W :
    steps r r' -> raw r = c ++ W -> length (raw r') = length W ->
    raw r' = W /\ r_reg r' = option_map (fun g => cfb8_adv g c) (r_reg r).
  Proof.
    intros (k & Hl & Hr & Hg) Hraw Hlen. rewrite Hraw in *.
    assert (Hk : k = length c).
    { rewrite Hr, skipn_length, app_length in Hlen. rewrite app_length in Hl. lia. }
    subst k. rewrite skipn_app, skipn_all, Nat.sub_diag in Hr. cbn in Hr.
    rewrite firstn_app, firstn_all, Nat.sub_diag in Hg. cbn [firstn] in Hg. rewrite app_nil_r in Hg.
    split; assumption.
  Qed.

  Notation impl := (impl_decode_frame inflate lazy_close_ok).

  (* one write, then whatever follows: ReadPacket returns the payload and leaves the reader in front of W with
     the cipher register advanced over the frame's ciphertext *)
  Lemma read_one t lvl d p r W :
    starts_with_id p = true -> fitsb deflate t lvl d p = true ->
    raw r = match r_reg r with
            | None => frame deflate t lvl p
            | Some g => cfb8_enc E g (frame deflate t lvl p)
            end ++ W ->
    exists r', rd_packet inflate lazy_close_ok E true true (mkcfg t d) r = ROk p r' /\ raw r' = W /\
               r_reg r' = option_map (fun g => cfb8_adv g (cfb8_enc E g (frame deflate t lvl p))) (r_reg r).
  Proof.
    intros Hid Hfit Hraw.
    set (f := frame deflate t lvl p) in *.
    set (X := match r_reg r with None => W | Some g => cfb8_dec E (cfb8_adv g (cfb8_enc E g f)) W end).
    assert (Hplain : plain E r = f ++ X).
    { unfold plain, X. fold (raw r). rewrite Hraw. destruct (r_reg r) as [g|]; [|reflexivity].
      rewrite cfb8_dec_app, cfb8_inverse_reg. reflexivity. }
    assert (HX : length X = length W).
    { unfold X. destruct (r_reg r); [apply cfb8_dec_length|reflexivity]. }
    pose proof (rd_packet_fuel_flat inflate lazy_close_ok E true true 12 0 (mkcfg t d) r) as Hrel.
    rewrite Hplain in Hrel.
    pose proof (read_packet_roundtrip deflate inflate lazy_close_ok inflate_deflate t lvl d p X Hid Hfit) as Hrt.
    change (snd (read_packet_with (decode_frame_with inflate lazy_close_ok read_varint true true) 12 0 (mkcfg t d) (f ++ X)))
      with (snd (read_packet impl (mkcfg t d) (frame deflate t lvl p ++ X))) in Hrel.
    rewrite Hrt in Hrel.
    unfold rd_packet.
    destruct (rd_packet_fuel inflate lazy_close_ok E true true 12 0 (mkcfg t d) r) as [p' r'|e|] eqn:Ep;
      cbn [frel] in Hrel; try contradiction.
    destruct Hrel as (-> & Hpl). exists r'. split; [reflexivity|].
    apply rd_packet_fuel_steps in Ep.
    assert (Hlen : length (raw r') = length W) by (rewrite <- plain_length, Hpl; exact HX).
    destruct (r_reg r) as [g|] eqn:Eg.
    - destruct (steps_exact r r' _ W Ep Hraw Hlen) as (H1 & H2). rewrite Eg in H2. split; assumption.
    - destruct (steps_exact r r' _ W Ep Hraw Hlen) as (H1 & H2). rewrite Eg in H2. split; assumption.
  Qed.

  Theorem history_roundtrip lvl d : forall ops t r,
    ops_ok deflate lvl t d ops = true ->
    raw r = wire_ops deflate E lvl t (r_reg r) ops ->
    read_ops inflate lazy_close_ok E d t r ops = (written ops, TNeedMore).
  Proof.
    induction ops as [|o ops IH]; intros t r Hok Hraw.
    - cbn [read_ops written]. cbn [wire_ops] in Hraw. fold (raw r). rewrite Hraw.
      rewrite rd_stream_fuel_flat.
      assert (Hp : plain E r = []).
      { pose proof (plain_length r) as Hl. rewrite Hraw in Hl. destruct (plain E r); [reflexivity|discriminate]. }
      rewrite Hp. reflexivity.
    - destruct o as [p|t'|s|]; cbn [read_ops written wire_ops ops_ok] in *.
      + apply andb_true_iff in Hok. destruct Hok as (Hok1 & Hok). apply andb_true_iff in Hok1. destruct Hok1 as (Hid & Hfit).
        assert (Hraw' : raw r = match r_reg r with
                                | None => frame deflate t lvl p
                                | Some g => cfb8_enc E g (frame deflate t lvl p)
                                end ++ wire_ops deflate E lvl t
                                  (option_map (fun g => cfb8_adv g (cfb8_enc E g (frame deflate t lvl p))) (r_reg r)) ops).
        { rewrite Hraw. destruct (r_reg r); reflexivity. }
        destruct (read_one t lvl d p r _ Hid Hfit Hraw') as (r' & Hrd & Hr' & Hg').
        rewrite Hrd. rewrite (IH t r' Hok); [reflexivity|]. rewrite Hr', Hg'. reflexivity.
      + apply IH; assumption.
      + apply IH; [assumption|]. exact Hraw.
      + apply IH; assumption.
  Qed.
End History.

(* non-vacuity for histories: two writes before the threshold is set, one more before encryption is enabled,
   a threshold change after it; none of the first three writes is flushed before the changes *)
Definition ex_history : list wop :=
  [WWrite [1; 2; 3]; WWrite [5]; WThr 2; WWrite [127; 0; 0; 0; 0]; WEnc ex_secret; WWrite [9; 9; 9]; WFlush;
   WThr (-1); WWrite [4; 4]; WFlush].

Lemma ex_history_computes :
  ops_ok id_deflate 6 (-1) ClientBound ex_history = true /\
  (let w := wire_ops id_deflate toy_E 6 (-1) None ex_history in
   read_ops id_inflate no_lazy toy_E ClientBound (-1) (mkrd [firstn 3 w; []; firstn 9 (skipn 3 w); skipn 12 w] None) ex_history
     = (written ex_history, TNeedMore)
   /\ written ex_history = [[1; 2; 3]; [5]; [127; 0; 0; 0; 0]; [9; 9; 9]; [4; 4]]
   /\ firstn 6 w = [3; 1; 2; 3; 1; 5]
   /\ w <> wire_ops id_deflate toy_E 6 (-1) None (filter (fun o => match o with WEnc _ => false | _ => true end) ex_history)).
Proof. vm_compute. repeat split; try reflexivity. discriminate. Qed.
