(* C28 - structured level: for the demanded tab list ([spec_tcfg]) the proxy's view is, entry for
   entry, the state of the reference client that applies the (structured) packets the viewer
   receives.  The byte level (decode (encode p)) is in C28_Wire.v. *)
From Coq Require Import List NArith ZArith Bool Lia.
From Verif Require Import Base.Hex Base.Assoc Model.TabList.
Import ListNotations.
Open Scope N_scope.

(* ---------- maps up to lookup ---------- *)

Definition meq {V} (a b : amap V) : Prop := forall k, aget k a = aget k b.

Lemma meq_refl {V} (a : amap V) : meq a a.
Proof. intros k. reflexivity. Qed.
Lemma meq_trans {V} (a b c : amap V) : meq a b -> meq b c -> meq a c.
Proof. intros H1 H2 k. rewrite H1. apply H2. Qed.
Lemma meq_sym {V} (a b : amap V) : meq a b -> meq b a.
Proof. intros H k. symmetry. apply H. Qed.

Lemma meq_aset {V} (a b : amap V) k v : meq a b -> meq (aset k v a) (aset k v b).
Proof.
  intros H j. destruct (N.eq_dec j k) as [->|D].
  - rewrite !aget_aset_same. reflexivity.
  - rewrite !aget_aset_other by exact D. apply H.
Qed.
Lemma meq_adel {V} (a b : amap V) k : meq a b -> meq (adel k a) (adel k b).
Proof.
  intros H j. destruct (N.eq_dec j k) as [->|D].
  - rewrite !aget_adel_same. reflexivity.
  - rewrite !aget_adel_other by exact D. apply H.
Qed.

Lemma aset_comm {V} (m : amap V) k1 v1 k2 v2 :
  k1 <> k2 -> meq (aset k1 v1 (aset k2 v2 m)) (aset k2 v2 (aset k1 v1 m)).
Proof.
  intros D j. destruct (N.eq_dec j k1) as [->|D1].
  - rewrite aget_aset_same, aget_aset_other by exact D. rewrite aget_aset_same. reflexivity.
  - rewrite (aget_aset_other _ j k1) by exact D1.
    destruct (N.eq_dec j k2) as [->|D2].
    + rewrite !aget_aset_same. reflexivity.
    + rewrite !aget_aset_other by assumption. reflexivity.
Qed.

(* ---------- vanilla's two passes = entry after entry ---------- *)

Section TwoPass.
  Variable V E : Type.
  Variable key : E -> N.
  Variable mk : E -> V.
  Variable upd : E -> V -> V.

  Notation addA := (add_absent key mk).
  Notation updP := (upd_present key upd).

  Lemma meq_addA a b e : meq a b -> meq (addA a e) (addA b e).
  Proof.
    intros H. unfold add_absent. rewrite (H (key e)). destruct (aget (key e) b); [exact H|].
    apply meq_aset. exact H.
  Qed.
  Lemma meq_updP a b e : meq a b -> meq (updP a e) (updP b e).
  Proof.
    intros H. unfold upd_present. rewrite (H (key e)). destruct (aget (key e) b); [|exact H].
    apply meq_aset. exact H.
  Qed.
  Lemma meq_fold_addA es : forall a b, meq a b -> meq (fold_left addA es a) (fold_left addA es b).
  Proof. induction es as [|e r IH]; intros a b H; [exact H|]. cbn. apply IH. apply meq_addA. exact H. Qed.
  Lemma meq_fold_updP es : forall a b, meq a b -> meq (fold_left updP es a) (fold_left updP es b).
  Proof. induction es as [|e r IH]; intros a b H; [exact H|]. cbn. apply IH. apply meq_updP. exact H. Qed.

  Lemma addA_keeps m e k v : aget k m = Some v -> aget k (addA m e) = Some v.
  Proof.
    intros H. unfold add_absent. destruct (aget (key e) m) eqn:G; [exact H|].
    destruct (N.eq_dec k (key e)) as [->|D]; [congruence|].
    rewrite aget_aset_other by exact D. exact H.
  Qed.

  (* updating a present entry commutes with adding another one if absent *)
  Lemma upd_add_comm m e e' v :
    aget (key e) m = Some v -> meq (updP (addA m e') e) (addA (updP m e) e').
  Proof.
    intros P. unfold upd_present at 2. rewrite P.
    unfold add_absent at 1 2.
    destruct (N.eq_dec (key e') (key e)) as [Q|D].
    - rewrite Q, P, aget_aset_same. unfold upd_present. rewrite P. apply meq_refl.
    - rewrite (aget_aset_other _ (key e') (key e)) by exact D.
      destruct (aget (key e') m) eqn:G.
      + unfold upd_present. rewrite P. apply meq_refl.
      + unfold upd_present. rewrite aget_aset_other by (intro X; apply D; symmetry; exact X).
        rewrite P. apply aset_comm. intro X; apply D; symmetry; exact X.
  Qed.

  Lemma upd_fold_add_comm es : forall m e v,
    aget (key e) m = Some v -> meq (updP (fold_left addA es m) e) (fold_left addA es (updP m e)).
  Proof.
    induction es as [|e' r IH]; intros m e v P; [apply meq_refl|]. cbn [fold_left].
    eapply meq_trans; [apply (IH (addA m e') e v); apply addA_keeps; exact P|].
    apply meq_fold_addA. apply upd_add_comm with (v := v). exact P.
  Qed.

  Lemma addA_present m e : exists v, aget (key e) (addA m e) = Some v.
  Proof.
    unfold add_absent. destruct (aget (key e) m) eqn:G; [exists v; exact G|].
    exists (mk e). apply aget_aset_same.
  Qed.

  Lemma two_pass_seq add es : forall m,
    meq (two_pass_upsert key mk upd add es m) (seq_upsert key mk upd add es m).
  Proof.
    unfold two_pass_upsert, seq_upsert. destruct add; [|intros m; apply meq_refl].
    induction es as [|e r IH]; intros m; [apply meq_refl|]. cbn [fold_left].
    eapply meq_trans; [|apply IH].
    apply meq_fold_updP. destruct (addA_present m e) as [v P].
    apply (upd_fold_add_comm r (addA m e) e v P).
  Qed.
End TwoPass.

(* ---------- a map and its image under a projection ---------- *)

Section Related.
  Variable VP VC EP EC : Type.
  Variable f : VP -> VC.
  Variable g : EP -> EC.
  Variable keyP : EP -> N.
  Variable keyC : EC -> N.
  Variable mkP : EP -> VP.
  Variable mkC : EC -> VC.
  Variable updP : EP -> VP -> VP.
  Variable updC : EC -> VC -> VC.
  Hypothesis key_ok : forall e, keyC (g e) = keyP e.
  Hypothesis mk_ok : forall e, f (mkP e) = mkC (g e).
  Hypothesis upd_ok : forall e v, f (updP e v) = updC (g e) (f v).

  Definition Rel (P : amap VP) (C : amap VC) : Prop := forall k, option_map f (aget k P) = aget k C.

  Lemma Rel_aset P C k v : Rel P C -> Rel (aset k v P) (aset k (f v) C).
  Proof.
    intros H j. destruct (N.eq_dec j k) as [->|D].
    - rewrite !aget_aset_same. reflexivity.
    - rewrite !aget_aset_other by exact D. apply H.
  Qed.
  Lemma Rel_adel P C k : Rel P C -> Rel (adel k P) (adel k C).
  Proof.
    intros H j. destruct (N.eq_dec j k) as [->|D].
    - rewrite !aget_adel_same. reflexivity.
    - rewrite !aget_adel_other by exact D. apply H.
  Qed.
  Lemma Rel_meq P C C' : Rel P C -> meq C C' -> Rel P C'.
  Proof. intros H M k. rewrite <- M. apply H. Qed.

  Lemma Rel_seq add es : forall P C,
    Rel P C -> Rel (seq_upsert keyP mkP updP add es P) (seq_upsert keyC mkC updC add (map g es) C).
  Proof.
    unfold seq_upsert. induction es as [|e r IH]; intros P C H; [exact H|].
    cbn [map fold_left]. apply IH.
    assert (H1 : Rel (if add then add_absent keyP mkP P e else P) (if add then add_absent keyC mkC C (g e) else C)).
    { destruct add; [|exact H]. unfold add_absent. rewrite key_ok.
      pose proof (H (keyP e)) as K. destruct (aget (keyP e) P); cbn in K; rewrite <- K; [exact H|].
      rewrite <- mk_ok. apply Rel_aset. exact H. }
    revert H1. generalize (if add then add_absent keyP mkP P e else P) (if add then add_absent keyC mkC C (g e) else C).
    intros P1 C1 H1. unfold upd_present. rewrite key_ok.
    pose proof (H1 (keyP e)) as K. destruct (aget (keyP e) P1); cbn in K; rewrite <- K; [|exact H1].
    rewrite <- upd_ok. apply Rel_aset. exact H1.
  Qed.

  Lemma Rel_two_pass add es P C :
    Rel P C -> Rel (seq_upsert keyP mkP updP add es P) (two_pass_upsert keyC mkC updC add (map g es) C).
  Proof.
    intros H. eapply Rel_meq; [apply Rel_seq; exact H|]. apply meq_sym. apply two_pass_seq.
  Qed.
End Related.

(* ---------- equalities decided by the model's tests ---------- *)

Lemma prop_eqb_eq a b : prop_eqb a b = true -> a = b.
Proof.
  unfold prop_eqb. intros H. apply andb_true_iff in H. destruct H as [H H3].
  apply andb_true_iff in H. destruct H as [H1 H2].
  apply beq_bytes_eq in H1, H2, H3. destruct a, b. cbn in *. subst. reflexivity.
Qed.
Lemma list_eqb_eq {A} (eqb : A -> A -> bool) :
  (forall x y, eqb x y = true -> x = y) -> forall a b, list_eqb eqb a b = true -> a = b.
Proof.
  intros E. induction a as [|x r IH]; intros [|y r'] H; try discriminate H; [reflexivity|].
  cbn in H. apply andb_true_iff in H. destruct H as [H1 H2]. f_equal; [apply E; exact H1|apply IH; exact H2].
Qed.
Lemma same_profile_eq a b : same_profile a b = true -> a_name a = a_name b /\ a_props a = a_props b.
Proof.
  unfold same_profile. intros H. apply andb_true_iff in H. destruct H as [H1 H2].
  split; [apply beq_bytes_eq; exact H1|]. eapply list_eqb_eq; [apply prop_eqb_eq|exact H2].
Qed.
Lemma opt_N_eqb_eq a b : opt_N_eqb a b = true -> a = b.
Proof. destruct a, b; cbn; try discriminate; [|reflexivity]. intros H. apply N.eqb_eq in H. subst. reflexivity. Qed.

(* ---------- the action bit set ---------- *)

Lemma has_bits order a :
  In a all_actions -> has_action (bits_of order) a = mem a order.
Proof.
  unfold has_action, bits_of, all_actions. cbn [fold_left].
  intros H. cbn [In] in H.
  repeat (destruct H as [<-|H];
          [destruct (mem 0 order), (mem 1 order), (mem 2 order), (mem 3 order),
                    (mem 4 order), (mem 5 order), (mem 6 order), (mem 7 order); reflexivity|]).
  destruct H.
Qed.

Lemma mem_app a l1 l2 : mem a (l1 ++ l2) = mem a l1 || mem a l2.
Proof. unfold mem. apply existsb_app. Qed.
Lemma mem_opt a c b : mem a (opt c b) = c && (a =? b).
Proof. unfold mem, opt. destruct c; cbn; [rewrite orb_false_r|]; reflexivity. Qed.

(* ---------- the reference client on structured packets ---------- *)

Definition client_apply_s (c : cstate) (p : spkt) : cstate :=
  match p with
  | SUpsert order es => client_upsert (bits_of order) es c
  | SRemove ids => client_remove ids c
  end.

Definition VRel (ver : N) (tbl : list bytes) : pstate -> cstate -> Prop := Rel _ _ (pview ver tbl).

Lemma aget_view ver tbl s k : aget k (view ver tbl s) = option_map (pview ver tbl) (aget k s).
Proof.
  induction s as [|[k' v] s IH]; [reflexivity|]. cbn [view map aget fst snd].
  destruct (k' =? k); [reflexivity|exact IH].
Qed.

Lemma VRel_view ver tbl s : VRel ver tbl s (view ver tbl s).
Proof. intros k. symmetry. apply aget_view. Qed.

Lemma Rel_remove ver tbl ids : forall P C,
  VRel ver tbl P C -> VRel ver tbl (fold_left (fun m id => adel id m) ids P) (client_remove ids C).
Proof.
  unfold client_remove. induction ids as [|i r IH]; intros P C H; [exact H|].
  cbn [fold_left]. apply IH. apply Rel_adel. exact H.
Qed.

(* one entry, no add action: the client updates the entry it has *)
Lemma client_upsert_single_upd bits e C c :
  has_action bits 0 = false -> aget (d_id e) C = Some c ->
  client_upsert bits [e] C = aset (d_id e) (c_upd bits e c) C.
Proof.
  intros A G. unfold client_upsert, two_pass_upsert. rewrite A. cbn [fold_left].
  unfold upd_present. rewrite G. reflexivity.
Qed.
Lemma client_upsert_single_absent_noadd bits e C :
  has_action bits 0 = false -> aget (d_id e) C = None -> client_upsert bits [e] C = C.
Proof.
  intros A G. unfold client_upsert, two_pass_upsert. rewrite A. cbn [fold_left].
  unfold upd_present. rewrite G. reflexivity.
Qed.
Lemma client_upsert_single_add bits e C :
  has_action bits 0 = true -> aget (d_id e) C = None ->
  meq (client_upsert bits [e] C) (aset (d_id e) (c_upd bits e (c_new e)) C).
Proof.
  intros A G. unfold client_upsert, two_pass_upsert. rewrite A. cbn [fold_left].
  unfold add_absent. rewrite G. unfold upd_present. rewrite aget_aset_same.
  intros k. destruct (N.eq_dec k (d_id e)) as [->|D].
  - rewrite !aget_aset_same. reflexivity.
  - rewrite !aget_aset_other by exact D. reflexivity.
Qed.

Ltac bits_simpl :=
  repeat (rewrite has_bits by (cbv; tauto));
  repeat (rewrite mem_app || rewrite mem_opt);
  cbn [mem existsb N.eqb Pos.eqb orb andb].

(* ---------- Add ---------- *)

Lemma norm_gm_special z : (z =? -1)%Z || (z =? 256)%Z = true -> norm_gm z = 0.
Proof.
  intros H. apply orb_true_iff in H. destruct H as [H|H]; apply Z.eqb_eq in H; subst; reflexivity.
Qed.

Lemma fresh_ok ver tbl id a P C :
  VRel ver tbl P C -> aget id P = None ->
  VRel ver tbl (aset id a P) (client_apply_s C (fresh_packet ver tbl id a)).
Proof.
  intros H G. unfold fresh_packet, client_apply_s.
  set (order := _ ++ _).
  set (d := mkD id _ _ _ _ _ _ _ _ _).
  assert (GC : aget (d_id d) C = None) by (cbn [d d_id]; rewrite <- (H id), G; reflexivity).
  assert (A : has_action (bits_of order) 0 = true) by (unfold order; bits_simpl; reflexivity).
  eapply Rel_meq; [|apply meq_sym; apply client_upsert_single_add; assumption].
  replace (c_upd (bits_of order) d (c_new d)) with (pview ver tbl a); [apply Rel_aset; exact H|].
  unfold c_upd, c_new, pview, d. cbn [d_name d_props d_listed d_latency d_gm d_dn d_order c_name c_props c_listed c_latency c_gm c_dn c_order].
  unfold order. bits_simpl.
  rewrite ?andb_false_r, ?andb_true_r, ?orb_false_r. cbn [orb].
  f_equal.
  - destruct (negb (a_gm a =? -1)%Z && negb (a_gm a =? 256)%Z) eqn:E; [reflexivity|].
    apply norm_gm_special. destruct (a_gm a =? -1)%Z, (a_gm a =? 256)%Z; cbn in *; congruence.
  - destruct (a_dn a); reflexivity.
  - unfold ge. destruct (768 <=? ver); rewrite ?andb_false_r, ?andb_true_r; [|reflexivity].
    destruct (a_order a =? 0)%Z eqn:E; cbn [negb]; [apply Z.eqb_eq in E; congruence|reflexivity].
Qed.

Definition apply_all (c : cstate) (ps : list spkt) : cstate := fold_left client_apply_s ps c.

Lemma apply_all_app c a b : apply_all c (a ++ b) = apply_all (apply_all c a) b.
Proof. unfold apply_all. apply fold_left_app. Qed.

Lemma apply_single c p : apply_all c [p] = client_apply_s c p.
Proof. reflexivity. Qed.

(* previous entry with the same profile: only the differing attributes travel *)
Lemma diff_ok ver tbl id p a P C :
  VRel ver tbl P C -> aget id P = Some p -> same_profile p a = true ->
  VRel ver tbl (aset id a P) (apply_all C (diff_packet ver tbl id p a)).
Proof.
  intros H G SP. destruct (same_profile_eq _ _ SP) as [EN EP].
  assert (GC : aget id C = Some (pview ver tbl p)) by (rewrite <- (H id), G; reflexivity).
  unfold diff_packet.
  set (dn := negb (opt_N_eqb (a_dn p) (a_dn a))).
  set (lat := negb (a_latency p =? a_latency a)%Z).
  set (gm := negb (a_gm p =? a_gm a)%Z).
  set (li := negb (Bool.eqb (a_listed p) (a_listed a))).
  set (od := negb (a_order p =? a_order a)%Z && ge ver 768).
  set (ht := negb (Bool.eqb (a_hat p) (a_hat a)) && ge ver 769).
  set (order := opt dn 5 ++ opt lat 4 ++ opt gm 2 ++ opt li 3 ++ opt od 6 ++ opt ht 7).
  set (d := mkD id [] [] false (a_gm a) (a_listed a) (if lat then a_latency a else 0%Z)
                (if dn then dn_opt tbl (a_dn a) else None) (a_order a) (a_hat a)).
  assert (PV : c_upd (bits_of order) d (pview ver tbl p) = pview ver tbl a).
  { unfold c_upd, pview, d.
    cbn [d_name d_props d_listed d_latency d_gm d_dn d_order c_name c_props c_listed c_latency c_gm c_dn c_order].
    unfold order. bits_simpl. rewrite ?andb_false_r, ?andb_true_r, ?orb_false_r. cbn [orb].
    rewrite EN, EP. f_equal.
    - unfold li. destruct (a_listed p), (a_listed a); reflexivity.
    - unfold lat. destruct (a_latency p =? a_latency a)%Z eqn:E; cbn [negb]; [apply Z.eqb_eq in E; congruence|reflexivity].
    - unfold gm. destruct (a_gm p =? a_gm a)%Z eqn:E; cbn [negb]; [apply Z.eqb_eq in E; congruence|reflexivity].
    - unfold dn. destruct (opt_N_eqb (a_dn p) (a_dn a)) eqn:E; cbn [negb]; [apply opt_N_eqb_eq in E; congruence|reflexivity].
    - unfold od, ge. destruct (768 <=? ver); rewrite ?andb_false_r, ?andb_true_r; [|reflexivity].
      destruct (a_order p =? a_order a)%Z eqn:E; cbn [negb]; [apply Z.eqb_eq in E; congruence|reflexivity]. }
  assert (NA : has_action (bits_of order) 0 = false).
  { unfold order. bits_simpl. rewrite ?andb_false_r. reflexivity. }
  destruct order as [|o1 orest] eqn:EO.
  - (* nothing differs: no packet, and the views coincide *)
    unfold apply_all. cbn [fold_left].
    assert (ID : forall c, c_upd (bits_of []) d c = c) by (intros c; destruct c; reflexivity).
    intros k. destruct (N.eq_dec k id) as [->|D].
    + rewrite aget_aset_same. cbn [option_map]. rewrite <- PV, ID. symmetry. exact GC.
    + rewrite aget_aset_other by exact D. apply H.
  - unfold apply_all. cbn [fold_left client_apply_s].
    rewrite (client_upsert_single_upd _ d C (pview ver tbl p) NA GC). rewrite PV.
    apply Rel_aset. exact H.
Qed.

Lemma add_one_ok ver tbl id a P C :
  VRel ver tbl P C ->
  VRel ver tbl (fst (add_one spec_tcfg ver tbl P id a)) (apply_all C (snd (add_one spec_tcfg ver tbl P id a))).
Proof.
  intros H. unfold add_one. destruct (aget id P) as [p|] eqn:G.
  - cbn [readd spec_tcfg andb]. destruct (same_profile p a) eqn:SP; cbn [negb fst snd].
    + apply diff_ok; assumption.
    + (* remove, then add anew *)
      unfold apply_all. cbn [fold_left client_apply_s]. unfold client_remove. cbn [fold_left].
      assert (H1 : VRel ver tbl (adel id P) (adel id C)) by (apply Rel_adel; exact H).
      assert (G1 : aget id (adel id P) = None) by apply aget_adel_same.
      pose proof (fresh_ok ver tbl id a _ _ H1 G1) as F.
      intros k. rewrite <- (F k). destruct (N.eq_dec k id) as [->|D].
      * rewrite !aget_aset_same. reflexivity.
      * rewrite !aget_aset_other by exact D. rewrite aget_adel_other by exact D. reflexivity.
  - cbn [fst snd]. unfold apply_all. cbn [fold_left]. apply fresh_ok; assumption.
Qed.

Lemma add_many_ok ver tbl : forall l P C,
  VRel ver tbl P C ->
  VRel ver tbl (fst (fst (add_many spec_tcfg ver tbl P l)))
       (apply_all C (snd (fst (add_many spec_tcfg ver tbl P l)))).
Proof.
  induction l as [|[id a] r IH]; intros P C H; [exact H|].
  cbn [add_many]. destruct (id =? 0); [exact H|].
  pose proof (add_one_ok ver tbl id a P C H) as H1.
  destruct (add_one spec_tcfg ver tbl P id a) as [s1 ps]. cbn [fst snd] in H1.
  pose proof (IH s1 _ H1) as H2.
  destruct (add_many spec_tcfg ver tbl s1 r) as [[s2 ps2] t]. cbn [fst snd] in *.
  rewrite apply_all_app. exact H2.
Qed.

(* ---------- setters ---------- *)

Lemma setter_ok ver tbl P C id f order d :
  VRel ver tbl P C -> d_id d = id ->
  has_action (bits_of order) 0 = false ->
  (forall a, c_upd (bits_of order) d (pview ver tbl a) = pview ver tbl (f a)) ->
  VRel ver tbl (fst (fst (setter P id f [SUpsert order [d]])))
       (apply_all C (snd (fst (setter P id f [SUpsert order [d]])))).
Proof.
  intros H ID NA U. unfold setter. destruct (aget id P) as [a|] eqn:G; cbn [fst snd]; [|exact H].
  assert (GC : aget (d_id d) C = Some (pview ver tbl a)) by (rewrite ID, <- (H id), G; reflexivity).
  unfold apply_all. cbn [fold_left client_apply_s].
  rewrite (client_upsert_single_upd _ d C _ NA GC), U, ID. apply Rel_aset. exact H.
Qed.

Lemma setter_silent_ok ver tbl P C id f :
  VRel ver tbl P C -> (forall a, pview ver tbl (f a) = pview ver tbl a) ->
  VRel ver tbl (fst (fst (setter P id f []))) (apply_all C (snd (fst (setter P id f [])))).
Proof.
  intros H U. unfold setter. destruct (aget id P) as [a|] eqn:G; cbn [fst snd]; [|exact H].
  unfold apply_all. cbn [fold_left]. intros k. destruct (N.eq_dec k id) as [->|D].
  - rewrite aget_aset_same. cbn. rewrite U, <- (H id), G. reflexivity.
  - rewrite aget_aset_other by exact D. apply H.
Qed.

(* ---------- backend packets ---------- *)

Definition wf_acts (ver : N) (acts : list bool) : Prop :=
  forall a, In a all_actions -> n_actions ver <= a -> mem a (order_of acts 0) = false.

Lemma backend_upd_ok ver tbl bits e a :
  (ge ver 768 = false -> has_action bits 6 = false) ->
  pview ver tbl (p_upd bits e a) = c_upd bits (b_dentry tbl e) (pview ver tbl a).
Proof.
  intros W. unfold pview, p_upd, c_upd, b_dentry.
  cbn [a_name a_props a_listed a_latency a_gm a_dn a_order d_listed d_latency d_gm d_dn d_order
       c_name c_props c_listed c_latency c_gm c_dn c_order].
  f_equal.
  - destruct (has_action bits 2); reflexivity.
  - destruct (has_action bits 5); reflexivity.
  - destruct (ge ver 768) eqn:G.
    + destruct (has_action bits 6); reflexivity.
    + rewrite (W eq_refl). reflexivity.
Qed.

Lemma backend_upsert_ok ver tbl acts es P C :
  VRel ver tbl P C -> wf_acts ver acts ->
  let bits := bits_of (order_of acts 0) in
  VRel ver tbl (seq_upsert b_id p_new (p_upd bits) (has_action bits 0) es P)
       (client_upsert bits (map (b_dentry tbl) es) C).
Proof.
  intros H W bits. unfold client_upsert.
  apply (Rel_two_pass pattrs cinfo bentry dentry (pview ver tbl) (b_dentry tbl) b_id d_id
                      p_new c_new (p_upd bits) (c_upd bits)); [reflexivity| | |exact H].
  { intros e. unfold pview, p_new, c_new, b_dentry. cbn. destruct (ge ver 768); reflexivity. }
  intros e v. apply backend_upd_ok. intros G. unfold bits. rewrite has_bits by (cbv; tauto).
  apply W; [cbv; tauto|]. unfold n_actions, ge in *. apply N.leb_gt in G.
  replace (ver <? 768) with true by (symmetry; apply N.ltb_lt; exact G). discriminate.
Qed.

(* ---------- one operation ---------- *)

Definition wf_top (ver : N) (o : top) : Prop :=
  match o with BackendUpsert acts _ => wf_acts ver acts | _ => True end.

Lemma pstep_ok ver tbl P C o :
  VRel ver tbl P C -> wf_top ver o ->
  VRel ver tbl (fst (fst (pstep spec_tcfg ver tbl P o)))
       (apply_all C (snd (fst (pstep spec_tcfg ver tbl P o)))).
Proof.
  intros H W. destruct o as [l|id|ids|id v|id v|id v|id v|id v|id v|acts es|ids]; cbn [pstep].
  - apply add_many_ok. exact H.
  - destruct (aget id P); exact H.
  - destruct ids as [|i r].
    + destruct P as [|kv P']; [exact H|]. cbn [fst snd]. unfold apply_all. cbn [fold_left client_apply_s].
      intros k. cbn [aget option_map].
      (* every key of the proxy map is removed; the client has no other key *)
      assert (R : forall ids C0, (forall j, aget j C0 <> None -> In j ids) -> aget k (client_remove ids C0) = None).
      { unfold client_remove. induction ids as [|i r IH]; intros C0 K; cbn [fold_left].
        - destruct (aget k C0) eqn:G; [|reflexivity]. exfalso. apply (K k); congruence.
        - apply IH. intros j Hj. destruct (N.eq_dec j i) as [->|D]; [rewrite aget_adel_same in Hj; congruence|].
          rewrite aget_adel_other in Hj by exact D. destruct (K j Hj) as [E|I]; [congruence|exact I]. }
      symmetry. apply R. intros j Hj. rewrite <- (H j) in Hj.
      destruct (aget j (kv :: P')) eqn:G; [|cbn in Hj; congruence]. eapply aget_in. exact G.
    + cbn [fst snd]. rewrite apply_single. cbn [client_apply_s]. apply Rel_remove. exact H.
  - apply setter_ok; [exact H|reflexivity|reflexivity|]. intros a. unfold c_upd, pview; cbn. destruct (ge ver 768); reflexivity.
  - apply setter_ok; [exact H|reflexivity|reflexivity|]. intros a. unfold c_upd, pview; cbn. destruct (ge ver 768); reflexivity.
  - apply setter_ok; [exact H|reflexivity|reflexivity|]. intros a. unfold c_upd, pview; cbn. destruct (ge ver 768); reflexivity.
  - apply setter_ok; [exact H|reflexivity|reflexivity|]. intros a. unfold c_upd, pview; cbn. destruct (ge ver 768); reflexivity.
  - destruct (ge ver 768) eqn:G.
    + apply setter_ok; [exact H|reflexivity|reflexivity|]. intros a. unfold c_upd, pview; cbn. rewrite G. reflexivity.
    + apply setter_silent_ok; [exact H|]. intros a. unfold pview; cbn. rewrite G. reflexivity.
  - destruct (ge ver 769) eqn:G.
    + apply setter_ok; [exact H|reflexivity|reflexivity|]. intros a. unfold c_upd, pview; cbn. destruct (ge ver 768); reflexivity.
    + apply setter_silent_ok; [exact H|]. intros a. reflexivity.
  - cbn [fst snd]. rewrite apply_single. cbn [client_apply_s]. apply backend_upsert_ok; assumption.
  - cbn [fst snd]. rewrite apply_single. cbn [client_apply_s]. apply Rel_remove. exact H.
Qed.

(* ---------- histories ---------- *)

Fixpoint spackets (cf : tcfg) (ver : N) (tbl : list bytes) (s : pstate) (h : list top) : list spkt :=
  match h with
  | [] => []
  | o :: r => snd (fst (pstep cf ver tbl s o)) ++ spackets cf ver tbl (fst (fst (pstep cf ver tbl s o))) r
  end.

Theorem C28_struct ver tbl : forall h P C,
  VRel ver tbl P C -> Forall (wf_top ver) h ->
  VRel ver tbl (proxy_after spec_tcfg ver tbl P h) (apply_all C (spackets spec_tcfg ver tbl P h)).
Proof.
  induction h as [|o r IH]; intros P C H W; [exact H|].
  inversion W as [|? ? W1 W2]; subst.
  cbn [proxy_after spackets]. rewrite apply_all_app. apply IH; [|exact W2].
  apply pstep_ok; assumption.
Qed.
