(* C05 - generic theorems about fragment decoders (Model/Layout.v): termination (the fuel of the
   counted loops is never exhausted) and the allocation bound
       alloc <= kcost * len + ucost            on every input
       alloc <= kcost * consumed + scost       when decoding succeeds,
   proved once for any primitive family satisfying [pfam_ok] and [pfam_alloc_ok]. *)
From Coq Require Import List NArith ZArith Bool Lia ZifyN ZifyNat ZifyBool.
From Verif Require Import Base.Hex Model.Layout Proofs.C04_layout.
Import ListNotations.
Open Scope N_scope.

Record pfam_alloc_ok (F : pfam) (ka : N) : Prop := mk_pfam_alloc_ok {
  (* a successful primitive read allocates at most ka units per byte it consumed *)
  ok_alloc_succ : forall p bs a rest, dec_prim F p bs = Ok (a, rest) ->
      alloc_prim F p bs <= ka * (lenN bs - lenN rest);
  (* any primitive read allocates at most ka units per input byte plus its fixed cap *)
  ok_alloc_any : forall p bs, alloc_prim F p bs <= ka * lenN bs + prim_cap F p;
  (* primitives have no loops of their own *)
  ok_prim_nofuel : forall p bs, dec_prim F p bs <> Err EFuel;
  ok_flag_nofuel : forall bs, dec_flag F bs <> Err EFuel;
  ok_count_nofuel : forall bs, dec_count F bs <> Err EFuel
}.

Section Generic5.
  Variable F : pfam.
  Variable dom : prim F -> atom -> Prop.
  Variable ka : N.
  Hypothesis OK : pfam_ok F dom.
  Hypothesis OKA : pfam_alloc_ok F ka.

  Notation layout := (layout F).

  Lemma lenN_len (bs : bytes) : lenN bs = N.of_nat (length bs).
  Proof. reflexivity. Qed.

  Lemma scost_tag : forall l c z, scost F l (set_tag c z) = scost F l c.
  Proof.
    induction l as [| f p | a IHa b IHb | g a IHa b IHb | f a IHa b IHb | f o a IHa | f lim | p k | f p a IHa | k a IHa b IHb | ]; intros c z;
      cbn [scost]; try reflexivity; try (rewrite ?IHa, ?IHb; reflexivity).
    rewrite eval_guard_tag. destruct (eval_guard g c); [apply IHa | apply IHb].
  Qed.
  Lemma kcost_tag : forall l c z, kcost F ka l (set_tag c z) = kcost F ka l c.
  Proof.
    induction l as [| f p | a IHa b IHb | g a IHa b IHb | f a IHa b IHb | f o a IHa | f lim | p k | f p a IHa | k a IHa b IHb | ]; intros c z;
      cbn [kcost]; try reflexivity; try (rewrite ?IHa, ?IHb, ?scost_tag; reflexivity).
    rewrite eval_guard_tag. destruct (eval_guard g c); [apply IHa | apply IHb].
  Qed.
  Lemma ucost_tag : forall l c z, ucost F l (set_tag c z) = ucost F l c.
  Proof.
    induction l as [| f p | a IHa b IHb | g a IHa b IHb | f a IHa b IHb | f o a IHa | f lim | p k | f p a IHa | k a IHa b IHb | ]; intros c z;
      cbn [ucost]; try reflexivity; try (rewrite ?IHa, ?IHb, ?scost_tag; reflexivity).
    rewrite eval_guard_tag. destruct (eval_guard g c); [apply IHa | apply IHb].
  Qed.

  (* ---------- termination ---------- *)
  Lemma dec_many_no_fuel : forall (d : bytes -> dres),
    (forall bs al v rest, d bs = (al, Ok (v, rest)) -> (length rest < length bs)%nat) ->
    (forall bs, snd (d bs) <> Err EFuel) ->
    forall fuel n bs acc al, (length bs < fuel)%nat -> snd (dec_many d fuel n bs acc al) <> Err EFuel.
  Proof.
    intros d Hc Hn fuel. induction fuel as [|f IH]; intros n bs acc al Hl; [lia|].
    cbn [dec_many]. destruct (n =? 0); [cbn; discriminate|].
    destruct (d bs) as [a1 [[v rest]|e]] eqn:E.
    - apply IH. apply Hc in E. lia.
    - cbn [snd]. specialize (Hn bs). rewrite E in Hn. exact Hn.
  Qed.

  Theorem dec_T_terminates : forall l c bs, wf F l c = true -> dec_L F l c bs <> Err EFuel.
  Proof.
    unfold dec_L.
    induction l as [| f p | a IHa b IHb | g a IHa b IHb | f a IHa b IHb | f o a IHa | f lim | p k | f p a IHa | k a IHa b IHb | ];
      intros c bs W; cbn [dec_T wf] in *.
    - cbn. discriminate.
    - cbn [snd]. pose proof (ok_prim_nofuel F ka OKA p bs) as H.
      destruct (dec_prim F p bs) as [[x r]|e]; [discriminate | congruence].
    - apply andb_true_iff in W as [W Wb]. apply andb_true_iff in W as [Wa _].
      specialize (IHa c bs Wa).
      destruct (dec_T F a c bs) as [n1 [[x r1]|e]]; [|exact IHa].
      specialize (IHb c r1 Wb). destruct (dec_T F b c r1) as [n2 [[y r2]|e]]; [cbn; discriminate | exact IHb].
    - destruct (eval_guard g c); [apply IHa | apply IHb]; assumption.
    - apply andb_true_iff in W as [Wa Wb].
      pose proof (ok_flag_nofuel F ka OKA bs) as Hf.
      destruct (dec_flag F bs) as [[[|] r0]|e]; [| | cbn [snd]; congruence].
      + specialize (IHa c r0 Wa). destruct (dec_T F a c r0) as [n [[x r]|e]]; [cbn; discriminate | exact IHa].
      + specialize (IHb c r0 Wb). destruct (dec_T F b c r0) as [n [[x r]|e]]; [cbn; discriminate | exact IHb].
    - apply andb_true_iff in W as [W Wm]. apply andb_true_iff in W as [Wa _]. apply N.leb_le in Wm.
      pose proof (ok_count_nofuel F ka OKA bs) as Hc.
      destruct (dec_count F bs) as [[n r0]|e]; [| cbn [snd]; congruence].
      destruct (n <? 0)%Z; [destruct (rneg o); cbn; discriminate|].
      destruct (match rcap o with Some m => (m <? n)%Z | None => false end); [cbn; discriminate|].
      apply dec_many_no_fuel.
      + intros bs0 al0 v0 rest0 E0.
        pose proof (dec_consumes F dom OK a c bs0 v0 rest0 Wa) as Hd. unfold dec_L in Hd. rewrite E0 in Hd.
        specialize (Hd eq_refl). lia.
      + intro bs0. apply IHa. exact Wa.
      + lia.
    - destruct (match lim with Some m => m <? lenN bs | None => false end); cbn; discriminate.
    - cbn [snd]. pose proof (ok_prim_nofuel F ka OKA p bs) as H.
      destruct (dec_prim F p bs) as [[x r]|e]; [discriminate | congruence].
    - pose proof (ok_prim_nofuel F ka OKA p bs) as H.
      destruct (dec_prim F p bs) as [[[z| |] r0]|e]; try (cbn; discriminate); [|cbn [snd]; congruence].
      specialize (IHa (set_tag c z) r0). rewrite (wf_tag F) in IHa. specialize (IHa W).
      destruct (dec_T F a (set_tag c z) r0) as [n [[x r]|e]]; [cbn; discriminate | exact IHa].
    - apply andb_true_iff in W as [Wa Wb]. destruct (ctag c =? k)%Z; [apply IHa | apply IHb]; assumption.
    - cbn. discriminate.
  Qed.

  (* ---------- allocation ---------- *)
  Definition bound_any (l : layout) (c : ctx) (bs : bytes) : Prop :=
    fst (dec_T F l c bs) <= kcost F ka l c * lenN bs + ucost F l c.
  Definition bound_succ (l : layout) (c : ctx) (bs : bytes) : Prop :=
    forall v rest, snd (dec_T F l c bs) = Ok (v, rest) ->
      fst (dec_T F l c bs) <= kcost F ka l c * (lenN bs - lenN rest) + scost F l c.

  (* the loop: K, S, U are the body's constants; every successful iteration consumes at least one byte *)
  Lemma dec_many_alloc : forall (d : bytes -> dres) (K S U : N),
    (forall bs, fst (d bs) <= K * lenN bs + U) ->
    (forall bs v rest, snd (d bs) = Ok (v, rest) ->
        fst (d bs) <= K * (lenN bs - lenN rest) + S /\ (length rest < length bs)%nat) ->
    forall fuel n bs acc al,
      fst (dec_many d fuel n bs acc al) <= al + (K + S + 1) * lenN bs + U /\
      (forall v rest, snd (dec_many d fuel n bs acc al) = Ok (v, rest) ->
         fst (dec_many d fuel n bs acc al) <= al + (K + S + 1) * (lenN bs - lenN rest) /\
         n + lenN rest <= lenN bs).
  Proof.
    intros d K S U Hany Hsucc fuel. induction fuel as [|f IH]; intros n bs acc al; cbn [dec_many].
    - destruct (N.eqb_spec n 0) as [->|Hn]; cbn [fst snd].
      + split; [lia|]. intros v rest H. inversion H; subst. unfold lenN. lia.
      + split; [lia|]. intros v rest H. discriminate.
    - destruct (N.eqb_spec n 0) as [->|Hn]; cbn [fst snd].
      + split; [lia|]. intros v rest H. inversion H; subst. unfold lenN. lia.
      + pose proof (Hany bs) as Ha. pose proof (Hsucc bs) as Hs.
        destruct (d bs) as [a1 [[x r]|e]] eqn:E; cbn [fst snd] in *.
        * destruct (Hs x r eq_refl) as [Hs1 Hs2].
          destruct (IH (n - 1) r (x :: acc) (al + a1 + 1)) as [I1 I2].
          assert (Hr : lenN r + 1 <= lenN bs) by (unfold lenN; lia).
          split.
          -- eapply N.le_trans; [exact I1|]. nia.
          -- intros v rest H. destruct (I2 v rest H) as [J1 J2]. split; [|lia].
             eapply N.le_trans; [exact J1|]. nia.
        * split; [nia|]. intros v rest H. discriminate.
  Qed.

  Theorem dec_T_alloc_both : forall l c bs, wf F l c = true -> bound_any l c bs /\ bound_succ l c bs.
  Proof.
    unfold bound_any, bound_succ.
    induction l as [| f p | a IHa b IHb | g a IHa b IHb | f a IHa b IHb | f o a IHa | f lim | p k | f p a IHa | k a IHa b IHb | ];
      intros c bs W; cbn [dec_T wf kcost scost ucost] in *.
    - cbn [fst snd]. split; [apply N.le_0_l|]. intros; apply N.le_0_l.
    - cbn [fst snd]. split; [apply (ok_alloc_any F ka OKA)|].
      intros v rest H. destruct (dec_prim F p bs) as [[x r]|e] eqn:E; [|discriminate]. inversion H; subst.
      pose proof (ok_alloc_succ F ka OKA p bs x rest E). lia.
    - apply andb_true_iff in W as [W Wb]. apply andb_true_iff in W as [Wa _].
      destruct (IHa c bs Wa) as [A1 A2].
      destruct (dec_T F a c bs) as [n1 [[x r1]|e]] eqn:Ea; cbn [fst snd] in *.
      + specialize (A2 x r1 eq_refl).
        pose proof (dec_consumes F dom OK a c bs x r1 Wa) as Hc. unfold dec_L in Hc. rewrite Ea in Hc. specialize (Hc eq_refl).
        destruct (IHb c r1 Wb) as [B1 B2].
        destruct (dec_T F b c r1) as [n2 [[y r2]|e]] eqn:Eb; cbn [fst snd] in *.
        * specialize (B2 y r2 eq_refl).
          pose proof (dec_consumes F dom OK b c r1 y r2 Wb) as Hd. unfold dec_L in Hd. rewrite Eb in Hd. specialize (Hd eq_refl).
          assert (L1 : lenN r1 <= lenN bs) by (unfold lenN; lia).
          assert (L2 : lenN r2 <= lenN r1) by (unfold lenN; lia).
          split.
          -- nia.
          -- intros v rest H. inversion H; subst. nia.
        * assert (L1 : lenN r1 <= lenN bs) by (unfold lenN; lia).
          split; [nia|]. intros; discriminate.
      + split; [nia|]. intros; discriminate.
    - destruct (eval_guard g c); [apply IHa | apply IHb]; assumption.
    - apply andb_true_iff in W as [Wa Wb].
      destruct (dec_flag F bs) as [[fl r0]|e] eqn:Ef; cbn [fst snd].
      2:{ split; [apply N.le_0_l|]. intros; discriminate. }
      apply (ok_flag_min F dom OK) in Ef.
      assert (L0 : lenN r0 + 1 <= lenN bs) by (unfold lenN; lia).
      destruct fl.
      + destruct (IHa c r0 Wa) as [A1 A2].
        destruct (dec_T F a c r0) as [n [[x r]|e]] eqn:Ea; cbn [fst snd] in *.
        * specialize (A2 x r eq_refl).
          pose proof (dec_consumes F dom OK a c r0 x r Wa) as Hc. unfold dec_L in Hc. rewrite Ea in Hc. specialize (Hc eq_refl).
          assert (L1 : lenN r <= lenN r0) by (unfold lenN; lia).
          split; [nia|]. intros v rest H. inversion H; subst. nia.
        * split; [nia|]. intros; discriminate.
      + destruct (IHb c r0 Wb) as [B1 B2].
        destruct (dec_T F b c r0) as [n [[x r]|e]] eqn:Eb; cbn [fst snd] in *.
        * specialize (B2 x r eq_refl).
          pose proof (dec_consumes F dom OK b c r0 x r Wb) as Hc. unfold dec_L in Hc. rewrite Eb in Hc. specialize (Hc eq_refl).
          assert (L1 : lenN r <= lenN r0) by (unfold lenN; lia).
          split; [nia|]. intros v rest H. inversion H; subst. nia.
        * split; [nia|]. intros; discriminate.
    - apply andb_true_iff in W as [W Wm]. apply andb_true_iff in W as [Wa _]. apply N.leb_le in Wm.
      destruct (dec_count F bs) as [[n r0]|e] eqn:Ec; cbn [fst snd].
      2:{ split; [apply N.le_0_l|]. intros; discriminate. }
      apply (ok_count_min F dom OK) in Ec.
      assert (L0 : lenN r0 + 1 <= lenN bs) by (unfold lenN; lia).
      destruct (n <? 0)%Z.
      { destruct (rneg o); cbn [fst snd]; (split; [apply N.le_0_l|]); intros v rest H; [discriminate|]. apply N.le_0_l. }
      destruct (match rcap o with Some m => (m <? n)%Z | None => false end).
      { cbn [fst snd]. split; [apply N.le_0_l|]. intros; discriminate. }
      pose proof (dec_many_alloc (dec_T F a c) (kcost F ka a c) (scost F a c) (ucost F a c)) as DM.
      assert (H1 : forall bs0, fst (dec_T F a c bs0) <= kcost F ka a c * lenN bs0 + ucost F a c).
      { intro bs0. exact (proj1 (IHa c bs0 Wa)). }
      assert (H2 : forall bs0 v rest, snd (dec_T F a c bs0) = Ok (v, rest) ->
                 fst (dec_T F a c bs0) <= kcost F ka a c * (lenN bs0 - lenN rest) + scost F a c /\ (length rest < length bs0)%nat).
      { intros bs0 v rest H. split; [exact (proj2 (IHa c bs0 Wa) v rest H)|].
        pose proof (dec_consumes F dom OK a c bs0 v rest Wa H). lia. }
      specialize (DM H1 H2 (S (length r0)) (Z.to_N n) r0 [] (N.min (Z.to_N n) (rpre o))).
      destruct DM as [D1 D2].
      split.
      + eapply N.le_trans; [exact D1|]. nia.
      + intros v rest H. destruct (D2 v rest H) as [E1 E2].
        eapply N.le_trans; [exact E1|]. nia.
    - destruct (match lim with Some m => m <? lenN bs | None => false end); cbn [fst snd].
      + split; [lia|]. intros; discriminate.
      + split; [lia|]. intros v rest H. inversion H; subst. unfold lenN. cbn [length]. lia.
    - cbn [fst snd]. split; [apply (ok_alloc_any F ka OKA)|].
      intros v rest H. destruct (dec_prim F p bs) as [[x r]|e] eqn:E; [|discriminate]. inversion H; subst.
      pose proof (ok_alloc_succ F ka OKA p bs x rest E). lia.
    - pose proof (ok_alloc_any F ka OKA p bs) as PA.
      destruct (dec_prim F p bs) as [[[z| |] r0]|e] eqn:E; cbn [fst snd];
        try (split; [nia | intros; discriminate]).
      pose proof (ok_alloc_succ F ka OKA p bs _ r0 E) as PS.
      pose proof (ok_prim_min F dom OK p bs _ r0 E) as PM.
      assert (L0 : lenN r0 <= lenN bs) by (unfold lenN; lia).
      specialize (IHa (set_tag c z) r0). rewrite (wf_tag F), kcost_tag, ucost_tag, scost_tag in IHa. destruct (IHa W) as [A1 A2].
      destruct (dec_T F a (set_tag c z) r0) as [n [[x r]|e]] eqn:Ea; cbn [fst snd] in *.
      + specialize (A2 x r eq_refl).
        pose proof (dec_consumes F dom OK a (set_tag c z) r0 x r) as Hc. unfold dec_L in Hc. rewrite (wf_tag F), Ea in Hc. specialize (Hc W eq_refl).
        assert (L1 : lenN r <= lenN r0) by (unfold lenN; lia).
        split; [nia|]. intros v rest H. inversion H; subst. nia.
      + split; [nia|]. intros; discriminate.
    - apply andb_true_iff in W as [Wa Wb].
      destruct (ctag c =? k)%Z.
      + destruct (IHa c bs Wa) as [A1 A2]. split; [nia|]. intros v rest H. specialize (A2 v rest H). nia.
      + destruct (IHb c bs Wb) as [B1 B2]. split; [nia|]. intros v rest H. specialize (B2 v rest H). nia.
    - cbn [fst snd]. split; [apply N.le_0_l|]. intros; discriminate.
  Qed.

  Theorem dec_T_alloc : forall l c bs, wf F l c = true ->
    alloc_L F l c bs <= kcost F ka l c * lenN bs + ucost F l c.
  Proof. intros l c bs W. apply (dec_T_alloc_both l c bs W). Qed.
End Generic5.
