(* C37 — proofs about Model/ConfigValidate.v: validation reports an error exactly when a documented
   constraint is broken. *)
From Coq Require Import List NArith ZArith Bool Lia.
From Verif Require Import Base.Hex Model.ConfigValidate.
Import ListNotations.

(* ---------------------------------------------------------------- the documented constraints, declaratively *)

Definition QuotaBroken (q : quota) : Prop :=
  q_enabled q = true /\ (f32_gt_zero (q_ops q) = false \/ (q_burst q < 1)%Z \/ (q_max q < 1)%Z).

(* lower-cased valid names of the allow list *)
Definition bf_keys (names : list str) : list str := map lower_ascii (filter valid_name names).

Definition BFBroken (c : cfg) : Prop :=
  bedrock_enabled c = false
  \/ bf_allowed c = []
  \/ (exists n, In n (bf_allowed c) /\ valid_name n = false)
  \/ ~ NoDup (bf_keys (bf_allowed c))
  \/ (exists k, In k (bf_keys (bf_allowed c)) /\ ~ In k (map lower_ascii (server_names c)))
  \/ ~ (fwd_mode c = s_none \/ fwd_mode c = s_velocity)
  \/ bf_key_ok c = false.

Definition RouteBroken (r : route) : Prop :=
  r_hosts r = [] \/ r_backends r = []
  \/ (~ In (r_strategy r) strategies /\ r_strategy r <> [])
  \/ (exists a, In a (r_backends r) /\ lite_parse_fails a = true /\ contains_params a = false).

Definition LiteBroken (rs : list route) : Prop := rs = [] \/ exists r, In r rs /\ RouteBroken r.

Definition ClassicBroken (c : cfg) : Prop :=
  (via_enabled c = true /\
     (~ In (via_mode c) [[]; s_embedded; s_subprocess] \/ (via_bind c <> [] /\ valid_host_port (via_bind c) = false)))
  \/ ~ In (fwd_mode c) [s_none; s_legacy; s_velocity; s_bungeeguard]
  \/ (exists n a, In (n, a) (servers c) /\ (valid_name n = false \/ valid_host_port a = false))
  \/ (exists n, In n (try c) /\ ~ In n (server_names c))
  \/ (exists h ns n, In (h, ns) (forced c) /\ In n ns /\ ~ In n (server_names c))
  \/ ~ NoDup (map lower_ascii (map fst (forced c)))
  \/ (level c < -1 \/ level c > 9)%Z
  \/ (threshold c < -1)%Z.

Definition Broken (c : cfg) : Prop :=
  (health_enabled c = true /\ valid_host_port (health_bind c) = false)
  \/ all_space (bind c) = true
  \/ valid_host_port (bind c) = false
  \/ QuotaBroken (q_conn c) \/ QuotaBroken (q_login c)
  \/ trusted_ok c = false
  \/ (bf_enabled c = true /\ BFBroken c)
  \/ (lite_enabled c = true /\ LiteBroken (routes c))
  \/ (lite_enabled c = false /\ ClassicBroken c).

(* ---------------------------------------------------------------- list helpers *)

Lemma app_ne : forall (A : Type) (a b : list A), a ++ b <> [] <-> a <> [] \/ b <> [].
Proof.
  intros A a b. split.
  - intro H. destruct a as [|x a']; [right; exact H | left; discriminate].
  - intros [H|H] E; apply app_eq_nil in E; destruct E; contradiction.
Qed.

Lemma ite_ne : forall (A : Type) (b : bool) (x : A), (if b then [x] else []) <> [] <-> b = true.
Proof. intros A [] x; split; intro H; try discriminate; try reflexivity; exfalso; apply H; reflexivity. Qed.

Lemma ite_ne' : forall (A : Type) (b : bool) (x : A), (if b then [] else [x]) <> [] <-> b = false.
Proof. intros A [] x; split; intro H; try discriminate; try reflexivity; exfalso; apply H; reflexivity. Qed.

Lemma nil_ne : forall (A : Type), (@nil A) <> [] <-> False.
Proof. intros; split; [intro H; apply H; reflexivity | intros []]. Qed.

Lemma flat_map_ne : forall (A B : Type) (f : A -> list B) (l : list A),
  flat_map f l <> [] <-> exists x, In x l /\ f x <> [].
Proof.
  intros A B f l. induction l as [|a r IH]; cbn.
  - split; [intro H; exfalso; apply H; reflexivity | intros (x & [] & _)].
  - rewrite app_ne, IH. split.
    + intros [H | (x & Hx & Hf)]; [exists a; auto | exists x; auto].
    + intros (x & [E | Hx] & Hf); [subst; left; exact Hf | right; exists x; auto].
Qed.

Lemma mem_str_In : forall x l, mem_str x l = true <-> In x l.
Proof.
  intros x l. induction l as [|y r IH]; cbn; [split; [discriminate | intros []]|].
  rewrite orb_true_iff, IH, beq_bytes_eq. split; intros [H|H]; auto.
Qed.

Lemma mem_str_notIn : forall x l, mem_str x l = false <-> ~ In x l.
Proof.
  intros x l. rewrite <- mem_str_In. destruct (mem_str x l); intuition congruence.
Qed.

Lemma beq_false : forall a b, beq_bytes a b = false <-> a <> b.
Proof.
  intros a b. rewrite <- beq_bytes_eq. destruct (beq_bytes a b); intuition congruence.
Qed.

(* ---------------------------------------------------------------- piece by piece *)

Lemma v_bind_ne : forall c, v_bind c <> [] <-> all_space (bind c) = true \/ valid_host_port (bind c) = false.
Proof.
  intro c. unfold v_bind. destruct (all_space (bind c)).
  - split; [intros _; left; reflexivity | intros _; discriminate].
  - destruct (valid_host_port (bind c)); split.
    + intro H; exfalso; apply H; reflexivity.
    + intros [H|H]; discriminate.
    + intros _; right; reflexivity.
    + intros _; discriminate.
Qed.

Lemma v_quota_ne : forall q, v_quota (fun b => negb (f32_gt_zero b)) q <> [] <-> QuotaBroken q.
Proof.
  intro q. unfold v_quota, QuotaBroken. destruct (q_enabled q).
  - rewrite !app_ne, !ite_ne, negb_true_iff, !Z.ltb_lt. tauto.
  - rewrite nil_ne. split; [intros [] | intros [H _]; discriminate].
Qed.

Lemma v_trusted_ne : forall c, v_trusted c <> [] <-> trusted_ok c = false.
Proof. intro c. unfold v_trusted. apply ite_ne'. Qed.

(* the allow-list loop: silent exactly when every name is valid, no key repeats or was seen before, and every
   key is registered *)
Lemma bf_loop_nil : forall reg names seen,
  bf_loop reg seen names = [] <->
  (forall n, In n names -> valid_name n = true)
  /\ (forall k, In k (bf_keys names) -> ~ In k seen)
  /\ NoDup (bf_keys names)
  /\ (forall k, In k (bf_keys names) -> In k reg).
Proof.
  intros reg names. induction names as [|n r IH]; intro seen.
  - cbn. split; [intros _ | reflexivity]. repeat split; try (intros ? []). constructor.
  - cbn [bf_loop]. unfold bf_keys in *. cbn [filter]. destruct (valid_name n) eqn:V; cbn [negb].
    + cbn [map]. destruct (mem_str (lower_ascii n) seen) eqn:M.
      * split; [discriminate|]. intros (_ & D & _). apply mem_str_In in M. exfalso. apply (D (lower_ascii n)); [left; reflexivity | exact M].
      * apply mem_str_notIn in M.
        destruct (mem_str (lower_ascii n) reg) eqn:R.
        -- apply mem_str_In in R. cbn [app]. rewrite IH. split.
           ++ intros (A & B & C & D). repeat split.
              ** intros m [E|Hm]; [subst; exact V | apply A; exact Hm].
              ** intros k [E|Hk]; [subst; exact M | intro Hs; apply (B k Hk); right; exact Hs].
              ** constructor; [intro Hn; apply (B _ Hn); left; reflexivity | exact C].
              ** intros k [E|Hk]; [subst; exact R | apply D; exact Hk].
           ++ intros (A & B & C & D). inversion C as [|x l Hnot Hnd]; subst. repeat split.
              ** intros m Hm. apply A. right. exact Hm.
              ** intros k Hk [E|Hs]; [subst; contradiction | apply (B k); [right; exact Hk | exact Hs]].
              ** exact Hnd.
              ** intros k Hk. apply D. right. exact Hk.
        -- apply mem_str_notIn in R. cbn [app]. split; [discriminate|].
           intros (_ & _ & _ & D). exfalso. apply R. apply D. left. reflexivity.
    + split; [discriminate|]. intros (A & _). specialize (A n (or_introl eq_refl)). congruence.
Qed.

Lemma bed_bf_loop_nil : forall names seen,
  bed_bf_loop seen names = [] <->
  (forall n, In n names -> valid_name n = true)
  /\ (forall k, In k (bf_keys names) -> ~ In k seen)
  /\ NoDup (bf_keys names).
Proof.
  induction names as [|n r IH]; intro seen.
  - cbn. split; [intros _ | reflexivity]. repeat split; try (intros ? []). constructor.
  - cbn [bed_bf_loop]. unfold bf_keys in *. cbn [filter]. destruct (valid_name n) eqn:V; cbn [negb].
    + cbn [map]. destruct (mem_str (lower_ascii n) seen) eqn:M.
      * split; [discriminate|]. intros (_ & D & _). apply mem_str_In in M. exfalso. apply (D (lower_ascii n)); [left; reflexivity | exact M].
      * apply mem_str_notIn in M. rewrite IH. split.
        -- intros (A & B & C). repeat split.
           ++ intros m [E|Hm]; [subst; exact V | apply A; exact Hm].
           ++ intros k [E|Hk]; [subst; exact M | intro Hs; apply (B k Hk); right; exact Hs].
           ++ constructor; [intro Hn; apply (B _ Hn); left; reflexivity | exact C].
        -- intros (A & B & C). inversion C as [|x l Hnot Hnd]; subst. repeat split.
           ++ intros m Hm. apply A. right. exact Hm.
           ++ intros k Hk [E|Hs]; [subst; contradiction | apply (B k); [right; exact Hk | exact Hs]].
           ++ exact Hnd.
    + split; [discriminate|]. intros (A & _). specialize (A n (or_introl eq_refl)). congruence.
Qed.

(* decidable pieces used to turn "= []" statements into the positive disjunctions of Broken *)
Lemma all_valid_dec : forall names, (forall n, In n names -> valid_name n = true) \/ (exists n, In n names /\ valid_name n = false).
Proof.
  induction names as [|n r [IH|(m & Hm & Vm)]].
  - left. intros ? [].
  - destruct (valid_name n) eqn:V.
    + left. intros m [E|Hm]; [subst; exact V | apply IH; exact Hm].
    + right. exists n. split; [left; reflexivity | exact V].
  - right. exists m. split; [right; exact Hm | exact Vm].
Qed.

Lemma str_eq_dec : forall a b : str, {a = b} + {a <> b}.
Proof. intros a b. destruct (beq_bytes a b) eqn:E; [left; apply beq_bytes_eq; exact E | right; apply beq_false; exact E]. Qed.

Lemma all_in_dec : forall (ks reg : list str), (forall k, In k ks -> In k reg) \/ (exists k, In k ks /\ ~ In k reg).
Proof.
  induction ks as [|k r IH]; intro reg.
  - left. intros ? [].
  - destruct (in_dec str_eq_dec k reg) as [I|NI].
    + destruct (IH reg) as [A|(m & Hm & Nm)].
      * left. intros x [E|Hx]; [subst; exact I | apply A; exact Hx].
      * right. exists m. split; [right; exact Hm | exact Nm].
    + right. exists k. split; [left; reflexivity | exact NI].
Qed.

Lemma nodup_dec : forall l : list str, NoDup l \/ ~ NoDup l.
Proof.
  induction l as [|x r [IH|IH]].
  - left. constructor.
  - destruct (in_dec str_eq_dec x r) as [I|NI].
    + right. intro H. inversion H; contradiction.
    + left. constructor; assumption.
  - right. intro H. inversion H; contradiction.
Qed.

Lemma bf_loop_ne : forall reg names,
  bf_loop reg [] names <> [] <->
  (exists n, In n names /\ valid_name n = false) \/ ~ NoDup (bf_keys names)
  \/ (exists k, In k (bf_keys names) /\ ~ In k reg).
Proof.
  intros reg names. rewrite bf_loop_nil. split.
  - intro H. destruct (all_valid_dec names) as [A|A]; [|left; exact A].
    destruct (nodup_dec (bf_keys names)) as [D|D]; [|right; left; exact D].
    destruct (all_in_dec (bf_keys names) reg) as [R|R]; [|right; right; exact R].
    exfalso. apply H. repeat split; auto.
  - intros [(n & Hn & V) | [D | (k & Hk & NR)]] (A & _ & C & R).
    + rewrite (A n Hn) in V. discriminate.
    + contradiction.
    + apply NR, R, Hk.
Qed.

Lemma bed_bf_loop_ne : forall names,
  bed_bf_loop [] names <> [] -> (exists n, In n names /\ valid_name n = false) \/ ~ NoDup (bf_keys names).
Proof.
  intros names H. rewrite bed_bf_loop_nil in H.
  destruct (all_valid_dec names) as [A|A]; [|left; exact A].
  destruct (nodup_dec (bf_keys names)) as [D|D]; [|right; exact D].
  exfalso. apply H. repeat split; auto.
Qed.

Lemma list_nil_ne : forall (A B : Type) (l : list A) (x : B), (match l with [] => [x] | _ => [] end) <> [] <-> l = [].
Proof. intros A B [|a l] x; split; intro H; try reflexivity; try discriminate. exfalso; apply H; reflexivity. Qed.

Lemma fwd_bf_ne : forall m,
  (if beq_bytes m s_none || beq_bytes m s_velocity then []
   else if beq_bytes m s_legacy || beq_bytes m s_bungeeguard then [BFFwdIncompatible] else [BFFwdUnknown]) <> []
  <-> ~ (m = s_none \/ m = s_velocity).
Proof.
  intro m. destruct (beq_bytes m s_none || beq_bytes m s_velocity) eqn:E.
  - apply orb_true_iff in E. rewrite !beq_bytes_eq in E. split; [intro H; exfalso; apply H; reflexivity | intro H; contradiction].
  - apply orb_false_iff in E. destruct E as [E1 E2]. apply beq_false in E1, E2.
    split; [intros _ [H|H]; contradiction|]. intros _. destruct (beq_bytes m s_legacy || beq_bytes m s_bungeeguard); discriminate.
Qed.

Lemma v_bf_ne : forall c, v_bf c <> [] <-> bf_enabled c = true /\ BFBroken c.
Proof.
  intro c. unfold v_bf, BFBroken. destruct (bf_enabled c); cbn [negb].
  - rewrite !app_ne, ite_ne', list_nil_ne, bf_loop_ne, fwd_bf_ne, ite_ne'. tauto.
  - rewrite nil_ne. split; [intros [] | intros [H _]; discriminate].
Qed.

Lemma v_bedrock_sub : forall c, v_bedrock c <> [] -> bf_enabled c = true /\ BFBroken c.
Proof.
  intros c H. unfold v_bedrock in H. destruct (bedrock_enabled c) eqn:B; [|exfalso; apply H; reflexivity].
  destruct (bf_enabled c) eqn:E; [|exfalso; apply H; reflexivity]. cbn [andb] in H.
  split; [reflexivity|]. unfold BFBroken. apply app_ne in H. destruct H as [H|H].
  - apply list_nil_ne in H. auto.
  - apply bed_bf_loop_ne in H. destruct H as [H|H]; auto.
Qed.

(* Lite *)
Lemma v_backends_ne : forall bs i j,
  v_backends i j bs <> [] <-> exists a, In a bs /\ lite_parse_fails a = true /\ contains_params a = false.
Proof.
  induction bs as [|a r IH]; intros i j; cbn [v_backends].
  - rewrite nil_ne. split; [intros [] | intros (a & [] & _)].
  - rewrite app_ne, ite_ne, andb_true_iff, negb_true_iff, IH. split.
    + intros [[H1 H2] | (b & Hb & H)]; [exists a; cbn; auto | exists b; cbn; auto].
    + intros (b & [E|Hb] & H); [subst; left; exact H | right; exists b; auto].
Qed.

Lemma v_route_ne : forall i r, v_route i r <> [] <-> RouteBroken r.
Proof.
  intros i r. unfold v_route, RouteBroken.
  rewrite !app_ne, !list_nil_ne, ite_ne, andb_true_iff, !negb_true_iff, mem_str_notIn, beq_false, flat_map_ne.
  split.
  - intros [H | [H | [H | (h & Hh & Hb)]]]; auto.
    apply v_backends_ne in Hb. auto.
  - intros [H | [H | [H | Hb]]]; auto.
    destruct (r_hosts r) as [|h hs] eqn:E; [left; reflexivity|].
    right; right; right. exists h. split; [left; reflexivity | apply v_backends_ne; exact Hb].
Qed.

Lemma v_routes_ne : forall rs i, v_routes i rs <> [] <-> exists r, In r rs /\ RouteBroken r.
Proof.
  induction rs as [|r rest IH]; intro i; cbn [v_routes].
  - rewrite nil_ne. split; [intros [] | intros (r & [] & _)].
  - rewrite app_ne, v_route_ne, IH. split.
    + intros [H | (x & Hx & H)]; [exists r; cbn; auto | exists x; cbn; auto].
    + intros (x & [E|Hx] & H); [subst; left; exact H | right; exists x; auto].
Qed.

Lemma v_lite_ne : forall c, v_lite c <> [] <-> LiteBroken (routes c).
Proof.
  intro c. unfold v_lite, LiteBroken. destruct (routes c) as [|r rs] eqn:E.
  - split; [intros _; left; reflexivity | intros _; discriminate].
  - rewrite <- E. rewrite v_routes_ne. rewrite E. split; [intro H; right; exact H | intros [H|H]; [discriminate | exact H]].
Qed.

(* classic *)
Lemma v_via_ne : forall c, v_via c <> [] <->
  via_enabled c = true /\
  (~ In (via_mode c) [[]; s_embedded; s_subprocess] \/ (via_bind c <> [] /\ valid_host_port (via_bind c) = false)).
Proof.
  intro c. unfold v_via. destruct (via_enabled c); cbn [negb].
  - rewrite app_ne, ite_ne'. rewrite !orb_false_iff, !beq_false.
    assert (B : (if beq_bytes (via_bind c) [] then [] else if valid_host_port (via_bind c) then [] else [ViaBind]) <> []
                <-> via_bind c <> [] /\ valid_host_port (via_bind c) = false).
    { destruct (beq_bytes (via_bind c) []) eqn:E.
      - apply beq_bytes_eq in E. rewrite nil_ne. split; [intros [] | intros [H _]; contradiction].
      - apply beq_false in E. rewrite ite_ne'. tauto. }
    rewrite B. cbn [In]. split.
    + intros [((A & B1) & C) | H]; [|split; [reflexivity | right; exact H]].
      split; [reflexivity|]. left. intros [H|[H|[H|[]]]]; congruence.
    + intros [_ [H | H]]; [|right; exact H]. left. repeat split; intro E; apply H; rewrite E; auto.
  - rewrite nil_ne. split; [intros [] | intros [H _]; discriminate].
Qed.

Lemma v_fwd_ne : forall c, v_fwd c <> [] <-> ~ In (fwd_mode c) [s_none; s_legacy; s_velocity; s_bungeeguard].
Proof.
  intro c. unfold v_fwd, fwd_known. rewrite ite_ne', !orb_false_iff, !beq_false. cbn [In]. split.
  - intros (((A & B) & C) & D) [H|[H|[H|[H|[]]]]]; congruence.
  - intro H. repeat split; intro E; apply H; rewrite E; auto.
Qed.

Lemma v_servers_ne : forall c, flat_map v_server (servers c) <> [] <->
  exists n a, In (n, a) (servers c) /\ (valid_name n = false \/ valid_host_port a = false).
Proof.
  intro c. rewrite flat_map_ne. split.
  - intros ([n a] & Hin & H). exists n, a. split; [exact Hin|]. unfold v_server in H. cbn [fst snd] in H.
    rewrite app_ne, !ite_ne' in H. exact H.
  - intros (n & a & Hin & H). exists (n, a). split; [exact Hin|]. unfold v_server. cbn [fst snd].
    rewrite app_ne, !ite_ne'. exact H.
Qed.

Lemma v_try_ne : forall c, v_try c <> [] <-> exists n, In n (try c) /\ ~ In n (server_names c).
Proof.
  intro c. unfold v_try. rewrite flat_map_ne. split; intros (n & Hin & H); exists n; split; auto.
  - rewrite ite_ne' in H. apply mem_str_notIn. exact H.
  - rewrite ite_ne'. apply mem_str_notIn. exact H.
Qed.

Lemma v_forced_ne : forall c, v_forced c <> [] <->
  exists h ns n, In (h, ns) (forced c) /\ In n ns /\ ~ In n (server_names c).
Proof.
  intro c. unfold v_forced. rewrite flat_map_ne. split.
  - intros ([h ns] & Hin & H). cbn [snd] in H. apply flat_map_ne in H. destruct H as (n & Hn & H).
    rewrite ite_ne' in H. exists h, ns, n. repeat split; auto. apply mem_str_notIn. exact H.
  - intros (h & ns & n & Hin & Hn & H). exists (h, ns). split; [exact Hin|]. cbn [snd]. apply flat_map_ne.
    exists n. split; [exact Hn|]. rewrite ite_ne'. apply mem_str_notIn. exact H.
Qed.

Lemma nodup_str_NoDup : forall l, nodup_str l = true <-> NoDup l.
Proof.
  induction l as [|x r IH]; cbn.
  - split; [constructor | reflexivity].
  - rewrite andb_true_iff, negb_true_iff, mem_str_notIn, IH. split.
    + intros [A B]. constructor; assumption.
    + intro H. inversion H; auto.
Qed.

Lemma dup_loop_nil : forall l seen, dup_loop seen l = [] <-> NoDup l /\ (forall k, In k l -> ~ In k seen).
Proof.
  induction l as [|k r IH]; intro seen; cbn [dup_loop].
  - split; [intros _; split; [constructor | intros ? []] | reflexivity].
  - destruct (mem_str k seen) eqn:M.
    + apply mem_str_In in M. split; [discriminate|]. intros [_ D]. exfalso. apply (D k); [left; reflexivity | exact M].
    + apply mem_str_notIn in M. rewrite IH. split.
      * intros [A B]. split.
        -- constructor; [intro Hk; apply (B k Hk); left; reflexivity | exact A].
        -- intros x [E|Hx]; [subst; exact M | intro Hs; apply (B x Hx); right; exact Hs].
      * intros [A B]. inversion A as [|y l Hnot Hnd]; subst. split; [exact Hnd|].
        intros x Hx [E|Hs]; [subst; contradiction | apply (B x); [right; exact Hx | exact Hs]].
Qed.

Lemma v_forced_dup_ne : forall c, v_forced_dup true c <> [] <-> ~ NoDup (map lower_ascii (map fst (forced c))).
Proof.
  intro c. unfold v_forced_dup, forced_keys. split.
  - intros H N. apply H. apply dup_loop_nil. split; [exact N | intros ? ? []].
  - intros H E. apply dup_loop_nil in E. apply H, E.
Qed.

Lemma v_level_ne : forall c, v_level c <> [] <-> (level c < -1 \/ level c > 9)%Z.
Proof. intro c. unfold v_level. rewrite ite_ne, orb_true_iff, !Z.ltb_lt. lia. Qed.

Lemma v_threshold_ne : forall c, v_threshold c <> [] <-> (threshold c < -1)%Z.
Proof. intro c. unfold v_threshold. rewrite ite_ne, Z.ltb_lt. tauto. Qed.

Lemma v_classic_ne : forall c, v_classic true c <> [] <-> ClassicBroken c.
Proof.
  intro c. unfold v_classic, ClassicBroken.
  rewrite !app_ne, v_via_ne, v_fwd_ne, v_servers_ne, v_try_ne, v_forced_ne, v_forced_dup_ne, v_level_ne, v_threshold_ne. tauto.
Qed.

Lemma health_ne : forall c,
  (if health_enabled c then (if valid_host_port (health_bind c) then [] else [HealthBind]) else []) <> []
  <-> health_enabled c = true /\ valid_host_port (health_bind c) = false.
Proof.
  intro c. destruct (health_enabled c).
  - rewrite ite_ne'. tauto.
  - rewrite nil_ne. split; [intros [] | intros [H _]; discriminate].
Qed.

(* ---------------------------------------------------------------- the theorem *)

Theorem C37_iff : forall c, validate c <> [] <-> Broken c.
Proof.
  intro c. unfold validate, impl_validate, gen_validate, java_validate, Broken.
  rewrite !app_ne, health_ne, v_bind_ne, !v_quota_ne, v_trusted_ne, v_bf_ne.
  assert (L : (if lite_enabled c then v_lite c else v_classic true c) <> [] <->
              (lite_enabled c = true /\ LiteBroken (routes c)) \/ (lite_enabled c = false /\ ClassicBroken c)).
  { destruct (lite_enabled c).
    - rewrite v_lite_ne. split; [intro H; left; auto | intros [[_ H]|[H _]]; [exact H | discriminate]].
    - rewrite v_classic_ne. split; [intro H; right; auto | intros [[H _]|[_ H]]; [discriminate | exact H]]. }
  rewrite L. split.
  - intros [H | [[H | [H | [H | [H | [H | H]]]]] | H]]; try tauto.
    apply v_bedrock_sub in H. tauto.
  - tauto.
Qed.

(* accepted = no error = no documented constraint broken *)
Corollary C37_accepts_exactly : forall c, validate c = [] <-> ~ Broken c.
Proof.
  intro c. rewrite <- C37_iff. split; [intros H N; apply N; exact H|].
  intro H. destruct (validate c); [reflexivity | exfalso; apply H; discriminate].
Qed.

(* today's code is the specified validator *)
Lemma C37_impl_is_spec : forall c, impl_validate c = spec_validate c.
Proof. reflexivity. Qed.

(* ---------------------------------------------------------------- the PRE-FIX code (fixed findings C37-1, C37-2) *)

Lemma v_quota_impl_eq : forall q, (q_enabled q && f32_is_nan (q_ops q)) = false ->
  v_quota f32_le_zero q = v_quota (fun b => negb (f32_gt_zero b)) q.
Proof.
  intros q H. unfold v_quota. destruct (q_enabled q); [|reflexivity]. cbn [andb] in H.
  unfold f32_le_zero, f32_gt_zero. rewrite H. cbn [negb andb].
  destruct (f32_sign (q_ops q)), (f32_is_zero (q_ops q)); reflexivity.
Qed.

Theorem prefix_eq_spec_off_trigger : forall c, nan_quota c = false -> forced_dup_trigger c = false ->
  prefix_validate c = spec_validate c.
Proof.
  intros c H F. unfold nan_quota in H. apply orb_false_iff in H. destruct H as [H1 H2].
  unfold prefix_validate, spec_validate, gen_validate, java_validate.
  rewrite (v_quota_impl_eq _ H1), (v_quota_impl_eq _ H2).
  unfold forced_dup_trigger in F. destruct (lite_enabled c); [reflexivity|]. cbn [negb andb] in F.
  unfold v_classic, v_forced_dup. unfold forced_collision in F. apply negb_false_iff in F. apply nodup_str_NoDup in F.
  assert (E : dup_loop [] (forced_keys c) = []) by (apply dup_loop_nil; split; [exact F | intros ? ? []]).
  rewrite E. reflexivity.
Qed.

From Coq Require Import String.
Local Open Scope string_scope.
Local Open Scope N_scope.

(* a valid base: the shipped defaults with two servers *)
Definition base_cfg : cfg :=
  mkcfg false (tx "0.0.0.0:9090") (tx "0.0.0.0:25565")
        (mkq true 1084227584 10 1000) (mkq true 1053609165 3 1000)   (* 5.0 and 0.4 as float32 bits *)
        true false false [] true
        false []
        false [] []
        (tx "legacy")
        [(tx "server1", tx "localhost:25566"); (tx "server2", tx "localhost:25567")]
        [tx "server1"; tx "server2"]
        [(tx "creative.example.com", [tx "server2"])]
        (-1) 256.

Lemma base_accepted : validate base_cfg = [] /\ prefix_validate base_cfg = [].
Proof. vm_compute. split; reflexivity. Qed.

(* the same with connections.ops = NaN (0x7fc00000) *)
Definition nan_cfg : cfg :=
  mkcfg false (tx "0.0.0.0:9090") (tx "0.0.0.0:25565")
        (mkq true 2143289344 10 1000) (mkq true 1053609165 3 1000)
        true false false [] true false [] false [] [] (tx "legacy")
        [(tx "server1", tx "localhost:25566")] [tx "server1"] [] (-1) 256.

Theorem C37_prefix_refuted : exists c, nan_quota c = true /\ Broken c /\ prefix_validate c = [] /\ impl_validate c = [QuotaOps].
Proof.
  exists nan_cfg. split; [vm_compute; reflexivity|]. split.
  - apply C37_iff. vm_compute. discriminate.
  - split; vm_compute; reflexivity.
Qed.

(* finding C37-2: two forced-host keys that differ only in case *)
Definition dup_cfg : cfg :=
  mkcfg false (tx "0.0.0.0:9090") (tx "0.0.0.0:25565")
        (mkq true 1084227584 10 1000) (mkq true 1053609165 3 1000)
        true false false [] true false [] false [] [] (tx "legacy")
        [(tx "s1", tx "localhost:1"); (tx "s2", tx "localhost:2")] []
        [(tx "A.example.com", [tx "s1"]); (tx "a.example.com", [tx "s2"])] (-1) 256.

Theorem C37_prefix_refuted_forced : exists c,
  forced_dup_trigger c = true /\ Broken c /\ prefix_validate c = [] /\ impl_validate c = [ForcedCaseDup].
Proof.
  exists dup_cfg. split; [vm_compute; reflexivity|]. split.
  - apply C37_iff. vm_compute. discriminate.
  - split; vm_compute; reflexivity.
Qed.

(* non-vacuity of both directions on concrete configurations *)
Lemma C37_nonvacuous :
  ~ Broken base_cfg /\
  (exists c, Broken c /\ validate c = [CompressionLevel; CompressionThreshold]).
Proof.
  split.
  - apply C37_accepts_exactly. apply base_accepted.
  - exists (mkcfg false [] (tx "0.0.0.0:25565") (mkq false 0 0 0) (mkq false 0 0 0) true false false [] true
                  false [] false [] [] (tx "legacy") [] [] [] 10 (-2)).
    split; [apply C37_iff; vm_compute; discriminate | vm_compute; reflexivity].
Qed.
