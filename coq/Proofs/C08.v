(* C08 - proofs about Model/Login.v, for all packet sequences (induction over the operation list with
   a history: the operations consumed so far and the outputs emitted so far). *)
From Coq Require Import List Bool Lia.
From Verif Require Import Model.Login.
Import ListNotations.

(* ---- run_from -------------------------------------------------------------------------------- *)

Lemma run_from_cons c p o r :
  run_from c p (o :: r) =
  (fst (run_from c (fst (step c p o)) r), snd (step c p o) :: snd (run_from c (fst (step c p o)) r)).
Proof.
  cbn [run_from]. destruct (step c p o) as [p1 os]. cbn [fst snd].
  destruct (run_from c p1 r) as [p2 oss]. reflexivity.
Qed.

Lemma run_from_app c : forall a p b,
  run_from c p (a ++ b) =
  (fst (run_from c (fst (run_from c p a)) b),
   snd (run_from c p a) ++ snd (run_from c (fst (run_from c p a)) b)).
Proof.
  induction a as [|o a IH]; intros p b.
  - cbn [app run_from fst snd]. destruct (run_from c p b); reflexivity.
  - rewrite <- app_comm_cons. rewrite !run_from_cons. cbn [fst snd]. rewrite IH. reflexivity.
Qed.

Lemma concat_map_nil {A B} (l : list A) : concat (map (fun _ => @nil B) l) = [].
Proof. induction l; cbn; auto. Qed.

(* ---- closed is absorbing ----------------------------------------------------------------------- *)

Lemma run_from_closed c : forall ops, run_from c PClosed ops = (PClosed, map (fun _ => []) ops).
Proof.
  induction ops as [|o r IH]; [reflexivity|].
  rewrite run_from_cons. cbn [step fst snd map]. rewrite IH. reflexivity.
Qed.

Theorem closed_absorbing c ops :
  fst (run_from c PClosed ops) = PClosed /\ concat (snd (run_from c PClosed ops)) = [].
Proof. rewrite run_from_closed. cbn [fst snd]. split; [reflexivity|apply concat_map_nil]. Qed.

(* for whole runs: once the state after a prefix is closed, the rest adds nothing *)
Theorem closed_absorbing_run c pre post :
  final c pre = PClosed ->
  trace c (pre ++ post) = trace c pre /\ final c (pre ++ post) = PClosed.
Proof.
  unfold final, trace, outs, run. intro H. rewrite run_from_app. cbn [fst snd]. rewrite H.
  destruct (closed_absorbing c post) as [H1 H2]. rewrite concat_app, H2, app_nil_r. auto.
Qed.

(* ---- out of order closes ----------------------------------------------------------------------- *)

Lemma step_out_of_order c p o : p <> PClosed -> in_order c p o = false ->
  step c p o = (PClosed, [OClose]).
Proof.
  intros Hp Hi. destruct p as [s k outst| |]; [| |congruence].
  - destruct o as [nv key|t se kl|id| |]; cbn [step in_order] in *.
    + destruct s; try reflexivity; discriminate.
    + destruct s; try reflexivity; discriminate.
    + rewrite Hi. reflexivity.
    + reflexivity.
    + reflexivity.
  - destruct o as [nv key|t se kl|id| |]; cbn [step in_order] in *; try reflexivity.
    + rewrite Hi. reflexivity.
    + discriminate.
Qed.

Lemma proceed_online c k : effective_online c = true -> provider c = false ->
  proceed c k = (PInit EncRequestSent k [], [OEncRequest]).
Proof. intros H1 H2. unfold proceed. rewrite H1, H2. reflexivity. Qed.

(* a plugin response either only changes the set of outstanding ids, or - as the last awaited answer
   in the waiting state - runs the continuation of handleServerLogin *)
Lemma handle_plugin_cases c s k outst id :
  (exists outst', handle_plugin c s k outst id = (PInit s k outst', [])) \/
  (s = LoginReceived /\ handle_plugin c s k outst id = proceed c k).
Proof.
  unfold handle_plugin. destruct (existsb (Nat.eqb id) outst); [|left; eexists; reflexivity].
  destruct (remove_id id outst) as [|a r]; [|left; eexists; reflexivity].
  destruct s; try (left; eexists; reflexivity). right. auto.
Qed.

Lemma proceed_phase c k : fst (proceed c k) = PInit EncRequestSent k [] \/ fst (proceed c k) = PAuthWait \/ fst (proceed c k) = PClosed.
Proof.
  unfold proceed, activate. destruct (effective_online c), (provider c), (has_ack c); cbn; auto.
Qed.

Theorem out_of_order_closes_run c pre o post :
  final c pre <> PClosed -> in_order c (final c pre) o = false ->
  trace c (pre ++ o :: post) = trace c pre ++ [OClose] /\ final c (pre ++ o :: post) = PClosed.
Proof.
  unfold final, trace, outs, run. intros Hp Hi. rewrite run_from_app. cbn [fst snd].
  rewrite run_from_cons. rewrite (step_out_of_order c _ o Hp Hi). cbn [fst snd].
  destruct (closed_absorbing c post) as [H1 H2].
  rewrite concat_app. cbn [concat]. rewrite H2, H1. auto.
Qed.

(* a second login start is out of order whatever happened in between *)
Lemma not_login_expected_after c : forall ops p,
  (forall k o, p <> PInit LoginExpected k o) -> forall k o, fst (run_from c p ops) <> PInit LoginExpected k o.
Proof.
  induction ops as [|op r IH]; intros p Hp k o; [apply Hp|].
  rewrite run_from_cons. cbn [fst]. apply IH. intros k' o' E.
  destruct p as [s k0 outst| |]; cbn [step] in E.
  - destruct op as [nv key|t se kl|id| |].
    + destruct s; try discriminate E. exfalso. apply (Hp k0 outst). reflexivity.
    + destruct s; try discriminate E. unfold handle_enc in E.
      destruct (negb t); [discriminate|]. destruct (negb se); [discriminate|]. destruct (negb kl); [discriminate|].
      destruct (outcome c); try discriminate E. unfold activate in E. destruct (has_ack c); discriminate E.
    + destruct (has_plugin c); [|discriminate E].
      destruct (handle_plugin_cases c s k0 outst id) as [[o2 H]|[Hs H]]; rewrite H in E; cbn [fst] in E.
      * inversion E; subst. apply (Hp k' outst). reflexivity.
      * destruct (proceed_phase c k0) as [P|[P|P]]; rewrite P in E; discriminate E.
    + discriminate E.
    + discriminate E.
  - destruct op; try discriminate E. destruct (has_plugin c); discriminate E.
  - discriminate E.
Qed.

Lemma step_login_leaves_expected c p nv key k o : fst (step c p (LoginStart nv key)) <> PInit LoginExpected k o.
Proof.
  destruct p as [s k0 outst| |]; cbn [step fst]; try discriminate.
  destruct s; cbn [fst]; try discriminate.
  unfold handle_login. destruct (negb nv); [discriminate|].
  assert (G : forall kk, fst (match queued_msgs c with [] => proceed c kk
                  | _ :: _ => (PInit LoginReceived kk (queued_msgs c), map OPluginMsg (queued_msgs c)) end)
              <> PInit LoginExpected k o).
  { intro kk. destruct (queued_msgs c); [|discriminate].
    destruct (proceed_phase c kk) as [P|[P|P]]; rewrite P; discriminate. }
  destruct (if key_window c then key else KNone); try discriminate.
  - destruct (key_window c && force_key c); [discriminate|]. destruct (pre c); try discriminate; apply G.
  - destruct (pre c); try discriminate; apply G.
Qed.

Theorem repeated_login_start_out_of_order c pre nv key mid nv' key' :
  in_order c (final c (pre ++ LoginStart nv key :: mid)) (LoginStart nv' key') = false.
Proof.
  unfold final, run. rewrite run_from_app. cbn [fst]. rewrite run_from_cons. cbn [fst in_order].
  set (q := fst (step c (fst (run_from c init pre)) (LoginStart nv key))).
  pose proof (not_login_expected_after c mid q (fun k o => step_login_leaves_expected c _ nv key k o)) as H.
  destruct (fst (run_from c q mid)) as [s k o| |]; try reflexivity.
  destruct s; try reflexivity. exfalso. apply (H k o). reflexivity.
Qed.

(* ---- the chain of custody ---------------------------------------------------------------------- *)

Definition all_plugin (l : list op) : Prop := Forall (fun o => is_plugin_resp o = true) l.

Definition full_chain : list out := [OEncRequest; OEncEnabled; OJoin; ORegister; OSuccess USession].

(* the history the property demands before an admission *)
Definition Chain (c : cfg) (tr : list out) (done : list op) : Prop :=
  outcome c = SProfile /\ chain_of tr = full_chain /\
  exists pre ls mid er post,
    done = pre ++ ls :: mid ++ er :: post /\ good_login c ls = true /\ good_enc er = true /\
    all_plugin pre /\ all_plugin mid.

(* one acceptable login start so far, and otherwise only plugin responses *)
Definition AfterLogin (c : cfg) (done : list op) : Prop :=
  exists pre ls mid, done = pre ++ ls :: mid /\ good_login c ls = true /\ all_plugin pre /\ all_plugin mid.

Definition Inv (c : cfg) (p : phase) (tr : list out) (done : list op) : Prop :=
  match p with
  | PInit LoginExpected _ _ => chain_of tr = [] /\ all_plugin done
  | PInit LoginReceived _ _ => chain_of tr = [] /\ AfterLogin c done      (* waiting for plugin answers *)
  | PInit EncRequestSent _ _ => chain_of tr = [OEncRequest] /\ AfterLogin c done
  | PInit _ _ _ => False
  | PAuthWait => Chain c tr done
  | PClosed => admitted tr = false \/ Chain c tr done
  end.

Lemma chain_of_app a b : chain_of (a ++ b) = chain_of a ++ chain_of b.
Proof. apply filter_app. Qed.

Lemma admitted_chain tr : admitted tr = existsb is_admission (chain_of tr).
Proof.
  unfold admitted, chain_of. induction tr as [|x r IH]; [reflexivity|].
  cbn [existsb filter]. rewrite IH. destruct x; reflexivity.
Qed.

Lemma chain_of_plugin_msgs l : chain_of (map OPluginMsg l) = [].
Proof. induction l; cbn; auto. Qed.

Lemma all_plugin_snoc l id : all_plugin l -> all_plugin (l ++ [PluginResp id]).
Proof. intro H. apply Forall_app. split; [exact H|constructor; [reflexivity|constructor]]. Qed.

Lemma AfterLogin_snoc c done id : AfterLogin c done -> AfterLogin c (done ++ [PluginResp id]).
Proof.
  intros (pre_ & ls & mid & E & G & A1 & A2). exists pre_, ls, (mid ++ [PluginResp id]).
  split; [rewrite E, <- app_assoc; reflexivity|]. split; [exact G|]. split; [exact A1|apply all_plugin_snoc; exact A2].
Qed.

Lemma Chain_extend c tr done os o :
  Chain c tr done -> chain_of os = [] -> Chain c (tr ++ os) (done ++ [o]).
Proof.
  intros (Ho & Hc & pre & ls & mid & er & post & E & G1 & G2 & A1 & A2) Hos.
  split; [exact Ho|]. split; [rewrite chain_of_app, Hos, app_nil_r; exact Hc|].
  exists pre, ls, mid, er, (post ++ [o]). repeat split; try assumption.
  rewrite E. rewrite <- !app_assoc. cbn [app]. rewrite <- app_assoc. reflexivity.
Qed.

(* one step preserves the invariant (effective online mode, no profile-providing transport) *)
Lemma step_inv c p tr done o :
  effective_online c = true -> provider c = false ->
  Inv c p tr done ->
  Inv c (fst (step c p o)) (tr ++ snd (step c p o)) (done ++ [o]).
Proof.
  intros Hon Hpr HI.
  assert (NoAdm : forall os, chain_of tr = [] \/ chain_of tr = [OEncRequest] ->
            existsb is_admission (chain_of os) = false -> admitted (tr ++ os) = false).
  { intros os Ht Hos. rewrite admitted_chain, chain_of_app, existsb_app, Hos.
    destruct Ht as [-> | ->]; reflexivity. }
  (* a plugin response in a state of the login handler: the set of ids changes, or the login continues *)
  assert (Plug : forall s k outst id,
            chain_of tr = [] \/ chain_of tr = [OEncRequest] ->
            (forall o2, Inv c (PInit s k o2) tr (done ++ [PluginResp id])) ->
            (s = LoginReceived -> chain_of tr = [] /\ AfterLogin c (done ++ [PluginResp id])) ->
            Inv c (fst (handle_plugin c s k outst id)) (tr ++ snd (handle_plugin c s k outst id)) (done ++ [PluginResp id])).
  { intros s k outst id Ht Hsame Hcont.
    destruct (handle_plugin_cases c s k outst id) as [[o2 H]|[Hs H]]; rewrite H; cbn [fst snd].
    - rewrite app_nil_r. apply Hsame.
    - rewrite (proceed_online c k Hon Hpr). cbn [fst snd Inv].
      destruct (Hcont Hs) as [Hc HA]. split; [rewrite chain_of_app, Hc; reflexivity|exact HA]. }
  destruct p as [s k outst| |].
  - destruct s; cbn [Inv] in HI; try contradiction.
    + (* LoginExpected *)
      destruct HI as [Hc Hd].
      destruct o as [nv key|t se kl|id| |]; cbn [step].
      * (* login start *)
        unfold handle_login.
        destruct nv; cbn [negb].
        2:{ cbn [fst snd Inv]. left. apply NoAdm; [left; exact Hc|reflexivity]. }
        remember (if key_window c then key else KNone) as kk eqn:Ek.
        assert (Bye : Inv c PClosed (tr ++ [ODisconnect; OClose]) (done ++ [LoginStart true key])).
        { cbn [Inv]. left. apply NoAdm; [left; exact Hc|reflexivity]. }
        assert (Go : good_login c (LoginStart true key) = true ->
                Inv c (fst (match queued_msgs c with [] => proceed c kk
                        | _ :: _ => (PInit LoginReceived kk (queued_msgs c), map OPluginMsg (queued_msgs c)) end))
                      (tr ++ snd (match queued_msgs c with [] => proceed c kk
                        | _ :: _ => (PInit LoginReceived kk (queued_msgs c), map OPluginMsg (queued_msgs c)) end))
                      (done ++ [LoginStart true key])).
        { intro G.
          assert (AL : AfterLogin c (done ++ [LoginStart true key])).
          { exists done, (LoginStart true key), []. split; [reflexivity|]. split; [exact G|]. split; [exact Hd|constructor]. }
          destruct (queued_msgs c) as [|a r].
          - rewrite (proceed_online c kk Hon Hpr). cbn [fst snd Inv].
            split; [rewrite chain_of_app, Hc; reflexivity|exact AL].
          - cbn [fst snd Inv]. split; [rewrite chain_of_app, Hc, chain_of_plugin_msgs; reflexivity|exact AL]. }
        destruct kk; try exact Bye.
        -- destruct (key_window c && force_key c) eqn:Ef; [exact Bye|].
           destruct (pre c) eqn:Epre; try exact Bye; apply Go; cbn [good_login]; rewrite <- Ek, Ef, Epre; reflexivity.
        -- destruct (pre c) eqn:Epre; try exact Bye; apply Go; cbn [good_login]; rewrite <- Ek, Epre; reflexivity.
      * cbn [fst snd Inv]. left. apply NoAdm; [left; exact Hc|reflexivity].
      * destruct (has_plugin c).
        -- apply Plug; [left; exact Hc| |discriminate].
           intro o2. cbn [Inv]. split; [exact Hc|apply all_plugin_snoc; exact Hd].
        -- cbn [fst snd Inv]. left. apply NoAdm; [left; exact Hc|reflexivity].
      * cbn [fst snd Inv]. left. apply NoAdm; [left; exact Hc|reflexivity].
      * cbn [fst snd Inv]. left. apply NoAdm; [left; exact Hc|reflexivity].
    + (* LoginReceived: waiting for the answers to the pre-login plugin messages *)
      destruct HI as [Hc HA].
      destruct o as [nv key|t se kl|id| |]; cbn [step];
        try (cbn [fst snd Inv]; left; apply NoAdm; [left; exact Hc|reflexivity]).
      destruct (has_plugin c).
      * apply Plug; [left; exact Hc| |].
        -- intro o2. cbn [Inv]. split; [exact Hc|apply AfterLogin_snoc; exact HA].
        -- intros _. split; [exact Hc|apply AfterLogin_snoc; exact HA].
      * cbn [fst snd Inv]. left. apply NoAdm; [left; exact Hc|reflexivity].
    + (* EncRequestSent *)
      destruct HI as [Hc HA].
      destruct o as [nv key|t se kl|id| |]; cbn [step].
      * cbn [fst snd Inv]. left. apply NoAdm; [right; exact Hc|reflexivity].
      * unfold handle_enc.
        destruct t; cbn [negb]; [|cbn [fst snd Inv]; left; apply NoAdm; [right; exact Hc|reflexivity]].
        destruct se; cbn [negb]; [|cbn [fst snd Inv]; left; apply NoAdm; [right; exact Hc|reflexivity]].
        destruct kl; cbn [negb]; [|cbn [fst snd Inv]; left; apply NoAdm; [right; exact Hc|reflexivity]].
        destruct (outcome c) eqn:Eo;
          try (cbn [fst snd Inv]; left; apply NoAdm; [right; exact Hc|reflexivity]).
        destruct HA as (pre_ & ls & mid & E & G & A1 & A2).
        assert (CH : forall os, chain_of os = [OEncEnabled; OJoin; ORegister; OSuccess USession] ->
                     Chain c (tr ++ os) (done ++ [EncResp true true true])).
        { intros os Hos. split; [exact Eo|]. split; [rewrite chain_of_app, Hc, Hos; reflexivity|].
          exists pre_, ls, mid, (EncResp true true true), [].
          repeat split; try assumption. rewrite E, <- app_assoc. reflexivity. }
        unfold activate. destruct (has_ack c), (compress c); cbn [fst snd Inv app];
          try (right); apply CH; reflexivity.
      * destruct (has_plugin c).
        -- apply Plug; [right; exact Hc| |discriminate].
           intro o2. cbn [Inv]. split; [exact Hc|apply AfterLogin_snoc; exact HA].
        -- cbn [fst snd Inv]. left. apply NoAdm; [right; exact Hc|reflexivity].
      * cbn [fst snd Inv]. left. apply NoAdm; [right; exact Hc|reflexivity].
      * cbn [fst snd Inv]. left. apply NoAdm; [right; exact Hc|reflexivity].
  - (* PAuthWait *)
    cbn [Inv] in HI.
    destruct o as [nv key|t se kl|id| |]; cbn [step fst snd Inv];
      try (right; apply Chain_extend; [exact HI|reflexivity]).
    destruct (has_plugin c); cbn [fst snd Inv].
    + apply Chain_extend; [exact HI|reflexivity].
    + right. apply Chain_extend; [exact HI|reflexivity].
  - (* PClosed *)
    cbn [step fst snd Inv] in *. rewrite app_nil_r. destruct HI as [H|H]; [left; exact H|right].
    replace tr with (tr ++ []) by apply app_nil_r. apply Chain_extend; [exact H|reflexivity].
Qed.

Lemma run_inv c : effective_online c = true -> provider c = false ->
  forall ops p tr done, Inv c p tr done ->
  Inv c (fst (run_from c p ops)) (tr ++ concat (snd (run_from c p ops))) (done ++ ops).
Proof.
  intros Hon Hpr. induction ops as [|o r IH]; intros p tr done HI.
  - cbn [run_from fst snd concat]. rewrite !app_nil_r. exact HI.
  - rewrite run_from_cons. cbn [fst snd concat].
    pose proof (step_inv c p tr done o Hon Hpr HI) as H1.
    specialize (IH _ _ _ H1). rewrite <- !app_assoc in IH. cbn [app] in IH. exact IH.
Qed.

(* In online mode (not forced offline, no profile-providing transport): if login success is ever
   written or the player is ever registered, then the events of the chain occurred exactly once each
   and in this order - encryption request, encryption enabled, hasJoined call, registration, login
   success with the session identity -, the session server returned a profile, and the packets
   received before the admission were exactly: an acceptable login start, later a fully valid
   encryption response, and nothing else but plugin responses. *)
Theorem admitted_implies_chain_thm c ops :
  effective_online c = true -> provider c = false ->
  admitted (trace c ops) = true ->
  outcome c = SProfile /\
  chain_of (trace c ops) = [OEncRequest; OEncEnabled; OJoin; ORegister; OSuccess USession] /\
  exists pre ls mid er post,
    ops = pre ++ ls :: mid ++ er :: post /\ good_login c ls = true /\ good_enc er = true /\
    all_plugin pre /\ all_plugin mid.
Proof.
  intros Hon Hpr Hadm.
  assert (I0 : Inv c init [] []) by (cbn; split; [reflexivity|constructor]).
  pose proof (run_inv c Hon Hpr ops init [] [] I0) as H. cbn [app] in H.
  unfold trace, outs, run in *.
  rewrite admitted_chain in Hadm.
  destruct (fst (run_from c init ops)) as [s k o| |]; cbn [Inv] in H.
  - destruct s; try contradiction; destruct H as [Hc _]; rewrite Hc in Hadm; discriminate.
  - exact H.
  - destruct H as [H|H]; [rewrite admitted_chain in H; congruence|exact H].
Qed.

(* ---- the bypasses and the identity that is announced (forwarding clause of C10) ---------------- *)

Definition Inv2 (p : phase) : Prop :=
  match p with PInit LoginExpected _ _ | PInit LoginReceived _ _ | PAuthWait | PClosed => True | _ => False end.

Lemma activate_src c v u : In (OSuccess u) (snd (activate c v)) -> u = v.
Proof.
  unfold activate. destruct (has_ack c), (compress c); cbn; intro H;
    repeat (destruct H as [H|H]; [try discriminate H; try (inversion H; reflexivity)|]); contradiction.
Qed.
Lemma activate_phase c v : Inv2 (fst (activate c v)).
Proof. unfold activate. destruct (has_ack c); exact I. Qed.

Lemma proceed_offline c k : effective_online c = false -> proceed c k = activate c UOffline.
Proof. intro H. unfold proceed. rewrite H. reflexivity. Qed.

Lemma no_success_in_msgs l u : ~ In (OSuccess u) (map OPluginMsg l).
Proof. induction l; cbn; intuition discriminate. Qed.

Lemma step_offline c p o : effective_online c = false -> Inv2 p ->
  Inv2 (fst (step c p o)) /\ forall u, In (OSuccess u) (snd (step c p o)) -> u = UOffline.
Proof.
  intros Hoff HI.
  assert (Plug : forall s k outst id, Inv2 (PInit s k []) ->
            Inv2 (fst (handle_plugin c s k outst id)) /\
            forall u, In (OSuccess u) (snd (handle_plugin c s k outst id)) -> u = UOffline).
  { intros s k outst id Hs.
    destruct (handle_plugin_cases c s k outst id) as [[o2 H]|[E H]]; rewrite H.
    - split; [destruct s; exact Hs|cbn; contradiction].
    - rewrite (proceed_offline c k Hoff). split; [apply activate_phase|apply activate_src]. }
  destruct p as [s k outst| |]; cbn [Inv2] in HI.
  - destruct s; try contradiction.
    + destruct o as [nv key|t se kl|id| |]; cbn [step].
      * unfold handle_login.
        destruct (negb nv); [split; [exact I|cbn; intuition discriminate]|].
        assert (G : forall kk, Inv2 (fst (match queued_msgs c with [] => proceed c kk
                        | _ :: _ => (PInit LoginReceived kk (queued_msgs c), map OPluginMsg (queued_msgs c)) end)) /\
                    forall u, In (OSuccess u) (snd (match queued_msgs c with [] => proceed c kk
                        | _ :: _ => (PInit LoginReceived kk (queued_msgs c), map OPluginMsg (queued_msgs c)) end)) -> u = UOffline).
        { intro kk. destruct (queued_msgs c) as [|a r].
          - rewrite (proceed_offline c kk Hoff). split; [apply activate_phase|apply activate_src].
          - cbn [fst snd]. split; [exact I|]. intros u H. exfalso. exact (no_success_in_msgs _ _ H). }
        destruct (if key_window c then key else KNone);
          try (split; [exact I|cbn; intuition discriminate]).
        -- destruct (key_window c && force_key c); [split; [exact I|cbn; intuition discriminate]|].
           destruct (pre c); try apply G. split; [exact I|cbn; intuition discriminate].
        -- destruct (pre c); try apply G. split; [exact I|cbn; intuition discriminate].
      * split; [exact I|cbn; intuition discriminate].
      * destruct (has_plugin c); [apply Plug; exact I|split; [exact I|cbn; intuition discriminate]].
      * split; [exact I|cbn; intuition discriminate].
      * split; [exact I|cbn; intuition discriminate].
    + destruct o as [nv key|t se kl|id| |]; cbn [step]; try (split; [exact I|cbn; intuition discriminate]).
      destruct (has_plugin c); [apply Plug; exact I|split; [exact I|cbn; intuition discriminate]].
  - destruct o; cbn [step]; try (split; [exact I|cbn; intuition discriminate]).
    destruct (has_plugin c); (split; [exact I|cbn; intuition discriminate]).
  - cbn [step]. split; [exact I|cbn; contradiction].
Qed.

(* Offline mode (config offline or forced offline by a pre-login handler): every login success that
   is ever written announces the offline identity OfflinePlayerUUID (name) - whatever the forwarding
   mode, in particular "none". *)
Theorem offline_announces_offline_uuid c : effective_online c = false ->
  forall ops u, In (OSuccess u) (trace c ops) -> u = UOffline.
Proof.
  intro Hoff.
  assert (G : forall ops p, Inv2 p -> forall u, In (OSuccess u) (concat (snd (run_from c p ops))) -> u = UOffline).
  { induction ops as [|o r IH]; intros p HI u H; [cbn in H; contradiction|].
    rewrite run_from_cons in H. cbn [snd concat] in H. apply in_app_or in H.
    destruct (step_offline c p o Hoff HI) as [H1 H2].
    destruct H as [H|H]; [apply H2; exact H|eapply IH; eassumption]. }
  intros ops u H. apply (G ops init); [exact I|exact H].
Qed.

(* ---- non-vacuity ------------------------------------------------------------------------------ *)

Definition cfg_online : cfg := mkCfg true PAllow false true true true false true SProfile 0.
Definition cfg_online_msgs : cfg := mkCfg true PAllow false true true true false true SProfile 2.
Definition cfg_offline : cfg := mkCfg false PAllow false true true true false true SProfile 0.

Example chain_example :
  effective_online cfg_online = true /\ provider cfg_online = false /\
  admitted (trace cfg_online [LoginStart true KNone; PluginResp 7; EncResp true true true; LoginAck]) = true /\
  outs cfg_online [LoginStart true KNone; PluginResp 7; EncResp true true true; LoginAck]
  = [[OEncRequest]; []; [OEncEnabled; OJoin; OSetCompression; ORegister; OSuccess USession]; [OPost; OClose]].
Proof. vm_compute. repeat split; reflexivity. Qed.

Example out_of_order_example :
  final cfg_online [LoginStart true KNone] <> PClosed /\
  in_order cfg_online (final cfg_online [LoginStart true KNone]) (LoginStart true KNone) = false /\
  in_order cfg_online (final cfg_online [LoginStart true KNone]) LoginAck = false /\
  outs cfg_online [LoginStart true KNone; LoginStart true KNone; EncResp true true true]
  = [[OEncRequest]; [OClose]; []].
Proof. vm_compute. repeat split; try reflexivity. discriminate. Qed.

(* a PreLogin subscriber sent two plugin messages: the login waits; a second login start meanwhile is
   out of order and closes; answered in any order (with a duplicate and an unknown id) it continues *)
Example waiting_example :
  outs cfg_online_msgs [LoginStart true KNone; LoginStart true KNone; PluginResp 1; PluginResp 2; EncResp true true true]
  = [[OPluginMsg 1; OPluginMsg 2]; [OClose]; []; []; []] /\
  in_order cfg_online_msgs (final cfg_online_msgs [LoginStart true KNone]) (LoginStart true KNone) = false /\
  outs cfg_online_msgs [LoginStart true KNone; PluginResp 2; PluginResp 2; PluginResp 9; PluginResp 1; EncResp true true true]
  = [[OPluginMsg 1; OPluginMsg 2]; []; []; []; [OEncRequest]; [OEncEnabled; OJoin; OSetCompression; ORegister; OSuccess USession]].
Proof. vm_compute. repeat split; reflexivity. Qed.

Example offline_example :
  effective_online cfg_offline = false /\
  outs cfg_offline [LoginStart true KNone] = [[OSetCompression; ORegister; OSuccess UOffline]].
Proof. vm_compute. split; reflexivity. Qed.
