(* C24 — proofs about Model/PluginQueue.v *)
From Coq Require Import List NArith Bool Lia Sorted ZifyN ZifyNat ZifyBool.
From Verif Require Import Base.Conc Model.PluginQueue.
Import ListNotations.
Open Scope N_scope.

(* ---------- small list facts ---------- *)
Lemma sum_sizes_app a b : sum_sizes (a ++ b) = sum_sizes a + sum_sizes b.
Proof. induction a as [|x a IH]; cbn; [reflexivity|]. rewrite IH. lia. Qed.

Lemma delivered_ids_app a b : delivered_ids (a ++ b) = delivered_ids a ++ delivered_ids b.
Proof. unfold delivered_ids. apply flat_map_app. Qed.

Lemma delivered_ids_deliver_all t l : delivered_ids (deliver_all t l) = ids l.
Proof. induction l as [|m l IH]; cbn; [reflexivity|]. f_equal. exact IH. Qed.

Lemma ids_app a b : ids (a ++ b) = ids a ++ ids b.
Proof. apply map_app. Qed.

Lemma sorted_snoc (l : list N) x :
  StronglySorted N.lt l -> Forall (fun y => y < x) l -> StronglySorted N.lt (l ++ [x]).
Proof.
  induction l as [|a l IH]; intros HS HF; cbn.
  - constructor; constructor.
  - inversion HS as [|? ? HS' HA]; subst. inversion HF as [|? ? Hax HF']; subst.
    constructor; [apply IH; assumption|].
    apply Forall_app. split; [assumption|]. constructor; [assumption|constructor].
Qed.

Lemma sorted_prefix (a b : list N) : StronglySorted N.lt (a ++ b) -> StronglySorted N.lt a.
Proof.
  induction a as [|x a IH]; intro H; [constructor|].
  cbn in H. inversion H as [|? ? HS HF]; subst. constructor; [auto|].
  apply Forall_app in HF. tauto.
Qed.

Lemma count_up_snoc n : forall from, count_up (S n) from = count_up n from ++ [from + N.of_nat n].
Proof.
  induction n as [|n IH]; intro from.
  - cbn. f_equal. lia.
  - change (count_up (S (S n)) from) with (from :: count_up (S n) (from + 1)).
    rewrite IH. cbn [count_up app]. f_equal. f_equal. f_equal. lia.
Qed.

Lemma count_up_succ (x : N) : count_up (N.to_nat (x + 1)) 0 = count_up (N.to_nat x) 0 ++ [x].
Proof.
  replace (N.to_nat (x + 1)) with (S (N.to_nat x)) by lia.
  rewrite count_up_snoc. f_equal. f_equal. lia.
Qed.

(* ---------- run over a concatenation ---------- *)
Lemma run_app k : forall a b s,
  run k s (a ++ b) =
  let '(s1, e1) := run k s a in let '(s2, e2) := run k s1 b in (s2, e1 ++ e2).
Proof.
  induction a as [|o a IH]; intros b s; cbn.
  - destruct (run k s b). reflexivity.
  - destruct (step k s o) as [s1 e1]. rewrite IH.
    destruct (run k s1 a) as [s2 e2]. destruct (run k s2 b) as [s3 e3]. now rewrite app_assoc.
Qed.

(* ---------- bounded: an invariant of every step ---------- *)
Definition wf (s : st) : Prop :=
  N.of_nat (length (q s)) <= max_msgs /\ qbytes s = sum_sizes (q s) /\ qbytes s <= max_bytes.

Lemma wf_init : wf init.
Proof. unfold wf, init, max_msgs, max_bytes; cbn. lia. Qed.

Lemma wf_empty o r d n : wf (mkSt [] 0 o r d n).
Proof. unfold wf, max_msgs, max_bytes; cbn. lia. Qed.

Lemma wf_enqueue s size : wf s -> wf (fst (enqueue s size)).
Proof.
  intros (H1 & H2 & H3). unfold enqueue.
  destruct (ovf s); cbn; [repeat split; assumption|].
  destruct (exceeds s size) eqn:E; cbn; [apply wf_empty|].
  unfold exceeds in E. apply orb_false_iff in E. destruct E as [E1 E2].
  unfold wf; cbn. rewrite app_length, sum_sizes_app. cbn. unfold max_msgs, max_bytes in *. lia.
Qed.

Lemma wf_step k s o : wf s -> wf (fst (step k s o)).
Proof.
  intro H. destruct o as [[t|] size|srv [|]|]; cbn.
  - destruct (opt_eqb (ready s) t); [exact H|apply wf_enqueue, H].
  - destruct k; [apply wf_enqueue, H|exact H].
  - destruct k; [destruct (opt_eqb (ready s) srv); [exact H|apply wf_empty]|apply wf_empty].
  - exact H.
  - apply wf_empty.
Qed.

Lemma wf_run k : forall ops s, wf s -> wf (fst (run k s ops)).
Proof.
  induction ops as [|o ops IH]; intros s H; cbn; [exact H|].
  pose proof (wf_step k s o H) as H1. destruct (step k s o) as [s1 e1]. cbn in H1.
  specialize (IH s1 H1). destruct (run k s1 ops). exact IH.
Qed.

Lemma bounded_all_histories : forall k ops,
  let s := fst (run k init ops) in
  N.of_nat (length (q s)) <= 1024 /\ qbytes s <= 4194304 /\ qbytes s = sum_sizes (q s).
Proof. intros k ops s. destruct (wf_run k ops init wf_init) as (A & B & C). unfold max_msgs, max_bytes in *. tauto. Qed.

Lemma run_max_bounded k : forall ops s, wf s ->
  fst (run_max k s ops) <= max_msgs /\ snd (run_max k s ops) <= max_bytes.
Proof.
  induction ops as [|o ops IH]; intros s H; cbn.
  - destruct H as (A & B & C). split; assumption.
  - specialize (IH _ (wf_step k s o H)). destruct (run_max k (fst (step k s o)) ops) as [a b].
    cbn in *. destruct H as (A & B & C). lia.
Qed.

(* ---------- overflow ---------- *)
Lemma exceeds_spec s size :
  exceeds s size = true <-> (1024 < N.of_nat (length (q s)) + 1 \/ 4194304 < qbytes s + size).
Proof. unfold exceeds, max_msgs, max_bytes. rewrite orb_true_iff, !N.ltb_lt. tauto. Qed.

Lemma overflow_step k s t size :
  opt_eqb (ready s) t = false -> ovf s = false -> exceeds s size = true ->
  step k s (OMsg (Some t) size) =
    (mkSt [] 0 true (ready s) true (sent s + 1), if dead s then [] else [Disconnect]).
Proof. intros R O E. cbn. rewrite R. unfold enqueue. rewrite O, E. reflexivity. Qed.

Lemma latched_step k s t size :
  opt_eqb (ready s) t = false -> ovf s = true ->
  q (fst (step k s (OMsg (Some t) size))) = q s /\ snd (step k s (OMsg (Some t) size)) = [] /\
  ovf (fst (step k s (OMsg (Some t) size))) = true.
Proof. intros R O. cbn. rewrite R. unfold enqueue. rewrite O. cbn. auto. Qed.

Lemma accept_step k s t size :
  opt_eqb (ready s) t = false -> ovf s = false -> exceeds s size = false ->
  step k s (OMsg (Some t) size) =
    (mkSt (q s ++ [mkQ (sent s) size]) (qbytes s + size) false (ready s) (dead s) (sent s + 1), []).
Proof. intros R O E. cbn. rewrite R. unfold enqueue. rewrite O, E. reflexivity. Qed.

(* the player is disconnected exactly when an overflow happened, in every history *)
Definition disc_inv (s : st) (es : list out) : Prop :=
  (dead s = true <-> In Disconnect es) /\ (ovf s = true -> dead s = true).

Lemma disc_inv_step k s o es : disc_inv s es -> disc_inv (fst (step k s o)) (es ++ snd (step k s o)).
Proof.
  intros [D O].
  assert (Hsame : forall s', dead s' = dead s -> (ovf s' = true -> ovf s = true) -> disc_inv s' (es ++ [])).
  { intros s' E1 E2. rewrite app_nil_r. split; [rewrite E1; exact D|]. intro H. rewrite E1. auto. }
  assert (Henq : forall size, disc_inv (fst (enqueue s size)) (es ++ snd (enqueue s size))).
  { intro size. unfold enqueue. destruct (ovf s) eqn:EO; cbn.
    - apply Hsame; auto.
    - destruct (exceeds s size); cbn.
      + split; [|auto]. split; [intros _|reflexivity].
        apply in_or_app. destruct (dead s) eqn:ED; [left; apply D; reflexivity|right; left; reflexivity].
      + apply Hsame; cbn; auto. }
  destruct o as [[t|] size|srv [|]|]; cbn.
  - destruct (opt_eqb (ready s) t); cbn; [|apply Henq].
    split.
    + rewrite D. split; intro H; [apply in_or_app; left; exact H|].
      apply in_app_or in H. destruct H as [H|[H|[]]]; [exact H|discriminate].
    + exact O.
  - destruct k; [apply Henq|apply Hsame; auto].
  - assert (Hdel : forall l s', dead s' = dead s -> (ovf s' = true -> ovf s = true) ->
                               disc_inv s' (es ++ deliver_all srv l)).
    { intros l s' E1 E2. split; [|intro H; rewrite E1; auto].
      rewrite E1, D. split; intro H; [apply in_or_app; left; exact H|].
      apply in_app_or in H. destruct H as [H|H]; [exact H|].
      unfold deliver_all in H. apply in_map_iff in H. destruct H as (m & Hm & _). discriminate. }
    destruct k; [destruct (opt_eqb (ready s) srv); [apply Hsame; auto|apply Hdel; auto]|apply Hdel; auto].
  - apply Hsame; auto.
  - apply Hsame; cbn; auto. discriminate.
Qed.

Lemma disc_inv_run k : forall ops s es, disc_inv s es ->
  disc_inv (fst (run k s ops)) (es ++ snd (run k s ops)).
Proof.
  induction ops as [|o ops IH]; intros s es H; cbn; [now rewrite app_nil_r|].
  pose proof (disc_inv_step k s o es H) as H1. destruct (step k s o) as [s1 e1]. cbn in H1.
  specialize (IH s1 (es ++ e1) H1). destruct (run k s1 ops) as [s2 e2]. cbn in *.
  now rewrite app_assoc.
Qed.

Lemma overflow_disconnects_history : forall k ops,
  let '(s, es) := run k init ops in
  (dead s = true <-> In Disconnect es) /\ (ovf s = true -> In Disconnect es).
Proof.
  intros k ops. pose proof (disc_inv_run k ops init []) as H.
  destruct (run k init ops) as [s es]. cbn in H.
  destruct H as [D O]; [split; cbn; [split; [discriminate|contradiction]|discriminate]|].
  split; [exact D|]. intro HO. apply D, O, HO.
Qed.

(* ---------- exactly once, in order: one epoch towards backend t ---------- *)
Local Arguments delivered_ids : simpl never.
Local Arguments ids : simpl never.
Local Arguments count_up : simpl never.
Lemma ids_nil : ids [] = []. Proof. reflexivity. Qed.
Lemma delivered_one t i z : delivered_ids [Deliver t i z] = [i]. Proof. reflexivity. Qed.
Lemma delivered_nil : delivered_ids [] = []. Proof. reflexivity. Qed.
Lemma delivered_disc : delivered_ids [Disconnect] = []. Proof. reflexivity. Qed.
Lemma ids_one i z : ids [mkQ i z] = [i]. Proof. reflexivity. Qed.
Definition epoch_op (t : N) (o : op) : Prop :=
  match o with
  | OMsg (Some t') _ => t' = t
  | OFlush s _ => s = t
  | _ => False
  end.

Definition seq_inv (t : N) (s : st) (es : list out) : Prop :=
  let l := delivered_ids es ++ ids (q s) in
  (ready s = None \/ ready s = Some t) /\
  (ready s = Some t -> q s = []) /\
  StronglySorted N.lt l /\ Forall (fun x => x < sent s) l /\
  (ovf s = false -> l = count_up (N.to_nat (sent s)) 0) /\
  Forall (fun e => match e with Deliver s' _ _ => s' = t | Disconnect => True end) es.

Lemma seq_inv_init t : seq_inv t init [].
Proof. unfold seq_inv, init; cbn. repeat split; auto; constructor. Qed.

Lemma Forall_lt_succ (l : list N) x : Forall (fun y => y < x) l -> Forall (fun y => y < x + 1) l.
Proof. intro H. eapply Forall_impl; [|exact H]. cbn. intros. lia. Qed.

Lemma seq_inv_step k t s o es : epoch_op t o -> seq_inv t s es ->
  seq_inv t (fst (step k s o)) (es ++ snd (step k s o)).
Proof.
  intros Ho (R & RQ & S & B & C & T).
  destruct o as [[t'|] size|srv r|]; cbn in Ho; try contradiction; subst.
  - (* message for t *)
    cbn [step]. destruct (opt_eqb (ready s) t) eqn:E.
    + (* direct: the queue is empty *)
      assert (Hr : ready s = Some t).
      { unfold opt_eqb in E. destruct (ready s) as [x|]; [|discriminate]. apply N.eqb_eq in E. now subst. }
      specialize (RQ Hr). cbn. rewrite RQ in *. rewrite ids_nil, app_nil_r in *.
      unfold seq_inv; cbn. rewrite ids_nil, app_nil_r, delivered_ids_app, delivered_one.
      repeat split; auto.
      * apply sorted_snoc; assumption.
      * apply Forall_app. split; [apply Forall_lt_succ, B|constructor; [lia|constructor]].
      * intro O. rewrite (C O). symmetry. apply count_up_succ.
      * apply Forall_app. split; [exact T|constructor; [reflexivity|constructor]].
    + (* queue path *)
      assert (Hn : ready s = None).
      { destruct R as [R|R]; [exact R|]. rewrite R in E. cbn in E. rewrite N.eqb_refl in E. discriminate. }
      unfold enqueue. destruct (ovf s) eqn:EO; cbn; unfold seq_inv; cbn.
      * rewrite app_nil_r. repeat split; auto; try (intro; congruence). apply Forall_lt_succ, B.
      * destruct (exceeds s size); cbn.
        -- repeat split; auto; try discriminate; try (intro; congruence).
           ++ assert (delivered_ids (es ++ (if dead s then [] else [Disconnect])) = delivered_ids es) as ->.
              { rewrite delivered_ids_app. destruct (dead s); rewrite ?delivered_nil, ?delivered_disc; now rewrite app_nil_r. }
              rewrite ids_nil, app_nil_r. eapply sorted_prefix, S.
           ++ assert (delivered_ids (es ++ (if dead s then [] else [Disconnect])) = delivered_ids es) as ->.
              { rewrite delivered_ids_app. destruct (dead s); rewrite ?delivered_nil, ?delivered_disc; now rewrite app_nil_r. }
              rewrite ids_nil, app_nil_r. apply Forall_lt_succ. apply Forall_app in B. tauto.
           ++ apply Forall_app. split; [exact T|]. destruct (dead s); repeat constructor.
        -- rewrite app_nil_r, ids_app, ids_one, app_assoc.
           repeat split; auto; try (intro; congruence).
           ++ apply sorted_snoc; assumption.
           ++ apply Forall_app. split; [apply Forall_lt_succ, B|constructor; [lia|constructor]].
           ++ intro O. rewrite (C eq_refl). symmetry. apply count_up_succ.
  - (* flush towards t *)
    destruct r; cbn [step].
    + assert (Hflush : seq_inv t (mkSt [] 0 (ovf s) (Some t) (dead s) (sent s)) (es ++ deliver_all t (q s))).
      { unfold seq_inv; cbn. rewrite delivered_ids_app, delivered_ids_deliver_all, ids_nil, app_nil_r.
        repeat split; auto.
        apply Forall_app. split; [exact T|]. unfold deliver_all. apply Forall_forall.
        intros e He. apply in_map_iff in He. destruct He as (m & <- & _). reflexivity. }
      destruct k; [|exact Hflush].
      destruct (opt_eqb (ready s) t); [|exact Hflush].
      cbn. rewrite app_nil_r. unfold seq_inv. repeat split; auto.
    + cbn. rewrite app_nil_r. unfold seq_inv. repeat split; auto.
Qed.

Lemma seq_inv_run k t : forall ops s es, Forall (epoch_op t) ops -> seq_inv t s es ->
  seq_inv t (fst (run k s ops)) (es ++ snd (run k s ops)).
Proof.
  induction ops as [|o ops IH]; intros s es HF H; cbn; [now rewrite app_nil_r|].
  inversion HF as [|? ? Ho HF']; subst.
  pose proof (seq_inv_step k t s o es Ho H) as H1. destruct (step k s o) as [s1 e1]. cbn in H1.
  specialize (IH s1 (es ++ e1) HF' H1). destruct (run k s1 ops) as [s2 e2]. cbn in *.
  now rewrite app_assoc.
Qed.

Lemma exactly_once_history : forall k t ops, Forall (epoch_op t) ops ->
  let '(s, es) := run k init ops in
  StronglySorted N.lt (delivered_ids es ++ ids (q s)) /\
  (ovf s = false -> delivered_ids es ++ ids (q s) = count_up (N.to_nat (sent s)) 0) /\
  Forall (fun e => match e with Deliver s' _ _ => s' = t | Disconnect => True end) es.
Proof.
  intros k t ops HF. pose proof (seq_inv_run k t ops init [] HF (seq_inv_init t)) as H.
  destruct (run k init ops) as [s es]. cbn in H. destruct H as (_ & _ & S & _ & C & T). auto.
Qed.

(* ---------- all schedules: client goroutine against the flushing goroutine(s) ---------- *)
Definition act (k : qkind) (o : op) : @action st out := fun s => step k s o.

Lemma exactly_once_schedules : forall k t (threads : list (list op)) sched,
  Forall (Forall (epoch_op t)) threads ->
  let r := Conc.run (map (map (act k)) threads) sched init in
  let s := fst (fst r) in let es := snd (fst r) in
  StronglySorted N.lt (delivered_ids es ++ ids (q s)) /\
  (ovf s = false -> delivered_ids es ++ ids (q s) = count_up (N.to_nat (sent s)) 0) /\
  Forall (fun e => match e with Deliver s' _ _ => s' = t | Disconnect => True end) es /\
  N.of_nat (length (q s)) <= 1024 /\ qbytes s <= 4194304.
Proof.
  intros k t threads sched HF r s es.
  assert (Hin : forall a, In a (concat (map (map (act k)) threads)) -> exists o, epoch_op t o /\ a = act k o).
  { intros a Ha. apply in_concat in Ha. destruct Ha as (th & Hth & Ha).
    apply in_map_iff in Hth. destruct Hth as (ops & <- & Hops).
    apply in_map_iff in Ha. destruct Ha as (o & <- & Ho).
    exists o. split; [|reflexivity].
    rewrite Forall_forall in HF. specialize (HF _ Hops). rewrite Forall_forall in HF. auto. }
  pose proof (trace_inv_all_schedules (fun s es => seq_inv t s es /\ wf s) (map (map (act k)) threads)) as L.
  specialize (L ltac:(intros a Ha s0 evs [H1 H2]; destruct (Hin a Ha) as (o & Ho & ->);
                      split; [apply seq_inv_step; assumption|apply wf_step; assumption])
                sched init [] (conj (seq_inv_init t) wf_init)).
  cbn in L. destruct L as [(_ & _ & S & _ & C & T) (W1 & W2 & W3)].
  unfold max_msgs, max_bytes in *. subst s es r. repeat split; auto.
Qed.

(* ---------- non-vacuity and a worked boundary ---------- *)
Definition three_then_flush : list op := [OMsg (Some 1) 10; OMsg (Some 1) 20; OFlush 1 FOk; OMsg (Some 1) 30].

Lemma nonvacuous_epoch : Forall (epoch_op 1) three_then_flush /\
  snd (run QConfig init three_then_flush) = [Deliver 1 0 10; Deliver 1 1 20; Deliver 1 2 30].
Proof. split; [repeat constructor|vm_compute; reflexivity]. Qed.

(* the message that tips a full buffer over is not buffered and disconnects *)
Lemma boundary_1025 :
  let ops := repeat (OMsg (Some 1) 1) 1024 in
  N.of_nat (length (q (fst (run QPreJoin init ops)))) = 1024 /\ snd (run QPreJoin init ops) = [] /\
  snd (run QPreJoin init (ops ++ [OMsg (Some 1) 1; OFlush 1 FOk])) = [Disconnect].
Proof. vm_compute. auto. Qed.

Lemma boundary_4MiB :
  snd (run QConfig init [OMsg (Some 1) 4194304; OFlush 1 FOk]) = [Deliver 1 0 4194304] /\
  snd (run QConfig init [OMsg (Some 1) 4194304; OMsg (Some 1) 1; OFlush 1 FOk]) = [Disconnect].
Proof. vm_compute. auto. Qed.
