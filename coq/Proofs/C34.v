(* C34 proofs (in progress) *)
From Verif Require Import Base.Hex Base.Ip Model.Limiter.
