(* C34 -- proofs about Model/Limiter.v (rate limiters):
   (c) the counter ring buffer refines a queue of live points; its running sum is the sliding-window sum;
       the limiter's decisions are those of the straightforward window count (limiter_refines_window);
   (b) token bucket bound; (a) ipKey grouping; the float comparison (partial). *)
From Coq Require Import List ZArith NArith Bool Lia ZifyNat ZifyBool Arith String.
From Verif Require Import Base.Hex Base.Ip Model.Limiter.
Import ListNotations.
Open Scope Z_scope.
Open Scope bool_scope.

(* ====================================================================== *)
(* (c) the ring buffer refines a queue of live (time, count) points        *)
(* ====================================================================== *)

Definition csize (c : counter) : nat :=
  if Nat.leb (head c) (tail c) then (tail c - head c)%nat else (tail c + cap c - head c)%nat.
Definition cidx (c : counter) (k : nat) : nat :=
  if Nat.ltb (head c + k) (cap c) then (head c + k)%nat else (head c + k - cap c)%nat.
Definition entry (c : counter) (j : nat) : Z * Z := (times c j, counts c j).
(* abstraction function: the live points, oldest first *)
Definition live (c : counter) : list (Z * Z) := map (fun k => entry c (cidx c k)) (seq 0 (csize c)).
Fixpoint zsum (l : list (Z * Z)) : Z := match l with [] => 0 | e :: r => snd e + zsum r end.

Record Inv (c : counter) : Prop := mkInv {
  inv_cap : (0 < cap c)%nat;
  inv_head : (head c < cap c)%nat;
  inv_tail : (tail c < cap c)%nat;
  inv_zero : forall j, (j < cap c)%nat -> (forall k, (k < csize c)%nat -> cidx c k <> j) -> counts c j = 0;
  inv_total : total c = zsum (live c)
}.

Lemma zsum_app a b : zsum (a ++ b) = zsum a + zsum b.
Proof. induction a as [|e a IH]; cbn [app zsum]; lia. Qed.

Lemma next_tail t c : (t < c)%nat -> Nat.modulo (t + 1) c = if Nat.eqb (t + 1) c then O else (t + 1)%nat.
Proof.
  intros H. destruct (Nat.eqb_spec (t + 1) c) as [E|E].
  - rewrite E. apply Nat.mod_same. lia.
  - apply Nat.mod_small. lia.
Qed.

Lemma new_counter_inv iv : Inv (new_counter iv) /\ live (new_counter iv) = [].
Proof.
  split; [|reflexivity]. constructor; cbn; try lia; intros; reflexivity.
Qed.

Lemma live_cons c : Inv c -> head c <> tail c ->
  let c' := mkCounter (interval c) (cap c) (times c) (upd (counts c) (head c) 0)
                      (if Nat.leb (cap c) (S (head c)) then O else S (head c)) (tail c)
                      (total c - counts c (head c)) (minTime c) in
  Inv c' /\ live c = entry c (head c) :: live c' /\ csize c = S (csize c').
Proof.
  intros [Hc Hh Ht Hz Htot] Hne c'.
  assert (Hsz : csize c = S (csize c')).
  { unfold csize, c'. cbn [head tail cap].
    destruct (Nat.leb_spec (cap c) (S (head c))); destruct (Nat.leb_spec (head c) (tail c));
      repeat match goal with |- context [Nat.leb ?a ?b] => destruct (Nat.leb_spec a b) end; lia. }
  assert (Hidx : forall k, (S k < csize c)%nat -> cidx c (S k) = cidx c' k /\ cidx c (S k) <> head c).
  { intros k Hk. unfold cidx, c'. cbn [head tail cap]. unfold csize in Hk.
    destruct (Nat.leb_spec (cap c) (S (head c))); destruct (Nat.leb_spec (head c) (tail c));
      repeat match goal with |- context [Nat.ltb ?a ?b] => destruct (Nat.ltb_spec a b) end; lia. }
  assert (Hlive : live c = entry c (head c) :: live c').
  { unfold live. rewrite Hsz. cbn [seq map]. f_equal.
    - unfold cidx. rewrite Nat.add_0_r. destruct (Nat.ltb_spec (head c) (cap c)); [reflexivity|lia].
    - rewrite <- seq_shift, map_map. apply map_ext_in. intros k Hk. apply in_seq in Hk.
      destruct (Hidx k ltac:(lia)) as [E1 E2]. rewrite <- E1. revert E2. generalize (cidx c (S k)). intros j E2.
      unfold entry, c'. cbn [times counts]. unfold upd.
      destruct (Nat.eqb_spec j (head c)); [contradiction|reflexivity]. }
  split; [|split; assumption].
  constructor.
  - exact Hc.
  - unfold c'. cbn [head cap]. destruct (Nat.leb_spec (cap c) (S (head c))); lia.
  - exact Ht.
  - intros j Hj Hnot. unfold c' at 1. cbn [counts]. unfold upd.
    destruct (Nat.eqb_spec j (head c)) as [->|Hjh]; [reflexivity|].
    apply Hz; [exact Hj|]. intros k Hk. destruct k as [|k].
    + unfold cidx. rewrite Nat.add_0_r. destruct (Nat.ltb_spec (head c) (cap c)); lia.
    + destruct (Hidx k Hk) as [E1 _]. rewrite E1. apply Hnot. lia.
  - unfold c' at 1. cbn [total]. rewrite Htot, Hlive. cbn [zsum entry snd]. lia.
Qed.

Fixpoint dropwhile {A} (p : A -> bool) (l : list A) : list A :=
  match l with [] => [] | x :: r => if p x then dropwhile p r else l end.

Lemma csize_zero c : head c = tail c -> csize c = O.
Proof. intros E. unfold csize. rewrite E, Nat.leb_refl. lia. Qed.

Lemma expire_loop_ok fuel : forall c m, Inv c -> (csize c <= fuel)%nat ->
  Inv (expire_loop fuel c m) /\
  live (expire_loop fuel c m) = dropwhile (fun e => sub_neg (fst e) m) (live c) /\
  cap (expire_loop fuel c m) = cap c /\ interval (expire_loop fuel c m) = interval c /\
  minTime (expire_loop fuel c m) = minTime c.
Proof.
  induction fuel as [|fuel IH]; intros c m Hinv Hsz; cbn [expire_loop].
  - assert (E : csize c = O) by lia. split; [exact Hinv|]. split; [|auto].
    unfold live. rewrite E. reflexivity.
  - destruct (Nat.eqb_spec (head c) (tail c)) as [E|E].
    + split; [exact Hinv|]. split; [|auto]. unfold live. rewrite (csize_zero c E). reflexivity.
    + destruct (live_cons c Hinv E) as [Hinv' [Hl Hs]].
      rewrite Hl. cbn [dropwhile entry fst].
      destruct (sub_neg (times c (head c)) m).
      * destruct (IH _ m Hinv' ltac:(lia)) as [I1 [I2 [I3 [I4 I5]]]].
        split; [exact I1|]. split; [exact I2|]. split; [exact I3|]. split; [exact I4|exact I5].
      * rewrite <- Hl. split; [exact Hinv|]. auto.
Qed.

Lemma csize_lt_cap c : (head c < cap c)%nat -> (tail c < cap c)%nat -> (csize c < cap c)%nat.
Proof. intros. unfold csize. destruct (Nat.leb_spec (head c) (tail c)); lia. Qed.

Lemma cidx_lt_cap c k : (head c < cap c)%nat -> (k < cap c)%nat -> (cidx c k < cap c)%nat.
Proof. intros. unfold cidx. destruct (Nat.ltb_spec (head c + k) (cap c)); lia. Qed.

Lemma expire_ok c now : Inv c ->
  Inv (expire c now) /\
  live (expire c now) = dropwhile (fun e => sub_neg (fst e) (wrap64 (now - interval c))) (live c) /\
  cap (expire c now) = cap c /\ interval (expire c now) = interval c /\
  minTime (expire c now) = wrap64 (now - interval c).
Proof.
  intros Hinv. unfold expire.
  pose proof (csize_lt_cap c (inv_head c Hinv) (inv_tail c Hinv)) as Hlt.
  destruct (expire_loop_ok (cap c) c (wrap64 (now - interval c)) Hinv ltac:(lia)) as [I1 [I2 [I3 [I4 I5]]]].
  set (c' := expire_loop (cap c) c (wrap64 (now - interval c))) in *.
  assert (Hl : live (mkCounter (interval c') (cap c') (times c') (counts c') (head c') (tail c') (total c') (wrap64 (now - interval c))) = live c') by reflexivity.
  split.
  - destruct I1 as [A B C D E]. constructor; cbn [cap head tail counts total]; try assumption.
  - rewrite Hl. cbn [cap interval minTime]. auto.
Qed.

(* resize keeps the live points and makes room *)
Lemma resize_ok c : Inv c ->
  Inv (resize c) /\ live (resize c) = live c /\ cap (resize c) = (cap c * 2)%nat /\
  csize (resize c) = csize c /\ interval (resize c) = interval c /\ minTime (resize c) = minTime c.
Proof.
  intros [Hc Hh Ht Hz Htot].
  assert (Hszc : (csize c < cap c)%nat) by (apply csize_lt_cap; assumption).
  assert (Hsz : csize (resize c) = csize c).
  { unfold csize, resize. cbn [head tail cap].
    destruct (Nat.ltb_spec (tail c) (head c)); destruct (Nat.leb_spec (head c) (tail c)); cbn [Nat.leb]; lia. }
  assert (Hpick : forall (old : nat -> Z) i,
     (if Nat.leb (head c) (tail c) then
        if Nat.ltb i (tail c - head c) then old (head c + i)%nat else 0
      else if Nat.ltb i (cap c - head c) then old (head c + i)%nat
           else if Nat.ltb (i - (cap c - head c)) (tail c) then old (i - (cap c - head c))%nat else 0)
     = if Nat.ltb i (csize c) then old (cidx c i) else 0).
  { intros old i. unfold csize, cidx.
    destruct (Nat.leb_spec (head c) (tail c)).
    - destruct (Nat.ltb_spec i (tail c - head c)); [|reflexivity].
      destruct (Nat.ltb_spec (head c + i) (cap c)); [reflexivity|lia].
    - destruct (Nat.ltb_spec i (cap c - head c)).
      + destruct (Nat.ltb_spec i (tail c + cap c - head c)); [|lia].
        destruct (Nat.ltb_spec (head c + i) (cap c)); [reflexivity|lia].
      + destruct (Nat.ltb_spec (i - (cap c - head c)) (tail c)).
        * destruct (Nat.ltb_spec i (tail c + cap c - head c)); [|lia].
          destruct (Nat.ltb_spec (head c + i) (cap c)); [lia|]. f_equal. lia.
        * destruct (Nat.ltb_spec i (tail c + cap c - head c)); [lia|reflexivity]. }
  assert (Hidx : forall k, (k < csize c)%nat -> cidx (resize c) k = k).
  { intros k Hk. unfold cidx, resize. cbn [head cap]. destruct (Nat.ltb_spec (0 + k) (cap c * 2)); lia. }
  assert (Hlive : live (resize c) = live c).
  { unfold live. rewrite Hsz. apply map_ext_in. intros k Hk. apply in_seq in Hk.
    rewrite (Hidx k ltac:(lia)). unfold entry, resize. cbn [times counts]. rewrite !Hpick.
    destruct (Nat.ltb_spec k (csize c)); [reflexivity|lia]. }
  split; [|repeat split; auto].
  constructor.
  - unfold resize. cbn [cap]. lia.
  - unfold resize. cbn [head cap]. lia.
  - unfold resize at 1 2. cbn [tail cap]. fold (csize c) in *.
    unfold csize in Hszc. unfold resize. cbn [tail cap].
    destruct (Nat.ltb_spec (tail c) (head c)); destruct (Nat.leb_spec (head c) (tail c)); lia.
  - intros j Hj Hnot. unfold resize at 1. cbn [counts]. rewrite Hpick.
    destruct (Nat.ltb_spec j (csize c)) as [Hlt|]; [|reflexivity].
    exfalso. apply (Hnot j); [rewrite Hsz; exact Hlt|apply Hidx; exact Hlt].
  - rewrite Hlive. unfold resize. cbn [total]. exact Htot.
Qed.

(* writing a new point at tail when there is room *)
Lemma push_ok c now count : Inv c -> (csize c + 1 < cap c)%nat ->
  let c' := mkCounter (interval c) (cap c) (upd (times c) (tail c) now)
                      (upd (counts c) (tail c) (counts c (tail c) + count))
                      (head c) (Nat.modulo (tail c + 1) (cap c)) (total c + count) (minTime c) in
  Inv c' /\ live c' = live c ++ [(now, count)].
Proof.
  intros [Hc Hh Ht Hz Htot] Hroom c'.
  assert (Hnt : Nat.modulo (tail c + 1) (cap c) = if Nat.eqb (tail c + 1) (cap c) then O else (tail c + 1)%nat)
    by (apply next_tail; exact Ht).
  assert (Hsz : csize c' = S (csize c)).
  { unfold csize, c'. cbn [head tail cap]. rewrite Hnt. unfold csize in Hroom.
    destruct (Nat.eqb_spec (tail c + 1) (cap c)); destruct (Nat.leb_spec (head c) (tail c));
      repeat match goal with |- context [Nat.leb ?a ?b] => destruct (Nat.leb_spec a b) end; lia. }
  assert (Hidx : forall k, cidx c' k = cidx c k) by reflexivity.
  assert (Hlast : cidx c (csize c) = tail c).
  { unfold cidx, csize. destruct (Nat.leb_spec (head c) (tail c));
      match goal with |- context [Nat.ltb ?a ?b] => destruct (Nat.ltb_spec a b) end; lia. }
  assert (Hnot : forall k, (k < csize c)%nat -> cidx c k <> tail c).
  { intros k Hk. unfold cidx. unfold csize in Hk, Hroom. destruct (Nat.leb_spec (head c) (tail c));
      match goal with |- context [Nat.ltb ?a ?b] => destruct (Nat.ltb_spec a b) end; lia. }
  assert (Hzero : counts c (tail c) = 0) by (apply Hz; [exact Ht|exact Hnot]).
  assert (Hlive : live c' = live c ++ [(now, count)]).
  { unfold live. rewrite Hsz, seq_S, map_app. cbn [map Nat.add]. f_equal.
    - apply map_ext_in. intros k Hk. apply in_seq in Hk. rewrite Hidx.
      pose proof (Hnot k ltac:(lia)) as Hk'. revert Hk'. generalize (cidx c k). intros j Hj.
      unfold entry, c'. cbn [times counts]. unfold upd.
      destruct (Nat.eqb_spec j (tail c)); [contradiction|reflexivity].
    - rewrite Hidx, Hlast. unfold entry, c'. cbn [times counts]. unfold upd. rewrite Nat.eqb_refl, Hzero.
      rewrite Z.add_0_l. reflexivity. }
  split; [|exact Hlive]. constructor.
  - exact Hc.
  - exact Hh.
  - unfold c'. cbn [tail cap]. rewrite Hnt. destruct (Nat.eqb_spec (tail c + 1) (cap c)); lia.
  - intros j Hj Hn. unfold c' at 1. cbn [counts]. unfold upd.
    destruct (Nat.eqb_spec j (tail c)) as [->|Hjt].
    + exfalso. apply (Hn (csize c)); [lia|]. rewrite Hidx. exact Hlast.
    + apply Hz; [exact Hj|]. intros k Hk. rewrite <- Hidx. apply Hn. lia.
  - rewrite Hlive, zsum_app. unfold c'. cbn [total zsum snd]. lia.
Qed.

(* add, when the point is not older than the window *)
Lemma add_ok c now count : Inv c -> sub_neg now (minTime c) = false ->
  Inv (add c now count) /\ live (add c now count) = live c ++ [(now, count)] /\
  interval (add c now count) = interval c /\ minTime (add c now count) = minTime c.
Proof.
  intros Hinv Hs. unfold add. rewrite Hs.
  pose proof (inv_tail c Hinv) as Ht. pose proof (inv_head c Hinv) as Hh.
  set (c1 := if Nat.eqb (Nat.modulo (tail c + 1) (cap c)) (head c) then resize c else c).
  assert (H1 : Inv c1 /\ live c1 = live c /\ (csize c1 + 1 < cap c1)%nat /\ interval c1 = interval c /\ minTime c1 = minTime c).
  { unfold c1. rewrite (next_tail _ _ Ht).
    destruct (Nat.eqb_spec (if Nat.eqb (tail c + 1) (cap c) then O else (tail c + 1)%nat) (head c)) as [E|E].
    - destruct (resize_ok c Hinv) as [R1 [R2 [R3 [R4 [R5 R6]]]]].
      split; [exact R1|]. split; [exact R2|]. split; [|auto]. rewrite R3, R4.
      pose proof (csize_lt_cap c Hh Ht). lia.
    - split; [exact Hinv|]. split; [reflexivity|]. split; [|auto].
      unfold csize. destruct (Nat.eqb_spec (tail c + 1) (cap c)); destruct (Nat.leb_spec (head c) (tail c)); lia. }
  destruct H1 as [I1 [I2 [I3 [I4 I5]]]].
  destruct (push_ok c1 now count I1 I3) as [P1 P2]. cbv zeta in P1, P2.
  split; [exact P1|]. split; [rewrite P2, I2; reflexivity|]. cbn [interval minTime]. auto.
Qed.

(* ---------- int64 comparisons inside the stated range ---------- *)

Lemma wrap64_small z : - 2 ^ 63 <= z < 2 ^ 63 -> wrap64 z = z.
Proof. intros H. unfold wrap64. rewrite Z.mod_small by lia. lia. Qed.

Lemma sub_neg_small a b : - 2 ^ 63 <= a - b < 2 ^ 63 -> sub_neg a b = (a <? b).
Proof.
  intros H. unfold sub_neg. rewrite wrap64_small by exact H.
  destruct (Z.ltb_spec (a - b) 0); destruct (Z.ltb_spec a b); lia || reflexivity.
Qed.

Definition trange (t : Z) : Prop := 0 <= t < 2 ^ 62.

(* ---------- the queue level ---------- *)

Fixpoint asc (l : list (Z * Z)) : Prop :=
  match l with [] => True | x :: r => Forall (fun y => fst x <= fst y) r /\ asc r end.

Lemma filter_all {A} (p : A -> bool) l : Forall (fun x => p x = true) l -> filter p l = l.
Proof. induction 1 as [|x r Hx Hr IH]; cbn [filter]; [reflexivity|]. rewrite Hx, IH. reflexivity. Qed.

Lemma dropwhile_filter_asc m l : asc l ->
  dropwhile (fun e => fst e <? m) l = filter (fun e => m <=? fst e) l.
Proof.
  induction l as [|x r IH]; intros Ha; [reflexivity|]. destruct Ha as [Hx Hr]. cbn [dropwhile filter].
  destruct (Z.ltb_spec (fst x) m) as [Hlt|Hge].
  - replace (m <=? fst x) with false by (symmetry; apply Z.leb_gt; lia). apply IH. exact Hr.
  - replace (m <=? fst x) with true by (symmetry; apply Z.leb_le; lia). f_equal. symmetry. apply filter_all.
    eapply Forall_impl; [|exact Hx]. cbn beta. intros y Hy. apply Z.leb_le. lia.
Qed.

Lemma asc_filter p l : asc l -> asc (filter p l).
Proof.
  induction l as [|x r IH]; intros Ha; [exact I|]. destruct Ha as [Hx Hr]. cbn [filter].
  destruct (p x); [|apply IH; exact Hr]. split; [|apply IH; exact Hr].
  apply Forall_forall. intros y Hy. apply filter_In in Hy. destruct Hy as [Hy _].
  rewrite Forall_forall in Hx. apply Hx. exact Hy.
Qed.

Lemma asc_app_one l x : asc l -> Forall (fun y => fst y <= fst x) l -> asc (l ++ [x]).
Proof.
  induction l as [|y r IH]; intros Ha Hb; cbn [app asc]; [split; [constructor|exact I]|].
  destruct Ha as [Hy Hr]. inversion Hb as [|? ? Hyx Hrx]; subst. split.
  - apply Forall_app. split; [exact Hy|]. constructor; [exact Hyx|constructor].
  - apply IH; assumption.
Qed.

Lemma filter_filter_weaker (m1 m2 : Z) l : m1 <= m2 ->
  filter (fun e : Z * Z => m2 <=? fst e) (filter (fun e => m1 <=? fst e) l) = filter (fun e => m2 <=? fst e) l.
Proof.
  intros H. induction l as [|x r IH]; [reflexivity|]. cbn [filter].
  destruct (Z.leb_spec m1 (fst x)).
  - cbn [filter]. rewrite IH. reflexivity.
  - rewrite IH. replace (m2 <=? fst x) with false by (symmetry; apply Z.leb_gt; lia). reflexivity.
Qed.

Lemma zsum_rev l : zsum (rev l) = zsum l.
Proof. induction l as [|x r IH]; [reflexivity|]. cbn [rev]. rewrite zsum_app, IH. cbn [zsum]. lia. Qed.

Lemma window_sum_filter iv now hist :
  window_sum iv now hist = zsum (filter (fun e => now - iv <=? fst e) hist).
Proof.
  unfold window_sum. induction hist as [|x r IH]; [reflexivity|]. cbn [fold_right filter].
  destruct (now - iv <=? fst x); cbn [zsum]; rewrite IH; reflexivity.
Qed.

Lemma filter_rev {A} (p : A -> bool) l : filter p (rev l) = rev (filter p l).
Proof.
  induction l as [|x r IH]; [reflexivity|]. cbn [rev filter]. rewrite filter_app, IH. cbn [filter].
  destruct (p x); [reflexivity|]. rewrite app_nil_r. reflexivity.
Qed.

(* ---------- histories, newest first ---------- *)

(* run the counter over a history given newest first *)
Definition run_hist (iv : Z) (hist : list (Z * Z)) : counter :=
  fold_right (fun e c => update_and_add c (snd e) (fst e)) (new_counter iv) hist.

(* times within [0, 2^62), newest first and non-increasing towards the past *)
Fixpoint desc (l : list (Z * Z)) : Prop :=
  match l with [] => True | x :: r => Forall (fun y => fst y <= fst x) r /\ desc r end.

Definition good_hist (iv : Z) (hist : list (Z * Z)) : Prop :=
  0 < iv < 2 ^ 62 /\ Forall (fun e => trange (fst e)) hist /\ desc hist.

Definition qfilter (iv : Z) (hist : list (Z * Z)) : list (Z * Z) :=
  match hist with
  | [] => []
  | (t, _) :: _ => filter (fun e => t - iv <=? fst e) (rev hist)
  end.

Lemma desc_rev_asc l : desc l -> asc (rev l).
Proof.
  induction l as [|x r IH]; intros H; [exact I|]. destruct H as [Hx Hr]. cbn [rev].
  apply asc_app_one; [apply IH; exact Hr|]. apply Forall_rev. exact Hx.
Qed.

Lemma dropwhile_sub_neg m q : Forall (fun e => trange (fst e)) q -> - 2 ^ 62 <= m < 2 ^ 62 ->
  dropwhile (fun e => sub_neg (fst e) m) q = dropwhile (fun e : Z * Z => fst e <? m) q.
Proof.
  intros Hq Hm. induction Hq as [|x r Hx Hr IH]; [reflexivity|]. cbn [dropwhile].
  rewrite sub_neg_small by (unfold trange in Hx; lia).
  destruct (fst x <? m); [exact IH|reflexivity].
Qed.

Lemma qfilter_step iv now hist : desc hist -> Forall (fun y : Z * Z => fst y <= now) hist ->
  dropwhile (fun e => fst e <? now - iv) (qfilter iv hist) = filter (fun e => now - iv <=? fst e) (rev hist).
Proof.
  intros Hd Hle. destruct hist as [|[t0 c0] h0]; [reflexivity|]. unfold qfilter.
  rewrite dropwhile_filter_asc by (apply asc_filter, desc_rev_asc; exact Hd).
  apply filter_filter_weaker. inversion Hle; subst. cbn [fst] in *. lia.
Qed.

Lemma run_hist_ok iv hist : good_hist iv hist ->
  Inv (run_hist iv hist) /\ live (run_hist iv hist) = qfilter iv hist /\ interval (run_hist iv hist) = iv.
Proof.
  intros [Hiv [Hr Hd]]. induction hist as [|[now cnt] hist IH].
  - destruct (new_counter_inv iv) as [A B]. split; [exact A|]. split; [exact B|reflexivity].
  - inversion Hr as [|? ? Hnow Hr']; subst. destruct Hd as [Hle Hd']. cbn [fst] in Hnow, Hle.
    destruct (IH Hr' Hd') as [I1 [I2 I3]]. cbn [run_hist fold_right fst snd]. fold (run_hist iv hist).
    set (c := run_hist iv hist) in *. unfold update_and_add.
    destruct (expire_ok c now I1) as [E1 [E2 [E3 [E4 E5]]]]. rewrite I3 in *.
    assert (Hm : wrap64 (now - iv) = now - iv) by (apply wrap64_small; unfold trange in Hnow; lia).
    rewrite Hm in *.
    assert (Hs : sub_neg now (minTime (expire c now)) = false).
    { rewrite E5, sub_neg_small by (unfold trange in Hnow; lia). apply Z.ltb_ge. lia. }
    destruct (add_ok (expire c now) now cnt E1 Hs) as [A1 [A2 [A3 A4]]].
    split; [exact A1|]. split; [|rewrite A3, E4; reflexivity].
    rewrite A2, E2, I2.
    (* the comparison on live points is the mathematical one *)
    assert (Hlive_range : Forall (fun e => trange (fst e)) (qfilter iv hist)).
    { unfold qfilter. destruct hist as [|[t0 c0] h0]; [constructor|].
      apply Forall_forall. intros e He. apply filter_In in He. destruct He as [He _].
      apply in_rev in He. rewrite Forall_forall in Hr'. apply Hr'. exact He. }
    assert (Hdw : dropwhile (fun e => sub_neg (fst e) (now - iv)) (qfilter iv hist)
                  = dropwhile (fun e => fst e <? now - iv) (qfilter iv hist)).
    { apply dropwhile_sub_neg; [exact Hlive_range|unfold trange in Hnow; lia]. }
    rewrite Hdw. unfold qfilter at 2. cbn [rev]. rewrite filter_app. cbn [filter fst].
    replace (now - iv <=? now) with true by (symmetry; apply Z.leb_le; lia). f_equal.
    apply qfilter_step; assumption.
Qed.

(* the running sum kept by the ring buffer is the sliding-window sum, for every history the
   ring accepts: any length (any number of resizes and wrap-arounds), any counts *)
Theorem ring_refines_window iv now cnt hist :
  good_hist iv ((now, cnt) :: hist) ->
  sum (run_hist iv ((now, cnt) :: hist)) = window_sum iv now ((now, cnt) :: hist).
Proof.
  intros Hg. destruct (run_hist_ok iv _ Hg) as [I1 [I2 I3]]. unfold sum.
  rewrite (inv_total _ I1), I2. unfold qfilter. rewrite filter_rev, zsum_rev, window_sum_filter. reflexivity.
Qed.

(* ---------- the limiter ---------- *)

Definition pk_hist (hist : list (Z * Z)) : list (Z * Z) := map (fun e => (fst e, 1)) hist.

(* the limiter after the granted history hist (newest first) *)
Definition lim_state (pps bps iv : Z) (hist : list (Z * Z)) : limiter :=
  mkLimiter (if 0 <? pps then Some (run_hist iv (pk_hist hist)) else None)
            (if 0 <? bps then Some (run_hist iv hist) else None) pps bps.

Lemma desc_map_fst (f : Z * Z -> Z * Z) l : (forall e, fst (f e) = fst e) -> desc l -> desc (map f l).
Proof.
  intros Hf. induction l as [|x r IH]; intros H; [exact I|]. destruct H as [Hx Hr]. cbn [map desc]. split.
  - apply Forall_forall. intros y Hy. apply in_map_iff in Hy. destruct Hy as [y0 [<- Hy0]].
    rewrite !Hf. rewrite Forall_forall in Hx. apply Hx. exact Hy0.
  - apply IH. exact Hr.
Qed.

Lemma good_hist_pk iv hist : good_hist iv hist -> good_hist iv (pk_hist hist).
Proof.
  intros [Hiv [Hr Hd]]. split; [exact Hiv|]. split.
  - unfold pk_hist. apply Forall_forall. intros y Hy. apply in_map_iff in Hy. destruct Hy as [y0 [<- Hy0]].
    cbn [fst]. rewrite Forall_forall in Hr. apply Hr. exact Hy0.
  - apply desc_map_fst; [reflexivity|exact Hd].
Qed.

Lemma good_hist_tail iv e hist : good_hist iv (e :: hist) -> good_hist iv hist.
Proof.
  intros [Hiv [Hr Hd]]. inversion Hr; subst. destruct Hd as [_ Hd]. split; [exact Hiv|split; assumption].
Qed.

Lemma good_hist_suffix iv l hist : good_hist iv (l ++ hist) -> good_hist iv hist.
Proof. induction l as [|x r IH]; [auto|]. intros H. apply IH. eapply good_hist_tail. exact H. Qed.

(* one Account call on the state reached after an granted history *)
Lemma account_step exc pps bps iv hist now nb :
  good_hist iv ((now, nb) :: hist) ->
  snd (account_with exc (lim_state pps bps iv hist) nb now) = spec_decision exc pps bps iv hist now nb /\
  (spec_decision exc pps bps iv hist now nb = true ->
   fst (account_with exc (lim_state pps bps iv hist) nb now) = lim_state pps bps iv ((now, nb) :: hist)).
Proof.
  intros Hg. pose proof (good_hist_pk _ _ Hg) as Hgp. cbn [pk_hist map fst] in Hgp. fold (pk_hist hist) in Hgp.
  assert (Hiv : (iv <=? 0) = false) by (destruct Hg as [Hiv _]; apply Z.leb_gt; lia).
  pose proof (ring_refines_window iv now nb hist Hg) as Wb.
  pose proof (ring_refines_window iv now 1 (pk_hist hist) Hgp) as Wp.
  destruct (run_hist_ok iv _ Hg) as [_ [_ Ib]]. destruct (run_hist_ok iv _ Hgp) as [_ [_ Ip]].
  unfold sum in Wb, Wp.
  change (run_hist iv ((now, nb) :: hist)) with (update_and_add (run_hist iv hist) nb now) in *.
  change (run_hist iv ((now, 1) :: pk_hist hist)) with (update_and_add (run_hist iv (pk_hist hist)) 1 now) in *.
  unfold spec_decision. rewrite Hiv. cbn [map fst]. fold (pk_hist hist).
  unfold account_with, lim_state. cbn [packets bytesc Limiter.pps Limiter.bps].
  destruct (0 <? pps) eqn:Epp; destruct (0 <? bps) eqn:Ebp; cbn [packets bytesc Limiter.pps Limiter.bps snd fst].
  - rewrite Wp, Ip.
    destruct (exc (window_sum iv now ((now, 1) :: pk_hist hist)) iv pps) eqn:Ex; cbn [snd fst orb negb].
    + split; [reflexivity|discriminate].
    + rewrite Wb, Ib. split; [reflexivity|]. intros _.
      reflexivity.
  - rewrite Wp, Ip.
    destruct (exc (window_sum iv now ((now, 1) :: pk_hist hist)) iv pps) eqn:Ex; cbn [snd fst orb negb].
    + split; [reflexivity|discriminate].
    + split; [reflexivity|]. intros _. reflexivity.
  - rewrite Wb, Ib. cbn [orb]. split; [reflexivity|]. intros _. reflexivity.
  - split; [reflexivity|]. intros _. reflexivity.
Qed.

Lemma limiter_run_agrees exc pps bps iv : forall evs hist,
  good_hist iv (rev evs ++ hist) ->
  prefix_agrees (spec_run exc pps bps iv hist evs)
                (map snd (run_limiter exc (Some (lim_state pps bps iv hist)) evs)) = true.
Proof.
  induction evs as [|[now nb] r IH]; intros hist Hg; [reflexivity|].
  cbn [rev] in Hg. rewrite <- app_assoc in Hg. cbn [app] in Hg.
  pose proof (good_hist_suffix _ _ _ Hg) as Hg1.
  destruct (account_step exc pps bps iv hist now nb Hg1) as [S1 S2].
  cbn [spec_run run_limiter].
  destruct (account_with exc (lim_state pps bps iv hist) nb now) as [l1 ok] eqn:Ea. cbn [snd fst] in S1, S2.
  cbn [map snd]. rewrite <- S1. destruct ok.
  - cbn [prefix_agrees Bool.eqb andb]. rewrite (S2 (eq_sym S1)). apply IH. exact Hg.
  - reflexivity.
Qed.

Lemma nil_limiter_agrees exc pps bps iv : (0 <? pps) = false -> (0 <? bps) = false -> forall evs hist,
  prefix_agrees (spec_run exc pps bps iv hist evs) (map snd (run_limiter exc None evs)) = true.
Proof.
  intros Hp Hb. induction evs as [|[now nb] r IH]; intros hist; [reflexivity|].
  cbn [spec_run run_limiter map snd]. unfold spec_decision. rewrite Hp, Hb. cbn [orb negb].
  destruct (iv <=? 0); cbn [prefix_agrees Bool.eqb andb]; apply IH.
Qed.

Lemma desc_app_one l x : desc l -> Forall (fun y : Z * Z => fst x <= fst y) l -> desc (l ++ [x]).
Proof.
  induction l as [|y l IHl]; intros D G; [split; [constructor|exact I]|].
  destruct D as [Dy Dl]. inversion G as [|? ? Gy Gl]; subst. cbn [app desc]. split.
  - apply Forall_app. split; [exact Dy|]. constructor; [exact Gy|constructor].
  - apply IHl; assumption.
Qed.

Lemma sorted_from_desc : forall evs t, sorted_from t evs = true ->
  Forall (fun e : Z * Z => t <= fst e) evs /\ desc (rev evs).
Proof.
  induction evs as [|[now nb] r IH]; intros t H; [split; [constructor|exact I]|].
  cbn [sorted_from] in H. apply andb_true_iff in H. destruct H as [H1 H2]. apply Z.leb_le in H1.
  destruct (IH now H2) as [F D]. split.
  - constructor; [exact H1|]. eapply Forall_impl; [|exact F]. cbn beta. intros; lia.
  - cbn [rev]. apply desc_app_one; [exact D|]. apply Forall_rev. exact F.
Qed.

Lemma in_range_good iv evs : in_range iv evs = true -> good_hist iv (rev evs ++ []).
Proof.
  unfold in_range. intros H. apply andb_true_iff in H. destruct H as [H Hs].
  apply andb_true_iff in H. destruct H as [H Hf]. apply andb_true_iff in H. destruct H as [H1 H2].
  apply Z.ltb_lt in H1, H2. rewrite app_nil_r. split; [lia|]. split.
  - apply Forall_rev. rewrite forallb_forall in Hf. apply Forall_forall. intros e He. specialize (Hf e He).
    apply andb_true_iff in Hf. destruct Hf as [Hf _]. apply andb_true_iff in Hf. destruct Hf as [Hf _].
    apply andb_true_iff in Hf. destruct Hf as [A B]. apply Z.leb_le in A. apply Z.ltb_lt in B. unfold trange. lia.
  - apply (sorted_from_desc evs 0 Hs).
Qed.

(* the limiter's decisions are those of the straightforward sliding-window count, up to and including
   the first refusal, for every rate comparison exc and every sequence in range *)
Theorem limiter_refines_window exc pps bps iv evs :
  in_range iv evs = true ->
  prefix_agrees (spec_run exc pps bps iv [] evs)
                (map snd (run_limiter exc (new_limiter pps bps iv) evs)) = true.
Proof.
  intros Hr. pose proof (in_range_good iv evs Hr) as Hg.
  assert (Hiv : (iv <=? 0) = false) by (destruct Hg as [Hiv _]; apply Z.leb_gt; lia).
  unfold new_limiter. rewrite Hiv. cbn [orb].
  destruct ((pps <=? 0) && (bps <=? 0)) eqn:E.
  - apply andb_true_iff in E. destruct E as [E1 E2]. apply Z.leb_le in E1, E2.
    apply nil_limiter_agrees; apply Z.ltb_ge; lia.
  - exact (limiter_run_agrees exc pps bps iv evs [] Hg).
Qed.

(* ====================================================================== *)
(* (b) token bucket bound                                                   *)
(* ====================================================================== *)

Fixpoint sorted_ge (t : Z) (ts : list Z) : Prop :=
  match ts with [] => True | x :: r => t <= x /\ sorted_ge x r end.

Definition binv (burst rden : Z) (b : bucket) : Prop := 0 <= tok b <= burst * rden.

Lemma granted_zero t0 t1 : forall ts oks t, sorted_ge t ts -> t1 < t -> granted_in t0 t1 ts oks = 0.
Proof.
  induction ts as [|x r IH]; intros oks t Hs Ht; [reflexivity|]. destruct Hs as [Hx Hr].
  destruct oks as [|ok oks]; [reflexivity|]. cbn [granted_in].
  replace (x <=? t1) with false by (symmetry; apply Z.leb_gt; lia). rewrite andb_false_r.
  rewrite (IH oks x Hr ltac:(lia)). reflexivity.
Qed.

Section Bucket.
Variables burst rnum rden : Z.
Hypothesis Hrnum : 0 <= rnum.
Hypothesis Hrden : 0 < rden.
Hypothesis Hburst : 0 <= burst.

Lemma bucket_allow_inv b t : binv burst rden b -> last b <= t ->
  binv burst rden (fst (bucket_allow burst rnum rden b t)) /\ last (fst (bucket_allow burst rnum rden b t)) = t.
Proof.
  intros [H0 H1] Ht. unfold bucket_allow. rewrite Z.max_l by lia.
  destruct (Z.leb_spec rden (Z.min (burst * rden) (tok b + rnum * (t - last b)))) as [Hle|Hgt];
    cbn [fst tok last]; unfold binv; cbn [tok]; split; try reflexivity; nia.
Qed.

(* from any state, the events up to t1 cannot use more than the tokens present plus the refill *)
Lemma bucket_upto t0 t1 : forall ts b, binv burst rden b -> sorted_ge (last b) ts -> last b <= t1 ->
  granted_in t0 t1 ts (bucket_run burst rnum rden b ts) * rden <= tok b + rnum * (t1 - last b).
Proof.
  induction ts as [|t r IH]; intros b Hb Hs Hl; cbn [bucket_run granted_in].
  - destruct Hb. nia.
  - destruct Hs as [Ht Hr].
    destruct (bucket_allow_inv b t Hb Ht) as [Hb' Hl'].
    destruct (bucket_allow burst rnum rden b t) as [b' ok] eqn:Ea. cbn [fst] in Hb', Hl'. cbn [granted_in].
    destruct (Z.leb_spec t t1) as [Hin|Hout].
    + specialize (IH b' Hb' ltac:(rewrite Hl'; exact Hr) ltac:(lia)). rewrite Hl' in IH.
      unfold bucket_allow in Ea. rewrite Z.max_l in Ea by lia.
      destruct Hb as [Hb0 Hb1].
      destruct (Z.leb_spec rden (Z.min (burst * rden) (tok b + rnum * (t - last b)))) as [Hle|Hgt];
        injection Ea as <- <-; cbn [tok] in IH; destruct (t0 <=? t); cbn [andb]; lia.
    + rewrite andb_false_r. rewrite (granted_zero t0 t1 r _ t Hr Hout). destruct Hb. nia.
Qed.

(* at most burst + rate * (t1 - t0) events are granted in any interval [t0, t1] *)
Theorem bucket_bound t0 t1 : t0 <= t1 -> forall ts b, binv burst rden b -> sorted_ge (last b) ts ->
  granted_in t0 t1 ts (bucket_run burst rnum rden b ts) * rden <= burst * rden + rnum * (t1 - t0).
Proof.
  intros H01. induction ts as [|t r IH]; intros b Hb Hs; cbn [bucket_run granted_in]; [nia|].
  destruct Hs as [Ht Hr].
  destruct (bucket_allow_inv b t Hb Ht) as [Hb' Hl'].
  destruct (bucket_allow burst rnum rden b t) as [b' ok] eqn:Ea. cbn [fst] in Hb', Hl'. cbn [granted_in].
  destruct (Z.leb_spec t0 t) as [Hge|Hlt].
  - destruct (Z.leb_spec t t1) as [Hin|Hout].
    + pose proof (bucket_upto t0 t1 r b' Hb' ltac:(rewrite Hl'; exact Hr) ltac:(lia)) as U. rewrite Hl' in U.
      unfold bucket_allow in Ea. rewrite Z.max_l in Ea by lia. destruct Hb as [Hb0 Hb1].
      destruct (Z.leb_spec rden (Z.min (burst * rden) (tok b + rnum * (t - last b)))) as [Hle|Hgt];
        injection Ea as <- <-; cbn [tok] in U; cbn [andb]; nia.
    + rewrite andb_false_r. rewrite (granted_zero t0 t1 r _ t Hr Hout). nia.
  - rewrite andb_false_r. cbn [andb]. specialize (IH b' Hb' ltac:(rewrite Hl'; exact Hr)). lia.
Qed.

(* and a token that is there is granted: an event is granted iff a whole token is available *)
Lemma bucket_allow_iff b t :
  snd (bucket_allow burst rnum rden b t) = true <->
  rden <= Z.min (burst * rden) (tok b + rnum * (Z.max t (last b) - last b)).
Proof.
  unfold bucket_allow. destruct (Z.leb_spec rden (Z.min (burst * rden) (tok b + rnum * (Z.max t (last b) - last b))));
    cbn [snd]; split; intros; try reflexivity; try discriminate; lia.
Qed.
End Bucket.

(* ====================================================================== *)
(* (a) ipKey                                                               *)
(* ====================================================================== *)
Open Scope N_scope.

Lemma land_mask_eq_iff x y n : n <= 128 ->
  (N.land x (mask6 n) = N.land y (mask6 n) <->
   forall i, 128 - n <= i < 128 -> N.testbit x i = N.testbit y i).
Proof.
  intros Hn. split.
  - intros H i Hi. apply (f_equal (fun v => N.testbit v i)) in H. rewrite !N.land_spec, mask6_bits in H by assumption.
    replace (128 - n <=? i) with true in H by (symmetry; apply N.leb_le; lia).
    replace (i <? 128) with true in H by (symmetry; apply N.ltb_lt; lia).
    rewrite !andb_true_r in H. exact H.
  - intros H. apply N.bits_inj. intros i. rewrite !N.land_spec, mask6_bits by assumption.
    destruct (N.leb_spec (128 - n) i); [|rewrite !andb_false_r; reflexivity].
    destruct (N.ltb_spec i 128); [|rewrite !andb_false_r; reflexivity].
    rewrite !andb_true_r. apply H. lia.
Qed.

(* two addresses get the same bucket iff both are IPv4 (plain or IPv4-mapped) with the same /24,
   or both are other IPv6 addresses with the same /64 *)
Theorem ip_key_eq_iff a b : wf_addr a -> wf_addr b ->
  (key_of_addr a = key_of_addr b <->
   (fam (unmap a) = V4 /\ fam (unmap b) = V4 /\
    forall i, 8 <= i < 32 -> N.testbit (abits a) i = N.testbit (abits b) i) \/
   (fam (unmap a) = V6 /\ fam (unmap b) = V6 /\
    forall i, 64 <= i < 128 -> N.testbit (abits a) i = N.testbit (abits b) i)).
Proof.
  intros Ha Hb. pose proof (unmap_wf _ Ha) as Hua. pose proof (unmap_wf _ Hb) as Hub.
  unfold key_of_addr. rewrite !unmap_abits.
  destruct (fam (unmap a)) eqn:Efa; destruct (fam (unmap b)) eqn:Efb.
  - split.
    + intros H. left. split; [reflexivity|]. split; [reflexivity|].
      assert (E : N.land (abits a) (mask6 (96 + 24)) = N.land (abits b) (mask6 (96 + 24))) by congruence.
      pose proof (proj1 (land_mask_eq_iff _ _ (96 + 24) ltac:(lia)) E) as E'. intros i Hi. apply E'. lia.
    + intros [[_ [_ H]]|[H _]]; [|discriminate]. f_equal. apply (land_mask_eq_iff _ _ (96 + 24)); [lia|].
      intros i Hi. destruct (N.lt_ge_cases i 32) as [Hlt|Hge]; [apply H; lia|].
      rewrite <- (unmap_abits a), <- (unmap_abits b).
      rewrite (wf_v4_high_bits _ i Hua Efa Hge), (wf_v4_high_bits _ i Hub Efb Hge). reflexivity.
  - split; [discriminate|]. intros [[_ [H _]]|[H _]]; discriminate.
  - split; [discriminate|]. intros [[H _]|[_ [H _]]]; discriminate.
  - split.
    + intros H. right. split; [reflexivity|]. split; [reflexivity|].
      assert (E : N.land (abits a) (mask6 64) = N.land (abits b) (mask6 64)) by congruence.
      pose proof (proj1 (land_mask_eq_iff _ _ 64 ltac:(lia)) E) as E'. intros i Hi. apply E'. lia.
    + intros [[H _]|[_ [_ H]]]; [discriminate|]. f_equal. apply (land_mask_eq_iff _ _ 64); [lia|].
      intros i Hi. apply H. lia.
Qed.

(* on texts: unparsable texts have no key (never limited); parsable ones are grouped as above, zone ignored *)
Theorem spec_ip_key_groups s1 s2 a1 a2 :
  parse_addr s1 = Some a1 -> parse_addr s2 = Some a2 ->
  (spec_ip_key s1 = spec_ip_key s2 <-> key_of_addr (strip_zone a1) = key_of_addr (strip_zone a2)) /\
  spec_ip_key s1 <> None.
Proof.
  intros H1 H2. unfold spec_ip_key. rewrite H1, H2. split; [|discriminate].
  split; [intros H; injection H as H; exact H|intros ->; reflexivity].
Qed.

Theorem spec_ip_key_none s : parse_addr s = None -> spec_ip_key s = None /\ impl_ip_key s = None.
Proof. intros H. unfold spec_ip_key, impl_ip_key. rewrite H. split; reflexivity. Qed.

(* today's code (after fix 2006028) is what the property demands, on every text *)
Theorem ip_key_impl_is_spec s : impl_ip_key s = spec_ip_key s.
Proof. reflexivity. Qed.

(* so the grouping theorem holds for the code's key function *)
Theorem impl_ip_key_groups s1 s2 a1 a2 :
  parse_addr s1 = Some a1 -> parse_addr s2 = Some a2 ->
  (impl_ip_key s1 = impl_ip_key s2 <-> key_of_addr (strip_zone a1) = key_of_addr (strip_zone a2)) /\
  impl_ip_key s1 <> None.
Proof. intros H1 H2. rewrite !ip_key_impl_is_spec. apply spec_ip_key_groups; assumption. Qed.

(* PRE-FIX code (before 2006028): agreed with the demand on every text without a zone ... *)
Theorem prefix_ip_key_eq_spec_off_trigger s : zone_trigger s = false -> prefix_ip_key s = spec_ip_key s.
Proof.
  unfold zone_trigger, prefix_ip_key, spec_ip_key, parse_ip_legacy. destruct (parse_addr s) as [a|]; [|reflexivity].
  intros H. rewrite H. unfold has_zone in H. destruct a as [f b z]. cbn [zone] in H. destruct z; [|discriminate].
  unfold strip_zone, with_zone. cbn [fam abits]. destruct f; reflexivity.
Qed.

(* ... and differed on zoned ones: finding C34-1 as it was before the fix *)
Theorem prefix_ip_key_zone_refuted : exists s,
  zone_trigger s = true /\ prefix_ip_key s = None /\ spec_ip_key s <> None /\
  spec_ip_key s = spec_ip_key [102; 101; 56; 48; 58; 58; 49].       (* "fe80::1%eth0" groups with "fe80::1" *)
Proof.
  exists [102; 101; 56; 48; 58; 58; 49; 37; 101; 116; 104; 48].
  repeat split; try (vm_compute; reflexivity). vm_compute. discriminate.
Qed.

Open Scope Z_scope.

(* ====================================================================== *)
(* the float comparison                                                     *)
(* ====================================================================== *)

(* (window, limits) pairs and totals around the threshold limit * window / 1e9 *)
Definition float_table_windows : list Z :=
  [1000000; 50000000; 100000000; 500000000; 1000000000; 1234000000; 2500000000; 3000000000; 5000000000;
   7000000000; 10000000000; 15000000000; 30000000000; 60000000000].
Definition float_table_limits : list Z :=
  [1; 2; 3; 5; 7; 10; 13; 20; 50; 100; 333; 500; 977; 1000; 4096; 65536; 100000; 1048576; 1073741824; 2147483647].

Definition float_agrees_at (iv limit tot : Z) : bool :=
  Bool.eqb (exceeds_float tot iv limit) (exceeds_exact tot iv limit).

Definition float_table_ok : bool :=
  forallb (fun iv => forallb (fun limit =>
     let t := limit * iv / 1000000000 in
     forallb (float_agrees_at iv limit) [Z.max 0 (t - 2); Z.max 0 (t - 1); t; t + 1; t + 2; 0; 2 * t + 1])
     float_table_limits) float_table_windows.

(* PARTIAL: the bit-exact float comparison equals the exact one on the table above (all totals within 2 of the
   threshold) and, for the default configuration (7 s, 500 packets/s), on every total up to 8099.
   A proof for all totals/windows/limits (monotonicity of IEEE division, e.g. via Flocq's real-number
   specification) is not done; the boundary sweep of the correspondence carries the rest. *)
Theorem float_decision_exact_partial :
  (forall iv limit, In iv float_table_windows -> In limit float_table_limits ->
     let t := limit * iv / 1000000000 in
     forall tot, In tot [Z.max 0 (t - 2); Z.max 0 (t - 1); t; t + 1; t + 2; 0; 2 * t + 1] ->
     exceeds_float tot iv limit = exceeds_exact tot iv limit) /\
  (forall a b, (a <= 80)%nat -> (b < 100)%nat ->
     let n := Z.of_nat (100 * a + b) in
     exceeds_float n 7000000000 500 = exceeds_exact n 7000000000 500).
Proof.
  split.
  - assert (H : float_table_ok = true) by (vm_compute; reflexivity).
    intros iv limit Hiv Hl t tot Ht. unfold float_table_ok in H.
    rewrite forallb_forall in H. specialize (H iv Hiv). rewrite forallb_forall in H. specialize (H limit Hl).
    cbv zeta in H. rewrite forallb_forall in H. specialize (H tot Ht). unfold float_agrees_at in H.
    apply Bool.eqb_prop in H. exact H.
  - assert (H : forallb (fun a => forallb (fun b => float_agrees_at 7000000000 500 (Z.of_nat (100 * a + b))) (seq 0 100)) (seq 0 81) = true)
      by (vm_compute; reflexivity).
    intros a b Ha Hb n. rewrite forallb_forall in H. specialize (H a ltac:(apply in_seq; lia)).
    rewrite forallb_forall in H. specialize (H b ltac:(apply in_seq; lia)).
    unfold float_agrees_at in H. apply Bool.eqb_prop in H. exact H.
Qed.

(* ====================================================================== *)
(* non-vacuity and the edge of the quantifier                               *)
(* ====================================================================== *)

(* 40 points 1 ms apart after 5 that expire first (so head has moved when the ring fills): three resizes *)
Definition sample_events : list (Z * Z) :=
  map (fun k => (Z.of_nat k, 1)) (seq 1 5) ++
  map (fun k => (8000000000 + 1000000 * Z.of_nat k, Z.of_nat k)) (seq 0 40).

Example ring_nonvacuous :
  good_hist 7000000000 (rev sample_events ++ []) /\
  cap (run_hist 7000000000 (rev sample_events)) = 64%nat /\
  sum (run_hist 7000000000 (rev sample_events)) = 780 /\
  head (run_hist 7000000000 (rev (firstn 12 sample_events))) = 5%nat.
Proof.
  split; [apply in_range_good; vm_compute; reflexivity|]. repeat split; vm_compute; reflexivity.
Qed.

Example limiter_nonvacuous :
  in_range 7000000000 sample_events = true /\
  map snd (run_limiter exceeds_float (new_limiter 5 (-1) 7000000000) (firstn 8 sample_events))
    = [true; true; true; true; true; true; true; true] /\
  existsb negb (map snd (run_limiter exceeds_float (new_limiter 5 (-1) 7000000000) sample_events)) = true.
Proof. repeat split; vm_compute; reflexivity. Qed.

(* outside the quantifier: when the clock steps back the ring keeps a stale point behind a newer one
   (it only pops from the head), so its sum is no longer the window sum *)
Example ring_clock_steps_back_differs :
  let hist := [(25, 1); (5, 1); (20, 1)] in     (* newest first: times 20, 5, 25 with window 10 *)
  sum (run_hist 10 hist) = 3 /\ window_sum 10 25 hist = 2.
Proof. split; vm_compute; reflexivity. Qed.

Example bucket_nonvacuous :
  let ts := [0; 0; 0; 0; 0; 1000000000; 1000000001; 2500000000; 2500000000; 10000000000; 10000000000; 10000000000; 10000000000] in
  let oks := bucket_run 3 1 1000000000 (bucket_new 3 1000000000 0) ts in
  oks = [true; true; true; false; false; true; false; true; false; true; true; true; false] /\
  granted_in 0 2500000000 ts oks = 5.                      (* = burst 3 + 1/s * 2.5 s, rounded down *)
Proof. split; vm_compute; reflexivity. Qed.

Example ip_key_samples :
  spec_ip_key (tx "::ffff:10.1.2.3"%string) = spec_ip_key (tx "10.1.2.200"%string) /\
  spec_ip_key (tx "10.1.2.3"%string) <> spec_ip_key (tx "10.1.3.3"%string) /\
  spec_ip_key (tx "2001:db8:0:1::1"%string) = spec_ip_key (tx "2001:db8:0:1:ffff:ffff:ffff:ffff"%string) /\
  spec_ip_key (tx "2001:db8:0:1::1"%string) <> spec_ip_key (tx "2001:db8:0:2::1"%string) /\
  spec_ip_key (tx "::10.1.2.3"%string) <> spec_ip_key (tx "10.1.2.3"%string) /\
  spec_ip_key (tx "pipe"%string) = None /\
  impl_ip_key (tx "fe80::1%eth0"%string) = impl_ip_key (tx "fe80::1"%string) /\ impl_ip_key (tx "fe80::1%eth0"%string) <> None.
Proof. repeat split; vm_compute; congruence. Qed.
