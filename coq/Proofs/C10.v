(* C10 - proofs about Model/OfflineId.v. *)
From Coq Require Import List NArith Bool Lia Arith ZifyN ZifyNat ZifyBool.
From Verif Require Import Base.Hex Base.Md5 Model.OfflineId.
Import ListNotations.
Open Scope N_scope.

(* ================================ UUID bits ====================================================== *)

Lemma nth_upd_same f : forall l n d, (n < length l)%nat -> nth n (upd n f l) d = f (nth n l d).
Proof.
  induction l as [|x r IH]; intros n d H; [cbn in H; lia|].
  destruct n; cbn [upd nth]; [reflexivity|]. apply IH. cbn in H. lia.
Qed.

Lemma nth_upd_other f : forall l n i d, n <> i -> nth i (upd n f l) d = nth i l d.
Proof.
  induction l as [|x r IH]; intros n i d H; [destruct n, i; reflexivity|].
  destruct n, i; cbn [upd nth]; try reflexivity; try congruence. apply IH. congruence.
Qed.

Lemma upd_length f : forall l n, length (upd n f l) = length l.
Proof. induction l as [|x r IH]; intros n; [destruct n; reflexivity|]. destruct n; cbn; [reflexivity|rewrite IH; reflexivity]. Qed.

Lemma Forall_upd (P : N -> Prop) f : (forall x, P x -> P (f x)) ->
  forall l n, Forall P l -> Forall P (upd n f l).
Proof.
  intros Hf. induction l as [|x r IH]; intros n H; [destruct n; constructor|].
  inversion H; subst. destruct n; cbn; constructor; auto.
Qed.

(* bit facts, for every N (not only bytes) *)
Lemma version_low b j : j < 4 -> N.testbit (set_version3 b) j = N.testbit b j.
Proof.
  intro H. unfold set_version3. rewrite N.lor_spec, N.land_spec.
  assert (C : j = 0 \/ j = 1 \/ j = 2 \/ j = 3) by lia.
  destruct C as [->|[->|[->| ->]]]; cbn; rewrite ?andb_true_r, ?orb_false_r; reflexivity.
Qed.
Lemma version_high b :
  N.testbit (set_version3 b) 7 = false /\ N.testbit (set_version3 b) 6 = false /\
  N.testbit (set_version3 b) 5 = true /\ N.testbit (set_version3 b) 4 = true.
Proof. unfold set_version3. rewrite !N.lor_spec, !N.land_spec. cbn. rewrite !andb_false_r. auto. Qed.
Lemma variant_low b j : j < 6 -> N.testbit (set_variant b) j = N.testbit b j.
Proof.
  intro H. unfold set_variant. rewrite N.lor_spec, N.land_spec.
  assert (C : j = 0 \/ j = 1 \/ j = 2 \/ j = 3 \/ j = 4 \/ j = 5) by lia.
  destruct C as [->|[->|[->|[->|[->| ->]]]]]; cbn; rewrite ?andb_true_r, ?orb_false_r; reflexivity.
Qed.
Lemma variant_high b :
  N.testbit (set_variant b) 7 = true /\ N.testbit (set_variant b) 6 = false.
Proof. unfold set_variant. rewrite !N.lor_spec, !N.land_spec. cbn. rewrite !andb_false_r. auto. Qed.

(* exhaustive reasoning over bytes *)
Lemma byte_cases (P : N -> bool) :
  forallb P (map N.of_nat (seq 0 256)) = true -> forall b, b < 256 -> P b = true.
Proof.
  intros H b Hb. rewrite forallb_forall in H. apply H.
  apply in_map_iff. exists (N.to_nat b). split; [apply N2Nat.id|]. apply in_seq. lia.
Qed.

Lemma set_version3_byte b : b < 256 ->
  set_version3 b < 256 /\ set_version3 b / 16 = 3 /\ set_version3 b mod 16 = b mod 16.
Proof.
  intro Hb.
  pose proof (byte_cases (fun b => (set_version3 b <? 256) && (set_version3 b / 16 =? 3)
                                   && (set_version3 b mod 16 =? b mod 16)) eq_refl b Hb) as H.
  cbv beta in H. apply andb_true_iff in H. destruct H as [H H3]. apply andb_true_iff in H. destruct H as [H1 H2].
  apply N.ltb_lt in H1. apply N.eqb_eq in H2. apply N.eqb_eq in H3. auto.
Qed.
Lemma set_variant_byte b : b < 256 ->
  set_variant b < 256 /\ set_variant b / 64 = 2 /\ set_variant b mod 64 = b mod 64.
Proof.
  intro Hb.
  pose proof (byte_cases (fun b => (set_variant b <? 256) && (set_variant b / 64 =? 2)
                                   && (set_variant b mod 64 =? b mod 64)) eq_refl b Hb) as H.
  cbv beta in H. apply andb_true_iff in H. destruct H as [H H3]. apply andb_true_iff in H. destruct H as [H1 H2].
  apply N.ltb_lt in H1. apply N.eqb_eq in H2. apply N.eqb_eq in H3. auto.
Qed.

Lemma v3bits_length d : length (v3bits d) = length d.
Proof. unfold v3bits. rewrite !upd_length. reflexivity. Qed.

Lemma v3bits_wf d : wf_bytes d -> wf_bytes (v3bits d).
Proof.
  unfold wf_bytes, v3bits. intro H.
  apply Forall_upd; [intros x Hx; apply set_variant_byte; exact Hx|].
  apply Forall_upd; [intros x Hx; apply set_version3_byte; exact Hx|exact H].
Qed.

Lemma v3bits_nth6 d : length d = 16%nat -> nth 6 (v3bits d) 0 = set_version3 (nth 6 d 0).
Proof.
  intro H. unfold v3bits. rewrite nth_upd_other by lia. apply nth_upd_same. lia.
Qed.
Lemma v3bits_nth8 d : length d = 16%nat -> nth 8 (v3bits d) 0 = set_variant (nth 8 d 0).
Proof.
  intro H. unfold v3bits. rewrite nth_upd_same by (rewrite upd_length; lia).
  rewrite nth_upd_other by lia. reflexivity.
Qed.
Lemma v3bits_nth_other d i : i <> 6%nat -> i <> 8%nat -> nth i (v3bits d) 0 = nth i d 0.
Proof. intros H6 H8. unfold v3bits. rewrite !nth_upd_other by lia. reflexivity. Qed.

(* Version nibble 3, variant bits 10, and every one of the other 122 bits is the digest's. *)
Theorem uuid_bits : forall d, length d = 16%nat ->
  let u := v3bits d in
  length u = 16%nat /\
  (uuid_bit u 48 = false /\ uuid_bit u 49 = false /\ uuid_bit u 50 = true /\ uuid_bit u 51 = true) /\
  (uuid_bit u 64 = true /\ uuid_bit u 65 = false) /\
  (forall k, (k < 128)%nat -> ~ In k [48;49;50;51;64;65]%nat -> uuid_bit u k = uuid_bit d k).
Proof.
  intros d Hl u. subst u. split; [rewrite v3bits_length; exact Hl|].
  destruct (version_high (nth 6 d 0)) as (V7 & V6 & V5 & V4).
  destruct (variant_high (nth 8 d 0)) as (R7 & R6).
  split; [|split].
  - unfold uuid_bit. cbn [Nat.div Nat.modulo Nat.divmod fst snd Nat.sub N.of_nat Pos.of_succ_nat Pos.succ].
    rewrite v3bits_nth6 by exact Hl. auto.
  - unfold uuid_bit. cbn [Nat.div Nat.modulo Nat.divmod fst snd Nat.sub N.of_nat Pos.of_succ_nat Pos.succ].
    rewrite v3bits_nth8 by exact Hl. auto.
  - intros k Hk Hn. unfold uuid_bit.
    assert (Hm : (Nat.modulo k 8 < 8)%nat) by (apply Nat.mod_upper_bound; lia).
    assert (Hd : k = (8 * Nat.div k 8 + Nat.modulo k 8)%nat) by (apply Nat.div_mod; lia).
    set (i := Nat.div k 8) in *. set (m := Nat.modulo k 8) in *.
    destruct (Nat.eq_dec i 6) as [E6|N6]; [|destruct (Nat.eq_dec i 8) as [E8|N8]].
    + rewrite E6 in *. rewrite v3bits_nth6 by exact Hl. apply version_low.
      cbn [In] in Hn. assert (4 <= m)%nat by lia. lia.
    + rewrite E8 in *. rewrite v3bits_nth8 by exact Hl. apply variant_low.
      cbn [In] in Hn. assert (2 <= m)%nat by lia. lia.
    + rewrite v3bits_nth_other by assumption. reflexivity.
Qed.

(* the same in numbers, for digests made of bytes: high nibble of byte 6 is 3, top two bits of byte 8
   are binary 10, the low parts and all other bytes are untouched *)
Theorem uuid_bytes : forall d, length d = 16%nat -> wf_bytes d ->
  let u := v3bits d in
  wf_bytes u /\
  nth 6 u 0 / 16 = 3 /\ nth 6 u 0 mod 16 = nth 6 d 0 mod 16 /\
  nth 8 u 0 / 64 = 2 /\ nth 8 u 0 mod 64 = nth 8 d 0 mod 64 /\
  (forall i, i <> 6%nat -> i <> 8%nat -> nth i u 0 = nth i d 0).
Proof.
  intros d Hl Hw u. subst u.
  assert (B : forall i, nth i d 0 < 256).
  { intro i. destruct (Nat.lt_ge_cases i (length d)) as [Hi|Hi].
    - unfold wf_bytes in Hw. rewrite Forall_forall in Hw. apply Hw. apply nth_In. exact Hi.
    - rewrite nth_overflow by exact Hi. lia. }
  split; [apply v3bits_wf; exact Hw|].
  rewrite v3bits_nth6, v3bits_nth8 by exact Hl.
  destruct (set_version3_byte _ (B 6%nat)) as (_ & A1 & A2).
  destruct (set_variant_byte _ (B 8%nat)) as (_ & A3 & A4).
  repeat split; try assumption. intros i H6 H8. apply v3bits_nth_other; assumption.
Qed.

(* OfflinePlayerUUID is the v3 form of the MD5 of "OfflinePlayer:" ++ name, for every name *)
Theorem offline_uuid_spec : forall name,
  offline_uuid name = v3bits (md5 (offline_prefix ++ name)) /\
  length (md5 (offline_prefix ++ name)) = 16%nat /\ wf_bytes (md5 (offline_prefix ++ name)).
Proof. intro name. split; [reflexivity|]. split; [apply md5_length|apply md5_bytes]. Qed.

(* ================================ the regular expression ========================================== *)

(* standard denotation of the regexp sub-language *)
Inductive lang : re -> bytes -> Prop :=
| LEps : lang REps []
| LChar p c : p c = true -> lang (RChar p) [c]
| LSeq a b s t : lang a s -> lang b t -> lang (RSeq a b) (s ++ t)
| LAltL a b s : lang a s -> lang (RAlt a b) s
| LAltR a b s : lang b s -> lang (RAlt a b) s
| LRep p lo hi s : (lo <= length s)%nat -> (length s <= hi)%nat -> Forall (fun c => p c = true) s ->
                   lang (RRepC p lo hi) s.

Lemma lang_seq_inv a b w : lang (RSeq a b) w -> exists s t, w = s ++ t /\ lang a s /\ lang b t.
Proof. intro H. inversion H; subst. eauto. Qed.
Lemma lang_alt_inv a b w : lang (RAlt a b) w -> lang a w \/ lang b w.
Proof. intro H. inversion H; subst; auto. Qed.
Lemma lang_rep_inv p lo hi w : lang (RRepC p lo hi) w ->
  (lo <= length w)%nat /\ (length w <= hi)%nat /\ Forall (fun c => p c = true) w.
Proof. intro H. inversion H; subst. auto. Qed.

Lemma nullable_spec r : nullable r = true <-> lang r [].
Proof.
  induction r as [| |p|a IHa b IHb|a IHa b IHb|p lo hi]; cbn [nullable].
  - split; [discriminate|intro H; inversion H].
  - split; [constructor|reflexivity].
  - split; [discriminate|intro H; inversion H].
  - rewrite andb_true_iff, IHa, IHb. split.
    + intros [Ha Hb]. change (@nil N) with (@nil N ++ []). constructor; assumption.
    + intro H. apply lang_seq_inv in H. destruct H as (s & t & E & Hs & Ht).
      symmetry in E. apply app_eq_nil in E. destruct E; subst. auto.
  - rewrite orb_true_iff, IHa, IHb. split.
    + intros [H|H]; [apply LAltL|apply LAltR]; assumption.
    + intro H. apply lang_alt_inv in H. exact H.
  - rewrite Nat.eqb_eq. split.
    + intros ->. constructor; [cbn; lia|cbn; lia|constructor].
    + intro H. apply lang_rep_inv in H. cbn in H. lia.
Qed.

Lemma deriv_spec c : forall r s, lang (deriv c r) s <-> lang r (c :: s).
Proof.
  induction r as [| |p|a IHa b IHb|a IHa b IHb|p lo hi]; intro s; cbn [deriv].
  - split; intro H; inversion H.
  - split; intro H; inversion H.
  - destruct (p c) eqn:E; split; intro H; inversion H; subst.
    + constructor. exact E.
    + constructor.
    + congruence.
  - split.
    + intro H. apply lang_alt_inv in H. destruct H as [H1|H1].
      * apply lang_seq_inv in H1. destruct H1 as (s1 & t & E & H2 & H3). subst s.
        apply IHa in H2. change (c :: s1 ++ t) with ((c :: s1) ++ t). constructor; assumption.
      * destruct (nullable a) eqn:En; [|inversion H1].
        apply nullable_spec in En. apply IHb in H1.
        change (c :: s) with ([] ++ c :: s). constructor; assumption.
    + intro H. apply lang_seq_inv in H. destruct H as (u & t & E & Hu & Ht).
      destruct u as [|x u'].
      * cbn in E. subst t. apply LAltR. apply nullable_spec in Hu. rewrite Hu. apply IHb. exact Ht.
      * cbn in E. inversion E; subst. apply LAltL. constructor; [apply IHa; exact Hu|exact Ht].
  - split.
    + intro H. apply lang_alt_inv in H. destruct H; [apply LAltL, IHa|apply LAltR, IHb]; assumption.
    + intro H. apply lang_alt_inv in H. destruct H; [apply LAltL, IHa|apply LAltR, IHb]; assumption.
  - destruct hi as [|hi'].
    + split; intro H; [inversion H|]. apply lang_rep_inv in H. cbn in H. lia.
    + destruct (p c) eqn:E.
      * split; intro H; apply lang_rep_inv in H; destruct H as (H1 & H2 & H3).
        -- constructor; [cbn; lia|cbn; lia|constructor; assumption].
        -- inversion H3; subst. constructor; [cbn in *; lia|cbn in *; lia|assumption].
      * split; intro H; [inversion H|]. apply lang_rep_inv in H. destruct H as (_ & _ & H3).
        inversion H3; subst. congruence.
Qed.

Theorem re_match_spec : forall s r, re_match r s = true <-> lang r s.
Proof.
  induction s as [|c s IH]; intro r; cbn [re_match]; [apply nullable_spec|].
  rewrite IH. apply deriv_spec.
Qed.

Lemma in_class_spec b : in_class b = true <->
  (65 <= b <= 90 \/ 97 <= b <= 122 \/ 48 <= b <= 57 \/ b = 95).
Proof. unfold in_class. lia. Qed.

Lemma name_ok_spec s : name_ok s = true <->
  (2 <= length s <= 16)%nat /\ Forall (fun b => in_class b = true) s.
Proof.
  unfold name_ok. rewrite !andb_true_iff, !Nat.leb_le, forallb_forall, Forall_forall. tauto.
Qed.

(* The anchored regexp ^[A-Za-z0-9_]{2,16}$ accepts exactly the strings of 2..16 bytes from the
   alphabet - for ALL byte strings (newline, NUL, non-ASCII, empty, long). *)
Theorem name_filter : forall s, name_matches s = true <->
  (2 <= length s <= 16)%nat /\ Forall (fun b => in_class b = true) s.
Proof.
  intro s. unfold name_matches, name_re. rewrite re_match_spec. split.
  - intro H. apply lang_rep_inv in H. tauto.
  - intros [[H1 H2] H3]. constructor; assumption.
Qed.

Corollary name_matches_eq_ok s : name_matches s = name_ok s.
Proof.
  destruct (name_matches s) eqn:E1, (name_ok s) eqn:E2; try reflexivity.
  - apply name_filter, name_ok_spec in E1. congruence.
  - apply name_ok_spec, name_filter in E2. congruence.
Qed.

(* rejected examples the property text singles out *)
Example name_filter_examples :
  name_matches [97;98] = true /\                      (* "ab" *)
  name_matches [97] = false /\                        (* "a": too short *)
  name_matches [97;98;10] = false /\                  (* "ab\n": $ does not skip a final newline *)
  name_matches [97;0;98] = false /\                   (* NUL *)
  name_matches [97;195;169] = false /\                (* "a" + e-acute in UTF-8 *)
  name_matches (repeat 95 16) = true /\ name_matches (repeat 95 17) = false /\ name_matches [] = false.
Proof. vm_compute. repeat split; reflexivity. Qed.

(* ================================ the login path ================================================= *)

(* admitted iff the name is valid; then the announced identity is vanilla's offline UUID *)
Theorem login_accepts_iff_valid : forall name,
  is_accepted (login_result_of name) = name_ok name /\
  (name_ok name = true -> login_result_of name = Accepted (offline_uuid name) name).
Proof.
  intro name. unfold login_result_of. rewrite name_matches_eq_ok.
  destruct (name_ok name) eqn:E.
  - apply name_ok_spec in E. destruct E as [[H1 H2] _].
    replace (Nat.eqb (length name) 0) with false by (symmetry; apply Nat.eqb_neq; lia).
    replace (Nat.ltb 64 (length name)) with false by (symmetry; apply Nat.ltb_ge; lia).
    cbn. auto.
  - destruct (Nat.eqb (length name) 0 || Nat.ltb 64 (length name)); cbn; split; congruence.
Qed.

Theorem login_model_holds : forall name, holds_login name (login_result_of name) = true.
Proof.
  intro name. destruct (login_accepts_iff_valid name) as [H1 H2].
  destruct (name_ok name) eqn:E.
  - rewrite (H2 eq_refl). cbn [holds_login]. rewrite E.
    rewrite (proj2 (beq_bytes_eq _ _) eq_refl), (proj2 (beq_bytes_eq _ _) eq_refl). reflexivity.
  - destruct (login_result_of name) eqn:R; cbn in H1; try discriminate; cbn [holds_login]; rewrite ?E; try reflexivity.
    exfalso. unfold login_result_of in R.
    destruct (Nat.eqb (length name) 0 || Nat.ltb 64 (length name)); [discriminate|].
    destruct (name_matches name); discriminate.
Qed.

(* non-vacuity: vanilla's well-known offline UUID of "Notch":  b50ad385-829d-3141-a216-7e7d7539ba7f *)
Example offline_uuid_notch :
  offline_uuid [78;111;116;99;104] = [181;10;211;133;130;157;49;65;162;22;126;125;117;57;186;127].
Proof. vm_compute. reflexivity. Qed.
