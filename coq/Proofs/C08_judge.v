(* C08 - the judge's property predicate (Check/C08.v: holds_from, an independent tracker of what the
   client may expect next) accepts the model's own behaviour for ALL packet sequences: a VViolation
   can only come from the implementation deviating, never from the predicate disagreeing with the
   proved machine. *)
From Coq Require Import List Bool Arith Lia.
From Verif Require Import Base.Hex Base.Verdict Model.Login Check.C08 Proofs.C08.
Import ListNotations.

(* the model's outputs of one step, as the harness would observe them *)
Definition obs_of (os : list out) : obs :=
  mkObs (filter visible os) (has OEncEnabled os) (length (filter (out_eqb OJoin) os)) (existsb (out_eqb ORegister) os).

Definition Rel (p : phase) (t : track) : Prop :=
  match p with
  | PInit LoginExpected _ _ => x t = XLogin /\ open t = true /\ total_joins t = 0
  | PInit LoginReceived _ _ => x t = XWait /\ open t = true /\ pending_good t = true /\ total_joins t = 0
  | PInit EncRequestSent _ _ => x t = XEnc /\ open t = true /\ chain_ready t = true /\ total_joins t = 0
  | PInit _ _ _ => False
  | PAuthWait => x t = XAck /\ open t = true
  | PClosed => open t = false
  end.

(* observation of a non-empty batch of login plugin messages *)
Lemma obs_msgs a r :
  let ob := obs_of (map OPluginMsg (a :: r)) in
  has OEncRequest (frames ob) = false /\ has OClose (frames ob) = false /\ saw_success ob = false /\
  admits ob = false /\ existsb is_plugin_msg (frames ob) = true /\ joins ob = 0 /\
  has (OSuccess USession) (frames ob) = false.
Proof.
  assert (F : forall l, filter visible (map OPluginMsg l) = map OPluginMsg l) by (induction l; cbn; congruence).
  assert (H1 : forall y l, (forall i, out_eqb y (OPluginMsg i) = false) -> existsb (out_eqb y) (map OPluginMsg l) = false)
    by (intros y l Hy; induction l; cbn; rewrite ?Hy; auto).
  assert (H2 : forall l, existsb is_success (map OPluginMsg l) = false) by (induction l; cbn; auto).
  assert (H3 : forall l, length (filter (out_eqb OJoin) (map OPluginMsg l)) = 0) by (induction l; cbn; auto).
  cbv zeta. unfold obs_of, has, saw_success, admits. cbn [frames joins registered]. rewrite !F.
  rewrite !H1 by reflexivity. rewrite H2, H3. cbn. rewrite ?H2. cbn. repeat split; reflexivity.
Qed.

Lemma login_waits c cr pg nv key a r :
  step_ok c (mkT XLogin true cr 0 pg) (LoginStart nv key) (obs_of (map OPluginMsg (a :: r)))
  = (true, mkT XWait true false 0 (good_login c (LoginStart nv key))).
Proof.
  destruct (obs_msgs a r) as (A1 & A2 & A3 & A4 & A5 & A6 & A7).
  unfold step_ok. cbn [open x negb total_joins pending_good chain_ready]. cbv zeta.
  rewrite A1, A2, A3, A4, A5, A6, A7. cbn [negb andb implb Nat.add].
  destruct (effective_online c && negb (provider c)); reflexivity.
Qed.

Lemma step_rel c p t o : provider c = false -> Rel p t ->
  fst (step_ok c t o (obs_of (snd (step c p o)))) = true /\
  Rel (fst (step c p o)) (snd (step_ok c t o (obs_of (snd (step c p o))))).
Proof.
  intros Hpr HR.
  destruct c as [om pr pv cp hp ha kw fk oc nm]. cbn [provider] in Hpr. subst pv.
  destruct t as [x0 op0 cr0 tj0 pg0].
  destruct p as [s k outst| |].
  - destruct s; cbn [Rel x open chain_ready total_joins pending_good] in HR; try contradiction.
    + destruct HR as (-> & -> & ->).
      destruct o as [nv key|tk se kl|id| |].
      * (* login start *)
        cbn [step]. unfold handle_login, queued_msgs. cbn [has_plugin pre_msgs key_window force_key pre].
        destruct nv; [|destruct om, pr; vm_compute; auto].
        destruct hp, nm as [|n'].
        1,3,4: destruct key, kw, fk, pr, om, cp, ha; vm_compute; auto.
        (* messages are queued: the login waits (or the login start is refused) *)
        cbn [seq negb].
        destruct key, kw, fk, pr; cbn [fst snd andb];
          first [ solve [destruct om; vm_compute; auto]
                | rewrite login_waits; cbn; auto ].
      * vm_compute; auto.
      * cbn [step has_plugin]. destruct hp; [|vm_compute; auto].
        match goal with |- context [handle_plugin ?cc ?ss ?kk ?oo ?ii] =>
          destruct (handle_plugin_cases cc ss kk oo ii) as [[o2 H]|[Hs H]]; [rewrite H|discriminate Hs] end.
        destruct om, pr; vm_compute; auto.
      * vm_compute; auto.
      * vm_compute; auto.
    + (* waiting *)
      destruct HR as (-> & -> & -> & ->).
      destruct o as [nv key|tk se kl|id| |]; try (vm_compute; auto; fail).
      cbn [step has_plugin]. destruct hp; [|vm_compute; auto].
      match goal with |- context [handle_plugin ?cc ?ss ?kk ?oo ?ii] =>
        destruct (handle_plugin_cases cc ss kk oo ii) as [[o2 H]|[Hs H]]; rewrite H end.
      -- destruct om, pr; vm_compute; auto.
      -- unfold proceed. destruct om, pr, cp, ha; vm_compute; auto.
    + destruct HR as (-> & -> & -> & ->).
      destruct o as [nv key|tk se kl|id| |].
      * vm_compute; auto.
      * destruct tk, se, kl, oc, cp, ha, pr, om; vm_compute; auto.
      * cbn [step has_plugin]. destruct hp; [|vm_compute; auto].
        match goal with |- context [handle_plugin ?cc ?ss ?kk ?oo ?ii] =>
          destruct (handle_plugin_cases cc ss kk oo ii) as [[o2 H]|[Hs H]]; [rewrite H|discriminate Hs] end.
        destruct om, pr; vm_compute; auto.
      * vm_compute; auto.
      * vm_compute; auto.
  - cbn [Rel x open] in HR. destruct HR as (-> & ->).
    destruct o as [nv key|tk se kl|id| |]; try (vm_compute; auto).
    destruct hp; vm_compute; auto.
  - cbn [Rel open] in HR. subst op0. destruct o; vm_compute; auto.
Qed.

Theorem model_satisfies_predicate_from c : provider c = false ->
  forall ops p t, Rel p t ->
  holds_from c t ops (map obs_of (snd (run_from c p ops))) = true.
Proof.
  intro Hpr. induction ops as [|o r IH]; intros p t HR; [reflexivity|].
  rewrite run_from_cons. cbn [snd map holds_from].
  destruct (step_rel c p t o Hpr HR) as [H1 H2].
  destruct (step_ok c t o (obs_of (snd (step c p o)))) as [ok t'] eqn:E. cbn [fst snd] in *.
  rewrite H1. cbn [andb]. apply IH. exact H2.
Qed.

Theorem model_satisfies_predicate c ops : provider c = false ->
  holds_from c (mkT XLogin true false 0 false) ops (map obs_of (outs c ops)) = true.
Proof.
  intro Hpr. unfold outs, run. apply model_satisfies_predicate_from; [exact Hpr|].
  cbn. auto.
Qed.
