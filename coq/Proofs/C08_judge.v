(* C08 - the judge's property predicate (Check/C08.v: holds_from, an independent tracker of what the
   client may expect next) accepts the model's own behaviour for ALL packet sequences: a VViolation
   can only come from the implementation deviating, never from the predicate disagreeing with the
   proved machine. *)
From Coq Require Import List Bool Arith Lia.
From Verif Require Import Base.Hex Base.Verdict Model.Login Check.C08 Proofs.C08.
Import ListNotations.

(* the model's outputs of one step, as the harness would observe them *)
Definition obs_of (os : list out) : obs :=
  mkObs (filter visible os) (has OEncEnabled os) (length (filter (out_eqb OJoin) os)) (existsb (out_eqb ORegister) os).

Definition Rel (p : phase) (t : track) : Prop :=
  match p with
  | PInit LoginExpected _ => x t = XLogin /\ open t = true /\ total_joins t = 0
  | PInit EncRequestSent _ => x t = XEnc /\ open t = true /\ chain_ready t = true /\ total_joins t = 0
  | PInit _ _ => False
  | PAuthWait => x t = XAck /\ open t = true
  | PClosed => open t = false
  end.

Ltac split_all :=
  repeat match goal with
  | |- context [if ?b then _ else _] => is_var b; destruct b
  | |- context [match ?v with _ => _ end] => is_var v; destruct v
  end.

Lemma step_rel c p t o : provider c = false -> Rel p t ->
  fst (step_ok c t o (obs_of (snd (step c p o)))) = true /\
  Rel (fst (step c p o)) (snd (step_ok c t o (obs_of (snd (step c p o))))).
Proof.
  intros Hpr HR.
  destruct c as [om pr pv cp hp ha kw fk oc]. cbn [provider] in Hpr. subst pv.
  destruct t as [x0 op0 cr0 tj0].
  destruct p as [s k| |].
  - destruct s; cbn [Rel x open chain_ready total_joins] in HR; try contradiction.
    + destruct HR as (-> & -> & ->).
      destruct o as [nv key|tk se kl| | |].
      * destruct nv, key, kw, fk, pr, om, cp, ha; vm_compute; auto.
      * vm_compute; auto.
      * destruct hp; vm_compute; auto.
      * vm_compute; auto.
      * vm_compute; auto.
    + destruct HR as (-> & -> & -> & ->).
      destruct o as [nv key|tk se kl| | |].
      * vm_compute; auto.
      * destruct tk, se, kl, oc, cp, ha, pr, om; vm_compute; auto.
      * destruct hp; vm_compute; auto.
      * vm_compute; auto.
      * vm_compute; auto.
  - cbn [Rel x open] in HR. destruct HR as (-> & ->).
    destruct o as [nv key|tk se kl| | |]; try (vm_compute; auto).
    destruct hp; vm_compute; auto.
  - cbn [Rel open] in HR. subst op0. destruct o; vm_compute; auto.
Qed.

Theorem model_satisfies_predicate_from c : provider c = false ->
  forall ops p t, Rel p t ->
  holds_from c t ops (map obs_of (snd (run_from c p ops))) = true.
Proof.
  intro Hpr. induction ops as [|o r IH]; intros p t HR; [reflexivity|].
  rewrite run_from_cons. cbn [snd map holds_from].
  destruct (step_rel c p t o Hpr HR) as [H1 H2].
  destruct (step_ok c t o (obs_of (snd (step c p o)))) as [ok t'] eqn:E. cbn [fst snd] in *.
  rewrite H1. cbn [andb]. apply IH. exact H2.
Qed.

Theorem model_satisfies_predicate c ops : provider c = false ->
  holds_from c (mkT XLogin true false 0) ops (map obs_of (outs c ops)) = true.
Proof.
  intro Hpr. unfold outs, run. apply model_satisfies_predicate_from; [exact Hpr|].
  cbn. auto.
Qed.
