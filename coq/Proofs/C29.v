(* C29 — proofs about Model/Glob.v: the backtracking matcher is sound and complete for the
   declarative glob relation, returns the leftmost-lazy groups, the route search returns the first
   matching pattern, $k substitution is simultaneous; today's code (impl_) coincides with the spec
   (fixes 0f43e55, 23c72fc); the PRE-FIX variants (old_) deviate exactly on their triggers. *)
From Coq Require Import List NArith Bool Arith Lia.
From Verif Require Import Base.Text Model.Glob.
Import ListNotations.
Open Scope N_scope.

(* ---------- lexicographic order on group lengths ---------- *)

Inductive lex_le : list nat -> list nat -> Prop :=
| lex_nil : lex_le [] []
| lex_lt : forall a b l l', (a < b)%nat -> lex_le (a :: l) (b :: l')
| lex_eq : forall a l l', lex_le l l' -> lex_le (a :: l) (a :: l').

Section MatchProofs.
  Variable dot : N -> bool.
  Notation Matches := (Matches dot).
  Notation glob_match := (glob_match dot).
  Notation star_try := (star_try dot).

  Lemma star_try_cons rest h r : star_try rest h = Some r -> exists g gs, r = g :: gs.
  Proof.
    destruct h as [|x h]; simpl; destruct (rest _) as [gs0|]; intro H.
    - inversion H. eauto.
    - discriminate.
    - inversion H. eauto.
    - destruct (dot x); [|discriminate].
      destruct (star_try rest h) as [[|g gs]|]; try discriminate. inversion H. eauto.
  Qed.

  Lemma star_try_split rest : forall h r, star_try rest h = Some r ->
    exists g gs h2, r = g :: gs /\ h = g ++ h2 /\ forallb dot g = true /\ rest h2 = Some gs.
  Proof.
    induction h as [|x h IH]; intros r H; simpl in H.
    - destruct (rest []) as [gs0|] eqn:E; [|discriminate]. inversion H; subst.
      exists [], gs0, []. auto.
    - destruct (rest (x :: h)) as [gs0|] eqn:E.
      + inversion H; subst. exists [], gs0, (x :: h). auto.
      + destruct (dot x) eqn:Dx; [|discriminate].
        destruct (star_try rest h) as [[|g gs]|] eqn:Es; try discriminate.
        inversion H; subst.
        destruct (IH _ eq_refl) as [g1 [gs1 [h2 [Hr [Hh [Hd Hrest]]]]]].
        inversion Hr; subst. exists (x :: g1), gs1, h2. repeat split; auto.
        simpl. now rewrite Dx.
  Qed.

  Lemma star_try_sound p rest :
    (forall h gs, rest h = Some gs -> Matches p h gs) ->
    forall h r, star_try rest h = Some r -> Matches (star :: p) h r.
  Proof.
    intros Hrest h r H.
    destruct (star_try_split _ _ _ H) as [g [gs [h2 [-> [-> [Hd Hr]]]]]].
    apply M_star; auto.
  Qed.

  Lemma matches_cons_inv c p h gs : Matches (c :: p) h gs ->
    (c <> star /\ c <> qmark /\ exists h', h = c :: h' /\ Matches p h' gs)
    \/ (c = qmark /\ exists x h' gs', h = x :: h' /\ gs = [x] :: gs' /\ dot x = true /\ Matches p h' gs')
    \/ (c = star /\ exists g h' gs', h = g ++ h' /\ gs = g :: gs' /\ forallb dot g = true /\ Matches p h' gs').
  Proof.
    intro H. inversion H; subst.
    - left. eauto 10.
    - right. left. split; [reflexivity|]. eauto 10.
    - right. right. split; [reflexivity|]. eauto 10.
  Qed.

  Theorem glob_sound : forall p h gs, glob_match p h = Some gs -> Matches p h gs.
  Proof.
    induction p as [|c p IH]; intros h gs H.
    - destruct h; simpl in H; [|discriminate]. inversion H. constructor.
    - cbn [Glob.glob_match] in H.
      destruct (c =? star) eqn:Es.
      + apply N.eqb_eq in Es. subst c. eapply star_try_sound; eauto.
      + destruct (c =? qmark) eqn:Eq.
        * apply N.eqb_eq in Eq. subst c.
          destruct h as [|x h]; [discriminate|]. destruct (dot x) eqn:Dx; [|discriminate].
          destruct (glob_match p h) as [gs0|] eqn:E; [|discriminate].
          inversion H; subst. apply M_any; auto.
        * destruct h as [|x h]; [discriminate|].
          destruct (x =? c) eqn:Exc; [|discriminate]. apply N.eqb_eq in Exc. subst x.
          apply N.eqb_neq in Es. apply N.eqb_neq in Eq. apply M_lit; auto.
  Qed.

  (* completeness of the star loop, given completeness of the rest *)
  Lemma star_try_complete p rest :
    (forall h gs, Matches p h gs -> exists gs', rest h = Some gs') ->
    forall g h gs, forallb dot g = true -> Matches p h gs ->
      exists r, star_try rest (g ++ h) = Some r.
  Proof.
    intros Hrest g. induction g as [|x g IH]; intros h gs Hd Hm.
    - simpl. destruct (Hrest _ _ Hm) as [gs' E].
      destruct h; simpl; rewrite E; eauto.
    - simpl in Hd. apply andb_true_iff in Hd. destruct Hd as [Dx Hd].
      simpl. destruct (rest (x :: g ++ h)); [eauto|].
      rewrite Dx. destruct (IH _ _ Hd Hm) as [r Er]. rewrite Er.
      destruct (star_try_cons _ _ _ Er) as [g0 [gs0 ->]]. eauto.
  Qed.

  Theorem glob_complete : forall p h gs, Matches p h gs -> exists gs', glob_match p h = Some gs'.
  Proof.
    induction p as [|c p IH]; intros h gs H.
    - inversion H; subst. simpl. eauto.
    - cbn [Glob.glob_match].
      destruct (matches_cons_inv _ _ _ _ H)
        as [[Hs [Hq [h' [-> Hm]]]] | [[-> [x [h' [gs' [-> [-> [Dx Hm]]]]]]] | [-> [g [h' [gs' [-> [-> [Hd Hm]]]]]]]]].
      + apply N.eqb_neq in Hs. apply N.eqb_neq in Hq. rewrite Hs, Hq, N.eqb_refl. eauto.
      + change (qmark =? star) with false. change (qmark =? qmark) with true. cbn beta iota.
        rewrite Dx. destruct (IH _ _ Hm) as [gs2 E]. rewrite E. simpl. eauto.
      + change (star =? star) with true. cbn beta iota.
        eapply star_try_complete; eauto.
  Qed.

  Corollary glob_none : forall p h, glob_match p h = None -> forall gs, ~ Matches p h gs.
  Proof.
    intros p h E gs Hm. destruct (glob_complete _ _ _ Hm) as [gs' E']. congruence.
  Qed.

  (* the star loop hands out the shortest possible first group *)
  Lemma star_try_lazy p rest :
    (forall h gs, Matches p h gs -> exists gs', rest h = Some gs') ->
    forall h g gs, star_try rest h = Some (g :: gs) ->
    forall g' h' gs', h = g' ++ h' -> Matches p h' gs' ->
      (length g < length g')%nat \/ (g = g' /\ rest h' = Some gs).
  Proof.
    intros Hrest h. induction h as [|x h IH]; intros g gs H g' h' gs' Hsplit Hm; simpl in H.
    - destruct g'; [|discriminate]. simpl in Hsplit. subst h'.
      destruct (rest []) as [gs0|] eqn:E; [|discriminate]. inversion H; subst. right. auto.
    - destruct (rest (x :: h)) as [gs0|] eqn:E.
      + inversion H; subst. destruct g' as [|y g'].
        * simpl in Hsplit. subst h'. right. auto.
        * left. simpl. lia.
      + destruct (dot x) eqn:Dx; [|discriminate].
        destruct (star_try rest h) as [[|g1 gs1]|] eqn:Es; try discriminate.
        inversion H; subst. destruct g' as [|y g'].
        * simpl in Hsplit. subst h'. destruct (Hrest _ _ Hm) as [? E']. congruence.
        * simpl in Hsplit. inversion Hsplit; subst.
          destruct (IH _ _ eq_refl g' h' gs' eq_refl Hm) as [Hlt|[-> Hr]].
          -- left. simpl. lia.
          -- right. auto.
  Qed.

  (* Leftmost-lazy: among all ways the pattern matches the host, the matcher returns the one whose
     group lengths are lexicographically least (earlier wildcards take as little as possible). *)
  Theorem glob_lazy_leftmost : forall p h gs gs',
    glob_match p h = Some gs -> Matches p h gs' ->
    lex_le (map (@length N) gs) (map (@length N) gs').
  Proof.
    induction p as [|c p IH]; intros h gs gs' H Hm.
    - inversion Hm; subst. simpl in H. inversion H. constructor.
    - cbn [Glob.glob_match] in H.
      destruct (matches_cons_inv _ _ _ _ Hm)
        as [[Hs [Hq [h' [-> Hm']]]] | [[-> [x [h' [gs2 [-> [-> [Dx Hm']]]]]]] | [-> [g [h' [gs2 [-> [-> [Hd Hm']]]]]]]]].
      + apply N.eqb_neq in Hs. apply N.eqb_neq in Hq. rewrite Hs, Hq, N.eqb_refl in H. eauto.
      + change (qmark =? star) with false in H. change (qmark =? qmark) with true in H. cbn beta iota in H.
        rewrite Dx in H. destruct (glob_match p h') as [gs0|] eqn:E; [|discriminate].
        inversion H; subst. simpl. apply lex_eq. eauto.
      + change (star =? star) with true in H. cbn beta iota in H.
        destruct (star_try_cons _ _ _ H) as [g0 [gs0 ->]].
        destruct (star_try_lazy p (glob_match p) (glob_complete p) _ _ _ H g h' gs2 eq_refl Hm')
          as [Hlt|[-> Hr]].
        * simpl. apply lex_lt. assumption.
        * simpl. apply lex_eq. eauto.
  Qed.

  (* the groups are determined by their lengths: two matches with equal lengths are equal *)
  Lemma app_eq_len {A} : forall (g g0 h h0 : list A),
    g ++ h = g0 ++ h0 -> length g = length g0 -> g = g0 /\ h = h0.
  Proof.
    induction g as [|a g IHg]; intros [|b g0] h h0 Hs Hlen; simpl in *; try discriminate; auto.
    inversion Hs; subst. inversion Hlen as [Hl].
    destruct (IHg _ _ _ H1 Hl) as [-> ->]. auto.
  Qed.

  Lemma matches_lengths_unique : forall p h gs gs',
    Matches p h gs -> Matches p h gs' ->
    map (@length N) gs = map (@length N) gs' -> gs = gs'.
  Proof.
    induction p as [|c p IH]; intros h gs gs' H H' Hl.
    - inversion H; subst. inversion H'; subst. reflexivity.
    - destruct (matches_cons_inv _ _ _ _ H)
        as [[Hs [Hq [h1 [-> Hm]]]] | [[-> [x [h1 [gs1 [-> [-> [Dx Hm]]]]]]] | [-> [g [h1 [gs1 [-> [-> [Hd Hm]]]]]]]]];
      destruct (matches_cons_inv _ _ _ _ H')
        as [[Hs' [Hq' [h2 [E2 Hm']]]] | [[Ec [y [h2 [gs2 [E2 [-> [Dy Hm']]]]]]] | [Ec [g2 [h2 [gs2 [E2 [-> [Hd' Hm']]]]]]]]];
      try congruence; try discriminate.
      + inversion E2; subst. eauto.
      + inversion E2; subst. f_equal. simpl in Hl. inversion Hl. eauto.
      + simpl in Hl. inversion Hl as [[Hlen Hrest]].
        destruct (app_eq_len _ _ _ _ E2 Hlen) as [-> ->]. f_equal. eauto.
  Qed.
End MatchProofs.

(* ---------- PRE-FIX matcher: the line-feed deviation is confined to hosts with a line feed ---------- *)

Lemma star_try_ext dotA dotB rest h :
  (forall c, In c h -> dotA c = dotB c) ->
  star_try dotA rest h = star_try dotB rest h.
Proof.
  induction h as [|x h IH]; intro Hd; simpl; [reflexivity|].
  destruct (rest (x :: h)); [reflexivity|].
  rewrite (Hd x (or_introl eq_refl)). rewrite IH; [reflexivity|].
  intros c Hc. apply Hd. now right.
Qed.

Lemma star_try_ext_rest dot restA restB h :
  (forall t, (exists pre, h = pre ++ t) -> restA t = restB t) ->
  star_try dot restA h = star_try dot restB h.
Proof.
  induction h as [|x h IH]; intro Hr; simpl.
  - rewrite (Hr [] (ex_intro _ [] eq_refl)). reflexivity.
  - rewrite (Hr (x :: h) (ex_intro _ [] eq_refl)).
    rewrite IH; [reflexivity|]. intros t [pre ->]. apply Hr. exists (x :: pre). reflexivity.
Qed.

Lemma glob_match_ext dotA dotB : forall p h,
  (forall c, In c h -> dotA c = dotB c) ->
  glob_match dotA p h = glob_match dotB p h.
Proof.
  induction p as [|c p IH]; intros h Hd; [reflexivity|].
  cbn [glob_match]. destruct (c =? star).
  - rewrite (star_try_ext dotA dotB _ h Hd).
    apply star_try_ext_rest. intros t [pre ->]. apply IH.
    intros x Hx. apply Hd. apply in_or_app. now right.
  - destruct (c =? qmark).
    + destruct h as [|x h]; [reflexivity|]. rewrite (Hd x (or_introl eq_refl)).
      rewrite IH; [reflexivity|]. intros y Hy. apply Hd. now right.
    + destruct h as [|x h]; [reflexivity|]. rewrite IH; [reflexivity|].
      intros y Hy. apply Hd. now right.
Qed.

Lemma lower_cp_lf c : lower_cp c = 10 -> c = 10.
Proof.
  unfold lower_cp, in_rng.
  repeat match goal with
  | |- context [if ?b then _ else _] => let E := fresh "E" in destruct b eqn:E
  end; intro H; try assumption;
  repeat match goal with
  | H : (_ && _) = true |- _ => apply andb_true_iff in H; destruct H
  | H : (_ <=? _) = true |- _ => apply N.leb_le in H
  end; lia.
Qed.

Theorem old_match_eq_spec_off_trigger : forall s pattern,
  has_lf s = false -> match_bytes old_dot s pattern = match_bytes spec_dot s pattern.
Proof.
  intros s pattern H. unfold match_bytes. f_equal. apply glob_match_ext.
  intros c Hc. unfold old_dot, spec_dot. apply negb_true_iff, N.eqb_neq. intro E. subst c.
  unfold lower_cps in Hc. apply in_map_iff in Hc. destruct Hc as [y [Hy Hin]].
  apply lower_cp_lf in Hy. subst y.
  unfold has_lf in H. assert (existsb (fun c => c =? 10) (utf8_decode s) = true); [|congruence].
  apply existsb_exists. exists 10. split; [assumption|reflexivity].
Qed.

(* the pre-fix deviation was real: the probe input, evaluated; today's matcher is the spec's *)
Definition host_lf : list N := [97; 10; 98; 46; 101; 120].       (* "a\nb.ex" *)
Definition pat_lf : list N := [42; 46; 101; 120].                (* "*.ex" *)

Lemma old_match_refuted :
  has_lf host_lf = true
  /\ match_bytes old_dot host_lf pat_lf = None
  /\ match_bytes spec_dot host_lf pat_lf = Some [[97; 10; 98]].
Proof. vm_compute. repeat split; reflexivity. Qed.

Theorem match_impl_is_spec : forall s pattern,
  match_bytes impl_dot s pattern = match_bytes spec_dot s pattern.
Proof. reflexivity. Qed.

Lemma impl_match_probe : match_bytes impl_dot host_lf pat_lf = Some [[97; 10; 98]].
Proof. vm_compute. reflexivity. Qed.

(* ---------- first route ---------- *)

Lemma find_in_hosts_spec dot h : forall pats p gs,
  find_in_hosts dot h pats = Some (p, gs) ->
  exists l1 l2, pats = l1 ++ p :: l2
                /\ match_bytes dot h p = Some gs
                /\ (forall q, In q l1 -> match_bytes dot h q = None).
Proof.
  induction pats as [|q r IH]; intros p gs H; simpl in H; [discriminate|].
  destruct (match_bytes dot h q) as [g|] eqn:E.
  - inversion H; subst. exists [], r. repeat split; auto. intros ? [].
  - destruct (IH _ _ H) as [l1 [l2 [-> [Hm Hn]]]]. exists (q :: l1), l2. repeat split; auto.
    intros q' [<-|Hin]; auto.
Qed.

Lemma find_in_hosts_none dot h : forall pats,
  find_in_hosts dot h pats = None -> forall q, In q pats -> match_bytes dot h q = None.
Proof.
  induction pats as [|q r IH]; intros H q' Hin; [destruct Hin|]. simpl in H.
  destruct (match_bytes dot h q) eqn:E; [discriminate|].
  destruct Hin as [<-|Hin]; auto.
Qed.

Lemma find_route_from_spec dot h : forall rs i j p gs,
  find_route_from dot i h rs = Some (j, p, gs) ->
  exists k r l1 l2,
    j = i + N.of_nat k /\ nth_error rs k = Some r
    /\ fst r = l1 ++ p :: l2
    /\ match_bytes dot h p = Some gs
    /\ (forall q, In q l1 -> match_bytes dot h q = None)
    /\ (forall k' r', (k' < k)%nat -> nth_error rs k' = Some r' ->
          forall q, In q (fst r') -> match_bytes dot h q = None).
Proof.
  induction rs as [|r rest IH]; intros i j p gs H; simpl in H; [discriminate|].
  destruct (find_in_hosts dot h (fst r)) as [[p0 gs0]|] eqn:E.
  - inversion H; subst. destruct (find_in_hosts_spec _ _ _ _ _ E) as [l1 [l2 [Hl [Hm Hn]]]].
    exists 0%nat, r, l1, l2. repeat split; auto; [lia|]. intros k' r' Hk. lia.
  - destruct (IH _ _ _ _ H) as [k [r0 [l1 [l2 [Hj [Hnth [Hl [Hm [Hn Hearlier]]]]]]]]].
    exists (S k), r0, l1, l2. repeat split; auto; [lia|].
    intros [|k'] r' Hk Hnth' q Hq.
    + simpl in Hnth'. inversion Hnth'; subst. eapply find_in_hosts_none; eauto.
    + simpl in Hnth'. eapply Hearlier; eauto. lia.
Qed.

Lemma find_route_from_none dot h : forall rs i,
  find_route_from dot i h rs = None ->
  forall r q, In r rs -> In q (fst r) -> match_bytes dot h q = None.
Proof.
  induction rs as [|r0 rest IH]; intros i H r q Hr Hq; [destruct Hr|]. simpl in H.
  destruct (find_in_hosts dot h (fst r0)) as [[p0 gs0]|] eqn:E; [discriminate|].
  destruct Hr as [<-|Hr].
  - eapply find_in_hosts_none; eauto.
  - eapply IH; eauto.
Qed.

(* match_bytes in terms of the declarative relation *)
Lemma match_bytes_some dot s pat gsb :
  match_bytes dot s pat = Some gsb ->
  exists gs, gsb = map utf8_encode gs
             /\ Matches dot (lower_cps (utf8_decode pat)) (lower_cps (utf8_decode s)) gs
             /\ forall gs', Matches dot (lower_cps (utf8_decode pat)) (lower_cps (utf8_decode s)) gs' ->
                  lex_le (map (@length N) gs) (map (@length N) gs').
Proof.
  unfold match_bytes. destruct (glob_match dot _ _) as [gs|] eqn:E; [|discriminate].
  simpl. intro H. inversion H; subst. exists gs. repeat split.
  - apply glob_sound. assumption.
  - intros gs' Hm. eapply glob_lazy_leftmost; eauto.
Qed.

Lemma match_bytes_none dot s pat :
  match_bytes dot s pat = None ->
  forall gs, ~ Matches dot (lower_cps (utf8_decode pat)) (lower_cps (utf8_decode s)) gs.
Proof.
  unfold match_bytes. destruct (glob_match dot _ _) as [gs|] eqn:E; [discriminate|].
  intros _. apply glob_none. assumption.
Qed.

(* ---------- substitution ---------- *)

Lemma is_digit_not_dollar c : is_digit c = true -> (c =? dollar) = false.
Proof.
  unfold is_digit, dollar. intro H. apply andb_true_iff in H. destruct H as [H _].
  apply N.leb_le in H. apply N.eqb_neq. lia.
Qed.

Lemma parse_digits n : forall ds x, forallb is_digit ds = true ->
  parse n (ds ++ x) = map TLit ds ++ parse n x.
Proof.
  induction ds as [|d ds IH]; intros x H; [reflexivity|].
  simpl in H. apply andb_true_iff in H. destruct H as [Hd Hds].
  simpl. rewrite (is_digit_not_dollar _ Hd). now rewrite IH.
Qed.

Lemma lead_digits_all s : forallb is_digit (lead_digits s) = true.
Proof.
  induction s as [|c r IH]; [reflexivity|]. simpl. destruct (is_digit c) eqn:E; [|reflexivity].
  simpl. now rewrite E.
Qed.

Lemma lead_digits_split s : exists x, s = lead_digits s ++ x /\ lead_digits x = [].
Proof.
  induction s as [|c r [x [Hx Hl]]].
  - exists []. auto.
  - simpl. destruct (is_digit c) eqn:E.
    + exists x. split; [simpl; congruence|assumption].
    + exists (c :: r). split; [reflexivity|]. simpl. now rewrite E.
Qed.

Lemma skipn_map_app {A B} (f : A -> B) (l : list A) (r : list B) :
  skipn (length l) (map f l ++ r) = r.
Proof. induction l; simpl; auto. Qed.

(* nothing is lost: rendering the tokens gives the template back, so everything that is not a
   reference is left alone *)
Lemma render_lits ds : render (map TLit ds) = ds.
Proof. induction ds as [|d ds IH]; [reflexivity|]. unfold render in *. simpl. now rewrite IH. Qed.

Lemma render_app a b : render (a ++ b) = render a ++ render b.
Proof. unfold render. apply flat_map_app. Qed.

Theorem parse_render n : forall t, render (parse n t) = t.
Proof.
  induction t as [|c r IH]; [reflexivity|]. simpl.
  destruct (c =? dollar) eqn:Ec.
  - destruct (valid_index n (lead_digits r)) eqn:Ev.
    + apply N.eqb_eq in Ec. subst c.
      destruct (lead_digits_split r) as [x [Hr Hx]].
      remember (lead_digits r) as ld eqn:Hld.
      assert (Hall : forallb is_digit ld = true) by (subst ld; apply lead_digits_all).
      assert (Hp : parse n r = map TLit ld ++ parse n x).
      { rewrite Hr at 1. apply parse_digits. exact Hall. }
      rewrite Hp, skipn_map_app.
      assert (IH' : render (parse n r) = ld ++ x) by (rewrite <- Hr; exact IH).
      rewrite Hp, render_app, render_lits in IH'. apply app_inv_head in IH'.
      change (render (TRef ld :: parse n x)) with (dollar :: ld ++ render (parse n x)).
      rewrite IH'. f_equal. symmetry. exact Hr.
    + change (render (TLit c :: parse n r)) with (c :: render (parse n r)). now rewrite IH.
  - change (render (TLit c :: parse n r)) with (c :: render (parse n r)). now rewrite IH.
Qed.

(* every reference produced by the tokeniser names an existing group *)
Theorem parse_refs_valid n : forall t ds, In (TRef ds) (parse n t) -> valid_index n ds = true.
Proof.
  induction t as [|c r IH]; intros ds H; [destruct H|]. simpl in H.
  destruct (c =? dollar).
  - destruct (valid_index n (lead_digits r)) eqn:Ev.
    + destruct H as [H|H]; [inversion H; subst; assumption|].
      apply IH. clear - H. revert H. generalize (length (lead_digits r)) (parse n r).
      induction n0; intros l H; [exact H|]. destruct l; [destruct H|]. right. apply IHn0. exact H.
    + destruct H as [H|H]; [discriminate|auto].
  - destruct H as [H|H]; [discriminate|auto].
Qed.

(* canonical token lists: references are valid and not followed by a digit, and no literal "$"
   is followed by text that would make it a reference *)
Fixpoint canonical (n : N) (ts : list tok) : Prop :=
  match ts with
  | [] => True
  | TLit c :: r => (c = dollar -> valid_index n (lead_digits (render r)) = false) /\ canonical n r
  | TRef ds :: r => valid_index n ds = true /\ forallb is_digit ds = true
                    /\ lead_digits (render r) = [] /\ canonical n r
  end.

Lemma lead_digits_app ds x : forallb is_digit ds = true -> lead_digits (ds ++ x) = ds ++ lead_digits x.
Proof.
  induction ds as [|d ds IH]; intro H; [reflexivity|]. simpl in H.
  apply andb_true_iff in H. destruct H as [Hd Hds]. simpl. rewrite Hd. now rewrite IH.
Qed.

Lemma render_parse n : forall ts, canonical n ts -> parse n (render ts) = ts.
Proof.
  induction ts as [|t r IH]; intro H; [reflexivity|].
  destruct t as [c|ds]; simpl in H.
  - destruct H as [Hc Hr]. change (render (TLit c :: r)) with (c :: render r). simpl.
    rewrite (IH Hr). destruct (c =? dollar) eqn:Ec; [|reflexivity].
    apply N.eqb_eq in Ec. now rewrite (Hc Ec).
  - destruct H as [Hv [Hd [Hl Hr]]].
    change (render (TRef ds :: r)) with (dollar :: ds ++ render r). simpl.
    change (dollar =? dollar) with true. cbn beta iota.
    rewrite (lead_digits_app _ _ Hd), Hl, app_nil_r, Hv.
    rewrite (parse_digits n ds _ Hd), skipn_map_app. now rewrite (IH Hr).
Qed.

(* Simultaneous substitution: if the template is the text of a canonical token list, the result is
   the concatenation of the literals and of the referenced groups - whatever the groups contain
   (a group that contains "$1" is copied, not substituted again). *)
Theorem subst_simultaneous : forall gs ts,
  canonical (N.of_nat (length gs)) ts ->
  spec_subst (render ts) gs = flat_map (expand gs) ts.
Proof.
  intros gs ts H. unfold spec_subst. now rewrite (render_parse _ _ H).
Qed.

(* non-vacuity: "$2.$1:$9" with two groups ["x"; "$1"] *)
Example subst_simultaneous_example :
  let ts := [TRef [50]; TLit 46; TRef [49]; TLit 58; TLit 36; TLit 57] in
  let gs := [[120]; [36; 49]] in
  canonical 2 ts /\ render ts = [36; 50; 46; 36; 49; 58; 36; 57]
  /\ spec_subst (render ts) gs = [36; 49; 46; 120; 58; 36; 57].
Proof. cbv zeta. split; [|split]; [|reflexivity|vm_compute; reflexivity].
  simpl. repeat split; try reflexivity; intros; try discriminate. Qed.

(* the PRE-FIX sequential ReplaceAll was not simultaneous: both recorded inputs *)
Lemma old_subst_refuted :
  (let t := [36; 50] in let gs := [[120]; [36; 49]] in          (* "$2", ["x"; "$1"] *)
   rescans t gs = true /\ old_subst t gs = [120] /\ spec_subst t gs = [36; 49])
  /\
  (let t := [104; 36; 49; 57] in let gs := [[120]; [121]] in    (* "h$19", ["x"; "y"] *)
   ref_then_digit 2 t = true /\ old_subst t gs = [104; 120; 57] /\ spec_subst t gs = t).
Proof. vm_compute. repeat split; reflexivity. Qed.

(* Off both triggers the PRE-FIX and the simultaneous substitution agree - checked exhaustively (not proved in general)
   for every template of length <= 5 over {"$","1","2","a"} against six group lists. *)
Fixpoint words (syms : list N) (k : nat) : list (list N) :=
  match k with
  | O => [[]]
  | S k' => [] :: flat_map (fun w => map (fun s => s :: w) syms) (words syms k')
  end.

Definition off_trigger_agree (t : list N) (gs : list (list N)) : bool :=
  ref_then_digit (N.of_nat (length gs)) t || rescans t gs
  || (if list_eq_dec N.eq_dec (old_subst t gs) (spec_subst t gs) then true else false).

Example old_subst_eq_spec_off_trigger_bounded :
  forallb (fun t => forallb (off_trigger_agree t)
     [[]; [[120]]; [[120]; [121]]; [[49]; [36]]; [[36; 49]; [50]]; [[]; [49; 36]; [120]]])
     (words [36; 49; 50; 97] 5) = true.
Proof. vm_compute. reflexivity. Qed.

(* ---------- today's substitution is the spec's ---------- *)

Definition dstep (a d : N) : N := a * 10 + (d - 48).

Lemma digits_value_fold ds : digits_value ds = fold_left dstep ds 0.
Proof. reflexivity. Qed.

Lemma fold_dstep_ge : forall ds acc, acc * 10 ^ N.of_nat (length ds) <= fold_left dstep ds acc.
Proof.
  induction ds as [|d r IH]; intro acc.
  - simpl. lia.
  - cbn [fold_left length]. rewrite Nat2N.inj_succ, N.pow_succ_r'.
    specialize (IH (dstep acc d)). unfold dstep in IH at 1.
    assert (acc * (10 * 10 ^ N.of_nat (length r)) <= (acc * 10 + (d - 48)) * 10 ^ N.of_nat (length r)) by nia.
    lia.
Qed.

(* a run of ten or more digits without a leading zero is at least 10^9 *)
Lemma valid_index_short n ds :
  n < 1000000000 -> forallb is_digit ds = true -> valid_index n ds = true -> (length ds <= 9)%nat.
Proof.
  intros Hn Hd Hv. destruct ds as [|d r]; [simpl; lia|].
  unfold valid_index in Hv. apply andb_true_iff in Hv. destruct Hv as [Hz Hle].
  apply negb_true_iff, N.eqb_neq in Hz. apply N.leb_le in Hle.
  simpl in Hd. apply andb_true_iff in Hd. destruct Hd as [Hd _].
  unfold is_digit in Hd. apply andb_true_iff in Hd. destruct Hd as [Hd1 _]. apply N.leb_le in Hd1.
  destruct (le_lt_dec (length (d :: r)) 9) as [|Hlong]; [assumption|]. exfalso.
  rewrite digits_value_fold in Hle. cbn [fold_left] in Hle.
  pose proof (fold_dstep_ge r (dstep 0 d)) as Hge. unfold dstep in Hge at 1.
  assert (H9 : 10 ^ 9 <= 10 ^ N.of_nat (length r)).
  { apply N.pow_le_mono_r; [lia|]. simpl in Hlong. lia. }
  change (10 ^ 9) with 1000000000 in H9.
  assert (1 <= 0 * 10 + (d - 48)) by lia. nia.
Qed.

Lemma impl_parse_is_parse n : n < 1000000000 -> forall t, impl_parse n t = parse n t.
Proof.
  intros Hn. induction t as [|c r IH]; [reflexivity|]. simpl. rewrite IH.
  destruct (c =? dollar); [|reflexivity].
  assert (E : impl_valid_index n (lead_digits r) = valid_index n (lead_digits r)).
  { unfold impl_valid_index. destruct (valid_index n (lead_digits r)) eqn:Ev; [|apply andb_false_r].
    rewrite andb_true_r. apply Nat.leb_le.
    apply (valid_index_short n _ Hn (lead_digits_all r) Ev). }
  now rewrite E.
Qed.

(* substituteBackendParams of today's code = the simultaneous substitution of the property
   (for fewer than 10^9 groups; paramIndex refuses digit runs longer than nine) *)
Theorem subst_impl_is_spec : forall t gs,
  N.of_nat (length gs) < 1000000000 -> impl_subst t gs = spec_subst t gs.
Proof. intros t gs H. unfold impl_subst, spec_subst. now rewrite (impl_parse_is_parse _ H). Qed.

Corollary impl_subst_simultaneous : forall gs ts,
  N.of_nat (length gs) < 1000000000 ->
  canonical (N.of_nat (length gs)) ts ->
  impl_subst (render ts) gs = flat_map (expand gs) ts.
Proof. intros gs ts Hn Hc. rewrite (subst_impl_is_spec _ _ Hn). now apply subst_simultaneous. Qed.

(* today's code on the two inputs on which the pre-fix code failed *)
Lemma impl_subst_probes :
  impl_subst [36; 50] [[120]; [36; 49]] = [36; 49]
  /\ impl_subst [104; 36; 49; 57] [[120]; [121]] = [104; 36; 49; 57]
  /\ impl_subst [36; 49] [] = [36; 49].
Proof. vm_compute. repeat split; reflexivity. Qed.

(* ---------- host cleaning ---------- *)

Lemma before_sep_forge h x : ~ In 0 h -> before_sep [0] (h ++ 0 :: x) = h.
Proof.
  induction h as [|c h IH]; intro H.
  - reflexivity.
  - cbn [app before_sep starts_with].
    assert (E : (0 =? c) = false) by (apply N.eqb_neq; intro; subst; apply H; left; auto).
    rewrite E. cbn [andb]. rewrite IH; [reflexivity|]. intro Hin. apply H. now right.
Qed.

Lemma before_sep_none h : ~ In 0 h -> before_sep [0] h = h.
Proof.
  induction h as [|c h IH]; intro H; [reflexivity|].
  cbn [before_sep starts_with].
  assert (E : (0 =? c) = false) by (apply N.eqb_neq; intro; subst; apply H; left; auto).
  rewrite E. cbn [andb]. rewrite IH; [reflexivity|]. intro Hin. apply H. now right.
Qed.

(* the Forge marker and everything after it never influence routing *)
Theorem clean_host_forge h x : ~ In 0 h -> clean_host (h ++ 0 :: x) = clean_host h.
Proof.
  intro H. unfold clean_host. now rewrite (before_sep_forge h x H), (before_sep_none h H).
Qed.

Lemma drop_dots_head s : match drop_dots s with c :: _ => c <> 46 | [] => True end.
Proof.
  induction s as [|c r IH]; simpl; [exact I|].
  destruct (c =? 46) eqn:E; [exact IH|]. apply N.eqb_neq in E. exact E.
Qed.

(* ---------- the route search, stated against the declarative relation ---------- *)

Definition pat_matches (dot : N -> bool) (host pat : list N) (gs : groups) : Prop :=
  Matches dot (lower_cps (utf8_decode pat)) (lower_cps (utf8_decode host)) gs.

Theorem first_route : forall dot h rs i p gsb,
  find_route dot h rs = Some (i, p, gsb) ->
  exists r l1 l2 gs,
    nth_error rs (N.to_nat i) = Some r /\ fst r = l1 ++ p :: l2
    /\ gsb = map utf8_encode gs
    /\ pat_matches dot h p gs
    /\ (forall gs', pat_matches dot h p gs' -> lex_le (map (@length N) gs) (map (@length N) gs'))
    /\ (forall q, In q l1 -> forall gs', ~ pat_matches dot h q gs')
    /\ (forall k r', (k < N.to_nat i)%nat -> nth_error rs k = Some r' ->
          forall q, In q (fst r') -> forall gs', ~ pat_matches dot h q gs').
Proof.
  intros dot h rs i p gsb H. unfold find_route in H.
  destruct (find_route_from_spec _ _ _ _ _ _ _ H) as [k [r [l1 [l2 [Hi [Hnth [Hl [Hm [Hn He]]]]]]]]].
  destruct (match_bytes_some _ _ _ _ Hm) as [gs [Hg [Hmat Hlazy]]].
  assert (Hk : N.to_nat i = k) by lia. rewrite Hk.
  exists r, l1, l2, gs. repeat split; auto.
  - intros q Hq. apply match_bytes_none. auto.
  - intros k' r' Hlt Hn' q Hq. apply match_bytes_none. eapply He; eauto.
Qed.

Theorem no_route : forall dot subst raw rs,
  find_route dot (clean_host raw) rs = None ->
  (forall r q, In r rs -> In q (fst r) -> forall gs, ~ pat_matches dot (clean_host raw) q gs)
  /\ route_outcome dot subst raw rs = (1, None, []).
Proof.
  intros dot subst raw rs H. split.
  - intros r q Hr Hq. apply match_bytes_none. eapply find_route_from_none; eauto.
  - unfold route_outcome. now rewrite H.
Qed.

(* a route that is found is what route_outcome reports, with every backend substituted *)
Theorem found_route_outcome : forall dot subst raw rs i p gs b bs,
  find_route dot (clean_host raw) rs = Some (i, p, gs) ->
  snd (nth (N.to_nat i) rs ([], [])) = b :: bs ->
  route_outcome dot subst raw rs = (0, Some (i, p, gs), map (fun t => subst t gs) (b :: bs)).
Proof.
  intros dot subst raw rs i p gs b bs H Hb. unfold route_outcome. rewrite H, Hb. reflexivity.
Qed.

Example first_route_example :
  let rs := [([[120]], [[49]]); ([[97; 42]; [42; 46; 101; 120]], [[36; 49; 58; 50]])] in  (* "x" ; "a*", "*.ex" -> "$1:2" *)
  route_outcome spec_dot spec_subst [66; 46; 69; 88; 46; 0; 70] rs                           (* "B.EX.\0F" *)
  = (0, Some (1, [42; 46; 101; 120], [[98]]), [[98; 58; 50]]).
Proof. vm_compute. reflexivity. Qed.

Example matches_example :
  Matches spec_dot [42; 120; 42] [97; 120; 98; 120; 99] [[97]; [98; 120; 99]]
  /\ Matches spec_dot [42; 120; 42] [97; 120; 98; 120; 99] [[97; 120; 98]; [99]]
  /\ glob_match spec_dot [42; 120; 42] [97; 120; 98; 120; 99] = Some [[97]; [98; 120; 99]].
Proof.
  split; [|split].
  - apply (M_star spec_dot [97]); [reflexivity|]. apply M_lit; try discriminate.
    apply (M_star spec_dot [98; 120; 99] [] []); [reflexivity|]. constructor.
  - apply (M_star spec_dot [97; 120; 98]); [reflexivity|]. apply M_lit; try discriminate.
    apply (M_star spec_dot [99] [] []); [reflexivity|]. constructor.
  - vm_compute. reflexivity.
Qed.
