(* C30 — proofs about Model/Strategy.v.
   Part 1: the per-attempt iterator (each distinct backend once, termination), proved for the
           spec removal step and transferred to today's code (impl_remove = spec_remove, fix
           426c657); refutations for the PRE-FIX removal loop (old_remove).
   Part 2: the order each strategy dictates.
   Part 3 (Proofs/C30_Count.v): connection counts under every schedule. *)
From Coq Require Import List NArith Bool Arith Lia.
From Verif Require Import Base.Hex Base.Text Model.Strategy.
Import ListNotations.
Open Scope N_scope.

Lemma beq_bytes_refl a : beq_bytes a a = true.
Proof. apply beq_bytes_eq. reflexivity. Qed.

Lemma beq_bytes_false a b : beq_bytes a b = false <-> a <> b.
Proof.
  split.
  - intros H E. subst. rewrite beq_bytes_refl in H. discriminate.
  - intro H. destruct (beq_bytes a b) eqn:E; [|reflexivity]. apply beq_bytes_eq in E. contradiction.
Qed.

(* ---------- selection returns a member of the list ---------- *)

Lemma lc_scan_in m : forall l best bestc,
  lc_scan m l best bestc = best \/ In (lc_scan m l best bestc) l.
Proof.
  induction l as [|b r IH]; intros best bestc; simpl; [now left|].
  destruct (lookup0 m b <? bestc).
  - destruct (IH b (lookup0 m b)) as [E|Hin]; [rewrite E; right; now left|right; now right].
  - destruct (IH best bestc) as [E|Hin]; [now left|right; now right].
Qed.

Lemma ll_scan_in m : forall l best bestl,
  ll_scan m l best bestl = best \/ In (ll_scan m l best bestl) l.
Proof.
  induction l as [|b r IH]; intros best bestl; simpl; [now left|].
  destruct (lookup m b) as [v|]; [|right; now left].
  destruct ((bestl =? 0) || (v <? bestl)).
  - destruct (IH b v) as [E|Hin]; [rewrite E; right; now left|right; now right].
  - destruct (IH best bestl) as [E|Hin]; [now left|right; now right].
Qed.

Lemma or_first_in l b : l <> [] -> (b = [] \/ In b l) -> In (or_first l b) l.
Proof.
  intros Hl H. destruct l as [|x r]; [contradiction|].
  unfold or_first. destruct b as [|c b']; [simpl; now left|].
  destruct H as [H|H]; [discriminate|assumption].
Qed.

Lemma select_in st rh l s : l <> [] -> In (fst (select st rh l s)) l.
Proof.
  intro Hl. unfold select.
  destruct (st =? 2).
  - simpl. apply nth_In. destruct l as [|x r]; [contradiction|].
    assert (0 < N.of_nat (length (x :: r))) by (simpl; lia).
    pose proof (N.mod_upper_bound (lookup0 (rr s) rh) (N.of_nat (length (x :: r)))). lia.
  - destruct (st =? 3).
    + simpl. apply or_first_in; [assumption|]. apply lc_scan_in.
    + destruct (st =? 4).
      * simpl. apply or_first_in; [assumption|]. apply ll_scan_in.
      * simpl. destruct l; [contradiction|now left].
Qed.

(* ---------- spec_remove ---------- *)

Lemma spec_remove_incl b l x : In x (spec_remove b l) -> In x l.
Proof. unfold spec_remove. intro H. apply filter_In in H. tauto. Qed.

Lemma spec_remove_not_canon b l x : In x (spec_remove b l) -> canon x <> canon b.
Proof.
  unfold spec_remove. intro H. apply filter_In in H. destruct H as [_ H].
  apply negb_true_iff in H. now apply beq_bytes_false.
Qed.

Lemma spec_remove_keeps b l x : In x l -> canon x <> canon b -> In x (spec_remove b l).
Proof.
  intros Hin Hne. unfold spec_remove. apply filter_In. split; [assumption|].
  apply negb_true_iff. now apply beq_bytes_false.
Qed.

Lemma filter_len_le {A} (f : A -> bool) l : (length (filter f l) <= length l)%nat.
Proof. induction l as [|x r IH]; simpl; [lia|]. destruct (f x); simpl; lia. Qed.

Lemma spec_remove_shorter b l : In b l -> (length (spec_remove b l) < length l)%nat.
Proof.
  induction l as [|x r IH]; intro H; [destruct H|]. unfold spec_remove in *. simpl.
  destruct (beq_bytes (canon x) (canon b)) eqn:E; simpl.
  - pose proof (filter_len_le (fun b0 => negb (beq_bytes (canon b0) (canon b))) r). lia.
  - destruct H as [->|H]; [rewrite beq_bytes_refl in E; discriminate|].
    specialize (IH H). lia.
Qed.

(* ---------- each distinct backend at most once, all of them before giving up ---------- *)

Theorem each_distinct_once : forall st rh fuel l s ys ended s',
  drain spec_remove st rh fuel l s = (ys, ended, s') ->
  NoDup (map canon ys)
  /\ (forall y, In y ys -> In y l)
  /\ (ended = true -> forall b, In b l -> In (canon b) (map canon ys))
  /\ ((length l < fuel)%nat -> ended = true).
Proof.
  intros st rh fuel. induction fuel as [|f IH]; intros l s ys ended s' H; simpl in H.
  - inversion H; subst. repeat split; try constructor; try (intros; contradiction);
      try discriminate. intro. lia.
  - destruct l as [|x r].
    + inversion H; subst. repeat split; try constructor; intros; try contradiction; auto.
    + remember (x :: r) as l eqn:Hl.
      assert (Hne : l <> []) by (subst; discriminate).
      destruct (select st rh l s) as [b s1] eqn:Es.
      assert (Hb : In b l) by (pose proof (select_in st rh l s Hne) as Hi; now rewrite Es in Hi).
      destruct (drain spec_remove st rh f (spec_remove b l) s1) as [[ys0 e0] s2] eqn:Ed.
      assert (ys = b :: ys0 /\ ended = e0) as [-> ->]
        by (subst l; simpl in H; inversion H; auto).
      destruct (IH _ _ _ _ _ Ed) as [Hnd [Hsub [Hall Hterm]]].
      split; [|split; [|split]].
      * simpl. constructor; [|assumption].
        intro Hin. apply in_map_iff in Hin. destruct Hin as [y [Hc Hy]].
        apply Hsub in Hy. apply spec_remove_not_canon in Hy. congruence.
      * intros y [<-|Hy]; [assumption|]. eapply spec_remove_incl; eauto.
      * intros He c Hc. simpl.
        destruct (list_eq_dec N.eq_dec (canon c) (canon b)) as [E|E]; [left; congruence|].
        right. apply (Hall He). apply spec_remove_keeps; assumption.
      * intro Hlen. apply Hterm. pose proof (spec_remove_shorter b l Hb). lia.
Qed.

(* the attempt never makes more dials than there are entries *)
Corollary attempt_bounded : forall st rh fuel l s ys ended s',
  drain spec_remove st rh fuel l s = (ys, ended, s') -> (length ys <= length l)%nat.
Proof.
  intros st rh fuel. induction fuel as [|f IH]; intros l s ys ended s' H; simpl in H.
  - inversion H; subst. simpl. lia.
  - destruct l as [|x r]; [inversion H; subst; simpl; lia|].
    remember (x :: r) as l eqn:Hl. assert (Hne : l <> []) by (subst; discriminate).
    destruct (select st rh l s) as [b s1] eqn:Es.
    assert (Hb : In b l) by (pose proof (select_in st rh l s Hne) as Hi; now rewrite Es in Hi).
    destruct (drain spec_remove st rh f (spec_remove b l) s1) as [[ys0 e0] s2] eqn:Ed.
    assert (ys = b :: ys0) as -> by (subst l; simpl in H; inversion H; auto).
    specialize (IH _ _ _ _ _ Ed). pose proof (spec_remove_shorter b l Hb). simpl. lia.
Qed.

(* ---------- the PRE-FIX loop (before 426c657): both recorded, now fixed, findings ---------- *)

Definition ex_aliases : list bytes :=
  [ [69;120;97;109;112;108;101;46;99;111;109];                          (* Example.com *)
    [101;120;97;109;112;108;101;46;99;111;109;58;50;53;53;54;53];       (* example.com:25565 *)
    [69;88;65;77;80;76;69;46;67;79;77;58;50;53;53;54;53] ].             (* EXAMPLE.COM:25565 *)

Lemma old_each_distinct_once_refuted :
  has_alias ex_aliases = true
  /\ fst (fst (drain old_remove 0 [] 5 ex_aliases init_state)) = ex_aliases
  /\ map canon ex_aliases = repeat (canon (hd [] ex_aliases)) 3
  /\ fst (fst (drain spec_remove 0 [] 5 ex_aliases init_state)) = [hd [] ex_aliases].
Proof. vm_compute. repeat split; reflexivity. Qed.

Definition ex_unparsable : bytes := [97; 58; 98; 46; 105; 110; 116].    (* a:b.int *)

(* pre-fix: an address that netutil.Parse rejects was yielded on every call, for ever *)
Lemma old_attempt_never_ends_refuted : forall fuel s,
  drain old_remove 0 [] fuel [ex_unparsable] s = (repeat ex_unparsable fuel, false, s).
Proof.
  induction fuel as [|f IH]; intro s; [reflexivity|].
  change (drain old_remove 0 [] (S f) [ex_unparsable] s)
    with (let '(ys, ended, s2) := drain old_remove 0 [] f (old_remove ex_unparsable [ex_unparsable]) s in
          (ex_unparsable :: ys, ended, s2)).
  change (old_remove ex_unparsable [ex_unparsable]) with [ex_unparsable].
  rewrite IH. reflexivity.
Qed.

(* ---------- today's loop is the spec's ---------- *)

Theorem impl_remove_is_spec : forall sel l, impl_remove sel l = spec_remove sel l.
Proof.
  intros sel l. unfold spec_remove. induction l as [|b r IH]; [reflexivity|]. simpl.
  destruct (beq_bytes (canon b) (canon sel)); simpl; now rewrite IH.
Qed.

Lemma drain_ext r1 r2 : (forall b l, r1 b l = r2 b l) ->
  forall st rh fuel l s, drain r1 st rh fuel l s = drain r2 st rh fuel l s.
Proof.
  intros Hr st rh fuel. induction fuel as [|f IH]; intros l s; [reflexivity|].
  destruct l as [|x r]; [reflexivity|]. simpl.
  destruct (select st rh (x :: r) s) as [b s1]. now rewrite Hr, IH.
Qed.

Theorem drain_impl_is_spec : forall st rh fuel l s,
  drain impl_remove st rh fuel l s = drain spec_remove st rh fuel l s.
Proof. apply drain_ext. exact impl_remove_is_spec. Qed.

Theorem each_distinct_once_impl : forall st rh fuel l s ys ended s',
  drain impl_remove st rh fuel l s = (ys, ended, s') ->
  NoDup (map canon ys)
  /\ (forall y, In y ys -> In y l)
  /\ (ended = true -> forall b, In b l -> In (canon b) (map canon ys))
  /\ ((length l < fuel)%nat -> ended = true).
Proof. intros st rh fuel l s ys ended s' H. rewrite drain_impl_is_spec in H. eapply each_distinct_once; eauto. Qed.

Theorem attempt_bounded_impl : forall st rh fuel l s ys ended s',
  drain impl_remove st rh fuel l s = (ys, ended, s') -> (length ys <= length l)%nat.
Proof. intros st rh fuel l s ys ended s' H. rewrite drain_impl_is_spec in H. eapply attempt_bounded; eauto. Qed.

(* today's code on the inputs of the fixed findings: one dial for the three spellings; the
   unparsable address is dialled once and the attempt ends *)
Lemma impl_on_former_probes :
  fst (fst (drain impl_remove 0 [] 5 ex_aliases init_state)) = [hd [] ex_aliases]
  /\ drain impl_remove 0 [] 5 [ex_unparsable] init_state = ([ex_unparsable], true, init_state).
Proof. vm_compute. split; reflexivity. Qed.

(* ---------- order: sequential ---------- *)

(* configuration order with later aliases dropped *)
Fixpoint dedup (fuel : nat) (l : list bytes) : list bytes :=
  match fuel with
  | O => []
  | S f => match l with [] => [] | b :: r => b :: dedup f (spec_remove b r) end
  end.

Lemma spec_remove_head b r : spec_remove b (b :: r) = spec_remove b r.
Proof. unfold spec_remove. simpl. now rewrite beq_bytes_refl. Qed.

Lemma drain_S remove st rh f x r s :
  drain remove st rh (S f) (x :: r) s
  = let '(b, s1) := select st rh (x :: r) s in
    let '(ys, e, s2) := drain remove st rh f (remove b (x :: r)) s1 in (b :: ys, e, s2).
Proof. reflexivity. Qed.

Theorem order_sequential : forall rh fuel l s,
  fst (fst (drain spec_remove 0 rh fuel l s)) = dedup fuel l.
Proof.
  intros rh fuel. induction fuel as [|f IH]; intros l s; [reflexivity|].
  destruct l as [|b r]; [reflexivity|].
  rewrite drain_S. change (select 0 rh (b :: r) s) with (b, s). cbv beta iota.
  rewrite spec_remove_head. specialize (IH (spec_remove b r) s).
  destruct (drain spec_remove 0 rh f (spec_remove b r) s) as [[ys e] s2].
  simpl in *. now rewrite IH.
Qed.

Theorem order_sequential_impl : forall rh fuel l s,
  fst (fst (drain impl_remove 0 rh fuel l s)) = dedup fuel l.
Proof. intros. rewrite drain_impl_is_spec. apply order_sequential. Qed.

(* without aliases the sequential attempt is the configured list itself *)
Lemma dedup_no_alias : forall l fuel, NoDup (map canon l) -> (length l <= fuel)%nat -> dedup fuel l = l.
Proof.
  induction l as [|b r IH]; intros fuel Hnd Hlen; [destruct fuel; reflexivity|].
  destruct fuel as [|f]; [simpl in Hlen; lia|]. simpl. f_equal.
  inversion Hnd as [|? ? Hnotin Hnd']; subst.
  assert (Hr : spec_remove b r = r).
  { unfold spec_remove. clear - Hnotin. induction r as [|x r IHr]; [reflexivity|]. simpl.
    destruct (beq_bytes (canon x) (canon b)) eqn:E.
    - apply beq_bytes_eq in E. exfalso. apply Hnotin. simpl. now left.
    - simpl. f_equal. apply IHr. intro H. apply Hnotin. simpl. now right. }
  rewrite Hr. apply IH; [assumption|simpl in Hlen; lia].
Qed.

(* ---------- order: round-robin ---------- *)

Lemma lookup_set_same m k v : lookup (set m k v) k = Some v.
Proof.
  induction m as [|[k' v'] r IH]; simpl.
  - now rewrite beq_bytes_refl.
  - destruct (beq_bytes k' k) eqn:E; simpl; [now rewrite beq_bytes_refl|now rewrite E].
Qed.

Theorem order_round_robin_step : forall rh l s,
  let i := lookup0 (rr s) rh in
  fst (select 2 rh l s) = nth (N.to_nat (i mod N.of_nat (length l))) l []
  /\ lookup0 (rr (snd (select 2 rh l s))) rh = i + 1
  /\ lc (snd (select 2 rh l s)) = lc s /\ active (snd (select 2 rh l s)) = active s
  /\ lat (snd (select 2 rh l s)) = lat s.
Proof.
  intros rh l s. unfold select. simpl. repeat split.
  unfold lookup0. now rewrite lookup_set_same.
Qed.

(* m successive connections whose first dial succeeds: the first picks *)
Fixpoint first_picks (m : nat) (rh : bytes) (l : list bytes) (s : sstate) : list bytes :=
  match m with
  | O => []
  | S m' => let '(b, s1) := select 2 rh l s in b :: first_picks m' rh l s1
  end.

Lemma first_picks_gen : forall m rh l s i,
  lookup0 (rr s) rh = i ->
  first_picks m rh l s
  = map (fun k => nth (N.to_nat ((i + N.of_nat k) mod N.of_nat (length l))) l []) (seq 0 m).
Proof.
  induction m as [|m IH]; intros rh l s i Hi0; [reflexivity|].
  change (first_picks (S m) rh l s)
    with (let '(b, s1) := select 2 rh l s in b :: first_picks m rh l s1).
  destruct (order_round_robin_step rh l s) as [Hb [Hi _]].
  destruct (select 2 rh l s) as [b s1]. cbv beta iota.
  change (fst (b, s1)) with b in Hb. change (snd (b, s1)) with s1 in Hi.
  rewrite Hi0 in Hb, Hi.
  rewrite (IH rh l s1 (i + 1) Hi).
  change (seq 0 (S m)) with (0%nat :: seq 1 m). cbn [map]. f_equal.
  - rewrite Hb. now rewrite N.add_0_r.
  - rewrite <- seq_shift, map_map. apply map_ext. intro k.
    replace (i + 1 + N.of_nat k) with (i + N.of_nat (S k)) by lia. reflexivity.
Qed.

Theorem order_round_robin_rotation : forall m rh l s,
  first_picks m rh l s
  = map (fun k => nth (N.to_nat ((lookup0 (rr s) rh + N.of_nat k) mod N.of_nat (length l))) l [])
        (seq 0 m).
Proof. intros. now apply first_picks_gen. Qed.

(* ---------- order: least connections ---------- *)

Lemma lc_scan_spec m : forall l best bestc,
  let r := lc_scan m l best bestc in
  (r = best /\ forall x, In x l -> bestc <= lookup0 m x)
  \/ (exists pre post, l = pre ++ r :: post
        /\ lookup0 m r < bestc
        /\ (forall x, In x pre -> lookup0 m r < lookup0 m x)
        /\ (forall x, In x post -> lookup0 m r <= lookup0 m x)).
Proof.
  induction l as [|b t IH]; intros best bestc; simpl.
  - left. split; [reflexivity|intros x []].
  - destruct (lookup0 m b <? bestc) eqn:E.
    + apply N.ltb_lt in E.
      destruct (IH b (lookup0 m b)) as [[Hr Hall]|[pre [post [Hl [Hlt [Hpre Hpost]]]]]].
      * right. exists [], t. rewrite Hr. repeat split; auto. intros x [].
      * right. exists (b :: pre), post. repeat split; auto.
        -- simpl. now rewrite <- Hl.
        -- lia.
        -- intros x [<-|Hx]; auto.
    + apply N.ltb_ge in E.
      destruct (IH best bestc) as [[Hr Hall]|[pre [post [Hl [Hlt [Hpre Hpost]]]]]].
      * left. split; [assumption|]. intros x [<-|Hx]; auto.
      * right. exists (b :: pre), post. repeat split; auto.
        -- simpl. now rewrite <- Hl.
        -- intros x [<-|Hx]; [lia|auto].
Qed.

(* least-connections: the selected backend has the minimal open count and is the first such
   entry (backends are non-empty strings with fewer than 2^32-1 connections) *)
Theorem order_least_connections : forall rh l s,
  l <> [] -> ~ In [] l -> (forall x, In x l -> lookup0 (lc s) x < max_u32) ->
  let b := fst (select 3 rh l s) in
  snd (select 3 rh l s) = s
  /\ exists pre post, l = pre ++ b :: post
       /\ (forall x, In x pre -> lookup0 (lc s) b < lookup0 (lc s) x)
       /\ (forall x, In x post -> lookup0 (lc s) b <= lookup0 (lc s) x).
Proof.
  intros rh l s Hne Hnoempty Hbound. unfold select. simpl. split; [reflexivity|].
  destruct (lc_scan_spec (lc s) l [] max_u32) as [[Hr Hall]|[pre [post [Hl [Hlt [Hpre Hpost]]]]]].
  - exfalso. destruct l as [|x r]; [contradiction|].
    specialize (Hall x (or_introl eq_refl)). specialize (Hbound x (or_introl eq_refl)). lia.
  - set (r := lc_scan (lc s) l [] max_u32) in *.
    assert (Hin : In r l) by (rewrite Hl; apply in_or_app; right; now left).
    assert (Hr : or_first l r = r).
    { unfold or_first. destruct r; [exfalso; now apply Hnoempty|reflexivity]. }
    rewrite Hr. exists pre, post. auto.
Qed.

(* ---------- order: lowest latency ---------- *)

Lemma ll_scan_unmeasured m : forall pre b post best bestl,
  (forall x, In x pre -> lookup m x <> None) -> lookup m b = None ->
  ll_scan m (pre ++ b :: post) best bestl = b.
Proof.
  induction pre as [|x pre IH]; intros b post best bestl Hpre Hb; simpl.
  - now rewrite Hb.
  - destruct (lookup m x) as [v|] eqn:E; [|exfalso; apply (Hpre x); [now left|assumption]].
    destruct ((bestl =? 0) || (v <? bestl)); apply IH; auto; intros y Hy; apply Hpre; now right.
Qed.

Definition latv (m : amap) (x : bytes) : N := lookup0 m x.

Lemma ll_scan_spec m : forall l best bestl,
  (forall x, In x l -> exists v, lookup m x = Some v /\ 0 < v) ->
  let r := ll_scan m l best bestl in
  (r = best /\ (l = [] \/ (bestl <> 0 /\ forall x, In x l -> bestl <= latv m x)))
  \/ (exists pre post, l = pre ++ r :: post
        /\ (bestl = 0 \/ latv m r < bestl)
        /\ (forall x, In x pre -> latv m r < latv m x)
        /\ (forall x, In x post -> latv m r <= latv m x)).
Proof.
  induction l as [|b t IH]; intros best bestl Hall; simpl.
  - left. split; [reflexivity|now left].
  - destruct (Hall b (or_introl eq_refl)) as [v [Hv Hpos]]. rewrite Hv.
    assert (Hlb : latv m b = v) by (unfold latv, lookup0; now rewrite Hv).
    assert (Hall' : forall x, In x t -> exists v0, lookup m x = Some v0 /\ 0 < v0)
      by (intros x Hx; apply Hall; now right).
    destruct ((bestl =? 0) || (v <? bestl)) eqn:E.
    + assert (Hc : bestl = 0 \/ v < bestl).
      { apply orb_true_iff in E. destruct E as [E|E]; [left; now apply N.eqb_eq|right; now apply N.ltb_lt]. }
      destruct (IH b v Hall') as [[Hr Hcase]|[pre [post [Hl [Hlt [Hpre Hpost]]]]]].
      * right. exists [], t. rewrite Hr. repeat split; auto.
        -- rewrite Hlb. assumption.
        -- intros x [].
        -- intros x Hx. rewrite Hlb. destruct Hcase as [->|[_ Hge]]; [destruct Hx|auto].
      * right. exists (b :: pre), post. repeat split; auto.
        -- simpl. now rewrite <- Hl.
        -- destruct Hlt as [Hz|Hlt]; [lia|]. destruct Hc; [now left|right; lia].
        -- intros x [<-|Hx]; [|auto]. rewrite Hlb. destruct Hlt as [Hz|Hlt]; [lia|assumption].
    + apply orb_false_iff in E. destruct E as [E1 E2].
      apply N.eqb_neq in E1. apply N.ltb_ge in E2.
      destruct (IH best bestl Hall') as [[Hr Hcase]|[pre [post [Hl [Hlt [Hpre Hpost]]]]]].
      * left. split; [assumption|]. right. split; [assumption|].
        intros x [<-|Hx]; [rewrite Hlb; assumption|].
        destruct Hcase as [->|[_ Hge]]; [destruct Hx|auto].
      * right. exists (b :: pre), post. repeat split; auto.
        -- simpl. now rewrite <- Hl.
        -- intros x [<-|Hx]; [|auto]. rewrite Hlb. destruct Hlt as [Hz|Hlt]; [contradiction|lia].
Qed.

(* lowest-latency: an unmeasured backend is preferred (the first one); when all are measured
   (latencies are positive) the first backend with the minimal latency is selected *)
Theorem order_lowest_latency_unmeasured : forall rh pre b post s,
  b <> [] -> (forall x, In x pre -> lookup (lat s) x <> None) -> lookup (lat s) b = None ->
  select 4 rh (pre ++ b :: post) s = (b, s).
Proof.
  intros rh pre b post s Hb Hpre Hnone. unfold select. simpl.
  rewrite (ll_scan_unmeasured _ _ _ _ _ _ Hpre Hnone).
  unfold or_first. destruct b; [contradiction|reflexivity].
Qed.

Theorem order_lowest_latency_measured : forall rh l s,
  l <> [] -> ~ In [] l ->
  (forall x, In x l -> exists v, lookup (lat s) x = Some v /\ 0 < v) ->
  let b := fst (select 4 rh l s) in
  snd (select 4 rh l s) = s
  /\ exists pre post, l = pre ++ b :: post
       /\ (forall x, In x pre -> latv (lat s) b < latv (lat s) x)
       /\ (forall x, In x post -> latv (lat s) b <= latv (lat s) x).
Proof.
  intros rh l s Hne Hnoempty Hall. unfold select. simpl. split; [reflexivity|].
  destruct (ll_scan_spec (lat s) l [] 0 Hall) as [[Hr Hcase]|[pre [post [Hl [Hlt [Hpre Hpost]]]]]].
  - exfalso. destruct Hcase as [->|[Hnz _]]; [contradiction|now apply Hnz].
  - set (r := ll_scan (lat s) l [] 0) in *.
    assert (Hin : In r l) by (rewrite Hl; apply in_or_app; right; now left).
    assert (Hr : or_first l r = r).
    { unfold or_first. destruct r; [exfalso; now apply Hnoempty|reflexivity]. }
    rewrite Hr. exists pre, post. auto.
Qed.

(* non-vacuity of the order theorems: concrete states *)
Example order_examples :
  let a := [97] in let b := [98] in let c := [99] in
  let s := mkS [] [(a, 2); (b, 1); (c, 1)] [] [(a, 30); (b, 7); (c, 7)] in
  fst (select 3 [] [a; b; c] s) = b
  /\ fst (select 4 [] [a; b; c] s) = b
  /\ fst (select 4 [] [a; [100]; c] s) = [100]
  /\ first_picks 4 [] [a; b; c] s = [a; b; c; a]
  /\ dedup 9 ex_aliases = [hd [] ex_aliases].
Proof. vm_compute. repeat split; reflexivity. Qed.
