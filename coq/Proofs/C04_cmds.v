(* C04 - proof side of Model/AvailCmds.v: the reference decoder of the command node table inverts the encoder of the
   same subset on every well-formed table (unbounded), and the encoder is therefore injective, so equal bytes mean
   equal tables and equal canonical graphs. *)
From Coq Require Import String List NArith ZArith Bool Lia ZifyN ZifyNat ZifyBool.
From Verif Require Import Base.Hex Model.Layout Model.LayoutPrims Model.AvailCmds Proofs.C04_prims.
Import ListNotations.
Open Scope list_scope.
Open Scope Z_scope.

Lemma small_range n : small n = true -> - 2 ^ 31 <= Z.of_N n < 2 ^ 31.
Proof. unfold small. intro H. apply Z.ltb_lt in H. lia. Qed.

Lemma ltb0_N n : (Z.of_N n <? 0) = false.
Proof. apply Z.ltb_ge. lia. Qed.
Lemma ltb0_nat n : (Z.of_nat n <? 0) = false.
Proof. apply Z.ltb_ge. lia. Qed.

Lemma enc_varints_cons x l : enc_varints (x :: l) = enc_varint (Z.of_N x) ++ enc_varints l.
Proof. reflexivity. Qed.

Lemma dec_varints_rt l rest : forallb small l = true ->
  dec_varints (length l) (enc_varints l ++ rest) = Some (l, rest).
Proof.
  induction l as [|x l IH]; intro H; cbn [forallb] in H.
  - reflexivity.
  - apply andb_true_iff in H. destruct H as [Hx Hl].
    rewrite enc_varints_cons. cbn [length dec_varints]. rewrite <- app_assoc.
    rewrite dec_enc_varint by (apply small_range; exact Hx).
    rewrite ltb0_N, IH by exact Hl. rewrite N2Z.id. reflexivity.
Qed.

Lemma dec_string_rt s rest : wf_name s = true -> dec_string (enc_string s ++ rest) = Some (s, rest).
Proof.
  unfold wf_name, dec_string, enc_string. intro H. apply Z.leb_le in H.
  rewrite <- app_assoc. rewrite dec_lenpref_rt by lia. reflexivity.
Qed.

Lemma dec_parser_id_rt ver p rest : (p = 0 \/ p = 3 \/ p = 5)%N ->
  dec_parser_id ver (enc_parser_id ver p ++ rest) = Some (p, rest).
Proof.
  intro Hp. unfold dec_parser_id, enc_parser_id. destruct (759 <=? ver).
  - destruct Hp as [->|[->| ->]]; rewrite dec_enc_varint by (cbn; lia); reflexivity.
  - destruct Hp as [->|[->| ->]].
    + change (name_of_parser 0) with (tx "brigadier:bool"%string).
      rewrite dec_string_rt by (vm_compute; reflexivity).
      replace (parser_of_name (tx "brigadier:bool"%string)) with (Some 0%N) by (vm_compute; reflexivity). reflexivity.
    + change (name_of_parser 3) with (tx "brigadier:integer"%string).
      rewrite dec_string_rt by (vm_compute; reflexivity).
      replace (parser_of_name (tx "brigadier:integer"%string)) with (Some 3%N) by (vm_compute; reflexivity). reflexivity.
    + change (name_of_parser 5) with (tx "brigadier:string"%string).
      rewrite dec_string_rt by (vm_compute; reflexivity).
      replace (parser_of_name (tx "brigadier:string"%string)) with (Some 5%N) by (vm_compute; reflexivity). reflexivity.
Qed.

Lemma wf_props_parser p pr : wf_props p pr = true -> (p = 0 \/ p = 3 \/ p = 5)%N.
Proof.
  unfold wf_props.
  destruct (p =? 0)%N eqn:E0; [intros _; left; apply N.eqb_eq; exact E0|].
  destruct (p =? 5)%N eqn:E5; [intros _; right; right; apply N.eqb_eq; exact E5|].
  destruct (p =? 3)%N eqn:E3; [intros _; right; left; apply N.eqb_eq; exact E3|discriminate].
Qed.

Lemma dec_props_rt p pr rest : wf_props p pr = true -> dec_props p (pr ++ rest) = Some (pr, rest).
Proof.
  unfold wf_props, dec_props.
  destruct (p =? 0)%N.
  { destruct pr; [reflexivity|discriminate]. }
  destruct (p =? 5)%N.
  { destruct pr as [|m [|m0 pr0]]; try discriminate. intro H. cbn [app]. rewrite H. reflexivity. }
  destruct (p =? 3)%N; [|discriminate].
  destruct pr as [|fl b]; [discriminate|]. intro H. apply andb_true_iff in H. destruct H as [_ H].
  apply Nat.eqb_eq in H. cbn [app]. cbv zeta. rewrite <- H. rewrite take_n_app. reflexivity.
Qed.

Lemma flags_bits (k : N) (xe : bool) (rd : option N) :
  (k = 0 \/ k = 1 \/ k = 2)%N ->
  let fl := (k + (if xe then 4 else 0) + (match rd with Some _ => 8 | None => 0 end))%N in
  N.testbit fl 3 = (match rd with Some _ => true | None => false end) /\
  N.testbit fl 2 = xe /\ N.land fl 3 = k /\ N.testbit fl 4 = false.
Proof. intros [->|[->| ->]]; destruct xe, rd; cbv; repeat split; reflexivity. Qed.

Lemma dec_node_rt ver nd rest : wf_node nd = true -> dec_node ver (enc_node ver nd ++ rest) = Some (nd, rest).
Proof.
  destruct nd as [k nm xe ch rd p pr]. unfold wf_node, enc_node, flags_of.
  cbn [nkind nname nexec nchildren nredirect nparser nprops].
  intro H. apply andb_true_iff in H. destruct H as [H Hk]. apply andb_true_iff in H. destruct H as [H Hrd].
  apply andb_true_iff in H. destruct H as [Hch Hcn].
  assert (Hkind : (k = 0 \/ k = 1 \/ k = 2)%N).
  { destruct (k =? 0)%N eqn:K0; [left; apply N.eqb_eq; exact K0|].
    destruct (k =? 1)%N eqn:K1; [right; left; apply N.eqb_eq; exact K1|].
    destruct (k =? 2)%N eqn:K2; [right; right; apply N.eqb_eq; exact K2|discriminate]. }
  pose proof (flags_bits k xe rd Hkind) as FB. cbv zeta in FB.
  remember (k + (if xe then 4 else 0) + match rd with Some _ => 8 | None => 0 end)%N as fl eqn:Efl.
  clear Efl. destruct FB as (B3 & B2 & BK & B4).
  rewrite <- app_comm_cons. unfold dec_node. cbv beta iota zeta.
  rewrite <- !app_assoc.
  rewrite dec_enc_varint by lia. rewrite ltb0_nat, Nat2Z.id, dec_varints_rt by exact Hch.
  rewrite B3, B4, BK, B2.
  assert (TAIL : forall RD,
    (if (k =? 0)%N
     then Some (mknode 0 [] xe ch RD 0 [], (if (k =? 0)%N then [] else enc_string nm ++ (if (k =? 2)%N then enc_parser_id ver p ++ pr else [])) ++ rest)
     else match dec_string ((if (k =? 0)%N then [] else enc_string nm ++ (if (k =? 2)%N then enc_parser_id ver p ++ pr else [])) ++ rest) with
          | None => None
          | Some (nm0, r4) =>
              if (k =? 1)%N then Some (mknode 1 nm0 xe ch RD 0 [], r4)
              else if (k =? 2)%N then
                match dec_parser_id ver r4 with
                | None => None
                | Some (p0, r5) => match dec_props p0 r5 with
                                   | Some (pr0, r6) => Some (mknode 2 nm0 xe ch RD p0 pr0, r6)
                                   | None => None
                                   end
                end
              else None
          end) = Some (mknode k nm xe ch RD p pr, rest)).
  { intro RD. clear B3 B2 BK B4 Hrd.
    destruct Hkind as [->|[->| ->]]; cbn [N.eqb Pos.eqb] in Hk |- *.
    - destruct nm; [|discriminate Hk]. destruct (p =? 0)%N eqn:P; [|discriminate Hk].
      apply N.eqb_eq in P. subst p. destruct pr; [|discriminate Hk]. reflexivity.
    - apply andb_true_iff in Hk. destruct Hk as [Hk Hpr]. apply andb_true_iff in Hk. destruct Hk as [Hn P].
      apply N.eqb_eq in P. subst p. destruct pr; [|discriminate Hpr].
      rewrite app_nil_r. rewrite dec_string_rt by exact Hn. reflexivity.
    - apply andb_true_iff in Hk. destruct Hk as [Hn Hp].
      rewrite <- !app_assoc. rewrite dec_string_rt by exact Hn. cbv beta iota.
      rewrite dec_parser_id_rt by (eapply wf_props_parser; exact Hp). cbv beta iota.
      rewrite dec_props_rt by exact Hp. reflexivity. }
  destruct rd as [j|]; cbv beta iota.
  - rewrite dec_enc_varint by (apply small_range; exact Hrd).
    rewrite ltb0_N, N2Z.id. cbv beta iota. apply TAIL.
  - cbn [app]. apply TAIL.
Qed.

Lemma dec_nodes_rt ver tbl rest : forallb wf_node tbl = true ->
  dec_nodes ver (length tbl) (flat_map (enc_node ver) tbl ++ rest) = Some (tbl, rest).
Proof.
  induction tbl as [|x l IH]; intro H; cbn [forallb] in H.
  - reflexivity.
  - apply andb_true_iff in H. destruct H as [Hx Hl].
    cbn [flat_map length dec_nodes]. rewrite <- app_assoc.
    rewrite dec_node_rt by exact Hx. rewrite IH by exact Hl. reflexivity.
Qed.

Lemma flat_len ver tbl : (length tbl <= length (flat_map (enc_node ver) tbl))%nat.
Proof.
  induction tbl as [|x l IH]; [apply Nat.le_refl|].
  cbn [flat_map length]. rewrite app_length. unfold enc_node at 1. cbn [length]. lia.
Qed.

(* the decoder inverts the encoder on every well-formed table, of any size *)
Theorem decode_encode_table ver tbl root :
  wf_table tbl root = true -> decode_wire ver (encode_table ver tbl root) = Some (tbl, root).
Proof.
  unfold wf_table. intro H. apply andb_true_iff in H. destruct H as [H Hr].
  apply andb_true_iff in H. destruct H as [Ht Hn].
  unfold decode_wire, encode_table.
  rewrite dec_enc_varint by lia.
  match goal with |- context [ (?a || ?b) ] => replace (a || b) with false end.
  2:{ symmetry. apply orb_false_iff. split; apply Z.ltb_ge; [lia|].
      rewrite !app_length. pose proof (flat_len ver tbl). lia. }
  rewrite Nat2Z.id, dec_nodes_rt by exact Ht.
  rewrite <- (app_nil_r (enc_varint (Z.of_N root))).
  rewrite dec_enc_varint by (apply small_range; exact Hr).
  rewrite ltb0_N, N2Z.id. reflexivity.
Qed.

(* equal bytes => equal tables => equal canonical graphs (canon is a function of the decoded table only) *)
Theorem encode_table_injective ver t1 r1 t2 r2 :
  wf_table t1 r1 = true -> wf_table t2 r2 = true ->
  encode_table ver t1 r1 = encode_table ver t2 r2 -> t1 = t2 /\ r1 = r2.
Proof.
  intros H1 H2 E. pose proof (decode_encode_table ver t1 r1 H1) as D1.
  rewrite E, (decode_encode_table ver t2 r2 H2) in D1. inversion D1. split; reflexivity.
Qed.

Theorem bytes_equal_graph_equal ver fuel t1 r1 t2 r2 :
  wf_table t1 r1 = true -> wf_table t2 r2 = true ->
  encode_table ver t1 r1 = encode_table ver t2 r2 -> canon fuel t1 r1 = canon fuel t2 r2.
Proof.
  intros H1 H2 E. destruct (encode_table_injective ver t1 r1 t2 r2 H1 H2 E) as [-> ->]. reflexivity.
Qed.

Theorem decoded_graph_is_encoded_graph ver fuel tbl root t' r' :
  wf_table tbl root = true -> decode_wire ver (encode_table ver tbl root) = Some (t', r') ->
  canon fuel t' r' = canon fuel tbl root.
Proof.
  intros H D. rewrite (decode_encode_table ver tbl root H) in D. inversion D. reflexivity.
Qed.

(* non-vacuity: node 2 is reachable only through the redirect of node 1, not as a descendant of the root *)
Definition sample_table : list node :=
  [ mknode 0 [] false [1%N] None 0 [];
    mknode 1 (tx "alias"%string) false [] (Some 2%N) 0 [];
    mknode 1 (tx "target"%string) true [3%N] None 0 [];
    mknode 2 (tx "count"%string) true [] None 3 [1%N; 0%N; 0%N; 0%N; 1%N] ].

Lemma sample_ok :
  wf_table sample_table 0 = true /\
  decode_wire 765 (encode_table 765 sample_table 0) = Some (sample_table, 0%N) /\
  decode_wire 47 (encode_table 47 sample_table 0) = Some (sample_table, 0%N).
Proof. vm_compute. repeat split; reflexivity. Qed.
