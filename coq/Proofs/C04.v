(* C04 - the obligations about the REGENERATED layouts (Gen/PacketLayouts.v, translated from the Go
   source on every run) and the closed round-trip theorem for every fragment type. *)
From Coq Require Import List NArith ZArith String Bool Lia.
From Verif Require Import Base.Hex Model.Layout Model.LayoutPrims Gen.PacketLayouts Proofs.C04_layout Proofs.C04_prims Proofs.GenLemmas.
Import ListNotations.
Open Scope string_scope.

(* Encode's layout and Decode's layout of a type agree (same fields, same order, same primitives, same
   version tests) at every context the type is registered for, and Decode's layout is well formed there *)
Definition check_at (enc dec : L) (c : ctx) : bool := layout_eqb_at LP c enc dec && wf LP dec c.

Definition check_entry (e : entry) : bool :=
  match e with
  | Fragment _ enc dec ctxs => forallb (check_at enc dec) ctxs
  | Opaque _ _ _ => true
  end.

(* the types whose two layouts disagree somewhere - printed by Coq when the obligation fails *)
Definition failing : list string := map entry_name (filter (fun e => negb (check_entry e)) packets).

Theorem C04_fragment : failing = [].
Proof. vm_compute. reflexivity. Qed.

(* Types that must stay inside the fragment: a change of the Go source that pushes one of them out
   (an unrecognised statement makes the translator answer Opaque) fails this obligation instead of
   silently shrinking what the theorem covers. *)
Definition pinned : list string := [
  "packet.Handshake"; "packet.StatusRequest"; "packet.StatusResponse"; "packet.StatusPing";
  "packet.KeepAlive"; "packet.SetCompression"; "packet.Transfer"; "packet.PingIdentify";
  "packet.EncryptionRequest"; "packet.EncryptionResponse"; "packet.LoginPluginMessage"; "packet.LoginPluginResponse";
  "packet.LoginAcknowledged"; "packet.ClientSettings"; "packet.TabCompleteRequest"; "packet.ResourcePackResponse";
  "packet.RemoveResourcePack"; "packet.PlayerChatCompletion"; "packet.CustomClickActionPacket"; "packet.BundleDelimiter";
  "packet.DialogClear"; "chat.ChatAcknowledgement"; "chat.LegacyChat"; "chat.UnsignedPlayerCommand";
  "cookie.CookieRequest"; "cookie.CookieResponse"; "cookie.CookieStore";
  "config.ActiveFeatures"; "config.FinishedUpdate"; "config.StartUpdate"; "config.RegistrySync";
  "config.CodeOfConductPacket"; "config.CodeOfConductAcceptPacket"; "title.Times";
  "plugin.Message"; "config.KnownPacks"; "packet.ServerLoginSuccess"; "playerinfo.Remove";
  "packet.HeaderAndFooter"; "title.Text"; "title.Subtitle"; "title.Actionbar"; "packet.ResourcePackRequest"; "packet.TabCompleteResponse"; "bossbar.BossBar"
].

Definition fragment_names : list string := map entry_name (filter is_fragment packets).
Definition left_fragment : list string := filter (fun n => negb (existsb (String.eqb n) fragment_names)) pinned.

Theorem C04_pinned : left_fragment = [].
Proof. vm_compute. reflexivity. Qed.

Lemma all_entries_checked : forall e, In e packets -> check_entry e = true.
Proof.
  intros e He. pose proof C04_fragment as H. unfold failing in H.
  apply map_eq_nil in H. pose proof (filter_nil _ _ H e He) as Hf. apply negb_false_iff in Hf. exact Hf.
Qed.

(* For every fragment type, every context it is registered for, every value in the domain of its
   decoder's layout: Decode (Encode v) = v with all bytes consumed (rest is what follows the packet body;
   a layout ending in io.ReadAll takes everything, hence rest = [] there). *)
Theorem C04_fragment_roundtrip_lemma :
  forall name enc dec ctxs, In (Fragment name enc dec ctxs) packets ->
  forall c, In c ctxs ->
  forall v rest, in_dom LP lp_dom dec c v -> (norest LP dec c = false -> rest = []) ->
  exists bs, enc_L LP enc c v = Ok bs /\ dec_L LP dec c (bs ++ rest)%list = Ok (v, rest).
Proof.
  intros name enc dec ctxs He c Hc v rest D R.
  pose proof (all_entries_checked _ He) as Hchk. cbn [check_entry] in Hchk.
  rewrite forallb_forall in Hchk. specialize (Hchk c Hc). unfold check_at in Hchk.
  apply andb_true_iff in Hchk as [Heq Hwf].
  exact (pair_roundtrip LP lp_dom lp_ok enc dec c v rest Heq Hwf D R).
Qed.

(* re-encoding the decoded value gives the same bytes (second half of the property's statement) *)
Corollary C04_reencode_lemma :
  forall name enc dec ctxs, In (Fragment name enc dec ctxs) packets ->
  forall c, In c ctxs ->
  forall v, in_dom LP lp_dom dec c v ->
  exists bs v', enc_L LP enc c v = Ok bs /\ dec_L LP dec c bs = Ok (v', []) /\ enc_L LP enc c v' = Ok bs.
Proof.
  intros name enc dec ctxs He c Hc v D.
  destruct (C04_fragment_roundtrip_lemma name enc dec ctxs He c Hc v [] D (fun _ => eq_refl)) as [bs [E Dd]].
  rewrite app_nil_r in Dd. exists bs, v. auto.
Qed.

(* non-vacuity: a concrete Handshake (protocol 47, "localhost", 25565, login) is in the domain and round-trips *)
Definition hs_value : value :=
  VPair (VAtom (AZ 47)) (VPair (VAtom (ABytes (tx "localhost"))) (VPair (VAtom (AZ 25565)) (VPair (VAtom (AZ 2)) VUnit))).

Example C04_nonvacuous_handshake :
  In (Fragment "packet.Handshake" enc_packet_Handshake dec_packet_Handshake ctxs_packet_Handshake) packets /\
  In (mkctx 47 false) ctxs_packet_Handshake /\
  in_dom LP lp_dom dec_packet_Handshake (mkctx 47 false) hs_value /\
  enc_L LP enc_packet_Handshake (mkctx 47 false) hs_value = Ok (hx "2f096c6f63616c686f737463dd02").
Proof.
  split; [cbn; auto|]. split; [cbn; auto 50|]. split.
  - unfold dec_packet_Handshake, hs_value. cbn [in_dom].
    repeat (eexists; eexists; split; [reflexivity|]; split; [eexists; split; [reflexivity | vm_compute; reflexivity] |]).
    reflexivity.
  - vm_compute. reflexivity.
Qed.
