(* C14 - part D: program order.  Every run of a spec_ program is the sequential execution of an
   interleaving of the goroutines' programs (Base/ConcExec.v); from that:
     - the packets goroutine t got accepted are, in order, a subsequence of its program
       (all of it when the run is complete and the connection still open),
     - with distinct packets, what is on the wire restricted to one writer is that writer's program,
       play-only and config-valid packets each in the order written (the predicate the stress harness uses). *)
From Coq Require Import List NArith Bool Arith Lia Permutation.
From Verif Require Import Base.Conc Base.ConcExec Base.Hex Base.VarInt Model.PlayQueue Proofs.C14.
Import ListNotations.
Local Open Scope nat_scope.
Local Opaque cap.

(* ---------- packets: boolean equality is equality ---------- *)

Lemma ptype_eqb_eq a b : ptype_eqb a b = true <-> a = b.
Proof. destruct a, b; simpl; split; intros H; try reflexivity; try discriminate. Qed.

Lemma pkt_eqb_eq a b : pkt_eqb a b = true <-> a = b.
Proof.
  destruct a as [ta na], b as [tb nb]. unfold pkt_eqb. simpl. rewrite andb_true_iff, ptype_eqb_eq, N.eqb_eq.
  split; [intros [-> ->]; reflexivity|intros H; inversion H; auto].
Qed.

Lemma inb_In p l : inb p l = true <-> In p l.
Proof.
  unfold inb. rewrite existsb_exists. split.
  - intros [x [Hx He]]. apply pkt_eqb_eq in He. now subst.
  - intros H. exists p. split; [assumption|]. now apply pkt_eqb_eq.
Qed.

(* ---------- what one step of a spec_ program emits ---------- *)

(* packets writer t is asked to write by a list of labels *)
Definition wl_t (t : nat) (ls : list lbl) : list pkt :=
  flat_map (fun l => match l with LSpecW t' p => if t' =? t then [p] else [] | _ => [] end) ls.

Lemma oks_t_app t a b : oks_t t (a ++ b) = oks_t t a ++ oks_t t b.
Proof. apply flat_map_app. Qed.
Lemma oks_app a b : oks (a ++ b) = oks a ++ oks b.
Proof. apply flat_map_app. Qed.

Definition spec_lbl (l : lbl) : Prop :=
  match l with LSpecW _ _ | LSet _ => True | _ => False end.

Lemma spec_write_shape t p s :
  let es := snd (a_spec_write t p s) in
  let s' := fst (a_spec_write t p s) in
  (es = [ERes t p RErrClosed] /\ s' = s /\ s_closed s = true)
  \/ (exists ph, es = [EAcc p; EWire ph p; ERes t p ROk] /\ s' = s /\ s_closed s = false)
  \/ (es = [EAcc p; ERes t p ROk] /\ s_closed s' = false /\ s_closed s = false)
  \/ (exists r, r <> ROk /\ es = [EClose; ERes t p r] /\ s_closed s' = true).
Proof.
  cbv zeta. unfold a_spec_write.
  destruct (s_closed s) eqn:Hc; [left; auto|].
  right.
  assert (Henc : (exists ph, snd (do_encode t p s) = [EAcc p; EWire ph p; ERes t p ROk] /\ fst (do_encode t p s) = s /\ false = false)
                 \/ (snd (do_encode t p s) = [EAcc p; ERes t p ROk] /\ s_closed (fst (do_encode t p s)) = false /\ false = false)
                 \/ (exists r, r <> ROk /\ snd (do_encode t p s) = [EClose; ERes t p r] /\ s_closed (fst (do_encode t p s)) = true)).
  { unfold do_encode. rewrite Hc. destruct (encodable (s_phase s) p).
    - left. exists (s_phase s). auto.
    - right. right. exists RErrEncode. split; [discriminate|split; reflexivity]. }
  unfold do_queue_or_encode. destruct (s_cur s) as [i|]; [|exact Henc].
  destruct (is_cv p); [exact Henc|]. rewrite Hc.
  destruct (Nat.leb cap (length (queue_at i s))).
  - right. right. exists RErrQueueFull. split; [discriminate|split; reflexivity].
  - right. left. simpl. auto.
Qed.

Lemma set_shape ph s :
  acc (snd (a_set ph s)) = [] /\ oks (snd (a_set ph s)) = []
  /\ (forall t, oks_t t (snd (a_set ph s)) = [])
  /\ s_closed (fst (a_set ph s)) = s_closed s.
Proof.
  unfold a_set. destruct ph; destruct (s_cur s) as [i|]; try destruct (s_closed s) eqn:Hc; simpl;
    repeat split; auto.
  - apply acc_map_EWire.
  - induction (queue_at i s); [reflexivity|assumption].
  - intros t. induction (queue_at i s); [reflexivity|assumption].
Qed.

(* ---------- invariants of sequential execution of spec labels ---------- *)

Notation xexec := (ConcExec.exec sem).

Lemma closed_mono ls : Forall spec_lbl ls -> forall s, s_closed s = true -> s_closed (fst (xexec ls s)) = true.
Proof.
  induction 1 as [|l ls Hl _ IH]; intros s Hc; [assumption|].
  simpl. destruct (sem l s) as [s1 e1] eqn:Hs.
  assert (Hc1 : s_closed s1 = true).
  { destruct l as [t|t p|t p|ph]; try contradiction; cbn [sem] in Hs.
    - unfold a_spec_write in Hs. rewrite Hc in Hs. inversion Hs; subst. assumption.
    - pose proof (set_shape ph s) as (_ & _ & _ & H4). rewrite Hs in H4. simpl in H4. congruence. }
  specialize (IH s1 Hc1). destruct (xexec ls s1) as [s2 e2]. assumption.
Qed.

(* acceptance events and Ok results are the same thing, in the same order *)
Lemma acc_is_oks ls : Forall spec_lbl ls -> forall s, acc (snd (xexec ls s)) = oks (snd (xexec ls s)).
Proof.
  induction 1 as [|l ls Hl _ IH]; intros s; [reflexivity|].
  simpl. destruct (sem l s) as [s1 e1] eqn:Hs. specialize (IH s1).
  destruct (xexec ls s1) as [s2 e2]. simpl in *. rewrite acc_app, oks_app, IH. f_equal.
  destruct l as [t|t p|t p|ph]; try contradiction; cbn [sem] in Hs.
  - pose proof (spec_write_shape t p s) as H. cbv zeta in H. rewrite Hs in H. simpl in H.
    destruct H as [(-> & _)|[(ph & -> & _)|[(-> & _)|(r & Hr & -> & _)]]]; try reflexivity.
    destruct r; try reflexivity. congruence.
  - pose proof (set_shape ph s) as (H1 & H2 & _). rewrite Hs in H1, H2. simpl in H1, H2. congruence.
Qed.

(* writer t's accepted packets: a subsequence of what the labels ask it to write; everything when the
   connection is still open at the end *)
Lemma oks_t_subseq t ls : Forall spec_lbl ls -> forall s,
  subseq (oks_t t (snd (xexec ls s))) (wl_t t ls)
  /\ (s_closed (fst (xexec ls s)) = false -> oks_t t (snd (xexec ls s)) = wl_t t ls).
Proof.
  induction 1 as [|l ls Hl Hls IH]; intros s; [split; [constructor|reflexivity]|].
  simpl. destruct (sem l s) as [s1 e1] eqn:Hs. specialize (IH s1).
  pose proof (closed_mono ls Hls s1) as Hmono.
  destruct (xexec ls s1) as [s2 e2]. simpl in *. destruct IH as [IH1 IH2].
  rewrite oks_t_app.
  destruct l as [t0|t0 p|t0 p|ph]; try contradiction; cbn [sem] in Hs.
  - pose proof (spec_write_shape t0 p s) as H. cbv zeta in H. rewrite Hs in H. simpl in H.
    assert (Hcases : (oks_t t e1 = (if t0 =? t then [p] else []) /\ True)
                     \/ (oks_t t e1 = [] /\ s_closed s1 = true)).
    { destruct H as [(-> & -> & Hc)|[(ph & -> & _)|[(-> & _)|(r & Hr & -> & Hc)]]].
      - right. split; [reflexivity|assumption].
      - left. simpl. rewrite app_nil_r. auto.
      - left. simpl. rewrite app_nil_r. auto.
      - right. split; [|assumption]. simpl. destruct r; try reflexivity. congruence. }
    destruct Hcases as [[-> _]|[-> Hc1]].
    + split.
      * apply subseq_app; [apply subseq_refl|assumption].
      * intros Hc. now rewrite IH2.
    + split.
      * simpl. destruct (t0 =? t); [apply subseq_skip|]; assumption.
      * intros Hc. rewrite (Hmono Hc1) in Hc. discriminate.
  - pose proof (set_shape ph s) as (_ & _ & H3 & _). rewrite Hs in H3. simpl in H3. rewrite H3. simpl.
    split; assumption.
Qed.

(* ---------- the labels of a spec_ program ---------- *)

Lemma nth_writers_from w : forall pss t0 i,
  nth i (writers_from w t0 pss) [] = writer w (t0 + i) (nth i pss []).
Proof.
  induction pss as [|ps pss IH]; intros t0 i.
  - destruct i; reflexivity.
  - destruct i as [|i]; simpl.
    + now rewrite Nat.add_0_r.
    + rewrite IH. f_equal. lia.
Qed.

Lemma length_writers_from w pss t0 : length (writers_from w t0 pss) = length pss.
Proof. revert t0. induction pss; intros; simpl; auto. Qed.

Lemma nth_program_writer pss fs i : i < length pss ->
  nth i (program spec_write pss fs) [] = map (LSpecW i) (nth i pss []).
Proof.
  intros Hi. unfold program. rewrite app_nth1 by (now rewrite length_writers_from).
  rewrite nth_writers_from. simpl. unfold writer, spec_write.
  induction (nth i pss []); simpl; congruence.
Qed.

Lemma nth_program_setter pss fs i : length pss <= i ->
  exists phs, nth i (program spec_write pss fs) [] = map LSet phs.
Proof.
  intros Hi. unfold program. rewrite app_nth2 by (now rewrite length_writers_from).
  rewrite length_writers_from.
  destruct (Nat.lt_ge_cases (i - length pss) (length (map (map LSet) fs))) as [Hlt|Hge].
  - exists (nth (i - length pss) fs []). rewrite <- (map_nth (map LSet)). reflexivity.
  - exists []. now rewrite nth_overflow.
Qed.

Lemma program_spec_lbl pss fs l : In l (concat (program spec_write pss fs)) -> spec_lbl l.
Proof.
  intros H. destruct (in_spec_program _ _ _ H) as [[t [p ->]]|[ph ->]]; exact I.
Qed.

(* a write label of goroutine t only occurs in thread t *)
Lemma program_label_tid pss fs i t p :
  In (LSpecW t p) (nth i (program spec_write pss fs) []) -> t = i.
Proof.
  intros H. destruct (Nat.lt_ge_cases i (length pss)) as [Hi|Hi].
  - rewrite nth_program_writer in H by assumption. apply in_map_iff in H.
    destruct H as [x [Hx _]]. now inversion Hx.
  - destruct (nth_program_setter pss fs i Hi) as [phs Hphs]. rewrite Hphs in H.
    apply in_map_iff in H. destruct H as [x [Hx _]]. discriminate.
Qed.

Lemma wl_t_cons t l ls : wl_t t (l :: ls) = wl_t t [l] ++ wl_t t ls.
Proof. unfold wl_t. simpl. now rewrite app_nil_r. Qed.

Lemma wl_t_map_spec t ps : wl_t t (map (LSpecW t) ps) = ps.
Proof. induction ps as [|p ps IH]; simpl; [reflexivity|]. rewrite Nat.eqb_refl. simpl. now rewrite IH. Qed.

Lemma wl_t_map_set t phs : wl_t t (map LSet phs) = [].
Proof. induction phs; simpl; auto. Qed.

(* ---------- executed labels of one thread ---------- *)

Section Run.
  Variables (pss : list (list pkt)) (fs : list (list phase)) (sched : list nat).
  Let prog := program spec_write pss fs.
  Let ex := fst (lrun prog sched).
  Let rem := snd (lrun prog sched).
  Let r := run (threads_of prog) sched init.

  Lemma run_is_exec :
    final_state r = fst (xexec (map snd ex) init)
    /\ events r = snd (xexec (map snd ex) init)
    /\ remaining r = map (map sem) rem.
  Proof.
    unfold r, threads_of, final_state, events, remaining. rewrite (run_lrun sem sched prog init).
    repeat split; reflexivity.
  Qed.

  Lemma ex_in_thread i l : In (i, l) ex -> In l (nth i prog []).
  Proof.
    intros H. rewrite <- (lrun_order sched prog i). apply in_or_app. left.
    apply in_map_iff. exists (i, l). split; [reflexivity|].
    apply filter_In. split; [exact H|]. simpl. apply Nat.eqb_refl.
  Qed.

  Lemma ex_spec_lbl : Forall spec_lbl (map snd ex).
  Proof.
    apply Forall_forall. intros l Hl. apply in_map_iff in Hl. destruct Hl as [[i l'] [<- Hin]].
    apply (program_spec_lbl pss fs). apply in_concat. exists (nth i prog []). split.
    - destruct (Nat.lt_ge_cases i (length prog)) as [Hi|Hi]; [now apply nth_In|].
      pose proof (ex_in_thread _ _ Hin) as H. rewrite nth_overflow in H by assumption. contradiction.
    - now apply ex_in_thread.
  Qed.

  (* the labels addressed to writer t are exactly those thread t executed *)
  Lemma wl_t_thread t :
    wl_t t (map snd ex) = wl_t t (map snd (filter (fun x => fst x =? t) ex)).
  Proof.
    assert (H : forall i l, In (i, l) ex -> In l (nth i prog [])) by apply ex_in_thread.
    induction ex as [|[i l] e IH]; [reflexivity|].
    assert (IH' : wl_t t (map snd e) = wl_t t (map snd (filter (fun x => fst x =? t) e)))
      by (apply IH; intros; apply H; now right).
    cbn [map snd filter fst]. destruct (Nat.eqb_spec i t) as [->|Hne].
    - cbn [map snd]. rewrite (wl_t_cons t l (map snd e)), (wl_t_cons t l (map snd (filter _ e))).
      now rewrite IH'.
    - rewrite (wl_t_cons t l (map snd e)).
      rewrite IH'. destruct l as [t0|t0 p|t0 p|ph]; try reflexivity.
      pose proof (program_label_tid pss fs i t0 p (H _ _ (or_introl eq_refl))) as ->.
      simpl. destruct (Nat.eqb_spec i t); [contradiction|reflexivity].
  Qed.

  Lemma thread_executed_prefix t :
    exists rest, nth t prog [] = map snd (filter (fun x => fst x =? t) ex) ++ rest
                 /\ rest = nth t rem [].
  Proof. exists (nth t rem []). split; [|reflexivity]. symmetry. apply lrun_order. Qed.

  (* writer t's labels in what was executed: a prefix of its program *)
  Lemma wl_t_prefix t : exists rest, nth t pss [] = wl_t t (map snd ex) ++ rest
                                     /\ (nth t rem [] = [] -> rest = []).
  Proof.
    rewrite wl_t_thread. destruct (thread_executed_prefix t) as [rest [Hp Hr]].
    destruct (Nat.lt_ge_cases t (length pss)) as [Ht|Ht].
    - unfold prog in Hp. rewrite nth_program_writer in Hp by assumption.
      exists (wl_t t rest). split.
      + rewrite <- (wl_t_map_spec t (nth t pss [])), Hp. unfold wl_t. now rewrite flat_map_app.
      + intros H0. rewrite H0 in Hr. now subst rest.
    - destruct (nth_program_setter pss fs t Ht) as [phs Hphs]. unfold prog in Hp. rewrite Hphs in Hp.
      rewrite (nth_overflow pss) by assumption.
      exists []. split; [|auto]. rewrite app_nil_r.
      assert (Hz : wl_t t (map LSet phs) = []) by apply wl_t_map_set.
      rewrite Hp in Hz. unfold wl_t in Hz. rewrite flat_map_app in Hz.
      apply app_eq_nil in Hz. symmetry. apply Hz.
  Qed.

  (* ----- per writer: accepted packets follow the program ----- *)

  Theorem accepted_follow_program t :
    exists rest, subseq (oks_t t (events r)) (wl_t t (map snd ex))
                 /\ nth t pss [] = wl_t t (map snd ex) ++ rest.
  Proof.
    destruct run_is_exec as (_ & -> & _).
    destruct (wl_t_prefix t) as [rest [Hp _]]. exists rest. split; [|assumption].
    apply (oks_t_subseq t _ ex_spec_lbl init).
  Qed.

  Lemma complete_rem : complete (remaining r) = true -> forall t, nth t rem [] = [].
  Proof.
    destruct run_is_exec as (_ & _ & ->). unfold complete. rewrite forallb_forall. intros H t.
    destruct (Nat.lt_ge_cases t (length rem)) as [Ht|Ht]; [|now apply nth_overflow].
    specialize (H (map sem (nth t rem []))).
    assert (Hin : In (map sem (nth t rem [])) (map (map sem) rem)) by (apply in_map; now apply nth_In).
    specialize (H Hin). destruct (nth t rem []); [reflexivity|discriminate].
  Qed.

  Theorem accepted_all_when_open t :
    complete (remaining r) = true -> s_closed (final_state r) = false ->
    oks_t t (events r) = nth t pss [].
  Proof.
    intros Hcomp Hc. pose proof (complete_rem Hcomp t) as Hrem.
    destruct run_is_exec as (Hs & He & _). rewrite He. rewrite Hs in Hc.
    destruct (oks_t_subseq t _ ex_spec_lbl init) as [_ H2]. rewrite (H2 Hc).
    destruct (wl_t_prefix t) as [rest [Hp Hr]]. rewrite (Hr Hrem), app_nil_r in Hp. now symmetry.
  Qed.

  (* every accepted packet comes from the program of the goroutine that wrote it *)
  Lemma oks_t_in_program t p : In p (oks_t t (events r)) -> In p (nth t pss []).
  Proof.
    intros H. destruct (accepted_follow_program t) as [rest [Hs Hp]].
    rewrite Hp. apply in_or_app. left. eapply subseq_in; eauto.
  Qed.

  Lemma acc_events_oks : acc (events r) = oks (events r).
  Proof. destruct run_is_exec as (_ & -> & _). apply acc_is_oks, ex_spec_lbl. Qed.
End Run.

(* ---------- distinct packets: ownership ---------- *)

Lemma nodup_app_parts {A} (a b : list A) :
  NoDup (a ++ b) -> NoDup a /\ NoDup b /\ (forall x, In x a -> ~ In x b).
Proof.
  induction a as [|y a IH]; simpl; intros H.
  - repeat split; [constructor|assumption|auto].
  - inversion H; subst. destruct (IH H3) as (Ha & Hb & Hd). repeat split.
    + constructor; [|assumption]. intros Hin. apply H2. apply in_or_app. now left.
    + assumption.
    + intros x [->|Hx] Hxb; [apply H2; apply in_or_app; now right|eapply Hd; eauto].
Qed.

Lemma nodup_concat_owner {A} (pss : list (list A)) : NoDup (concat pss) ->
  forall t t' x, In x (nth t pss []) -> In x (nth t' pss []) -> t = t'.
Proof.
  induction pss as [|ps pss IH]; intros Hnd t t' x H1 H2.
  - destruct t; contradiction.
  - simpl in Hnd. destruct (nodup_app_parts _ _ Hnd) as (_ & Hnd' & Hd).
    assert (Hdisj : forall y, In y ps -> forall k, ~ In y (nth k pss [])).
    { intros y Hy k Hk.
      assert (Hc : In y (concat pss)).
      { apply in_concat. exists (nth k pss []). split; [|assumption].
        destruct (Nat.lt_ge_cases k (length pss)); [now apply nth_In|].
        rewrite nth_overflow in Hk by assumption. contradiction. }
      eapply Hd; eauto. }
    destruct t as [|t], t' as [|t']; simpl in *; auto.
    + exfalso. eapply Hdisj; eauto.
    + exfalso. eapply Hdisj; eauto.
    + f_equal. eapply IH; eauto.
Qed.

(* the results of all goroutines, restricted to the packets of writer t's program, are writer t's *)
Lemma owned_oks (pss : list (list pkt)) t evs :
  NoDup (concat pss) ->
  (forall t' p, In p (oks_t t' evs) -> In p (nth t' pss [])) ->
  owned (nth t pss []) (oks evs) = oks_t t evs.
Proof.
  intros Hnd Hown. unfold owned, oks, oks_t.
  induction evs as [|e evs IH]; [reflexivity|].
  assert (Hown' : forall t' p, In p (oks_t t' evs) -> In p (nth t' pss [])).
  { intros t' p Hp. apply Hown. change (e :: evs) with ([e] ++ evs). rewrite oks_t_app. apply in_or_app. now right. }
  specialize (IH Hown'). cbn [flat_map]. rewrite filter_app, IH. f_equal.
  destruct e as [p|ph p|  |t' p r]; try reflexivity.
  destruct r; try reflexivity. simpl.
  assert (Hp : In p (nth t' pss [])).
  { apply Hown. change (ERes t' p ROk :: evs) with ([ERes t' p ROk] ++ evs). rewrite oks_t_app. apply in_or_app. left.
    simpl. rewrite Nat.eqb_refl. now left. }
  destruct (Nat.eqb_spec t' t) as [->|Hne].
  - assert (Hb : inb p (nth t pss []) = true) by now apply inb_In. now rewrite Hb.
  - destruct (inb p (nth t pss [])) eqn:Hb; [|reflexivity].
    apply inb_In in Hb. exfalso. apply Hne. eapply nodup_concat_owner; eauto.
Qed.

Lemma owned_filter_comm f ps l : owned ps (filter f l) = filter f (owned ps l).
Proof.
  unfold owned. induction l as [|x l IH]; [reflexivity|]. simpl.
  destruct (f x) eqn:Hf, (inb x ps) eqn:Hi; simpl; rewrite ?Hf, ?Hi, IH; reflexivity.
Qed.

(* ---------- the statement the stress harness relies on ---------- *)

Theorem each_writer_in_order pss fs sched :
  NoDup (concat pss) ->
  let r := run (threads_of (program spec_write pss fs)) sched init in
  let s := final_state r in
  let evs := events r in
  complete (remaining r) = true -> s_closed s = false -> s_phase s = Play ->
  forall t,
    owned (nth t pss []) (po (wire evs)) = po (nth t pss [])
    /\ owned (nth t pss []) (cv (wire evs)) = cv (nth t pss [])
    /\ oks_t t evs = nth t pss [].
Proof.
  cbv zeta. intros Hnd Hcomp Hc Hph t.
  destruct (fifo_no_loss_no_dup pss fs sched Hc) as (Hpo & Hcv & Hlive & _).
  rewrite (Hlive Hph), app_nil_r in Hpo.
  pose proof (accepted_all_when_open pss fs sched t Hcomp Hc) as Hall.
  assert (Hown : owned (nth t pss []) (acc (events (run (threads_of (program spec_write pss fs)) sched init)))
                 = nth t pss []).
  { rewrite acc_events_oks, (owned_oks pss t _ Hnd); [exact Hall|].
    intros t' p. apply oks_t_in_program. }
  repeat split.
  - rewrite <- Hpo. unfold po. rewrite owned_filter_comm. unfold po in *. now rewrite Hown.
  - rewrite <- Hcv. unfold cv. rewrite owned_filter_comm. now rewrite Hown.
  - exact Hall.
Qed.

Lemma subseq_prefix_l {A} (a b : list A) : subseq a (a ++ b).
Proof. induction a; simpl; [apply subseq_nil_l|now apply subseq_take]. Qed.

Lemma subseq_trans {A} (a b c : list A) : subseq a b -> subseq b c -> subseq a c.
Proof.
  intros Hab Hbc. revert a Hab. induction Hbc as [|b x c Hbc IH|b x c Hbc IH]; intros a Hab.
  - exact Hab.
  - apply subseq_skip. auto.
  - inversion Hab; subst.
    + apply subseq_skip. auto.
    + apply subseq_take. auto.
Qed.

(* without completeness, and even when the connection was closed: what a writer sees on the wire of its
   own packets is a subsequence of its program, play-only and config-valid packets each in order *)
Theorem each_writer_never_reordered pss fs sched :
  NoDup (concat pss) ->
  let r := run (threads_of (program spec_write pss fs)) sched init in
  let evs := events r in
  forall t,
    subseq (owned (nth t pss []) (po (wire evs))) (po (nth t pss []))
    /\ subseq (owned (nth t pss []) (cv (wire evs))) (cv (nth t pss [])).
Proof.
  cbv zeta. intros Hnd t.
  destruct (wire_is_prefix_always pss fs sched) as [[rest Hpo] Hcv].
  destruct (accepted_follow_program pss fs sched t) as [rest' [Hsub Hprog]].
  assert (Hown : subseq (owned (nth t pss []) (acc (events (run (threads_of (program spec_write pss fs)) sched init))))
                        (nth t pss [])).
  { rewrite acc_events_oks, (owned_oks pss t _ Hnd).
    - rewrite Hprog. now apply subseq_app_r.
    - intros t' p. apply oks_t_in_program. }
  split.
  - apply (subseq_filter is_po) in Hown. fold (po (nth t pss [])) in Hown.
    rewrite <- owned_filter_comm in Hown. fold (po (acc (events (run (threads_of (program spec_write pss fs)) sched init)))) in Hown.
    rewrite Hpo in Hown. unfold owned in Hown. rewrite filter_app in Hown.
    eapply subseq_trans; [apply subseq_prefix_l|exact Hown].
  - apply (subseq_filter is_cv) in Hown. fold (cv (nth t pss [])) in Hown.
    rewrite <- owned_filter_comm in Hown. fold (cv (acc (events (run (threads_of (program spec_write pss fs)) sched init)))) in Hown.
    now rewrite Hcv in Hown.
Qed.

(* no duplicates: distinct packets in the programs give distinct packets on the wire *)
Lemma nodup_filter_split {A} (f : A -> bool) l :
  NoDup (filter f l) -> NoDup (filter (fun x => negb (f x)) l) -> NoDup l.
Proof.
  induction l as [|x l IH]; intros H1 H2; [constructor|].
  simpl in *. destruct (f x) eqn:Hf; simpl in *.
  - inversion H1; subst. constructor; [|auto].
    intros Hin. apply H3. apply filter_In. auto.
  - inversion H2; subst. constructor; [|auto].
    intros Hin. apply H3. apply filter_In. rewrite Hf. auto.
Qed.

Theorem wire_no_duplicates pss fs sched :
  NoDup (concat pss) ->
  let r := run (threads_of (program spec_write pss fs)) sched init in
  NoDup (acc (events r)) /\ NoDup (wire (events r)).
Proof.
  cbv zeta. intros Hnd.
  set (prog := program spec_write pss fs).
  set (ex := fst (lrun prog sched)).
  assert (Hacc : NoDup (acc (events (run (threads_of prog) sched init)))).
  { unfold prog. rewrite (acc_events_oks pss fs sched).
    destruct (run_is_exec pss fs sched) as (_ & He & _). rewrite He. fold prog. fold ex.
    (* the accepted packets are a subsequence of the packets of the executed write labels *)
    assert (Hsub : forall ls, Forall spec_lbl ls -> forall s,
              subseq (oks (snd (xexec ls s)))
                     (flat_map (fun l => match l with LSpecW _ p => [p] | _ => [] end) ls)).
    { induction 1 as [|l ls Hl Hls IH]; intros s; [constructor|].
      simpl. destruct (sem l s) as [s1 e1] eqn:Hs. specialize (IH s1).
      destruct (xexec ls s1) as [s2 e2]. simpl in *. rewrite oks_app.
      destruct l as [t0|t0 p|t0 p|ph]; try contradiction; cbn [sem] in Hs.
      - pose proof (spec_write_shape t0 p s) as H. cbv zeta in H. rewrite Hs in H. simpl in H.
        destruct H as [(-> & _)|[(ph & -> & _)|[(-> & _)|(r & Hr & -> & _)]]]; simpl.
        + now apply subseq_skip.
        + now apply subseq_take.
        + now apply subseq_take.
        + destruct r; try congruence; simpl; now apply subseq_skip.
      - pose proof (set_shape ph s) as (_ & H2 & _). rewrite Hs in H2. simpl in H2. rewrite H2. assumption. }
    eapply subseq_NoDup; [apply Hsub, ex_spec_lbl|].
    (* executed labels are part of a permutation of the program *)
    pose proof (lrun_perm sched prog) as Hperm. fold ex in Hperm.
    set (pk := fun l : lbl => match l with LSpecW _ p => [p] | _ => [] end) in *.
    assert (Hall : NoDup (flat_map pk (concat prog))).
    { unfold prog, program. rewrite concat_app, flat_map_app.
      assert (H2 : flat_map pk (concat (map (map LSet) fs)) = []).
      { rewrite concat_map_map. induction (concat fs); simpl; auto. }
      rewrite H2, app_nil_r.
      assert (H1 : forall t0, flat_map pk (concat (writers_from spec_write t0 pss)) = concat pss).
      { clear. induction pss as [|ps pss IH]; intros t0; [reflexivity|].
        simpl. rewrite flat_map_app, IH. f_equal.
        unfold writer, spec_write. induction ps; simpl; congruence. }
      now rewrite H1. }
    assert (Hp2 : Permutation (flat_map pk (map snd ex ++ concat (snd (lrun prog sched)))) (flat_map pk (concat prog))).
    { apply Permutation_flat_map. exact Hperm. }
    rewrite flat_map_app in Hp2.
    apply (Permutation_NoDup (Permutation_sym Hp2)) in Hall.
    exact (proj1 (nodup_app_parts _ _ Hall)). }
  split; [exact Hacc|].
  destruct (wire_is_prefix_always pss fs sched) as [[rest Hpo] Hcv]. fold prog in Hpo, Hcv.
  apply (nodup_filter_split is_po).
  - assert (H : NoDup (po (acc (events (run (threads_of prog) sched init))))) by (apply NoDup_filter; exact Hacc).
    rewrite Hpo in H. exact (proj1 (nodup_app_parts _ _ H)).
  - change (NoDup (cv (wire (events (run (threads_of prog) sched init))))). rewrite <- Hcv.
    apply NoDup_filter. exact Hacc.
Qed.
