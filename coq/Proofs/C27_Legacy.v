(* C27 - the legacy state machine [lstep] (the repaired handlers, see C27_Lang): one prompt
   outstanding, prompts in queue order, declines on the client's behalf only after a decline,
   reports to the backend exactly for backend-originated packs. *)
From Coq Require Import List Arith NArith Bool Lia ZifyN ZifyNat ZifyBool.
From Verif Require Import Model.ResourcePack.
Import ListNotations.
Open Scope N_scope.

(* ---------- small facts ---------- *)

Lemma count_reqs_app a b : count_reqs (a ++ b) = count_reqs a + count_reqs b.
Proof. unfold count_reqs. rewrite filter_app, app_length. lia. Qed.

Lemma count_reqs_report e q b : count_reqs (report_events e q b) = 0.
Proof. unfold report_events. destruct (handled_of q); [reflexivity|]. destruct (has_be e); reflexivity. Qed.

Lemma flush_no_reqs e : forall q, count_reqs (fst (flush e q)) = 0.
Proof.
  induction q as [|p t IH]; [reflexivity|]. cbn [flush].
  destruct (force p && is117 e); [reflexivity|].
  destruct (flush e t) as [es r]. cbn [fst] in *.
  change (GAuto p :: report_events e (Some p) (decline_bundle p) ++ es)
    with ([GAuto p] ++ report_events e (Some p) (decline_bundle p) ++ es).
  rewrite !count_reqs_app, count_reqs_report, IH. reflexivity.
Qed.

Lemma apply_status_queue s q x : l_queue (apply_status s q x) = l_queue s.
Proof.
  destruct x; cbn [apply_status l_queue]; try reflexivity.
  destruct q as [q|]; [|reflexivity]. destruct (l_applied s); [|reflexivity].
  destruct (negb (pid q =? 0) && (pid p =? pid q)); reflexivity.
Qed.

Lemma apply_status_next s q x : l_next (apply_status s q x) = l_next s.
Proof.
  destruct x; cbn [apply_status l_next]; try reflexivity.
  destruct q as [q|]; [|reflexivity]. destruct (l_applied s); [|reflexivity].
  destruct (negb (pid q =? 0) && (pid p =? pid q)); reflexivity.
Qed.

Lemma tick_next e s : l_next (fst (tick e s)) = l_next s.
Proof.
  unfold tick. destruct (l_queue s); [reflexivity|].
  destruct (prev_declined s); [|reflexivity].
  destruct (flush e (p :: l)). reflexivity.
Qed.

(* ---------- at most one prompt outstanding ---------- *)

Definition Inv (s : lstate) (c : N) : Prop :=
  c = match l_queue s with [] => 0 | _ :: _ => 1 end.

Lemma tick_count e s :
  count_reqs (snd (tick e s)) = match l_queue (fst (tick e s)) with [] => 0 | _ :: _ => 1 end.
Proof.
  unfold tick. destruct (l_queue s) as [|q t] eqn:Q.
  - cbn [fst snd]. rewrite Q. reflexivity.
  - destruct (prev_declined s).
    + pose proof (flush_no_reqs e (q :: t)) as F.
      destruct (flush e (q :: t)) as [es r]. cbn [fst snd l_queue set_queue] in *.
      rewrite count_reqs_app, F. destruct r; reflexivity.
    + cbn [fst snd]. rewrite Q. reflexivity.
Qed.

Lemma lstep_response e c s b :
  (lstep e c s (Response b) = (s, [], RPanic) /\ l_queue s = [] /\ nilguard c = false)
  \/ lstep e c s (Response b) = lresp e s b.
Proof.
  cbn [lstep]. destruct (l_queue s); [destruct (nilguard c)|]; auto.
Qed.

Lemma count_reqs_own e q b : count_reqs (GOwn q b :: report_events e q b) = 0.
Proof.
  change (GOwn q b :: report_events e q b) with ([GOwn q b] ++ report_events e q b).
  rewrite count_reqs_app, count_reqs_report. reflexivity.
Qed.

Lemma lresp_inv e s b c :
  Inv s c ->
  Inv (fst (fst (lresp e s b))) (out_step c (Response b) (snd (fst (lresp e s b)))).
Proof.
  unfold Inv, lresp, out_step. intros H. cbn [is_final_response].
  destruct (intermediate (bstatus b)) eqn:I; cbn [negb].
  - cbn [fst snd app]. rewrite apply_status_queue, count_reqs_own. rewrite H. lia.
  - pose proof (tick_count e (apply_status (set_queue s (tl (l_queue s))) (hd_error (l_queue s)) (bstatus b))) as T.
    destruct (tick e (apply_status (set_queue s (tl (l_queue s))) (hd_error (l_queue s)) (bstatus b))) as [s3 es].
    cbn [fst snd] in *. rewrite <- T, count_reqs_app, count_reqs_own.
    rewrite H. destruct (l_queue s); cbn; lia.
Qed.

Lemma lstep_inv e cf s o c :
  Inv s c ->
  Inv (fst (fst (lstep e cf s o))) (out_step c o (snd (fst (lstep e cf s o)))).
Proof.
  intros H. destruct o as [id hash f be|b|id|].
  - (* Queue *)
    unfold Inv in *. cbn [lstep]. unfold out_step. cbn [is_final_response].
    destruct (l_queue s) as [|q t] eqn:Q.
    + assert (L : l_queue (push_pack s id hash f be) = [mkPack (l_next s) id hash f be])
        by (unfold push_pack; cbn [l_queue]; rewrite Q; reflexivity).
      rewrite L. cbn [length Nat.eqb].
      pose proof (tick_count e (push_pack s id hash f be)) as T.
      destruct (tick e (push_pack s id hash f be)) as [s2 es]. cbn [fst snd] in *.
      rewrite T, H. reflexivity.
    + assert (L : l_queue (push_pack s id hash f be) = q :: t ++ [mkPack (l_next s) id hash f be])
        by (unfold push_pack; cbn [l_queue]; rewrite Q; reflexivity).
      rewrite L. cbn [length]. rewrite app_length. cbn [length].
      replace (Nat.eqb (S (length t + 1)) 1) with false
        by (symmetry; apply Nat.eqb_neq; lia).
      cbn [fst snd]. rewrite L, H. reflexivity.
  - (* Response *)
    destruct (lstep_response e cf s b) as [[E [Q _]]|E]; rewrite E.
    + unfold Inv in *. cbn [fst snd]. unfold out_step. change (count_reqs []) with 0.
      rewrite H, Q. destruct (is_final_response (Response b)); reflexivity.
    + apply lresp_inv. exact H.
  - unfold Inv in *. cbn [lstep fst snd]. unfold out_step. cbn [is_final_response].
    change (count_reqs []) with 0. rewrite N.add_0_r. exact H.
  - unfold Inv in *. cbn [lstep fst snd l_queue]. unfold out_step. cbn [is_final_response].
    change (count_reqs []) with 0. rewrite N.add_0_r. exact H.
Qed.

Lemma single_outstanding_gen e cf : forall h s c,
  Inv s c -> Forall (fun c => c <= 1) (outstanding c h (run_lpure e cf s h)).
Proof.
  induction h as [|o r IH]; intros s c H; [constructor|].
  cbn [run_lpure]. pose proof (lstep_inv e cf s o c H) as H2.
  destruct (lstep e cf s o) as [[s' es] a]. cbn [fst snd] in H2.
  cbn [outstanding s_events]. constructor.
  - unfold Inv in H2. rewrite H2. destruct (l_queue s'); lia.
  - apply IH. exact H2.
Qed.

(* ---------- prompts in queue order ---------- *)

Fixpoint inc_from (b : N) (l : list N) : bool :=
  match l with [] => true | x :: r => (b <=? x) && inc_from (x + 1) r end.

Lemma inc_from_increasing : forall l b, inc_from b l = true -> increasing l = true.
Proof.
  induction l as [|x r IH]; intros b H; [reflexivity|].
  destruct r as [|y r']; [reflexivity|].
  cbn [inc_from] in H. apply andb_true_iff in H. destruct H as [_ H].
  pose proof (IH _ H) as I. cbn [inc_from] in H. apply andb_true_iff in H. destruct H as [H _].
  change (increasing (x :: y :: r')) with ((x <? y) && increasing (y :: r')).
  rewrite I. apply andb_true_iff. split; [|reflexivity]. apply N.ltb_lt. apply N.leb_le in H. lia.
Qed.

Lemma inc_from_weaken : forall l b b', b' <= b -> inc_from b l = true -> inc_from b' l = true.
Proof.
  destruct l as [|x r]; intros b b' L H; [reflexivity|].
  cbn [inc_from] in *. apply andb_true_iff in H. destruct H as [H1 H2].
  rewrite H2. apply N.leb_le in H1. replace (b' <=? x) with true by (symmetry; apply N.leb_le; lia). reflexivity.
Qed.

Fixpoint qsorted (lo : N) (q : list pack) : Prop :=
  match q with [] => True | p :: t => lo <= uid p /\ qsorted (uid p + 1) t end.

Lemma qsorted_weaken : forall q lo lo', lo' <= lo -> qsorted lo q -> qsorted lo' q.
Proof. destruct q as [|p t]; intros lo lo' L H; [exact I|]. cbn in *. destruct H. split; [lia|assumption]. Qed.

Lemma qsorted_lb : forall q lo p, qsorted lo q -> In p q -> lo <= uid p.
Proof.
  induction q as [|x t IH]; intros lo p H HIn; [contradiction|].
  cbn in H. destruct H as [H1 H2]. destruct HIn as [->|HIn]; [exact H1|].
  pose proof (IH _ _ H2 HIn). lia.
Qed.

Lemma qsorted_suffix : forall d r lo, qsorted lo (d ++ r) -> qsorted lo r.
Proof.
  induction d as [|x d IH]; intros r lo H; [exact H|].
  cbn in H. destruct H as [H1 H2]. apply IH in H2. eapply qsorted_weaken; [|exact H2]. lia.
Qed.

Lemma qsorted_snoc : forall q lo p, qsorted lo q -> lo <= uid p -> (forall x, In x q -> uid x < uid p) ->
  qsorted lo (q ++ [p]).
Proof.
  induction q as [|x t IH]; intros lo p H L B.
  - cbn. split; [exact L|exact I].
  - cbn in *. destruct H as [H1 H2]. split; [exact H1|].
    apply IH; [exact H2| |].
    + pose proof (B x (or_introl eq_refl)). lia.
    + intros y Hy. apply B. right. exact Hy.
Qed.

Lemma prompt_uids_app a b : prompt_uids (a ++ b) = prompt_uids a ++ prompt_uids b.
Proof. unfold prompt_uids. apply flat_map_app. Qed.

Lemma prompt_uids_report e q b : prompt_uids (report_events e q b) = [].
Proof. unfold report_events. destruct (handled_of q); [reflexivity|]. destruct (has_be e); reflexivity. Qed.

Lemma prompt_uids_own e q b : prompt_uids (GOwn q b :: report_events e q b) = [].
Proof.
  change (GOwn q b :: report_events e q b) with ([GOwn q b] ++ report_events e q b).
  rewrite prompt_uids_app, prompt_uids_report. reflexivity.
Qed.

Lemma flush_shape e : forall q,
  exists d, q = d ++ snd (flush e q) /\ prompt_uids (fst (flush e q)) = [].
Proof.
  induction q as [|p t IH].
  - exists []. split; reflexivity.
  - cbn [flush]. destruct (force p && is117 e).
    + exists []. split; reflexivity.
    + destruct IH as [d [E P]]. destruct (flush e t) as [es r]. cbn [fst snd] in *.
      exists (p :: d). split; [cbn; rewrite <- E; reflexivity|].
      change (GAuto p :: report_events e (Some p) (decline_bundle p) ++ es)
        with ([GAuto p] ++ report_events e (Some p) (decline_bundle p) ++ es).
      rewrite !prompt_uids_app, prompt_uids_report, P. reflexivity.
Qed.

Lemma tick_shape e s :
  exists d, l_queue s = d ++ l_queue (fst (tick e s))
            /\ prompt_uids (snd (tick e s)) = match l_queue (fst (tick e s)) with [] => [] | f :: _ => [uid f] end.
Proof.
  unfold tick. destruct (l_queue s) as [|q t] eqn:Q.
  - exists []. cbn [fst snd]. rewrite Q. split; reflexivity.
  - destruct (prev_declined s).
    + destruct (flush_shape e (q :: t)) as [d [E P]].
      destruct (flush e (q :: t)) as [es r]. cbn [fst snd l_queue set_queue] in *.
      exists d. split; [exact E|]. rewrite prompt_uids_app, P. destruct r; reflexivity.
    + exists []. cbn [fst snd]. rewrite Q. split; reflexivity.
Qed.

Definition FInv (s : lstate) (b : N) : Prop :=
  b <= l_next s /\ (forall p, In p (l_queue s) -> uid p < l_next s) /\
  match l_queue s with [] => True | h :: t => b <= uid h + 1 /\ qsorted (uid h + 1) t end.

Definition fifo_post (b : N) (s' : lstate) (es : list event) : Prop :=
  exists b', FInv s' b' /\
    ((prompt_uids es = [] /\ b' = b) \/ (exists u, prompt_uids es = [u] /\ b <= u /\ b' = u + 1)).

(* tick on a queue whose packs all lie at or above the bound *)
Lemma tick_fifo e s b :
  b <= l_next s -> (forall p, In p (l_queue s) -> uid p < l_next s) -> qsorted b (l_queue s) ->
  fifo_post b (fst (tick e s)) (snd (tick e s)).
Proof.
  intros B1 B2 QS. destruct (tick_shape e s) as [d [E P]].
  pose proof (tick_next e s) as NX.
  destruct (tick e s) as [s' es]. cbn [fst snd] in *.
  rewrite E in QS. apply qsorted_suffix in QS.
  assert (B2' : forall p, In p (l_queue s') -> uid p < l_next s').
  { intros p Hp. rewrite NX. apply B2. rewrite E. apply in_or_app. right. exact Hp. }
  destruct (l_queue s') as [|f r] eqn:Q'.
  - exists b. split; [|left; split; [exact P|reflexivity]].
    unfold FInv. rewrite Q', NX. split; [exact B1|]. split; [intros p []|exact I].
  - exists (uid f + 1). cbn in QS. destruct QS as [L QS].
    pose proof (B2' f (or_introl eq_refl)) as Lf.
    split.
    + unfold FInv. rewrite Q'. split; [lia|]. split; [intros p Hp; apply B2'; exact Hp|].
      split; [lia|exact QS].
    + right. exists (uid f). split; [exact P|]. split; [exact L|reflexivity].
Qed.

Lemma FInv_same_queue s s' b :
  FInv s b -> l_queue s' = l_queue s -> l_next s' = l_next s -> FInv s' b.
Proof. unfold FInv. intros H Q N. rewrite Q, N. exact H. Qed.

Lemma lstep_fifo e cf s o b :
  FInv s b -> fifo_post b (fst (fst (lstep e cf s o))) (snd (fst (lstep e cf s o))).
Proof.
  intros H. destruct o as [id hash f be|bb|id|].
  - (* Queue *)
    cbn [lstep]. destruct H as [B1 [B2 B3]].
    destruct (l_queue s) as [|q t] eqn:Q.
    + assert (L : l_queue (push_pack s id hash f be) = [mkPack (l_next s) id hash f be])
        by (unfold push_pack; cbn [l_queue]; rewrite Q; reflexivity).
      rewrite L. cbn [length Nat.eqb].
      assert (T := tick_fifo e (push_pack s id hash f be) b).
      destruct (tick e (push_pack s id hash f be)) as [s2 es]. cbn [fst snd] in *.
      apply T.
      * unfold push_pack. cbn [l_next]. lia.
      * rewrite L. intros p [<-|[]]. unfold push_pack. cbn [uid l_next]. lia.
      * rewrite L. cbn. split; [exact B1|exact I].
    + assert (L : l_queue (push_pack s id hash f be) = q :: t ++ [mkPack (l_next s) id hash f be])
        by (unfold push_pack; cbn [l_queue]; rewrite Q; reflexivity).
      rewrite L. cbn [length]. rewrite app_length. cbn [length].
      replace (Nat.eqb (S (length t + 1)) 1) with false
        by (symmetry; apply Nat.eqb_neq; lia).
      cbn [fst snd]. exists b. split; [|left; split; reflexivity].
      unfold FInv. rewrite L. destruct B3 as [B3 B4].
      unfold push_pack at 1 2. cbn [l_next]. split; [lia|]. split.
      * intros p [<-|Hp].
        -- pose proof (B2 q (or_introl eq_refl)). lia.
        -- apply in_app_or in Hp. destruct Hp as [Hp|[<-|[]]].
           ++ pose proof (B2 p (or_intror Hp)). lia.
           ++ cbn [uid]. lia.
      * split; [exact B3|]. apply qsorted_snoc; [exact B4| |].
        -- cbn [uid]. pose proof (B2 q (or_introl eq_refl)). lia.
        -- intros x Hx. cbn [uid]. apply B2. right. exact Hx.
  - (* Response *)
    destruct (lstep_response e cf s bb) as [[E _]|E]; rewrite E.
    + cbn [fst snd]. exists b. split; [exact H|left; split; reflexivity].
    + unfold lresp. destruct (intermediate (bstatus bb)) eqn:I.
      * clear I. cbn [fst snd app]. exists b. split; [|left; split; [apply prompt_uids_own|reflexivity]].
        eapply FInv_same_queue; [exact H|apply apply_status_queue|apply apply_status_next].
      * clear I. set (s2 := apply_status (set_queue s (tl (l_queue s))) (hd_error (l_queue s)) (bstatus bb)).
        assert (Q2 : l_queue s2 = tl (l_queue s)) by (unfold s2; rewrite apply_status_queue; reflexivity).
        assert (N2 : l_next s2 = l_next s) by (unfold s2; rewrite apply_status_next; reflexivity).
        destruct H as [B1 [B2 B3]].
        assert (T : fifo_post b (fst (tick e s2)) (snd (tick e s2))).
        { apply tick_fifo.
          - rewrite N2. exact B1.
          - rewrite Q2, N2. intros p Hp. apply B2. destruct (l_queue s); [destruct Hp|right; exact Hp].
          - rewrite Q2. destruct (l_queue s) as [|h t]; [exact I|]. cbn [tl].
            destruct B3 as [B3 B4]. eapply qsorted_weaken; [|exact B4]. exact B3. }
        destruct (tick e s2) as [s3 es]. cbn [fst snd] in *.
        destruct T as [b' [F3 T]]. exists b'. split; [exact F3|].
        rewrite prompt_uids_app, prompt_uids_own, app_nil_r. exact T.
  - cbn [lstep fst snd]. exists b. split; [exact H|left; split; reflexivity].
  - cbn [lstep fst snd]. exists b. split; [|left; split; reflexivity].
    eapply FInv_same_queue; [exact H|reflexivity|reflexivity].
Qed.

Lemma fifo_gen e cf : forall h s b,
  FInv s b -> inc_from b (prompt_uids (all_events (run_lpure e cf s h))) = true.
Proof.
  induction h as [|o r IH]; intros s b H; [reflexivity|].
  cbn [run_lpure]. pose proof (lstep_fifo e cf s o b H) as P.
  destruct (lstep e cf s o) as [[s' es] a]. cbn [fst snd] in P.
  unfold all_events. cbn [flat_map s_events]. rewrite prompt_uids_app.
  destruct P as [b' [F [[P ->]|[u [P [L ->]]]]]]; rewrite P; cbn [app].
  - apply IH. exact F.
  - cbn [inc_from]. apply andb_true_iff. split; [apply N.leb_le; exact L|].
    apply IH. exact F.
Qed.

Lemma FInv_init c : FInv (l_init c) 0.
Proof. unfold FInv, l_init. cbn. split; [lia|]. split; [intros p []|exact I]. Qed.

Lemma Inv_init c : Inv (l_init c) 0.
Proof. reflexivity. Qed.

(* ---------- declines on the client's behalf only after a decline ---------- *)

Lemma in_report_not_auto e q b p : ~ In (GAuto p) (report_events e q b).
Proof.
  unfold report_events. destruct (handled_of q); [intros []|]. destruct (has_be e); [|intros []].
  intros [H|[]]. discriminate.
Qed.

Lemma flush_autos e : forall q p, In (GAuto p) (fst (flush e q)) -> force p && is117 e = false.
Proof.
  induction q as [|x t IH]; intros p H; [destruct H|].
  cbn [flush] in H. destruct (force x && is117 e) eqn:F; [destruct H|].
  destruct (flush e t) as [es r]. cbn [fst] in *.
  destruct H as [H|H]; [inversion H; subst; exact F|].
  apply in_app_or in H. destruct H as [H|H]; [exfalso; eapply in_report_not_auto; exact H|].
  apply IH. exact H.
Qed.

Lemma tick_autos e s p :
  In (GAuto p) (snd (tick e s)) -> l_prev s = Some false /\ force p && is117 e = false.
Proof.
  unfold tick. destruct (l_queue s) as [|q t]; [intros []|].
  destruct (prev_declined s) eqn:PD.
  - pose proof (flush_autos e (q :: t) p) as F.
    destruct (flush e (q :: t)) as [es r]. cbn [fst snd] in *. intros H.
    apply in_app_or in H. destruct H as [H|H].
    + split; [|apply F; exact H]. unfold prev_declined in PD. destruct (l_prev s) as [[|]|]; congruence.
    + destruct r; [destruct H|]. destruct H as [H|[]]. discriminate.
  - intros [H|[]]. discriminate.
Qed.

Lemma tick_prev e s : l_prev (fst (tick e s)) = l_prev s.
Proof.
  unfold tick. destruct (l_queue s); [reflexivity|].
  destruct (prev_declined s); [|reflexivity]. destruct (flush e (p :: l)). reflexivity.
Qed.

Definition decide (acc : option bool) (o : op) : option bool := last_decision acc [o].

Lemma last_decision_cons acc o r : last_decision acc (o :: r) = last_decision (decide acc o) r.
Proof. unfold decide. destruct o as [| b | |]; cbn [last_decision]; try reflexivity. Qed.

Lemma apply_status_prev s q x :
  l_prev (apply_status s q x) = match x with Accepted => Some true | Declined => Some false | _ => l_prev s end.
Proof.
  destruct x; cbn [apply_status l_prev]; try reflexivity.
  destruct q as [q|]; [|reflexivity]. destruct (l_applied s); [|reflexivity].
  destruct (negb (pid q =? 0) && (pid p =? pid q)); reflexivity.
Qed.

Lemma lresp_prev e s b : l_prev (fst (fst (lresp e s b))) = decide (l_prev s) (Response b).
Proof.
  unfold lresp, decide. cbn [last_decision].
  destruct (intermediate (bstatus b)) eqn:I.
  - cbn [fst]. rewrite apply_status_prev. destruct (bstatus b); reflexivity.
  - pose proof (tick_prev e (apply_status (set_queue s (tl (l_queue s))) (hd_error (l_queue s)) (bstatus b))) as T.
    destruct (tick e _) as [s3 es]. cbn [fst] in *. rewrite T, apply_status_prev.
    destruct (bstatus b); reflexivity.
Qed.

Lemma lstep_prev e c s o :
  nilguard c = true -> l_prev (fst (fst (lstep e c s o))) = decide (l_prev s) o.
Proof.
  intros G. destruct o as [id hash f be|b|id|].
  - cbn [lstep]. destruct (Nat.eqb _ 1).
    + pose proof (tick_prev e (push_pack s id hash f be)) as T.
      destruct (tick e (push_pack s id hash f be)) as [s2 es]. cbn [fst] in *. rewrite T. reflexivity.
    + reflexivity.
  - destruct (lstep_response e c s b) as [[_ [_ G']]|E]; [congruence|]. rewrite E. apply lresp_prev.
  - reflexivity.
  - reflexivity.
Qed.

Lemma in_own_not_auto e q b p : ~ In (GAuto p) (GOwn q b :: report_events e q b).
Proof. intros [H|H]; [discriminate|]. eapply in_report_not_auto; exact H. Qed.

Lemma lstep_autos e c s o p :
  nilguard c = true ->
  In (GAuto p) (snd (fst (lstep e c s o))) ->
  decide (l_prev s) o = Some false /\ force p && is117 e = false.
Proof.
  intros G. destruct o as [id hash f be|b|id|].
  - cbn [lstep]. destruct (Nat.eqb _ 1).
    + pose proof (tick_autos e (push_pack s id hash f be) p) as T.
      destruct (tick e (push_pack s id hash f be)) as [s2 es]. cbn [fst snd] in *. intros H.
      apply T in H. exact H.
    + intros [].
  - destruct (lstep_response e c s b) as [[_ [_ G']]|E]; [congruence|]. rewrite E.
    unfold lresp. destruct (intermediate (bstatus b)) eqn:I.
    + cbn [fst snd app]. intros H. exfalso. eapply in_own_not_auto; exact H.
    + set (s2 := apply_status (set_queue s (tl (l_queue s))) (hd_error (l_queue s)) (bstatus b)).
      pose proof (tick_autos e s2 p) as T.
      assert (P2 : l_prev s2 = decide (l_prev s) (Response b)).
      { unfold s2. rewrite apply_status_prev. unfold decide. cbn [last_decision]. destruct (bstatus b); reflexivity. }
      destruct (tick e s2) as [s3 es]. cbn [fst snd] in *. intros H.
      apply in_app_or in H. destruct H as [H|H]; [|exfalso; eapply in_own_not_auto; exact H].
      apply T in H. rewrite <- P2. exact H.
  - intros [].
  - intros [].
Qed.

Lemma autos_gen e c : nilguard c = true -> forall h s k x p,
  nth_error (run_lpure e c s h) k = Some x -> In (GAuto p) (s_events x) ->
  last_decision (l_prev s) (firstn (S k) h) = Some false /\ force p && is117 e = false.
Proof.
  intros G. induction h as [|o r IH]; intros s k x p N HIn.
  - destruct k; discriminate N.
  - cbn [run_lpure] in N.
    pose proof (lstep_autos e c s o p G) as A. pose proof (lstep_prev e c s o G) as P.
    destruct (lstep e c s o) as [[s' es] a]. cbn [fst snd] in *.
    destruct k as [|k].
    + cbn [nth_error] in N. inversion N; subst x. cbn [s_events] in HIn.
      cbn [firstn]. apply A. exact HIn.
    + cbn [nth_error] in N. change (firstn (S (S k)) (o :: r)) with (o :: firstn (S k) r).
      rewrite last_decision_cons, <- P. eapply IH; eassumption.
Qed.

(* ---------- a pack queued on an idle handler is prompted ---------- *)

Lemma idle_gen e c : nilguard c = true -> forall h s cn,
  Inv s cn -> idle_queue_prompted e cn (l_prev s) h (run_lpure e c s h) = true.
Proof.
  intros G. induction h as [|o r IH]; intros s cn H; [reflexivity|].
  cbn [run_lpure].
  pose proof (lstep_inv e c s o cn H) as I2. pose proof (lstep_prev e c s o G) as P.
  assert (Q : match o with
              | Queue _ _ f _ =>
                if (cn =? 0) && (negb (match l_prev s with Some false => true | _ => false end) || (f && is117 e))
                then count_reqs (snd (fst (lstep e c s o))) =? 1 else true
              | _ => true end = true).
  { destruct o as [id hash f be| | |]; try reflexivity.
    destruct ((cn =? 0) && _) eqn:C; [|reflexivity].
    apply andb_true_iff in C. destruct C as [C0 C1]. apply N.eqb_eq in C0. subst cn.
    unfold Inv in H. destruct (l_queue s) as [|q t] eqn:Q; [|discriminate H].
    cbn [lstep].
    assert (L : l_queue (push_pack s id hash f be) = [mkPack (l_next s) id hash f be])
      by (unfold push_pack; cbn [l_queue]; rewrite Q; reflexivity).
    rewrite L. cbn [length Nat.eqb]. unfold tick. rewrite L.
    assert (PD : prev_declined (push_pack s id hash f be) = match l_prev s with Some false => true | _ => false end)
      by reflexivity.
    rewrite PD. destruct (match l_prev s with Some false => true | _ => false end) eqn:D.
    - cbn [negb orb] in C1. cbn [flush force]. rewrite C1. cbn [fst snd app]. reflexivity.
    - cbn [fst snd]. reflexivity. }
  destruct (lstep e c s o) as [[s' es] a]. cbn [fst snd] in *.
  cbn [idle_queue_prompted s_events]. rewrite Q. cbn [andb].
  fold (decide (l_prev s) o). rewrite <- P. apply IH. exact I2.
Qed.

(* ---------- reports ---------- *)

Lemma obs_app a b : obs (a ++ b) = obs a ++ obs b.
Proof. unfold obs. apply filter_app. Qed.

Lemma status_eqb_refl x : status_eqb x x = true.
Proof. unfold status_eqb. apply N.eqb_refl. Qed.

Lemma last_is_snoc l x f : last_is (l ++ [x]) f = f x.
Proof. unfold last_is. rewrite rev_app_distr. reflexivity. Qed.

Lemma own_unhandled e q b :
  handled_of q = false -> has_be e = true ->
  forall es, last_is (obs (es ++ GOwn q b :: report_events e q b)) (is_rep_of b) = true.
Proof.
  intros Hq Hb es. unfold report_events. rewrite Hq, Hb.
  rewrite obs_app. cbn [obs filter is_ghost negb].
  rewrite last_is_snoc. unfold is_rep_of. rewrite !N.eqb_refl, status_eqb_refl. reflexivity.
Qed.

Lemma lstep_unhandled e c s o :
  match o, snd (lstep e c s o) with
  | Response b, RHandled false => if has_be e then last_is (obs (snd (fst (lstep e c s o)))) (is_rep_of b) else true
  | _, _ => true
  end = true.
Proof.
  destruct o as [id hash f be|b|id|]; try reflexivity.
  destruct (lstep_response e c s b) as [[E _]|E]; rewrite E; [reflexivity|].
  unfold lresp.
  destruct (if intermediate (bstatus b) then _ else _) as [s3 es]. cbn [fst snd].
  destruct (handled_of (hd_error (l_queue s))) eqn:Hq; [reflexivity|].
  destruct (has_be e) eqn:Hb; [|reflexivity].
  apply own_unhandled; assumption.
Qed.

Lemma unhandled_gen e c : forall h s, unhandled_reported (has_be e) h (run_lpure e c s h) = true.
Proof.
  induction h as [|o r IH]; intros s; [reflexivity|].
  cbn [run_lpure]. pose proof (lstep_unhandled e c s o) as U.
  destruct o as [id hash f be|b|id|];
    destruct (lstep e c s _) as [[s' es] a]; cbn [fst snd] in U;
    cbn [unhandled_reported s_events s_ret]; rewrite IH, andb_true_r; try reflexivity.
  destruct a; try reflexivity. destruct b0; [reflexivity|exact U].
Qed.

Definition rep_ok (hb : bool) (es : list event) : Prop := reports es = flat_map (expected_report hb) es.

Lemma rep_ok_app hb a b : rep_ok hb a -> rep_ok hb b -> rep_ok hb (a ++ b).
Proof. unfold rep_ok, reports. intros A B. rewrite filter_app, flat_map_app. unfold reports in *. rewrite A, B. reflexivity. Qed.

Lemma rep_ok_nil hb : rep_ok hb [].
Proof. reflexivity. Qed.

Lemma rep_ok_req hb p : rep_ok hb [req p].
Proof. reflexivity. Qed.

Lemma rep_ok_auto e p : rep_ok (has_be e) (GAuto p :: report_events e (Some p) (decline_bundle p)).
Proof.
  unfold rep_ok, report_events, handled_of. cbn [flat_map expected_report]. destruct (backend p), (has_be e); reflexivity.
Qed.

Lemma rep_ok_own e q b : rep_ok (has_be e) (GOwn q b :: report_events e q b).
Proof.
  unfold rep_ok, report_events, handled_of. cbn [flat_map expected_report]. destruct q as [p|]; [destruct (backend p)|]; destruct (has_be e); reflexivity.
Qed.

Lemma flush_rep_ok e : forall q, rep_ok (has_be e) (fst (flush e q)).
Proof.
  induction q as [|p t IH]; [apply rep_ok_nil|]. cbn [flush].
  destruct (force p && is117 e); [apply rep_ok_nil|].
  destruct (flush e t) as [es r]. cbn [fst] in *.
  change (GAuto p :: report_events e (Some p) (decline_bundle p) ++ es)
    with ((GAuto p :: report_events e (Some p) (decline_bundle p)) ++ es).
  apply rep_ok_app; [apply rep_ok_auto|exact IH].
Qed.

Lemma tick_rep_ok e s : rep_ok (has_be e) (snd (tick e s)).
Proof.
  unfold tick. destruct (l_queue s) as [|q t]; [apply rep_ok_nil|].
  destruct (prev_declined s); [|apply rep_ok_req].
  pose proof (flush_rep_ok e (q :: t)) as F. destruct (flush e (q :: t)) as [es r]. cbn [fst snd] in *.
  apply rep_ok_app; [exact F|]. destruct r; [apply rep_ok_nil|apply rep_ok_req].
Qed.

Lemma lstep_rep_ok e c s o : rep_ok (has_be e) (snd (fst (lstep e c s o))).
Proof.
  destruct o as [id hash f be|b|id|]; try apply rep_ok_nil.
  - cbn [lstep]. destruct (Nat.eqb _ 1); [|apply rep_ok_nil].
    pose proof (tick_rep_ok e (push_pack s id hash f be)) as T.
    destruct (tick e (push_pack s id hash f be)). exact T.
  - destruct (lstep_response e c s b) as [[E _]|E]; rewrite E; [apply rep_ok_nil|].
    unfold lresp. destruct (intermediate (bstatus b)).
    + cbn [fst snd app]. apply rep_ok_own.
    + pose proof (tick_rep_ok e (apply_status (set_queue s (tl (l_queue s))) (hd_error (l_queue s)) (bstatus b))) as T.
      destruct (tick e _) as [s3 es]. cbn [fst snd] in *. apply rep_ok_app; [exact T|apply rep_ok_own].
Qed.

Lemma rep_ok_gen e c : forall h s, Forall (fun x => rep_ok (has_be e) (s_events x)) (run_lpure e c s h).
Proof.
  induction h as [|o r IH]; intros s; [constructor|].
  cbn [run_lpure]. pose proof (lstep_rep_ok e c s o) as R.
  destruct (lstep e c s o) as [[s' es] a]. constructor; [exact R|apply IH].
Qed.

(* the result of a response says whether the proxy swallowed it *)
Lemma lstep_handled e c s b x :
  snd (lstep e c s (Response b)) = RHandled x ->
  exists q es, snd (fst (lstep e c s (Response b))) = es ++ GOwn q b :: report_events e q b /\ x = handled_of q.
Proof.
  destruct (lstep_response e c s b) as [[E _]|E]; rewrite E; [discriminate|].
  unfold lresp. destruct (if intermediate (bstatus b) then _ else _) as [s3 es]. cbn [fst snd].
  intros H. inversion H. exists (hd_error (l_queue s)), es. split; reflexivity.
Qed.

(* ---------- every call returns ---------- *)

Lemma all_return_gen e c : nilguard c = true -> forall h s, all_return true h (run_lpure e c s h) = true.
Proof.
  intros G. induction h as [|o r IH]; intros s; [reflexivity|].
  cbn [run_lpure].
  assert (R : match snd (lstep e c s o), o with
              | RStuck, _ | ROutOfFuel, _ | RErr, _ => false
              | RPanic, Remove _ => true
              | RPanic, _ => false
              | _, _ => true end = true).
  { destruct o as [id hash f be|b|id|].
    - cbn [lstep]. destruct (Nat.eqb _ 1); [destruct (tick e _)|]; reflexivity.
    - destruct (lstep_response e c s b) as [[_ [_ G']]|E]; [congruence|]. rewrite E.
      unfold lresp. destruct (if intermediate (bstatus b) then _ else _). reflexivity.
    - reflexivity.
    - reflexivity. }
  destruct (lstep e c s o) as [[s' es] a]. cbn [snd] in R.
  cbn [all_return s_ret]. rewrite IH, andb_true_r. exact R.
Qed.
