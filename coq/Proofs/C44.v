(* C44 - proofs about Model/ConnClose.v: one invariant of every program (read loop with any script of
   returning / panicking handlers, any number of Close / CloseWith / WritePacket goroutines, the peer
   closing its end) under every schedule, and what fails without closeOnce / without recover. *)
From Coq Require Import List Bool Arith Lia.
From Verif Require Import Base.Conc Model.ConnClose.
Import ListNotations.

(* ---------- projections over append ---------- *)

Lemma n_disc_app a b : n_disc (a ++ b) = n_disc a + n_disc b.
Proof. unfold n_disc. now rewrite filter_app, app_length. Qed.
Lemma n_first_app a b : n_first (a ++ b) = n_first a + n_first b.
Proof. unfold n_first. now rewrite filter_app, app_length. Qed.
Lemma handled_app a b : handled (a ++ b) = handled a ++ handled b.
Proof. apply flat_map_app. Qed.
Lemma panics_app a b : panics (a ++ b) = panics a ++ panics b.
Proof. apply flat_map_app. Qed.
Lemma recovered_app a b : recovered (a ++ b) = recovered a ++ recovered b.
Proof. apply flat_map_app. Qed.
Lemma died_app a b : died (a ++ b) = died a || died b.
Proof. apply existsb_app. Qed.
Lemma scan_app a b : scan (a ++ b) = fold_left scan_step b (scan a).
Proof. unfold scan. apply fold_left_app. Qed.

(* some closeKnown / CloseWith call has returned *)
Definition has_ret (evs : list event) : bool :=
  existsb (fun e => match e with ECloseRet _ _ => true | _ => false end) evs.
Lemma has_ret_app a b : has_ret (a ++ b) = has_ret a || has_ret b.
Proof. apply existsb_app. Qed.
Lemma stuck_ev_app a b : stuck_ev (a ++ b) = stuck_ev a || stuck_ev b.
Proof. apply existsb_app. Qed.
Lemma dop_results_app a b : dop_results (a ++ b) = dop_results a ++ dop_results b.
Proof. apply flat_map_app. Qed.


(* ---------- the invariant (over the fields it needs) ---------- *)

Definition InvF (closed once cancel dead stuck : bool) (dops : list dop) (next : nat) (evs : list event) : Prop :=
  n_disc evs = (if once then 1 else 0)
  /\ closed = once
  /\ n_first evs = n_disc evs
  /\ died evs = false /\ dead = false
  /\ scan evs = (true, closed || cancel, None)
  /\ handled evs = seq 0 next
  /\ recovered evs = panics evs
  /\ (has_ret evs = true -> once = true)
  /\ stuck = false /\ stuck_ev evs = false
  /\ forallb guarded dops = true
  /\ dop_results evs = (if once then map res_of dops else []).

Definition Inv (s : cst) (evs : list event) : Prop :=
  InvF (c_closed s) (c_once s) (c_cancel s) (c_died s) (c_stuck s) (c_dops s) (c_next s) evs.

Lemma Inv_init dops : forallb guarded dops = true -> Inv (cinit_d dops) [].
Proof. intros Hg. unfold Inv, InvF. simpl. repeat split; try reflexivity; try assumption. discriminate. Qed.

(* events that none of the projections looks at *)
Definition neutral (e : event) : bool :=
  match e with
  | EWRes _ _ | ELoopExit | ECwSkip _ | EDop _ _ => true
  | _ => false
  end.

Ltac inv_app H :=
  let H1 := fresh "H1" in let H2 := fresh "H2" in let H3 := fresh "H3" in let H4 := fresh "H4" in
  let H5 := fresh "H5" in let H6 := fresh "H6" in let H7 := fresh "H7" in let H8 := fresh "H8" in
  let H9 := fresh "H9" in let H10 := fresh "H10" in let H11 := fresh "H11" in let H12 := fresh "H12" in
  let H13 := fresh "H13" in
  destruct H as (H1 & H2 & H3 & H4 & H5 & H6 & H7 & H8 & H9 & H10 & H11 & H12 & H13);
  unfold InvF;
  rewrite n_disc_app, n_first_app, died_app, scan_app, handled_app, recovered_app, panics_app, has_ret_app,
          stuck_ev_app, dop_results_app, H6.

Lemma InvF_neutral1 closed once cancel dead stuck dops next evs e :
  neutral e = true -> (forall d r, e <> EDop d r) ->
  InvF closed once cancel dead stuck dops next evs -> InvF closed once cancel dead stuck dops next (evs ++ [e]).
Proof.
  intros He Hnd H. inv_app H.
  destruct e as [| |d r| |t r|t|t b|t r|i h|i| |]; try discriminate; simpl;
    rewrite ?Nat.add_0_r, ?app_nil_r, ?orb_false_r; repeat split; auto.
  exfalso. eapply Hnd; reflexivity.
Qed.

Definition neutral0 (e : event) : bool :=
  neutral e && match e with EDop _ _ => false | _ => true end.

Lemma InvF_neutral closed once cancel dead stuck dops next evs es :
  InvF closed once cancel dead stuck dops next evs -> forallb neutral0 es = true ->
  InvF closed once cancel dead stuck dops next (evs ++ es).
Proof.
  intros H. induction es as [|e es IH] using rev_ind; intros Hn; [now rewrite app_nil_r|].
  rewrite forallb_app in Hn. apply andb_true_iff in Hn. destruct Hn as [Hn He]. simpl in He.
  rewrite andb_true_r in He. specialize (IH Hn). rewrite app_assoc.
  unfold neutral0 in He. apply andb_true_iff in He. destruct He as [He1 He2].
  apply InvF_neutral1; [assumption| |assumption]. intros d r ->. discriminate.
Qed.

(* a closeKnown that finds the once flag set *)
Lemma InvF_already closed cancel dead stuck dops next evs t :
  InvF closed true cancel dead stuck dops next evs ->
  InvF closed true cancel dead stuck dops next (evs ++ [ECloseRet t CAlready]).
Proof.
  intros H. inv_app H. simpl. rewrite ?Nat.add_0_r, ?app_nil_r, ?orb_false_r. repeat split; auto.
Qed.

(* the calls of a guarded handler while Closed(c) is already true: all answered, none re-enters *)
Lemma run_dops_guarded ds : forallb guarded ds = true ->
  run_dops true ds = (map (fun d => EDop d (res_of d)) ds, false).
Proof.
  induction ds as [|d ds IH]; intros Hg; [reflexivity|].
  simpl in Hg. apply andb_true_iff in Hg. destruct Hg as [Hd Hg].
  simpl. rewrite (IH Hg). destruct d; try discriminate; reflexivity.
Qed.

Lemma dops_events_proj ds :
  let D := map (fun d => EDop d (res_of d)) ds in
  n_disc D = 0 /\ n_first D = 0 /\ died D = false /\ handled D = [] /\ recovered D = [] /\ panics D = []
  /\ has_ret D = false /\ stuck_ev D = false /\ dop_results D = map res_of ds
  /\ (forall ok c, fold_left scan_step D (ok, c, None) = (ok, c, None)).
Proof.
  induction ds as [|d ds IH]; cbv zeta in *; [repeat split; reflexivity|].
  destruct IH as (I1 & I2 & I3 & I4 & I5 & I6 & I7 & I8 & I9 & I10).
  unfold n_disc, n_first, died, handled, recovered, panics, has_ret, stuck_ev, dop_results in *. simpl.
  repeat split; auto. now rewrite I9.
Qed.

(* closeKnown with the once guard, cancel first, guarded handler *)
Lemma close_preserves t s evs :
  Inv s evs -> Inv (fst (do_close impl_cfg t s)) (evs ++ snd (do_close impl_cfg t s)).
Proof.
  intros H. unfold do_close. simpl. rewrite orb_false_r. destruct (c_once s) eqn:Ho; simpl.
  - unfold Inv in *. rewrite Ho in *. now apply InvF_already.
  - assert (Hg : forallb guarded (c_dops s) = true) by (unfold Inv, InvF in H; tauto).
    rewrite (run_dops_guarded _ Hg). simpl.
    destruct (dops_events_proj (c_dops s)) as (I1 & I2 & I3 & I4 & I5 & I6 & I7 & I8 & I9 & I10).
    cbv zeta in *.
    unfold Inv in *. simpl. rewrite Ho in H.
    change (EDisc :: map (fun d => EDop d (res_of d)) (c_dops s) ++ [ECloseRet t CFirst])
      with ([EDisc] ++ map (fun d => EDop d (res_of d)) (c_dops s) ++ [ECloseRet t CFirst]).
    inv_app H.
    rewrite !n_disc_app, !n_first_app, !died_app, !handled_app, !recovered_app, !panics_app, !has_ret_app,
            !stuck_ev_app, !dop_results_app, !fold_left_app, I1, I2, I3, I4, I5, I6, I7, I8, I9.
    subst. simpl. rewrite I10. simpl.
    rewrite H4, H7, H8, H11, H13. simpl. rewrite ?app_nil_r.
    repeat split; auto; unfold n_first, n_disc in *; simpl; lia.
Qed.

(* a step that changes none of the fields the invariant reads and emits only neutral events *)
Lemma quiet_preserves s evs s' es :
  Inv s evs ->
  c_closed s' = c_closed s -> c_once s' = c_once s -> c_cancel s' = c_cancel s ->
  c_died s' = c_died s -> c_next s' = c_next s -> c_stuck s' = c_stuck s -> c_dops s' = c_dops s ->
  forallb neutral0 es = true -> Inv s' (evs ++ es).
Proof.
  intros H E1 E2 E5 E3 E4 E6 E7 Hn. unfold Inv. rewrite E1, E2, E3, E4, E5, E6, E7. now apply InvF_neutral.
Qed.

Lemma Inv_alive s evs : Inv s evs -> c_died s || c_stuck s = false.
Proof. unfold Inv, InvF. intros (_ & _ & _ & _ & -> & _ & _ & _ & _ & -> & _). reflexivity. Qed.

Lemma alive_live f s : c_died s || c_stuck s = false -> alive f s = f s.
Proof. unfold alive. now intros ->. Qed.

Ltac live H :=
  match goal with
  | |- context [alive ?f ?s] => rewrite (alive_live f s (Inv_alive _ _ H)); cbv beta
  end.

Lemma wcheck_preserves t s evs : Inv s evs -> Inv (fst (a_wcheck t s)) (evs ++ snd (a_wcheck t s)).
Proof.
  intros H. unfold a_wcheck. live H. unfold seen_closed. destruct (c_closed s || c_cancel s) eqn:Hc; simpl.
  - unfold Inv in *. simpl. inv_app H. rewrite Hc.
    simpl. rewrite Nat.eqb_refl, ?Nat.add_0_r, ?app_nil_r, ?orb_false_r. repeat split; auto.
  - unfold Inv in *. simpl. inv_app H. rewrite Hc.
    simpl. rewrite ?Nat.add_0_r, ?app_nil_r, ?orb_false_r. repeat split; auto.
Qed.

Lemma wdo_preserves t s evs : Inv s evs -> Inv (fst (a_wdo t s)) (evs ++ snd (a_wdo t s)).
Proof.
  intros H. unfold a_wdo. live H.
  destruct (get_reg t s); try (simpl; rewrite app_nil_r; assumption).
  destruct (seen_closed s) eqn:Hc; [|destruct (c_broken s)]; simpl;
    (eapply quiet_preserves; [exact H| | | | | | | |]; reflexivity).
Qed.

Lemma set_reg_Inv t r s evs : Inv s evs -> Inv (set_reg t r s) evs.
Proof. intros H. exact H. Qed.

Lemma wfin_preserves t s evs : Inv s evs -> Inv (fst (a_wfin impl_cfg t s)) (evs ++ snd (a_wfin impl_cfg t s)).
Proof.
  intros H. unfold a_wfin. live H.
  destruct (get_reg t s); try (simpl; rewrite app_nil_r; assumption).
  pose proof (close_preserves t (set_reg t CIdle s) evs (set_reg_Inv _ _ _ _ H)) as Hcl.
  destruct (do_close impl_cfg t (set_reg t CIdle s)) as [s1 e1]. simpl in *.
  rewrite app_assoc. eapply quiet_preserves; [exact Hcl| | | | | | | |]; reflexivity.
Qed.

Lemma cwcheck_preserves t s evs : Inv s evs -> Inv (fst (a_cwcheck t s)) (evs ++ snd (a_cwcheck t s)).
Proof.
  intros H. unfold a_cwcheck. live H. destruct (seen_closed s) eqn:Hc; simpl.
  - eapply quiet_preserves; [exact H| | | | | | | |]; reflexivity.
  - rewrite app_nil_r. exact H.
Qed.

Lemma cwwrite_preserves t s evs :
  Inv s evs -> Inv (fst (a_cwwrite impl_cfg t s)) (evs ++ snd (a_cwwrite impl_cfg t s)).
Proof.
  intros H. unfold a_cwwrite. live H.
  destruct (get_reg t s); try (simpl; rewrite app_nil_r; assumption).
  destruct (seen_closed s); [simpl; rewrite app_nil_r; assumption|].
  destruct (c_broken s); [now apply close_preserves|simpl; rewrite app_nil_r; assumption].
Qed.

Lemma cwclose_preserves t s evs :
  Inv s evs -> Inv (fst (a_cwclose impl_cfg t s)) (evs ++ snd (a_cwclose impl_cfg t s)).
Proof.
  intros H. unfold a_cwclose. live H.
  destruct (get_reg t s); try (simpl; rewrite app_nil_r; exact H).
  apply close_preserves. exact H.
Qed.

Lemma close_action_preserves t s evs :
  Inv s evs -> Inv (fst (a_close impl_cfg t s)) (evs ++ snd (a_close impl_cfg t s)).
Proof. intros H. unfold a_close. live H. now apply close_preserves. Qed.

Lemma peer_close_preserves s evs : Inv s evs -> Inv (fst (a_peer_close s)) (evs ++ snd (a_peer_close s)).
Proof. intros H. unfold a_peer_close. live H. simpl. rewrite app_nil_r. exact H. Qed.

Lemma cancel_preserves s evs : Inv s evs -> Inv (fst (a_cancel s)) (evs ++ snd (a_cancel s)).
Proof.
  intros H. unfold a_cancel. live H. unfold Inv in *. simpl. inv_app H.
  simpl. rewrite ?Nat.add_0_r, ?app_nil_r, ?orb_false_r, ?orb_true_r. repeat split; auto.
Qed.

Lemma loop_exit_preserves s evs :
  Inv s evs ->
  let s0 := mkC (c_dops s) (c_stuck s) (c_closed s) (c_once s) (c_cancel s) (c_broken s) true (c_died s) (c_next s) (c_regs s) in
  Inv (fst (do_close impl_cfg 0 s0)) (evs ++ ELoopExit :: snd (do_close impl_cfg 0 s0)).
Proof.
  intros H s0.
  assert (H0 : Inv s0 (evs ++ [ELoopExit])).
  { eapply quiet_preserves; [exact H| | | | | | | |]; reflexivity. }
  pose proof (close_preserves 0 s0 _ H0) as Hcl. now rewrite <- app_assoc in Hcl.
Qed.

Lemma read_err_preserves s evs :
  Inv s evs -> Inv (fst (a_read_err impl_cfg s)) (evs ++ snd (a_read_err impl_cfg s)).
Proof.
  intros H. unfold a_read_err. live H.
  destruct (c_loop_done s); [simpl; rewrite app_nil_r; exact H|].
  pose proof (loop_exit_preserves s evs H) as Hl. cbv zeta in Hl.
  destruct (do_close impl_cfg 0 _) as [s1 e1]. exact Hl.
Qed.

Lemma seq_snoc n : seq 0 (S n) = seq 0 n ++ [n].
Proof. now rewrite seq_S. Qed.

Lemma iter_preserves h s evs :
  Inv s evs -> Inv (fst (a_iter impl_cfg h s)) (evs ++ snd (a_iter impl_cfg h s)).
Proof.
  intros H. unfold a_iter. live H.
  destruct (c_loop_done s); [simpl; rewrite app_nil_r; exact H|].
  destruct (seen_closed s) eqn:Hc.
  - pose proof (loop_exit_preserves s evs H) as Hl. cbv zeta in Hl.
    destruct (do_close impl_cfg 0 _) as [s1 e1]. exact Hl.
  - unfold Inv in *.
    destruct h as [|v]; simpl; inv_app H; rewrite H7, H8, seq_snoc;
      simpl; rewrite ?Nat.add_0_r, ?app_nil_r, ?orb_false_r; repeat split; auto.
Qed.

(* ---------- the actions of a program ---------- *)

Inductive is_action : @action cst event -> Prop :=
| IA_iter h : is_action (a_iter impl_cfg h)
| IA_read_err : is_action (a_read_err impl_cfg)
| IA_close t : is_action (a_close impl_cfg t)
| IA_wcheck t : is_action (a_wcheck t)
| IA_wdo t : is_action (a_wdo t)
| IA_wfin t : is_action (a_wfin impl_cfg t)
| IA_cwcheck t : is_action (a_cwcheck t)
| IA_cwwrite t : is_action (a_cwwrite impl_cfg t)
| IA_cwclose t : is_action (a_cwclose impl_cfg t)
| IA_peer : is_action a_peer_close
| IA_cancel : is_action a_cancel.

Lemma in_gors_from gs : forall t a, In a (concat (gors_from impl_cfg t gs)) -> is_action a.
Proof.
  induction gs as [|g gs IH]; intros t a H; simpl in H; [contradiction|].
  apply in_app_or in H. destruct H as [H|H]; [|eauto].
  destruct g; simpl in H; intuition (subst; constructor).
Qed.

Lemma in_program script gs a : In a (concat (program impl_cfg script gs)) -> is_action a.
Proof.
  unfold program. simpl. intros H. apply in_app_or in H. destruct H as [H|H]; [|eapply in_gors_from; eauto].
  unfold readloop_thread in H. apply in_app_or in H. destruct H as [H|[<-|[]]]; [|constructor].
  apply in_map_iff in H. destruct H as [h [<- _]]. constructor.
Qed.

Lemma action_preserves a : is_action a -> forall s evs, Inv s evs -> Inv (fst (a s)) (evs ++ snd (a s)).
Proof.
  intros Ha s evs H. destruct Ha.
  - now apply iter_preserves.
  - now apply read_err_preserves.
  - now apply close_action_preserves.
  - now apply wcheck_preserves.
  - now apply wdo_preserves.
  - now apply wfin_preserves.
  - now apply cwcheck_preserves.
  - now apply cwwrite_preserves.
  - now apply cwclose_preserves.
  - now apply peer_close_preserves.
  - now apply cancel_preserves.
Qed.

Theorem invariant script gs dops sched :
  forallb guarded dops = true ->
  let r := run (program impl_cfg script gs) sched (cinit_d dops) in
  Inv (final_state r) (events r).
Proof.
  intros Hg. cbv zeta. unfold final_state, events.
  exact (trace_inv_all_schedules Inv (program impl_cfg script gs)
           (fun a Ha => action_preserves a (in_program script gs a Ha)) sched (cinit_d dops) [] (Inv_init dops Hg)).
Qed.

(* ---------- reading the scan ---------- *)

Definition ok_of (st : bool * bool * option nat) : bool := fst (fst st).

Lemma scan_step_false c p e : ok_of (scan_step (false, c, p) e) = false.
Proof.
  unfold scan_step, ok_of. destruct p; destruct e; simpl; try reflexivity;
    try (destruct r; reflexivity); try (destruct saw_closed; reflexivity).
Qed.

Lemma fold_false evs : forall c p, ok_of (fold_left scan_step evs (false, c, p)) = false.
Proof.
  induction evs as [|e evs IH]; intros c p; [reflexivity|].
  cbn [fold_left]. pose proof (scan_step_false c p e) as H.
  destruct (scan_step (false, c, p) e) as [[ok c'] p']. unfold ok_of in H. simpl in H. subst ok. apply IH.
Qed.

Lemma fold_ok_start evs : forall st, ok_of (fold_left scan_step evs st) = true -> ok_of st = true.
Proof.
  intros [[ok c] p] H. destruct ok; [reflexivity|]. now rewrite fold_false in H.
Qed.

(* while the scan is fine its flag is: a Disconnected() or a parent-cancel event occurred *)
Lemma scan_closed_flag evs : forall c p, scan evs = (true, c, p) -> c = has_closed evs.
Proof.
  induction evs as [|e evs IH] using rev_ind; intros c p H.
  - unfold scan in H. simpl in H. now inversion H.
  - rewrite scan_app in H. simpl in H. destruct (scan evs) as [[ok0 c0] p0] eqn:Hs.
    assert (Hok : ok0 = true).
    { destruct ok0; [reflexivity|]. pose proof (scan_step_false c0 p0 e) as Hf. rewrite H in Hf. discriminate. }
    subst ok0. specialize (IH c0 p0 eq_refl). unfold has_closed. rewrite existsb_app. fold (has_closed evs). rewrite <- IH.
    unfold scan_step in H. destruct p0 as [t0|].
    + destruct e as [| |d0 r0| |t r|t|t b|t r|i h|i| |]; try discriminate; destruct r; try discriminate.
      inversion H; subst. simpl. now rewrite orb_false_r.
    + destruct e as [| |d0 r0| |t r|t|t b|t r|i h|i| |]; inversion H; subst; simpl; rewrite ?orb_false_r, ?orb_true_r; reflexivity.
Qed.

Theorem scan_sound evs c :
  scan evs = (true, c, None) ->
  forall pre t b post, evs = pre ++ EWStart t b :: post ->
    b = has_closed pre /\ (b = true -> exists post', post = EWRes t WClosed :: post').
Proof.
  intros H pre t b post ->. rewrite scan_app in H. simpl in H.
  destruct (scan pre) as [[ok0 c0] p0] eqn:Hs.
  assert (Hok1 : ok_of (scan_step (ok0, c0, p0) (EWStart t b)) = true).
  { apply (fold_ok_start post). now rewrite H. }
  assert (Hok0 : ok0 = true).
  { destruct ok0; [reflexivity|]. now rewrite scan_step_false in Hok1. }
  subst ok0.
  destruct p0 as [t0|]; [unfold scan_step, ok_of in Hok1; simpl in Hok1; discriminate|].
  pose proof (scan_closed_flag pre c0 None Hs) as Hc0.
  assert (Hstep : scan_step (true, c0, None) (EWStart t b)
                  = (Bool.eqb b c0, c0, if b then Some t else None)) by reflexivity.
  rewrite Hstep in H, Hok1. unfold ok_of in Hok1. cbn [fst] in Hok1.
  apply eqb_prop in Hok1. subst c0. split; [exact Hc0|].
  intros Hb. rewrite ?Hb in H. cbn [Bool.eqb] in H.
  destruct post as [|e post']; [cbn [fold_left] in H; discriminate|].
  cbn [fold_left] in H.
  assert (He : ok_of (scan_step (true, true, Some t) e) = true).
  { apply (fold_ok_start post'). rewrite H. reflexivity. }
  destruct e as [| |d0 r0| |t1 r|t1|t1 b1|t1 r|i h|i| |]; try discriminate He.
  destruct r; try discriminate He. unfold scan_step, ok_of in He. simpl in He.
  apply Nat.eqb_eq in He. subst t1. eauto.
Qed.

(* ---------- the statements of Properties/C44.v ---------- *)

Lemma has_ret_in evs t r0 : In (ECloseRet t r0) evs -> has_ret evs = true.
Proof.
  intros H. unfold has_ret. apply existsb_exists. exists (ECloseRet t r0). split; [assumption|reflexivity].
Qed.

Theorem teardown_exactly_once script gs dops sched :
  forallb guarded dops = true ->
  let r := run (program impl_cfg script gs) sched (cinit_d dops) in
  let s := final_state r in
  let evs := events r in
  n_disc evs <= 1
  /\ n_disc evs = (if c_closed s then 1 else 0)
  /\ n_first evs = n_disc evs
  /\ ((exists t r0, In (ECloseRet t r0) evs) -> n_disc evs = 1 /\ c_closed s = true).
Proof.
  intros Hg. cbv zeta. pose proof (invariant script gs dops sched Hg) as H. cbv zeta in H.
  unfold Inv, InvF in H. destruct H as (H1 & H2 & H3 & H4 & H5 & H6 & H7 & H8 & H9 & _).
  rewrite H2. repeat split; auto.
  - rewrite H1. destruct (c_once _); lia.
  - destruct H as [t [r0 Hin]]. rewrite H1, (H9 (has_ret_in _ _ _ Hin)). reflexivity.
  - destruct H as [t [r0 Hin]]. exact (H9 (has_ret_in _ _ _ Hin)).
Qed.

Theorem writes_after_close_fail script gs dops sched :
  forallb guarded dops = true ->
  let r := run (program impl_cfg script gs) sched (cinit_d dops) in
  let evs := events r in
  forall pre t b post, evs = pre ++ EWStart t b :: post ->
    b = has_closed pre /\ (b = true -> exists post', post = EWRes t WClosed :: post').
Proof.
  intros Hg. cbv zeta. pose proof (invariant script gs dops sched Hg) as H. cbv zeta in H.
  unfold Inv, InvF in H. destruct H as (_ & _ & _ & _ & _ & H6 & _).
  exact (scan_sound _ _ H6).
Qed.

Theorem panic_contained script gs dops sched :
  forallb guarded dops = true ->
  let r := run (program impl_cfg script gs) sched (cinit_d dops) in
  let s := final_state r in
  let evs := events r in
  died evs = false /\ c_died s = false
  /\ handled evs = seq 0 (c_next s)
  /\ recovered evs = panics evs.
Proof.
  intros Hg. cbv zeta. pose proof (invariant script gs dops sched Hg) as H. cbv zeta in H.
  unfold Inv, InvF in H. tauto.
Qed.

(* the handler behaviour installed at the start never changes *)
Lemma do_close_dops c t s : c_dops (fst (do_close c t s)) = c_dops s.
Proof.
  unfold do_close. destruct (_ || _); [reflexivity|].
  destruct (run_dops _ _) as [e st]. destruct st; reflexivity.
Qed.

Lemma alive_dops f s : (forall s0, c_dops (fst (f s0)) = c_dops s0) -> c_dops (fst (alive f s)) = c_dops s.
Proof. intros H. unfold alive. destruct (_ || _); [reflexivity|apply H]. Qed.

Lemma action_dops a : is_action a -> forall s, c_dops (fst (a s)) = c_dops s.
Proof.
  intros Ha s. destruct Ha; apply alive_dops; intros s0.
  - destruct (c_loop_done s0); [reflexivity|]. destruct (seen_closed s0).
    + pose proof (do_close_dops impl_cfg 0
        (mkC (c_dops s0) (c_stuck s0) (c_closed s0) (c_once s0) (c_cancel s0) (c_broken s0) true (c_died s0) (c_next s0) (c_regs s0))) as Hc.
      destruct (do_close impl_cfg 0 _) as [s1 e1]. exact Hc.
    + destruct h; reflexivity.
  - destruct (c_loop_done s0); [reflexivity|].
    pose proof (do_close_dops impl_cfg 0
      (mkC (c_dops s0) (c_stuck s0) (c_closed s0) (c_once s0) (c_cancel s0) (c_broken s0) true (c_died s0) (c_next s0) (c_regs s0))) as Hc.
    destruct (do_close impl_cfg 0 _) as [s1 e1]. exact Hc.
  - apply do_close_dops.
  - destruct (seen_closed s0); reflexivity.
  - destruct (get_reg t s0); try reflexivity. destruct (seen_closed s0); [reflexivity|]. destruct (c_broken s0); reflexivity.
  - destruct (get_reg t s0); try reflexivity.
    pose proof (do_close_dops impl_cfg t (set_reg t CIdle s0)) as Hc.
    destruct (do_close impl_cfg t (set_reg t CIdle s0)) as [s1 e1]. exact Hc.
  - destruct (seen_closed s0); reflexivity.
  - destruct (get_reg t s0); try reflexivity. destruct (seen_closed s0); [reflexivity|].
    destruct (c_broken s0); [apply do_close_dops|reflexivity].
  - destruct (get_reg t s0); try reflexivity. apply (do_close_dops impl_cfg t (set_reg t CIdle s0)).
  - reflexivity.
  - reflexivity.
Qed.

Lemma dops_const script gs dops sched :
  let r := run (program impl_cfg script gs) sched (cinit_d dops) in
  c_dops (final_state r) = dops.
Proof.
  cbv zeta. unfold final_state.
  apply (inv_all_schedules (fun s => c_dops s = dops) (program impl_cfg script gs)); [|reflexivity].
  intros a Ha s Hs. rewrite (action_dops a (in_program script gs a Ha)). exact Hs.
Qed.

(* what Disconnected() does with its own connection from inside the teardown: every such call returns
   (ErrClosedConn, or skipped by its own "if !Closed" guard), none re-enters the once-body, so the
   teardown finishes: nothing is ever stuck and every closeKnown call returns *)
Theorem teardown_reentrancy_safe script gs dops sched :
  forallb guarded dops = true ->
  let r := run (program impl_cfg script gs) sched (cinit_d dops) in
  let s := final_state r in
  let evs := events r in
  c_stuck s = false /\ stuck_ev evs = false
  /\ dop_results evs = (if c_closed s then map res_of dops else [])
  /\ n_first evs = n_disc evs.
Proof.
  intros Hg. cbv zeta. pose proof (invariant script gs dops sched Hg) as H. cbv zeta in H.
  unfold Inv, InvF in H.
  destruct H as (H1 & H2 & H3 & H4 & H5 & H6 & H7 & H8 & H9 & H10 & H11 & H12 & H13).
  repeat split; auto. rewrite H2.
  pose proof (dops_const script gs dops sched) as Hd. cbv zeta in Hd.
  now rewrite Hd in H13.
Qed.

(* model facts about re-entering closeOnce.Do from inside its own body *)

(* cancel AFTER the teardown (defer c.cancelCtx() at the top of the once-body): Closed(c) is still false
   while Disconnected() runs, a CloseWith / write from there reaches the closed socket, fails and calls
   Close(): the teardown never finishes, Close never returns, every later closer is stuck too *)
Theorem with_cancel_after_teardown_reentrant_close_never_returns :
  exists script gs dops sched,
    forallb guarded dops = true /\
    let r := run (program (mkCfg true true false false) script gs) sched (cinit_d dops) in
    c_stuck (final_state r) = true /\ stuck_ev (events r) = true
    /\ has_ret (events r) = false              (* no Close call ever returned *)
    /\ dop_results (events r) = [].
Proof.
  exists [], [GClose; GClose], [DCloseWith], [1; 2; 0]. split; [reflexivity|].
  vm_compute. repeat split; reflexivity.
Qed.

(* an UNGUARDED Close() from Disconnected() on its own connection blocks on sync.Once in the code as it
   is, too (observed on the real code: the outer Close never returns); handlers must guard it *)
Theorem unguarded_close_from_teardown_never_returns :
  exists script gs sched,
    let r := run (program impl_cfg script gs) sched (cinit_d [DWrite; DRawClose]) in
    c_stuck (final_state r) = true /\ has_ret (events r) = false
    /\ dop_results (events r) = [DClosed].
Proof. exists [], [GClose], [1; 0]. vm_compute. repeat split; reflexivity. Qed.

(* ---------- the two guards are needed (model facts) ---------- *)

Theorem without_once_teardown_runs_twice :
  exists script gs sched,
    n_disc (events (run (program (mkCfg false true false true) script gs) sched cinit)) = 2.
Proof. exists [], [GClose; GClose], [1; 2]. vm_compute. reflexivity. Qed.

Theorem without_recover_the_process_dies :
  exists script gs sched,
    let r := run (program (mkCfg true false false true) script gs) sched cinit in
    died (events r) = true /\ c_died (final_state r) = true
    /\ handled (events r) = [0; 1]          (* the third packet is never handled *)
    /\ n_disc (events r) = 0.               (* and the session is never torn down *)
Proof.
  exists [HReturn; HPanic PString; HReturn], [GClose], [0; 0; 0; 0; 1].
  vm_compute. repeat split; reflexivity.
Qed.

(* non-vacuity: a run of the code as it is with panics of every kind, 3 concurrent closers, a CloseWith,
   a write that starts after the teardown and the peer going away: all packets handled, every panic
   recovered, one teardown, the late write answers "closed"; checked over ALL 1680 schedules of a
   smaller program *)
Definition demo_script : list hkind :=
  [HPanic PError; HReturn; HPanic PString; HPanic PRuntime; HPanic PCustom; HReturn].
Definition demo_gs : list gor := [GClose; GCloseWith; GClose; GPeerClose; GWrite].
Definition demo_sched : list nat :=
  [0;0;0;0;0;0; 1; 2;2;2; 3; 4; 5;5;5; 0].

Example demo_run :
  let r := run (program impl_cfg demo_script demo_gs) demo_sched cinit in
  complete (remaining r) = true
  /\ handled (events r) = [0; 1; 2; 3; 4; 5] /\ recovered (events r) = [0; 2; 3; 4]
  /\ n_disc (events r) = 1 /\ n_first (events r) = 1
  /\ skipn 10 (events r) =
     [EDisc; ECloseRet 1 CFirst; ECwSkip 2; ECloseRet 3 CAlready;
      EWStart 5 true; EWRes 5 WClosed; ELoopExit; ECloseRet 0 CAlready].
Proof. vm_compute. repeat split; reflexivity. Qed.

(* the parent context is cancelled before anything closed the connection: a write and a CloseWith answer
   "closed" without tearing anything down, the next Close still runs the teardown, once *)
Example cancel_before_close :
  events (run (program impl_cfg [] [GCancel; GWrite; GCloseWith; GClose; GClose]) [1; 2; 3;3;3; 4; 5; 0] cinit)
  = [ECancel; EWStart 2 true; EWRes 2 WClosed; ECwSkip 3; EDisc; ECloseRet 4 CFirst; ECloseRet 5 CAlready;
     ELoopExit; ECloseRet 0 CAlready].
Proof. vm_compute. reflexivity. Qed.

(* a closeKnown that first answers ErrClosedConn when Closed(c) (a tempting fast path, not in the code):
   after a parent cancel no close path ever runs the teardown *)
Theorem with_early_exit_teardown_never_runs :
  exists script gs sched,
    let r := run (program (mkCfg true true true true) script gs) sched cinit in
    complete (remaining r) = true /\ n_disc (events r) = 0 /\ c_closed (final_state r) = false.
Proof. exists [], [GCancel; GClose; GClose], [1; 2; 3; 0]. vm_compute. repeat split; reflexivity. Qed.

Definition small_ok (s : cst) (evs : list event) : bool :=
  Nat.eqb (n_disc evs) 1 && negb (died evs) && negb (c_died s)
  && (let '(ok, _, p) := scan evs in ok && match p with None => true | _ => false end).

Example small_all_schedules :
  check_all_schedules (program impl_cfg [HPanic PError] [GClose; GWrite; GCloseWith]) cinit small_ok = true
  /\ Nat.eqb (length (all_schedules (program impl_cfg [HPanic PError] [GClose; GWrite; GCloseWith]))) (7 * 720) = true.
Proof. vm_compute. split; reflexivity. Qed.
