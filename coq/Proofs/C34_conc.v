(* C34 -- Quota.Blocked under every interleaving (Base/Conc.v): with lookup-or-create + Allow as one atomic
   step per caller, what each group sees is a sequential run of ONE bucket that started full, so
   C34_bucket_bound holds per group for every schedule; with the split variant it does not. *)
From Coq Require Import List ZArith NArith Bool Lia.
From Verif Require Import Base.Hex Base.Ip Base.Conc Model.Limiter Proofs.C34.
Import ListNotations.
Open Scope Z_scope.

(* bucket_run with the final bucket *)
Fixpoint brun (burst rnum rden : Z) (b : bucket) (ts : list Z) : bucket * list bool :=
  match ts with
  | [] => (b, [])
  | t :: r => let '(b', ok) := bucket_allow burst rnum rden b t in
              let '(b'', oks) := brun burst rnum rden b' r in (b'', ok :: oks)
  end.

Lemma brun_snd burst rnum rden : forall ts b, snd (brun burst rnum rden b ts) = bucket_run burst rnum rden b ts.
Proof.
  induction ts as [|t r IH]; intros b; cbn [brun bucket_run]; [reflexivity|].
  destruct (bucket_allow burst rnum rden b t) as [b' ok]. specialize (IH b').
  destruct (brun burst rnum rden b' r) as [b'' oks]. cbn [snd] in *. rewrite IH. reflexivity.
Qed.

Lemma brun_snoc burst rnum rden : forall ts b t,
  brun burst rnum rden b (ts ++ [t]) =
  (fst (bucket_allow burst rnum rden (fst (brun burst rnum rden b ts)) t),
   snd (brun burst rnum rden b ts) ++ [snd (bucket_allow burst rnum rden (fst (brun burst rnum rden b ts)) t)]).
Proof.
  induction ts as [|x r IH]; intros b t; cbn [app brun].
  - cbn [fst snd app]. destruct (bucket_allow burst rnum rden b t) as [b' ok]. reflexivity.
  - destruct (bucket_allow burst rnum rden b x) as [b' ok]. rewrite IH.
    destruct (brun burst rnum rden b' r) as [b'' oks]. cbn [fst snd app]. reflexivity.
Qed.

Lemma sorted_ge_snoc : forall ts t0 t, sorted_ge t0 ts -> (forall x, In x (t0 :: ts) -> x <= t) -> sorted_ge t0 (ts ++ [t]).
Proof.
  induction ts as [|x r IH]; intros t0 t Hs Hle; cbn [app sorted_ge].
  - split; [apply Hle; left; reflexivity|exact I].
  - destruct Hs as [H1 H2]. split; [exact H1|]. apply IH; [exact H2|]. intros y Hy. apply Hle. right. exact Hy.
Qed.

Lemma qlookup_set_same g b c : qlookup g (qset g b c) = Some b.
Proof.
  induction c as [|[k b0] r IH]; cbn [qset qlookup]; [rewrite N.eqb_refl; reflexivity|].
  destruct (N.eqb_spec k g) as [->|Hn]; cbn [qlookup]; [rewrite N.eqb_refl; reflexivity|].
  destruct (N.eqb_spec k g); [contradiction|exact IH].
Qed.

Lemma qlookup_set_other g g' b c : g' <> g -> qlookup g' (qset g b c) = qlookup g' c.
Proof.
  intros Hne. induction c as [|[k b0] r IH]; cbn [qset qlookup].
  - destruct (N.eqb_spec g g'); [congruence|reflexivity].
  - destruct (N.eqb_spec k g) as [->|Hn]; cbn [qlookup].
    + destruct (N.eqb_spec g g'); [congruence|reflexivity].
    + destruct (N.eqb_spec k g'); [reflexivity|exact IH].
Qed.

Lemma gtrace_app g a b : gtrace g (a ++ b) = gtrace g a ++ gtrace g b.
Proof.
  induction a as [|[[k t] ok] r IH]; [reflexivity|]. cbn [app gtrace]. destruct (k =? g)%N; [cbn [app]; f_equal|]; exact IH.
Qed.

Section AllSchedules.
Variables burst rnum rden : Z.
Hypothesis Hrnum : 0 <= rnum.
Hypothesis Hrden : 0 < rden.
Hypothesis Hburst : 0 <= burst.

(* what a group has seen is the sequential run of one bucket that started full at its first contact *)
Definition group_inv (s : qstate) (evs : list qevent) (g : N) : Prop :=
  match qlookup g (qcache s) with
  | None => gtrace g evs = []
  | Some b => exists t0,
      brun burst rnum rden (bucket_new burst rden t0) (map fst (gtrace g evs)) = (b, map snd (gtrace g evs)) /\
      sorted_ge t0 (map fst (gtrace g evs)) /\ t0 <= qclock s
  end.

Definition trace_ok (s : qstate) (evs : list qevent) : Prop :=
  (forall g t ok, In (g, t, ok) evs -> t <= qclock s) /\ forall g, group_inv s evs g.

Lemma blocked_step_ok g dt s evs : trace_ok s evs ->
  trace_ok (fst (blocked_step burst rnum rden g dt s)) (evs ++ snd (blocked_step burst rnum rden g dt s)).
Proof.
  intros [Hclk Hg]. unfold blocked_step.
  set (t := qclock s + Z.max 0 dt). assert (Ht : qclock s <= t) by (unfold t; lia).
  set (b := match qlookup g (qcache s) with Some b => b | None => bucket_new burst rden t end).
  destruct (bucket_allow burst rnum rden b t) as [b' ok] eqn:Ea. cbn [fst snd].
  split.
  - intros g1 t1 ok1 Hin. cbn [qclock]. apply in_app_or in Hin. destruct Hin as [Hin|Hin].
    + specialize (Hclk _ _ _ Hin). lia.
    + destruct Hin as [E|[]]. injection E as _ <- _. lia.
  - intros g1. unfold group_inv. cbn [qcache qclock]. rewrite gtrace_app. cbn [gtrace].
    destruct (N.eq_dec g1 g) as [->|Hne].
    + rewrite qlookup_set_same, N.eqb_refl. specialize (Hg g). unfold group_inv in Hg. unfold b in Ea.
      destruct (qlookup g (qcache s)) as [b0|] eqn:El.
      * destruct Hg as [t0 [Hrun [Hs Ht0]]]. exists t0. rewrite !map_app. cbn [map fst snd].
        rewrite brun_snoc, Hrun. cbn [fst snd]. rewrite Ea. cbn [fst snd]. split; [reflexivity|]. split; [|lia].
        apply sorted_ge_snoc; [exact Hs|]. intros x [<-|Hx]; [lia|].
        apply in_map_iff in Hx. destruct Hx as [[tx okx] [<- Hx]]. cbn [fst].
        assert (Hin : In (g, tx, okx) evs).
        { clear - Hx. induction evs as [|[[k t1] o1] r IH]; [contradiction|]. cbn [gtrace] in Hx.
          destruct (N.eqb_spec k g) as [->|]; [destruct Hx as [E|Hx]; [injection E as <- <-; left; reflexivity|right; apply IH; exact Hx]|right; apply IH; exact Hx]. }
        specialize (Hclk _ _ _ Hin). lia.
      * rewrite Hg. cbn [app map fst snd]. exists t. cbn [brun]. rewrite Ea. split; [reflexivity|]. split; [|lia].
        cbn [sorted_ge]. split; [lia|exact I].
    + rewrite (qlookup_set_other g g1 b' _ Hne). replace (g =? g1)%N with false by (symmetry; apply N.eqb_neq; congruence).
      rewrite app_nil_r. specialize (Hg g1). unfold group_inv in Hg.
      destruct (qlookup g1 (qcache s)) as [b0|]; [|exact Hg].
      destruct Hg as [t0 [Hrun [Hs Ht0]]]. exists t0. split; [exact Hrun|]. split; [exact Hs|lia].
Qed.

(* callers: any number of goroutines, each any number of Blocked calls (group, dt) *)
Definition caller_threads (cs : list (list (N * Z))) : list (@thread qstate qevent) :=
  map (map (fun c => blocked_step burst rnum rden (fst c) (snd c))) cs.

Lemma trace_ok_all_schedules cs sched t0 :
  let r := run (caller_threads cs) sched (mkQ t0 []) in
  trace_ok (fst (fst r)) (snd (fst r)).
Proof.
  cbv zeta.
  pose proof (trace_inv_all_schedules trace_ok (caller_threads cs)) as H.
  specialize (H ltac:(
    intros a Ha s evs Hok; unfold caller_threads in Ha; apply in_concat in Ha;
    destruct Ha as [th [Hth Ha]]; apply in_map_iff in Hth; destruct Hth as [cl [<- _]];
    apply in_map_iff in Ha; destruct Ha as [c [<- _]]; apply blocked_step_ok; exact Hok)
    sched (mkQ t0 []) []).
  cbn [app] in H. apply H. split; [intros g t ok []|]. intros g. unfold group_inv. reflexivity.
Qed.

(* C34_bucket_bound lifted to every schedule: per group, granted in any interval <= burst + rate * length *)
Theorem quota_bound_all_schedules cs sched tstart g t0 t1 :
  t0 <= t1 ->
  let evs := snd (fst (run (caller_threads cs) sched (mkQ tstart []))) in
  granted_in t0 t1 (map fst (gtrace g evs)) (map snd (gtrace g evs)) * rden <= burst * rden + rnum * (t1 - t0).
Proof.
  intros H01 evs. destruct (trace_ok_all_schedules cs sched tstart) as [_ Hg]. specialize (Hg g).
  fold evs in Hg. unfold group_inv in Hg.
  destruct (qlookup g _) as [b|].
  - destruct Hg as [tf [Hrun [Hs _]]].
    assert (E : map snd (gtrace g evs) = bucket_run burst rnum rden (bucket_new burst rden tf) (map fst (gtrace g evs))).
    { rewrite <- brun_snd, Hrun. reflexivity. }
    rewrite E. apply (bucket_bound burst rnum rden Hrnum Hrden Hburst t0 t1 H01).
    + unfold binv, bucket_new. cbn [tok]. nia.
    + exact Hs.
  - rewrite Hg. cbn [map granted_in]. nia.
Qed.
End AllSchedules.

(* ---------- the split variant is refuted ---------- *)
Definition split_threads (burst rnum rden : Z) (g : N) (n : nat) : list (@thread q2state qevent) :=
  map (fun i => [split_lookup (N.of_nat i) g; split_allow burst rnum rden (N.of_nat i) g]) (seq 0 n).

(* burst 2, 3 callers of one group, all lookups before all allows: 3 granted at one instant *)
Theorem quota_split_refuted : exists sched,
  let evs := snd (fst (run (split_threads 2 1 1000000000000 7 3) sched (mkQ2 0 [] []))) in
  map snd (gtrace 7 evs) = [true; true; true] /\
  ~ (granted_in 0 0 (map fst (gtrace 7 evs)) (map snd (gtrace 7 evs)) * 1000000000000 <= 2 * 1000000000000 + 1 * (0 - 0)).
Proof. exists [0; 1; 2; 0; 1; 2]%nat. split; vm_compute; [reflexivity|congruence]. Qed.

(* non-vacuity: the same three callers with the atomic step, same kind of schedule: 2 granted *)
Example quota_atomic_nonvacuous :
  let cs := [[(7%N, 0)]; [(7%N, 0)]; [(7%N, 0)]; [(9%N, 5)]] in
  forallb (fun sched =>
     let evs := snd (fst (run (caller_threads 2 1 1000000000000 cs) sched (mkQ 0 []))) in
     (length (filter (fun x => x) (map snd (gtrace 7 evs))) =? 2)%nat && (length (gtrace 9 evs) =? 1)%nat)
    (all_schedules (caller_threads 2 1 1000000000000 cs)) = true /\
  length (all_schedules (caller_threads 2 1 1000000000000 cs)) = 24%nat.
Proof. split; vm_compute; reflexivity. Qed.
