From Verif Require Import Model.TryList.
