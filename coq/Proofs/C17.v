(* C17 — proofs about Model/TryList.v: the try cursor (nextServerToTry) and virtual-host cleaning. *)
From Coq Require Import List NArith Bool Arith Lia.
From Verif Require Import Base.Hex Base.Text Model.TryList.
Import ListNotations.
Open Scope N_scope.

(* ---------- small facts ---------- *)

Lemma beq_bytes_refl a : beq_bytes a a = true.
Proof. apply beq_bytes_eq. reflexivity. Qed.

Lemma beq_bytes_false a b : beq_bytes a b = false <-> a <> b.
Proof.
  split.
  - intros H E. subst. rewrite beq_bytes_refl in H. discriminate.
  - intro H. destruct (beq_bytes a b) eqn:E; [|reflexivity]. apply beq_bytes_eq in E. contradiction.
Qed.

Lemma same_true o n : same o n = true <-> o = Some n.
Proof.
  destruct o as [x|]; simpl.
  - rewrite beq_bytes_eq. split; [intros ->; reflexivity | intro H; inversion H; reflexivity].
  - split; discriminate.
Qed.

Lemma same_false o n : same o n = false <-> o <> Some n.
Proof.
  split.
  - intros H E. apply same_true in E. congruence.
  - intro H. destruct (same o n) eqn:E; [|reflexivity]. apply same_true in E. contradiction.
Qed.

(* the exclusion test as a proposition *)
Definition Excl (current in_flight failed : option bytes) (n : bytes) : Prop :=
  current = Some n \/ in_flight = Some n \/ failed = Some n.

Lemma excluded_true st cur n :
  excluded st cur n = true <-> Excl (connected st) (inflight st) cur n.
Proof.
  unfold excluded, Excl. rewrite !orb_true_iff, !same_true. tauto.
Qed.

Lemma excluded_false st cur n :
  excluded st cur n = false <-> ~ Excl (connected st) (inflight st) cur n.
Proof.
  rewrite <- excluded_true. destruct (excluded st cur n); split; congruence.
Qed.

(* ---------- the loop ---------- *)

(* impl-level: what [scan] finds, in terms of listed names *)
Lemma scan_some reg ex : forall l i ti ti' j s,
  scan reg ex l i ti = (ti', Some (j, s)) ->
  exists k n, j = (i + k)%nat /\ ti' = j /\ nth_error l k = Some n /\ ex n = false /\
    find_server reg n = Some s /\
    forall k' m, (k' < k)%nat -> nth_error l k' = Some m -> ex m = true \/ find_server reg m = None.
Proof.
  induction l as [|n r IH]; intros i ti ti' j s H; simpl in H; [discriminate|].
  destruct (ex n) eqn:En.
  - apply IH in H. destruct H as (k & n' & Hj & Ht & Hn & He & Hf & Hall).
    exists (S k), n'. split; [lia|]. split; [lia|]. split; [exact Hn|]. split; [exact He|]. split; [exact Hf|].
    intros k' m Hk Hm. destruct k' as [|k']; simpl in Hm.
    + inversion Hm; subst. left. assumption.
    + apply (Hall k' m); [lia|assumption].
  - destruct (find_server reg n) as [s0|] eqn:Ef.
    + inversion H; subst. exists O, n. split; [lia|]. split; [reflexivity|]. split; [reflexivity|].
      split; [exact En|]. split; [exact Ef|].
      intros k' m Hk. lia.
    + apply IH in H. destruct H as (k & n' & Hj & Ht & Hn & He & Hf & Hall).
      exists (S k), n'. split; [lia|]. split; [lia|]. split; [exact Hn|]. split; [exact He|]. split; [exact Hf|].
      intros k' m Hk Hm. destruct k' as [|k']; simpl in Hm.
      * inversion Hm; subst. right. assumption.
      * apply (Hall k' m); [lia|assumption].
Qed.

Lemma scan_none reg ex : forall l i ti ti',
  scan reg ex l i ti = (ti', None) ->
  (forall k m, nth_error l k = Some m -> ex m = true \/ find_server reg m = None) /\
  (ti' = ti \/ (i <= ti')%nat).
Proof.
  induction l as [|n r IH]; intros i ti ti' H; simpl in H.
  - inversion H; subst. split; [|left; reflexivity]. intros [|k] m Hm; discriminate.
  - destruct (ex n) eqn:En.
    + apply IH in H. destruct H as [Hall Ht]. split.
      * intros [|k] m Hm; simpl in Hm; [inversion Hm; subst; left; assumption | eauto].
      * destruct Ht; [left; assumption | right; lia].
    + destruct (find_server reg n) eqn:Ef; [discriminate|].
      apply IH in H. destruct H as [Hall Ht]. split.
      * intros [|k] m Hm; simpl in Hm; [inversion Hm; subst; right; assumption | eauto].
      * right. destruct Ht; lia.
Qed.

Lemma scan_none_conv reg ex : forall l i ti,
  (forall k m, nth_error l k = Some m -> ex m = true \/ find_server reg m = None) ->
  snd (scan reg ex l i ti) = None.
Proof.
  induction l as [|n r IH]; intros i ti H; simpl; [reflexivity|].
  destruct (H O n eq_refl) as [E|E]; rewrite E.
  - apply IH. intros k m Hm. apply (H (S k) m Hm).
  - destruct (ex n); apply IH; intros k m Hm; apply (H (S k) m Hm).
Qed.

Lemma scan_cursor_ge reg ex : forall l i ti,
  (ti <= i)%nat -> (ti <= fst (scan reg ex l i ti))%nat.
Proof.
  induction l as [|n r IH]; intros i ti H; simpl; [lia|].
  destruct (ex n).
  - apply IH. lia.
  - destruct (find_server reg n); simpl; [lia|].
    specialize (IH (S i) i). lia.
Qed.

(* ---------- the list that is scanned ---------- *)

Definition wf_state (cfg : config) (vhost : bytes) (st : pstate) : Prop :=
  cache st = [] \/ cache st = candidates cfg vhost.

Lemma init_wf cfg vhost : wf_state cfg vhost init_state.
Proof. left. reflexivity. Qed.

(* under wf_state, [next] scans [candidates] from the cursor *)
Lemma to_scan_wf cfg vhost st : wf_state cfg vhost st -> to_scan cfg vhost st = candidates cfg vhost.
Proof.
  unfold wf_state, to_scan, remembered, candidates. intros [H|H]; rewrite H.
  - reflexivity.
  - destruct (lookup_forced (clean vhost) (forced cfg)) eqn:El.
    + destruct (try_list cfg); reflexivity.
    + reflexivity.
Qed.

Lemma next_unfold cfg vhost reg st cur :
  wf_state cfg vhost st ->
  next cfg vhost reg st cur =
    match candidates cfg vhost with
    | [] => (mkP (remembered cfg vhost st) (cursor st) (connected st) (inflight st), None)
    | c2 =>
      (mkP c2 (fst (scan reg (excluded st cur) (skipn (cursor st) c2) (cursor st) (cursor st)))
           (connected st) (inflight st),
       snd (scan reg (excluded st cur) (skipn (cursor st) c2) (cursor st) (cursor st)))
    end.
Proof. intro H. unfold next. rewrite (to_scan_wf _ _ _ H). reflexivity. Qed.

Lemma remembered_empty cfg vhost st :
  wf_state cfg vhost st -> candidates cfg vhost = [] -> remembered cfg vhost st = [].
Proof.
  unfold wf_state, remembered, candidates. intros [H|H] Ec; rewrite H.
  - destruct (lookup_forced (clean vhost) (forced cfg)); [reflexivity | discriminate].
  - rewrite Ec. destruct (lookup_forced (clean vhost) (forced cfg)); [reflexivity | discriminate].
Qed.

Lemma next_wf cfg vhost reg st cur :
  wf_state cfg vhost st -> wf_state cfg vhost (fst (next cfg vhost reg st cur)).
Proof.
  intro Hwf. rewrite (next_unfold _ _ _ _ _ Hwf).
  destruct (candidates cfg vhost) eqn:Ec.
  - simpl. left. simpl. apply remembered_empty; assumption.
  - simpl. right. simpl. symmetry. exact Ec.
Qed.

Lemma step_wf cfg vhost st o :
  wf_state cfg vhost st -> wf_state cfg vhost (fst (step cfg vhost st o)).
Proof.
  intro Hwf. destruct o as [reg failed|s| |s]; simpl.
  - pose proof (next_wf cfg vhost reg st failed Hwf) as H.
    destruct (next cfg vhost reg st failed) as [st' r]. exact H.
  - exact Hwf.
  - exact Hwf.
  - exact Hwf.
Qed.

(* ---------- main characterisation (impl level: exclusion by listed name) ---------- *)

Lemma nth_error_skipn {A} (l : list A) c k : nth_error (skipn c l) k = nth_error l (c + k).
Proof.
  revert l. induction c as [|c IH]; intros l; simpl; [reflexivity|].
  destruct l as [|x l]; [destruct k; reflexivity | apply IH].
Qed.

Lemma next_some_impl cfg vhost reg st cur st' j s :
  wf_state cfg vhost st ->
  next cfg vhost reg st cur = (st', Some (j, s)) ->
  exists n, (cursor st <= j)%nat /\ cursor st' = j /\
    nth_error (candidates cfg vhost) j = Some n /\
    ~ Excl (connected st) (inflight st) cur n /\ find_server reg n = Some s /\
    forall j' m, (cursor st <= j' < j)%nat -> nth_error (candidates cfg vhost) j' = Some m ->
      Excl (connected st) (inflight st) cur m \/ find_server reg m = None.
Proof.
  intros Hwf H. rewrite (next_unfold _ _ _ _ _ Hwf) in H.
  destruct (candidates cfg vhost) as [|c0 cl] eqn:Ec; [inversion H|]. cbv beta iota zeta in H.
  destruct (scan reg (excluded st cur) (skipn (cursor st) (c0 :: cl)) (cursor st) (cursor st)) as [ti r] eqn:Es.
  simpl in H. inversion H; subst. clear H.
  apply scan_some in Es. destruct Es as (k & n & Hj & Ht & Hn & He & Hf & Hall).
  exists n. rewrite nth_error_skipn in Hn. subst j. simpl.
  split; [lia|]. split; [exact Ht|]. split; [exact Hn|].
  split; [apply excluded_false; exact He|]. split; [exact Hf|].
  intros j' m Hr Hm.
  destruct (Hall (j' - cursor st)%nat m) as [E|E].
  - lia.
  - rewrite nth_error_skipn. replace (cursor st + (j' - cursor st))%nat with j' by lia. assumption.
  - left. apply excluded_true. assumption.
  - right. assumption.
Qed.

Lemma next_cursor_monotone cfg vhost reg st cur :
  (cursor st <= cursor (fst (next cfg vhost reg st cur)))%nat.
Proof.
  unfold next. destruct (to_scan cfg vhost st) as [|c0 cl].
  - simpl. apply Nat.le_refl.
  - simpl. apply scan_cursor_ge. apply Nat.le_refl.
Qed.

Lemma next_none_impl cfg vhost reg st cur st' :
  wf_state cfg vhost st ->
  next cfg vhost reg st cur = (st', None) ->
  (forall j m, (cursor st <= j)%nat -> nth_error (candidates cfg vhost) j = Some m ->
      Excl (connected st) (inflight st) cur m \/ find_server reg m = None) /\
  (cursor st <= cursor st')%nat.
Proof.
  intros Hwf H. split.
  2:{ pose proof (next_cursor_monotone cfg vhost reg st cur) as Hm. rewrite H in Hm. exact Hm. }
  rewrite (next_unfold _ _ _ _ _ Hwf) in H.
  destruct (candidates cfg vhost) as [|c0 cl] eqn:Ec.
  - intros [|j] m _ Hm; discriminate.
  - cbv beta iota zeta in H.
    destruct (scan reg (excluded st cur) (skipn (cursor st) (c0 :: cl)) (cursor st) (cursor st)) as [ti r] eqn:Es.
    simpl in H. inversion H; subst. clear H.
    apply scan_none in Es. destruct Es as [Hall _].
    intros j m Hj Hm. destruct (Hall (j - cursor st)%nat m) as [E|E].
    + rewrite nth_error_skipn. replace (cursor st + (j - cursor st))%nat with j by lia. assumption.
    + left. apply excluded_true. assumption.
    + right. assumption.
Qed.

Lemma next_none_conv cfg vhost reg st cur :
  wf_state cfg vhost st ->
  (forall j m, (cursor st <= j)%nat -> nth_error (candidates cfg vhost) j = Some m ->
      Excl (connected st) (inflight st) cur m \/ find_server reg m = None) ->
  snd (next cfg vhost reg st cur) = None.
Proof.
  intros Hwf Hall. rewrite (next_unfold _ _ _ _ _ Hwf).
  destruct (candidates cfg vhost) as [|c0 cl] eqn:Ec; [reflexivity|].
  simpl. apply scan_none_conv. intros k m Hm. rewrite nth_error_skipn in Hm.
  destruct (Hall (cursor st + k)%nat m) as [E|E]; [lia|assumption| |].
  - left. apply excluded_true. assumption.
  - right. assumption.
Qed.

(* ---------- the loaded-configuration premise ---------- *)

Lemma consistent_spec reg l :
  consistent reg l = true ->
  forall n s, In n l -> find_server reg n = Some s -> s = n.
Proof.
  unfold consistent. rewrite forallb_forall. intros H n s Hin Hf.
  specialize (H n Hin). rewrite Hf in H. apply beq_bytes_eq in H. exact H.
Qed.

(* Eligibility of a listed name, server identity level *)
Definition Eligible (reg : list bytes) (current in_flight failed : option bytes) (m : bytes) : Prop :=
  exists s, find_server reg m = Some s /\ ~ Excl current in_flight failed s.

Lemma not_eligible_iff reg c f x m :
  (forall s, find_server reg m = Some s -> s = m) ->
  (~ Eligible reg c f x m <-> (Excl c f x m \/ find_server reg m = None)).
Proof.
  intro Hc. unfold Eligible. split.
  - intro H. destruct (find_server reg m) as [s|] eqn:Ef; [|right; reflexivity].
    left. pose proof (Hc s eq_refl) as ->.
    destruct (same c m || same f m || same x m) eqn:E.
    + unfold Excl. rewrite !orb_true_iff, !same_true in E. tauto.
    + exfalso. apply H. exists m. split; [reflexivity|]. intro HE.
      unfold Excl in HE. rewrite <- !same_true, <- !orb_true_iff, orb_assoc in HE. congruence.
  - intros [He|Hn] [s [Hf Hne]].
    + pose proof (Hc s Hf) as ->. contradiction.
    + congruence.
Qed.

(* ---------- first_eligible (judge's predicate) and scan agree under the premise ---------- *)

Lemma eligible_impl reg ex n :
  (forall s, find_server reg n = Some s -> s = n) ->
  eligible reg ex n = negb (ex n) && match find_server reg n with Some _ => true | None => false end.
Proof.
  intro Hc. unfold eligible. destruct (find_server reg n) as [s|] eqn:Ef.
  - rewrite (Hc s eq_refl). rewrite andb_true_r. reflexivity.
  - rewrite andb_false_r. reflexivity.
Qed.

Lemma first_eligible_scan reg ex : forall l i ti from,
  (from <= i)%nat ->
  (forall n s, In n l -> find_server reg n = Some s -> s = n) ->
  first_eligible reg ex l i from = snd (scan reg ex l i ti).
Proof.
  induction l as [|n r IH]; intros i ti from Hle Hc; simpl; [reflexivity|].
  assert (Hl : Nat.leb from i = true) by (apply Nat.leb_le; exact Hle).
  rewrite Hl. simpl.
  rewrite (eligible_impl reg ex n (fun s => Hc n s (or_introl eq_refl))).
  destruct (ex n); simpl.
  - apply IH; [lia|]. intros; eapply Hc; [right|]; eassumption.
  - destruct (find_server reg n) as [s|]; simpl; [reflexivity|].
    apply IH; [lia|]. intros; eapply Hc; [right|]; eassumption.
Qed.

Lemma first_eligible_skip reg ex : forall c l i from,
  (i + c <= from)%nat ->
  first_eligible reg ex l i from = first_eligible reg ex (skipn c l) (i + c) from.
Proof.
  induction c as [|c IH]; intros l i from H; simpl.
  - rewrite Nat.add_0_r. reflexivity.
  - destruct l as [|n r]; simpl.
    + reflexivity.
    + assert (Hl : Nat.leb from i = false) by (apply Nat.leb_gt; lia).
      rewrite Hl. simpl. rewrite (IH r (S i) from) by lia.
      replace (S i + c)%nat with (i + S c)%nat by lia. reflexivity.
Qed.

Lemma in_skipn {A} (x : A) c l : In x (skipn c l) -> In x l.
Proof.
  revert l. induction c as [|c IH]; intros l H; simpl in H; [assumption|].
  destruct l; [assumption|]. right. apply IH. assumption.
Qed.

(* ---------- histories: the model satisfies the judge's predicate ---------- *)

Definition ex_of (s : sstate) (failed : option bytes) : bytes -> bool :=
  fun n => same (s_connected s) n || same (s_inflight s) n || same failed n.

Lemma scan_ext reg ex ex' : (forall n, ex n = ex' n) ->
  forall l i ti, scan reg ex l i ti = scan reg ex' l i ti.
Proof.
  intros He. induction l as [|n l IH]; intros i ti; simpl; [reflexivity|].
  rewrite <- (He n). destruct (ex n); [apply IH|].
  destruct (find_server reg n); [reflexivity | apply IH].
Qed.

Lemma holds_step_model cfg vhost st s o :
  wf_state cfg vhost st ->
  connected st = s_connected s -> inflight st = s_inflight s ->
  (match o with ONext reg _ => consistent reg (candidates cfg vhost) = true | _ => True end) ->
  holds_step (candidates cfg vhost) s (cursor st) o (snd (step cfg vhost st o)) = true.
Proof.
  intros Hwf Hc Hf Hcons. destruct o as [reg failed|c| |f]; simpl.
  - (* ONext *)
    pose proof (next_unfold cfg vhost reg st failed Hwf) as Hn.
    pose proof (next_cursor_monotone cfg vhost reg st failed) as Hmono.
    destruct (next cfg vhost reg st failed) as [st' r] eqn:En. simpl in Hmono. simpl.
    assert (Hex : forall n, (same (s_connected s) n || same (s_inflight s) n || same failed n)
                            = excluded st failed n).
    { intro n. unfold excluded. rewrite Hc, Hf. reflexivity. }
    destruct (candidates cfg vhost) as [|c0 cl] eqn:Ec.
    + inversion Hn; subst. simpl. apply Nat.leb_le. apply Nat.le_refl.
    + rewrite (first_eligible_skip reg _ (cursor st) (c0 :: cl) 0 (cursor st)) by lia.
      simpl plus.
      rewrite (first_eligible_scan reg _ (skipn (cursor st) (c0 :: cl)) (cursor st) (cursor st) (cursor st)
                 (le_n _)).
      2:{ intros n s0 Hin Hfs. apply (consistent_spec reg (c0 :: cl) Hcons n s0); [|assumption].
          eapply in_skipn. eassumption. }
      rewrite (scan_ext reg _ (excluded st failed) Hex).
      cbv beta iota zeta in Hn. inversion Hn; subst. simpl.
      destruct (scan reg (excluded st failed) (skipn (cursor st) (c0 :: cl)) (cursor st) (cursor st)) as [ti r0] eqn:Es.
      simpl. simpl in Hmono.
      destruct r0 as [[j sv]|]; simpl.
      * apply scan_some in Es. destruct Es as (k & n & Hj & Ht & _). subst.
        rewrite beq_bytes_refl. simpl. apply Nat.eqb_refl.
      * apply Nat.leb_le. exact Hmono.
  - reflexivity.
  - reflexivity.
  - apply Nat.eqb_refl.
Qed.

Lemma step_tracks cfg vhost st s o :
  connected st = s_connected s -> inflight st = s_inflight s ->
  connected (fst (step cfg vhost st o)) = s_connected (s_step s o) /\
  inflight (fst (step cfg vhost st o)) = s_inflight (s_step s o) /\
  cursor (fst (step cfg vhost st o)) = o_cursor (snd (step cfg vhost st o)).
Proof.
  intros Hc Hf. destruct o as [reg failed|c| |f]; simpl.
  - unfold next. destruct (to_scan cfg vhost st) as [|c0 cl]; simpl; auto.
  - auto.
  - auto.
  - auto.
Qed.

Lemma run_holds cfg vhost : forall ops st s,
  wf_state cfg vhost st ->
  connected st = s_connected s -> inflight st = s_inflight s ->
  consistent_ops (candidates cfg vhost) ops = true ->
  holds_history (candidates cfg vhost) s (cursor st) ops (run cfg vhost st ops) = true.
Proof.
  induction ops as [|o ops IH]; intros st s Hwf Hc Hf Hcons; simpl; [reflexivity|].
  simpl in Hcons. apply andb_true_iff in Hcons. destruct Hcons as [Ho Hrest].
  pose proof (holds_step_model cfg vhost st s o Hwf Hc Hf) as Hs.
  pose proof (step_tracks cfg vhost st s o Hc Hf) as (Hc' & Hf' & Hcur).
  pose proof (step_wf cfg vhost st o Hwf) as Hwf'.
  destruct (step cfg vhost st o) as [st' ob] eqn:Est. simpl in *.
  rewrite Hs.
  - simpl. rewrite <- Hcur. apply IH; assumption.
  - destruct o; auto.
Qed.

(* ---------- cleaning ---------- *)

Lemma cut_nul_app_nul h r : forallb (fun b => negb (b =? 0)) h = true -> cut_nul (h ++ 0 :: r) = h.
Proof.
  induction h as [|c h IH]; simpl; intro H; [reflexivity|].
  apply andb_true_iff in H. destruct H as [Hc Hr]. apply negb_true_iff in Hc. rewrite Hc.
  f_equal. apply IH. exact Hr.
Qed.

Lemma cut_nul_id s : forallb (fun b => negb (b =? 0)) s = true -> cut_nul s = s.
Proof.
  induction s as [|c s IH]; simpl; intro H; [reflexivity|].
  apply andb_true_iff in H. destruct H as [Hc Hr]. apply negb_true_iff in Hc. rewrite Hc.
  f_equal. apply IH. exact Hr.
Qed.

Lemma cut_nul_app h r : forallb (fun b => negb (b =? 0)) h = true -> cut_nul (h ++ r) = h ++ cut_nul r.
Proof.
  induction h as [|c h IH]; simpl; intro H; [reflexivity|].
  apply andb_true_iff in H. destruct H as [Hc Hr]. apply negb_true_iff in Hc. rewrite Hc.
  f_equal. apply IH. exact Hr.
Qed.

Lemma starts3_false_head c r : (c =? 47) = false -> starts3 (c :: r) = false.
Proof. intro H. unfold starts3. destruct r as [|b [|d r]]; try reflexivity. rewrite H. reflexivity. Qed.

Lemma cut_sep3_id s : forallb (fun b => negb (b =? 47)) s = true -> cut_sep3 s = s.
Proof.
  induction s as [|c s IH]; intro H; [reflexivity|].
  simpl in H. apply andb_true_iff in H. destruct H as [Hc Hr]. apply negb_true_iff in Hc.
  change (cut_sep3 (c :: s)) with (if starts3 (c :: s) then [] else c :: cut_sep3 s).
  rewrite (starts3_false_head c s Hc). f_equal. apply IH. exact Hr.
Qed.

Lemma cut_sep3_app h r :
  forallb (fun b => negb (b =? 47)) h = true -> starts3 r = true -> cut_sep3 (h ++ r) = h.
Proof.
  induction h as [|c h IH]; intros H Hs.
  - simpl. destruct r as [|c r]; [reflexivity|].
    change (cut_sep3 (c :: r)) with (if starts3 (c :: r) then [] else c :: cut_sep3 r).
    rewrite Hs. reflexivity.
  - simpl in H. apply andb_true_iff in H. destruct H as [Hc Hr]. apply negb_true_iff in Hc.
    change (cut_sep3 ((c :: h) ++ r)) with (if starts3 (c :: h ++ r) then [] else c :: cut_sep3 (h ++ r)).
    rewrite (starts3_false_head c (h ++ r) Hc). f_equal. apply IH; assumption.
Qed.

Lemma trim_left_dots_id s : (nth 0 s 0 =? 46) = false -> trim_left_dots s = s.
Proof. destruct s as [|c s]; simpl; intro H; [reflexivity|]. rewrite H. reflexivity. Qed.

Lemma nth0_rev_last (s : bytes) : nth 0 (rev s) 0 = last s 0.
Proof.
  induction s as [|c s IH]; [reflexivity|].
  simpl rev. destruct s as [|d s].
  - reflexivity.
  - change (last (c :: d :: s) 0) with (last (d :: s) 0). rewrite <- IH.
    simpl rev. destruct (rev s ++ [d]) eqn:E.
    + destruct (rev s); discriminate.
    + reflexivity.
Qed.

Lemma trim_dots_id s :
  (nth 0 s 0 =? 46) = false -> (last s 0 =? 46) = false -> trim_dots s = s.
Proof.
  intros H1 H2. unfold trim_dots. rewrite (trim_left_dots_id s H1).
  rewrite trim_left_dots_id; [apply rev_involutive|]. rewrite nth0_rev_last. exact H2.
Qed.

Lemma last_index_of_none c s : has c s = false -> last_index_of c s = None.
Proof.
  unfold has. induction s as [|x s IH]; simpl; intro H; [reflexivity|].
  apply orb_false_iff in H. destruct H as [Hx Hs]. rewrite (IH Hs).
  rewrite N.eqb_sym. rewrite Hx. reflexivity.
Qed.

Lemma last_index_of_app c h r :
  has c r = false -> last_index_of c (h ++ c :: r) = Some (length h).
Proof.
  intro Hr. induction h as [|x h IH]; simpl.
  - rewrite (last_index_of_none c r Hr). rewrite N.eqb_refl. reflexivity.
  - rewrite IH. reflexivity.
Qed.

Lemma has_app c a b : has c (a ++ b) = has c a || has c b.
Proof. unfold has. apply existsb_app. Qed.

Lemma has_false_of_forall (p : N -> bool) c s :
  p c = false -> forallb p s = true -> has c s = false.
Proof.
  intros Hp. unfold has. induction s as [|x s IH]; simpl; intro H; [reflexivity|].
  apply andb_true_iff in H. destruct H as [Hx Hs]. rewrite (IH Hs), orb_false_r.
  destruct (N.eqb_spec c x); [subst; congruence | reflexivity].
Qed.

Lemma forallb_impl {A} (p q : A -> bool) l :
  (forall x, p x = true -> q x = true) -> forallb p l = true -> forallb q l = true.
Proof.
  intros Hpq. induction l as [|x l IH]; simpl; intro H; [reflexivity|].
  apply andb_true_iff in H. destruct H as [Hx Hl]. rewrite (Hpq x Hx), (IH Hl). reflexivity.
Qed.

Lemma is_sep_cases b : negb (is_sep b) = true ->
  (b =? 0) = false /\ (b =? 47) = false /\ (b =? 58) = false /\ (b =? 91) = false /\ (b =? 93) = false.
Proof.
  unfold is_sep. rewrite negb_true_iff, !orb_false_iff. tauto.
Qed.

Record plain (h : bytes) : Prop := mkPlain {
  pl_nul : forallb (fun b => negb (b =? 0)) h = true;
  pl_slash : forallb (fun b => negb (b =? 47)) h = true;
  pl_colon : has 58 h = false;
  pl_lbr : has 91 h = false;
  pl_rbr : has 93 h = false;
  pl_first : (nth 0 h 0 =? 46) = false;
  pl_last : (last h 0 =? 46) = false
}.

Lemma plain_host_plain h : plain_host h = true -> plain h.
Proof.
  unfold plain_host. rewrite !andb_true_iff, !negb_true_iff. intros [[Hs Hf] Hl].
  constructor; try assumption.
  - eapply forallb_impl; [|exact Hs]. intros x Hx. apply is_sep_cases in Hx.
    apply negb_true_iff. tauto.
  - eapply forallb_impl; [|exact Hs]. intros x Hx. apply is_sep_cases in Hx.
    apply negb_true_iff. tauto.
  - apply (has_false_of_forall (fun b => negb (is_sep b))); [reflexivity | exact Hs].
  - apply (has_false_of_forall (fun b => negb (is_sep b))); [reflexivity | exact Hs].
  - apply (has_false_of_forall (fun b => negb (is_sep b))); [reflexivity | exact Hs].
Qed.

Lemma nth0_plain_not_lbr h : has 91 h = false -> (nth 0 h 0 =? 91) = false.
Proof.
  destruct h as [|c h]; simpl; intro H; [reflexivity|].
  unfold has in H. simpl in H. apply orb_false_iff in H. destruct H as [H _].
  rewrite N.eqb_sym. exact H.
Qed.

Lemma host_str_plain h : plain h -> host_str h = h.
Proof.
  intros [_ _ Hc _ _ _ _]. unfold host_str, split_host_port.
  rewrite (last_index_of_none 58 h Hc). reflexivity.
Qed.

Lemma clear_plain h : plain h -> clear_virtual_host h = h.
Proof.
  intros [Hn Hs _ _ _ Hf Hl]. unfold clear_virtual_host.
  rewrite (cut_nul_id h Hn), (cut_sep3_id h Hs). apply trim_dots_id; assumption.
Qed.

Lemma clean_plain h : plain h -> clean h = go_to_lower h.
Proof. intro H. unfold clean. rewrite (clear_plain h H), (host_str_plain h H). reflexivity. Qed.

Lemma digit_props r : forallb is_digit r = true ->
  forallb (fun b => negb (b =? 0)) r = true /\ forallb (fun b => negb (b =? 47)) r = true /\
  has 58 r = false /\ has 91 r = false /\ has 93 r = false /\ forallb (fun b => negb (b =? 46)) r = true.
Proof.
  intro H.
  assert (D : forall x, is_digit x = true -> (48 <= x <= 57)).
  { intros x Hx. unfold is_digit in Hx. apply andb_true_iff in Hx. destruct Hx as [A B].
    apply N.leb_le in A. apply N.leb_le in B. lia. }
  repeat split.
  - eapply forallb_impl; [|exact H]. intros x Hx. apply D in Hx. apply negb_true_iff, N.eqb_neq. lia.
  - eapply forallb_impl; [|exact H]. intros x Hx. apply D in Hx. apply negb_true_iff, N.eqb_neq. lia.
  - apply (has_false_of_forall is_digit); [reflexivity|exact H].
  - apply (has_false_of_forall is_digit); [reflexivity|exact H].
  - apply (has_false_of_forall is_digit); [reflexivity|exact H].
  - eapply forallb_impl; [|exact H]. intros x Hx. apply D in Hx. apply negb_true_iff, N.eqb_neq. lia.
Qed.

Lemma forallb_app_true {A} (p : A -> bool) a b :
  forallb p a = true -> forallb p b = true -> forallb p (a ++ b) = true.
Proof. intros Ha Hb. rewrite forallb_app, Ha, Hb. reflexivity. Qed.

Lemma last_app_cons (a : bytes) x r d : last (a ++ x :: r) d = last (x :: r) d.
Proof.
  induction a as [|y a IH]; [reflexivity|].
  simpl app. destruct (a ++ x :: r) eqn:E.
  - destruct a; discriminate.
  - transitivity (last (n :: l) d); [reflexivity | exact IH].
Qed.

Lemma last_not_dot r x :
  (x =? 46) = false -> forallb (fun b => negb (b =? 46)) r = true -> (last (x :: r) 0 =? 46) = false.
Proof.
  revert x. induction r as [|y r IH]; intros x Hx Hr; [exact Hx|].
  simpl in Hr. apply andb_true_iff in Hr. destruct Hr as [Hy Hr]. apply negb_true_iff in Hy.
  change (last (x :: y :: r) 0) with (last (y :: r) 0). apply IH; assumption.
Qed.

Lemma firstn_app_exact {A} (a b : list A) : firstn (length a) (a ++ b) = a.
Proof. induction a; simpl; [destruct b; reflexivity | f_equal; assumption]. Qed.

Lemma skipn_app_exact {A} (a b : list A) : skipn (length a) (a ++ b) = b.
Proof. induction a; simpl; [reflexivity | assumption]. Qed.

Lemma clean_port h r : plain h -> forallb is_digit r = true -> clean (h ++ 58 :: r) = go_to_lower h.
Proof.
  intros [Hn Hs Hc Hl Hr Hf Hla] Hd.
  destruct (digit_props r Hd) as (Dn & Ds & Dc & Dl & Dr & Ddot).
  unfold clean, clear_virtual_host.
  rewrite cut_nul_id.
  2:{ apply forallb_app_true; [exact Hn|]. simpl. rewrite Dn. reflexivity. }
  rewrite cut_sep3_id.
  2:{ apply forallb_app_true; [exact Hs|]. simpl. rewrite Ds. reflexivity. }
  rewrite trim_dots_id.
  2:{ destruct h as [|c h]; [reflexivity | exact Hf]. }
  2:{ rewrite last_app_cons. apply last_not_dot; [reflexivity | exact Ddot]. }
  unfold host_str, split_host_port.
  rewrite (last_index_of_app 58 h r Dc).
  assert (H0 : (nth 0 (h ++ 58 :: r) 0 =? 91) = false).
  { destruct h as [|c h]; [reflexivity|]. simpl. apply (nth0_plain_not_lbr (c :: h) Hl). }
  rewrite H0. rewrite firstn_app_exact. rewrite Hc.
  rewrite !has_app. rewrite Hl, Hr. simpl.
  rewrite Dl, Dr. reflexivity.
Qed.

Lemma clean_nul h r : plain h -> clean (h ++ 0 :: r) = go_to_lower h.
Proof.
  intro Hp. pose proof (clean_plain h Hp) as E. unfold clean, clear_virtual_host in *.
  rewrite (cut_nul_app_nul h r (pl_nul h Hp)).
  rewrite (cut_nul_id h (pl_nul h Hp)) in E. exact E.
Qed.

Lemma starts3_cut_nul r : starts3 r = true -> starts3 (cut_nul r) = true.
Proof.
  destruct r as [|a [|b [|c r]]]; simpl; try discriminate. intro H.
  apply andb_true_iff in H. destruct H as [H Hc]. apply andb_true_iff in H. destruct H as [Ha Hb].
  apply N.eqb_eq in Ha. apply N.eqb_eq in Hb. apply N.eqb_eq in Hc. subst. reflexivity.
Qed.

Lemma clean_sep3 h r : plain h -> starts3 r = true -> clean (h ++ r) = go_to_lower h.
Proof.
  intros Hp Hs. pose proof (clean_plain h Hp) as E. unfold clean, clear_virtual_host in *.
  rewrite (cut_nul_app h r (pl_nul h Hp)).
  rewrite (cut_sep3_app h (cut_nul r) (pl_slash h Hp) (starts3_cut_nul r Hs)).
  rewrite (cut_nul_id h (pl_nul h Hp)), (cut_sep3_id h (pl_slash h Hp)) in E. exact E.
Qed.

Theorem clean_removes_suffixes h rest :
  plain_host h = true -> removable_suffix rest = true -> clean (h ++ rest) = go_to_lower h.
Proof.
  intros Hh Hr. apply plain_host_plain in Hh.
  destruct rest as [|c r]; simpl in Hr.
  - rewrite app_nil_r. apply clean_plain. exact Hh.
  - destruct (N.eqb_spec c 58) as [->|Hc58].
    + apply clean_port; assumption.
    + destruct (N.eqb_spec c 0) as [->|Hc0].
      * apply clean_nul. exact Hh.
      * apply clean_sep3; assumption.
Qed.

(* ASCII hosts: lowering keeps the shape, so cleaning is idempotent on them *)
Lemma lower_cp_ascii_eq c : c < 128 ->
  lower_cp c = if (65 <=? c) && (c <=? 90) then c + 32 else c.
Proof.
  intro Hc. unfold lower_cp, in_rng.
  destruct ((65 <=? c) && (c <=? 90)); [reflexivity|].
  assert (E2 : (192 <=? c) = false) by (apply N.leb_gt; lia).
  assert (E3 : (913 <=? c) = false) by (apply N.leb_gt; lia).
  assert (E4 : (1024 <=? c) = false) by (apply N.leb_gt; lia).
  assert (E5 : (1040 <=? c) = false) by (apply N.leb_gt; lia).
  rewrite E2, E3, E4, E5. reflexivity.
Qed.

Lemma lower_cp_ascii_cases c : c < 128 ->
  (65 <= c <= 90 /\ lower_cp c = c + 32) \/ ((c < 65 \/ 90 < c) /\ lower_cp c = c).
Proof.
  intro Hc. rewrite (lower_cp_ascii_eq c Hc).
  destruct (N.leb_spec 65 c); destruct (N.leb_spec c 90); simpl; [left|right|right|right]; lia.
Qed.

Lemma lower_cp_idem_ascii c : c < 128 -> lower_cp (lower_cp c) = lower_cp c.
Proof.
  intro Hc. destruct (lower_cp_ascii_cases c Hc) as [[Hr ->]|[Hr ->]].
  - destruct (lower_cp_ascii_cases (c + 32)) as [[Hr' E]|[_ E]]; [lia|lia|exact E].
  - destruct (lower_cp_ascii_cases c Hc) as [[Hr' E]|[_ E]]; [lia|exact E].
Qed.

(* lowering neither creates nor removes a byte that is a separator, a dot or below 'A' *)
Lemma lower_cp_eqb_nonletter c x : c < 128 -> (x < 65 \/ (90 < x < 97) \/ 122 < x) ->
  (lower_cp c =? x) = (c =? x).
Proof.
  intros Hc Hx. destruct (lower_cp_ascii_cases c Hc) as [[Hr ->]|[Hr ->]]; [|reflexivity].
  transitivity false; [apply N.eqb_neq; lia | symmetry; apply N.eqb_neq; lia].
Qed.
