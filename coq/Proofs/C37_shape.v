(* C37 — obligations about the translator output Gen/ConfigShape.v (regenerated from /repo on every run). *)
From Coq Require Import List NArith ZArith Bool String.
From Verif Require Import Base.Hex Model.ConfigValidate.
From Verif Require Model.ConfigShape Gen.ConfigShape.
Import ListNotations.
Open Scope string_scope.

(* The source text has the shape the model was transcribed from: today's code, i.e. with both fix commits
   (expected_sites true true). *)
Lemma shape_matches : Verif.Gen.ConfigShape.sites = Verif.Model.ConfigShape.expected_sites true true.
Proof. vm_compute. reflexivity. Qed.

(* name of the source site a clause id stands for *)
Definition clause_name (cl : clause) : string :=
  match cl with
  | HealthBind => "HealthBind" | BindEmpty => "BindEmpty" | BindInvalid => "BindInvalid"
  | QuotaOps => "QuotaOps" | QuotaBurst => "QuotaBurst" | QuotaMaxEntries => "QuotaMaxEntries"
  | TrustedProxies => "TrustedProxies"
  | BFNeedsBedrock => "BFNeedsBedrock" | BFNoServers => "BFNoServers" | BFBadName => "BFBadName"
  | BFDuplicate => "BFDuplicate" | BFUnregistered => "BFUnregistered" | BFFwdIncompatible => "BFFwdIncompatible"
  | BFFwdUnknown => "BFFwdUnknown" | BFKey => "BFKey"
  | LiteNoRoutes => "LiteNoRoutes" | RouteNoHost _ => "RouteNoHost" | RouteNoBackend _ => "RouteNoBackend"
  | RouteStrategy _ => "RouteStrategy" | RouteBackendParse _ _ => "RouteBackendParse"
  | ViaMode => "ViaMode" | ViaBind => "ViaBind" | ForwardingMode => "ForwardingMode"
  | ServerName => "ServerName" | ServerAddr => "ServerAddr" | TryUnknown => "TryUnknown"
  | ForcedUnknown => "ForcedUnknown" | ForcedCaseDup => "ForcedCaseDup"
  | CompressionLevel => "CompressionLevel" | CompressionThreshold => "CompressionThreshold"
  | BedBFNoServers => "BedBFNoServers" | BedBFBadName => "BedBFBadName" | BedBFDuplicate => "BedBFDuplicate"
  | WForwardingNone => "WForwardingNone" | WNoServers => "WNoServers" | WLevelZero => "WLevelZero"
  | WThresholdZero => "WThresholdZero" | Unmapped => "Unmapped"
  end.

Definition site_ids : list string := Verif.Model.ConfigShape.error_ids (Verif.Model.ConfigShape.expected_sites true true).
Definition known (cl : clause) : bool := existsb (String.eqb (clause_name cl)) site_ids.

Ltac piece := repeat match goal with |- context [if ?b then _ else _] => destruct b end; reflexivity.

Lemma forallb_app' : forall (A : Type) (f : A -> bool) a b, forallb f a = true -> forallb f b = true -> forallb f (a ++ b) = true.
Proof. intros. rewrite forallb_app, H, H0. reflexivity. Qed.

Lemma forallb_flat_map : forall (A B : Type) (f : B -> bool) (g : A -> list B) l,
  (forall x, forallb f (g x) = true) -> forallb f (flat_map g l) = true.
Proof. intros A B f g l H. induction l; cbn; [reflexivity|]. apply forallb_app'; auto. Qed.

Lemma known_bf_loop : forall reg names seen, forallb known (bf_loop reg seen names) = true.
Proof.
  intros reg names. induction names as [|n r IH]; intro seen; cbn [bf_loop]; [reflexivity|].
  destruct (negb (valid_name n)); [cbn [forallb]; rewrite IH; reflexivity|].
  destruct (mem_str (lower_ascii n) seen); [cbn [forallb]; rewrite IH; reflexivity|].
  apply forallb_app'; [destruct (mem_str _ reg); reflexivity | apply IH].
Qed.

Lemma known_bed_loop : forall names seen, forallb known (bed_bf_loop seen names) = true.
Proof.
  induction names as [|n r IH]; intro seen; cbn [bed_bf_loop]; [reflexivity|].
  destruct (negb (valid_name n)); [cbn [forallb]; rewrite IH; reflexivity|].
  destruct (mem_str (lower_ascii n) seen); [cbn [forallb]; rewrite IH; reflexivity | apply IH].
Qed.

Lemma known_backends : forall bs i j, forallb known (v_backends i j bs) = true.
Proof.
  induction bs as [|a r IH]; intros i j; cbn [v_backends]; [reflexivity|].
  apply forallb_app'; [destruct (lite_parse_fails a && negb (contains_params a)); reflexivity | apply IH].
Qed.

Lemma known_routes : forall rs i, forallb known (v_routes i rs) = true.
Proof.
  induction rs as [|r rest IH]; intro i; cbn [v_routes]; [reflexivity|].
  apply forallb_app'; [|apply IH]. unfold v_route.
  repeat apply forallb_app'.
  - destruct (r_hosts r); reflexivity.
  - destruct (r_backends r); reflexivity.
  - destruct (negb (mem_str (r_strategy r) strategies) && negb (beq_bytes (r_strategy r) [])); reflexivity.
  - apply forallb_flat_map. intro. apply known_backends.
Qed.

Lemma known_dup_loop : forall l seen, forallb known (dup_loop seen l) = true.
Proof.
  induction l as [|k r IH]; intro seen; cbn [dup_loop]; [reflexivity|].
  destruct (mem_str k seen); [cbn [forallb]; rewrite IH; reflexivity | apply IH].
Qed.

(* every clause id the transcription of the code can report is the id of an error site found in the source *)
Lemma impl_clauses_are_sites : forall c, forallb known (impl_validate c) = true.
Proof.
  intro c. unfold impl_validate, gen_validate, java_validate.
  repeat apply forallb_app'.
  - destruct (health_enabled c); [destruct (valid_host_port (health_bind c))|]; reflexivity.
  - unfold v_bind. piece.
  - unfold v_quota. destruct (q_enabled (q_conn c)); [|reflexivity]. repeat apply forallb_app'; piece.
  - unfold v_quota. destruct (q_enabled (q_login c)); [|reflexivity]. repeat apply forallb_app'; piece.
  - unfold v_trusted. piece.
  - unfold v_bf. destruct (negb (bf_enabled c)); [reflexivity|]. repeat apply forallb_app'.
    + piece.
    + destruct (bf_allowed c); reflexivity.
    + apply known_bf_loop.
    + piece.
    + piece.
  - destruct (lite_enabled c).
    + unfold v_lite. destruct (routes c) eqn:E; [reflexivity|]. rewrite <- E. apply known_routes.
    + unfold v_classic. repeat apply forallb_app'.
      * unfold v_via. destruct (negb (via_enabled c)); [reflexivity|]. apply forallb_app'; piece.
      * unfold v_fwd. piece.
      * apply forallb_flat_map. intros [n a]. unfold v_server. apply forallb_app'; piece.
      * unfold v_try. apply forallb_flat_map. intro. piece.
      * unfold v_forced. apply forallb_flat_map. intro. apply forallb_flat_map. intro. piece.
      * unfold v_forced_dup. apply known_dup_loop.
      * unfold v_level. piece.
      * unfold v_threshold. piece.
  - unfold v_bedrock. destruct (bedrock_enabled c && bf_enabled c); [|reflexivity].
    apply forallb_app'; [destruct (bf_allowed c); reflexivity | apply known_bed_loop].
Qed.
