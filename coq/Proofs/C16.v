(* C16 - proofs about Model/Switch.v. *)
From Coq Require Import List Arith Bool Lia.
From Verif Require Import Base.Conc Base.Lin Model.Switch.
Import ListNotations.

(* ---------- A. basics ---------- *)

Lemma conn_eqb_refl c : conn_eqb c c = true.
Proof. unfold conn_eqb. now rewrite !Nat.eqb_refl. Qed.

Lemma conn_eqb_eq a b : conn_eqb a b = true -> a = b.
Proof.
  destruct a as [s1 n1], b as [s2 n2]. unfold conn_eqb. cbn.
  intros H. apply andb_true_iff in H. destruct H as [H1 H2].
  apply Nat.eqb_eq in H1. apply Nat.eqb_eq in H2. now subst.
Qed.

Lemma conn_eqb_neq a b : a <> b -> conn_eqb a b = false.
Proof.
  intros H. destruct (conn_eqb a b) eqn:E; [|reflexivity].
  exfalso. apply H. now apply conn_eqb_eq.
Qed.

Lemma remove_conn_notin c l : ~ In c l -> remove_conn c l = l.
Proof.
  induction l as [|x l IH]; intros H; [reflexivity|].
  cbn. rewrite conn_eqb_neq.
  - cbn. f_equal. apply IH. intros Hin. apply H. now right.
  - intros ->. apply H. now left.
Qed.

Lemma remove_conn_head c l : remove_conn c (c :: l) = remove_conn c l.
Proof. cbn. now rewrite conn_eqb_refl. Qed.

Lemma remove_conn_single c : remove_conn c [c] = [].
Proof. now rewrite remove_conn_head. Qed.

Lemma remove_nat_single n : remove_nat n [n] = [].
Proof. cbn. now rewrite Nat.eqb_refl. Qed.

Lemma nth_bump_same t : forall l, nth t (bump t l) 0 = S (nth t l 0).
Proof.
  induction t as [|t IH]; intros [|n l]; cbn; try reflexivity.
  - rewrite IH. now destruct t.
  - apply IH.
Qed.

Lemma nth_bump_other t : forall l u, u <> t -> nth u (bump t l) 0 = nth u l 0.
Proof.
  induction t as [|t IH]; intros [|n l] [|u] H; cbn; try reflexivity; try congruence.
  - now destruct u.
  - rewrite IH by congruence. now destruct u.
  - apply IH. congruence.
Qed.

Lemma nth_bump_le t l u : nth u l 0 <= nth u (bump t l) 0.
Proof.
  destruct (Nat.eq_dec u t) as [->|H].
  - rewrite nth_bump_same. lia.
  - rewrite nth_bump_other by assumption. lia.
Qed.

Definition olist {A} (o : option A) : list A := match o with Some x => [x] | None => [] end.

(* ---------- B. sequential histories: the quiescent-state invariant ---------- *)

(* every open connection was numbered below its server's counter (so a newly opened one is new) *)
Definition fresh (s : st) : Prop :=
  forall c, In c (opened s) -> c_no c < nth (c_srv c) (attempts s) 0.

(* between two operations: nothing in flight; the only open backend connection is the current one;
   the player is in the list of exactly its current server; a player that is gone has no server *)
Definition quiet (s : st) : Prop :=
  flight s = None /\
  opened s = olist (cur s) /\
  lists s = map c_srv (olist (cur s)) /\
  (alive s = false -> cur s = None) /\
  fresh s.

Lemma quiet_init : quiet init_st.
Proof. unfold quiet, init_st, fresh. cbn. repeat split; auto. intros c []. Qed.

Ltac simp_conn :=
  repeat first
    [ rewrite Nat.eqb_refl
    | progress cbv beta iota zeta delta
        [negb andb orb filter app map olist c_srv c_no
         cur flight lists opened tryi alive attempts
         set_cur set_flight set_tryi close_plain close_joined remove_nat remove_conn conn_eqb
         join do_switch reset_if_flight
         oconn_eqb add_nat existsb fst snd option_map] ].

(* what one attempt does to a quiescent state *)
Lemma attempt_cases e t s :
  quiet s -> alive s = true ->
  let r := attempt e t s in
  quiet (fst r) /\ alive (fst r) = alive s /\
  ((snd r = OutSuccess /\ exists c, cur (fst r) = Some c /\ c_srv c = t) \/
   (snd r <> OutSuccess /\ (cur (fst r) = cur s \/ cur (fst r) = None) /\
    (fam e = FamA -> cur (fst r) = cur s))).
Proof.
  destruct s as [cu fl li op ti al at_].
  intros (Hf & Ho & Hl & Ha & Hfr) Hal. cbn in Hf, Ho, Hl, Ha, Hal. subst fl op li al.
  set (n := nth t at_ 0).
  assert (Hc : n < nth t (bump t at_) 0) by (rewrite nth_bump_same; subst n; lia).
  unfold attempt, open_conn. cbn [attempts opened cur flight lists tryi alive c_no].
  fold n.
  unfold quiet, fresh.
  Ltac fin Hc Hfr' :=
    (split; [repeat split; auto; try discriminate;
             try (intros c [<-|[]]; cbn; first [exact Hc | exact Hfr']);
             try (intros c []) |
     split; [reflexivity|]]);
    try (left; split; [reflexivity|eexists; split; reflexivity]);
    try (right; split; [discriminate|split; [auto|auto]]).
  destruct cu as [[es en]|].
  - assert (Hlt : en < nth es at_ 0) by (apply (Hfr (mkConn es en)); now left).
    assert (Hfr' : en < nth es (bump t at_) 0)
      by (eapply Nat.lt_le_trans; [exact Hlt|apply nth_bump_le]).
    assert (Hd : es <> t \/ en <> n) by (destruct (Nat.eq_dec es t); [subst; right; subst n; lia|now left]).
    destruct (script e t n), (fam e); simp_conn;
      destruct (Nat.eqb_spec es t), (Nat.eqb_spec en n), (Nat.eqb_spec t es), (Nat.eqb_spec n en);
      try (exfalso; lia); try (exfalso; congruence); simp_conn; fin Hc Hfr'.
    all: try (intros HH; discriminate HH); try (intros HH; specialize (Ha HH); discriminate Ha).
  - destruct (script e t n), (fam e); simp_conn; fin Hc Hc.
Qed.

(* a failed attempt that starts without a current server does not move the try cursor *)
Lemma attempt_fail_tryi e t s :
  cur s = None -> snd (attempt e t s) <> OutSuccess -> tryi (fst (attempt e t s)) = tryi s.
Proof.
  destruct s as [cu fl li op ti al at_]. cbn. intros ->.
  unfold attempt, open_conn. cbn [attempts opened cur flight lists tryi alive c_no].
  set (n := nth t at_ 0).
  destruct (script e t n), (fam e); simp_conn; intros H; try reflexivity; try congruence;
    destruct (oconn_eqb _ _); reflexivity.
Qed.

(* ----- nextServerToTry ----- *)

Lemma scan_spec excl : forall l i0 i x,
  scan l i0 excl = Some (i, x) ->
  exists j, i = i0 + j /\ nth_error l j = Some x /\ excl x = false /\
            (forall j', j' < j -> forall y, nth_error l j' = Some y -> excl y = true).
Proof.
  induction l as [|y l IH]; intros i0 i x H; cbn in H; [discriminate|].
  destruct (excl y) eqn:E.
  - destruct (IH _ _ _ H) as (j & -> & Hn & Hx & Hbefore).
    exists (S j). split; [lia|]. split; [exact Hn|]. split; [exact Hx|].
    intros [|j'] Hlt z Hz; cbn in Hz.
    + now inversion Hz; subst.
    + eapply Hbefore; [|exact Hz]. lia.
  - inversion H; subst. exists 0. split; [lia|]. split; [reflexivity|]. split; [exact E|].
    intros j' Hlt. lia.
Qed.

Lemma nth_error_skipn {A} (l : list A) : forall k j, nth_error (skipn k l) j = nth_error l (k + j).
Proof.
  induction l as [|x l IH]; intros [|k] j; cbn; try reflexivity.
  - now destruct j.
  - apply IH.
Qed.

Lemma next_spec e s current s' t :
  next_server_to_try e s current = (s', Some t) ->
  exists i, s' = set_tryi i s /\ tryi s <= i /\ nth_error (try_list e) i = Some t /\
            onat_is current t = false /\
            (forall y, nth_error (try_list e) (tryi s) = Some y -> onat_is current y = true -> tryi s < i).
Proof.
  unfold next_server_to_try.
  destruct (scan _ _ _) as [[i x]|] eqn:E; [|discriminate].
  intros H. inversion H; subst. clear H.
  apply scan_spec in E. destruct E as (j & -> & Hn & Hx & Hbefore).
  rewrite nth_error_skipn in Hn.
  exists (tryi s + j). split; [reflexivity|]. split; [lia|]. split; [exact Hn|]. split.
  - apply orb_false_iff in Hx. tauto.
  - intros y Hy Hex. destruct j as [|j]; [|lia].
    exfalso. rewrite Nat.add_0_r in Hn. rewrite Hy in Hn. inversion Hn; subst.
    apply orb_false_iff in Hx. destruct Hx as [_ Hx]. congruence.
Qed.

Lemma next_none e s current s' :
  next_server_to_try e s current = (s', None) -> s' = s.
Proof.
  unfold next_server_to_try. destruct (scan _ _ _) as [[i x]|]; intros H; inversion H; reflexivity.
Qed.

Lemma onat_is_refl x : onat_is (Some x) x = true.
Proof. cbn. apply Nat.eqb_refl. Qed.

(* ----- Player.Disconnect ----- *)

Lemma kill_quiet s :
  flight s = None -> cur s = None -> opened s = [] -> lists s = [] -> fresh s -> quiet (kill s) /\ alive (kill s) = false.
Proof.
  destruct s as [cu fl li op ti al at_]. cbn. intros -> -> -> -> Hfr.
  unfold kill, quiet, fresh. cbn. repeat split; auto; try (intros c []).
Qed.

(* ----- the fallback walk ----- *)

(* where recover starts: nothing in flight, and either a quiescent state whose current server is not
   the one that failed, or no live backend connection at all (the current connection, if still
   recorded, is the one to the failed server and is already closed) *)
Definition pre_rec (rs : nat) (s : st) : Prop :=
  flight s = None /\ fresh s /\ alive s = true /\
  ((quiet s /\ srv_is (cur s) rs = false /\ cur s <> None) \/
   (opened s = [] /\ lists s = [] /\ (cur s = None \/ srv_is (cur s) rs = true))).

Definition need (e : env) (rs : nat) (s : st) : nat :=
  length (try_list e) - tryi s +
  match nth_error (try_list e) (tryi s) with
  | Some y => if y =? rs then 0 else 1
  | None => 1
  end.

Definition landed (e : env) (s0 s' : st) : Prop :=
  alive s' = false \/
  (exists c, cur s' = Some c /\ In (c_srv c) (try_list e)) \/
  (cur s' = cur s0 /\ cur s0 <> None).

Lemma set_flight_none_id s : flight s = None -> set_flight None s = s.
Proof. destruct s; cbn; intros ->; reflexivity. Qed.

Lemma recover_quiet e : forall f rs s,
  pre_rec rs s -> need e rs s <= f ->
  quiet (recover f e rs s) /\ landed e s (recover f e rs s).
Proof.
  induction f as [|f IH]; intros rs s (Hfl & Hfr & Hal & Hpre) Hneed.
  { exfalso. unfold need in Hneed.
    destruct (nth_error (try_list e) (tryi s)) as [y|] eqn:E.
    - assert (tryi s < length (try_list e)) by (apply nth_error_Some; congruence).
      destruct (y =? rs); lia.
    - lia. }
  cbn [recover]. rewrite Hal. cbn [negb].
  destruct Hpre as [(Hq & Hne & Hcur) | (Hop & Hli & Hcur)].
  - (* the failed server is not the current one: a chat message, nothing changes *)
    destruct (cur s) as [c|] eqn:Ec; [|congruence].
    cbn in Hne. rewrite Hne.
    rewrite set_flight_none_id by assumption. split; [assumption|].
    right. right. rewrite Ec. split; [reflexivity|discriminate].
  - assert (Hk : match cur s with None => true | Some c => c_srv c =? rs end = true).
    { destruct Hcur as [->|H]; [reflexivity|]. destruct (cur s); [exact H|reflexivity]. }
    rewrite Hk.
    destruct (next_server_to_try e s (Some rs)) as [s1 [t|]] eqn:En.
    + destruct (next_spec _ _ _ _ _ En) as (i & -> & Hle & Hnth & Hex & Hadv).
      set (s2 := set_cur None (set_flight None (set_tryi i s))).
      assert (Hq2 : quiet s2).
      { destruct s as [cu fl li op ti al at_]. cbn in *. subst. unfold s2, quiet, fresh. cbn.
        repeat split; auto. intros c []. }
      assert (Hcs : check_server s2 t = None) by reflexivity.
      rewrite Hcs.
      assert (Hal2 : alive s2 = true) by (destruct s; exact Hal).
      pose proof (attempt_cases e t s2 Hq2 Hal2) as Hatt.
      destruct (attempt e t s2) as [s3 o] eqn:Ea. cbn [fst snd] in Hatt.
      destruct Hatt as (Hq3 & Hal3 & [(Ho & c & Hc3 & Hct) | (Ho & Hcur3 & _)]).
      * subst o. split; [assumption|]. right. left. exists c. split; [assumption|].
        subst t. eapply nth_error_In; eassumption.
      * assert (Hc3 : cur s3 = None) by (destruct Hcur3 as [H|H]; [rewrite H; reflexivity|exact H]).
        assert (Ht3 : tryi s3 = i).
        { pose proof (attempt_fail_tryi e t s2 eq_refl) as H. rewrite Ea in H. cbn [fst snd] in H.
          rewrite H by assumption. destruct s; reflexivity. }
        assert (Hrec : quiet (recover f e t s3) /\ landed e s3 (recover f e t s3)).
        { apply IH.
          - destruct Hq3 as (A & B & C & D & E). repeat split; auto; [congruence|].
            right. rewrite Hc3 in B, C. cbn in B, C. auto.
          - unfold need. rewrite Ht3, Hnth, Nat.eqb_refl.
            assert (i < length (try_list e)) by (apply nth_error_Some; congruence).
            unfold need in Hneed.
            destruct (nth_error (try_list e) (tryi s)) as [y|] eqn:E.
            + destruct (Nat.eqb_spec y rs) as [->|].
              * assert (tryi s < i) by (apply (Hadv rs eq_refl), onat_is_refl). lia.
              * lia.
            + lia. }
        destruct o; [congruence| |]; (split; [apply Hrec|]);
          destruct Hrec as (_ & [H|[H|(H1 & H2)]]); try (left; exact H); try (right; left; exact H);
          congruence.
    + apply next_none in En. subst s1.
      assert (Hk2 : quiet (kill (set_cur None (set_flight None s))) /\
                    alive (kill (set_cur None (set_flight None s))) = false).
      { apply kill_quiet; destruct s; cbn in *; auto. }
      split; [apply Hk2|]. left. apply Hk2.
Qed.

Lemma need_le_fuel e rs s : need e rs s <= fuel_of e.
Proof.
  unfold need, fuel_of. destruct (nth_error _ _) as [y|]; [destruct (y =? rs)|]; lia.
Qed.
